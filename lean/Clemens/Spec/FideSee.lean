import Clemens.Spec.Fide
/-
Specification of the static exchange: full minimax of the capture sequence on one square.
Each side recaptures with its least valuable attacker (P < N < B < R < Q < K, lowest square
among equals — the engine's tie-break), attackers are recomputed on the board after every
capture (so pieces behind join in), either side may stop, and a king may capture only when
the other side has no attacker left (it cannot move into check).
-/
namespace Clemens.Fide

/-- least valuable attacker of `t` for colour `c`: kinds in order, lowest square first -/
def leastAttacker (p : Pos) (c t : Nat) : Option Nat :=
  let as := attackers p c t
  (List.range 6).findSome? fun k => as.find? fun s => kindOf (p.at s) == k

/-- best result for `side`, who may capture the piece of value `victim` standing on `t`, or stop -/
def seeRec (value : Nat → Int) : Nat → Pos → Nat → Nat → Int → Int
  | 0, _, _, _, _ => 0
  | fuel+1, p, t, side, victim =>
    match leastAttacker p side t with
    | none => 0
    | some s =>
      let k := kindOf (p.at s)
      let b := setSq (setSq p.board s 0) t (p.at s)
      let q := { p with board := b }
      if k == 5 && attacked q (other side) t then 0
      else max 0 (victim - seeRec value fuel q t (other side) (value k))

/-- exchange value of the capture `src → tgt` for the side making it -/
def see (value : Nat → Int) (p : Pos) (src tgt : Nat) : Int :=
  let k := kindOf (p.at src)
  let victim := value (kindOf (p.at tgt))
  let b := setSq (setSq p.board src 0) tgt (p.at src)
  let q := { p with board := b }
  victim - seeRec value 40 q tgt (other (colorOf (p.at src))) (value k)

def signOf (i : Int) : Int := if i < 0 then -1 else if i > 0 then 1 else 0

end Clemens.Fide
