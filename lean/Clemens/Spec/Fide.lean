import Clemens.Spec.Geo
/-
The rules of chess on a mailbox board with (file, rank) geometry — the readable
specification.  No bitboards, no tables, no hashing.  Executable, so it doubles as the
oracle for the failing-input search.
Piece codes as in FEN order: 0 empty, colour*8 + kind + 1 with kind 0..5 = P N B R Q K.
-/
namespace Clemens.Fide

structure Pos where
  board : Array Nat        -- 64 entries, a1 = 0 … h8 = 63
  side : Nat               -- 0 white, 1 black
  castling : Nat           -- bit 0 K, bit 1 Q, bit 2 k, bit 3 q
  ep : Option Nat          -- en passant target square
  hmc : Nat                -- half-move clock
  fullmove : Nat
deriving DecidableEq, Repr, Inhabited

/-- a move in UCI long algebraic notation: from, to, promotion piece kind (1..4 = N B R Q) -/
structure Move where
  src : Nat
  tgt : Nat
  promo : Option Nat
deriving DecidableEq, Repr, Inhabited

def Pos.at (p : Pos) (s : Nat) : Nat := p.board.getD s 0
def colorOf (pc : Nat) : Nat := pc / 8
def kindOf (pc : Nat) : Nat := pc % 8 - 1
def mkPiece (c k : Nat) : Nat := c * 8 + k + 1
def other (c : Nat) : Nat := 1 - c

def isOwn (p : Pos) (c s : Nat) : Bool := p.at s != 0 && colorOf (p.at s) == c

/-- squares a slider on `s` sees along `d`: up to and including the first occupied square -/
def rayFrom (p : Pos) (d : Dir) (s : Nat) : List Nat :=
  let rec go : Nat → Nat → List Nat
    | 0, _ => []
    | fuel+1, k => match Geo.step d k s with
      | none => []
      | some t => if p.at t != 0 then [t] else t :: go fuel (k + 1)
  go 7 1

def dirsOfKind (k : Nat) : List Dir :=
  if k = 2 then bishopDirs else if k = 3 then rookDirs else if k = 4 then Dir.all else []

/-- does the piece standing on `s` attack square `t`? -/
def pieceAttacks (p : Pos) (s t : Nat) : Bool :=
  let pc := p.at s
  if pc = 0 then false else
  let c := colorOf pc
  let k := kindOf pc
  if k = 0 then Geo.pawnAttack c s t
  else if k = 1 then Geo.knightStep s t
  else if k = 5 then Geo.kingStep s t
  else (dirsOfKind k).any fun d => (rayFrom p d s).contains t

/-- the squares from which pieces of colour `c` attack `t` -/
def attackers (p : Pos) (c t : Nat) : List Nat :=
  (List.range 64).filter fun s => isOwn p c s && pieceAttacks p s t

def attacked (p : Pos) (c t : Nat) : Bool := !(attackers p c t).isEmpty

def kingSquare (p : Pos) (c : Nat) : Option Nat :=
  (List.range 64).find? fun s => p.at s == mkPiece c 5

def inCheck (p : Pos) (c : Nat) : Bool := match kingSquare p c with
  | some k => attacked p (other c) k
  | none => false

def promoKinds : List Nat := [1, 2, 3, 4]

def pawnMoves (p : Pos) (s : Nat) : List Move :=
  let c := p.side
  let dr : Int := if c = 0 then 1 else -1
  let homeRank := if c = 0 then 1 else 6
  let lastRank := if c = 0 then 7 else 0
  let withPromo (t : Nat) : List Move :=
    if rankOf t = lastRank then promoKinds.map fun k => ⟨s, t, some k⟩ else [⟨s, t, none⟩]
  let pushes := match Geo.offset 0 dr s with
    | some t1 =>
      if p.at t1 != 0 then [] else
        withPromo t1 ++
        (if rankOf s = homeRank then match Geo.offset 0 (2 * dr) s with
          | some t2 => if p.at t2 == 0 then [⟨s, t2, none⟩] else []
          | none => [] else [])
    | none => []
  let caps := ([1, -1] : List Int).flatMap fun df => match Geo.offset df dr s with
    | some t =>
      if isOwn p (other c) t then withPromo t
      else if p.ep == some t && p.at t == 0 then [⟨s, t, none⟩]
      else []
    | none => []
  pushes ++ caps

def leaperMoves (p : Pos) (s : Nat) (offs : List (Int × Int)) : List Move :=
  offs.filterMap fun o => match Geo.offset o.1 o.2 s with
    | some t => if isOwn p p.side t then none else some ⟨s, t, none⟩
    | none => none

def sliderMoves (p : Pos) (s : Nat) (dirs : List Dir) : List Move :=
  dirs.flatMap fun d => (rayFrom p d s).filterMap fun t => if isOwn p p.side t then none else some ⟨s, t, none⟩

/-- castling: right held, squares between king and rook empty, king not in check and not
passing through or landing on an attacked square -/
def castlingMoves (p : Pos) : List Move :=
  let c := p.side
  let e := if c = 0 then 4 else 60
  let enemy := other c
  let ok (right : Nat) (between : List Nat) (path : List Nat) : Bool :=
    p.castling &&& right != 0 && between.all (fun s => p.at s == 0) &&
    !attacked p enemy e && path.all (fun s => !attacked p enemy s)
  (if ok (if c = 0 then 1 else 4) [e + 1, e + 2] [e + 1, e + 2] then [⟨e, e + 2, none⟩] else []) ++
  (if ok (if c = 0 then 2 else 8) [e - 1, e - 2, e - 3] [e - 1, e - 2] then [⟨e, e - 2, none⟩] else [])

def pseudoMoves (p : Pos) : List Move :=
  ((List.range 64).flatMap fun s =>
    if !isOwn p p.side s then [] else
    let k := kindOf (p.at s)
    if k = 0 then pawnMoves p s
    else if k = 1 then leaperMoves p s Geo.knightOffsets
    else if k = 5 then leaperMoves p s Geo.kingOffsets
    else sliderMoves p s (dirsOfKind k)) ++ castlingMoves p

def setSq (b : Array Nat) (s pc : Nat) : Array Nat := b.setIfInBounds s pc

/-- rights lost when square `s` is the origin or destination of a move -/
def rightsTouched (s : Nat) : Nat :=
  if s = 4 then 3 else if s = 60 then 12 else if s = 7 then 1 else if s = 0 then 2
  else if s = 63 then 4 else if s = 56 then 8 else 0

/-- the successor position under the Laws of Chess -/
def apply (p : Pos) (m : Move) : Pos :=
  let pc := p.at m.src
  let c := p.side
  let k := kindOf pc
  let isPawn := k = 0
  let isCapture := p.at m.tgt != 0
  let isEp := isPawn && fileOf m.src != fileOf m.tgt && p.at m.tgt == 0
  let isCastle := k = 5 && (m.tgt = m.src + 2 || m.src = m.tgt + 2)
  let b := setSq p.board m.src 0
  let placed := match m.promo with
    | some pk => mkPiece c pk
    | none => pc
  let b := setSq b m.tgt placed
  let b := if isEp then setSq b (if c = 0 then m.tgt - 8 else m.tgt + 8) 0 else b
  let b := if isCastle then
      (if m.tgt = m.src + 2 then setSq (setSq b (m.src + 3) 0) (m.src + 1) (mkPiece c 3)
       else setSq (setSq b (m.src - 4) 0) (m.src - 1) (mkPiece c 3))
    else b
  let lost := rightsTouched m.src ||| rightsTouched m.tgt
  let isDouble := isPawn && (m.tgt = m.src + 16 || m.src = m.tgt + 16)
  { board := b
    side := other c
    castling := p.castling &&& (15 - lost)
    ep := if isDouble then some (if c = 0 then m.src + 8 else m.src - 8) else none
    hmc := if isPawn || isCapture then 0 else p.hmc + 1
    fullmove := if c = 1 then p.fullmove + 1 else p.fullmove }

def legalMoves (p : Pos) : List Move :=
  (pseudoMoves p).filter fun m => !inCheck (apply p m) p.side

def perft (p : Pos) : Nat → Nat
  | 0 => 1
  | d+1 => ((legalMoves p).map fun m => perft (apply p m) d).sum

def isCheckmate (p : Pos) : Bool := inCheck p p.side && (legalMoves p).isEmpty
def isStalemate (p : Pos) : Bool := !inCheck p p.side && (legalMoves p).isEmpty

/-! ### text -/
def sqName (s : Nat) : String :=
  String.singleton (Char.ofNat (97 + fileOf s)) ++ toString (rankOf s + 1)

def Move.uci (m : Move) : String :=
  sqName m.src ++ sqName m.tgt ++ (match m.promo with
    | some 1 => "n" | some 2 => "b" | some 3 => "r" | some 4 => "q" | _ => "")

def pieceChar (pc : Nat) : Char := " PNBRQK  pnbrqk".toList.getD pc '?'

def toFen (p : Pos) : String :=
  let rankStr (r : Nat) : String :=
    let (s, e) := (List.range 8).foldl (fun (acc : String × Nat) f =>
      let pc := p.at (r * 8 + f)
      if pc = 0 then (acc.1, acc.2 + 1)
      else ((if acc.2 > 0 then acc.1 ++ toString acc.2 else acc.1).push (pieceChar pc), 0)) ("", 0)
    if e > 0 then s ++ toString e else s
  let placement := "/".intercalate ([7, 6, 5, 4, 3, 2, 1, 0].map rankStr)
  let cast := (if p.castling &&& 1 != 0 then "K" else "") ++ (if p.castling &&& 2 != 0 then "Q" else "") ++
              (if p.castling &&& 4 != 0 then "k" else "") ++ (if p.castling &&& 8 != 0 then "q" else "")
  placement ++ (if p.side = 0 then " w " else " b ") ++ (if cast = "" then "-" else cast) ++ " " ++
    (match p.ep with | some s => sqName s | none => "-") ++ " " ++ toString p.hmc ++ " " ++ toString p.fullmove

/-- the legality conditions on a position that C01/C10 quantify over -/
def wellFormed (p : Pos) : Bool :=
  p.board.size == 64 &&
  ((List.range 64).filter fun s => p.at s == mkPiece 0 5).length == 1 &&
  ((List.range 64).filter fun s => p.at s == mkPiece 1 5).length == 1 &&
  (List.range 64).all (fun s => let pc := p.at s; pc == 0 || (pc % 8 ≥ 1 && pc % 8 ≤ 6 && pc / 8 ≤ 1)) &&
  (List.range 8).all (fun f => kindOf (p.at f) != 0 || p.at f == 0) &&
  (List.range 8).all (fun f => kindOf (p.at (56 + f)) != 0 || p.at (56 + f) == 0) &&
  (p.castling &&& 1 == 0 || (p.at 4 == 6 && p.at 7 == 4)) &&
  (p.castling &&& 2 == 0 || (p.at 4 == 6 && p.at 0 == 4)) &&
  (p.castling &&& 4 == 0 || (p.at 60 == 14 && p.at 63 == 12)) &&
  (p.castling &&& 8 == 0 || (p.at 60 == 14 && p.at 56 == 12)) &&
  (match p.ep with
    | none => true
    | some e =>
      if p.side = 0 then rankOf e == 5 && p.at e == 0 && p.at (e - 8) == 9 && p.at (e + 8) == 0
      else rankOf e == 2 && p.at e == 0 && p.at (e + 8) == 1 && p.at (e - 8) == 0) &&
  !inCheck p (other p.side)

end Clemens.Fide
