import Clemens.Model.Bits
/-
Geometry of the board on (file, rank) coordinates: the readable specification that the
bit-twiddling of the engine is measured against.  No bit operations here except reading
whether a square is in the occupancy.
-/
namespace Clemens.Geo

/-- the square `k` steps from `s` in direction `d`, if it is on the board -/
def step (d : Dir) (k : Nat) (s : Nat) : Option Nat :=
  let f : Int := (fileOf s : Int) + k * d.df
  let r : Int := (rankOf s : Int) + k * d.dr
  if 0 ≤ f ∧ f < 8 ∧ 0 ≤ r ∧ r < 8 then some (r * 8 + f).toNat else none

/-- `t` is `k ≥ 1` steps from `s` along `d` and all squares strictly between are empty -/
def reachAlong (d : Dir) (occ : BB) (s t : Nat) : Bool :=
  (List.range 7).any fun j =>
    let k := j + 1
    step d k s == some t &&
      (List.range j).all fun i => match step d (i + 1) s with
        | some u => !occ.has u
        | none => false

/-- `t` is reachable from `s` along an open line in one of `dirs` (up to and including the first blocker) -/
def reach (dirs : List Dir) (occ : BB) (s t : Nat) : Bool := dirs.any fun d => reachAlong d occ s t

/-- leaper step: `t` is `s` displaced by `(df, dr)` -/
def offset (df dr : Int) (s : Nat) : Option Nat :=
  let f : Int := (fileOf s : Int) + df
  let r : Int := (rankOf s : Int) + dr
  if 0 ≤ f ∧ f < 8 ∧ 0 ≤ r ∧ r < 8 then some (r * 8 + f).toNat else none

def knightOffsets : List (Int × Int) := [(1,2),(2,1),(2,-1),(1,-2),(-1,-2),(-2,-1),(-2,1),(-1,2)]
def kingOffsets : List (Int × Int) := [(1,0),(1,1),(0,1),(-1,1),(-1,0),(-1,-1),(0,-1),(1,-1)]

def knightStep (s t : Nat) : Bool := knightOffsets.any fun o => offset o.1 o.2 s == some t
def kingStep (s t : Nat) : Bool := kingOffsets.any fun o => offset o.1 o.2 s == some t
/-- a pawn of colour `c` on `s` attacks `t` -/
def pawnAttack (c s t : Nat) : Bool :=
  let dr : Int := if c = 0 then 1 else -1
  offset 1 dr s == some t || offset (-1) dr s == some t

end Clemens.Geo
