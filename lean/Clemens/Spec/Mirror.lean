import Clemens.Spec.Fide
/- colour mirror of a position: board flipped top to bottom, colours and side to move swapped -/
namespace Clemens.Fide

def mirrorPiece (pc : Nat) : Nat := if pc = 0 then 0 else if pc ≥ 8 then pc - 8 else pc + 8
def mirrorSq (s : Nat) : Nat := (7 - rankOf s) * 8 + fileOf s

def mirror (p : Pos) : Pos :=
  { board := Array.ofFn (n := 64) fun i => mirrorPiece (p.at (mirrorSq i.val))
    side := other p.side
    castling := ((p.castling &&& 3) <<< 2) ||| ((p.castling >>> 2) &&& 3)
    ep := p.ep.map mirrorSq
    hmc := p.hmc
    fullmove := p.fullmove }

end Clemens.Fide
