import Clemens.Model.UciParse
/-
`pkg/uci/input.go` + `pkg/uci/game/game.go`: what each input line does to the three-state
flag and what it prints, when every search is allowed to finish before the next line is
read (the sequential reading of the dialogue; interleavings are in `Model/UciConc.lean`).
-/
namespace Clemens

inductive Flag | idle | positionSet | running
deriving DecidableEq, Repr, Inhabited

structure GameSt where
  flag : Flag := .idle
  hasSearch : Bool := false
deriving DecidableEq, Repr, Inhabited

/-- canonical output events -/
inductive Ev
  | readyok | uciok | bestmove | noPosition | wrongState | noNewPosition | fenShort | fenBroken | moveError | goMsg
deriving DecidableEq, Repr

def Ev.str : Ev → String
  | .readyok => "R" | .uciok => "U" | .bestmove => "B" | .noPosition => "N" | .wrongState => "W"
  | .noNewPosition => "E" | .fenShort => "S" | .fenBroken => "F" | .moveError => "M" | .goMsg => "G"

/-- how the `position` arguments were classified by the caller (the chess part is modelled elsewhere) -/
inductive PosArgs | empty | startpos | fenShort | fenBroken | fenOk | other
deriving DecidableEq, Repr

/-- one input line in sequential mode; `movesOk`: every move of the `moves` list was accepted;
`goMsgs`: number of `info string` lines parseGo prints for the arguments -/
def dialogStep (st : GameSt) (cmd : String) (pa : PosArgs) (movesOk : Bool) (goMsgs : Nat) : Option (GameSt × List Ev) :=
  if cmd = "isready" then some (st, [.readyok])
  else if cmd = "uci" then some (st, [.uciok])
  else if cmd = "ucinewgame" then some ({}, [])
  else if cmd = "position" then
    if st.flag = .running then some (st, [.wrongState])
    else match pa with
      | .empty => some (st, [.noNewPosition])
      | .fenShort => some (st, [.fenShort])
      | .fenBroken => some (st, [.fenBroken])
      | .other => none           -- nil position: NewSearch(*pos) panics (outside the domain of C07)
      | .startpos | .fenOk =>
        some ({ flag := .positionSet, hasSearch := true }, if movesOk then [] else [.moveError])
  else if cmd = "go" then
    if st.flag ≠ .positionSet || !st.hasSearch then some (st, [.noPosition])
    else
      -- accepted: parseGo messages, then (the search being allowed to finish) exactly one bestmove, flag back to idle
      some ({ st with flag := .idle }, List.replicate goMsgs .goMsg ++ [.bestmove])
  else if cmd = "stop" then some (st, [])      -- nothing is running between lines in sequential mode
  else some (st, [])                            -- debug, setoption, ponderhit, unknown commands: ignored

end Clemens
