import Clemens.Model.Pos
import Clemens.Gen.Consts
import Std.Data.HashMap
/-
`pkg/search/transpositiontable`: 4-way buckets, Get and PotentiallySave.
The table is a finite map from bucket index to bucket; absent buckets are all-zero entries.
-/
namespace Clemens

structure TTEntry where
  hash : BB := 0#64
  move : Move := 0
  score : Int := 0
  depth : Nat := 0
  ageNode : Nat := 0        -- ageAndNodeType: bits 0-1 node type, bits 2-7 age
deriving Repr, DecidableEq, Inhabited

def TTEntry.nodeType (e : TTEntry) : Nat := e.ageNode &&& 3
def TTEntry.age (e : TTEntry) : Nat := e.ageNode >>> 2
/-- `setNodeType` then `setAge` (uint8 arithmetic) -/
def packAgeNode (old nt age : Nat) : Nat :=
  let a := (old &&& 0xFC) ||| (nt % 256)
  (a &&& 3) ||| ((age <<< 2) % 256)

abbrev Bucket := List TTEntry   -- always 4 entries

structure TT where
  buckets : Std.HashMap Nat Bucket := {}

def emptyBucket : Bucket := List.replicate Gen.ttBucketSize {}

def TT.bucket (t : TT) (key : Nat) : Bucket := t.buckets.getD key emptyBucket

def ttKey (h : BB) : Nat := h.toNat % Gen.ttNumberOfBuckets

/-- node types: 0 PV (exact), 1 alpha (upper bound), 2 beta (lower bound) -/
def ttGet (t : TT) (h : BB) (alpha beta : Int) (depth ply : Nat) : Int × Bool × Move :=
  match (t.bucket (ttKey h)).find? (fun e => e.hash == h) with
  | none => (0, false, 0)
  | some te =>
    if te.depth < depth then (0, false, te.move)
    else
      let score := te.score
      let score := if score > INF' - 100 then score - ply else if score < -INF' + 100 then score + ply else score
      if te.nodeType = 1 then (if score ≤ alpha then (alpha, true, te.move) else (score, false, te.move))
      else if te.nodeType = 2 then (if score ≥ beta then (beta, true, te.move) else (score, false, te.move))
      else if te.nodeType = 0 then (score, true, te.move)
      else (score, false, te.move)
where INF' : Int := 32767

/-- index of the slot `PotentiallySave` writes: first empty, else first with `depth ≤ d ∧ age ≥ a`, else the last -/
def ttSlot (b : Bucket) (depth age : Nat) : Nat :=
  match b.findIdx? (fun e => e.hash == 0#64 || (e.depth ≤ depth && e.age ≥ age)) with
  | some i => i
  | none => b.length - 1

def ttSave (t : TT) (h : BB) (m : Move) (depth : Nat) (score : Int) (nt age : Nat) : TT :=
  let key := ttKey h
  let b := t.bucket key
  let i := ttSlot b depth age
  let old := b.getD i {}
  let e : TTEntry := { hash := h, move := m, depth := depth, score := score, ageNode := packAgeNode old.ageNode nt age }
  { buckets := t.buckets.insert key (b.set i e) }

end Clemens
