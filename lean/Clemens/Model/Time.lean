/-
`search.calculateTime` and `search.SearchParameter`.
-/
namespace Clemens

structure SearchParams where
  wtime : Int := 0
  btime : Int := 0
  winc : Int := 0
  binc : Int := 0
  movesToGo : Int := 0
  depth : Nat := 0         -- uint8
  moveTime : Int := 0
  infinite : Bool := false
deriving Repr, DecidableEq, Inhabited

def maxTimeInMs : Int := 1000000

/-- `calculateTime(sideToMove, plys, sp)` (Go `int` is 64 bit; `/` truncates toward zero) -/
def calculateTime (side : Nat) (plys : Int) (sp : SearchParams) : Int :=
  let t := if side = 1 then sp.btime else sp.wtime
  let inc := if side = 1 then sp.binc else sp.winc
  let remainingMoves := max (60 - plys.tdiv 2) 20
  let movetime :=
    if sp.moveTime > 0 then sp.moveTime
    else if t > 0 then min ((t + inc * remainingMoves).tdiv remainingMoves) maxTimeInMs
    else 1000
  let movetime := if t > 0 then min movetime t else movetime
  movetime - max (movetime.tdiv 10) 50

end Clemens
