import Clemens.Model.Pos
import Clemens.Gen.Consts
/-
`pkg/move/movelist.go` (SortIndex) and `pkg/search/move_ordering.go` (scoreMoves).
-/
namespace Clemens

/-- index of the best candidate as `SortIndex(cur)` finds it: the first strictly greater
score wins over the running best, scanning left to right from `cur+1` -/
def bestIndex (l : List Move) (cur : Nat) : Nat :=
  let rec go (i : Nat) (rest : List Move) (idx : Nat) (score : Nat) : Nat :=
    match rest with
    | [] => idx
    | m :: ms => if m.score > score then go (i + 1) ms i m.score else go (i + 1) ms idx score
  go (cur + 1) (l.drop (cur + 1)) cur ((l.getD cur 0).score)

/-- `MoveList.SortIndex(cur)`: swap the best remaining move to position `cur` -/
def sortIndex (l : List Move) (cur : Nat) : List Move :=
  let idx := bestIndex l cur
  let a := l.getD cur 0
  let b := l.getD idx 0
  (l.set cur b).set idx a

/-- the order in which the search visits a scored list: `for i { SortIndex(i); Get(i) }` -/
def visitOrder (l : List Move) : List Move :=
  let rec go (fuel : Nat) (i : Nat) (l : List Move) (acc : List Move) : List Move :=
    match fuel with
    | 0 => acc.reverse
    | fuel+1 =>
      if i ≥ l.length then acc.reverse
      else
        let l := sortIndex l i
        go fuel (i + 1) l (l.getD i 0 :: acc)
  go l.length 0 l []

/-- heuristic state read by `scoreMoves` -/
structure Heur where
  killers : Nat → Nat → Move          -- KillerMoves[ply][0|1]
  history : Nat → Nat → Nat → Nat     -- history[side][src][tgt]
  counter : Nat → Nat → Nat → Move    -- counter[side][src][tgt]

def pvMoveScore : Nat := (Gen.search_moveScores.getD 0 0).toNat
def ttMoveScore : Nat := (Gen.search_moveScores.getD 1 0).toNat
def killerMoveScore : Nat := (Gen.search_moveScores.getD 2 0).toNat
def promotionScore : Nat := (Gen.search_moveScores.getD 3 0).toNat
def counterMoveBonus : Nat := (Gen.search_moveScores.getD 4 0).toNat
def mvvLva (victim aggressor : Nat) : Nat := (Gen.mvvLva.getD victim []).getD aggressor 0

/-- the score `scoreMoves` gives one move (`none`: Go panic, e.g. MVV_LVA indexed by a king victim) -/
def scoreOf (p : Pos) (h : Heur) (pvMove ttMove : Move) (ply : Nat) (m : Move) : Option Nat :=
  if m = pvMove then some pvMoveScore
  else if m = ttMove then some ttMoveScore
  else
    let target := if m.kind = 2 then (if p.side = 1 then 1 else 9) else p.at m.tgt
    if target = 0 then
      if m.kind = 1 then some promotionScore
      else if m = h.killers ply 0 then some killerMoveScore
      else if m = h.killers ply 1 then some (killerMoveScore - 1)
      else
        let score := h.history p.side m.src m.tgt
        let score := if h.counter p.side m.src m.tgt = m then (score + counterMoveBonus) % 65536 else score
        some score
    else
      let vt := pieceType target
      let at' := pieceType (p.at m.src)
      if vt ≥ 5 || at' ≥ 6 then none
      else some ((mvvLva vt at' + promotionScore) % 65536)

/-- `scoreMoves` -/
def scoreMoves (p : Pos) (h : Heur) (pvMove ttMove : Move) (ply : Nat) (l : List Move) : Option (List Move) :=
  l.mapM fun m => do
    let s ← scoreOf p h pvMove ttMove ply m
    pure (m.setScore s)

end Clemens
