import Clemens.Model.Sliding
import Clemens.Gen.Zobrist
/-
`pkg/position`: the Position value, piece bookkeeping, Zobrist hashing, attack queries,
pseudo-legal generators, MakeMove, null move.  A Go panic is `none`.
-/
namespace Clemens

/-! ### small total array helpers -/
@[inline] def vget {α : Type} {n : Nat} (v : Vector α n) (i : Nat) (d : α) : α := (v[i]?).getD d
@[inline] def vset {α : Type} {n : Nat} (v : Vector α n) (i : Nat) (x : α) : Vector α n := v.setIfInBounds i x

/-! ### pieces (`types.Piece`): 0 none, 1..6 white P N B R Q K, 9..14 black -/
def pieceColor (p : Nat) : Nat := p >>> 3
/-- `Piece.Type()`: `(p & 7) - 1` in `uint8` (255 for NO_PIECE) -/
def pieceType (p : Nat) : Nat := ((p &&& 7) + 255) % 256
def validPiece (p : Nat) : Bool := pieceColor p < 2 && pieceType p < 6
/-- `types.NewPiece` -/
def newPiece (c t : Nat) : Nat := (t + 1) + c * 8
/-- `types.SwitchColor`: BLACK ↦ WHITE, everything else ↦ BLACK -/
def switchColor (c : Nat) : Nat := if c = 1 then 0 else 1

def PAWN := 0
def KNIGHT := 1
def BISHOP := 2
def ROOK := 3
def QUEEN := 4
def KING := 5

/-! ### Zobrist keys -/
structure Keys where
  piece : Nat → Nat → Nat → BB
  side : BB
  castling : Nat → BB
  ep : Nat → BB

def realKeys : Keys where
  piece s c t := BitVec.ofNat 64 (Gen.zobristData.getD ((s * 2 + c) * 6 + t) 0)
  side := BitVec.ofNat 64 (Gen.zobristData.getD 768 0)
  castling i := BitVec.ofNat 64 (Gen.zobristData.getD (769 + i) 0)
  ep f := BitVec.ofNat 64 (Gen.zobristData.getD (773 + f) 0)

/-! ### the position -/
structure Pos where
  bb : Vector BB 12          -- PiecesBitboard[c][t] at index c*6+t
  board : Vector Nat 64      -- PiecesBoard
  all : BB                   -- AllPieces
  white : BB                 -- AllPiecesByColor[WHITE]
  black : BB                 -- AllPiecesByColor[BLACK]
  side : Nat                 -- SideToMove (0 white, 1 black)
  castling : Nat             -- Castling (bit 0 K, 1 Q, 2 k, 3 q)
  ep : Nat                   -- EnPassant (64 = SQUARE_NONE)
  hmc : Nat                  -- HalfMoveClock (uint8)
  ply : Nat                  -- Ply (uint8)
  hash : BB                  -- ZobristHash
deriving DecidableEq, Repr

def Pos.empty : Pos :=
  { bb := Vector.replicate 12 0#64, board := Vector.replicate 64 0, all := 0#64, white := 0#64, black := 0#64,
    side := 0, castling := 0, ep := 0, hmc := 0, ply := 0, hash := 0#64 }

instance : Inhabited Pos := ⟨Pos.empty⟩

@[inline] def Pos.pieces (p : Pos) (c t : Nat) : BB := vget p.bb (c * 6 + t) 0#64
@[inline] def Pos.at (p : Pos) (s : Nat) : Nat := vget p.board s 0
@[inline] def Pos.byColor (p : Pos) (c : Nat) : BB := if c = 0 then p.white else p.black
@[inline] def Pos.isEmpty (p : Pos) (s : Nat) : Bool := p.at s == 0

/-- `SetPiece` -/
def setPiece (K : Keys) (p : Pos) (pc s : Nat) : Option Pos :=
  if s < 64 && validPiece pc then
    let c := pieceColor pc
    let t := pieceType pc
    some { p with
      board := vset p.board s pc
      bb := vset p.bb (c * 6 + t) (p.pieces c t ||| bit s)
      hash := p.hash ^^^ K.piece s c t }
  else none

/-- `DeletePiece` (returns the removed piece) -/
def deletePiece (K : Keys) (p : Pos) (s : Nat) : Option (Pos × Nat) :=
  let pc := p.at s
  if s < 64 && validPiece pc then
    let c := pieceColor pc
    let t := pieceType pc
    some ({ p with
      board := vset p.board s 0
      bb := vset p.bb (c * 6 + t) (p.pieces c t &&& ~~~(bit s))
      hash := p.hash ^^^ K.piece s c t }, pc)
  else none

/-- `MovePiece` -/
def movePiece (K : Keys) (p : Pos) (f t : Nat) : Option (Pos × Nat) := do
  let (p, pc) ← deletePiece K p f
  let p ← setPiece K p pc t
  pure (p, pc)

/-- `generateHelperBitboards` -/
def helperBitboards (p : Pos) : Pos :=
  let w := (List.range 6).foldl (fun acc t => acc ||| p.pieces 0 t) 0#64
  let b := (List.range 6).foldl (fun acc t => acc ||| p.pieces 1 t) 0#64
  { p with white := w, black := b, all := w ||| b }

/-- `boardToBitBoard` -/
def boardToBitBoard (p : Pos) : Pos :=
  (List.range 64).foldl (fun p s =>
    let pc := p.at s
    if pc == 0 then p else
      let c := pieceColor pc
      let t := pieceType pc
      { p with bb := vset p.bb (c * 6 + t) (p.pieces c t ||| bit s) }) p

/-! ### hashing -/

/-- the castling rights in the order `initZobristHash` visits them, with key index -/
def castlingRights : List (Nat × Nat) := [(1, 0), (2, 1), (4, 2), (8, 3)]

/-- `initZobristHash`: the hash computed from scratch -/
def fullHash (K : Keys) (p : Pos) : BB :=
  let h := (List.range 64).foldl (fun h s =>
    let pc := p.at s
    if pc != 0 then h ^^^ K.piece s (pieceColor pc) (pieceType pc) else h) 0#64
  let h := if p.side = 1 then h ^^^ K.side else h
  let h := castlingRights.foldl (fun h (r : Nat × Nat) => if p.castling &&& r.1 != 0 then h ^^^ K.castling r.2 else h) h
  if p.ep != 64 then h ^^^ K.ep (fileOf p.ep) else h

/-! ### attack queries -/

/-- `SquareAttackedBy` -/
def squareAttackedBy (p : Pos) (s : Nat) : BB :=
  let occ := p.all
  let knights := p.pieces 0 KNIGHT ||| p.pieces 1 KNIGHT
  let a := knightAttacks s &&& knights
  let kings := p.pieces 0 KING ||| p.pieces 1 KING
  let a := a ||| (kingAttacks s &&& kings)
  let diag := p.pieces 0 BISHOP ||| p.pieces 1 BISHOP ||| p.pieces 0 QUEEN ||| p.pieces 1 QUEEN
  let a := a ||| (bishopAttacks s occ &&& diag)
  let line := p.pieces 0 ROOK ||| p.pieces 1 ROOK ||| p.pieces 0 QUEEN ||| p.pieces 1 QUEEN
  let a := a ||| (rookAttacks s occ &&& line)
  let a := a ||| (pawnAttacks 0 s &&& p.pieces 1 PAWN)
  a ||| (pawnAttacks 1 s &&& p.pieces 0 PAWN)

/-- `IsInCheck(c)` (the Go code panics when `c` has no king; the model then looks at square 64) -/
def isInCheck (p : Pos) (c : Nat) : Bool :=
  let ksq := lsb (p.pieces c KING)
  (squareAttackedBy p ksq &&& p.byColor (switchColor c)) != 0#64

/-- `IsLegal`: the side that just moved is not in check -/
def isLegal (p : Pos) : Bool := !isInCheck p (switchColor p.side)

/-! ### moves (`move.Move`, a 32-bit word) -/
abbrev Move := Nat

def Move.src (m : Move) : Nat := m &&& 63
def Move.tgt (m : Move) : Nat := (m >>> 6) &&& 63
/-- 0 normal, 1 promotion, 2 en passant, 3 castling -/
def Move.kind (m : Move) : Nat := (m >>> 12) &&& 3
/-- `GetPromitionPieceType` -/
def Move.promo (m : Move) : Nat := ((m >>> 14) &&& 3) + 1
def Move.score (m : Move) : Nat := (m >>> 16) &&& 0xFFFF
def Move.mk (src tgt kind : Nat) : Move := src ||| (tgt <<< 6) ||| (kind <<< 12)
/-- `SetPromitionPieceType(pt)`: `*m |= (Move(pt) - 1) << 14` in uint32 -/
def Move.withPromo (m : Move) (pt : Nat) : Move := m ||| (((pt + 4294967295) % 4294967296) <<< 14) % 4294967296
/-- `SetScore` (ORs the score in) -/
def Move.setScore (m : Move) (s : Nat) : Move := m ||| ((s % 65536) <<< 16)

/-! ### castling -/
def castlingColor (c : Nat) : Nat := if c = 1 || c = 2 then 0 else 1
/-- true for the king side -/
def castlingKingSide (c : Nat) : Bool := c = 1 || c = 4

/-- `CanCastleNow` -/
def canCastleNow (p : Pos) (c : Nat) : Bool :=
  if c &&& p.castling == 0 then false
  else if castlingColor c != p.side then false
  else if isInCheck p p.side then false
  else
    let ks := castlingKingSide c
    let ksq := lsb (p.pieces p.side KING)
    let free := if ks then 2 else 3
    let enemy := p.byColor (switchColor p.side)
    (List.range 3).all fun i =>
      let k := i + 1
      -- uint8 arithmetic of `square++` / `square--`
      let sq := if ks then (ksq + k) % 256 else (ksq + 256 - k) % 256
      (k > free || p.isEmpty sq) &&
      (k > 2 || k > free && false || (squareAttackedBy p sq &&& enemy) == 0#64)

/-! ### generators -/

/-- `generateMovesHelper` -/
def genHelper (sources dest : BB) (attacks : Nat → BB) : List Move :=
  (squares sources).flatMap fun s => (squares (attacks s &&& dest)).map fun t => Move.mk s t 0

/-- `pawnMoveWithPromotion` -/
def pawnMoveWithPromotion (side s t : Nat) : List Move :=
  if side = 0 && rankOf t != 7 then [Move.mk s t 0]
  else if side = 1 && rankOf t != 0 then [Move.mk s t 0]
  else [KNIGHT, BISHOP, ROOK, QUEEN].map fun pt => (Move.mk s t 1).withPromo pt

def genPawnCaptures (p : Pos) (s : Nat) : List Move :=
  (squares (pawnAttacks p.side s &&& p.byColor (switchColor p.side))).flatMap fun t => pawnMoveWithPromotion p.side s t

def genEnPassant (p : Pos) (s : Nat) : List Move :=
  if p.ep != 64 then (squares (pawnAttacks p.side s &&& bit p.ep)).map fun t => Move.mk s t 2 else []

/-- `GeneratePseudoLegalCaptures` -/
def genCaptures (p : Pos) : List Move :=
  let occ := p.all
  let dest := p.byColor (switchColor p.side)
  let us := p.side
  genHelper (p.pieces us ROOK) dest (fun s => rookAttacks s occ) ++
  genHelper (p.pieces us BISHOP) dest (fun s => bishopAttacks s occ) ++
  genHelper (p.pieces us QUEEN) dest (fun s => queenAttacks s occ) ++
  genHelper (p.pieces us KNIGHT) dest knightAttacks ++
  ((squares (p.pieces us PAWN)).flatMap fun s => genPawnCaptures p s ++ genEnPassant p s) ++
  genHelper (p.pieces us KING) dest kingAttacks

def genCastling (p : Pos) : List Move :=
  [1, 2, 4, 8].flatMap fun c =>
    if castlingColor c != p.side then []
    else if !canCastleNow p c then []
    else
      let src := lsb (p.pieces p.side KING)
      let tgt := if castlingKingSide c then (src + 2) % 256 else (src + 254) % 256
      -- SetSourceSquare / SetTargetSquare OR the uint8 values in
      [(3 <<< 12) ||| src ||| (tgt <<< 6)]

/-- `GeneratePseudoLegalMoves` -/
def genMoves (p : Pos) : List Move :=
  let occ := p.all
  let us := p.side
  let dest := ~~~(p.byColor us)
  genHelper (p.pieces us ROOK) dest (fun s => rookAttacks s occ) ++
  genHelper (p.pieces us BISHOP) dest (fun s => bishopAttacks s occ) ++
  genHelper (p.pieces us QUEEN) dest (fun s => queenAttacks s occ) ++
  genHelper (p.pieces us KNIGHT) dest knightAttacks ++
  ((squares (p.pieces us PAWN)).flatMap fun s =>
    ((squares (pawnPushesBySquare us s occ)).flatMap fun t => pawnMoveWithPromotion us s t) ++
    genPawnCaptures p s ++ genEnPassant p s) ++
  genCastling p ++
  genHelper (p.pieces us KING) dest kingAttacks

/-- `IsCapture` -/
def isCapture (p : Pos) (m : Move) : Bool := m.kind == 2 || p.at m.tgt != 0

/-! ### MakeMove -/

/-- `removeCastling` -/
def removeCastling (K : Keys) (p : Pos) (c idx : Nat) : Pos :=
  if p.castling &&& c == 0 then p
  else { p with castling := p.castling &&& (15 - c), hash := p.hash ^^^ K.castling idx }

/-- the `switch s` on the source and target square in `MakeMove` -/
def touchSquare (K : Keys) (p : Pos) (s : Nat) : Pos :=
  if s = 0 then removeCastling K p 2 1
  else if s = 7 then removeCastling K p 1 0
  else if s = 56 then removeCastling K p 8 3
  else if s = 63 then removeCastling K p 4 2
  else if s = 4 then removeCastling K (removeCastling K p 2 1) 1 0
  else if s = 60 then removeCastling K (removeCastling K p 8 3) 4 2
  else p

def absDiff (a b : Nat) : Nat := if a ≥ b then a - b else b - a

/-- `MakeMove` -/
def makeMove (K : Keys) (p : Pos) (m : Move) : Option Pos := do
  let p := if p.ep != 64 then { p with hash := p.hash ^^^ K.ep (fileOf p.ep), ep := 64 } else p
  let src := m.src
  let tgt := m.tgt
  let targetPiece := p.at tgt
  let (p, reset) ← if targetPiece != 0 then (do let (p, _) ← deletePiece K p tgt; pure (p, true)) else pure (p, false)
  let p := touchSquare K (touchSquare K p src) tgt
  let (p, piece) ← movePiece K p src tgt
  let (p, reset) ←
    if pieceType piece = PAWN then
      if absDiff src tgt % 256 = 16 then
        let p := { p with ep := tgt, hash := p.hash ^^^ K.ep (fileOf tgt) }
        if p.side = 1 then pure ({ p with ep := (p.ep + 8) % 256 }, true)
        else if p.side = 0 then pure ({ p with ep := (p.ep + 248) % 256 }, true)
        else none
      else pure (p, true)
    else pure (p, reset)
  let p ←
    if m.kind = 3 then
      if tgt = 2 then (do let (p, _) ← movePiece K p 0 3; pure p)
      else if tgt = 6 then (do let (p, _) ← movePiece K p 7 5; pure p)
      else if tgt = 58 then (do let (p, _) ← movePiece K p 56 59; pure p)
      else if tgt = 62 then (do let (p, _) ← movePiece K p 63 61; pure p)
      else none
    else if m.kind = 2 then
      let victim := if p.side = 0 then (tgt + 248) % 256 else if p.side = 1 then (tgt + 8) % 256 else 0
      (do let (p, _) ← deletePiece K p victim; pure p)
    else if m.kind = 1 then
      (do let (p, _) ← deletePiece K p tgt; setPiece K p (newPiece p.side m.promo) tgt)
    else pure p
  let p := { p with ply := (p.ply + 1) % 256, side := switchColor p.side, hash := p.hash ^^^ K.side }
  let p := { p with hmc := if reset then 0 else (p.hmc + 1) % 256 }
  pure (helperBitboards p)

/-- `MakeNullMove` (returns the saved en passant square) -/
def makeNull (K : Keys) (p : Pos) : Pos × Nat :=
  let ep := p.ep
  let p := { p with ply := (p.ply + 1) % 256 }
  let p := if p.ep != 64 then { p with hash := p.hash ^^^ K.ep (fileOf p.ep), ep := 64 } else p
  ({ p with side := switchColor p.side, hash := p.hash ^^^ K.side }, ep)

/-- `UnMakeNullMove` -/
def unmakeNull (K : Keys) (p : Pos) (ep : Nat) : Pos :=
  let p := { p with ply := (p.ply + 255) % 256 }
  let p := if ep != 64 then { p with ep := ep, hash := p.hash ^^^ K.ep (fileOf ep) } else p
  { p with side := switchColor p.side, hash := p.hash ^^^ K.side }

/-- the moves the engine treats as playable, in generation order, with their successors -/
def engineLegal (K : Keys) (p : Pos) : List (Move × Pos) :=
  (genMoves p).filterMap fun m => match makeMove K p m with
    | some q => if isLegal q then some (m, q) else none
    | none => none

/-- `cmd/perft.Perft` -/
def perft (K : Keys) (p : Pos) : Nat → Nat
  | 0 => 1
  | d+1 => ((engineLegal K p).map fun mq => perft K mq.2 d).sum

/-- `position.New()` -/
def startBoard : List Nat :=
  [4, 2, 3, 5, 6, 3, 2, 4, 1, 1, 1, 1, 1, 1, 1, 1] ++ List.replicate 32 0 ++
  [9, 9, 9, 9, 9, 9, 9, 9, 12, 10, 11, 13, 14, 11, 10, 12]

def startPos (K : Keys) : Pos :=
  let p : Pos := { Pos.empty with
    board := (Vector.ofFn (n := 64) fun i => startBoard.getD i.val 0), side := 0, castling := 15, ep := 64, ply := 0 }
  let p := helperBitboards (boardToBitBoard p)
  { p with hash := fullHash K p }

end Clemens
