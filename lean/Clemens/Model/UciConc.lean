import Clemens.Gen.UciFacts
/-
The UCI dialogue as a labelled transition system: the reader goroutine (one atomic action per
access to the shared flag / cancel function, as the handlers of `pkg/uci/game/game.go` make
them), the search goroutine, the three-state flag, the cancellation of the running search, and
a GUI obeying the dialogue rule (position/go only after the previous bestmove; stop and isready
at any time).  The order of events inside the handlers is a parameter (`Cfg`) read off the
source (Gen.uciFacts).
-/
namespace Clemens.Conc

structure Cfg where
  goSync : Bool              -- `go` handled by the reader itself (not `go g.StartSearch`)
  runningBeforeSpawn : Bool  -- state.Set(RUNNING) precedes `go func()`
  idleBeforePrint : Bool     -- state.Set(IDLE) precedes the bestmove print
deriving DecidableEq, Repr

inductive Flag | idle | posSet | running
deriving DecidableEq, Repr

/-- search goroutine: not running / searching / result computed (first of the two final actions pending) /
first final action done (second pending) -/
inductive SPc | off | searching | computed | half
deriving DecidableEq, Repr

/-- reader (or detached go-handler) program counter -/
inductive HPc
  | ready                 -- waiting for the next line
  | posRead               -- NewPosition: about to read the flag
  | posWrite              -- NewPosition: flag was not RUNNING, about to set POSITION_SET
  | goRead                -- StartSearch: about to read the flag
  | goA                   -- StartSearch: accepted; first of {set RUNNING, spawn} pending
  | goB                   -- StartSearch: second of {set RUNNING, spawn} pending
  | stopRead              -- StopSearch: about to read the flag
  | stopCancel            -- StopSearch: flag was RUNNING, about to call searchCancel
deriving DecidableEq, Repr

structure St where
  flag : Flag
  spc : SPc
  cancelled : Bool        -- the context of the current search has been cancelled
  infinite : Bool         -- the current search only ends when cancelled
  reader : HPc            -- the reader goroutine
  goH : HPc               -- the detached go handler (only used when ¬goSync): ready = none pending
  goQueued : Bool         -- a `go` line was dispatched to a detached handler that has not started
  outstanding : Bool      -- the GUI has sent a go and not yet seen its bestmove
  posSent : Bool          -- the GUI has sent position for the next go
  stopSeen : Bool         -- a stop was fully handled while a go was outstanding
  -- error flags (each is a violated clause of C06)
  goRefused : Bool        -- a go sent according to the rule was refused
  posRefused : Bool       -- a position sent after bestmove was refused
  stopLost : Bool         -- a stop handled after go left an infinite search uncancelled
  extraBest : Bool        -- a bestmove without an outstanding go
deriving DecidableEq, Repr

def St.init : St :=
  { flag := .idle, spc := .off, cancelled := false, infinite := false, reader := .ready, goH := .ready, goQueued := false,
    outstanding := false, posSent := false, stopSeen := false, goRefused := false, posRefused := false, stopLost := false, extraBest := false }

/-- steps of the StartSearch handler running at program counter `pc` (in the reader or detached);
returns the new pc and state -/
def goStep (c : Cfg) (pc : HPc) (s : St) : Option (HPc × St) :=
  match pc with
  | .goRead =>
    if s.flag = .posSet then some (.goA, s)
    else some (.ready, { s with goRefused := true, outstanding := false })
  | .goA =>
    if c.runningBeforeSpawn then some (.goB, { s with flag := .running })
    else some (.goB, { s with spc := .searching, cancelled := false })
  | .goB =>
    if c.runningBeforeSpawn then some (.ready, { s with spc := .searching, cancelled := false })
    else some (.ready, { s with flag := .running })
  | _ => none

/-- the search of the outstanding go is still to deliver: not yet spawned or still searching -/
def searchPending (s : St) : Bool :=
  s.goQueued || s.goH != .ready || s.reader == .goRead || s.reader == .goA || s.reader == .goB || s.spc == .searching

/-- all successor states -/
def step (c : Cfg) (s : St) : List St :=
  -- GUI sends a line (the reader must be waiting)
  (if s.reader = .ready then
     -- position: only when no go is outstanding
     (if !s.outstanding && !s.posSent then [{ s with reader := .posRead, posSent := true }] else []) ++
     -- go: after position, no go outstanding; finite or infinite
     (if !s.outstanding && s.posSent then
        [false, true].map fun inf =>
          if c.goSync then { s with reader := .goRead, outstanding := true, posSent := false, infinite := inf, stopSeen := false }
          else { s with goQueued := true, outstanding := true, posSent := false, infinite := inf, stopSeen := false }
      else []) ++
     -- stop: any time
     [{ s with reader := .stopRead }]
     -- isready: always answered at once (the handler only takes the lock and prints); no state change
   else []) ++
  -- reader handler steps
  (match s.reader with
   | .posRead =>
     if s.flag = .running then [{ s with reader := .ready, posRefused := true, posSent := false }]
     else [{ s with reader := .posWrite }]
   | .posWrite => [{ s with reader := .ready, flag := .posSet }]
   | .stopRead =>
     if s.flag = .running then [{ s with reader := .stopCancel }]
     else [{ s with reader := .ready, stopSeen := s.outstanding,
                    stopLost := s.stopLost || (s.outstanding && s.infinite && searchPending s && !s.cancelled) }]
   | .stopCancel => [{ s with reader := .ready, cancelled := true, stopSeen := s.outstanding }]
   | .goRead | .goA | .goB =>
     (match goStep c s.reader s with | some (pc, s') => [{ s' with reader := pc }] | none => [])
   | .ready => []) ++
  -- detached go handler (the handlers exclude each other through the mutex: it runs only between reader handlers)
  (if !c.goSync then
     (if s.goQueued && s.goH = .ready && s.reader = .ready then [{ s with goQueued := false, goH := .goRead }] else []) ++
     (if s.goH != .ready && s.reader = .ready then
        (match goStep c s.goH s with | some (pc, s') => [{ s' with goH := pc }] | none => []) else [])
   else []) ++
  -- search goroutine
  (match s.spc with
   | .searching => if !s.infinite || s.cancelled then [{ s with spc := .computed }] else []
   | .computed =>
     if c.idleBeforePrint then [{ s with spc := .half, flag := .idle }]
     else [{ s with spc := .half, outstanding := false, extraBest := s.extraBest || !s.outstanding }]
   | .half =>
     if c.idleBeforePrint then [{ s with spc := .off, outstanding := false, extraBest := s.extraBest || !s.outstanding }]
     else [{ s with spc := .off, flag := .idle }]
   | .off => [])

/-- the clauses of C06 that are safety properties -/
def safe (s : St) : Bool := !s.goRefused && !s.posRefused && !s.stopLost && !s.extraBest

/-- no deadlock: whenever a go is outstanding, some engine-internal step is enabled or the engine waits for a
stop that has not been handled yet (an infinite search) -/
def internalEnabled (c : Cfg) (s : St) : Bool :=
  s.reader != .ready || s.goQueued || s.goH != .ready ||
  (match s.spc with | .searching => !s.infinite || s.cancelled | .computed | .half => true | .off => false) || !c.goSync && false

def live (c : Cfg) (s : St) : Bool :=
  !s.outstanding || internalEnabled c s || (s.spc == .searching && s.infinite && !s.cancelled && !s.stopSeen)

/-- once the GUI has seen bestmove, the engine accepts the next position: the flag is not RUNNING (and will not become so) -/
def acceptsNext (s : St) : Bool :=
  s.outstanding || s.reader != .ready || (s.flag != .running && s.spc == .off && !s.goQueued && s.goH == .ready)

def good (c : Cfg) (s : St) : Bool := safe s && live c s && acceptsNext s

/-- breadth-first closure of the reachable set -/
def closure (c : Cfg) : Nat → List St → List St → List St
  | 0, _, seen => seen
  | fuel+1, frontier, seen =>
    let next := (frontier.flatMap (step c)).foldl (fun acc t => if acc.contains t || seen.contains t then acc else t :: acc) []
    if next.isEmpty then seen else closure c fuel next (next ++ seen)

def reachable (c : Cfg) : List St := closure c 200 [St.init] [St.init]

/-- the configuration read off the source -/
def fact (n : String) : Bool := (Gen.uciFacts.find? (·.1 == n)).map (·.2) |>.getD false

def cfgOfSource : Cfg :=
  { goSync := fact "goHandledSynchronously", runningBeforeSpawn := fact "runningSetBeforeSpawn",
    idleBeforePrint := fact "idleSetBeforeBestmovePrinted" }

def fixedCfg : Cfg := { goSync := true, runningBeforeSpawn := true, idleBeforePrint := true }

/-- first reachable bad state with the schedule (list of states) leading to it, for diagnosis -/
def findBad (c : Cfg) : Option St := (reachable c).find? fun s => !good c s

end Clemens.Conc
