import Clemens.Model.Fen
import Clemens.Spec.Fide
/-
Well-formedness of a model position (the content of C10) and the abstraction to the
FIDE specification position.
-/
namespace Clemens

/-- board array and per-piece bitboards describe the same placement, aggregates are the
unions.  (`WFshape`: what holds for every position the engine constructs.) -/
def wfShape (p : Pos) : Bool :=
  (List.range 64).all (fun s =>
    let pc := p.at s
    (pc == 0 || validPiece pc) &&
    (List.range 2).all fun c => (List.range 6).all fun t =>
      (p.pieces c t).has s == (pc == newPiece c t)) &&
  p.white == (List.range 6).foldl (fun acc t => acc ||| p.pieces 0 t) 0#64 &&
  p.black == (List.range 6).foldl (fun acc t => acc ||| p.pieces 1 t) 0#64 &&
  p.all == (p.white ||| p.black)

/-- ranges of the scalar fields -/
def wfState (p : Pos) : Bool :=
  p.side < 2 && p.castling < 16 && p.ep ≤ 64 && p.hmc < 256 && p.ply < 256 && p.ply % 2 == p.side

/-- the chess-legality clauses of C10 -/
def wfChess (p : Pos) : Bool :=
  popcount (p.pieces 0 KING) == 1 && popcount (p.pieces 1 KING) == 1 &&
  ((p.pieces 0 PAWN ||| p.pieces 1 PAWN) &&& (rankMask1 ||| rankMask8)) == 0#64 &&
  (p.castling &&& 1 == 0 || (p.at 4 == 6 && p.at 7 == 4)) &&
  (p.castling &&& 2 == 0 || (p.at 4 == 6 && p.at 0 == 4)) &&
  (p.castling &&& 4 == 0 || (p.at 60 == 14 && p.at 63 == 12)) &&
  (p.castling &&& 8 == 0 || (p.at 60 == 14 && p.at 56 == 12)) &&
  (p.ep == 64 ||
    (if p.side = 0 then rankOf p.ep == 5 && p.at p.ep == 0 && p.at (p.ep - 8) == 9 && p.at (p.ep + 8) == 0
     else rankOf p.ep == 2 && p.at p.ep == 0 && p.at (p.ep + 8) == 1 && p.at (p.ep - 8) == 0)) &&
  !isInCheck p (switchColor p.side)

def WF (p : Pos) : Bool := wfShape p && wfState p && wfChess p

/-- what a FEN shows of a model position -/
def absPos (p : Pos) : Fide.Pos :=
  { board := p.board.toArray, side := p.side, castling := p.castling,
    ep := if p.ep = 64 then none else some p.ep, hmc := p.hmc, fullmove := p.ply / 2 + 1 }

/-- the UCI meaning of an engine move word -/
def absMove (m : Move) : Fide.Move :=
  { src := m.src, tgt := m.tgt, promo := if m.kind = 1 then some m.promo else none }

end Clemens
