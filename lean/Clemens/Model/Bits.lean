/-
Bit-level layer of the model: 64-bit sets of squares, exactly as `pkg/bitboard` has them.
Core-only (no Mathlib) so that the driver links.
-/
namespace Clemens

abbrev BB := BitVec 64

/-- `bitboard.BitBySquares(s)` for one square: `One << s` (0 for `s ≥ 64`, as in Go). -/
@[inline] def bit (s : Nat) : BB := 1#64 <<< s

@[inline] def BB.has (b : BB) (s : Nat) : Bool := b.getLsbD s

/-- Ascending list of the squares in a set: the order in which the pop-LSB loops of the
engine (`for bb != 0 { sq = lsb; bb &= bb-1 }`) visit them. -/
def squares (b : BB) : List Nat := (List.range 64).filter (fun i => b.getLsbD i)

/-- `bits.OnesCount64`. -/
def popcount (b : BB) : Nat := (squares b).length

/-- `bits.TrailingZeros64` (64 for the empty set; the Go wrapper panics there). -/
def lsb (b : BB) : Nat := (squares b).headD 64

def rankOf (s : Nat) : Nat := s / 8
def fileOf (s : Nat) : Nat := s % 8

def rankMask1 : BB := 0x00000000000000ff#64
def rankMask2 : BB := 0x000000000000ff00#64
def rankMask4 : BB := 0x00000000ff000000#64
def rankMask5 : BB := 0x000000ff00000000#64
def rankMask8 : BB := 0xff00000000000000#64
def fileMaskA : BB := 0x0101010101010101#64
def fileMaskH : BB := 0x8080808080808080#64
def notAFile : BB := 0xfefefefefefefefe#64
def notHFile : BB := 0x7f7f7f7f7f7f7f7f#64

def southOne (b : BB) : BB := b >>> 8
def northOne (b : BB) : BB := b <<< 8
def eastOne (b : BB) : BB := (b <<< 1) &&& notAFile
def northEastOne (b : BB) : BB := (b <<< 9) &&& notAFile
def southEastOne (b : BB) : BB := (b >>> 7) &&& notAFile
def westOne (b : BB) : BB := (b >>> 1) &&& notHFile
def southWestOne (b : BB) : BB := (b >>> 9) &&& notHFile
def northWestOne (b : BB) : BB := (b <<< 7) &&& notHFile

def northFill (b : BB) : BB :=
  let b := b ||| (b <<< 8)
  let b := b ||| (b <<< 16)
  b ||| (b <<< 32)

def southFill (b : BB) : BB :=
  let b := b ||| (b >>> 8)
  let b := b ||| (b >>> 16)
  b ||| (b >>> 32)

def fileFill (b : BB) : BB := northFill b ||| southFill b

/-- The eight compass directions with their one-step shift. -/
inductive Dir | N | S | E | W | NE | NW | SE | SW
deriving DecidableEq, Repr, Inhabited

def Dir.shift : Dir → BB → BB
  | .N => northOne | .S => southOne | .E => eastOne | .W => westOne
  | .NE => northEastOne | .NW => northWestOne | .SE => southEastOne | .SW => southWestOne

/-- file step, rank step -/
def Dir.df : Dir → Int
  | .N => 0 | .S => 0 | .E => 1 | .W => -1 | .NE => 1 | .NW => -1 | .SE => 1 | .SW => -1
def Dir.dr : Dir → Int
  | .N => 1 | .S => -1 | .E => 0 | .W => 0 | .NE => 1 | .NW => 1 | .SE => -1 | .SW => -1

def Dir.all : List Dir := [.N, .S, .E, .W, .NE, .NW, .SE, .SW]
/-- order of `rook.attacks` -/
def rookDirs : List Dir := [.N, .S, .E, .W]
/-- order of `bishop.attacks` -/
def bishopDirs : List Dir := [.NE, .NW, .SE, .SW]

/-! ### Leapers and pawns (`pkg/pieces/{knight,king,pawn}`) -/

def knightAttacksSet (knights : BB) : BB :=
  let east := eastOne knights
  let west := westOne knights
  let attacks := ((west ||| east) <<< 16) ||| ((west ||| east) >>> 16)
  let east := eastOne east
  let west := westOne west
  attacks ||| northOne (west ||| east) ||| southOne (west ||| east)

def kingAttacksSet (king : BB) : BB :=
  let attacks := westOne king ||| eastOne king
  let kings := king ||| attacks
  attacks ||| northOne kings ||| southOne kings

/-- `pawn.attacks(c, pawns)`; colour 0 = white, anything else is treated as black
(the Go code panics for other values, which never occur). -/
def pawnAttacksSet (c : Nat) (pawns : BB) : BB :=
  if c = 0 then northEastOne pawns ||| northWestOne pawns
  else southEastOne pawns ||| southWestOne pawns

def singlePushTargets (c : Nat) (pawns occ : BB) : BB :=
  if c = 0 then northOne pawns &&& ~~~occ else southOne pawns &&& ~~~occ

def doublePushTargets (c : Nat) (pawns occ : BB) : BB :=
  if c = 0 then northOne (singlePushTargets c pawns occ) &&& ~~~occ &&& rankMask4
  else southOne (singlePushTargets c pawns occ) &&& ~~~occ &&& rankMask5

def pawnPushes (c : Nat) (pawns occ : BB) : BB :=
  singlePushTargets c pawns occ ||| doublePushTargets c pawns occ

/-- table lookups of the engine (`attackTable[square] = attacks(BitBySquares(square))`) -/
def knightAttacks (s : Nat) : BB := knightAttacksSet (bit s)
def kingAttacks (s : Nat) : BB := kingAttacksSet (bit s)
def pawnAttacks (c s : Nat) : BB := pawnAttacksSet c (bit s)
def pawnPushesBySquare (c s : Nat) (occ : BB) : BB := pawnPushes c (bit s) occ

/-! ### Pawn structure (`pkg/pieces/pawn`) -/

def isolanis (pawns : BB) : BB :=
  let ff := fileFill pawns
  pawns &&& ~~~(westOne ff) &&& ~~~(eastOne ff)

def doubled (pawns : BB) : BB := northOne (northFill pawns) &&& pawns

def passed (color : Nat) (wp bp : BB) : BB :=
  if color = 0 then
    let spans := southFill bp
    let spans := spans ||| (eastOne spans ||| westOne spans)
    let spans := spans ||| southOne (southFill wp)
    wp &&& ~~~spans
  else
    let spans := northFill wp
    let spans := spans ||| (eastOne spans ||| westOne spans)
    let spans := spans ||| northOne (northFill bp)
    bp &&& ~~~spans

def supportedPawns (color : Nat) (pawns : BB) : BB := pawnAttacksSet color pawns &&& pawns

end Clemens
