import Clemens.Model.See
import Clemens.Model.TT
import Clemens.Model.Order
import Clemens.Model.Time
/-
`pkg/search/search.go`: Search, SearchIterative, SearchRoot, negamax (PVS with TT, static
null move, null move and futility pruning, killers/history), quiescence (delta pruning, SEE).
Cancellation is an oracle: the `n`-th poll of `ctx.Done()` reports done iff `n ≥ cancelAt`.
The evaluation is used uncached: the cache is transparent (C16).
All score arithmetic is `int16` in Go; `w16` reproduces the wrap-around.
-/
namespace Clemens

def w16 (i : Int) : Int := ((i + 32768) % 65536) - 32768

inductive SRes (α : Type)
  | ok (a : α) | cancelled | panic
deriving Repr

structure SState where
  tt : TT := {}
  killers : Std.HashMap Nat (Move × Move) := {}
  history : Std.HashMap Nat Nat := {}
  counter : Std.HashMap Nat Move := {}
  path : Array BB := #[]
  nodes : Nat := 0
  pv : List Move := []
  polls : Nat := 0
  cancelAt : Option Nat := none
  rootHmc : Nat := 0
  mainPolls : Nat := 0     -- polls of the caller's context (the fallback search runs on context.TODO)
  log : List String := []

abbrev SM (α : Type) := SState → SRes α × SState

@[inline] def SM.pure {α} (a : α) : SM α := fun s => (.ok a, s)
@[inline] def SM.bind {α β} (m : SM α) (f : α → SM β) : SM β := fun s =>
  match m s with
  | (.ok a, s') => f a s'
  | (.cancelled, s') => (.cancelled, s')
  | (.panic, s') => (.panic, s')
instance : Monad SM where
  pure := SM.pure
  bind := SM.bind

def SM.cancel {α} : SM α := fun s => (.cancelled, s)
def SM.panic {α} : SM α := fun s => (.panic, s)
def SM.get : SM SState := fun s => (.ok s, s)
def SM.modify (f : SState → SState) : SM Unit := fun s => (.ok (), f s)
def SM.ofOption {α} : Option α → SM α | some a => pure a | none => SM.panic

/-- `select { case <-s.ctx.Done(): return err; default: }` -/
def poll : SM Unit := fun s =>
  let n := s.polls
  let s := { s with polls := n + 1 }
  match s.cancelAt with
  | some k => if n ≥ k then (.cancelled, s) else (.ok (), s)
  | none => (.ok (), s)

def hkey (side src tgt : Nat) : Nat := (side * 64 + src) * 64 + tgt

def heurOf (s : SState) : Heur :=
  { killers := fun ply i => let k := s.killers.getD ply (0, 0); if i = 0 then k.1 else k.2
    history := fun sd a b => s.history.getD (hkey sd a b) 0
    counter := fun sd a b => s.counter.getD (hkey sd a b) 0 }

def isRepetition (s : SState) (h : BB) : Bool := s.path.any (· == h)

def evalS (p : Pos) : SM Int := SM.ofOption (evalRaw p)

def futilityMargin (d : Nat) : Int := Gen.search_futilityMargin.getD d 0
def futilityDepth : Nat := (Gen.search_futilityDepth.getD 0 0).toNat
def staticNullMargin : Int := Gen.search_staticNullMargin.getD 0 0
def quiescenceMaxDepth : Nat := (Gen.search_window.getD 2 0).toNat
def widenWindow : Int := Gen.search_window.getD 0 0
def maxDepth : Nat := (Gen.search_window.getD 1 0).toNat

/-- the capture loop of `quiescence`; `recur` is the recursive call one level down -/
def qLoop (K : Keys) (recur : Pos → Int → Int → Nat → SM Int) (p : Pos) (standPat beta : Int) (ply : Nat) (endgame : Bool) :
    List Move → Int → SM Int
  | [], alpha => pure alpha
  | m :: rest, alpha => do
    let skipDelta ←
      if m.kind != 2 then do
        let margin : Int := 2 * pieceValue PAWN
        let margin := if m.kind = 1 then w16 (w16 (margin - pieceValue PAWN) + pieceValue m.promo) else margin
        let tt := pieceType (p.at m.tgt)
        if tt ≥ 6 then SM.panic else
        pure (decide (w16 (w16 (standPat + pieceValue tt) + margin) < alpha) && !endgame)
      else pure false
    if skipDelta then qLoop K recur p standPat beta ply endgame rest alpha else
    let seeNeg ← if m.kind != 2 then (do let v ← SM.ofOption (see p m); pure (decide (v < 0))) else pure false
    if seeNeg then qLoop K recur p standPat beta ply endgame rest alpha else
    match makeMove K p m with
    | none => SM.panic
    | some q =>
      if !isLegal q then qLoop K recur p standPat beta ply endgame rest alpha else do
      let sc ← recur q (w16 (-beta)) (w16 (-alpha)) (ply + 1)
      let score := w16 (-sc)
      if score ≥ beta then pure beta
      else qLoop K recur p standPat beta ply endgame rest (if score > alpha then score else alpha)

/-- `quiescence` -/
def quiescence (K : Keys) : Nat → Pos → Int → Int → Nat → SM Int
  | 0, _, _, _, _ => SM.panic
  | fuel+1, p, alpha, beta, ply => do
    SM.modify fun s => { s with nodes := s.nodes + 1 }
    poll
    let standPat ← evalS p
    if standPat ≥ beta then return beta
    let alpha := if alpha < standPat then standPat else alpha
    if ply = quiescenceMaxDepth then return alpha
    let s ← SM.get
    let scored ← SM.ofOption (scoreMoves p (heurOf s) 0 0 ply (genCaptures p))
    qLoop K (quiescence K fuel) p standPat beta ply (isEndgame p) (visitOrder scored) alpha

/-- result of a node: score and the PV line written through `pvl` (`none`: never updated) -/
abbrev NodeRes := Int × Option (List Move)

structure LoopSt where
  alpha : Int
  bestMove : Move := 0
  bestScore : Int
  legalMoves : Nat := 0
  nodeType : Nat := 1
  pvl : Option (List Move) := none
  cutoff : Bool := false

abbrev NegaFn := Pos → Int → Int → Nat → Nat → Bool → Move → SM NodeRes

/-- the move loop of `negamax`; `recur` is the recursive call one level down -/
def nmLoop (K : Keys) (recur : NegaFn) (p : Pos) (beta : Int) (depth ply : Nat) (prevMove : Move) (fPrune : Bool) :
    List Move → LoopSt → SM LoopSt
  | [], st => pure st
  | m :: rest, st =>
    match makeMove K p m with
    | none => SM.panic
    | some q =>
      if !isLegal q then nmLoop K recur p beta depth ply prevMove fPrune rest st else
      let st := { st with legalMoves := st.legalMoves + 1 }
      if fPrune && !isCapture p m && m.kind != 1 && !isInCheck q q.side then nmLoop K recur p beta depth ply prevMove fPrune rest st else do
      let alpha := st.alpha
      let (score, childPv) ←
        if st.legalMoves = 1 then do
          let (sc, cpv) ← recur q (w16 (-beta)) (w16 (-alpha)) (depth - 1) (ply + 1) true prevMove
          pure (w16 (-sc), cpv)
        else do
          let (sc, _) ← recur q (w16 (w16 (-alpha) - 1)) (w16 (-alpha)) (depth - 1) (ply + 1) true prevMove
          let score := w16 (-sc)
          if score > alpha then do
            let (sc, cpv) ← recur q (w16 (-beta)) (w16 (-alpha)) (depth - 1) (ply + 1) true prevMove
            pure (w16 (-sc), cpv)
          else pure (score, none)
      let st := if score > st.bestScore then { st with bestScore := score, bestMove := m } else st
      if score ≥ beta then do
        if p.at m.tgt = 0 && m.kind != 2 then
          SM.modify fun s =>
            let k := s.killers.getD ply (0, 0)
            let k := if k.1 != st.bestMove then (k.1, k.1) else k
            let k := (st.bestMove, k.2)
            let hk := hkey p.side m.src m.tgt
            let hv := (s.history.getD hk 0 + (depth * depth) % 65536) % 65536
            let hist := s.history.insert hk hv
            let hist := if hv > killerMoveScore - 2 then
                hist.fold (fun acc key v => if key / 4096 = p.side then acc.insert key (v / 2) else acc) hist
              else hist
            let counter := if prevMove != 0 then s.counter.insert (hkey p.side prevMove.src prevMove.tgt) m else s.counter
            { s with killers := s.killers.insert ply k, history := hist, counter := counter }
        pure { st with nodeType := 2, cutoff := true }
      else
        let st := if score > alpha then
            { st with nodeType := 0, alpha := score, pvl := some (st.bestMove :: childPv.getD []) }
          else st
        nmLoop K recur p beta depth ply prevMove fPrune rest st

/-- `negamax` -/
def negamax (K : Keys) : Nat → NegaFn
  | 0, _, _, _, _, _, _, _ => SM.panic
  | fuel+1, p, alpha, beta, depth, ply, canNull, prevMove => do
    poll
    let isRoot := ply = 0
    let mateValue : Int := w16 (-INF + ply)
    let pvNode := w16 (beta - alpha) != 1
    let inCheck := isInCheck p p.side
    let depth := if inCheck then (depth + 1) % 256 else depth
    if depth = 0 then do
      let v ← quiescence K 128 p alpha beta ply
      return (v, none)
    SM.modify fun s => { s with nodes := s.nodes + 1 }
    let s ← SM.get
    if !isRoot && !inCheck && isRepetition s p.hash then return (contempt p, none)
    -- pushHistory / defer popHistory
    SM.modify fun s => { s with path := s.path.push p.hash }
    let body : SM NodeRes := do
      let s ← SM.get
      let pvMove := s.pv.getD ply 0
      let (ttScore, use, ttMove) := ttGet s.tt p.hash alpha beta depth ply
      if !isRoot && !pvNode && use then return (ttScore, none)
      -- static null move pruning
      let snm ← if !inCheck && !pvNode && !isCheckmateValue beta then (do
          let e ← evalS p
          let b := w16 (e - w16 (staticNullMargin * depth))
          pure (if b ≥ beta then some b else none)) else pure none
      if let some b := snm then return (b, none)
      -- null move pruning
      let nullCut ← if depth > 2 && canNull && !inCheck && !pvNode && !isPawnEndgame p then (do
          let e ← evalS p
          if e > beta then do
            let (q, _ep) := makeNull K p
            let R := if depth > 6 then 3 else 2
            let (sc, _) ← negamax K fuel q (w16 (-beta)) (w16 (-beta + 1)) (depth - R - 1) (ply + 1) false 0
            pure (decide (w16 (-sc) ≥ beta))
          else pure false) else pure false
      if nullCut then return (beta, none)
      -- futility pruning
      let fPrune ← if !pvNode && depth < futilityDepth && !inCheck && !isCheckmateValue alpha && !isCheckmateValue beta then (do
          let e ← evalS p
          pure (decide (w16 (e + futilityMargin depth) ≤ alpha))) else pure false
      let s ← SM.get
      let scored ← SM.ofOption (scoreMoves p (heurOf s) pvMove ttMove ply (genMoves p))
      let st ← nmLoop K (negamax K fuel) p beta depth ply prevMove fPrune (visitOrder scored) { alpha := alpha, bestScore := -INF }
      if st.legalMoves = 0 then
        return (if inCheck then mateValue else contempt p, st.pvl)
      poll
      SM.modify fun s => { s with tt := ttSave s.tt p.hash st.bestMove depth st.bestScore st.nodeType s.rootHmc }
      return (st.bestScore, st.pvl)
    -- run the body, then pop the history entry whatever happened (defer)
    fun s =>
      let (r, s') := body s
      (r, { s' with path := s'.path.pop })

/-- `SearchRoot` -/
def searchRoot (K : Keys) (root : Pos) (depth : Nat) (alpha beta : Int) : SM NodeRes := do
  SM.modify fun s => { s with killers := {} }
  negamax K 300 root alpha beta depth 0 true 0

def infoLine (depth : Nat) (score : Int) (nodes : Nat) (pv : List String) : String :=
  s!"info depth {depth} score cp {score} nodes {nodes} pv {" ".intercalate pv}"

/-- `SearchIterative(maxDepth)`; `pvStr` prints a move (kept abstract here: Fen.lean has `moveToString`) -/
def searchIterative (K : Keys) (root : Pos) (pvStr : Move → String) (maxD : Nat) : SM Unit :=
  let rec go (fuel : Nat) (depth : Nat) (alpha beta : Int) : SM Unit :=
    match fuel with
    | 0 => pure ()
    | fuel+1 =>
      if depth > maxD then pure () else fun s =>
      match searchRoot K root depth alpha beta s with
      | (.cancelled, s') => (.ok (), s')       -- "Timeout": SearchIterative just returns
      | (.panic, s') => (.panic, s')
      | (.ok (score, pvl), s') =>
        if score ≤ alpha || score ≥ beta then
          if alpha == -INF && beta == INF then (.ok (), s')
          else go fuel depth (-INF) INF { s' with log := s!"info string windows [{alpha},{beta}] too small for value {score}" :: s'.log }
        else
          let pv := pvl.getD []
          let s' := { s' with pv := pv, log := infoLine depth score s'.nodes (pv.map pvStr) :: s'.log }
          go fuel ((depth + 1) % 256) (w16 (score - widenWindow)) (w16 (score + widenWindow)) s'
  go 2000 1 (-INF) INF

/-- `Search(ctx, sp)` for an already cancellable context (the `Infinite` path, which passes ctx through) -/
def search (K : Keys) (root : Pos) (pvStr : Move → String) (depthParam : Nat) : SM Move := do
  let depth := if depthParam > 0 then depthParam else maxDepth
  searchIterative K root pvStr depth
  SM.modify fun s => { s with mainPolls := s.polls }
  let s ← SM.get
  if s.pv.getD 0 0 = 0 then do
    -- s.ctx = context.TODO(): no cancellation any more
    SM.modify fun s => { s with cancelAt := none }
    searchIterative K root pvStr 1
    let s ← SM.get
    pure (s.pv.getD 0 0)
  else pure (s.pv.getD 0 0)

end Clemens
