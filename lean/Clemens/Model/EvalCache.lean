import Clemens.Model.Eval
import Std.Data.HashMap
/-
`evaluation.evalWithCache` and its direct-mapped table keyed by the Zobrist hash.
-/
namespace Clemens

structure EvalCache where
  entries : Std.HashMap Nat (BB × Int) := {}

def EvalCache.slot (c : EvalCache) (h : BB) : BB × Int := c.entries.getD (h.toNat % Gen.evalCacheSize) (0#64, 0)

/-- `evalWithCache`, parametric in the uncached evaluation -/
def evalWithCacheG (raw : Pos → Option Int) (contemptF : Pos → Int) (c : EvalCache) (p : Pos) : Option (Int × EvalCache) :=
  if p.hmc ≥ 100 then some (contemptF p, c)
  else
    let e := c.slot p.hash
    if e.1 == p.hash then some (e.2, c)
    else do
      let s ← raw p
      pure (s, { entries := c.entries.insert (p.hash.toNat % Gen.evalCacheSize) (p.hash, s) })

def evalWithCache (c : EvalCache) (p : Pos) : Option (Int × EvalCache) := evalWithCacheG evalRaw contempt c p

end Clemens
