import Clemens.Model.Eval
/-
`pkg/evaluation/static_exchange_evaluation.go`: the swap algorithm with x-rays.
-/
namespace Clemens

/-- `getLeastValuablePiece`: (single-bit set, piece type) of the least valuable attacker of `color` -/
def leastValuable (p : Pos) (attacks : BB) (color : Nat) : BB × Nat :=
  match (List.range 6).find? (fun t => (attacks &&& p.pieces color t) != 0#64) with
  | some t => let sub := attacks &&& p.pieces color t; (sub &&& (0#64 - sub), t)
  | none => (0#64, 6)

/-- `considerXrays` -/
def considerXrays (p : Pos) (sq : Nat) (occ already : BB) : BB :=
  let diag := p.pieces 0 BISHOP ||| p.pieces 1 BISHOP ||| p.pieces 0 QUEEN ||| p.pieces 1 QUEEN
  let a := bishopAttacks sq occ &&& diag
  let line := p.pieces 0 ROOK ||| p.pieces 1 ROOK ||| p.pieces 0 QUEEN ||| p.pieces 1 QUEEN
  let a := a ||| (rookAttacks sq occ &&& line)
  let a := a ||| (pawnAttacks 0 sq &&& p.pieces 1 PAWN)
  let a := a ||| (pawnAttacks 1 sq &&& p.pieces 0 PAWN)
  a &&& ~~~already

/-- the backward pass `gain[d-1] = -max(-gain[d-1], gain[d])` over a gain list given deepest first -/
def seeFold : List Int → Int
  | [] => 0
  | g :: rest => rest.foldl (fun acc g' => -(max (-g') acc)) g

structure SeeState where
  gains : List Int      -- gain[d], gain[d-1], …, gain[0]  (deepest first)
  attacks : BB
  occ : BB
  already : BB
  src : BB              -- sourceSquareBB
  atype : Nat           -- attackerType
  side : Nat

/-- forward loop of `StaticExchangeEvaluation`; returns the gain list, deepest speculative entry first -/
def seeLoop (p : Pos) (tgt : Nat) (maxXray : BB) : Nat → SeeState → List Int
  | 0, st => st.gains
  | fuel+1, st =>
    let prev := st.gains.headD 0
    let g := pieceValue st.atype - prev
    let gains := g :: st.gains
    if max (-prev) g < 0 then gains
    else
      let attacks := st.attacks ^^^ st.src
      let occ := st.occ ^^^ st.src
      let already := st.already ||| st.src
      let attacks := if (st.src &&& maxXray) != 0#64 then attacks ||| considerXrays p tgt occ already else attacks
      let side := switchColor st.side
      let (src, atype) := leastValuable p attacks side
      if src == 0#64 then gains
      else if atype == KING && (attacks &&& p.byColor (switchColor side)) != 0#64 then gains
      else seeLoop p tgt maxXray fuel { gains, attacks, occ, already, src, atype, side }

/-- `StaticExchangeEvaluation(pos, m)` (`none`: source or target square empty — Go indexes PieceValue[255]) -/
def see (p : Pos) (m : Move) : Option Int :=
  let tgt := m.tgt
  let src := m.src
  let tt := pieceType (p.at tgt)
  let at' := pieceType (p.at src)
  if tt ≥ 6 || at' ≥ 6 then none else
  let maxXray := p.pieces 0 PAWN ||| p.pieces 1 PAWN ||| p.pieces 0 BISHOP ||| p.pieces 1 BISHOP |||
                 p.pieces 0 ROOK ||| p.pieces 1 ROOK ||| p.pieces 0 QUEEN ||| p.pieces 1 QUEEN
  let st : SeeState := { gains := [pieceValue tt], attacks := squareAttackedBy p tgt, occ := p.all,
                         already := bit src, src := bit src, atype := at', side := p.side }
  -- the final `for { d--; if d == 0 break; … }` drops the deepest speculative entry first
  let gains := seeLoop p tgt maxXray 31 st
  some (seeFold (gains.drop 1))

end Clemens
