import Clemens.Model.Bits
import Clemens.Gen.Magics
/-
Sliding pieces: the ray walker (`pkg/pieces/utils/sliding.go`), the magic table
construction (`pkg/magic/magic.go`) and the lookup (`rook/bishop/queen.AttacksBySquare`).
-/
namespace Clemens

/-- inner `for` of `utils.SlidingAttacks` for one direction.  `fuel` bounds the loop
(7 steps cross the board; `rayWalk_fuel` shows 8 suffice). -/
def rayWalk (d : Dir) (occ : BB) : Nat → BB → BB → BB
  | 0, _, acc => acc
  | fuel+1, b, acc =>
    let next := d.shift b
    if next == 0#64 || (b &&& occ) != 0#64 then acc
    else rayWalk d occ fuel next (acc ||| next)

/-- `utils.SlidingAttacks(square, directions, occupied)` -/
def slidingAttacks (s : Nat) (dirs : List Dir) (occ : BB) : BB :=
  dirs.foldl (fun acc d => rayWalk d occ 8 (bit s) acc) 0#64

def rookWalker (s : Nat) (occ : BB) : BB := slidingAttacks s rookDirs occ
def bishopWalker (s : Nat) (occ : BB) : BB := slidingAttacks s bishopDirs occ

/-- `magic.Init`: the edges that are irrelevant for the occupancy of `s`. -/
def magicEdges (s : Nat) : BB :=
  let squareRankMask := rankMask1 <<< (8 * rankOf s)
  let rankedges := (rankMask1 ||| rankMask8) &&& ~~~squareRankMask
  let squareFileMask := fileMaskA <<< (fileOf s)
  let fileedges := (fileMaskA ||| fileMaskH) &&& ~~~squareFileMask
  rankedges ||| fileedges

def magicMask (walker : Nat → BB → BB) (s : Nat) : BB := walker s 0#64 &&& ~~~(magicEdges s)

/-- `bitboard.AllSubnetsOf` (Carry-Rippler): `subset = (subset - b) & b` until it is 0 again. -/
def allSubsetsAux (b : BB) : Nat → BB → List BB → List BB
  | 0, _, acc => acc.reverse
  | fuel+1, sub, acc =>
    let acc := sub :: acc
    let sub := (sub - b) &&& b
    if sub == 0#64 then acc.reverse else allSubsetsAux b fuel sub acc

def allSubsetsOf (b : BB) : List BB := allSubsetsAux b (2 ^ popcount b) 0#64 []

structure Magic where
  mask : BB
  magic : BB
  shift : Nat
deriving Repr, Inhabited

/-- `Magic.Index` -/
def Magic.index (m : Magic) (occ : BB) : Nat := (((occ &&& m.mask) * m.magic) >>> m.shift).toNat

/-- The fill loop of `magic.Init` for the multiplier that was finally accepted:
`Attacks[idx(occupancy)] = attacks(square, occupancy)` for every subset of the mask. -/
def fillTable (walker : Nat → BB → BB) (s : Nat) (m : Magic) : Array BB :=
  (allSubsetsOf m.mask).foldl
    (fun t occ => t.setIfInBounds (m.index occ) (walker s occ))
    (Array.replicate (2 ^ popcount m.mask) 0#64)

def magicOfData (d : Nat × Nat × Nat) : Magic :=
  { mask := BitVec.ofNat 64 d.1, magic := BitVec.ofNat 64 d.2.1, shift := d.2.2 }

def rookMagic (s : Nat) : Magic := magicOfData (Gen.rookMagicData.getD s (0, 0, 0))
def bishopMagic (s : Nat) : Magic := magicOfData (Gen.bishopMagicData.getD s (0, 0, 0))

/-- the two global attack tables, one array per square -/
def rookTables : Array (Array BB) := (Array.range 64).map fun s => fillTable rookWalker s (rookMagic s)
def bishopTables : Array (Array BB) := (Array.range 64).map fun s => fillTable bishopWalker s (bishopMagic s)

/-- `rook.AttacksBySquare` -/
def rookAttacks (s : Nat) (occ : BB) : BB :=
  (rookTables.getD s #[]).getD ((rookMagic s).index occ) 0#64
/-- `bishop.AttacksBySquare` -/
def bishopAttacks (s : Nat) (occ : BB) : BB :=
  (bishopTables.getD s #[]).getD ((bishopMagic s).index occ) 0#64
/-- `queen.AttacksBySquare` -/
def queenAttacks (s : Nat) (occ : BB) : BB := rookAttacks s occ ||| bishopAttacks s occ

end Clemens
