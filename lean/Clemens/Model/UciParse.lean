import Clemens.Model.Time
import Clemens.Model.Fen
/-
`uci.prepareInput/removePrefixGarbage` and `game.parseGo`.
Tokens are byte strings; `strconv.Atoi` is the model `atoi` of `Fen.lean`.
-/
namespace Clemens

def tok (s : String) : Bytes := s.toUTF8.toList.map UInt8.toNat

def validFirstInputToken : List Bytes :=
  ["uci", "debug", "isready", "setoption", "ucinewgame", "position", "go", "stop", "quit", "ponderhit"].map tok

/-- `removePrefixGarbage` -/
def removePrefixGarbage : List Bytes → List Bytes
  | [] => []
  | t :: ts => if validFirstInputToken.contains t then t :: ts else removePrefixGarbage ts

/-- what `parseGo` printed, as an enumeration -/
inductive GoMsg
  | missing (kw : String) | broken (kw : String) | notImplemented (kw : String) | unknown
deriving Repr, DecidableEq

/-- Result of `parseGo`: `none` is a Go panic -/
abbrev GoRes := Option (SearchParams × List GoMsg)

/-- keywords that take an integer and where it goes -/
def goField (kw : String) (sp : SearchParams) (v : Int) : Option SearchParams :=
  if kw = "wtime" then some { sp with wtime := v }
  else if kw = "btime" then some { sp with btime := v }
  else if kw = "winc" then some { sp with winc := v }
  else if kw = "binc" then some { sp with binc := v }
  else if kw = "movestogo" then some { sp with movesToGo := v }
  else if kw = "movetime" then some { sp with moveTime := v }
  else if kw = "depth" then some { sp with depth := (v % 256).toNat }
  else none

def intKeywords : List String := ["wtime", "btime", "winc", "binc", "movestogo", "movetime", "depth"]

/-- the `for len(tokens) > 0` loop of `parseGo` -/
def parseGoLoop (atoiF : Bytes → Int × Bool) : List Bytes → SearchParams → List GoMsg → GoRes
  | [], sp, msgs => some (sp, msgs.reverse)
  | t :: ts, sp, msgs =>
    if t = tok "searchmoves" then some (sp, (GoMsg.notImplemented "searchmoves" :: msgs).reverse)
    else match intKeywords.find? (fun kw => tok kw = t) with
      | some kw =>
        (match ts with
        | [] => some (sp, (GoMsg.missing kw :: msgs).reverse)
        | v :: rest =>
          let (i, ok) := atoiF v
          if !ok then
            -- `sp.X, err = strconv.Atoi(..)` has already assigned what Atoi returned; `depth` uses a local
            let sp' := if kw = "depth" then sp else (goField kw sp i).getD sp
            some (sp', (GoMsg.broken kw :: msgs).reverse)
          else match goField kw sp i with
            | some sp' => parseGoLoop atoiF rest sp' msgs
            | none => none)
      | none =>
        if t = tok "nodes" || t = tok "mate" then
          let kw := if t = tok "nodes" then "nodes" else "mate"
          (match ts with
          | [] => some (sp, (GoMsg.missing kw :: msgs).reverse)
          | v :: rest =>
            if !(atoiF v).2 then some (sp, (GoMsg.broken kw :: msgs).reverse)
            else parseGoLoop atoiF rest sp (GoMsg.notImplemented kw :: msgs))
        else if t = tok "infinite" then parseGoLoop atoiF ts { sp with infinite := true } msgs
        else some (sp, (GoMsg.unknown :: msgs).reverse)

/-- `parseGo(tokens)` -/
def parseGo (atoiF : Bytes → Int × Bool) (tokens : List Bytes) : GoRes :=
  let sp : SearchParams := if tokens.isEmpty then { infinite := true } else {}
  parseGoLoop atoiF tokens sp []

end Clemens
