import Clemens.Model.Pos
import Clemens.Gen.UnicodeNd
/-
`pkg/position/fen.go`, `types.SquareFromString/SquareToString`, `Move.String`,
`MakeMoveFromString`.  Go strings are byte sequences; runes are decoded as Go does.
-/
namespace Clemens

abbrev Bytes := List Nat

/-- result of a Go function that can return an error or panic -/
inductive Res (α : Type) | ok (a : α) | error | panic
deriving Repr, DecidableEq

def Res.bind {α β} (r : Res α) (f : α → Res β) : Res β := match r with
  | .ok a => f a | .error => .error | .panic => .panic
instance : Monad Res where
  pure := .ok
  bind := Res.bind

def Res.ofOption {α} : Option α → Res α | some a => .ok a | none => .panic

/-- `strings.Split(s, sep)` for a one-byte separator -/
def splitBytes (sep : Nat) : Bytes → List Bytes
  | [] => [[]]
  | b :: bs =>
    match splitBytes sep bs with
    | [] => [[b]]   -- unreachable
    | t :: ts => if b = sep then [] :: t :: ts else (b :: t) :: ts

def runeError : Nat := 0xFFFD

/-- `utf8.DecodeRuneInString`: first rune and its width (width 0 iff the input is empty) -/
def decodeRune : Bytes → Nat × Nat
  | [] => (runeError, 0)
  | b0 :: rest =>
    if b0 < 0x80 then (b0, 1)
    else if b0 < 0xC2 || b0 > 0xF4 then (runeError, 1)
    else
      let cont (b : Nat) : Bool := 0x80 ≤ b && b ≤ 0xBF
      if b0 < 0xE0 then
        match rest with
        | b1 :: _ => if cont b1 then (((b0 &&& 0x1F) <<< 6) ||| (b1 &&& 0x3F), 2) else (runeError, 1)
        | _ => (runeError, 1)
      else if b0 < 0xF0 then
        match rest with
        | b1 :: b2 :: _ =>
          let lo := if b0 = 0xE0 then 0xA0 else 0x80
          let hi := if b0 = 0xED then 0x9F else 0xBF
          if lo ≤ b1 && b1 ≤ hi && cont b2 then
            (((b0 &&& 0x0F) <<< 12) ||| ((b1 &&& 0x3F) <<< 6) ||| (b2 &&& 0x3F), 3)
          else (runeError, 1)
        | _ => (runeError, 1)
      else
        match rest with
        | b1 :: b2 :: b3 :: _ =>
          let lo := if b0 = 0xF0 then 0x90 else 0x80
          let hi := if b0 = 0xF4 then 0x8F else 0xBF
          if lo ≤ b1 && b1 ≤ hi && cont b2 && cont b3 then
            (((b0 &&& 0x07) <<< 18) ||| ((b1 &&& 0x3F) <<< 12) ||| ((b2 &&& 0x3F) <<< 6) ||| (b3 &&& 0x3F), 4)
          else (runeError, 1)
        | _ => (runeError, 1)

/-- the runes of a Go string with their byte offsets (`for i, r := range s`) -/
def runesAux : Nat → Nat → Bytes → List (Nat × Nat)
  | 0, _, _ => []
  | _, _, [] => []
  | fuel+1, off, s =>
    let (r, w) := decodeRune s
    (off, r) :: runesAux fuel (off + w) (s.drop w)

def runesWithOffsets (s : Bytes) : List (Nat × Nat) := runesAux s.length 0 s
def runes (s : Bytes) : List Nat := (runesWithOffsets s).map (·.2)

/-- `unicode.IsDigit` (class Nd, table extracted from the Go runtime) -/
def isDigitRune (r : Nat) : Bool :=
  Gen.unicodeNd.any fun (lo, hi, stride) => lo ≤ r && r ≤ hi && (r - lo) % stride == 0

/-- `strings.IndexRune(" PNBRQK  pnbrqk", r)` -/
def pieceFromChar (r : Nat) : Option Nat :=
  if r = 32 then some 0 else
  match "PNBRQK".toList.findIdx? (fun c => c.toNat = r) with
  | some i => some (i + 1)
  | none => match "pnbrqk".toList.findIdx? (fun c => c.toNat = r) with
    | some i => some (i + 9)
    | none => none

/-- `Piece.ToChar` -/
def pieceToChar (p : Nat) : Option Nat := (" PNBRQK  pnbrqk".toList.map Char.toNat)[p]?

/-- `uint8(r - '0')` for a rune `r` (int32 arithmetic, then truncation) -/
def runeMinusZeroU8 (r : Nat) : Nat := (r + 256 - 48) % 256

/-- `fenSetPieces` (with the bounds check) -/
def fenSetPieces (K : Keys) (token : Bytes) (p : Pos) : Res Pos :=
  let rec go : List Nat → Nat → Pos → Res Pos
    | [], _, p => .ok p
    | r :: rs, sq, p =>
      if isDigitRune r then go rs ((sq + runeMinusZeroU8 r) % 256) p
      else if r = 47 then go rs ((sq + 256 - 16) % 256) p
      else match pieceFromChar r with
        | none => .error
        | some pc =>
          if sq ≥ 64 then .error
          else match setPiece K p pc sq with
            | none => .panic
            | some p => go rs ((sq + 1) % 256) p
  go (runes token) 56 p

def fenSetSide (token : Bytes) (p : Pos) : Res Pos :=
  if token.length != 1 then .error
  else if token = [119] then .ok { p with side := 0 }
  else if token = [98] then .ok { p with side := 1 }
  else .error

def fenSetCastling (token : Bytes) (p : Pos) : Res Pos :=
  let p := { p with castling := 0 }
  if token = [45] then .ok p
  else (runes token).foldlM (fun (p : Pos) r =>
    if r = 75 then Res.ok { p with castling := p.castling ||| 1 }
    else if r = 81 then .ok { p with castling := p.castling ||| 2 }
    else if r = 107 then .ok { p with castling := p.castling ||| 4 }
    else if r = 113 then .ok { p with castling := p.castling ||| 8 }
    else .error) p

/-- `types.SquareFromString` -/
def squareFromString (s : Bytes) : Res Nat :=
  let rec go : List (Nat × Nat) → Int → Int → Res (Int × Int)
    | [], file, rank => .ok (file, rank)
    | (i, r) :: rest, file, rank =>
      if i = 0 then
        match "abcdefgh".toList.findIdx? (fun c => c.toNat = r) with
        | some f => go rest f rank
        | none => .error
      else if i = 1 then
        if !isDigitRune r then .error else go rest file ((r : Int) - 48 - 1)
      else .error
  match go (runesWithOffsets s) 0 0 with
  | .ok (file, rank) =>
    -- SquareFromRankAndFile(uint8(rank), uint8(file)) = (rank << 3) + file in uint8
    let r8 := (rank % 256).toNat
    let f8 := (file % 256).toNat
    .ok (((r8 <<< 3) % 256 + f8) % 256)
  | .error => .error
  | .panic => .panic

def fenSetEnPassant (token : Bytes) (p : Pos) : Res Pos :=
  let p := { p with ep := 64 }
  if token = [45] then .ok p
  else do
    let sq ← squareFromString token
    pure { p with ep := sq }

/-- `strconv.Atoi`: optional sign, at least one ASCII digit, nothing else, must fit in int64 -/
def atoi (s : Bytes) : Option Int :=
  let (neg, digits) := match s with
    | 43 :: rest => (false, rest)
    | 45 :: rest => (true, rest)
    | _ => (false, s)
  if digits.isEmpty then none
  else if !(digits.all fun b => 48 ≤ b && b ≤ 57) then none
  else
    let v : Nat := digits.foldl (fun acc b => acc * 10 + (b - 48)) 0
    if neg then (if v ≤ 9223372036854775808 then some (-(v : Int)) else none)
    else (if v ≤ 9223372036854775807 then some (v : Int) else none)

/-- `strconv.Atoi` with the value it returns next to an error: 0 for a syntax error, the
clamped `int64` bound for a range error -/
def atoiFull (s : Bytes) : Int × Bool :=
  match atoi s with
  | some v => (v, true)
  | none =>
    let (neg, digits) := match s with
      | 43 :: rest => (false, rest)
      | 45 :: rest => (true, rest)
      | _ => (false, s)
    if digits.isEmpty || !(digits.all fun b => 48 ≤ b && b ≤ 57) then (0, false)
    else if neg then (-9223372036854775808, false) else (9223372036854775807, false)

def toU8 (i : Int) : Nat := (i % 256).toNat

/-- `NewFromFen` -/
def parseFen (K : Keys) (fen : Bytes) : Res Pos :=
  match splitBytes 32 fen with
  | [t0, t1, t2, t3, t4, t5] => do
    let p ← fenSetPieces K t0 Pos.empty
    let p ← fenSetSide t1 p
    let p ← fenSetCastling t2 p
    let p ← fenSetEnPassant t3 p
    match atoi t4 with
    | none => .error
    | some h =>
      let p := { p with hmc := toU8 h }
      match atoi t5 with
      | none => .error
      | some fm =>
        let ply := toU8 (2 * fm - 1)
        let ply := if p.side = 0 then (ply + 255) % 256 else ply
        let p := { p with ply := ply }
        let p := { p with hash := fullHash K p }
        pure (helperBitboards p)
  | _ => .error

def natToDec (n : Nat) : Bytes := (toString n).toList.map Char.toNat

/-- `types.SquareToString` -/
def squareToString (s : Nat) : Bytes :=
  ("abcdefgh".toList.map Char.toNat).getD (fileOf s % 8) 63 :: natToDec (rankOf s + 1)

/-- one rank of the placement field of `ToFen` -/
def fenRank (p : Pos) (rank : Nat) : Option Bytes :=
  let rec go : Nat → Nat → Nat → Bytes → Option Bytes
    | 0, _, _, acc => some acc
    | fuel+1, file, empties, acc =>
      if file ≥ 8 then some (if empties > 0 then acc ++ natToDec empties else acc)
      else
        let pc := p.at (rank * 8 + file)
        if pc = 0 then go fuel (file + 1) (empties + 1) acc
        else match pieceToChar pc with
          | none => none
          | some ch => go fuel (file + 1) 0 ((if empties > 0 then acc ++ natToDec empties else acc) ++ [ch])
  go 9 0 0 []

/-- `ToFen` (`none` when `ToChar` panics on an invalid piece code) -/
def toFen (p : Pos) : Option Bytes := do
  let ranks ← [7, 6, 5, 4, 3, 2, 1, 0].mapM (fenRank p)
  let placement := (ranks.intersperse [47]).flatten
  let side := if p.side = 0 then [32, 119, 32] else [32, 98, 32]
  let castling :=
    if p.castling &&& 15 == 0 then [45]
    else (if p.castling &&& 1 != 0 then [75] else []) ++ (if p.castling &&& 2 != 0 then [81] else []) ++
         (if p.castling &&& 4 != 0 then [107] else []) ++ (if p.castling &&& 8 != 0 then [113] else [])
  let ep := if p.ep = 64 then [45] else squareToString p.ep
  pure (placement ++ side ++ castling ++ [32] ++ ep ++ [32] ++ natToDec p.hmc ++ [32] ++ natToDec (p.ply / 2 + 1))

/-- `PieceType.String` -/
def pieceTypeString (t : Nat) : Bytes :=
  if t = 1 then [110] else if t = 2 then [98] else if t = 3 then [114] else if t = 4 then [113] else []

/-- `Move.String` -/
def moveToString (m : Move) : Bytes :=
  squareToString m.src ++ squareToString m.tgt ++ (if m.kind = 1 then pieceTypeString m.promo else [])

/-- `types.PieceTypeFromString` -/
def pieceTypeFromString (s : Bytes) : Option Nat :=
  if s = [112] then some 0 else if s = [110] then some 1 else if s = [98] then some 2
  else if s = [114] then some 3 else if s = [113] then some 4 else none

/-- the move word `MakeMoveFromString` builds (`none` = Go panic, `error` = returned error) -/
def moveFromString (p : Pos) (s : Bytes) : Res Move :=
  if s.length < 4 then .error
  else do
    let src ← squareFromString (s.take 2)
    let dst ← squareFromString ((s.drop 2).take 2)
    -- SetSourceSquare / SetTargetSquare OR the raw uint8 in
    let m : Move := src ||| (dst <<< 6)
    if src ≥ 64 then .panic else
    let pt := pieceType (p.at src)
    if pt = KING && absDiff src dst = 2 then pure (m ||| (3 <<< 12))
    else if pt = PAWN then
      if fileOf src != fileOf dst && (if dst < 64 then p.at dst == 0 else false) then
        (if dst ≥ 64 then .panic else pure (m ||| (2 <<< 12)))
      else if dst ≥ 64 && fileOf src != fileOf dst then .panic
      else if s.length = 5 then
        match pieceTypeFromString (s.drop 4) with
        | none => .error
        | some t => pure (Move.withPromo (m ||| (1 <<< 12)) t)
      else pure m
    else pure m

/-- `Position.MakeMoveFromString` -/
def makeMoveFromString (K : Keys) (p : Pos) (s : Bytes) : Res Pos := do
  let m ← moveFromString p s
  Res.ofOption (makeMove K p m)

end Clemens
