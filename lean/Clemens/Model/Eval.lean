import Clemens.Model.Pos
import Clemens.Gen.Consts
import Clemens.Gen.Pst
/-
`pkg/evaluation`: static evaluation (piece square tables, pawn structure, pairs, material,
pawn adjustment, mobility and king attacks), draw rules, contempt, the evaluation cache.
Scores are `Int`; the Go code computes in `int16` — `Props/C15` shows that no intermediate
leaves the `int16` range for legal material.
-/
namespace Clemens

def INF : Int := Gen.eval_inf.getD 0 0
def maxPlies : Int := Gen.eval_inf.getD 1 0

/-- `IsCheckmateValue` -/
def isCheckmateValue (v : Int) : Bool := v < -INF + maxPlies || v > INF - maxPlies

def pieceValue (t : Nat) : Int := Gen.pieceValue.getD t 0

def pst (phase c t s : Nat) : Int := (Gen.pstData.getD ((phase * 2 + c) * 6 + t) []).getD s 0

def pc (b : BB) : Int := (popcount b : Int)

def maxGamePhase : Int := Gen.eval_gamePhaseValues.getD 4 0
def endgameBorder : Int := Gen.eval_gamePhaseValues.getD 5 0

/-- `gamePhase` -/
def gamePhase (p : Pos) : Int :=
  let g := [0, 1].foldl (fun (acc : Int) c =>
    acc + Gen.eval_gamePhaseValues.getD 1 0 * pc (p.pieces c BISHOP)
        + Gen.eval_gamePhaseValues.getD 0 0 * pc (p.pieces c KNIGHT)
        + Gen.eval_gamePhaseValues.getD 2 0 * pc (p.pieces c ROOK)
        + Gen.eval_gamePhaseValues.getD 3 0 * pc (p.pieces c QUEEN)) 0
  if g > maxGamePhase then maxGamePhase else g

/-- `IsEndgame` -/
def isEndgame (p : Pos) : Bool := gamePhase p < endgameBorder

/-- `IsPawnEndgame` — as written it is true only when *no* bitboard of either colour is non-empty -/
def isPawnEndgame (p : Pos) : Bool :=
  [0, 1].all fun c => (List.range 6).all fun t => p.pieces c t == 0#64

/-- `Contempt`: the draw scores of `evaluation.Contempt` outside / inside the endgame, read off the running code (400 and 0 at the time of writing) -/
def contemptMid : Int := Gen.eval_contempt.getD 0 0
def contemptEnd : Int := Gen.eval_contempt.getD 1 0
def contempt (p : Pos) : Int := if isEndgame p then contemptEnd else contemptMid

/-- the only fact the proofs use about the two draw scores: they are small (re-evaluated on every run) -/
theorem contempt_small (p : Pos) : -1000 ≤ contempt p ∧ contempt p ≤ 1000 := by
  have h1 : -1000 ≤ contemptMid ∧ contemptMid ≤ 1000 := by decide
  have h2 : -1000 ≤ contemptEnd ∧ contemptEnd ≤ 1000 := by decide
  unfold contempt
  split
  · exact h2
  · exact h1

/-- `isDraw` -/
def isDraw (p : Pos) : Bool :=
  if p.hmc ≥ 100 then true
  else if popcount p.all == 2 then true
  else if popcount (p.pieces 0 PAWN ||| p.pieces 1 PAWN ||| p.pieces 0 ROOK ||| p.pieces 1 ROOK |||
                    p.pieces 0 QUEEN ||| p.pieces 1 QUEEN) > 0 then false
  else
    let nw := popcount p.white
    let nb := popcount p.black
    if nw == 2 && nb == 2 then true
    else if nw > 2 && nb > 2 then false
    else if nw > 3 || nb > 3 then false
    else if popcount (p.pieces 0 BISHOP) == 2 then popcount (p.pieces 1 BISHOP) == 1
    else if popcount (p.pieces 1 BISHOP) == 2 then popcount (p.pieces 0 BISHOP) == 1
    else true

/-- the two phase scores and the base score (`eval` struct) -/
structure EvalAcc where
  mid : Int := 0
  end_ : Int := 0
  base : Int := 0
deriving Repr, DecidableEq

/-- `evalPieceSquareTables` -/
def evalPst (p : Pos) (e : EvalAcc) : EvalAcc :=
  (List.range 6).foldl (fun e t =>
    let e := (squares (p.pieces 0 t)).foldl (fun (e : EvalAcc) s =>
      { e with mid := e.mid + pst 0 0 t s, end_ := e.end_ + pst 1 0 t s }) e
    (squares (p.pieces 1 t)).foldl (fun (e : EvalAcc) s =>
      { e with mid := e.mid - pst 0 1 t s, end_ := e.end_ - pst 1 1 t s }) e) e

/-- `rankedPawnEval` -/
def rankedPawnEval (scalar : Int) (selW selB : BB) : Int :=
  (List.range 6).foldl (fun (r : Int) i =>
    let rank := i + 1
    let mask : BB := rankMask2 <<< (8 * i)
    r + scalar * ((rank : Int) * pc (selW &&& mask) - ((7 - rank : Nat) : Int) * pc (selB &&& mask))) 0

/-- `evalPawns` -/
def evalPawns (p : Pos) (e : EvalAcc) : EvalAcc :=
  let wp := p.pieces 0 PAWN
  let bp := p.pieces 1 PAWN
  let diff := pc (isolanis wp) - pc (isolanis bp)
  let e := { e with mid := e.mid + Gen.eval_isolanis.getD 0 0 * diff, end_ := e.end_ + Gen.eval_isolanis.getD 1 0 * diff }
  let e := { e with base := e.base + rankedPawnEval (Gen.eval_supportedScalar.getD 0 0) (supportedPawns 0 wp) (supportedPawns 1 bp) }
  { e with base := e.base + rankedPawnEval (Gen.eval_passedScalar.getD 0 0) (passed 0 wp bp) (passed 1 wp bp) }

/-- `evalPairs` -/
def evalPairs (p : Pos) (e : EvalAcc) : EvalAcc :=
  let rookPair := Gen.eval_pairs.getD 0 0
  let knightPair := Gen.eval_pairs.getD 1 0
  let bishopPair := Gen.eval_pairs.getD 2 0
  let b := e.base
  let b := if popcount (p.pieces 0 BISHOP) > 1 then b + bishopPair else b
  let b := if popcount (p.pieces 1 BISHOP) > 1 then b - bishopPair else b
  let b := if popcount (p.pieces 0 KNIGHT) > 1 then b + knightPair else b
  let b := if popcount (p.pieces 1 KNIGHT) > 1 then b - knightPair else b
  let b := if popcount (p.pieces 0 ROOK) > 1 then b + rookPair else b
  let b := if popcount (p.pieces 1 ROOK) > 1 then b - rookPair else b
  { e with base := b }

/-- `evalBaseMaterial` -/
def evalMaterial (p : Pos) (e : EvalAcc) : EvalAcc :=
  { e with base := (List.range 6).foldl (fun (b : Int) t => b + pieceValue t * (pc (p.pieces 0 t) - pc (p.pieces 1 t))) e.base }

/-- `evalPawnAdjustment` (`none`: more than 8 pawns of one colour index past the table — a Go panic) -/
def evalPawnAdjustment (p : Pos) (e : EvalAcc) : Option EvalAcc :=
  let nwp := popcount (p.pieces 0 PAWN)
  let nbp := popcount (p.pieces 1 PAWN)
  if nwp > 8 || nbp > 8 then none else
  let ka (n : Nat) : Int := Gen.eval_knightPawnAdjustment.getD n 0
  let ra (n : Nat) : Int := Gen.eval_rookPawnAdjustment.getD n 0
  some { e with base := e.base + ka nwp * pc (p.pieces 0 KNIGHT) - ka nbp * pc (p.pieces 1 KNIGHT)
                         + ra nwp * pc (p.pieces 0 ROOK) - ra nbp * pc (p.pieces 1 ROOK) }

def attacksOfType (p : Pos) (we t s : Nat) : BB :=
  if t = PAWN then pawnAttacks we s
  else if t = BISHOP then bishopAttacks s p.all
  else if t = KNIGHT then knightAttacks s
  else if t = ROOK then rookAttacks s p.all
  else if t = QUEEN then queenAttacks s p.all
  else kingAttacks s

/-- `evalMobilityAndKingAttackValueByColor` -/
def mobilityByColor (p : Pos) (we : Nat) : Int :=
  let them := switchColor we
  let dest := ~~~(p.byColor we)
  let kingSquares := kingAttacks (lsb (p.pieces them KING))
  let val : Int := pc (pawnPushes we (p.pieces we PAWN) p.all &&& dest)
  (List.range 6).foldl (fun (val : Int) t =>
    (squares (p.pieces we t)).foldl (fun (val : Int) s =>
      let mob := attacksOfType p we t s &&& dest
      val + pc mob + Gen.eval_kingAttValue.getD t 0 * pc (mob &&& kingSquares)) val) val

/-- `calculateScore` -/
def calculateScore (p : Pos) (e : EvalAcc) : Int :=
  let gp := gamePhase p
  let score := (e.mid * gp + e.end_ * (maxGamePhase - gp)).tdiv maxGamePhase + e.base
  if p.side = 1 then -score else score

/-- `eval.do`: the uncached evaluation -/
def evalRaw (p : Pos) : Option Int :=
  if isDraw p then some (contempt p) else do
  let e := evalPst p {}
  let e := evalPawns p e
  let e := evalPairs p e
  let e := evalMaterial p e
  let e ← evalPawnAdjustment p e
  let e := { e with base := e.base + mobilityByColor p 0 - mobilityByColor p 1 }
  pure (calculateScore p e)

end Clemens
