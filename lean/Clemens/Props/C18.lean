import Clemens.Proofs.Swap
import Clemens.Model.Fen
/-
C18 — static exchange evaluation: the swap list computes the minimax of the capture sequence, and the
early exit (`max(-gain[d-1], gain[d]) < 0`) may change the value but never its sign.

Definitions (`minimaxSeq`, `exchangeValue`, `gainsNoPrune`, `gainsPruned`, `gainsPrunedRun`, `attackerValues`)
and lemmas are in `Clemens/Proofs/Swap.lean`.
-/
namespace Clemens

/-- (A1) without the early exit the swap algorithm computes the minimax value exactly -/
theorem swap_unpruned_eq (victim a0 : Int) (rest : List Int) :
    seeFold ((gainsNoPrune victim (a0 :: rest)).drop 1) = exchangeValue victim a0 rest :=
  swap_unpruned_eq' victim a0 rest

example : seeFold ((gainsNoPrune 310 (100 :: [310, 510, 910])).drop 1) = 210 := by decide

/-- (A2) the early exit may change the value but never its sign, for all non-negative piece values -/
theorem swap_sign (victim a0 : Int) (rest : List Int) (hv : 0 ≤ victim) (ha : 0 ≤ a0) (hr : ∀ a ∈ rest, 0 ≤ a) :
    Fide.signOf (seeFold ((gainsPrunedRun victim (a0 :: rest)).drop 1)) = Fide.signOf (exchangeValue victim a0 rest) :=
  have _ := hv
  swap_sign' victim a0 rest ha hr

/-- hypotheses satisfiable, and the early exit really changes the value here (310 vs 210) but not the sign -/
example : (0:Int) ≤ 310 ∧ (0:Int) ≤ 100 ∧ (∀ a ∈ [(0:Int)], 0 ≤ a) ∧
    seeFold ((gainsPrunedRun 310 (100 :: [0])).drop 1) = 310 ∧ exchangeValue 310 100 [0] = 210 := by decide

/-! ### tie to the model -/

/-- the forward loop of the model is exactly the pruned gain list over the attacker values it finds
(`seeLoop … 0 st = st.gains` by definition; `fuel` bounds the number of further attackers) -/
theorem seeLoop_eq (p : Pos) (tgt : Nat) (maxXray : BB) (fuel : Nat) (st : SeeState) :
    seeLoop p tgt maxXray (fuel+1) st =
      gainsPruned (pieceValue st.atype :: attackerValues p tgt maxXray fuel st) st.gains :=
  seeLoop_eq' p tgt maxXray fuel st

/-- the value of `see` is the pruned swap value of a non-negative attacker sequence: the one the model's loop finds -/
theorem see_eq_swap (p : Pos) (m : Move) (v : Int) (h : see p m = some v) :
    ∃ a0 rest victim, v = seeFold ((gainsPrunedRun victim (a0 :: rest)).drop 1) ∧
      0 ≤ victim ∧ 0 ≤ a0 ∧ (∀ a ∈ rest, 0 ≤ a) ∧
      victim = pieceValue (pieceType (p.at m.tgt)) ∧ a0 = pieceValue (pieceType (p.at m.src)) ∧
      rest = attackerValues p m.tgt (seeMaxXray p) 30 (seeInit p m) :=
  ⟨_, _, _, see_eq_swap_explicit p m v h, pieceValue_nonneg _, pieceValue_nonneg _,
    attackerValues_nonneg _ _ _ _ _, rfl, rfl, rfl⟩

/-- consequence of A2 for the model: `see` has the sign of the full minimax over the model's attacker sequence -/
theorem see_sign (p : Pos) (m : Move) (v : Int) (h : see p m = some v) :
    Fide.signOf v = Fide.signOf (exchangeValue (pieceValue (pieceType (p.at m.tgt))) (pieceValue (pieceType (p.at m.src)))
      (attackerValues p m.tgt (seeMaxXray p) 30 (seeInit p m))) := by
  rw [see_eq_swap_explicit p m v h]
  exact swap_sign _ _ _ (pieceValue_nonneg _) (pieceValue_nonneg _) (attackerValues_nonneg _ _ _ _ _)

/-- a concrete position for the examples: white Rd1 Rd2 Ke1, black Qd5 (defended by pawn e6) Ke8 -/
def c18ExamplePos : Pos :=
  let zeroKeys : Keys := { piece := fun _ _ _ => 0#64, side := 0#64, castling := fun _ => 0#64, ep := fun _ => 0#64 }
  match parseFen zeroKeys ("4k3/8/4p3/3q4/8/8/3R4/3RK3 w - - 0 1".toList.map Char.toNat) with
  | .ok p => p
  | _ => Pos.empty

/-- the value `see` returns for Rd2xd5 in the example position, as a function of the generated piece values: the pruned swap
value of "queen taken by rook, retaken by pawn, retaken by rook" (with the current values the early exit fires at once: 910) -/
def c18ExampleSee : Int := seeFold ((gainsPrunedRun (pieceValue QUEEN) [pieceValue ROOK, pieceValue PAWN, pieceValue ROOK]).drop 1)

/-- the full minimax of the same exchange (with the current values: 500) -/
def c18ExampleSpec : Int := exchangeValue (pieceValue QUEEN) (pieceValue ROOK) [pieceValue PAWN, pieceValue ROOK]

/-- hypothesis of `see_eq_swap`/`see_sign` satisfiable: Rd2xd5 (stated through `c18ExampleSee`, so that the example does not pin the
piece values; with the current values `see` gives 910, the early exit fires) … -/
example : see c18ExamplePos (11 ||| (35 <<< 6)) = some c18ExampleSee := by
  set_option maxRecDepth 100000 in decide +kernel

/-- … while the full minimax over the model's attacker sequence is `c18ExampleSpec` (currently 500); `#eval attackerValues c18ExamplePos 35
(seeMaxXray c18ExamplePos) 30 (seeInit c18ExamplePos (11 ||| (35 <<< 6)))` gives `[100, 510]` (pawn, rook) — too slow for the kernel, so
not an `example`); both have the same sign whatever the (non-negative) piece values are -/
example : Fide.signOf c18ExampleSee = Fide.signOf c18ExampleSpec :=
  swap_sign _ _ _ (pieceValue_nonneg _) (pieceValue_nonneg _)
    (by intro a ha; simp only [List.mem_cons, List.not_mem_nil, or_false] at ha; rcases ha with rfl | rfl <;> exact pieceValue_nonneg _)
-- pure arithmetic on the values of this snapshot (no reference to the generated constants)
example : exchangeValue 910 510 [100, 510] = 500 := by decide

end Clemens
