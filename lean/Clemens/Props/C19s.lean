import Clemens.Gen.Src
import Clemens.Proofs.TieTac
/-
C19 on the source text: attaching an ordering score to a move word (`Move.SetScore`, regenerated from `pkg/move/move.go`) alters neither
the source nor the target square, for every 32-bit word and every score; the score read back is the old score OR the new one (hence the
new one for the score-free words the generators produce).  The builder setters place the squares where the accessors read them.
T1 tie module (non-fatal).
-/
namespace Clemens
open Src
set_option maxHeartbeats 1000000

theorem src_setScore_get (m : BitVec 32) (s : BitVec 16) :
    move.Move_GetScore (move.Move_SetScore m s) = move.Move_GetScore m ||| s := by tie_tac
theorem src_setScore_keeps_src (m : BitVec 32) (s : BitVec 16) :
    move.Move_GetSourceSquare (move.Move_SetScore m s) = move.Move_GetSourceSquare m := by tie_tac
theorem src_setScore_keeps_tgt (m : BitVec 32) (s : BitVec 16) :
    move.Move_GetTargetSquare (move.Move_SetScore m s) = move.Move_GetTargetSquare m := by tie_tac
theorem src_setSrc_get (m : BitVec 32) (sq : BitVec 8) :
    move.Move_GetSourceSquare (move.Move_SetSourceSquare m (sq &&& 63#8)) = move.Move_GetSourceSquare m ||| (sq &&& 63#8) := by tie_tac
theorem src_setTgt_get (m : BitVec 32) (sq : BitVec 8) :
    move.Move_GetTargetSquare (move.Move_SetTargetSquare m (sq &&& 63#8)) = move.Move_GetTargetSquare m ||| (sq &&& 63#8) := by tie_tac
theorem src_setTgt_keeps_src (m : BitVec 32) (sq : BitVec 8) :
    move.Move_GetSourceSquare (move.Move_SetTargetSquare m sq) = move.Move_GetSourceSquare m := by tie_tac
theorem src_setSrc_keeps_tgt (m : BitVec 32) (sq : BitVec 8) :
    move.Move_GetTargetSquare (move.Move_SetSourceSquare m (sq &&& 63#8)) = move.Move_GetTargetSquare m := by tie_tac

/-! scoring keeps the move kind and the promotion piece (all words, all scores) -/
theorem setScore_kind_bits (m : BitVec 32) (s : BitVec 16) :
    ((move.Move_SetScore m s) >>> 12) &&& 3#32 = (m >>> 12) &&& 3#32 := by tie_tac
theorem setScore_promo_bits (m : BitVec 32) (s : BitVec 16) :
    ((move.Move_SetScore m s) >>> 14) &&& 3#32 = (m >>> 14) &&& 3#32 := by tie_tac
theorem src_setScore_keeps_kind (m : BitVec 32) (s : BitVec 16) :
    move.Move_GetMoveType (move.Move_SetScore m s) = move.Move_GetMoveType m := by
  simp only [move.Move_GetMoveType, setScore_kind_bits]
theorem src_setScore_keeps_promo (m : BitVec 32) (s : BitVec 16) :
    move.Move_GetPromitionPieceType (move.Move_SetScore m s) = move.Move_GetPromitionPieceType m := by
  simp only [move.Move_GetPromitionPieceType, setScore_promo_bits]

/-! the builder chain of the generators -/

theorem kindword : ∀ k : Fin 4, BitVec.ofInt 32 (((k.val : Nat) : Int) <<< 12) = BitVec.ofNat 32 (k.val * 4096) := by decide

/-- the word the generators build (`new(Move).SetSourceSquare(s).SetTargetSquare(t).SetMoveType(k)`) is read back field by field -/
theorem src_builder_roundtrip (k : Fin 4) (sq tg : BitVec 8) :
    let m := move.Move_SetMoveType (move.Move_SetTargetSquare (move.Move_SetSourceSquare 0#32 (sq &&& 63#8)) (tg &&& 63#8)) ((k.val : Nat) : Int)
    move.Move_GetSourceSquare m = sq &&& 63#8 ∧ move.Move_GetTargetSquare m = tg &&& 63#8 ∧
    move.Move_GetMoveType m = ((k.val : Nat) : Int) ∧ move.Move_GetScore m = 0#16 := by
  intro m
  have hm : m = ((BitVec.setWidth 32 (sq &&& 63#8)) ||| ((BitVec.setWidth 32 (tg &&& 63#8)) <<< 6)) ||| BitVec.ofNat 32 (k.val * 4096) := by
    simp only [m, move.Move_SetMoveType, move.Move_SetTargetSquare, move.Move_SetSourceSquare, kindword, BitVec.zero_or]
  rcases k with ⟨k, hk⟩
  have : k = 0 ∨ k = 1 ∨ k = 2 ∨ k = 3 := by omega
  rcases this with rfl | rfl | rfl | rfl <;> (simp only [] at hm; rw [hm]; refine ⟨?_, ?_, ?_, ?_⟩)
  all_goals first
    | tie_tac
    | (simp only [move.Move_GetMoveType]
       have h : ∀ a b : BitVec 32, a = b → ((a.toNat : Nat) : Int) = ((b.toNat : Nat) : Int) := fun _ _ h => by rw [h]
       first
         | (refine (h _ (0#32) ?_); tie_tac)
         | (refine (h _ (1#32) ?_); tie_tac)
         | (refine (h _ (2#32) ?_); tie_tac)
         | (refine (h _ (3#32) ?_); tie_tac))

end Clemens
