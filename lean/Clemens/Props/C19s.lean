import Clemens.Gen.Src
import Clemens.Proofs.TieTac
/-
C19 on the source text: attaching an ordering score to a move word (`Move.SetScore`, regenerated from `pkg/move/move.go`) alters neither
the source nor the target square, for every 32-bit word and every score; the score read back is the old score OR the new one (hence the
new one for the score-free words the generators produce).  The builder setters place the squares where the accessors read them.
T1 tie module (non-fatal).
-/
namespace Clemens
open Src
set_option maxHeartbeats 1000000

theorem src_setScore_get (m : BitVec 32) (s : BitVec 16) :
    move.Move_GetScore (move.Move_SetScore m s) = move.Move_GetScore m ||| s := by tie_tac
theorem src_setScore_keeps_src (m : BitVec 32) (s : BitVec 16) :
    move.Move_GetSourceSquare (move.Move_SetScore m s) = move.Move_GetSourceSquare m := by tie_tac
theorem src_setScore_keeps_tgt (m : BitVec 32) (s : BitVec 16) :
    move.Move_GetTargetSquare (move.Move_SetScore m s) = move.Move_GetTargetSquare m := by tie_tac
theorem src_setSrc_get (m : BitVec 32) (sq : BitVec 8) :
    move.Move_GetSourceSquare (move.Move_SetSourceSquare m (sq &&& 63#8)) = move.Move_GetSourceSquare m ||| (sq &&& 63#8) := by tie_tac
theorem src_setTgt_get (m : BitVec 32) (sq : BitVec 8) :
    move.Move_GetTargetSquare (move.Move_SetTargetSquare m (sq &&& 63#8)) = move.Move_GetTargetSquare m ||| (sq &&& 63#8) := by tie_tac
theorem src_setTgt_keeps_src (m : BitVec 32) (sq : BitVec 8) :
    move.Move_GetSourceSquare (move.Move_SetTargetSquare m sq) = move.Move_GetSourceSquare m := by tie_tac
theorem src_setSrc_keeps_tgt (m : BitVec 32) (sq : BitVec 8) :
    move.Move_GetTargetSquare (move.Move_SetSourceSquare m (sq &&& 63#8)) = move.Move_GetTargetSquare m := by tie_tac

end Clemens
