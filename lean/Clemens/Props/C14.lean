import Clemens.Proofs.TT
/-
C14 — the transposition table never invents or distorts information.

The table is only ever changed by `ttSave` (`PotentiallySave`); a run is a log of saves applied
to the empty table.  Domain: non-zero Zobrist hashes (hash 0 is the "empty slot" marker in the Go
code), node types 0..2 and scores outside the mate range (mate scores are ply-adjusted on probe).
Lemmas: `Clemens/Proofs/TT.lean`.
-/
namespace Clemens

structure SaveRec where
  h : BB
  m : Move
  depth : Nat
  score : Int
  nt : Nat      -- 0 exact (PV), 1 upper bound (alpha), 2 lower bound (beta)
  age : Nat

def applySave (t : TT) (r : SaveRec) : TT := ttSave t r.h r.m r.depth r.score r.nt r.age
def runSaves (log : List SaveRec) : TT := log.foldl applySave {}

/-- the domain of C14: non-zero hashes, bounds 0..2, scores outside the mate range -/
def LogOK (log : List SaveRec) : Prop :=
  ∀ r ∈ log, r.h ≠ 0#64 ∧ r.nt < 3 ∧ -32767 + 100 ≤ r.score ∧ r.score ≤ 32767 - 100

/-! ### the inductive invariant of a run -/

/-- "entry `e` of bucket `key` is one of the logged saves" -/
def FromLog (log : List SaveRec) (key : Nat) (e : TTEntry) : Prop :=
  ∃ r ∈ log, e.hash = r.h ∧ e.move = r.m ∧ e.depth = r.depth ∧ e.score = r.score ∧ e.nodeType = r.nt ∧
    key = ttKey r.h

theorem foldl_saves_inv (log : List SaveRec) (hok : LogOK log) :
    ∀ (l : List SaveRec) (t : TT), (∀ r ∈ l, r ∈ log) → t.WF → t.Justified (FromLog log) →
      (l.foldl applySave t).WF ∧ (l.foldl applySave t).Justified (FromLog log) := by
  intro l
  induction l with
  | nil => intro t _ hw hj; exact ⟨hw, hj⟩
  | cons r l ih =>
    intro t hsub hw hj
    rw [List.foldl_cons]
    have hr : r ∈ log := hsub r (List.mem_cons_self ..)
    apply ih
    · intro x hx; exact hsub x (List.mem_cons_of_mem _ hx)
    · exact ttSave_WF hw _ _ _ _ _ _
    · apply ttSave_Justified hj
      exact ⟨r, hr, rfl, rfl, rfl, rfl, savedEntry_nodeType _ _ _ _ _ _ _ (by have := (hok r hr).2.1; omega), rfl⟩

theorem runSaves_inv (log : List SaveRec) (hok : LogOK log) :
    (runSaves log).WF ∧ (runSaves log).Justified (FromLog log) :=
  foldl_saves_inv log hok log {} (fun _ h => h) TT.WF_empty (TT.Justified_empty _)

theorem foldl_saves_WF : ∀ (l : List SaveRec) (t : TT), t.WF → (l.foldl applySave t).WF := by
  intro l
  induction l with
  | nil => intro t hw; exact hw
  | cons r l ih => intro t hw; exact ih _ (ttSave_WF hw _ _ _ _ _ _)

/-! ### C14 -/

/-- every non-empty entry of the table is exactly one logged save, in the bucket of its hash -/
theorem stored_from_log (log : List SaveRec) (hok : LogOK log) (key : Nat) (e : TTEntry)
    (he : e ∈ (runSaves log).bucket key) (hne : e.hash ≠ 0#64) :
    ∃ r ∈ log, e.hash = r.h ∧ e.move = r.m ∧ e.depth = r.depth ∧ e.score = r.score ∧ e.nodeType = r.nt ∧
      key = ttKey r.h :=
  (runSaves_inv log hok).2 key e he hne

/-- a usable score comes from a stored entry for exactly that hash with at least the requested depth,
in accordance with its bound -/
theorem get_sound (log : List SaveRec) (hok : LogOK log) (h : BB) (hh : h ≠ 0#64) (alpha beta : Int)
    (depth ply : Nat) :
    let r := ttGet (runSaves log) h alpha beta depth ply
    r.2.1 = true → ∃ s ∈ log, s.h = h ∧ depth ≤ s.depth ∧ s.m = r.2.2 ∧
      (s.nt = 0 → r.1 = s.score) ∧ (s.nt = 1 → s.score ≤ alpha ∧ r.1 = alpha) ∧
      (s.nt = 2 → beta ≤ s.score ∧ r.1 = beta) := by
  intro r hu
  rcases ttGet_spec (runSaves log) h alpha beta depth ply with ⟨h0, _⟩ | ⟨te, hm, hte, _, hmv, hsc⟩
  · have : r = (0, false, 0) := h0
    rw [this] at hu; simp at hu
  · obtain ⟨s, hs, e1, e2, e3, e4, e5, _⟩ := stored_from_log log hok _ te hm (hte ▸ hh)
    obtain ⟨hd, hrest⟩ := hsc hu
    obtain ⟨_, _, hlo, hhi⟩ := hok s hs
    refine ⟨s, hs, by rw [← e1, hte], by omega, by rw [← e2]; exact hmv.symm, ?_⟩
    rw [← e4, ← e5]
    exact hrest (e4 ▸ hlo) (e4 ▸ hhi)

/-- the suggested move was stored with that hash -/
theorem get_move_sound (log : List SaveRec) (hok : LogOK log) (h : BB) (hh : h ≠ 0#64) (alpha beta : Int)
    (depth ply : Nat) :
    let r := ttGet (runSaves log) h alpha beta depth ply
    r.2.2 ≠ 0 → ∃ s ∈ log, s.h = h ∧ s.m = r.2.2 := by
  intro r hu
  rcases ttGet_spec (runSaves log) h alpha beta depth ply with ⟨h0, _⟩ | ⟨te, hm, hte, _, hmv, _⟩
  · have : r = (0, false, 0) := h0
    rw [this] at hu; simp at hu
  · obtain ⟨s, hs, e1, e2, _⟩ := stored_from_log log hok _ te hm (hte ▸ hh)
    exact ⟨s, hs, by rw [← e1, hte], by rw [← e2]; exact hmv.symm⟩

/-- a position never stored yields nothing -/
theorem get_absent (log : List SaveRec) (hok : LogOK log) (h : BB) (hh : h ≠ 0#64) (hn : ∀ s ∈ log, s.h ≠ h)
    (alpha beta : Int) (depth ply : Nat) : ttGet (runSaves log) h alpha beta depth ply = (0, false, 0) := by
  rcases ttGet_spec (runSaves log) h alpha beta depth ply with ⟨h0, _⟩ | ⟨te, hm, hte, _⟩
  · exact h0
  · obtain ⟨s, hs, e1, _⟩ := stored_from_log log hok _ te hm (hte ▸ hh)
    exact absurd (e1.symm.trans hte) (hn s hs)

/-- an entry just stored is found by the next probe for it: the bucket of h holds an entry for h after the
save … -/
theorem save_then_found (t : TT) (hb : ∀ k, (t.bucket k).length = Gen.ttBucketSize) (r : SaveRec) :
    ∃ e ∈ (applySave t r).bucket (ttKey r.h), e.hash = r.h :=
  ⟨_, savedEntry_mem hb r.h r.m r.depth r.score r.nt r.age, rfl⟩

/-- after a save into a bucket holding no other entry for `h`, the probe's `find` hits the written entry -/
theorem save_find (t : TT) (hb : ∀ k, (t.bucket k).length = Gen.ttBucketSize) (r : SaveRec)
    (hnone : ∀ e ∈ t.bucket (ttKey r.h), e.hash ≠ r.h) :
    ((applySave t r).bucket (ttKey r.h)).find? (fun e => e.hash == r.h) =
      some (savedEntry t r.h r.m r.depth r.score r.nt r.age) := by
  unfold applySave
  rw [ttSave_bucket, if_pos rfl]
  refine find?_set_unique _ _ _ r.h ?_ rfl hnone
  apply ttSlot_lt
  rw [hb]; exact ttBucketSize_pos

set_option linter.unusedVariables false in
/-- … and it is exactly the saved one when the bucket held no other entry for h
(`hh`, `hnt`, `hs` are part of the stated domain but not needed for the move; they are used by
`save_then_get_full` below) -/
theorem save_then_get_exact (t : TT) (hb : ∀ k, (t.bucket k).length = Gen.ttBucketSize) (r : SaveRec)
    (hh : r.h ≠ 0#64) (hnt : r.nt < 3)
    (hnone : ∀ e ∈ t.bucket (ttKey r.h), e.hash ≠ r.h) (alpha beta : Int) (ply : Nat)
    (hs : -32767 + 100 ≤ r.score ∧ r.score ≤ 32767 - 100) :
    (ttGet (applySave t r) r.h alpha beta r.depth ply).2.2 = r.m := by
  rcases ttGet_spec (applySave t r) r.h alpha beta r.depth ply with ⟨_, h0⟩ | ⟨te, _, _, hf, hmv, _⟩
  · exact absurd rfl (h0 _ (savedEntry_mem hb r.h r.m r.depth r.score r.nt r.age))
  · rw [save_find t hb r hnone] at hf
    rw [hmv, ← Option.some.inj hf]
    rfl

/-- (addition, stronger than `save_then_get_exact`) the whole probe result right after the save, at the saved depth -/
theorem save_then_get_full (t : TT) (hb : ∀ k, (t.bucket k).length = Gen.ttBucketSize) (r : SaveRec)
    (hnt : r.nt < 3)
    (hnone : ∀ e ∈ t.bucket (ttKey r.h), e.hash ≠ r.h) (alpha beta : Int) (ply : Nat)
    (hs : -32767 + 100 ≤ r.score ∧ r.score ≤ 32767 - 100) :
    ttGet (applySave t r) r.h alpha beta r.depth ply =
      if r.nt = 1 then (if r.score ≤ alpha then (alpha, true, r.m) else (r.score, false, r.m))
      else if r.nt = 2 then (if beta ≤ r.score then (beta, true, r.m) else (r.score, false, r.m))
      else (r.score, true, r.m) := by
  unfold ttGet
  rw [save_find t hb r hnone]
  have hn := savedEntry_nodeType t r.h r.m r.depth r.score r.nt r.age (by omega)
  have e1 : ¬ (r.score > 32767 - 100) := by omega
  have e2 : ¬ (r.score < -32767 + 100) := by omega
  simp only [savedEntry_depth, savedEntry_score, savedEntry_move, hn, ttGet.INF', Nat.lt_irrefl, if_false,
    e1, e2, ge_iff_le]
  have : r.nt = 0 ∨ r.nt = 1 ∨ r.nt = 2 := by omega
  rcases this with h | h | h <;> simp [h]

theorem buckets_length (log : List SaveRec) (k : Nat) : ((runSaves log).bucket k).length = Gen.ttBucketSize :=
  foldl_saves_WF log {} TT.WF_empty k

/-! ### the hypotheses are satisfiable (concrete, non-trivial witnesses)

`Std.HashMap` does not reduce under `decide`, so the witnesses are evaluated with the lemmas above. -/

/-- a lower-bound save and an exact save, landing in different buckets -/
def exRec1 : SaveRec := ⟨0x123456789ABCDEF#64, 796, 5, 42, 2, 1⟩
def exRec2 : SaveRec := ⟨0xFEDCBA9876543210#64, 1234, 3, -17, 0, 1⟩
def exLog : List SaveRec := [exRec1, exRec2]

theorem exLog_ok : LogOK exLog := by
  intro r hr
  simp only [exLog, List.mem_cons, List.not_mem_nil, or_false] at hr
  rcases hr with rfl | rfl <;> decide

theorem exLog1_ok : LogOK [exRec1] := fun r hr => exLog_ok r (by simp only [List.mem_cons, List.not_mem_nil, or_false] at hr; subst hr; exact List.mem_cons_self ..)

theorem exLog_eq : runSaves exLog = applySave (runSaves [exRec1]) exRec2 := rfl

/-- before the second save, the bucket of `exRec2.h` has no entry for it -/
theorem ex_none : ∀ e ∈ (runSaves [exRec1]).bucket (ttKey exRec2.h), e.hash ≠ exRec2.h := by
  intro e he hh
  obtain ⟨s, hs, e1, _⟩ := stored_from_log [exRec1] exLog1_ok _ e he (by rw [hh]; decide)
  simp only [List.mem_cons, List.not_mem_nil, or_false] at hs
  subst hs
  rw [hh] at e1
  exact absurd e1 (by decide)

theorem ex_get : ttGet (runSaves exLog) exRec2.h (-100) 30 3 0 = (-17, true, 1234) := by
  rw [exLog_eq]
  exact save_then_get_full (runSaves [exRec1]) (buckets_length _) exRec2 (by decide) ex_none (-100) 30 0
    (by decide)

/-- `stored_from_log`: a valid log whose table holds a non-empty entry -/
example : LogOK exLog ∧ ∃ key e, e ∈ (runSaves exLog).bucket key ∧ e.hash ≠ 0#64 := by
  refine ⟨exLog_ok, ?_⟩
  obtain ⟨e, he, hh⟩ := save_then_found (runSaves [exRec1]) (buckets_length _) exRec2
  exact ⟨_, e, he, by rw [hh]; decide⟩

/-- `get_sound`, `get_move_sound`: a probe that is usable and suggests a move -/
example : LogOK exLog ∧ exRec2.h ≠ 0#64 ∧
    (ttGet (runSaves exLog) exRec2.h (-100) 30 3 0).2.1 = true ∧
    (ttGet (runSaves exLog) exRec2.h (-100) 30 3 0).2.2 ≠ 0 := by
  rw [ex_get]
  exact ⟨exLog_ok, by decide, rfl, by decide⟩

/-- `get_absent`: a non-zero hash that was never stored -/
example : LogOK exLog ∧ (1#64 : BB) ≠ 0#64 ∧ ∀ s ∈ exLog, s.h ≠ 1#64 := by
  refine ⟨exLog_ok, by decide, ?_⟩
  intro s hs
  simp only [exLog, List.mem_cons, List.not_mem_nil, or_false] at hs
  rcases hs with rfl | rfl <;> decide

/-- `save_then_found`, `save_then_get_exact`: a non-empty well-formed table and a save satisfying all hypotheses -/
example : (∀ k, ((runSaves [exRec1]).bucket k).length = Gen.ttBucketSize) ∧ exRec2.h ≠ 0#64 ∧ exRec2.nt < 3 ∧
    (∀ e ∈ (runSaves [exRec1]).bucket (ttKey exRec2.h), e.hash ≠ exRec2.h) ∧
    (-32767 + 100 ≤ exRec2.score ∧ exRec2.score ≤ 32767 - 100) :=
  ⟨buckets_length _, by decide, by decide, ex_none, by decide⟩

end Clemens
