import Clemens.Proofs.SearchCancel
/-
C05 — cancellation is noticed at the very next node; the requested depth is never exceeded; the iteration
loop terminates.

The cancellation is an oracle in the state: the `n`-th poll of `ctx.Done()` reports "done" iff `cancelAt = some k`
and `n ≥ k`.  All statements below hold for every position, every window, every fuel and every content of the
shared tables (TT, killers, history, counter moves, path) in the start state.
Proofs: `Clemens/Proofs/SearchFrame.lean` (a relational logic for the monad `SM`, and the frame property `Fr` of
`qLoop`/`quiescence`/`nmLoop`/`negamax`), `Clemens/Proofs/SearchCancel.lean`.

`Cancelled` is defined in `Clemens/Proofs/SearchFrame.lean`, in namespace `Clemens`, exactly as in the task:
`def Cancelled (s : SState) : Prop := ∃ k, s.cancelAt = some k ∧ k ≤ s.polls`
(a state in which the cancellation has already been reported, or will be at the next poll).
-/
namespace Clemens
open SearchLemmas

example : Cancelled { cancelAt := some 3, polls := 5 } := ⟨3, rfl, by decide⟩
example : ¬ Cancelled { cancelAt := some 3, polls := 2 } := by
  intro ⟨k, hk, hle⟩; cases hk; exact absurd hle (by decide)

/-! ### a cancelled context is seen by the next poll, and stays cancelled -/

theorem poll_cancelled (s : SState) (h : Cancelled s) : (poll s).1 = .cancelled ∧ Cancelled (poll s).2 :=
  SearchLemmas.poll_cancelled s h

example : kind (poll { cancelAt := some 3, polls := 3, nodes := 7 }).1 = .cancelled :=
  kind_eq_cancelled.2 (poll_cancelled _ ⟨3, rfl, by decide⟩).1

/-- entering a node after the cancellation: no node is visited (negamax counts nothing …) and the result is `cancelled` -/
theorem negamax_after_cancel (K : Keys) (fuel : Nat) (p : Pos) (alpha beta : Int) (depth ply : Nat) (canNull : Bool)
    (prev : Move) (s : SState) (h : Cancelled s) (hf : 0 < fuel) :
    (negamax K fuel p alpha beta depth ply canNull prev s).1 = .cancelled ∧
    (negamax K fuel p alpha beta depth ply canNull prev s).2.nodes = s.nodes := by
  rw [SearchLemmas.negamax_after_cancel K fuel p alpha beta depth ply canNull prev s h hf]
  exact ⟨rfl, rfl⟩

/-- … in fact the whole effect of the call is that single poll -/
theorem negamax_after_cancel_eq (K : Keys) (fuel : Nat) (p : Pos) (alpha beta : Int) (depth ply : Nat) (canNull : Bool)
    (prev : Move) (s : SState) (h : Cancelled s) (hf : 0 < fuel) :
    negamax K fuel p alpha beta depth ply canNull prev s = (.cancelled, { s with polls := s.polls + 1 }) :=
  SearchLemmas.negamax_after_cancel K fuel p alpha beta depth ply canNull prev s h hf

/-- … quiescence has already counted its own entry (`s.nodes++` precedes the `select`) -/
theorem quiescence_after_cancel (K : Keys) (fuel : Nat) (p : Pos) (alpha beta : Int) (ply : Nat) (s : SState)
    (h : Cancelled s) (hf : 0 < fuel) :
    (quiescence K fuel p alpha beta ply s).1 = .cancelled ∧ (quiescence K fuel p alpha beta ply s).2.nodes = s.nodes + 1 := by
  rw [SearchLemmas.quiescence_after_cancel K fuel p alpha beta ply s h hf]
  exact ⟨rfl, rfl⟩

/-- the hypotheses are satisfiable, for every position and window: the state `{cancelAt := some 3, polls := 5, nodes := 7}`
is `Cancelled`, and the search called on it visits no node -/
example (K : Keys) (p : Pos) :
    (negamax K 300 p (-INF) INF 4 0 true 0 { cancelAt := some 3, polls := 5, nodes := 7 }).2.nodes = 7 :=
  (negamax_after_cancel K 300 p (-INF) INF 4 0 true 0 _ ⟨3, rfl, by decide⟩ (by decide)).2

/-! ### cancellation propagates -/

/-- a cancelled sub-computation cancels the whole bind, without running the continuation -/
theorem bind_cancelled {α β} (m : SM α) (f : α → SM β) (s : SState) (h : (m s).1 = .cancelled) :
    (m >>= f) s = (.cancelled, (m s).2) :=
  SearchLemmas.bind_cancelled' m f s h

example : ((SM.cancel : SM Nat) >>= fun n => SM.modify fun s => { s with nodes := n }) { nodes := 4 } = (.cancelled, { nodes := 4 }) :=
  bind_cancelled _ _ _ rfl

/-! ### the frame property of the search

`SearchLemmas.Fr s k s'` (start state, kind of the result, end state) says:
 * `cancelAt`, `log`, `pv`, `mainPolls`, `rootHmc` are unchanged;
 * `polls` and `nodes` only grow, and `nodes` grows by at most as much as `polls` (every node entry polls);
 * `k = cancelled` only if `cancelAt = some c` with `c < s'.polls` (the only source of `.cancelled` is `poll`);
 * if `s.cancelAt = some c` and `s.polls ≤ c`: a cancelled result has `s'.polls = c + 1` — the poll that saw the cancellation
   is the *last* poll of the call — and any other result has `s'.polls ≤ c` (no poll saw it).
`SearchLemmas.Holds m` says `m` satisfies `Fr` from every start state. -/

theorem negamax_frame (K : Keys) (fuel : Nat) (p : Pos) (alpha beta : Int) (depth ply : Nat) (canNull : Bool) (prev : Move) :
    Holds (negamax K fuel p alpha beta depth ply canNull prev) :=
  holds_negamax K fuel p alpha beta depth ply canNull prev

theorem quiescence_frame (K : Keys) (fuel : Nat) (p : Pos) (alpha beta : Int) (ply : Nat) :
    Holds (quiescence K fuel p alpha beta ply) :=
  holds_quiescence K fuel p alpha beta ply

theorem searchRoot_frame (K : Keys) (root : Pos) (d : Nat) (a b : Int) : Holds (searchRoot K root d a b) :=
  holds_searchRoot K root d a b

/-- once any call returns cancelled the state is Cancelled (the only source of `.cancelled` is `poll`) -/
theorem negamax_cancelled_state (K : Keys) (fuel : Nat) (p : Pos) (alpha beta : Int) (depth ply : Nat) (canNull : Bool)
    (prev : Move) (s : SState) (h : (negamax K fuel p alpha beta depth ply canNull prev s).1 = .cancelled) :
    Cancelled (negamax K fuel p alpha beta depth ply canNull prev s).2 :=
  holds_cancelled_state (holds_negamax K fuel p alpha beta depth ply canNull prev) s h

theorem quiescence_cancelled_state (K : Keys) (fuel : Nat) (p : Pos) (alpha beta : Int) (ply : Nat) (s : SState)
    (h : (quiescence K fuel p alpha beta ply s).1 = .cancelled) : Cancelled (quiescence K fuel p alpha beta ply s).2 :=
  holds_cancelled_state (holds_quiescence K fuel p alpha beta ply) s h

theorem searchRoot_cancelled_state (K : Keys) (root : Pos) (d : Nat) (a b : Int) (s : SState)
    (h : (searchRoot K root d a b s).1 = .cancelled) : Cancelled (searchRoot K root d a b s).2 :=
  holds_cancelled_state (holds_searchRoot K root d a b) s h

/-- satisfiable: on an already cancelled state the hypothesis holds for every position -/
example (K : Keys) (p : Pos) : Cancelled (negamax K 300 p (-INF) INF 4 0 true 0 { cancelAt := some 3, polls := 5 }).2 :=
  negamax_cancelled_state K 300 p (-INF) INF 4 0 true 0 _
    (negamax_after_cancel K 300 p (-INF) INF 4 0 true 0 _ ⟨3, rfl, by decide⟩ (by decide)).1

/-! ### unwinding: the cancelling poll is the last thing the search does -/

/-- a `negamax` call started before the cancellation (`polls ≤ c`) that ends cancelled made its last poll at number `c`: after the
poll that saw the cancellation no further poll — hence no further node entry, each of which polls first — happened anywhere in the
tree, in any loop, at any level -/
theorem negamax_cancel_last_poll (K : Keys) (fuel : Nat) (p : Pos) (alpha beta : Int) (depth ply : Nat) (canNull : Bool)
    (prev : Move) (s : SState) (c : Nat) (hc : s.cancelAt = some c) (hp : s.polls ≤ c)
    (h : (negamax K fuel p alpha beta depth ply canNull prev s).1 = .cancelled) :
    (negamax K fuel p alpha beta depth ply canNull prev s).2.polls = c + 1 := by
  have hfr := holds_negamax K fuel p alpha beta depth ply canNull prev s
  rw [h] at hfr
  exact (hfr.2.2.2.2.2.2.2.2.2 c hc hp).1 rfl

/-- conversely a call that does not end cancelled never saw the cancellation -/
theorem negamax_not_cancelled_polls (K : Keys) (fuel : Nat) (p : Pos) (alpha beta : Int) (depth ply : Nat) (canNull : Bool)
    (prev : Move) (s : SState) (c : Nat) (hc : s.cancelAt = some c) (hp : s.polls ≤ c)
    (h : (negamax K fuel p alpha beta depth ply canNull prev s).1 ≠ .cancelled) :
    (negamax K fuel p alpha beta depth ply canNull prev s).2.polls ≤ c := by
  have hfr := holds_negamax K fuel p alpha beta depth ply canNull prev s
  refine (hfr.2.2.2.2.2.2.2.2.2 c hc hp).2 ?_
  intro hk
  exact h (kind_eq_cancelled.1 hk)

/-- every node counted was preceded by its own poll: a call visits at most as many nodes as it polls … -/
theorem negamax_nodes_le_polls (K : Keys) (fuel : Nat) (p : Pos) (alpha beta : Int) (depth ply : Nat) (canNull : Bool)
    (prev : Move) (s : SState) :
    (negamax K fuel p alpha beta depth ply canNull prev s).2.nodes - s.nodes ≤
      (negamax K fuel p alpha beta depth ply canNull prev s).2.polls - s.polls := by
  have hfr := holds_negamax K fuel p alpha beta depth ply canNull prev s
  obtain ⟨_, _, _, _, _, h6, h7, h8, _⟩ := hfr
  omega

/-- … so a search cancelled at poll number `c` visits at most `c + 1 - polls` nodes, whatever its depth: the cancellation is
noticed at the very next node -/
theorem negamax_cancelled_nodes_bound (K : Keys) (fuel : Nat) (p : Pos) (alpha beta : Int) (depth ply : Nat) (canNull : Bool)
    (prev : Move) (s : SState) (c : Nat) (hc : s.cancelAt = some c) (hp : s.polls ≤ c)
    (h : (negamax K fuel p alpha beta depth ply canNull prev s).1 = .cancelled) :
    (negamax K fuel p alpha beta depth ply canNull prev s).2.nodes ≤ s.nodes + (c + 1 - s.polls) := by
  have h1 := negamax_cancel_last_poll K fuel p alpha beta depth ply canNull prev s c hc hp h
  have h2 := negamax_nodes_le_polls K fuel p alpha beta depth ply canNull prev s
  omega

/-- the same two facts for `quiescence` -/
theorem quiescence_cancel_last_poll (K : Keys) (fuel : Nat) (p : Pos) (alpha beta : Int) (ply : Nat) (s : SState) (c : Nat)
    (hc : s.cancelAt = some c) (hp : s.polls ≤ c) (h : (quiescence K fuel p alpha beta ply s).1 = .cancelled) :
    (quiescence K fuel p alpha beta ply s).2.polls = c + 1 := by
  have hfr := holds_quiescence K fuel p alpha beta ply s
  rw [h] at hfr
  exact (hfr.2.2.2.2.2.2.2.2.2 c hc hp).1 rfl

/-- satisfiable (the boundary case `polls = c`: the very next poll cancels) -/
example (K : Keys) (p : Pos) :
    (negamax K 300 p (-INF) INF 4 0 true 0 { cancelAt := some 5, polls := 5 }).2.polls = 5 + 1 :=
  negamax_cancel_last_poll K 300 p (-INF) INF 4 0 true 0 _ 5 rfl (Nat.le_refl _)
    (negamax_after_cancel K 300 p (-INF) INF 4 0 true 0 _ ⟨5, rfl, Nat.le_refl _⟩ (by decide)).1

/-! ### the move loops stop at the first cancelled child

For an arbitrary `recur` (the loops take the recursive call as a parameter): if the child search of the move under consideration
returns cancelled, the loop returns cancelled in the child's end state — the remaining moves `rest` are not looked at, nothing is
written to the killers/history/TT.  There are three call sites in `nmLoop` (full window for the first legal move, zero window,
re-search) and one in `qLoop`. -/

theorem nmLoop_stops_on_cancel (K : Keys) (recur : NegaFn) (p : Pos) (beta : Int) (depth ply : Nat) (prev : Move) (fp : Bool)
    (m : Move) (rest : List Move) (st : LoopSt) (q : Pos) (s : SState)
    (hq : makeMove K p m = some q) (hl : isLegal q = true)
    (hp : (fp && !isCapture p m && m.kind != 1 && !isInCheck q q.side) = false)   -- not futility pruned
    (h1 : st.legalMoves = 0)                                                       -- the first legal move
    (hc : (recur q (w16 (-beta)) (w16 (-st.alpha)) (depth - 1) (ply + 1) true prev s).1 = .cancelled) :
    nmLoop K recur p beta depth ply prev fp (m :: rest) st s =
      (.cancelled, (recur q (w16 (-beta)) (w16 (-st.alpha)) (depth - 1) (ply + 1) true prev s).2) :=
  nmLoop_stop_first K recur p beta depth ply prev fp m rest st q s hq hl hp h1 hc

theorem nmLoop_stops_on_cancel_zw (K : Keys) (recur : NegaFn) (p : Pos) (beta : Int) (depth ply : Nat) (prev : Move) (fp : Bool)
    (m : Move) (rest : List Move) (st : LoopSt) (q : Pos) (s : SState)
    (hq : makeMove K p m = some q) (hl : isLegal q = true)
    (hp : (fp && !isCapture p m && m.kind != 1 && !isInCheck q q.side) = false)
    (h1 : st.legalMoves ≠ 0)                                                       -- a later move: zero-window search
    (hc : (recur q (w16 (w16 (-st.alpha) - 1)) (w16 (-st.alpha)) (depth - 1) (ply + 1) true prev s).1 = .cancelled) :
    nmLoop K recur p beta depth ply prev fp (m :: rest) st s =
      (.cancelled, (recur q (w16 (w16 (-st.alpha) - 1)) (w16 (-st.alpha)) (depth - 1) (ply + 1) true prev s).2) :=
  nmLoop_stop_zw K recur p beta depth ply prev fp m rest st q s hq hl hp h1 hc

theorem nmLoop_stops_on_cancel_research (K : Keys) (recur : NegaFn) (p : Pos) (beta : Int) (depth ply : Nat) (prev : Move)
    (fp : Bool) (m : Move) (rest : List Move) (st : LoopSt) (q : Pos) (s s1 : SState) (sc : Int) (cpv : Option (List Move))
    (hq : makeMove K p m = some q) (hl : isLegal q = true)
    (hp : (fp && !isCapture p m && m.kind != 1 && !isInCheck q q.side) = false)
    (h1 : st.legalMoves ≠ 0)
    (h0 : recur q (w16 (w16 (-st.alpha) - 1)) (w16 (-st.alpha)) (depth - 1) (ply + 1) true prev s = (.ok (sc, cpv), s1))
    (hs : w16 (-sc) > st.alpha)                                                    -- the zero-window search raised alpha: re-search
    (hc : (recur q (w16 (-beta)) (w16 (-st.alpha)) (depth - 1) (ply + 1) true prev s1).1 = .cancelled) :
    nmLoop K recur p beta depth ply prev fp (m :: rest) st s =
      (.cancelled, (recur q (w16 (-beta)) (w16 (-st.alpha)) (depth - 1) (ply + 1) true prev s1).2) :=
  nmLoop_stop_research K recur p beta depth ply prev fp m rest st q s s1 sc cpv hq hl hp h1 h0 hs hc

/-- `qLoop`, en passant capture (never delta pruned nor SEE filtered) -/
theorem qLoop_stops_on_cancel_ep (K : Keys) (recur : Pos → Int → Int → Nat → SM Int) (p : Pos) (sp beta : Int) (ply : Nat)
    (eg : Bool) (m : Move) (rest : List Move) (a : Int) (q : Pos) (s : SState)
    (hep : m.kind = 2) (hq : makeMove K p m = some q) (hl : isLegal q = true)
    (hc : (recur q (w16 (-beta)) (w16 (-a)) (ply + 1) s).1 = .cancelled) :
    qLoop K recur p sp beta ply eg (m :: rest) a s = (.cancelled, (recur q (w16 (-beta)) (w16 (-a)) (ply + 1) s).2) :=
  qLoop_stop K recur p sp beta ply eg m rest a q s hep hq hl hc

/-- `qLoop`, any other capture that survives delta pruning (`hdelta`) and the SEE filter (`hsee`, `hv`) -/
theorem qLoop_stops_on_cancel (K : Keys) (recur : Pos → Int → Int → Nat → SM Int) (p : Pos) (sp beta : Int) (ply : Nat)
    (eg : Bool) (m : Move) (rest : List Move) (a : Int) (q : Pos) (s : SState) (v : Int)
    (hk : m.kind ≠ 2) (ht : pieceType (p.at m.tgt) < 6)
    (hdelta : (decide (w16 (w16 (sp + pieceValue (pieceType (p.at m.tgt))) +
        (if m.kind = 1 then w16 (w16 (2 * pieceValue PAWN - pieceValue PAWN) + pieceValue m.promo) else 2 * pieceValue PAWN)) < a)
        && !eg) = false)
    (hsee : see p m = some v) (hv : ¬ v < 0)
    (hq : makeMove K p m = some q) (hl : isLegal q = true)
    (hc : (recur q (w16 (-beta)) (w16 (-a)) (ply + 1) s).1 = .cancelled) :
    qLoop K recur p sp beta ply eg (m :: rest) a s = (.cancelled, (recur q (w16 (-beta)) (w16 (-a)) (ply + 1) s).2) :=
  qLoop_stop_capture K recur p sp beta ply eg m rest a q s v hk ht hdelta hsee hv hq hl hc

/- The hypotheses `makeMove K p m = some q`, `isLegal q = true` of the four loop lemmas are satisfied by every playable move (e.g.
`p = startPos realKeys`, `m = Move.mk 12 28 0`: `#eval (makeMove realKeys (startPos realKeys) (Move.mk 12 28 0)).map isLegal` gives
`some true`).  No kernel-checked `example` is given for them: evaluating `isLegal` in the kernel unfolds the magic attack tables. The
hypothesis on `recur` is satisfied by `recur := fun _ _ _ _ _ _ _ => SM.cancel`, and by `negamax K fuel` on a `Cancelled` state
(`negamax_after_cancel`). -/

/-- the loops also satisfy the frame property, for any `recur` that does: in particular "cancelled ⇒ the cancelling poll was the last
poll" holds for the loops whatever the pruning decisions were -/
theorem nmLoop_frame (K : Keys) (recur : NegaFn) (hrec : ∀ q a b d pl cn pm, Holds (recur q a b d pl cn pm))
    (p : Pos) (beta : Int) (depth ply : Nat) (prev : Move) (fp : Bool) (l : List Move) (st : LoopSt) :
    Holds (nmLoop K recur p beta depth ply prev fp l st) :=
  holds_nmLoop K recur hrec p beta depth ply prev fp l st

theorem qLoop_frame (K : Keys) (recur : Pos → Int → Int → Nat → SM Int) (hrec : ∀ q a b pl, Holds (recur q a b pl))
    (p : Pos) (sp beta : Int) (ply : Nat) (eg : Bool) (l : List Move) (a : Int) :
    Holds (qLoop K recur p sp beta ply eg l a) :=
  holds_qLoop K recur hrec p sp beta ply eg l a

example : ∀ q a b d pl cn pm, Holds ((fun _ _ _ _ _ _ _ => SM.panic : NegaFn) q a b d pl cn pm) :=
  fun _ _ _ _ _ _ _ => holds_panic

/-! ### the iteration loop -/

/-- a cancelled root search ends the loop at once ("Timeout": `SearchIterative` just returns), with no further root search:
the end state is the end state of that root search -/
theorem searchIterative_stops (K : Keys) (root : Pos) (pvStr : Move → String) (maxD fuel depth : Nat) (alpha beta : Int)
    (s : SState) (hd : depth ≤ maxD) (h : (searchRoot K root depth alpha beta s).1 = .cancelled) :
    searchIterative.go K root pvStr maxD (fuel + 1) depth alpha beta s = (.ok (), (searchRoot K root depth alpha beta s).2) :=
  go_cancelled K root pvStr maxD fuel depth alpha beta s hd h

theorem searchRoot_after_cancel (K : Keys) (root : Pos) (depth : Nat) (alpha beta : Int) (s : SState) (h : Cancelled s) :
    (searchRoot K root depth alpha beta s).1 = .cancelled ∧ (searchRoot K root depth alpha beta s).2.nodes = s.nodes := by
  unfold searchRoot
  rw [bind_ok _ _ s { s with killers := {} } () rfl]
  exact negamax_after_cancel K 300 root alpha beta depth 0 true 0 _ (cancelled_mono h rfl (Nat.le_refl _)) (by decide)

/-- satisfiable, and the typical use: `SearchIterative` started on an already cancelled context returns without visiting a node -/
example (K : Keys) (root : Pos) (pvStr : Move → String) :
    (searchIterative K root pvStr 7 { cancelAt := some 0, nodes := 11 }).1 = .ok () ∧
    (searchIterative K root pvStr 7 { cancelAt := some 0, nodes := 11 }).2.nodes = 11 := by
  have hc : Cancelled ({ cancelAt := some 0, nodes := 11 } : SState) := ⟨0, rfl, Nat.le_refl _⟩
  have h := searchRoot_after_cancel K root 1 (-INF) INF _ hc
  unfold searchIterative
  rw [searchIterative_stops K root pvStr 7 1999 1 (-INF) INF _ (by decide) h.1]
  exact ⟨rfl, h.2⟩

/-- `SearchIterative` never reports the cancellation to its caller (it returns normally; `Search` then reads the pv) -/
theorem searchIterative_not_cancelled (K : Keys) (root : Pos) (pvStr : Move → String) (maxD : Nat) (hm : maxD < 255) (s : SState) :
    (searchIterative K root pvStr maxD s).1 ≠ .cancelled :=
  (go_spec K root pvStr maxD hm 2000 1 (-INF) INF s (Nat.le_refl _) (by omega)).1

/-- The lines `SearchIterative(maxD)` appends to the log (`SearchLemmas.IterLine maxD l`): either
`infoLine d score nodes pv` = "info depth d score cp … nodes … pv …" with `1 ≤ d ≤ maxD`, or the
"info string windows [a,b] too small for value v" line of a failed aspiration window.

**depth_never_exceeded**: the depth of every reported iteration is at most the requested depth (`maxD < 255`, the width of the
`uint8` counter): everything appended to the log between `s` and `s'` is such a line.  (`searchRoot` itself never touches the
log: `searchRoot_frame`.) -/
theorem depth_never_exceeded (K : Keys) (root : Pos) (pvStr : Move → String) (maxD : Nat) (hm : maxD < 255) (s s' : SState)
    (h : searchIterative K root pvStr maxD s = (.ok (), s')) :
    ∃ added : List String, s'.log = added ++ s.log ∧ ∀ l ∈ added, IterLine maxD l := by
  obtain ⟨_, added, h2, h3, _⟩ := go_spec K root pvStr maxD hm 2000 1 (-INF) INF s (Nat.le_refl _) (by omega)
  unfold searchIterative at h
  rw [h] at h2
  exact ⟨added, h2, h3⟩

/-- the same in the form "`go` is only ever entered with `depth ≤ maxD + 1` and only calls `searchRoot` with `depth ≤ maxD`":
beyond `maxD` the loop body returns at once, without a root search and without touching the state -/
theorem go_beyond_maxD (K : Keys) (root : Pos) (pvStr : Move → String) (maxD fuel depth : Nat) (alpha beta : Int) (s : SState)
    (h : depth > maxD) : searchIterative.go K root pvStr maxD fuel depth alpha beta s = (.ok (), s) := by
  cases fuel with
  | zero => rfl
  | succ f => exact go_gt K root pvStr maxD f depth alpha beta s h

/-- satisfiable: depth 0 requests nothing (`1 > 0`), the run ends in the start state -/
example (K : Keys) (root : Pos) (pvStr : Move → String) (s : SState) : searchIterative K root pvStr 0 s = (.ok (), s) :=
  go_beyond_maxD K root pvStr 0 2000 1 (-INF) INF s (by decide)

/-! ### the fix of defect D5: no endless re-search -/

/-- with the full window the loop never re-searches: after one root search at `depth` it either stops (cancelled, panic, or the
score is outside `(-INF, INF)`: the checkmated/stalemated root of defect D5) or moves on to `depth + 1` -/
theorem full_window_no_research (K : Keys) (root : Pos) (pvStr : Move → String) (maxD fuel depth : Nat) (s : SState)
    (hd : depth ≤ maxD) :
    searchIterative.go K root pvStr maxD (fuel + 1) depth (-INF) INF s =
      match searchRoot K root depth (-INF) INF s with
      | (.cancelled, s') => (.ok (), s')
      | (.panic, s') => (.panic, s')
      | (.ok (score, pvl), s') =>
        if score ≤ -INF ∨ score ≥ INF then (.ok (), s')
        else searchIterative.go K root pvStr maxD fuel ((depth + 1) % 256) (w16 (score - widenWindow)) (w16 (score + widenWindow))
          { s' with pv := pvl.getD [], log := infoLine depth score s'.nodes ((pvl.getD []).map pvStr) :: s'.log } := by
  rcases hr : searchRoot K root depth (-INF) INF s with ⟨r, s'⟩
  cases r with
  | cancelled => rw [go_cancelled K root pvStr maxD fuel depth _ _ s hd (by rw [hr]), hr]
  | panic => rw [go_panic K root pvStr maxD fuel depth _ _ s hd (by rw [hr]), hr]
  | ok res =>
    obtain ⟨score, pvl⟩ := res
    dsimp only
    by_cases hf : score ≤ -INF ∨ score ≥ INF
    · rw [go_fail_full K root pvStr maxD fuel depth s s' hd score pvl hr hf, if_pos hf]
    · rw [go_adopt K root pvStr maxD fuel depth _ _ s s' hd score pvl hr (by omega), if_neg hf]

/-- with an aspiration window a failed search is repeated once, with the full window — which by `full_window_no_research` is
never repeated again at this depth -/
theorem aspiration_one_research (K : Keys) (root : Pos) (pvStr : Move → String) (maxD fuel depth : Nat) (alpha beta : Int)
    (s s' : SState) (hd : depth ≤ maxD) (score : Int) (pvl : Option (List Move))
    (hr : searchRoot K root depth alpha beta s = (.ok (score, pvl), s')) (hf : score ≤ alpha ∨ score ≥ beta)
    (hw : ¬ (alpha = -INF ∧ beta = INF)) :
    searchIterative.go K root pvStr maxD (fuel + 1) depth alpha beta s =
      searchIterative.go K root pvStr maxD fuel depth (-INF) INF
        { s' with log := s!"info string windows [{alpha},{beta}] too small for value {score}" :: s'.log } :=
  go_fail_asp K root pvStr maxD fuel depth alpha beta s s' hd score pvl hr hf hw

/-- hence at most `2·maxD` root searches: `SearchLemmas.rootSearches` follows the recursion of `searchIterative.go` and counts the
`searchRoot` calls instead of returning the state (depth 1 is searched once, every later depth at most twice) … -/
theorem root_searches_le (K : Keys) (root : Pos) (pvStr : Move → String) (maxD : Nat) (hm : maxD < 255) (s : SState) :
    rootSearches K root pvStr maxD 2000 1 (-INF) INF s ≤ 2 * maxD := by
  by_cases h0 : maxD = 0
  · subst h0
    unfold rootSearches
    simp
  · have h := rootSearches_le K root pvStr maxD hm 2000 1 (-INF) INF s (Nat.le_refl _) (by omega)
    unfold iterBudget at h
    simp only [and_self, if_true] at h
    omega

/-- … and, counted on the model itself: at most `2·maxD - 1` lines are printed (every root search but the last prints exactly one) -/
theorem log_lines_le (K : Keys) (root : Pos) (pvStr : Move → String) (maxD : Nat) (hm : maxD < 255) (s : SState) :
    ∃ added : List String, (searchIterative K root pvStr maxD s).2.log = added ++ s.log ∧ added.length ≤ 2 * maxD - 1 := by
  obtain ⟨_, added, h2, _, h4⟩ := go_spec K root pvStr maxD hm 2000 1 (-INF) INF s (Nat.le_refl _) (by omega)
  refine ⟨added, h2, ?_⟩
  unfold iterBudget at h4
  simp only [and_self, if_true] at h4
  omega

/-- the loop terminates by itself: the fuel `2000` of the model is never what stops it — any fuel above `2·maxD - 1` gives the
same run (so the model's `go` is the Go `for` loop, not a truncation of it) -/
theorem searchIterative_fuel_irrelevant (K : Keys) (root : Pos) (pvStr : Move → String) (maxD : Nat) (hm : maxD < 255)
    (fuel : Nat) (hf : 2 * maxD ≤ fuel) (s : SState) :
    searchIterative K root pvStr maxD s = searchIterative.go K root pvStr maxD fuel 1 (-INF) INF s := by
  unfold searchIterative
  by_cases h0 : maxD = 0
  · subst h0
    rw [go_beyond_maxD K root pvStr 0 2000 1 _ _ s (by decide), go_beyond_maxD K root pvStr 0 fuel 1 _ _ s (by decide)]
  · apply go_fuel_irrelevant K root pvStr maxD hm 2000 fuel 1 (-INF) INF s (Nat.le_refl _) (by omega)
    · unfold iterBudget; simp only [and_self, if_true]; omega
    · unfold iterBudget; simp only [and_self, if_true]; omega

example : (254 : Nat) < 255 ∧ 2 * 254 ≤ 2000 := by decide

end Clemens
