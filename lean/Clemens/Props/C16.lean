import Clemens.Proofs.EvalCacheLemmas
/-
C16 — the evaluation cache is transparent: along any history without 64-bit hash collisions the cached evaluation
returns exactly the uncached scores; fifty-move draws bypass the cache.
-/
namespace Clemens

/-- the scores returned along a history of evaluations, threading the cache -/
def evalSeq (raw : Pos → Option Int) (cf : Pos → Int) : EvalCache → List Pos → Option (List Int)
  | _, [] => some []
  | c, p :: ps => do
    let (s, c') ← evalWithCacheG raw cf c p
    let rest ← evalSeq raw cf c' ps
    pure (s :: rest)

/-- what the evaluation returns without any cache -/
def uncached (raw : Pos → Option Int) (cf : Pos → Int) (p : Pos) : Option Int := if p.hmc ≥ 100 then some (cf p) else raw p

/-- generalisation of `cache_transparent` to any cache satisfying the invariant `CacheOK` w.r.t. an enclosing history -/
theorem evalSeq_ok (raw : Pos → Option Int) (cf : Pos → Int) (all : List Pos)
    (hcoll : ∀ p ∈ all, ∀ q ∈ all, p.hmc < 100 → q.hmc < 100 → p.hash = q.hash → raw p = raw q) :
    ∀ (ps : List Pos) (c : EvalCache), CacheOK raw all c → (∀ p ∈ ps, p ∈ all) →
      evalSeq raw cf c ps = ps.mapM (uncached raw cf) := by
  intro ps
  induction ps with
  | nil => intro c _ _; simp [evalSeq]
  | cons p ps ih =>
    intro c hc hsub
    have hp : p ∈ all := hsub p (by simp)
    rw [List.mapM_cons, evalSeq]
    rcases evalWithCacheG_ok raw cf all c p hcoll hc hp with ⟨h1, h2⟩ | ⟨s, c', h1, h2, h3⟩
    · rw [uncached, h1, h2]; rfl
    · rw [uncached, h1, h2]
      have := ih c' h3 (fun q hq => hsub q (by simp [hq]))
      simp only [Option.bind_eq_bind, Option.bind_some, this]

/-- Transparency: for every history in which equal hashes (among positions with clock < 100) mean equal raw evaluation
(no 64-bit collision inside the history) and no position hashes to the empty-slot marker 0 unless its score is 0,
every returned score is the uncached one.  The cache size is arbitrary (it only has to be positive). -/
theorem cache_transparent (raw : Pos → Option Int) (cf : Pos → Int) (ps : List Pos)
    (hcoll : ∀ p ∈ ps, ∀ q ∈ ps, p.hmc < 100 → q.hmc < 100 → p.hash = q.hash → raw p = raw q)
    (hzero : ∀ p ∈ ps, p.hmc < 100 → p.hash = 0#64 → raw p = some 0) :
    evalSeq raw cf {} ps = ps.mapM (uncached raw cf) :=
  evalSeq_ok raw cf ps hcoll ps {} (cacheOK_empty raw ps hzero) (fun _ h => h)

theorem draw_not_cached (raw cf) (c : EvalCache) (p : Pos) (h : p.hmc ≥ 100) :
    evalWithCacheG raw cf c p = some (cf p, c) := by
  simp [evalWithCacheG, h]

/-- the real raw evaluation applies the same draw score, so `uncached evalRaw contempt = evalRaw` -/
theorem evalRaw_fifty (p : Pos) (h : p.hmc ≥ 100) : evalRaw p = some (contempt p) := by
  have : isDraw p = true := by simp [isDraw, h]
  simp [evalRaw, this]

theorem uncached_real (p : Pos) : uncached evalRaw contempt p = evalRaw p := by
  unfold uncached
  split
  · next h => exact (evalRaw_fifty p h).symm
  · rfl

/-! Satisfiability of the hypotheses, and necessity of `hzero`. -/

/-- with a raw evaluation that is a function of the hash (and 0 on hash 0), every history satisfies both hypotheses,
including histories with repetitions and positions past the fifty-move limit -/
example (ps : List Pos) :
    let raw : Pos → Option Int := fun p => some (p.hash.toNat : Int)
    (∀ p ∈ ps, ∀ q ∈ ps, p.hmc < 100 → q.hmc < 100 → p.hash = q.hash → raw p = raw q) ∧
    (∀ p ∈ ps, p.hmc < 100 → p.hash = 0#64 → raw p = some 0) := by
  refine ⟨?_, ?_⟩
  · intro p _ q _ _ _ h; simp [h]
  · intro p _ _ h; simp [h]

/-- a concrete history: two different positions, a repetition (cache hit) and a fifty-move draw -/
example :
    let raw : Pos → Option Int := fun p => some (p.hash.toNat : Int)
    let a : Pos := { Pos.empty with hash := 5#64, hmc := 3 }
    let b : Pos := { Pos.empty with hash := 7#64, hmc := 0 }
    let d : Pos := { Pos.empty with hash := 5#64, hmc := 100 }
    evalSeq raw (fun _ => 400) {} [a, b, a, d, b] = some [5, 7, 5, 400, 7] := by
  intro raw a b d
  rw [cache_transparent raw _ _ (by intro p _ q _ _ _ h; simp [raw, h]) (by intro p _ _ h; simp [raw, h])]
  decide

/-- `hzero` cannot be dropped: on an empty slot a position whose hash is 0 is a "hit" and gets score 0 whatever
its raw evaluation is (the Go table uses key 0 for "empty"). -/
theorem empty_slot_hit (raw : Pos → Option Int) (cf : Pos → Int) (p : Pos) (hlt : p.hmc < 100) (h0 : p.hash = 0#64) :
    evalWithCacheG raw cf {} p = some (0, {}) := by
  have h100 : ¬ p.hmc ≥ 100 := by omega
  have hs : ∀ h, ({} : EvalCache).slot h = (0#64, 0) := by
    intro h
    show (∅ : Std.HashMap Nat (BB × Int)).getD _ (0#64, 0) = (0#64, 0)
    simp
  simp [evalWithCacheG, h100, hs, h0]

example : ({ Pos.empty with hmc := 100 } : Pos).hmc ≥ 100 := by decide

end Clemens
