import Clemens.Proofs.Captures
import Clemens.Proofs.CapturesCex
import Clemens.Proofs.Examples
/-
C17 — the capture generator yields exactly (same moves, same order) the capturing moves of the full generator.

The statement as first written,

  theorem captures_eq_filter (p : Pos) (hw : wfShape p = true) (hs : p.side < 2) (hep : p.ep = 64 ∨ p.ep < 64) :
      genCaptures p = (genMoves p).filter (isCapture p)

is FALSE (`captures_eq_filter_counterexample` below): `genCastling` builds the word from the `uint8` target
`ksq ± 2`.  When the king of the side to move stands on a1/b1 (queen side: `ksq - 2` wraps to 254/255), on g8/h8
(king side: `ksq + 2 ≥ 64`), or is missing (`ksq = 64`), `canCastleNow` looks at off-board squares (which read as
empty and unattacked), the target overflows the 6-bit field of the word, and the word decodes to some other,
possibly occupied, target square — which `isCapture` then counts as a capture.  `wfShape`, `side < 2` and the
`ep` condition do not exclude this; a stale castling right is enough.

What holds:
 * `captures_eq_filter_iff`: under the three hypotheses the equation is EQUIVALENT to "no castling word is a capture";
 * `captures_eq_filter_partial`: it holds when every offered castling has its king target on the board
   (`castlingTargetOnBoard`); that the target square is then empty is derived from `canCastleNow`, not assumed;
 * `captures_eq_filter_of_WF`: it holds for every well-formed (`WF`) position — there a castling right pins the king
   to e1/e8.
Lemmas: `Clemens/Proofs/Captures.lean`, `Clemens/Proofs/MoveWord.lean`, `Clemens/Proofs/CapturesCex.lean`.
-/
namespace Clemens
open Ex

/- Full statement (false, see `captures_eq_filter_counterexample`):
theorem captures_eq_filter (p : Pos) (hw : wfShape p = true) (hs : p.side < 2) (hep : p.ep = 64 ∨ p.ep < 64) :
    genCaptures p = (genMoves p).filter (isCapture p)
-/

/-- For every position whose board array and bitboards agree (wfShape), with side ∈ {0,1}, en passant square empty or
none, and castling only offered with the king's target on the board (true of legal positions), the capture generator
yields exactly — same moves, same order — the capturing moves of the full generator.

Added hypothesis `hk : castlingTargetOnBoard p`, i.e.
  ∀ c ∈ [1,2,4,8], castlingColor c = p.side → canCastleNow p c = true →
    if castlingKingSide c then lsb (p.pieces p.side KING) + 2 < 64
    else 2 ≤ lsb (p.pieces p.side KING) ∧ lsb (p.pieces p.side KING) < 64.
(`hep` is not used: the en passant words are the same on both sides whatever `p.ep` is.) -/
theorem captures_eq_filter_partial (p : Pos) (hw : wfShape p = true) (hs : p.side < 2)
    (_hep : p.ep = 64 ∨ p.ep < 64) (hk : castlingTargetOnBoard p) :
    genCaptures p = (genMoves p).filter (isCapture p) :=
  (captures_eq_filter_iff hw hs).2 (castling_not_capture hk)

/-- hypotheses satisfiable: the start position, and a position where castling is actually offered -/
example : wfShape (startPos K0) = true ∧ (startPos K0).side < 2 ∧ ((startPos K0).ep = 64 ∨ (startPos K0).ep < 64) ∧
    castlingTargetOnBoard (startPos K0) :=
  ⟨by decide +kernel, by decide +kernel, by decide +kernel, castlingTargetOnBoard_of_king (by decide +kernel)⟩
example : wfShape castlePos = true ∧ castlePos.side < 2 ∧ (castlePos.ep = 64 ∨ castlePos.ep < 64) ∧
    castlingTargetOnBoard castlePos :=
  ⟨by decide +kernel, by decide +kernel, by decide +kernel, castlingTargetOnBoard_of_king (by decide +kernel)⟩

/-- the exact condition: under the hypotheses of the original statement the equation holds iff no castling word the
generator offers is a capture -/
theorem captures_eq_filter_iff_castling (p : Pos) (hw : wfShape p = true) (hs : p.side < 2) :
    genCaptures p = (genMoves p).filter (isCapture p) ↔ ∀ m ∈ genCastling p, isCapture p m = false :=
  captures_eq_filter_iff hw hs

/-- a castling word whose target is on the board is never a capture: `canCastleNow` has checked the target empty -/
theorem castling_words_not_captures (p : Pos) (hk : castlingTargetOnBoard p) :
    ∀ m ∈ genCastling p, isCapture p m = false :=
  castling_not_capture hk

/-- for well-formed positions (`WF = wfShape ∧ wfState ∧ wfChess`) no side condition is left -/
theorem captures_eq_filter_of_WF (p : Pos) (h : WF p = true) :
    genCaptures p = (genMoves p).filter (isCapture p) := by
  have h' := h
  unfold WF wfState at h'
  simp only [Bool.and_eq_true, decide_eq_true_eq] at h'
  obtain ⟨⟨hw, ⟨⟨⟨⟨⟨hs, _⟩, hep⟩, _⟩, _⟩, _⟩⟩, _⟩ := h'
  exact captures_eq_filter_partial p hw hs (by omega) (castlingTargetOnBoard_of_WF h)

/-- the original statement fails: white Ka1, black Kg8, stale right Q, white to move.  `genCastling` offers the word
16256 = kind 3, a1→g8 (target 254 truncated to 6 bits), which `isCapture` counts as a capture of the black king. -/
theorem captures_eq_filter_counterexample :
    wfShape cornerPos = true ∧ cornerPos.side < 2 ∧ (cornerPos.ep = 64 ∨ cornerPos.ep < 64) ∧
      genCaptures cornerPos ≠ (genMoves cornerPos).filter (isCapture cornerPos) :=
  ⟨cornerPos_counterexample.1, cornerPos_counterexample.2.1, Or.inl cornerPos_counterexample.2.2.1,
    cornerPos_counterexample.2.2.2⟩

end Clemens
