import Clemens.Props.C16
import Clemens.Props.C09
/-
C16 rests on the hash separating the positions of a history (`hcoll` of `cache_transparent`).  For the key table the
running engine actually drew this is a theorem for positions that differ in exactly one square: the cache can then never
hand one of them the other's score.  (Positions differing in several components are separated with overwhelming
probability only; that is the stated assumption of `cache_transparent`.)
-/
namespace Clemens

theorem validPiece_lt16 (a : Nat) (h : validPiece a = true) : a < 16 := by
  simp only [validPiece, pieceColor, Bool.and_eq_true, decide_eq_true_eq, Nat.shiftRight_eq_div_pow] at h
  omega

theorem validPiece_inj_small : ∀ a : Fin 16, ∀ b : Fin 16, validPiece a.val = true → validPiece b.val = true →
    pieceColor a.val = pieceColor b.val → pieceType a.val = pieceType b.val → a = b := by decide

theorem validPiece_inj (a b : Nat) (ha : validPiece a = true) (hb : validPiece b = true)
    (hc : pieceColor a = pieceColor b) (ht : pieceType a = pieceType b) : a = b := by
  have := validPiece_inj_small ⟨a, validPiece_lt16 a ha⟩ ⟨b, validPiece_lt16 b hb⟩ ha hb hc ht
  exact congrArg Fin.val this

theorem validPiece_parts (a : Nat) (h : validPiece a = true) : pieceColor a < 2 ∧ pieceType a < 6 ∧ a ≠ 0 := by
  refine ⟨?_, ?_, ?_⟩
  · simp only [validPiece, Bool.and_eq_true, decide_eq_true_eq] at h; exact h.1
  · simp only [validPiece, Bool.and_eq_true, decide_eq_true_eq] at h; exact h.2
  · intro h0; subst h0; revert h; decide

/-- two placements that differ in exactly one square (one of the two may be empty there), same side, rights and en passant
state, hash differently under the engine's real keys -/
theorem real_hash_separates_one_square (p q : Pos) (s : Nat) (hs : s < 64)
    (hsame : ∀ i, i ≠ s → p.at i = q.at i) (hdiff : p.at s ≠ q.at s)
    (hva : p.at s = 0 ∨ validPiece (p.at s) = true) (hvb : q.at s = 0 ∨ validPiece (q.at s) = true)
    (hside : p.side = q.side) (hc : p.castling = q.castling) (he : p.ep = q.ep) :
    fullHash realKeys p ≠ fullHash realKeys q := by
  apply hash_differs_square realKeys p q s (p.at s) (q.at s) hs hsame rfl rfl hside hc he
  rcases hva with ha | ha <;> rcases hvb with hb | hb
  · exact absurd (ha.trans hb.symm) hdiff
  · have hb' := validPiece_parts _ hb
    rw [if_pos ha, if_neg hb'.2.2]
    exact (realKeys_piece_ne_zero s _ _ hs hb'.1 hb'.2.1).symm
  · have ha' := validPiece_parts _ ha
    rw [if_neg ha'.2.2, if_pos hb]
    exact realKeys_piece_ne_zero s _ _ hs ha'.1 ha'.2.1
  · have ha' := validPiece_parts _ ha
    have hb' := validPiece_parts _ hb
    rw [if_neg ha'.2.2, if_neg hb'.2.2]
    intro h
    have := realKeys_piece_inj s _ _ s _ _ hs ha'.1 ha'.2.1 hs hb'.1 hb'.2.1 h
    exact hdiff (validPiece_inj _ _ ha hb this.2.1 this.2.2)

end Clemens
