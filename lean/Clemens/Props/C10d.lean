import Clemens.Props.C04d
/-
C10d — the board stays consistent along EVERY sequence of engine moves and null moves, of any length, with no restriction on the
counters (C10b's `WF_makeMove` / `WF_reachable` are stated within `ply, hmc < 255` because they are proved through C02's refinement).

`WF` (Model/WF.lean) is the conjunction of every clause of C10: mailbox, per-piece bitboards and occupancy sets describe the same placement, the
sets are pairwise disjoint, one king each, no pawn on a back rank, castling rights only with king and rook at home, the en passant target lies
behind a pawn that just made a double step, the side that just moved is not in check.  The lemma libraries are `Proofs/GenReach*.lean` (the step
is made on the position with its counters reset and the counters are put back: `WF` only reads the parity of `ply`, which the `uint8` wrap
255 → 0 preserves).
-/
namespace Clemens

/-- one engine move, any counters -/
theorem c10_move_any (K : Keys) (p : Pos) (hw : WF p = true) (m : Move) (q : Pos) (h : (m, q) ∈ engineLegal K p) : WF q = true :=
  (WF_makeMove_any K p hw m q h).1

/-- one null move out of check, any counters -/
theorem c10_null_any (K : Keys) (p : Pos) (hw : WF p = true) (hc : isInCheck p p.side = false) : WF (makeNull K p).1 = true :=
  (GR.null_any K p hw hc).1

/-- every position reached from a legal position by generated legal moves and null moves out of check, in any number and order -/
theorem c10_reach_any (K : Keys) (root : Pos) (hw : WF root = true) (p : Pos) (h : GenReach K root p) : WF p = true :=
  genReach_WF K root hw p h

-- the hypotheses are satisfiable: the example position of C01a, and a position one move away from it (C04d)
example : WF C01a.exPos = true := C01a.ex_WF
example : ∃ m q, (m, q) ∈ engineLegal realKeys C01a.exPos := C10b.ex_step

end Clemens
