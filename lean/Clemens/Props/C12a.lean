import Clemens.Proofs.Rays
/-
C12 part A — the bit-twiddling move geometry equals the (file, rank) geometry of `Clemens/Spec/Geo.lean`:
one-step shifts, the knight/king/pawn-attack tables, pawn pushes, and the ray walker of the
sliding pieces for every square, every direction set and every one of the 2^64 occupancies.

The finite facts (512 shifts, 3 tables of 64×64 entries, the two relevance masks) are kernel
evaluations (`decide +kernel`) in `Clemens/Proofs/Rays.lean`; everything that quantifies over
an occupancy is proved symbolically (induction on the walker's fuel).
-/
namespace Clemens

/-! ### one-step shifts -/

/-- every one-step shift moves a single square exactly like the geometric step (no wrap across the a/h files, off-board ↦ ∅) -/
theorem shift_single (d : Dir) (u : Nat) (hu : u < 64) :
    d.shift (bit u) = (match Geo.step d 1 u with | some t => bit t | none => 0#64) :=
  shift_single' d u hu

-- h1 going east leaves the board (no wrap to a2); d4 going north-west lands on c5
example : Dir.E.shift (bit 7) = 0#64 ∧ Geo.step .E 1 7 = none := by decide
example : Dir.NW.shift (bit 27) = bit 34 ∧ Geo.step .NW 1 27 = some 34 := by decide

/-! ### leapers and pawn attacks -/

theorem knightAttacks_exact (s t : Nat) (hs : s < 64) (ht : t < 64) :
    (knightAttacks s).getLsbD t = Geo.knightStep s t := knight_all s hs t ht

theorem kingAttacks_exact (s t : Nat) (hs : s < 64) (ht : t < 64) :
    (kingAttacks s).getLsbD t = Geo.kingStep s t := king_all s hs t ht

theorem pawnAttacks_exact (c s t : Nat) (hc : c < 2) (hs : s < 64) (ht : t < 64) :
    (pawnAttacks c s).getLsbD t = Geo.pawnAttack c s t := pawn_all c hc s hs t ht

-- knight g1 → f3, not → h2 (wrap candidate); king h1 → g2, not → a2; black pawn a7 attacks b6 only
example : (knightAttacks 6).getLsbD 21 = true ∧ Geo.knightStep 6 21 = true ∧ (knightAttacks 6).getLsbD 15 = false := by decide
example : (kingAttacks 7).getLsbD 14 = true ∧ Geo.kingStep 7 14 = true ∧ (kingAttacks 7).getLsbD 8 = false := by decide
example : (pawnAttacks 1 48).getLsbD 41 = true ∧ Geo.pawnAttack 1 48 41 = true ∧ (pawnAttacks 1 48).getLsbD 39 = false := by decide

/-! ### pawn pushes -/

/-- geometric pawn pushes: one step forward onto an empty square; two from the home rank when both are empty -/
def Geo.pawnPush (c : Nat) (occ : BB) (s t : Nat) : Bool :=
  let dr : Int := if c = 0 then 1 else -1
  match Geo.offset 0 dr s with
  | some t1 => !occ.has t1 && (t == t1 || (rankOf s == (if c = 0 then 1 else 6) &&
      (match Geo.offset 0 (2 * dr) s with | some t2 => t == t2 && !occ.has t2 | none => false)))
  | none => false

/-- pawn pushes for all 2^64 occupancies -/
theorem pawnPushes_exact (c s t : Nat) (occ : BB) (hc : c < 2) (hs : s < 64) (ht : t < 64) :
    (pawnPushesBySquare c s occ).getLsbD t = Geo.pawnPush c occ s t := by
  obtain ⟨o1, o2, o3, o4⟩ := offset_facts s hs
  have hc' : c = 0 ∨ c = 1 := by omega
  rcases hc' with rfl | rfl
  · have := pushes_dir .N rankMask4 1 s t occ hs ht (fun t2 h2 => (rank_facts s hs t2 h2).1)
    simp only [Geo.pawnPush, if_true, o1, o2]
    exact this
  · have := pushes_dir .S rankMask5 6 s t occ hs ht (fun t2 h2 => (rank_facts s hs t2 h2).2)
    simp only [Geo.pawnPush, Nat.one_ne_zero, if_false, o3, o4]
    exact this

-- white pawn e2, e4 occupied: e3 is a push, e4 is not; with an empty board e4 is
example : (pawnPushesBySquare 0 12 (bit 28)).getLsbD 20 = true ∧ Geo.pawnPush 0 (bit 28) 12 20 = true ∧
    (pawnPushesBySquare 0 12 (bit 28)).getLsbD 28 = false ∧ Geo.pawnPush 0 0#64 12 28 = true := by decide

/-! ### the ray walker -/

/-- THE main theorem: the ray walker equals "reachable along an open line up to and including the first blocker",
for every square, every direction set and every one of the 2^64 occupancies not containing the origin -/
theorem walker_exact (dirs : List Dir) (s t : Nat) (occ : BB) (hs : s < 64) (ht : t < 64) (ho : occ.getLsbD s = false) :
    (slidingAttacks s dirs occ).getLsbD t = Geo.reach dirs occ s t :=
  have _ := ht
  walker_exact' dirs s t occ hs ho

theorem rookWalker_exact (s t : Nat) (occ : BB) (hs : s < 64) (ht : t < 64) (ho : occ.getLsbD s = false) :
    (rookWalker s occ).getLsbD t = Geo.reach rookDirs occ s t :=
  walker_exact rookDirs s t occ hs ht ho

theorem bishopWalker_exact (s t : Nat) (occ : BB) (hs : s < 64) (ht : t < 64) (ho : occ.getLsbD s = false) :
    (bishopWalker s occ).getLsbD t = Geo.reach bishopDirs occ s t :=
  walker_exact bishopDirs s t occ hs ht ho

-- rook d4, blockers on f4 and d7: the hypotheses hold, f4 (the first blocker) is attacked, g4 behind it is not
example : (bit 29 ||| bit 51 : BB).getLsbD 27 = false ∧
    (rookWalker 27 (bit 29 ||| bit 51)).getLsbD 29 = true ∧ Geo.reach rookDirs (bit 29 ||| bit 51) 27 29 = true ∧
    (rookWalker 27 (bit 29 ||| bit 51)).getLsbD 30 = false ∧ Geo.reach rookDirs (bit 29 ||| bit 51) 27 30 = false := by decide
-- bishop c1, blocker on e3: e3 attacked, f4 not
example : (bit 20 : BB).getLsbD 2 = false ∧
    (bishopWalker 2 (bit 20)).getLsbD 20 = true ∧ (bishopWalker 2 (bit 20)).getLsbD 29 = false := by decide
-- the hypothesis `ho` is necessary: the walker tests the *current* square for a blocker before stepping,
-- so an occupancy containing the origin yields the empty set, whereas `Geo.reach` never reads the origin
example : (slidingAttacks 0 rookDirs (bit 0)).getLsbD 1 = false ∧ Geo.reach rookDirs (bit 0) 0 1 = true := by decide

/-! ### relevance masks -/

/-- reach only looks at squares strictly between: occupancy outside the relevance mask (board edges in ray direction, other lines, the origin) is irrelevant -/
theorem reach_mask_rook (s t : Nat) (occ : BB) (hs : s < 64) (ht : t < 64) :
    Geo.reach rookDirs occ s t = Geo.reach rookDirs (occ &&& magicMask rookWalker s) s t :=
  have _ := ht
  reach_mask_gen rookDirs rookWalker rook_maskCovers s t occ hs

theorem reach_mask_bishop (s t : Nat) (occ : BB) (hs : s < 64) (ht : t < 64) :
    Geo.reach bishopDirs occ s t = Geo.reach bishopDirs (occ &&& magicMask bishopWalker s) s t :=
  have _ := ht
  reach_mask_gen bishopDirs bishopWalker bishop_maskCovers s t occ hs

-- rook a1: the mask is b1..g1 and a2..a7; a blocker on h1 (edge, outside the mask) does not matter, one on d1 does
example : magicMask rookWalker 0 = 0x000101010101017e#64 ∧
    (bit 7 &&& magicMask rookWalker 0) = 0#64 ∧ (bit 3 &&& magicMask rookWalker 0) = bit 3 := by decide
example : magicMask bishopWalker 27 = 0x0040221400142200#64 := by decide

end Clemens
