import Clemens.Proofs.GoParseLemmas
import Clemens.Proofs.AtoiRender
/-
C07 — `parseGo` never panics and interprets every line of the UCI `go` grammar faithfully (left to right);
unknown leading tokens of an input line are skipped.
-/
namespace Clemens

theorem parseGo_total (atoiF : Bytes → Int × Bool) (toks : List Bytes) : (parseGo atoiF toks).isSome = true :=
  parseGoLoop_isSome atoiF toks _ _

/-- items of the UCI go grammar -/
inductive GoItem
  | wtime (v : Int) | btime (v : Int) | winc (v : Int) | binc (v : Int) | movestogo (v : Int) | movetime (v : Int)
  | depth (v : Nat) | nodes (v : Int) | mate (v : Int) | infinite

/-- keyword then rendered value; `infinite` alone -/
def GoItem.tokens (render : Int → Bytes) : GoItem → List Bytes
  | .wtime v => [tok "wtime", render v]
  | .btime v => [tok "btime", render v]
  | .winc v => [tok "winc", render v]
  | .binc v => [tok "binc", render v]
  | .movestogo v => [tok "movestogo", render v]
  | .movetime v => [tok "movetime", render v]
  | .depth v => [tok "depth", render (v : Int)]
  | .nodes v => [tok "nodes", render v]
  | .mate v => [tok "mate", render v]
  | .infinite => [tok "infinite"]

/-- sets exactly the named field; nodes/mate: unchanged -/
def GoItem.apply (sp : SearchParams) : GoItem → SearchParams
  | .wtime v => { sp with wtime := v }
  | .btime v => { sp with btime := v }
  | .winc v => { sp with winc := v }
  | .binc v => { sp with binc := v }
  | .movestogo v => { sp with movesToGo := v }
  | .movetime v => { sp with moveTime := v }
  | .depth v => { sp with depth := v }
  | .nodes _ => sp
  | .mate _ => sp
  | .infinite => { sp with infinite := true }

def GoItem.msgs : GoItem → List GoMsg
  | .nodes _ => [.notImplemented "nodes"]
  | .mate _ => [.notImplemented "mate"]
  | _ => []

/-- the integer argument of an item, if it has one -/
def GoItem.value : GoItem → Option Int
  | .wtime v | .btime v | .winc v | .binc v | .movestogo v | .movetime v | .nodes v | .mate v => some v
  | .depth v => some (v : Int)
  | .infinite => none

/-- the loop invariant behind `parseGo_faithful`: from any accumulated state the loop interprets the items left to right.
The renderer only has to be inverted on the values that occur. -/
theorem parseGoLoop_items (atoiF : Bytes → Int × Bool) (render : Int → Bytes) (items : List GoItem) :
    ∀ (sp : SearchParams) (msgs : List GoMsg),
    (∀ it ∈ items, ∀ v, it.value = some v → atoiF (render v) = (v, true)) →
    (∀ v, GoItem.depth v ∈ items → v < 256) →
    parseGoLoop atoiF (items.flatMap (GoItem.tokens render)) sp msgs =
      some (items.foldl GoItem.apply sp, msgs.reverse ++ items.flatMap GoItem.msgs) := by
  induction items with
  | nil => intro sp msgs _ _; simp [parseGoLoop]
  | cons it items ih =>
    intro sp msgs hr0 hd
    have hd' : ∀ v, GoItem.depth v ∈ items → v < 256 := fun v hv => hd v (List.mem_cons_of_mem _ hv)
    replace ih := fun sp msgs => ih sp msgs (fun it' h' => hr0 it' (List.mem_cons_of_mem _ h'))
    have hr : ∀ v, it.value = some v → atoiF (render v) = (v, true) := hr0 it (by simp)
    have hsnd : ∀ v, it.value = some v → (atoiF (render v)).2 = true := fun v h => by rw [hr v h]
    rw [List.flatMap_cons, List.flatMap_cons, List.foldl_cons]
    cases it with
    | wtime v => exact (parseGoLoop_int atoiF "wtime" (by decide) _ v (hr v rfl) _ sp _ msgs rfl).trans (by show parseGoLoop atoiF (items.flatMap _) _ _ = _; rw [ih _ _ hd']; simp [GoItem.msgs, GoItem.apply])
    | btime v => exact (parseGoLoop_int atoiF "btime" (by decide) _ v (hr v rfl) _ sp _ msgs rfl).trans (by show parseGoLoop atoiF (items.flatMap _) _ _ = _; rw [ih _ _ hd']; simp [GoItem.msgs, GoItem.apply])
    | winc v => exact (parseGoLoop_int atoiF "winc" (by decide) _ v (hr v rfl) _ sp _ msgs rfl).trans (by show parseGoLoop atoiF (items.flatMap _) _ _ = _; rw [ih _ _ hd']; simp [GoItem.msgs, GoItem.apply])
    | binc v => exact (parseGoLoop_int atoiF "binc" (by decide) _ v (hr v rfl) _ sp _ msgs rfl).trans (by show parseGoLoop atoiF (items.flatMap _) _ _ = _; rw [ih _ _ hd']; simp [GoItem.msgs, GoItem.apply])
    | movestogo v => exact (parseGoLoop_int atoiF "movestogo" (by decide) _ v (hr v rfl) _ sp _ msgs rfl).trans (by show parseGoLoop atoiF (items.flatMap _) _ _ = _; rw [ih _ _ hd']; simp [GoItem.msgs, GoItem.apply])
    | movetime v => exact (parseGoLoop_int atoiF "movetime" (by decide) _ v (hr v rfl) _ sp _ msgs rfl).trans (by show parseGoLoop atoiF (items.flatMap _) _ _ = _; rw [ih _ _ hd']; simp [GoItem.msgs, GoItem.apply])
    | depth v =>
      have hv : v < 256 := hd v (by simp)
      have hf : goField "depth" sp (v : Int) = some { sp with depth := v } := by
        have : ((v : Int) % 256).toNat = v := by omega
        simp [goField, this]
      exact (parseGoLoop_int atoiF "depth" (by decide) _ v (hr v rfl) _ sp _ msgs hf).trans (by show parseGoLoop atoiF (items.flatMap _) _ _ = _; rw [ih _ _ hd']; simp [GoItem.msgs, GoItem.apply])
    | nodes v => exact (parseGoLoop_nodes atoiF _ (hsnd v rfl) _ sp msgs).trans (by show parseGoLoop atoiF (items.flatMap _) _ _ = _; rw [ih _ _ hd']; simp [GoItem.msgs, GoItem.apply])
    | mate v => exact (parseGoLoop_mate atoiF _ (hsnd v rfl) _ sp msgs).trans (by show parseGoLoop atoiF (items.flatMap _) _ _ = _; rw [ih _ _ hd']; simp [GoItem.msgs, GoItem.apply])
    | infinite => exact (parseGoLoop_infinite atoiF _ sp msgs).trans (by show parseGoLoop atoiF (items.flatMap _) _ _ = _; rw [ih _ _ hd']; simp [GoItem.msgs, GoItem.apply])

/-- Faithfulness, in the form that can be instantiated with the real `Atoi` (which only inverts the renderer on the
int64 range): the renderer has to be inverted on the values occurring in the line only. -/
theorem parseGo_faithful_on (atoiF : Bytes → Int × Bool) (render : Int → Bytes)
    (items : List GoItem) (hr : ∀ it ∈ items, ∀ v, it.value = some v → atoiF (render v) = (v, true))
    (hne : items ≠ []) (hd : ∀ v, GoItem.depth v ∈ items → v < 256) :
    parseGo atoiF (items.flatMap (GoItem.tokens render)) = some (items.foldl GoItem.apply {}, items.flatMap GoItem.msgs) := by
  have hnonempty : (items.flatMap (GoItem.tokens render)).isEmpty = false := by
    cases items with
    | nil => exact absurd rfl hne
    | cons it items => cases it <;> simp [GoItem.tokens]
  unfold parseGo
  simp only [hnonempty, Bool.false_eq_true, if_false]
  simpa using parseGoLoop_items atoiF render items {} [] hr hd

/-- Faithfulness: every line built from grammar items in any order and combination (repetitions allowed, depth < 256) yields
exactly the left-to-right interpretation, provided the integer renderer is inverted by Atoi. -/
theorem parseGo_faithful (atoiF : Bytes → Int × Bool) (render : Int → Bytes) (hr : ∀ v, atoiF (render v) = (v, true))
    (items : List GoItem) (hne : items ≠ []) (hd : ∀ v, GoItem.depth v ∈ items → v < 256) :
    parseGo atoiF (items.flatMap (GoItem.tokens render)) = some (items.foldl GoItem.apply {}, items.flatMap GoItem.msgs) := by
  exact parseGo_faithful_on atoiF render items (fun _ _ v _ => hr v) hne hd

theorem parseGo_empty (atoiF) : parseGo atoiF [] = some ({ infinite := true }, []) := by
  simp [parseGo, parseGoLoop]

/-- unknown leading tokens are skipped: the result is the suffix starting at the first valid command (or empty) -/
theorem removePrefixGarbage_spec (ts : List Bytes) :
    removePrefixGarbage ts = ts.dropWhile (fun t => !validFirstInputToken.contains t) :=
  removePrefixGarbage_eq_dropWhile ts

/-- decimal rendering of an integer, as bytes -/
def renderDec (v : Int) : Bytes := (toString v).toUTF8.toList.map UInt8.toNat

/-- the model `atoi` inverts decimal rendering, so `hr` above is satisfiable -/
theorem atoiFull_render (v : Int) (hv : -(2^63) ≤ v ∧ v < 2^63) :
    atoiFull ((toString v).toUTF8.toList.map UInt8.toNat) = (v, true) :=
  atoiFull_toString v hv

/-- Faithfulness for the real `Atoi` and decimal rendering: all integer arguments in the int64 range, depth < 256. -/
theorem parseGo_faithful_real (items : List GoItem) (hne : items ≠ [])
    (hv : ∀ it ∈ items, ∀ v, it.value = some v → -(2^63) ≤ v ∧ v < 2^63)
    (hd : ∀ v, GoItem.depth v ∈ items → v < 256) :
    parseGo atoiFull (items.flatMap (GoItem.tokens renderDec)) =
      some (items.foldl GoItem.apply {}, items.flatMap GoItem.msgs) :=
  parseGo_faithful_on atoiFull renderDec items (fun it hit v h => atoiFull_render v (hv it hit v h)) hne hd

/-! Satisfiability of the hypotheses. -/

/-- `hr` of `parseGo_faithful` is satisfiable (for *all* integers only by an unbounded `Atoi`; the real one is covered by
`parseGo_faithful_real`) -/
example : ∃ (atoiF : Bytes → Int × Bool) (render : Int → Bytes), ∀ v, atoiF (render v) = (v, true) :=
  ⟨fun bs => ((bs.getD 0 0 : Int) - (bs.getD 1 0 : Int), true), fun v => [v.toNat, (-v).toNat], by
    intro v; simp only [List.getD_cons_zero, List.getD_cons_succ, Prod.mk.injEq, and_true]; omega⟩

/-- a concrete line: `go wtime 1000 btime -5 infinite nodes 77 depth 7 wtime 3 mate 2` with the real `Atoi` -/
example :
    let items : List GoItem := [.wtime 1000, .btime (-5), .infinite, .nodes 77, .depth 7, .wtime 3, .mate 2]
    parseGo atoiFull (items.flatMap (GoItem.tokens renderDec)) =
      some ({ wtime := 3, btime := -5, depth := 7, infinite := true }, [.notImplemented "nodes", .notImplemented "mate"]) := by
  intro items
  rw [parseGo_faithful_real items (by simp [items])
    (by simp [items, GoItem.value]) (by simp [items])]
  rfl

example : removePrefixGarbage [tok "xyz", tok "", tok "go", tok "abc"] = [tok "go", tok "abc"] := by
  rw [removePrefixGarbage_spec]; decide +kernel

end Clemens
