import Clemens.Props.C15
import Clemens.Props.C12b
/-
C15, closing step: with the slider lookups proved exact for all occupancies (C12b), the static
evaluation is colour-symmetric with no hypothesis about the tables left.
-/
namespace Clemens

theorem slidersExact : SlidersExact :=
  ⟨fun s t occ hs ht => rookAttacks_exact s t hs ht occ, fun s t occ hs ht => bishopAttacks_exact s t hs ht occ⟩

/-- Evaluating a position and evaluating its mirror image (board flipped top to bottom, colours and side to move swapped)
give the same score from the mover's point of view — for every position with one king per side (placement otherwise arbitrary). -/
theorem eval_mirror (p : Pos) (hs : p.side < 2)
    (hk : popcount (p.pieces 0 KING) = 1 ∧ popcount (p.pieces 1 KING) = 1) :
    evalRaw (mirrorPos p) = evalRaw p :=
  eval_mirror_of_exact slidersExact p hs hk

end Clemens
