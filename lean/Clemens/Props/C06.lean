import Clemens.Model.UciConc
/-
C06 — UCI dialogue stays live under every interleaving of commands and search.

Statements only (lemmas about the reachable set are proved here by kernel evaluation of the
finite transition system; there is no bound on the length of the dialogue: the invariant is
inductive).  Runtime fairness of the Go scheduler, atomicity of one `fmt.Printf` = one
`write(2)` and wall-clock promptness are outside the model (DESIGN.md §5/C06, §8).
-/
namespace Clemens.Conc

/-- states reachable by any dialogue obeying the rule under any interleaving -/
inductive Reach (c : Cfg) : St → Prop
  | init : Reach c St.init
  | step {s t : St} : Reach c s → t ∈ step c s → Reach c t

/-- Tie to the source: every order-of-events / lock-discipline fact extracted from
`pkg/uci/input.go`, `pkg/uci/game/game.go` and `pkg/search/search.go` holds … -/
theorem source_facts_hold : Gen.uciFacts.all (fun f => f.2) = true := by decide

/-- … so the configuration of the running code is the one the theorems below are about. -/
theorem source_cfg_is_fixed : cfgOfSource = fixedCfg := by decide

theorem init_mem : St.init ∈ reachable fixedCfg := by decide +kernel

theorem reachable_closed : ∀ s ∈ reachable fixedCfg, ∀ t ∈ step fixedCfg s, t ∈ reachable fixedCfg := by
  decide +kernel

theorem reachable_good : ∀ s ∈ reachable fixedCfg, good fixedCfg s = true := by decide +kernel

/-- every reachable state is in the computed set (unbounded dialogues: induction over the run) -/
theorem reach_in_set {s : St} (h : Reach fixedCfg s) : s ∈ reachable fixedCfg := by
  induction h with
  | init => exact init_mem
  | step _ ht ih => exact reachable_closed _ ih _ ht

theorem reach_good {s : St} (h : Reach fixedCfg s) : good fixedCfg s = true :=
  reachable_good s (reach_in_set h)

/-- each go sent according to the rule is accepted, each position after bestmove is accepted, a stop
handled while an infinite search is outstanding cancels it, and there is never a bestmove without a go -/
theorem c06_safety {s : St} (h : Reach fixedCfg s) :
    s.goRefused = false ∧ s.posRefused = false ∧ s.stopLost = false ∧ s.extraBest = false := by
  have hg := reach_good h
  simp only [good, safe, Bool.and_eq_true, Bool.not_eq_true'] at hg
  exact ⟨hg.1.1.1.1.1, hg.1.1.1.1.2, hg.1.1.1.2, hg.1.1.2⟩

/-- no deadlock: while a go is outstanding the engine can always move on by itself, unless it is an
infinite search waiting for a stop that has not been handled -/
theorem c06_no_deadlock {s : St} (h : Reach fixedCfg s) : live fixedCfg s = true := by
  have hg := reach_good h
  simp only [good, Bool.and_eq_true] at hg
  exact hg.1.2

/-- once bestmove has been seen (no go outstanding) and the reader is waiting, the flag is not RUNNING
and no search goroutine is left: the next position/go pair is accepted -/
theorem c06_accepts_next {s : St} (h : Reach fixedCfg s) : acceptsNext s = true := by
  have hg := reach_good h
  simp only [good, Bool.and_eq_true] at hg
  exact hg.2

/-- non-vacuity: a state with an accepted infinite search that a stop has cancelled is reachable -/
example : ∃ s ∈ reachable fixedCfg, s.outstanding = true ∧ s.cancelled = true ∧ s.infinite = true := by decide +kernel

/-- The three orderings of the unrepaired code (defect D6) each reach a state violating C06 in the model. -/
theorem old_go_dispatch_bad : (findBad { fixedCfg with goSync := false }).isSome = true := by decide +kernel
theorem old_running_after_spawn_bad : (findBad { fixedCfg with runningBeforeSpawn := false }).isSome = true := by decide +kernel
theorem old_idle_after_print_bad : (findBad { fixedCfg with idleBeforePrint := false }).isSome = true := by decide +kernel

end Clemens.Conc
