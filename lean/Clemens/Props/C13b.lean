import Clemens.Proofs.MateIter
import Clemens.Proofs.GenMovesShape
import Clemens.Props.C15
/-
C13b (task P19) — a mate in one is always played: end-to-end theorems on the search model.

Lemma libraries (namespace `Clemens.P19`): `Clemens/Proofs/MateInv.lean` (table invariants, the postcondition logic `PostA`
"invariant after every outcome", range proof redone for legal children only), `MateBounds.lean` (mate-distance bounds that
survive arbitrary table contents), `MateRoot.lean` (checkmated child, the two phases of the root loop, the root node),
`MateIter.lean` (root search, iteration loop, `search`).

## Result in one paragraph

If the root has a mating move then every completed (`ok`) root search of depth `1 ≤ d ≤ 254` with the full window returns the
score `INF - 1` and a PV that starts with a mating move, and `search` answers with a mating move (also when it is cancelled at
any point: the depth-1 fallback search runs without cancellation) — for EVERY content of the killer/history/counter tables, of
the repetition path, and for every content of the transposition table such that
 (T1) all stored scores are in `[-INF, INF]` (`TTSane`: kept by every search, C13), and
 (T2) the table has no usable entry for the hash of a checkmated child of the root (`NoUse`).
(T2) is what the search itself maintains: `ttSave` is only reached with `legalMoves ≠ 0`, so an entry under such a hash can only
come from a 64-bit hash collision between a checkmated child of the root and a position that has a legal move; the theorems
carry that no-collision hypothesis explicitly (`NoCollision`).  Nothing else is assumed about the table: in particular entries
with the scores `-INF`/`INF` (a node whose moves were all futility-pruned stores `bestScore = -INF`; its parent stores `+INF`)
are harmless.  The reason is in the code, not in the table: (a) `Get` moves a stored score beyond `±(INF - 100)` towards 0 by
the ply of the probing node (≥ 1), so no probe at ply ≥ 1 returns `±INF`, and at ply 2 none returns more than `INF - 2`;
(b) table cut-offs, static null move, null move and futility pruning happen in non-PV nodes only, and the root adopts a move
only on the result of a PV-node search of the child (a zero-window result either is `≤ alpha` — then it changes nothing — or
triggers the re-search with the window `(-INF, -alpha)`); (c) once alpha is `INF - 1` all children are searched with the
window `(-INF, -INF + 1)`, where alpha `= -INF` is a checkmate value (futility off) and nothing can return less than
`-INF + 1`.

## Hypotheses, and which of them are necessary (counterexamples evaluated with `#eval` on the model, scratch files)

Test positions (mating moves in brackets): back rank `6k1/5ppp/8/8/8/8/5PPP/R5K1 w` [a1a8], scholar's mate
`r1bqkb1r/pppp1ppp/2n2n2/4p2Q/2B1P3/8/PPPP1PPP/RNB1K1NR w KQkq` [h5f7], `k7/8/1K6/8/8/8/8/6Q1 w`, `7k/5K2/8/6R1/8/8/8/8 w`,
promotion `7k/5Ppp/8/8/8/8/8/K7 w` [f8=Q, f8=R], fool's mate (black to move), in-check root `R3q1k1/5ppp/8/8/8/8/8/4K3 w` [a8e8].

 * Positive check of the claim "every table with (T1),(T2)": every non-mated child and grandchild of the root given an entry
   of depth 50 with each score in {-32767,-32766,32767,32766,0,-32668,32668} × each node type {0,1,2}, root depths 1–3 (and
   one ply deeper, scores ±32767, root depth 4): 7·7·3·3 + 7·2·3 = 483 runs, every one returns `32766` and a mating move.
 * (T2) is necessary.  The mated children poisoned as well (root depths 1, 2): with score 0 or 32767 and node type 0 (exact) or
   2 (lower bound) the mate is missed in 6 of the 7 positions, e.g. back rank, depth 2: `ok 523 (some [64, 3063])` (a1b1 is
   played); in the seventh (in-check root) the mating capture is searched first, as a PV node, which does not probe.  With node
   type 1 (upper bound) or score -32767 the mate is still found.  Such an entry is a lie about the position (it claims the mated
   side scores ≥ 0); a real search can store it only for a *different* position with the same 64-bit hash.
 * The no-collision hypothesis is necessary for (T2) to be maintained: with the degenerate keys `zeroKeys` (all Zobrist keys 0,
   every position hashes to 0) and a CLEAN table, scholar's mate at depth 1: `ok 46 (some [h5e5, …])`, `k7/8/1K6/8/8/8/8/6Q1`:
   `ok 979` — the mate is missed because an earlier sibling stored an entry under the shared hash.
 * (T1) is necessary for the *score*: an upper-bound or exact entry with score `-32768` (or `-40000`) for the non-mated positions
   makes every test position return `ok 32767 (some [mating move])`: the right move, but the score `INF` instead of `INF - 1`
   — and `searchIterative` then treats `score ≥ beta = INF` as a window failure and adopts nothing.  Not reachable: (T1) is an
   invariant of the search (C13 `negamax_score_range`, here `searchRoot_keeps_tableInv`).
 * `d ≤ 254` is necessary when the root is in check: the check extension computes `(d + 1) % 256`, so `d = 255` gives depth 0
   and the root drops into quiescence: in-check root, `searchRoot … 255 (-INF) INF {}` = `ok 190 none`.
 * `s.pv = []` (for `search`) is necessary: `search` never clears `pv`; with a stale `pv = [64]` and `cancelAt = some 0` it
   answers `64` (a1b1).  The driver and the engine create a fresh `Search` (empty pv) per `go`.
 * `hlow` (generated move words are `< 65536`) follows from `WF root` (`searchRoot_mate_in_one_WF`).
 * `EvalBounded` (static evaluation strictly inside `(-(INF-100), INF-100)` on the positions the search reaches) is C15's
   `eval_bounded` for legal material (`evalBounded_of_legalMaterial`).  Only `|eval| ≤ INF - 2` is really used.
 * `dp ≤ 254` for `search` keeps the `uint8` depth counter of the iteration loop from wrapping to 0 (sufficient; not shown
   necessary: a counterexample needs a depth-255 search).

## Finding about the engine

No defect found: no table that real searches can produce (from the empty table, by any sequence of root searches on positions
of the class — `TableProv`, kept by the search, implies `TableInv` for every root) breaks mate in one, short of a 64-bit Zobrist
collision between a checkmated position and a position with a legal move.  The obstacle named in the task (a node all of whose
moves are futility-pruned stores `bestScore = -INF`, so stored scores are *not* `≥ -INF + 2`) is real but harmless, for the
reasons (a)–(c) above; no stronger invariant on stored scores than `TTSane` is needed.  Two observations, not defects for this
property: `ttSave` stores mate scores without the ply correction that `Get` applies (so a stored mate distance shrinks by the
probing ply each time it is reused — conservative, never produces `±INF` at ply ≥ 1, and that is exactly what the proof uses);
and the fail-soft values `±INF` do flow through non-PV nodes (a fully futility-pruned node returns `-INF`, its parent cuts off
with `+INF` and stores it as a lower bound).
-/
namespace Clemens
open SearchLemmas P19

/-! ### definitions -/

/- `Mates` is defined in `Clemens/Proofs/MateRoot.lean` (namespace `Clemens`) exactly as in the task:

  /-- m is a mating move in p: generated, legal, and the opponent is then in check without a legal reply -/
  def Mates (K : Keys) (p : Pos) (m : Move) : Prop :=
    m ∈ genMoves p ∧ ∃ q, makeMove K p m = some q ∧ isLegal q = true ∧ isInCheck q q.side = true ∧
      ∀ r ∈ genMoves q, ∀ q', makeMove K q r = some q' → isLegal q' = false -/
example (K : Keys) (p : Pos) (m : Move) : Mates K p m ↔
    (m ∈ genMoves p ∧ ∃ q, makeMove K p m = some q ∧ isLegal q = true ∧ isInCheck q q.side = true ∧
      ∀ r ∈ genMoves q, ∀ q', makeMove K q r = some q' → isLegal q' = false) := Iff.rfl

/-- the hashes of the checkmated children of the root ("terminal hashes"); a child is reached by a generated move word, possibly
with score bits on top -/
theorem mateHash_iff (K : Keys) (root : Pos) (h : BB) : MateHash K root h ↔
    ∃ q, (∃ m, m % 65536 ∈ genMoves root ∧ makeMove K root m = some q ∧ isLegal q = true) ∧
      (isInCheck q q.side = true ∧ ∀ r ∈ genMoves q, ∀ q', makeMove K q r = some q' → isLegal q' = false) ∧ q.hash = h := Iff.rfl

/-- the invariant on the shared table, relative to the root: (T1) every stored score is in `[-INF, INF]`; (T2) no usable entry
for a terminal hash (every entry carrying such a hash has depth 0, like the all-zero entries of an empty bucket) -/
def TableInv (K : Keys) (root : Pos) (s : SState) : Prop := TInv (MateHash K root) s

theorem tableInv_iff (K : Keys) (root : Pos) (s : SState) : TableInv K root s ↔
    (TTSane s.tt ∧ ∀ h, MateHash K root h → ∀ e ∈ s.tt.bucket (ttKey h), e.hash = h → e.depth = 0) := Iff.rfl

/-- the empty table satisfies it -/
theorem tableInv_clean (K : Keys) (root : Pos) (s : SState) (h : s.tt = {}) : TableInv K root s := tinv_empty _ s h

/-- "no 64-bit collision between a terminal position and a stored one": no position the search can reach from the root
(`SearchReach`: legal moves, null moves out of check) that still has a legal move has the hash of a checkmated child of the root -/
def NoCollision (K : Keys) (root : Pos) : Prop :=
  ∀ p, SearchReach K root p → MateHash K root p.hash → NoLegal K p

/-- the static evaluation stays strictly inside the mate range on the positions the search can reach (C15 for legal material) -/
def EvalBounded (K : Keys) (root : Pos) : Prop :=
  ∀ p, SearchReach K root p → ∀ v, evalRaw p = some v → -(INF - 100) < v ∧ v < INF - 100

theorem evalBounded_of_legalMaterial (K : Keys) (root : Pos) (h : ∀ p, SearchReach K root p → LegalMaterial p) :
    EvalBounded K root := fun p hp v hv => eval_bounded p (h p hp) v hv

/-- provenance: scores in range, and every entry of non-zero depth carries the hash of a reachable position with a legal move.
This is what root searches produce from the empty table; with `NoCollision` it implies `TableInv`. -/
def TableProv (K : Keys) (root : Pos) (s : SState) : Prop := TProv K (SearchReach K root) s

theorem tableProv_clean (K : Keys) (root : Pos) (s : SState) (h : s.tt = {}) : TableProv K root s := tprov_empty _ _ s h

theorem mateClass_of (K : Keys) (root : Pos) (he : EvalBounded K root) (hc : NoCollision K root) :
    MateClass K (SearchReach K root) (MateHash K root) := mateClass_reach K root _ he hc

theorem tableInv_of_prov (K : Keys) (root : Pos) (he : EvalBounded K root) (hc : NoCollision K root) (s : SState)
    (h : TableProv K root s) : TableInv K root s := tprov_tinv (mateClass_of K root he hc) s h

/-! ### key fact 0: what `Get` can return at ply ≥ 1 -/

/-- a used entry of a sane table, probed at ply ≥ 1, returns alpha (and then alpha ≥ -INF + 1), or beta (and then
beta ≤ INF - 1), or a score in `[-INF + 1, INF - 1]`: never `±INF` -/
theorem ttGet_at_ply (t : TT) (h : BB) (alpha beta : Int) (depth ply : Nat) (ht : TTSane t) (hp1 : 1 ≤ ply) (hp2 : ply ≤ 32767)
    (hu : (ttGet t h alpha beta depth ply).2.1 = true) :
    ((ttGet t h alpha beta depth ply).1 = alpha ∧ -32766 ≤ alpha) ∨
    ((ttGet t h alpha beta depth ply).1 = beta ∧ beta ≤ 32766) ∨
    (-32766 ≤ (ttGet t h alpha beta depth ply).1 ∧ (ttGet t h alpha beta depth ply).1 ≤ 32766) :=
  ttGet_use_cases t h alpha beta depth ply ht hp1 hp2 hu

/-- no usable entry ⇒ the probe does not cut (at depth ≥ 1, where the probe happens) -/
theorem ttGet_no_entry (t : TT) (h : BB) (a b : Int) (d ply : Nat) (hn : NoUse t h) (hd : 1 ≤ d) :
    (ttGet t h a b d ply).2.1 = false := ttGet_noUse t h a b d ply hn hd

example : InRange 0 ∧ (1 : Nat) ≤ 1 ∧ (1 : Nat) ≤ 32767 := ⟨inrange_zero, by decide, by decide⟩

/-! ### key fact 1: a checkmated child returns exactly the mate value, through every path -/

/-- a checkmated node returns `w16 (-INF + ply)` (`= -INF + 1` at ply 1) and no PV, for every window — PV node or not — provided
the table has no usable entry for its hash; static null move, null move and futility pruning are skipped because the node is in
check.  (The PV-node case without any table hypothesis is C13 `negamax_checkmated`.) -/
theorem negamax_mated_child (K : Keys) (H : BB → Prop) (fuel : Nat) (p : Pos) (alpha beta : Int) (depth ply : Nat)
    (canNull : Bool) (prev : Move) (hcheck : isInCheck p p.side = true)
    (hno : ∀ m ∈ genMoves p, ∀ q, makeMove K p m = some q → isLegal q = false) (hH : H p.hash) (hdepth : depth < 255)
    (s s' : SState) (hs : TInv H s) (v : Int) (opv : Option (List Move))
    (h : negamax K fuel p alpha beta depth ply canNull prev s = (.ok (v, opv), s')) :
    v = w16 (-INF + ply) ∧ opv = none ∧ TInv H s' := by
  have := posti_negamax_checkmated K H fuel p alpha beta depth ply canNull prev ⟨hcheck, hno⟩ hH hdepth s (v, opv) s' hs h
  obtain ⟨h1, h2⟩ := this
  cases h2
  exact ⟨rfl, rfl, h1⟩

example : (3 : Nat) < 255 ∧ w16 (-INF + ((1 : Nat) : Int)) = -INF + 1 := ⟨by decide, by decide⟩

/-! ### key fact 2: mate-distance bounds for every other node, whatever the table holds -/

/-- for a node at ply ≥ 1 of the class, window in `InWin`, table in `TInv H`:
 * if `alpha = -INF`: the value is `≥ beta` or `≥ -INF + 2`, unless the node is at ply 1 and checkmated;
 * if `beta = INF`: the value is `≤ alpha` or `≤ INF - 2`;
and the table invariant is kept.  In particular a non-mated child of the root searched with `(-INF, b)`, `b ≥ -INF + 2` (a PV
node) returns `≥ -INF + 2` — the root sees `≤ INF - 2` for a non-mating move — and searched with `(-INF, -INF + 1)` it returns
`≥ -INF + 1`. -/
theorem negamax_mate_bounds (K : Keys) (C : Pos → Prop) (H : BB → Prop) (hC : MateClass K C H)
    (fuel : Nat) (p : Pos) (hp : C p) (alpha beta : Int) (depth ply : Nat) (canNull : Bool) (prev : Move)
    (hw : InWin alpha beta) (hply1 : 1 ≤ ply) (hply : ply + fuel ≤ 32767)
    (s s' : SState) (hs : TInv H s) (v : Int) (opv : Option (List Move))
    (h : negamax K fuel p alpha beta depth ply canNull prev s = (.ok (v, opv), s')) :
    (alpha = -INF → (ply = 1 ∧ Mated K p) ∨ (beta ≤ v ∨ -INF + 2 ≤ v)) ∧ (beta = INF → (v ≤ alpha ∨ v ≤ INF - 2)) ∧
    InRange v ∧ TInv H s' := by
  have h1 := posti_negamax_bd K C H hC fuel p hp alpha beta depth ply canNull prev hw hply1 hply s (v, opv) s' hs h
  have h2 := posti_negamax_inv K C H hC fuel p hp alpha beta depth ply canNull prev hw hply s (v, opv) s' hs h
  exact ⟨h1.2.1, h1.2.2, h2.2, h1.1⟩

/-- quiescence is fail-hard: in range, `≥ beta` or `≥ -32667`, `≤ alpha` or `≤ 32667` (every evaluation lies strictly between) -/
theorem quiescence_fail_hard (K : Keys) (C : Pos → Prop) (H : BB → Prop) (hC : MateClass K C H)
    (fuel : Nat) (p : Pos) (hp : C p) (alpha beta : Int) (ply : Nat) (ha : InRange alpha) (hb : InRange beta)
    (s s' : SState) (v : Int) (h : quiescence K fuel p alpha beta ply s = (.ok v, s')) :
    InRange v ∧ (beta ≤ v ∨ -32667 ≤ v) ∧ (v ≤ alpha ∨ v ≤ 32667) :=
  (posti_quiescence_qb (I := fun _ => True) (fun _ _ _ _ => trivial) K C hC.move hC.eval fuel p hp alpha beta ply ha hb
    s v s' trivial h).2

/-- the table invariants are kept by `negamax` after EVERY outcome (ok, cancelled, panic), and an `ok` score is in range -/
theorem negamax_keeps_tableInv (K : Keys) (C : Pos → Prop) (H : BB → Prop) (hC : MateClass K C H)
    (fuel : Nat) (p : Pos) (hp : C p) (alpha beta : Int) (depth ply : Nat) (canNull : Bool) (prev : Move)
    (hw : InWin alpha beta) (hply : ply + fuel ≤ 32767) (s : SState) (hs : TInv H s) :
    TInv H (negamax K fuel p alpha beta depth ply canNull prev s).2 :=
  (posta_negamax_inv K C H hC fuel p hp alpha beta depth ply canNull prev hw hply s hs).1

theorem negamax_keeps_tableProv (K : Keys) (C : Pos → Prop) (H : BB → Prop) (hC : MateClass K C H)
    (fuel : Nat) (p : Pos) (hp : C p) (alpha beta : Int) (depth ply : Nat) (canNull : Bool) (prev : Move)
    (hw : InWin alpha beta) (hply : ply + fuel ≤ 32767) (s : SState) (hs : TProv K C s) :
    TProv K C (negamax K fuel p alpha beta depth ply canNull prev s).2 :=
  (posta_negamax_gen K C _ hC.move hC.null hC.eval (tprov_tblInv K C) fuel p hp alpha beta depth ply canNull prev hw hply s hs).1

example : InWin (-INF) (-INF + 1) ∧ InWin (INF - 1) INF ∧ InWin (-INF) INF := by
  unfold InWin; rw [INF_eq]; omega

/-! ### key fact 3: the root loop (PVS)

`PhaseA st`: no mating move adopted yet — `alpha = bestScore ≤ INF - 2`.  `PhaseB K root st`: a mating move is adopted —
`alpha = bestScore = INF - 1` and the PV slot starts with a mating move.  `CS K q a b r` is what the loop needs from the search
of the child `q` with window `(a, b)`: in range; exactly `-INF + 1` if `q` is mated; `≥ b` or `≥ -INF + 2` if it is not and
`a = -INF`. -/

/-- once a mating move is adopted nothing beats it and nothing cuts: every later move is searched with `(-INF, -INF + 1)` and
scores `≤ INF - 1 = alpha` -/
theorem rootLoop_after_mate (K : Keys) (root : Pos) (recur : NegaFn) (depth : Nat) (prev : Move) (I : SState → Prop)
    (hcs : ∀ q, RootChild K root q → ∀ a b cn pm, InWin a b → PostI I (CS K q a b) (recur q a b (depth - 1) 1 cn pm))
    (l : List Move) (hl : ∀ m ∈ l, m % 65536 ∈ genMoves root) (st : LoopSt) (hB : PhaseB K root st)
    (s s' : SState) (hs : I s) (st' : LoopSt) (h : nmLoop K recur root INF depth 0 prev false l st s = (.ok st', s')) :
    PhaseB K root st' :=
  (posti_rootLoop_B K root recur depth prev hcs l hl st hB s st' s' hs h).2

/-- before: a non-mating move keeps `alpha = bestScore ≤ INF - 2` (first move: full window; later: zero window, re-searched with
`(-INF, -alpha)` only if it fails high); a mating move fails high against the zero window, is re-searched and adopted -/
theorem rootLoop_finds_mate (K : Keys) (root : Pos) (recur : NegaFn) (depth : Nat) (prev : Move) (I : SState → Prop)
    (hcs : ∀ q, RootChild K root q → ∀ a b cn pm, InWin a b → PostI I (CS K q a b) (recur q a b (depth - 1) 1 cn pm))
    (l : List Move) (hl : ∀ m ∈ l, m % 65536 ∈ genMoves root) (st : LoopSt) (hA : PhaseA st)
    (s s' : SState) (hs : I s) (st' : LoopSt) (h : nmLoop K recur root INF depth 0 prev false l st s = (.ok st', s')) :
    PhaseB K root st' ∨ (PhaseA st' ∧ ∀ m ∈ l, ¬ Mates K root (m % 65536)) :=
  (posti_rootLoop_A K root recur depth prev hcs l hl st hA s st' s' hs h).2

example : PhaseA { alpha := -INF, bestScore := -INF } := by
  refine ⟨rfl, Int.le_refl _, ?_⟩
  show -INF ≤ INF - 2
  rw [INF_eq]; omega

/-! ### the root search -/

/-- If some move mates, a completed root search of depth `1 ≤ d ≤ 254` with the full window returns the mate score `INF - 1` and
its PV starts with a mating move — for every content of the shared tables satisfying `TableInv` (which the search maintains:
the invariant holds again afterwards).

Hypotheses beyond the task's sketch: `hd2` (`uint8` depth, necessary for an in-check root), `hlow` (move words of the root
are 16-bit: from `WF root`, see `searchRoot_mate_in_one_WF`), `he` (C15), `hc` (no hash collision with a checkmated child: necessary).
"No cancellation during this call" is contained in `h` (the result is `ok`). -/
theorem searchRoot_mate_in_one (K : Keys) (root : Pos) (d : Nat) (hd : 1 ≤ d) (hd2 : d ≤ 254) (s s' : SState) (v : Int)
    (pv : Option (List Move)) (hm : ∃ m, Mates K root m) (hlow : ∀ g ∈ genMoves root, g < 65536)
    (he : EvalBounded K root) (hc : NoCollision K root) (hinv : TableInv K root s)
    (h : searchRoot K root d (-INF) INF s = (.ok (v, pv), s')) :
    v = INF - 1 ∧ (∃ m rest, pv = some (m :: rest) ∧ Mates K root (m % 65536)) ∧ TableInv K root s' := by
  have := posti_searchRoot_mate K _ root (mateClass_of K root he hc) SearchReach.root hlow hm d hd hd2 s (v, pv) s' hinv h
  exact ⟨this.2.1, this.2.2, this.1⟩

/-- the same with `WF root` (C10) in place of `hlow` -/
theorem searchRoot_mate_in_one_WF (K : Keys) (root : Pos) (hwf : WF root = true) (d : Nat) (hd : 1 ≤ d) (hd2 : d ≤ 254)
    (s s' : SState) (v : Int) (pv : Option (List Move)) (hm : ∃ m, Mates K root m)
    (he : EvalBounded K root) (hc : NoCollision K root) (hinv : TableInv K root s)
    (h : searchRoot K root d (-INF) INF s = (.ok (v, pv), s')) :
    v = INF - 1 ∧ (∃ m rest, pv = some (m :: rest) ∧ Mates K root (m % 65536)) ∧ TableInv K root s' :=
  searchRoot_mate_in_one K root d hd hd2 s s' v pv hm (fun g hg => (GM.genMoves_shape root hwf g hg).no_score) he hc hinv h

/-- clean table -/
theorem searchRoot_mate_in_one_clean (K : Keys) (root : Pos) (d : Nat) (hd : 1 ≤ d) (hd2 : d ≤ 254) (s s' : SState) (v : Int)
    (pv : Option (List Move)) (hm : ∃ m, Mates K root m) (hlow : ∀ g ∈ genMoves root, g < 65536)
    (he : EvalBounded K root) (hc : NoCollision K root) (hclean : s.tt = {})
    (h : searchRoot K root d (-INF) INF s = (.ok (v, pv), s')) :
    v = INF - 1 ∧ ∃ m rest, pv = some (m :: rest) ∧ Mates K root (m % 65536) := by
  have := searchRoot_mate_in_one K root d hd hd2 s s' v pv hm hlow he hc (tableInv_clean K root s hclean) h
  exact ⟨this.1, this.2.1⟩

/-- a table produced by searches (provenance) works as well -/
theorem searchRoot_mate_in_one_prov (K : Keys) (root : Pos) (d : Nat) (hd : 1 ≤ d) (hd2 : d ≤ 254) (s s' : SState) (v : Int)
    (pv : Option (List Move)) (hm : ∃ m, Mates K root m) (hlow : ∀ g ∈ genMoves root, g < 65536)
    (he : EvalBounded K root) (hc : NoCollision K root) (hprov : TableProv K root s)
    (h : searchRoot K root d (-INF) INF s = (.ok (v, pv), s')) :
    v = INF - 1 ∧ ∃ m rest, pv = some (m :: rest) ∧ Mates K root (m % 65536) := by
  have := searchRoot_mate_in_one K root d hd hd2 s s' v pv hm hlow he hc (tableInv_of_prov K root he hc s hprov) h
  exact ⟨this.1, this.2.1⟩

/-- every root search with a window in `InWin` (full window, aspiration windows, wrapped windows) keeps `TableInv` — after every
outcome, a cancelled search included -/
theorem searchRoot_keeps_tableInv (K : Keys) (root : Pos) (d : Nat) (a b : Int) (hw : InWin a b)
    (he : EvalBounded K root) (hc : NoCollision K root) (s : SState) (hinv : TableInv K root s) :
    TableInv K root (searchRoot K root d a b s).2 :=
  (posta_searchRoot_inv K _ root (mateClass_of K root he hc) SearchReach.root _ (tinv_tblInv (mateClass_of K root he hc))
    d a b hw s hinv).1

/-- … and the provenance invariant -/
theorem searchRoot_keeps_tableProv (K : Keys) (root : Pos) (d : Nat) (a b : Int) (hw : InWin a b)
    (he : EvalBounded K root) (hc : NoCollision K root) (s : SState) (hinv : TableProv K root s) :
    TableProv K root (searchRoot K root d a b s).2 :=
  (posta_searchRoot_inv K _ root (mateClass_of K root he hc) SearchReach.root _ (tprov_tblInv K _) d a b hw s hinv).1

/- Satisfiability of the hypotheses.  `hm`, `hlow`, `he`, `hc` speak about `genMoves`, `isInCheck`, `evalRaw`: evaluating them in
the kernel unfolds the magic attack tables, so (as in C13) the evidence is `#eval` on the compiled model (scratch):
  back rank `6k1/5ppp/8/8/8/8/5PPP/R5K1 w - - 0 1`: 20 legal moves, mating moves `[3584]` (a1a8), all generated words < 65536,
  `searchRoot realKeys p 1 (-INF) INF {}` = `ok (32766, some [3584])` nodes=24; depth 3: `ok (32766, some [3584])` nodes=602;
  scholar's mate depth 1: `ok (32766, some [39718247])`, `39718247 % 65536 = 3431` (h5f7).
What can be checked in the kernel: -/
example (K : Keys) (root : Pos) : TableInv K root {} ∧ TableProv K root {} ∧ ({} : SState).pv = [] :=
  ⟨tableInv_clean K root {} rfl, tableProv_clean K root {} rfl, rfl⟩
example : (1 : Nat) ≤ 3 ∧ (3 : Nat) ≤ 254 ∧ (39718247 : Nat) % 65536 = 3431 := by decide

/-! ### the iteration loop and `search` -/

/-- the iteration loop: from a table in `TableInv`, the adopted pv afterwards is the old one or starts with a mating move
(`GoodPv`); if the first full-window root search completes, it starts with a mating move.  The loop adopts `INF - 1` at depth
`d`, fails the wrapped aspiration window `(32716, -32720)` at depth `d + 1` (every score fails an inverted window), re-searches
with the full window and adopts `INF - 1` again. -/
theorem searchIterative_keeps_mate (K : Keys) (root : Pos) (pvStr : Move → String) (maxD : Nat) (hmax : maxD ≤ 254)
    (hm : ∃ m, Mates K root m) (hlow : ∀ g ∈ genMoves root, g < 65536) (he : EvalBounded K root) (hc : NoCollision K root)
    (s : SState) (hinv : TableInv K root s) :
    TableInv K root (searchIterative K root pvStr maxD s).2 ∧
    ((searchIterative K root pvStr maxD s).2.pv = s.pv ∨ GoodPv K root (searchIterative K root pvStr maxD s).2.pv) ∧
    (1 ≤ maxD → kind (searchRoot K root 1 (-INF) INF s).1 = .ok → GoodPv K root (searchIterative K root pvStr maxD s).2.pv) := by
  have hC := mateClass_of K root he hc
  have := go_mate K _ root hC SearchReach.root _ (tinv_tblInv hC) (fun _ h => h) hlow hm pvStr maxD hmax 2000 1 (-INF) INF s hinv
    (Or.inl ⟨rfl, rfl⟩) (Nat.le_refl _)
  unfold searchIterative
  exact ⟨this.1, this.2.1, fun h1 hk => this.2.2 rfl rfl h1 (by decide) hk⟩

/-- `search` answers with a mating move: whenever it returns (`ok`), for every cancellation point (an immediate cancellation
leaves the pv empty and the depth-1 fallback, which runs without cancellation, finds the mate; a later cancellation keeps the
last adopted pv, whose head mates) and every table in `TableInv`; the pv of the final state starts with the answer and the
table invariant holds again.  `hpv`: the `Search` object is fresh (necessary, see the header); `hdp`: `uint8` depth counter. -/
theorem search_plays_mate (K : Keys) (root : Pos) (pvStr : Move → String) (depthParam : Nat) (hdp : depthParam ≤ 254)
    (hm : ∃ m, Mates K root m) (hlow : ∀ g ∈ genMoves root, g < 65536) (he : EvalBounded K root) (hc : NoCollision K root)
    (s s' : SState) (best : Move) (hinv : TableInv K root s) (hpv : s.pv = [])
    (h : search K root pvStr depthParam s = (.ok best, s')) :
    Mates K root (best % 65536) ∧ (∃ rest, s'.pv = best :: rest) ∧ TableInv K root s' := by
  have hC := mateClass_of K root he hc
  obtain ⟨h1, h2, h3⟩ := search_mate K _ root hC SearchReach.root _ (tinv_tblInv hC) (fun _ h => h) hlow hm pvStr depthParam hdp
    s s' best hinv hpv h
  refine ⟨h1, ?_, h3⟩
  obtain ⟨m0, rest, e, _⟩ := h2
  have hb : best = s'.pv.getD 0 0 := by
    obtain ⟨s1, _, hcases⟩ := search_cases K root pvStr depthParam s best s' h
    rcases hcases with ⟨_, hs', hmm⟩ | ⟨_, _, hmm⟩
    · rw [hmm, hs']
    · exact hmm
  refine ⟨rest, ?_⟩
  rw [hb, e]
  rfl

theorem search_plays_mate_clean (K : Keys) (root : Pos) (pvStr : Move → String) (depthParam : Nat) (hdp : depthParam ≤ 254)
    (hm : ∃ m, Mates K root m) (hlow : ∀ g ∈ genMoves root, g < 65536) (he : EvalBounded K root) (hc : NoCollision K root)
    (s s' : SState) (best : Move) (hclean : s.tt = {}) (hpv : s.pv = [])
    (h : search K root pvStr depthParam s = (.ok best, s')) : Mates K root (best % 65536) :=
  (search_plays_mate K root pvStr depthParam hdp hm hlow he hc s s' best (tableInv_clean K root s hclean) hpv h).1

/-- with a table produced by earlier searches (provenance), which `search` hands on in the same state -/
theorem search_plays_mate_prov (K : Keys) (root : Pos) (pvStr : Move → String) (depthParam : Nat) (hdp : depthParam ≤ 254)
    (hm : ∃ m, Mates K root m) (hlow : ∀ g ∈ genMoves root, g < 65536) (he : EvalBounded K root) (hc : NoCollision K root)
    (s s' : SState) (best : Move) (hprov : TableProv K root s) (hpv : s.pv = [])
    (h : search K root pvStr depthParam s = (.ok best, s')) :
    Mates K root (best % 65536) ∧ TableProv K root s' := by
  have hC := mateClass_of K root he hc
  obtain ⟨h1, _, h3⟩ := search_mate K _ root hC SearchReach.root _ (tprov_tblInv K _) (fun s h => tprov_tinv hC s h) hlow hm pvStr
    depthParam hdp s s' best hprov hpv h
  exact ⟨h1, h3⟩

/- Satisfiability (`#eval`, compiled model): back rank position `p`, `pvStr := fun _ => ""`:
  `search realKeys p pvStr 3 {}`                              = `ok 855552` (`% 65536 = 3584`, a1a8), pv = [855552]
  `search realKeys p pvStr 3 { cancelAt := some 0 }`          = `ok 3584` (fallback), pv = [3584]
  `search realKeys p pvStr 3 { cancelAt := some 30 }`         = `ok 3584`
  `search realKeys p pvStr 3 { pv := [64], cancelAt := some 0 }` = `ok 64`  (stale pv: `hpv` dropped, a1b1 is answered) -/
example : (855552 : Nat) % 65536 = 3584 ∧ (3 : Nat) ≤ 254 := by decide

end Clemens
