import Clemens.Proofs.TimeLemmas
import Mathlib.Algebra.Order.Group.Unbundled.Abs
import Mathlib.Algebra.Order.Group.Unbundled.Int
/-
C08 — the time budget returned by `calculateTime` stays inside the clock / movetime, depends only on the
mover's clock, and does not overflow 64-bit arithmetic.
-/
namespace Clemens

def clockOf (side : Nat) (sp : SearchParams) : Int := if side = 1 then sp.btime else sp.wtime
def incOf (side : Nat) (sp : SearchParams) : Int := if side = 1 then sp.binc else sp.winc

theorem calculateTime_eq_core (side : Nat) (plys : Int) (sp : SearchParams) :
    calculateTime side plys sp = calcCore (clockOf side sp) (incOf side sp) sp.moveTime plys := rfl

theorem budget_lt_clock (side : Nat) (plys : Int) (sp : SearchParams) (h : 0 < clockOf side sp) :
    calculateTime side plys sp < clockOf side sp := by
  have := calcCore_le_clock_sub_50 (clockOf side sp) (incOf side sp) sp.moveTime plys h
  rw [calculateTime_eq_core]; omega

theorem budget_le_clock_sub_50 (side : Nat) (plys : Int) (sp : SearchParams) (h : 0 < clockOf side sp) :
    calculateTime side plys sp ≤ clockOf side sp - 50 := by
  rw [calculateTime_eq_core]; exact calcCore_le_clock_sub_50 _ _ _ _ h

theorem budget_lt_movetime (side : Nat) (plys : Int) (sp : SearchParams) (h : 0 < sp.moveTime) :
    calculateTime side plys sp < sp.moveTime := by
  rw [calculateTime_eq_core]; exact calcCore_lt_movetime _ _ _ _ h

theorem budget_ignores_opponent (side : Nat) (plys : Int) (sp sp' : SearchParams)
    (hc : clockOf side sp = clockOf side sp') (hi : incOf side sp = incOf side sp') (hm : sp.moveTime = sp'.moveTime) :
    calculateTime side plys sp = calculateTime side plys sp' := by
  rw [calculateTime_eq_core, calculateTime_eq_core, hc, hi, hm]

/-- Go computes in 64-bit `int`: no intermediate leaves the int64 range for inputs below 2^40 (so the Int model is exact there). -/
theorem budget_no_overflow (side : Nat) (plys : Int) (sp : SearchParams)
    (hp : 0 ≤ plys ∧ plys < 2^40) (ht : |clockOf side sp| < 2^40) (hi : |incOf side sp| < 2^40) (hm : |sp.moveTime| < 2^40) :
    let rm := max (60 - plys.tdiv 2) 20
    |clockOf side sp + incOf side sp * rm| < 2^62 ∧ |calculateTime side plys sp| < 2^62 := by
  show |clockOf side sp + incOf side sp * max (60 - plys.tdiv 2) 20| < 2^62 ∧ _
  rw [Int.abs_eq_natAbs] at ht hi hm
  have := calcCore_bounds (clockOf side sp) (incOf side sp) sp.moveTime plys hp (by omega) (by omega) (by omega)
  rw [calculateTime_eq_core, Int.abs_eq_natAbs, Int.abs_eq_natAbs]
  simp only at this
  omega

/-! Satisfiability of the hypotheses by concrete non-trivial values. -/

example : 0 < clockOf 1 { btime := 60000, binc := 1000 } ∧
    calculateTime 1 30 { btime := 60000, binc := 1000 } = 2100 := by decide
example : 0 < clockOf 0 { wtime := 30 } ∧ calculateTime 0 30 { wtime := 30 } = -50 := by decide
example : 0 < (({ moveTime := 5000, wtime := 100000 } : SearchParams).moveTime) ∧
    calculateTime 0 10 { moveTime := 5000, wtime := 100000 } = 4500 := by decide
example : let sp : SearchParams := { wtime := 1000, winc := 5, btime := 7, binc := 9 }
    let sp' : SearchParams := { wtime := 1000, winc := 5, btime := 12345, binc := 0, movesToGo := 3, depth := 4 }
    clockOf 0 sp = clockOf 0 sp' ∧ incOf 0 sp = incOf 0 sp' ∧ sp.moveTime = sp'.moveTime ∧ sp ≠ sp' := by decide
example : let sp : SearchParams := { wtime := 2^40 - 1, winc := -(2^40 - 1), moveTime := 0 }
    (0 ≤ (119:Int) ∧ (119:Int) < 2^40) ∧ |clockOf 0 sp| < 2^40 ∧ |incOf 0 sp| < 2^40 ∧ |sp.moveTime| < 2^40 := by
  decide

end Clemens
