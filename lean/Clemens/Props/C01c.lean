import Clemens.Props.C01
import Clemens.Proofs.LegalAnyCnt
/-
C01c — C01 without the counter-range hypothesis.

`legal_exact`, `legal_perm`, `perft_exact` of `Clemens/Props/C01.lean` ask for `ply < 255 ∧ hmc < 255` (resp. `ply + d ≤ 255 ∧
hmc + d ≤ 255`) only because they go through the successor refinement C02, which speaks about the two move counters.  Which moves
are legal, and every perft count, does not depend on the counters:

  * engine side (`Clemens/Proofs/LegalAnyCnt.lean`): `genMoves` and `isLegal` do not read `ply`/`hmc`, `makeMove` commutes with
    replacing them (`GR.makeMove_setCnt`), so the moves of `engineLegal` (`LAC.engineLegal_moves_setCnt`) and `perft`
    (`LAC.perft_setCnt`) are the same for all counter values;
  * specification side (`Clemens/Proofs/LegalAnyCntSpec.lean`): `Fide.pseudoMoves`, `Fide.inCheck`, `Fide.legalMoves` do not read
    `hmc`/`fullmove`, `Fide.apply` only writes them (`LAC.apply_fsetCnt`), so `Fide.legalMoves` (`LAC.legalMoves_fsetCnt`) and
    `Fide.perft` (`LAC.perft_fsetCnt`, induction on the depth) are the same for all counter values;
  * the theorems of C01 are applied at the position with its counters reset to (`side`, 0) — `WF` reads the parity of `ply`,
    `GR.WF_reset` — and transferred back.  For perft the reset is done at every level of the induction, so the `uint8` wrap of
    the counters of deep successors never matters.
-/
namespace Clemens

/-- C01 `legal_exact` for every value of the counters: the moves the engine treats as playable are exactly the FIDE legal moves —
none missing, none extra, none duplicated -/
theorem legal_exact_any (K : Keys) (p : Pos) (hw : WF p = true) :
    (∀ mv : Fide.Move, mv ∈ ((engineLegal K p).map (fun mq => absMove mq.1)) ↔ mv ∈ Fide.legalMoves (absPos p)) ∧
    ((engineLegal K p).map (fun mq => absMove mq.1)).Nodup :=
  ⟨LAC.engineLegal_mem_any K p hw, LG.engineLegal_nodup K p hw⟩

/-- the example position of C01a with both counters at the top of their `uint8` range (`ply` = 254 is even, white to move):
`legal_exact` of C01 does not apply here, `legal_exact_any` does -/
def C01c.exLimit : Pos := GR.setCnt C01a.exPos 254 255

theorem C01c.exLimit_WF : WF C01c.exLimit = true := by
  obtain ⟨hsh, _, hch⟩ := GM.WF_parts _ C01a.ex_WF
  exact GR.WF_intro _ (by unfold C01c.exLimit; rw [GR.wfShape_setCnt]; exact hsh) (by decide +kernel)
    (by unfold C01c.exLimit; rw [GR.wfChess_setCnt]; exact hch)

theorem C01c.exLimit_out_of_range : ¬ (C01c.exLimit.ply < 255 ∧ C01c.exLimit.hmc < 255) := by decide +kernel

-- hypotheses satisfiable: the example position of C01a, and the same position at the counter limit.  Consequences at the
-- limit (the right-hand sides are evaluated on the specification only): the en passant capture e5xd6, the promotion b7xa8=Q,
-- castling O-O and O-O-O are playable for the engine; e1-e3 is not
example : WF C01a.exPos = true := C01a.ex_WF
example : WF C01c.exLimit = true ∧ ¬ (C01c.exLimit.ply < 255 ∧ C01c.exLimit.hmc < 255) :=
  ⟨C01c.exLimit_WF, C01c.exLimit_out_of_range⟩
example :
    let l := (engineLegal realKeys C01c.exLimit).map (fun mq => absMove mq.1)
    (⟨36, 43, none⟩ : Fide.Move) ∈ l ∧ (⟨49, 56, some 4⟩ : Fide.Move) ∈ l ∧ (⟨4, 6, none⟩ : Fide.Move) ∈ l ∧
    (⟨4, 2, none⟩ : Fide.Move) ∈ l ∧ (⟨4, 20, none⟩ : Fide.Move) ∉ l := by
  simp only [(legal_exact_any realKeys C01c.exLimit C01c.exLimit_WF).1]
  decide +kernel

/-- … so the two lists are permutations of each other -/
theorem legal_perm_any (K : Keys) (p : Pos) (hw : WF p = true) :
    ((engineLegal K p).map (fun mq => absMove mq.1)).Perm (Fide.legalMoves (absPos p)) :=
  (List.perm_ext_iff_of_nodup (LG.engineLegal_nodup K p hw) (LG.legalMoves_nodup p hw)).2 (LAC.engineLegal_mem_any K p hw)

-- hypotheses satisfiable
example : WF C01a.exPos = true := C01a.ex_WF
example : WF C01c.exLimit = true := C01c.exLimit_WF
example : ((engineLegal realKeys C01c.exLimit).map (fun mq => absMove mq.1)).length =
    (Fide.legalMoves (absPos C01c.exLimit)).length :=
  (legal_perm_any realKeys C01c.exLimit C01c.exLimit_WF).length_eq

/-- perft: the engine's node count equals the true count, for every depth and every value of the counters (also when `ply` or
`hmc` wrap around on the way down) -/
theorem perft_exact_any (K : Keys) (p : Pos) (hw : WF p = true) (d : Nat) : perft K p d = Fide.perft (absPos p) d :=
  LAC.perft_eq_any K d p hw

-- hypotheses satisfiable: the example position, and the position at the counter limit at a depth for which `perft_exact` of
-- C01 has no instance; at depth 1 the count is the number of legal moves of the rules there
example : WF C01a.exPos = true := C01a.ex_WF
example : WF C01c.exLimit = true ∧ ¬ (C01c.exLimit.ply + 3 ≤ 255 ∧ C01c.exLimit.hmc + 3 ≤ 255) :=
  ⟨C01c.exLimit_WF, by decide +kernel⟩
example : perft realKeys C01c.exLimit 3 = Fide.perft (absPos C01c.exLimit) 3 :=
  perft_exact_any realKeys C01c.exLimit C01c.exLimit_WF 3
example : perft realKeys C01c.exLimit 1 = (Fide.legalMoves (absPos C01c.exLimit)).length := by
  rw [perft_exact_any realKeys C01c.exLimit C01c.exLimit_WF 1]
  have sum_ones : ∀ l : List Fide.Move, (l.map fun _ => 1).sum = l.length := by
    intro l
    induction l with
    | nil => rfl
    | cons a l ih => rw [List.map_cons, List.sum_cons, ih, List.length_cons, Nat.add_comm]
  exact sum_ones _

/-- the counters are irrelevant on both sides (the two facts the transfer rests on, at property level) -/
theorem legal_counters_irrelevant (K : Keys) (p : Pos) (a b : Nat) (P : Fide.Pos) (h f : Nat) :
    (engineLegal K (GR.setCnt p a b)).map (fun mq => absMove mq.1) = (engineLegal K p).map (fun mq => absMove mq.1) ∧
    (∀ d, perft K (GR.setCnt p a b) d = perft K p d) ∧
    Fide.legalMoves (LAC.fsetCnt P h f) = Fide.legalMoves P ∧
    (∀ d, Fide.perft (LAC.fsetCnt P h f) d = Fide.perft P d) :=
  ⟨LAC.engineLegal_moves_setCnt K p a b, fun d => LAC.perft_setCnt K d p a b, LAC.legalMoves_fsetCnt P h f,
    fun d => LAC.perft_fsetCnt d P h f⟩

example : GR.setCnt C01a.exPos 7 9 ≠ C01a.exPos := by
  intro h
  have : (GR.setCnt C01a.exPos 7 9).hmc = C01a.exPos.hmc := by rw [h]
  revert this
  decide +kernel

end Clemens
