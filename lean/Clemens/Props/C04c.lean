import Clemens.Proofs.SearchBadWinIter
import Clemens.Proofs.MateIter
import Clemens.Props.C04b
import Clemens.Props.C15
/-
C04c (task P04h) — the C04 theorems without the hypothesis `hgood`.

`Clemens/Props/C04.lean` proves that every PV the iteration loop adopts is a `LegalLine`, under the hypothesis

    hgood : ∀ d a b s0 v pvl s1, searchRoot K root d a b s0 = (.ok (v, pvl), s1) → v ≠ -32718

because the aspiration window after an adopted score of exactly -32718 is `(-32768, -32668)`, outside `InWin`.  Here `hgood` is
replaced by hypotheses on the INPUTS only (as in `negamax_score_range`, C13): a class `C` of positions containing the root, closed
under the engine's moves and the null move, on which the static evaluation lies in `EvalRange = [-20000, 20000]`, and a sane
transposition table (`TTSane`: every stored score in `[-INF, INF]`) in the start state.

## Finding: the conjecture of the task is FALSE, the theorems are TRUE

The task conjectured that in a node with `alpha = -32768` no child returns `+32767`, so that a search with the window
`(-32768, -32668)` still returns legal PVs.  That is false — with an EMPTY table, compiled `#eval` in a scratch file:

    def p1 := (parseFen realKeys "1r5k/8/8/8/8/8/8/K7 w - - 0 1")          -- white Ka1, black Rb8 Kh8: one legal move, Ka2 (= 512)
    #eval searchRoot realKeys p1 3 (-32768) (-32668) {}                   -- ok (-32767, some [0])   nodes=5 polls=10
    #eval (makeMove realKeys p1 0).isSome                                 -- false
    #eval (0 : Nat) ∈ (genMoves p1).map (· % 65536)                       -- false
    #eval (searchIterative.go realKeys p1 toString 3 10 3 (-32768) (-32668) {}).2.pv       -- [0]: the loop WOULD adopt it

Mechanism: the root (window `(-32768, -32668)`, depth 3) searches Ka2 with the wrapped window `(32668, -32768)`; that child
searches its first move with `(-32768, -32668)` again, at depth 1; there every reply is searched at depth 0 with beta = -32768, and
`quiescence` returns `beta = -32768` at once (`standPat ≥ beta`), so every reply scores `w16 (32768) = -32768`, which beats neither
`bestScore = -INF = -32767` nor `alpha = -32768`: the grandchild returns `bestScore = -32767` without ever having had a best move.
The child cuts off with `+32767` (every score is `≥ beta = -32768`), and the root sees `score = -32767`: greater than `alpha`, not
greater than `bestScore`, so the PV is written as `bestMove :: …` with the initial `bestMove = 0`; `-32767` lies inside the window
and is adopted.  So `post_searchRoot` cannot be extended to that window, whatever invariant one puts on the table.

What IS true — and what is proved here — is that the iteration loop never gets there: no root search with a window in `InWin`, from a
sane table, returns exactly `-32718` strictly inside its window (`searchRoot_never_bad`, i.e. `hgood` restricted to the calls the
loop makes).  Reason (`Clemens/Proofs/SearchBadWinProv.lean`): a value strictly inside the window of a node is never a table score
and never a pruning value — table cut-offs, static null move, null move and futility pruning only happen in non-PV nodes, whose
window `(a, a+1)` has no interior — but the negated in-window value of a child searched with the window `(-beta, -alpha)`, or a leaf
value: a static evaluation coming up through `quiescence` (which is fail-hard), the contempt value (0 or 400), or the mate value
`-INF + ply` of a checkmated node.  By induction (`BadWin.Prov`) an in-window root value is in `EvalRange`, or `-32767 + j` with
`j` EVEN, or `32767 - j` with `j` ODD (`j ≤ ply + fuel ≤ 32767`: the ply of the mated node).  `-32718 = -32767 + 49` is none of these: being mated
takes an even number of plies.  The sane table is needed for one thing only: so that every child value is an `int16` other than
`-32768` and negation does not wrap.  For the same reason the table stays sane through every root search, whatever the window and
whatever the outcome (`searchRoot_keeps_sane`; the only write is `ttSave … bestScore …`, and `bestScore` is `-INF` or a larger
`w16` value).

Remark: the adopted scores `-32719` and `32718` are not excluded by this argument; their aspiration windows `(32767, -32669)` and
`(32668, -32768)` are outside `InWin` but EMPTY (`beta ≤ alpha + 1`), so nothing is adopted from them (already in C04).

Lemma libraries: `Clemens/Proofs/SearchBadWinTT.lean` (table sanity, all windows, all outcomes), `SearchBadWinQ.lean` (quiescence),
`SearchBadWinProv.lean` (provenance through `nmLoop` / `negamax`), `SearchBadWinIter.lean` (iteration loop, `search`).
-/
namespace Clemens
open SearchLemmas P19 BadWin

/-! ### the evaluation range -/

example (v : Int) : EvalRange v ↔ (-20000 ≤ v ∧ v ≤ 20000) := Iff.rfl

/-- `EvalRange` follows from C15: on legal material `|eval| ≤ evalBound`, and `evalBound ≤ 20000` for the current tuning constants
(`evalBound_le_20000`, a `decide`d inequality in `Proofs/EvalConsts.lean`) -/
theorem evalRange_of_legalMaterial (p : Pos) (h : LegalMaterial p) (v : Int) (hv : evalRaw p = some v) : EvalRange v := by
  have := eval_bounded_explicit p h v hv
  have := evalBound_le_20000
  unfold EvalRange; omega

example : EvalRange 0 ∧ EvalRange (-evalBound) ∧ ¬ EvalRange (-32718) := by
  have := evalBound_le_20000
  have : 0 ≤ evalBound := by unfold evalBound contemptMax; omega
  unfold EvalRange; omega

/-! ### the iteration loop -/

/-- C04 `adopted_pv_legal`, with hypotheses on the inputs only: the `pv` field after `searchIterative` is a LegalLine from the root
whenever it was one (or empty) before and the table was sane. -/
theorem adopted_pv_legal_sane (K : Keys) (root : Pos) (pvStr : Move → String) (maxD : Nat)
    (C : Pos → Prop) (hmove : ∀ p m q, C p → makeMove K p m = some q → C q) (hnull : ∀ p, C p → C (makeNull K p).1)
    (heval : ∀ p v, C p → evalRaw p = some v → EvalRange v) (hroot : C root)
    (s : SState) (hs : TTSane s.tt) (h : LegalLine K root s.pv) :
    LegalLine K root (searchIterative K root pvStr maxD s).2.pv :=
  (searchIterative_pv_legal_sane K root pvStr maxD C (fun p m q hp hq _ => hmove p m q hp hq) (fun p hp _ => hnull p hp)
    heval hroot s hs h).1

/-- the hypotheses on the state are satisfiable: a fresh search state -/
example (K : Keys) (root : Pos) : TTSane ({} : SState).tt ∧ LegalLine K root ({} : SState).pv :=
  ⟨ttSane_empty, LegalLine.nil root⟩

/- The class hypotheses `hmove hnull heval hroot`: the intended instance is "the positions the search reaches from the root"
(`adopted_pv_legal_reach` below) with C15's bound.  A closed, kernel-checked instance for a concrete root would need the closure of
a concrete position set under `makeMove` and kernel evaluation of `isLegal` / `evalRaw`, i.e. of the magic attack tables; the only
kernel-checkable instance is therefore the degenerate one for the three closure hypotheses (it has no root): -/
example (K : Keys) : let C : Pos → Prop := fun _ => False
    (∀ p m q, C p → makeMove K p m = some q → C q) ∧ (∀ p, C p → C (makeNull K p).1) ∧
    (∀ p v, C p → evalRaw p = some v → EvalRange v) := ⟨fun _ _ _ h _ => h, fun _ h => h, fun _ _ h _ => h.elim⟩

/-- STRONGER: the class only has to be closed under the LEGAL children and under the null move OUT OF CHECK (the positions the search
actually walks through), and the table is sane afterwards -/
theorem adopted_pv_legal_sane' (K : Keys) (root : Pos) (pvStr : Move → String) (maxD : Nat)
    (C : Pos → Prop) (hmove : ∀ p m q, C p → makeMove K p m = some q → isLegal q = true → C q)
    (hnull : ∀ p, C p → isInCheck p p.side = false → C (makeNull K p).1)
    (heval : ∀ p v, C p → evalRaw p = some v → EvalRange v) (hroot : C root)
    (s : SState) (hs : TTSane s.tt) (h : LegalLine K root s.pv) :
    LegalLine K root (searchIterative K root pvStr maxD s).2.pv ∧ TTSane (searchIterative K root pvStr maxD s).2.tt :=
  searchIterative_pv_legal_sane K root pvStr maxD C hmove hnull heval hroot s hs h

/-- the instance meant: every position the search can reach from the root (`P19.SearchReach`: legal moves, null moves out of
check) has legal material -/
theorem adopted_pv_legal_reach (K : Keys) (root : Pos) (pvStr : Move → String) (maxD : Nat)
    (hmat : ∀ p, SearchReach K root p → LegalMaterial p)
    (s : SState) (hs : TTSane s.tt) (h : LegalLine K root s.pv) :
    LegalLine K root (searchIterative K root pvStr maxD s).2.pv :=
  (adopted_pv_legal_sane' K root pvStr maxD (SearchReach K root) (fun _ _ _ hp hq hl => SearchReach.move hp hq hl)
    (fun _ hp hc => SearchReach.null hp hc) (fun p v hp hv => evalRange_of_legalMaterial p (hmat p hp) v hv) SearchReach.root
    s hs h).1

/-! ### `hgood`, proved for the calls the loop makes -/

/-- no root search with a window in `InWin`, from a sane table, returns `-32718` strictly inside its window -/
theorem searchRoot_never_bad (K : Keys) (root : Pos)
    (C : Pos → Prop) (hmove : ∀ p m q, C p → makeMove K p m = some q → isLegal q = true → C q)
    (hnull : ∀ p, C p → isInCheck p p.side = false → C (makeNull K p).1)
    (heval : ∀ p v, C p → evalRaw p = some v → EvalRange v) (hroot : C root)
    (d : Nat) (a b : Int) (hw : InWin a b) (s s' : SState) (hs : TTSane s.tt) (v : Int) (pvl : Option (List Move))
    (h : searchRoot K root d a b s = (.ok (v, pvl), s')) (h1 : a < v) (h2 : v < b) : v ≠ -32718 :=
  searchRoot_not_bad K root C hmove hnull heval hroot d a b hw s s' hs v pvl h h1 h2

/-- more precisely: an in-window root score is an evaluation / contempt value, or "mated in an even number of plies", or "mating in
an odd number of plies" -/
theorem searchRoot_inwindow_value (K : Keys) (root : Pos)
    (C : Pos → Prop) (hmove : ∀ p m q, C p → makeMove K p m = some q → isLegal q = true → C q)
    (hnull : ∀ p, C p → isInCheck p p.side = false → C (makeNull K p).1)
    (heval : ∀ p v, C p → evalRaw p = some v → EvalRange v) (hroot : C root)
    (d : Nat) (a b : Int) (hw : InWin a b) (s s' : SState) (hs : TTSane s.tt) (v : Int) (pvl : Option (List Move))
    (h : searchRoot K root d a b s = (.ok (v, pvl), s')) (h1 : a < v) (h2 : v < b) :
    EvalRange v ∨ ∃ j : Nat, j ≤ 32767 ∧ ((j % 2 = 0 ∧ v = -32767 + (j : Int)) ∨ (j % 2 = 1 ∧ v = 32767 - (j : Int))) := by
  rcases searchRoot_prov K C hmove hnull heval root hroot d a b hw s s' hs v pvl h h1 h2 with h | ⟨j, _, hj, h⟩
  · exact Or.inl h
  · exact Or.inr ⟨j, hj, h⟩

/-- the same for every node: a value strictly inside the window of a node at ply `ply` has a provenance (`BadWin.Prov`) -/
theorem negamax_inwindow_value (K : Keys)
    (C : Pos → Prop) (hmove : ∀ p m q, C p → makeMove K p m = some q → isLegal q = true → C q)
    (hnull : ∀ p, C p → isInCheck p p.side = false → C (makeNull K p).1)
    (heval : ∀ p v, C p → evalRaw p = some v → EvalRange v)
    (fuel : Nat) (p : Pos) (hp : C p) (alpha beta : Int) (depth ply : Nat) (canNull : Bool) (prev : Move)
    (hw : InWin alpha beta) (hply : ply + fuel ≤ 32767) (s s' : SState) (hs : TTSane s.tt) (v : Int) (opv : Option (List Move))
    (h : negamax K fuel p alpha beta depth ply canNull prev s = (.ok (v, opv), s')) (h1 : alpha < v) (h2 : v < beta) :
    Prov ply v :=
  (posti_negamax_prov K C hmove hnull heval fuel p hp alpha beta depth ply canNull prev hw hply s (v, opv) s' hs h).2 ⟨h1, h2⟩

example : InWin (-INF) INF ∧ 0 + 300 ≤ 32767 ∧ ¬ Prov 0 (-32718) ∧ Prov 0 (-32719) ∧ Prov 0 32718 ∧ Prov 0 27 :=
  ⟨inwin_root, by decide, not_prov_bad, Or.inr ⟨48, by omega, by omega, Or.inl ⟨by omega, by omega⟩⟩,
    Or.inr ⟨49, by omega, by omega, Or.inr ⟨by omega, by omega⟩⟩, Or.inl (by unfold EvalRange; omega)⟩

/-! ### the table stays sane: every window, every outcome -/

theorem negamax_keeps_sane (K : Keys) (fuel : Nat) (p : Pos) (alpha beta : Int) (depth ply : Nat) (canNull : Bool) (prev : Move)
    (s : SState) (hs : TTSane s.tt) : TTSane (negamax K fuel p alpha beta depth ply canNull prev s).2.tt :=
  (posta_negamax_tt K fuel p alpha beta depth ply canNull prev s hs).1

theorem searchRoot_keeps_sane (K : Keys) (root : Pos) (d : Nat) (a b : Int) (s : SState) (hs : TTSane s.tt) :
    TTSane (searchRoot K root d a b s).2.tt :=
  searchRoot_tt K root d a b s hs

/-- e.g. for the window the C04 theorems could not handle -/
example (K : Keys) (root : Pos) (d : Nat) : TTSane (searchRoot K root d (-32768) (-32668) {}).2.tt :=
  searchRoot_keeps_sane K root d _ _ _ ttSane_empty

/-! ### `search` -/

/-- C04 `answer_legal`, with hypotheses on the inputs only: if `search` returns `m ≠ 0` from a state with a sane table and an
empty pv, then `m` is the head of the pv it leaves, and that pv is a LegalLine from the root. -/
theorem answer_legal_sane (K : Keys) (root : Pos) (pvStr : Move → String) (d : Nat)
    (C : Pos → Prop) (hmove : ∀ p m q, C p → makeMove K p m = some q → C q) (hnull : ∀ p, C p → C (makeNull K p).1)
    (heval : ∀ p v, C p → evalRaw p = some v → EvalRange v) (hroot : C root)
    (s s' : SState) (m : Move) (hts : TTSane s.tt) (hs : s.pv = []) (h : search K root pvStr d s = (.ok m, s')) (hm : m ≠ 0) :
    ∃ rest, s'.pv = m :: rest ∧ LegalLine K root (m :: rest) :=
  (search_answer_legal_sane K root pvStr C (fun p m q hp hq _ => hmove p m q hp hq) (fun p hp _ => hnull p hp) heval hroot
    d s s' m hts hs h hm).1

example : TTSane ({} : SState).tt ∧ ({} : SState).pv = [] := ⟨ttSane_empty, rfl⟩
/- `h` is satisfiable: `#eval (search realKeys (startPos realKeys) (fun _ => "") 2 {}).1` gives `ok 65537153` (b1c3 with score bits).
No kernel-checked `example`: evaluating the search in the kernel unfolds the magic attack tables. -/

/-- STRONGER: legal children / null move out of check only, and the table is sane afterwards (so the next `search` call on the same
tables satisfies the hypotheses again, once its pv is reset) -/
theorem answer_legal_sane' (K : Keys) (root : Pos) (pvStr : Move → String) (d : Nat)
    (C : Pos → Prop) (hmove : ∀ p m q, C p → makeMove K p m = some q → isLegal q = true → C q)
    (hnull : ∀ p, C p → isInCheck p p.side = false → C (makeNull K p).1)
    (heval : ∀ p v, C p → evalRaw p = some v → EvalRange v) (hroot : C root)
    (s s' : SState) (m : Move) (hts : TTSane s.tt) (hs : s.pv = []) (h : search K root pvStr d s = (.ok m, s')) (hm : m ≠ 0) :
    (∃ rest, s'.pv = m :: rest ∧ LegalLine K root (m :: rest)) ∧ TTSane s'.tt :=
  search_answer_legal_sane K root pvStr C hmove hnull heval hroot d s s' m hts hs h hm

/-- what the answer's legality means concretely (C04 `answer_playable` without `hgood`) -/
theorem answer_playable_sane (K : Keys) (root : Pos) (pvStr : Move → String) (d : Nat)
    (C : Pos → Prop) (hmove : ∀ p m q, C p → makeMove K p m = some q → isLegal q = true → C q)
    (hnull : ∀ p, C p → isInCheck p p.side = false → C (makeNull K p).1)
    (heval : ∀ p v, C p → evalRaw p = some v → EvalRange v) (hroot : C root)
    (s s' : SState) (m : Move) (hts : TTSane s.tt) (hs : s.pv = []) (h : search K root pvStr d s = (.ok m, s')) (hm : m ≠ 0) :
    ∃ q, makeMove K root m = some q ∧ isLegal q = true ∧ (m % 65536) ∈ (genMoves root).map (· % 65536) := by
  obtain ⟨⟨rest, _, hl⟩, _⟩ := answer_legal_sane' K root pvStr d C hmove hnull heval hroot s s' m hts hs h hm
  cases hl with
  | cons _ q _ _ hq hleg hmem _ => exact ⟨q, hq, hleg, hmem⟩

/-- C04b `answer_fide_legal` without `hgood`: the move `search` answers with is FIDE-legal in the root, for a legal root position
within the counter range, when every position the search can reach has legal material and the table is sane -/
theorem answer_fide_legal_sane (K : Keys) (root : Pos) (pvStr : Move → String) (d : Nat) (hw : WF root = true)
    (hr : root.ply < 255 ∧ root.hmc < 255) (hmat : ∀ p, SearchReach K root p → LegalMaterial p)
    (s s' : SState) (m : Move) (hts : TTSane s.tt) (hs : s.pv = []) (h : search K root pvStr d s = (.ok m, s')) (hm : m ≠ 0) :
    absMove m ∈ Fide.legalMoves (absPos root) ∧
      ∃ q, makeMove K root m = some q ∧ absPos q = Fide.apply (absPos root) (absMove m) ∧ WF q = true := by
  obtain ⟨q, hq, hl, hmem⟩ := answer_playable_sane K root pvStr d (SearchReach K root)
    (fun _ _ _ hp hq hl => SearchReach.move hp hq hl) (fun _ hp hc => SearchReach.null hp hc)
    (fun p v hp hv => evalRange_of_legalMaterial p (hmat p hp) v hv) SearchReach.root s s' m hts hs h hm
  obtain ⟨h1, h2, h3, _, _⟩ := legalLine_step K root q hw hr m hq hl hmem
  rw [absMove_score_bits] at h1 h2
  exact ⟨h1, q, hq, h2, h3⟩

example : WF C01a.exPos = true ∧ (C01a.exPos.ply < 255 ∧ C01a.exPos.hmc < 255) ∧ TTSane ({} : SState).tt ∧ ({} : SState).pv = [] :=
  ⟨C01a.ex_WF, C01.ex_range, ttSane_empty, rfl⟩

end Clemens
