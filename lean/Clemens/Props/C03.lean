import Clemens.Proofs.MoveText
/-
C03 — square and move text round trips: what `SquareToString` / `Move.String` print,
`SquareFromString` / `MakeMoveFromString` parse back to the same square / move word, given what
stands on the squares (the parser reconstructs the move kind from the board).
Lemmas: Clemens/Proofs/MoveText.lean.
-/
namespace Clemens

/-- positions for the examples, read from a FEN by the model's own parser -/
def C03.posOfFen (fen : String) : Pos :=
  match parseFen realKeys (fen.toList.map Char.toNat) with
  | .ok p => p
  | _ => Pos.empty

/-- every square prints and parses back -/
theorem square_roundtrip (s : Nat) (hs : s < 64) : squareFromString (squareToString s) = .ok s :=
  squareFromString_squareToString s hs

example : squareToString 28 = [101, 52] ∧ squareFromString [101, 52] = .ok 28 := by decide
/-- the bound is needed: square 64 prints as "a9", which parses to 64 again, but 72 prints as "a10" -/
example : squareFromString (squareToString 72) = .error := by decide

/-- the printed text of a generated move word parses back to the same word, given what stands on the squares:
king moving two files ⇒ castling; pawn changing file onto an empty square ⇒ en passant; promotion suffix ⇒ promotion -/
theorem moveString_roundtrip_normal (p : Pos) (s t : Nat) (hs : s < 64) (ht : t < 64)
    (hk : ¬(pieceType (p.at s) = KING ∧ absDiff s t = 2)) (hp : pieceType (p.at s) ≠ PAWN) :
    moveFromString p (moveToString (Move.mk s t 0)) = .ok (Move.mk s t 0) :=
  rt_normal p s t hs ht hk hp

/-- g1f3 in the start position -/
example : moveFromString (startPos realKeys) (moveToString (Move.mk 6 21 0)) = .ok (Move.mk 6 21 0) :=
  moveString_roundtrip_normal _ 6 21 (by decide) (by decide) (by decide +kernel) (by decide +kernel)
/-- `hk` is needed: a normal-kind king move over two files (e1g1 written as kind 0) reads back as castling -/
example : moveFromString (startPos realKeys) (moveToString (Move.mk 4 6 0)) = .ok (Move.mk 4 6 3) := by
  decide +kernel

theorem moveString_roundtrip_castling (p : Pos) (s t : Nat) (hs : s < 64) (ht : t < 64)
    (hk : pieceType (p.at s) = KING) (hd : absDiff s t = 2) :
    moveFromString p (moveToString ((3 <<< 12) ||| s ||| (t <<< 6))) = .ok ((3 <<< 12) ||| s ||| (t <<< 6)) :=
  rt_castling p s t hs ht hk hd

/-- e1g1 with the king on e1 -/
example : moveFromString (C03.posOfFen "r3k2r/8/8/8/8/8/8/R3K2R w KQkq - 0 1") (moveToString ((3 <<< 12) ||| 4 ||| (6 <<< 6)))
    = .ok ((3 <<< 12) ||| 4 ||| (6 <<< 6)) :=
  moveString_roundtrip_castling _ 4 6 (by decide) (by decide) (by decide +kernel) (by decide)

theorem moveString_roundtrip_ep (p : Pos) (s t : Nat) (hs : s < 64) (ht : t < 64)
    (hpawn : pieceType (p.at s) = PAWN) (hf : fileOf s ≠ fileOf t) (he : p.at t = 0) :
    moveFromString p (moveToString (Move.mk s t 2)) = .ok (Move.mk s t 2) :=
  rt_ep p s t hs ht hpawn hf he

/-- e5xd6 e.p. -/
example : moveFromString (C03.posOfFen "4k3/8/8/3pP3/8/8/8/4K3 w - d6 0 2") (moveToString (Move.mk 36 43 2))
    = .ok (Move.mk 36 43 2) :=
  moveString_roundtrip_ep _ 36 43 (by decide) (by decide) (by decide +kernel) (by decide) (by decide +kernel)

theorem moveString_roundtrip_promo (p : Pos) (s t pt : Nat) (hs : s < 64) (ht : t < 64)
    (hpawn : pieceType (p.at s) = PAWN) (hpt : 1 ≤ pt ∧ pt ≤ 4) (hc : fileOf s = fileOf t ∨ p.at t ≠ 0) :
    moveFromString p (moveToString ((Move.mk s t 1).withPromo pt)) = .ok ((Move.mk s t 1).withPromo pt) :=
  rt_promo p s t pt hs ht hpawn hpt.1 hpt.2 hc

/-- a7a8q and a7xb8n -/
example : moveFromString (C03.posOfFen "1r2k3/P7/8/8/8/8/8/4K3 w - - 0 1") (moveToString ((Move.mk 48 56 1).withPromo 4))
    = .ok ((Move.mk 48 56 1).withPromo 4) :=
  moveString_roundtrip_promo _ 48 56 4 (by decide) (by decide) (by decide +kernel) (by decide) (.inl (by decide))
example : moveFromString (C03.posOfFen "1r2k3/P7/8/8/8/8/8/4K3 w - - 0 1") (moveToString ((Move.mk 48 57 1).withPromo 1))
    = .ok ((Move.mk 48 57 1).withPromo 1) :=
  moveString_roundtrip_promo _ 48 57 1 (by decide) (by decide) (by decide +kernel) (by decide) (.inr (by decide +kernel))

theorem moveString_roundtrip_pawn_normal (p : Pos) (s t : Nat) (hs : s < 64) (ht : t < 64)
    (hpawn : pieceType (p.at s) = PAWN) (hc : fileOf s = fileOf t ∨ p.at t ≠ 0) :
    moveFromString p (moveToString (Move.mk s t 0)) = .ok (Move.mk s t 0) :=
  rt_pawn_normal p s t hs ht hpawn hc

/-- e2e4 in the start position -/
example : moveFromString (startPos realKeys) (moveToString (Move.mk 12 28 0)) = .ok (Move.mk 12 28 0) :=
  moveString_roundtrip_pawn_normal _ 12 28 (by decide) (by decide) (by decide +kernel) (.inl (by decide))
/-- `hc` is needed: a pawn changing file onto an empty square reads back as en passant whatever the kind was -/
example : moveFromString (startPos realKeys) (moveToString (Move.mk 12 21 0)) = .ok (Move.mk 12 21 2) := by
  decide +kernel

end Clemens
