import Clemens.Proofs.P16Word
import Clemens.Proofs.P16Uci
import Clemens.Props.C03
import Clemens.Props.C10b
/-
C03, final assembly — the `position … moves m1 … mn` command is the fold of the legal moves it names, and every move the
engine prints is accepted back with the same meaning:

  * `moveString_roundtrip`     every generated word prints to a text that `MakeMoveFromString` reads back as the same word;
  * `makeMoveFromString_print` hence the string path plays exactly that move;
  * `positionCmd_fold`         replaying the printed moves of any legal game reconstructs the position, field by field;
  * `positionCmd_fide`         and that position is the rules' position after those moves;
  * `uci_move_semantics`       every FIDE-legal move has an engine word which, printed and read back, is played with its FIDE
                               meaning.

Ingredients: C03 (`moveString_roundtrip_*`, through `rt_*` of `Clemens/Proofs/MoveText.lean`), C01a (`genMoves_shape`),
C01 (`legal_exact`, `engineLegal_succ`, `mem_engineLegal`), C10b (`WF_makeMove`).
Lemma library: `Clemens/Proofs/P16Word.lean` (`P16.wordForm_of_gen`: the generated words are `Move.mk s t k`, k ∈ {0,2,3}, or
`(Move.mk s t 1).withPromo pt` — `GenShape` alone leaves the bits 14/15 of a non-promotion word open —, and
`P16.roundtrip_of_shape`); `Clemens/Proofs/P16Uci.lean` (`bytesOfString`, `P16.uci_bytes`: the spec's UCI string of a move is the
engine's text of every word with that meaning).
-/
namespace Clemens

/-- every move the generator produces in a legal position prints to text that parses back to the same word -/
theorem moveString_roundtrip (p : Pos) (hw : WF p = true) (m : Move) (hm : m ∈ genMoves p) :
    moveFromString p (moveToString m) = .ok m :=
  P16.roundtrip_of_shape p m (P16.wordForm_of_gen p hw m hm) (genMoves_shape p hw m hm)

-- hypotheses satisfiable: the example position of C01a (castling rights, an en passant square, promotions) has generated moves
example : WF C01a.exPos = true ∧ ∃ m, m ∈ genMoves C01a.exPos := by
  refine ⟨C01a.ex_WF, ?_⟩
  obtain ⟨m, q, h⟩ := C10b.ex_step
  exact ⟨m, ((mem_engineLegal _ _ _ _).1 h).1⟩

/-- hence the string path plays exactly the move -/
theorem makeMoveFromString_print (K : Keys) (p : Pos) (hw : WF p = true) (m : Move) (q : Pos)
    (h : (m, q) ∈ engineLegal K p) : makeMoveFromString K p (moveToString m) = .ok q := by
  obtain ⟨hm, hq, _⟩ := (mem_engineLegal K p m q).1 h
  unfold makeMoveFromString
  rw [moveString_roundtrip p hw m hm]
  show Res.ofOption (makeMove K p m) = .ok q
  rw [hq]; rfl

-- hypotheses satisfiable: a playable move in the example position
example : WF C01a.exPos = true ∧ ∃ m q, (m, q) ∈ engineLegal realKeys C01a.exPos := ⟨C01a.ex_WF, C10b.ex_step⟩

/-- the fold of the `position … moves m1 … mn` command (`setupGame` of the driver, without the hash history) -/
def playStrings (K : Keys) (p : Pos) : List Bytes → Res Pos
  | [] => .ok p
  | s :: rest => match makeMoveFromString K p s with
    | .ok q => playStrings K q rest
    | .error => .error
    | .panic => .panic

/-- a legal game: each move is one the engine treats as playable in the position reached so far (= FIDE-legal by
`legal_exact`), each played from a position within the counter range -/
inductive LegalGame (K : Keys) : Pos → List Move → Pos → Prop
  | nil (p) : LegalGame K p [] p
  | cons (p q r m rest) : (m, q) ∈ engineLegal K p → p.ply < 255 ∧ p.hmc < 255 → LegalGame K q rest r →
      LegalGame K p (m :: rest) r

/-- C03: replaying the printed moves of any legal game through the string interface reconstructs exactly the position
(every field), for games of any length within the counter range -/
theorem positionCmd_fold (K : Keys) (p r : Pos) (ms : List Move) (hw : WF p = true) (hg : LegalGame K p ms r) :
    playStrings K p (ms.map moveToString) = .ok r := by
  induction hg with
  | nil p => rfl
  | cons p q r m rest hmq hr _ ih =>
    rw [List.map_cons]
    unfold playStrings
    rw [makeMoveFromString_print K p hw m q hmq]
    exact ih (WF_makeMove K p hw hr m q hmq)

/-- a one-move game from the example position (two moves would need a second `engineLegal` membership, which cannot be
evaluated in the kernel without unfolding the attack tables; the statement is for every length) -/
theorem C03b.ex_game : ∃ m q, q ≠ C01a.exPos ∧ LegalGame realKeys C01a.exPos [m] q := by
  obtain ⟨m, q, hmq⟩ := C10b.ex_step
  refine ⟨m, q, ?_, LegalGame.cons _ q q m [] hmq C01.ex_range (LegalGame.nil q)⟩
  intro e
  have hs := makeMove_side realKeys _ _ _ ((mem_engineLegal _ _ _ _).1 hmq).2.1
  rw [e, C01a.ex_side] at hs
  revert hs; decide

-- hypotheses satisfiable, non-trivially
example : WF C01a.exPos = true ∧ ∃ ms r, ms ≠ [] ∧ LegalGame realKeys C01a.exPos ms r := by
  obtain ⟨m, q, _, hg⟩ := C03b.ex_game
  exact ⟨C01a.ex_WF, [m], q, by simp, hg⟩

/-- the rules' position after a sequence of moves -/
def Fide.play (fp : Fide.Pos) : List Fide.Move → Fide.Pos
  | [] => fp
  | m :: rest => Fide.play (Fide.apply fp m) rest

/-- and that position is the FIDE position after those moves -/
theorem positionCmd_fide (K : Keys) (p r : Pos) (ms : List Move) (hw : WF p = true) (hg : LegalGame K p ms r) :
    absPos r = Fide.play (absPos p) (ms.map absMove) := by
  induction hg with
  | nil p => rfl
  | cons p q r m rest hmq hr _ ih =>
    rw [List.map_cons]
    unfold Fide.play
    rw [← engineLegal_succ K p hw hr m q hmq]
    exact ih (WF_makeMove K p hw hr m q hmq)

example : WF C01a.exPos = true ∧ ∃ ms r, ms ≠ [] ∧ LegalGame realKeys C01a.exPos ms r := by
  obtain ⟨m, q, _, hg⟩ := C03b.ex_game
  exact ⟨C01a.ex_WF, [m], q, by simp, hg⟩

/-- the positions along a legal game are legal positions (so the two theorems above apply again from every point of it) -/
theorem legalGame_WF (K : Keys) (p r : Pos) (ms : List Move) (hw : WF p = true) (hg : LegalGame K p ms r) : WF r = true := by
  induction hg with
  | nil p => exact hw
  | cons p q r m rest hmq hr _ ih => exact ih (WF_makeMove K p hw hr m q hmq)

/-- a legal game is a path of `Reachable` (C10b) -/
theorem legalGame_reachable (K : Keys) (p r : Pos) (ms : List Move) (hg : LegalGame K p ms r) : Reachable K p r := by
  have key : ∀ a b l, LegalGame K a l b → ∀ o, Reachable K o a → Reachable K o b := by
    intro a b l h
    induction h with
    | nil p => intro o ho; exact ho
    | cons p q r m rest hmq hr _ ih => intro o ho; exact ih o (Reachable.step ho hr hmq)
  exact key p r ms hg p Reachable.refl

/-- a FIDE-legal move written in UCI notation is understood with its FIDE meaning: for every legal `fm` of the spec there is
the engine move `m` that means `fm`; its text, given to `MakeMoveFromString`, is accepted and leads to the rules' successor -/
theorem uci_move_semantics (K : Keys) (p : Pos) (hw : WF p = true) (hr : p.ply < 255 ∧ p.hmc < 255) (fm : Fide.Move)
    (hfm : fm ∈ Fide.legalMoves (absPos p)) :
    ∃ m q, (m, q) ∈ engineLegal K p ∧ absMove m = fm ∧ makeMoveFromString K p (moveToString m) = .ok q ∧
      absPos q = Fide.apply (absPos p) fm := by
  have h := ((legal_exact K p hw hr).1 fm).2 hfm
  obtain ⟨⟨m, q⟩, hmq, habs⟩ := List.mem_map.1 h
  refine ⟨m, q, hmq, habs, makeMoveFromString_print K p hw m q hmq, ?_⟩
  rw [← habs]
  exact engineLegal_succ K p hw hr m q hmq

-- hypotheses satisfiable: the en passant capture e5xd6 in the example position (membership evaluated on the specification)
example : WF C01a.exPos = true ∧ (C01a.exPos.ply < 255 ∧ C01a.exPos.hmc < 255) ∧
    (⟨36, 43, none⟩ : Fide.Move) ∈ Fide.legalMoves (absPos C01a.exPos) :=
  ⟨C01a.ex_WF, C01.ex_range, by decide +kernel⟩

/-! ### stretch: the spec's UCI text is the engine's text -/

/-- `bytesOfString s` is the list of the character codes of `s` -/
example (s : String) : bytesOfString s = s.toList.map Char.toNat := rfl
example : bytesOfString (Fide.Move.uci ⟨48, 57, some 1⟩) = [97, 55, 98, 56, 110] := by decide   -- "a7b8n"

/-- the spec's UCI text of the meaning of a generated word is the text the engine prints for it -/
theorem uci_text_of_gen (p : Pos) (hw : WF p = true) (m : Move) (hm : m ∈ genMoves p) :
    bytesOfString (absMove m).uci = moveToString m :=
  P16.uci_bytes m (genMoves_shape p hw m hm).promo_piece

/-- `uci_move_semantics` with the text made explicit: the UCI string of a FIDE-legal move `fm` (as the specification writes
it), given to `MakeMoveFromString`, is accepted and leads to the rules' successor under `fm`; it is the text the engine itself
prints for its word `m` of that move -/
theorem uci_move_text (K : Keys) (p : Pos) (hw : WF p = true) (hr : p.ply < 255 ∧ p.hmc < 255) (fm : Fide.Move)
    (hfm : fm ∈ Fide.legalMoves (absPos p)) :
    ∃ m q, (m, q) ∈ engineLegal K p ∧ absMove m = fm ∧ bytesOfString fm.uci = moveToString m ∧
      makeMoveFromString K p (bytesOfString fm.uci) = .ok q ∧ absPos q = Fide.apply (absPos p) fm := by
  obtain ⟨m, q, hmq, habs, hplay, hsucc⟩ := uci_move_semantics K p hw hr fm hfm
  have ht : bytesOfString fm.uci = moveToString m := by
    rw [← habs]; exact uci_text_of_gen p hw m ((mem_engineLegal K p m q).1 hmq).1
  exact ⟨m, q, hmq, habs, ht, by rw [ht]; exact hplay, hsucc⟩

/-- that text is ASCII, so its character codes are its UTF-8 bytes -/
theorem uci_text_ascii (K : Keys) (p : Pos) (hw : WF p = true) (hr : p.ply < 255 ∧ p.hmc < 255) (fm : Fide.Move)
    (hfm : fm ∈ Fide.legalMoves (absPos p)) : ∀ b ∈ bytesOfString fm.uci, b < 128 := by
  obtain ⟨m, _, _, _, ht, _, _⟩ := uci_move_text K p hw hr fm hfm
  rw [ht]; exact P16.moveToString_ascii m

example : WF C01a.exPos = true ∧ (C01a.exPos.ply < 255 ∧ C01a.exPos.hmc < 255) ∧
    (⟨49, 56, some 4⟩ : Fide.Move) ∈ Fide.legalMoves (absPos C01a.exPos) :=
  ⟨C01a.ex_WF, C01.ex_range, by decide +kernel⟩

end Clemens
