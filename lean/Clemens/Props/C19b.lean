import Clemens.Model.Pos
import Clemens.Gen.Src
import Clemens.Proofs.TieTac
/-
Tie T1 for the move word accessors (`pkg/move/move.go`): generated definitions on `BitVec 32`
agree with the model accessors on `Nat` words.
-/
namespace Clemens
open Src

-- only the fallback `tie_tac` (64 bit positions of a rewritten definition) needs more than the default budget; the `rfl` path does not
set_option maxHeartbeats 1000000

theorem tie_moveSrc (m : BitVec 32) : (move.Move_GetSourceSquare m).toNat = Move.src m.toNat := by
  have h : m.toNat &&& 63 ≤ 63 := Nat.and_le_right
  first
  | tie_rfl
  | tie_budget 200000 (
      show (BitVec.setWidth 8 (m &&& 63#32)).toNat = m.toNat &&& 63
      rw [BitVec.toNat_setWidth, BitVec.toNat_and]
      exact Nat.mod_eq_of_lt (by change (m.toNat &&& 63) < 256; omega))
  | tie_tac

theorem tie_moveTgt (m : BitVec 32) : (move.Move_GetTargetSquare m).toNat = Move.tgt m.toNat := by
  have h : (m.toNat >>> 6) &&& 63 ≤ 63 := Nat.and_le_right
  first
  | tie_rfl
  | tie_budget 200000 (
      show (BitVec.setWidth 8 ((m >>> 6) &&& 63#32)).toNat = (m.toNat >>> 6) &&& 63
      rw [BitVec.toNat_setWidth, BitVec.toNat_and, BitVec.toNat_ushiftRight]
      exact Nat.mod_eq_of_lt (by change ((m.toNat >>> 6) &&& 63) < 256; omega))
  | tie_tac

theorem tie_moveKind (m : BitVec 32) : move.Move_GetMoveType m = (Move.kind m.toNat : Int) := by
  first
  | tie_rfl
  | tie_budget 200000 (
      show (((m >>> 12) &&& 3#32).toNat : Int) = (((m.toNat >>> 12) &&& 3 : Nat) : Int)
      rw [BitVec.toNat_and, BitVec.toNat_ushiftRight]
      rfl)
  | tie_tac

theorem tie_movePromo (m : BitVec 32) : (move.Move_GetPromitionPieceType m).toNat = Move.promo m.toNat := by
  have h : (m.toNat >>> 14) &&& 3 ≤ 3 := Nat.and_le_right
  first
  | tie_rfl
  | tie_budget 200000 (
      show ((BitVec.setWidth 8 ((m >>> 14) &&& 3#32)) + 1#8).toNat = ((m.toNat >>> 14) &&& 3) + 1
      rw [BitVec.toNat_add, BitVec.toNat_setWidth, BitVec.toNat_and, BitVec.toNat_ushiftRight]
      change ((m.toNat >>> 14 &&& 3) % 256 + 1) % 256 = (m.toNat >>> 14 &&& 3) + 1
      omega)
  | tie_tac

theorem tie_moveScore (m : BitVec 32) : (move.Move_GetScore m).toNat = Move.score m.toNat := by
  first
  | tie_rfl
  | tie_budget 200000 (
      show (BitVec.setWidth 16 (m >>> 16)).toNat = (m.toNat >>> 16) &&& 0xFFFF
      rw [BitVec.toNat_setWidth, BitVec.toNat_ushiftRight, show (0xFFFF : Nat) = 2 ^ 16 - 1 from rfl, Nat.and_two_pow_sub_one_eq_mod])
  | tie_tac

end Clemens
