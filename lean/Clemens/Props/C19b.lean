import Clemens.Model.Pos
import Clemens.Gen.Src
/-
Tie T1 for the move word accessors (`pkg/move/move.go`): generated definitions on `BitVec 32`
agree with the model accessors on `Nat` words.
-/
namespace Clemens
open Src

theorem tie_moveSrc (m : BitVec 32) : (move.Move_GetSourceSquare m).toNat = Move.src m.toNat := by
  have h : m.toNat &&& 63 ≤ 63 := Nat.and_le_right
  show (BitVec.setWidth 8 (m &&& 63#32)).toNat = m.toNat &&& 63
  rw [BitVec.toNat_setWidth, BitVec.toNat_and]
  exact Nat.mod_eq_of_lt (by change (m.toNat &&& 63) < 256; omega)

theorem tie_moveTgt (m : BitVec 32) : (move.Move_GetTargetSquare m).toNat = Move.tgt m.toNat := by
  have h : (m.toNat >>> 6) &&& 63 ≤ 63 := Nat.and_le_right
  show (BitVec.setWidth 8 ((m >>> 6) &&& 63#32)).toNat = (m.toNat >>> 6) &&& 63
  rw [BitVec.toNat_setWidth, BitVec.toNat_and, BitVec.toNat_ushiftRight]
  exact Nat.mod_eq_of_lt (by change ((m.toNat >>> 6) &&& 63) < 256; omega)

theorem tie_moveKind (m : BitVec 32) : move.Move_GetMoveType m = (Move.kind m.toNat : Int) := by
  show (((m >>> 12) &&& 3#32).toNat : Int) = (((m.toNat >>> 12) &&& 3 : Nat) : Int)
  rw [BitVec.toNat_and, BitVec.toNat_ushiftRight]
  rfl

theorem tie_movePromo (m : BitVec 32) : (move.Move_GetPromitionPieceType m).toNat = Move.promo m.toNat := by
  have h : (m.toNat >>> 14) &&& 3 ≤ 3 := Nat.and_le_right
  show ((BitVec.setWidth 8 ((m >>> 14) &&& 3#32)) + 1#8).toNat = ((m.toNat >>> 14) &&& 3) + 1
  rw [BitVec.toNat_add, BitVec.toNat_setWidth, BitVec.toNat_and, BitVec.toNat_ushiftRight]
  change ((m.toNat >>> 14 &&& 3) % 256 + 1) % 256 = (m.toNat >>> 14 &&& 3) + 1
  omega

theorem tie_moveScore (m : BitVec 32) : (move.Move_GetScore m).toNat = Move.score m.toNat := by
  show (BitVec.setWidth 16 (m >>> 16)).toNat = (m.toNat >>> 16) &&& 0xFFFF
  rw [BitVec.toNat_setWidth, BitVec.toNat_ushiftRight, show (0xFFFF : Nat) = 2 ^ 16 - 1 from rfl, Nat.and_two_pow_sub_one_eq_mod]

end Clemens
