import Clemens.Proofs.FenRound3
import Clemens.Props.C01a
/-
C11 (second part) — the FEN round trip: `ToFen`, then `NewFromFen`, gives back every field of the position;
and `ToFen` of what `NewFromFen` built from a printed FEN is the same text.

Lemmas: Clemens/Proofs/FenRound1.lean (decimal rendering, ASCII runes, `strings.Split`, castling / en passant fields,
single parser steps), FenRound2.lean (one rank printed and parsed back; the eight ranks; `placement_parse`),
FenRound3.lean (the six fields, the counters, the assembly `fen_roundtrip_core`).  Helper lemmas live in
`Clemens.P17`.

What the proof uses of `WF p`: only `wfShape p` (board array and bitboards agree, aggregates are the unions) and
`wfState p` (ranges of the scalar fields and `ply % 2 = side`); the chess clauses `wfChess` are not needed, and the
bound `p.ply / 2 + 1 ≤ 128` of the statement follows from `p.ply < 256` (part of `wfState`).  The stronger statement
is `fen_roundtrip_of_shape_state` below.

Definitions used in the statements of the intermediate theorems (Clemens/Proofs/FenRound1.lean, FenRound3.lean):
  P17.castlingText c = if c &&& 15 == 0 then "-" else the letters of KQkq whose bit is set in c   (as `ToFen` prints)
  P17.epText e       = if e = 64 then "-" else squareToString e
  P17.fenText p ranks = placement ++ " w " / " b " ++ castlingText ++ " " ++ epText ++ " " ++ hmc ++ " " ++ fullmove
-/
namespace Clemens

/-! ### the example position -/

/-- the example position of C01a (castling rights KQkq, en passant square d6, a pawn about to promote), with the
from-scratch hash for the real key table -/
def C11b.exPos : Pos := { C01a.exPos with hash := fullHash realKeys C01a.exPos }

def C11b.exFen : Bytes := "r1b1k2r/1P6/8/3pP3/8/8/8/R3K2R w KQkq d6 0 2".toList.map Char.toNat

theorem C11b.ex_WF : WF C11b.exPos = true := (P17.WF_hash _ _).trans C01a.ex_WF

theorem C11b.ex_hash : C11b.exPos.hash = fullHash realKeys C11b.exPos := P17.hash_ok_of realKeys C01a.exPos

theorem C11b.ex_toFen : toFen C11b.exPos = some C11b.exFen := by decide +kernel

/-! ### intermediate theorems -/

/-- `strconv.Atoi` reads back what `strconv.Itoa` prints (any number that fits `int64`) -/
theorem atoi_natToDec (n : Nat) (hn : n < 2 ^ 63) : atoi (natToDec n) = some (n : Int) :=
  P17.atoi_natToDec n hn

example : natToDec 128 = [49, 50, 56] ∧ atoi [49, 50, 56] = some 128 := by decide

/-- the castling field: what `ToFen` prints for the rights `c` sets exactly the rights `c` -/
theorem fenSetCastling_print (c : Nat) (hc : c < 16) (q : Pos) :
    fenSetCastling (P17.castlingText c) q = .ok { q with castling := c } :=
  P17.fenSetCastling_print c hc q

example : P17.castlingText 13 = [75, 107, 113] ∧ P17.castlingText 0 = [45] := by decide
/-- the bound is needed: a set bit 4 is not printed -/
example : P17.castlingText 16 = [45] ∧ fenSetCastling [45] Pos.empty = .ok { Pos.empty with castling := 0 } := by
  decide

/-- the en passant field: "-" or the square -/
theorem fenSetEnPassant_print (e : Nat) (he : e ≤ 64) (q : Pos) :
    fenSetEnPassant (P17.epText e) q = .ok { q with ep := e } :=
  P17.fenSetEnPassant_print e he q

example : P17.epText 43 = [100, 54] ∧ P17.epText 64 = [45] := by decide

/-- the placement field: every rank prints, the text is blank-free ASCII, and `fenSetPieces` on it builds, from the
empty position, the board array and the twelve bitboards of `p` (and touches nothing else but the hash) -/
theorem fenSetPieces_toFen (K : Keys) (p : Pos) (hs : wfShape p = true) :
    ∃ ranks, [7, 6, 5, 4, 3, 2, 1, 0].mapM (fenRank p) = some ranks ∧
      (∀ b ∈ (ranks.intersperse [47]).flatten, b < 128 ∧ b ≠ 32) ∧
      ∃ q, fenSetPieces K (ranks.intersperse [47]).flatten Pos.empty = .ok q ∧
        q.board = p.board ∧ q.bb = p.bb ∧
        q.all = 0#64 ∧ q.white = 0#64 ∧ q.black = 0#64 ∧ q.side = 0 ∧ q.castling = 0 ∧
        q.ep = 0 ∧ q.hmc = 0 ∧ q.ply = 0 := by
  have hag := agrees_of_wfShape_core p hs
  obtain ⟨ranks, hm, hasc, q, hq, hqa, hqat, hrest⟩ := P17.placement_parse K p (fun s h => (hag s h).1)
  exact ⟨ranks, hm, hasc, q, hq, P17.board_of_at q p hqat, P17.bb_of_agrees q p hqa hag hqat, hrest⟩

example : wfShape C11b.exPos = true := (P17.WF_parts _ C11b.ex_WF).1

/-- the printed FEN has exactly six blank-separated fields -/
theorem toFen_fields (p : Pos) (hs : wfShape p = true) (hst : wfState p = true) :
    ∃ b ranks, [7, 6, 5, 4, 3, 2, 1, 0].mapM (fenRank p) = some ranks ∧ toFen p = some b ∧
      splitBytes 32 b =
        [(ranks.intersperse [47]).flatten, (if p.side = 0 then [119] else [98]), P17.castlingText p.castling,
         P17.epText p.ep, natToDec p.hmc, natToDec (p.ply / 2 + 1)] := by
  have hag := agrees_of_wfShape_core p hs
  obtain ⟨_, hcast, hep, _, _, _⟩ := P17.wfState_parts p hst
  obtain ⟨ranks, hm, hasc, _⟩ := P17.placement_parse realKeys p (fun s h => (hag s h).1)
  exact ⟨P17.fenText p ranks, ranks, hm, P17.toFen_eq p ranks hm,
    P17.toFen_fields p ranks (fun h => (hasc 32 h).2 rfl) hcast hep⟩

example : wfShape C11b.exPos = true ∧ wfState C11b.exPos = true := P17.WF_parts _ C11b.ex_WF
example : splitBytes 32 C11b.exFen =
    ["r1b1k2r/1P6/8/3pP3/8/8/8/R3K2R", "w", "KQkq", "d6", "0", "2"].map (fun s => s.toList.map Char.toNat) := by
  decide +kernel

/-! ### the round trip -/

/-- the round trip from exactly what it needs: consistent board views, in-range state, from-scratch hash
(no chess-legality clause, no separate bound on the full-move number) -/
theorem fen_roundtrip_of_shape_state (K : Keys) (p : Pos) (hs : wfShape p = true) (hst : wfState p = true)
    (hh : p.hash = fullHash K p) : ∃ b, toFen p = some b ∧ parseFen K b = .ok p := by
  obtain ⟨ranks, _, h1, h2⟩ := P17.fen_roundtrip_core K p hs hst hh
  exact ⟨_, h1, h2⟩

/-- C11: for every legal position (full-move number ≤ 128 so that it fits the counter, hash = from-scratch hash),
parsing the printed FEN yields the position itself, every field -/
theorem fen_roundtrip (K : Keys) (p : Pos) (hw : WF p = true) (hh : p.hash = fullHash K p) (_hfm : p.ply / 2 + 1 ≤ 128) :
    ∃ b, toFen p = some b ∧ parseFen K b = .ok p :=
  fen_roundtrip_of_shape_state K p (P17.WF_parts p hw).1 (P17.WF_parts p hw).2 hh

/-- hypotheses satisfiable: the example position (rights KQkq, en passant square d6, full-move number 2) … -/
example : WF C11b.exPos = true ∧ C11b.exPos.hash = fullHash realKeys C11b.exPos ∧ C11b.exPos.ply / 2 + 1 ≤ 128 :=
  ⟨C11b.ex_WF, C11b.ex_hash, by decide +kernel⟩
/-- … whose printed FEN therefore parses back to it (instance of the theorem; nothing is evaluated here) -/
example : parseFen realKeys C11b.exFen = .ok C11b.exPos := by
  obtain ⟨b, h1, h2⟩ := fen_roundtrip realKeys C11b.exPos C11b.ex_WF C11b.ex_hash (by decide +kernel)
  rw [C11b.ex_toFen] at h1
  cases h1
  exact h2

/-- the hash hypothesis is needed: the parser always installs the from-scratch hash, so the same position with another
hash word (here 0) prints the same text and is not what the parser returns -/
example : toFen C01a.exPos = some C11b.exFen ∧ parseFen realKeys C11b.exFen ≠ .ok C01a.exPos := by
  decide +kernel
/-- `ply % 2 = side` (part of `wfState`) is needed: the parser rebuilds the ply from the full-move number and the side -/
example : toFen { C11b.exPos with ply := 3 } = some C11b.exFen ∧
    parseFen realKeys C11b.exFen ≠ .ok { C11b.exPos with ply := 3 } := by
  decide +kernel

/-- and printing a parsed canonical FEN reproduces the text -/
theorem fen_canonical (K : Keys) (p : Pos) (hw : WF p = true) (hh : p.hash = fullHash K p) (hfm : p.ply / 2 + 1 ≤ 128)
    (b : Bytes) (hb : toFen p = some b) : ∀ q, parseFen K b = .ok q → toFen q = some b := by
  intro q hq
  obtain ⟨b', h1, h2⟩ := fen_roundtrip K p hw hh hfm
  rw [hb] at h1
  cases h1
  rw [h2] at hq
  cases hq
  exact hb

example : WF C11b.exPos = true ∧ C11b.exPos.hash = fullHash realKeys C11b.exPos ∧ C11b.exPos.ply / 2 + 1 ≤ 128 ∧
    toFen C11b.exPos = some C11b.exFen :=
  ⟨C11b.ex_WF, C11b.ex_hash, by decide +kernel, C11b.ex_toFen⟩

end Clemens
