import Clemens.Props.C01
import Clemens.Proofs.LegalSpec
/-
C10, final assembly — legal positions stay legal: every clause of `WF` (board views consistent, scalar fields in range,
one king each, no pawn on the first or last rank, castling rights only with king and rook at home, en passant geometry,
side to move matches the ply parity, the side that just moved is not in check) holds again after every move the engine
plays, hence along every line of play within the counter range.

Lemma libraries: `Clemens/Proofs/LegalWF.lean` (`LG.WF_succ`), on top of `LegalSucc.lean` (the successor square by square);
`LegalSpec.lean` (`wfChess` against `Fide.wellFormed`).
-/
namespace Clemens

/-- C10, main statement: legal positions stay legal (every clause of WF) under every move the engine plays -/
theorem WF_makeMove (K : Keys) (p : Pos) (hw : WF p = true) (hr : p.ply < 255 ∧ p.hmc < 255) (m : Move) (q : Pos)
    (h : (m, q) ∈ engineLegal K p) : WF q = true := by
  obtain ⟨hm, hq, hl⟩ := (mem_engineLegal K p m q).1 h
  exact LG.WF_succ K p hw hr m hm q hq hl

/-- the engine's list in the example position of C01a contains a pair (m, q) (obtained through `legal_exact`; the right-hand
side is evaluated on the specification only) -/
theorem C10b.ex_step : ∃ m q, (m, q) ∈ engineLegal realKeys C01a.exPos := by
  have h : (⟨36, 43, none⟩ : Fide.Move) ∈ (engineLegal realKeys C01a.exPos).map (fun mq => absMove mq.1) := by
    rw [(legal_exact realKeys C01a.exPos C01a.ex_WF C01.ex_range).1]; decide +kernel
  obtain ⟨⟨m, q⟩, hmq, _⟩ := List.mem_map.1 h
  exact ⟨m, q, hmq⟩

-- hypotheses satisfiable: the example position (castling rights, en passant square, promotions) and a move played there
example : WF C01a.exPos = true ∧ (C01a.exPos.ply < 255 ∧ C01a.exPos.hmc < 255) ∧
    ∃ m q, (m, q) ∈ engineLegal realKeys C01a.exPos := ⟨C01a.ex_WF, C01.ex_range, C10b.ex_step⟩

/-- `q` is reached from `p` by a sequence of moves the engine plays, each from a position within the counter range
(`ply < 255`, `hmc < 255`: the width of the engine's `uint8` counters) -/
inductive Reachable (K : Keys) (p : Pos) : Pos → Prop
  | refl : Reachable K p p
  | step {q r : Pos} {m : Move} : Reachable K p q → (q.ply < 255 ∧ q.hmc < 255) → (m, r) ∈ engineLegal K q →
      Reachable K p r

/-- … hence along every legal move sequence, for games within the counter range -/
theorem WF_reachable (K : Keys) (p q : Pos) (hw : WF p = true) (h : Reachable K p q) : WF q = true := by
  induction h with
  | refl => exact hw
  | step _ hr hm ih => exact WF_makeMove K _ ih hr _ _ hm

-- hypotheses satisfiable, non-trivially: a position one move away from the example position
example : WF C01a.exPos = true ∧ ∃ q, q ≠ C01a.exPos ∧ Reachable realKeys C01a.exPos q := by
  refine ⟨C01a.ex_WF, ?_⟩
  obtain ⟨m, q, hmq⟩ := C10b.ex_step
  refine ⟨q, ?_, Reachable.step Reachable.refl C01.ex_range hmq⟩
  intro e
  have hs := makeMove_side realKeys _ _ _ ((mem_engineLegal _ _ _ _).1 hmq).2.1
  rw [e, C01a.ex_side] at hs
  revert hs; decide

/-! ### the model's well-formedness is the specification's -/

/-- the model's well-formedness is the spec's well-formedness seen through the abstraction (for shape-consistent
positions).  Literally true as an equation between the two Boolean tests: clause by clause the same (king counts,
pawns off the edge ranks, castling rights, en passant geometry); the spec's additional clauses "64 squares" and "only valid
piece codes" hold for every shape-consistent model position; the check clause agrees whenever both kings are present,
and when a king is missing both tests are already false. -/
theorem WF_iff_spec (p : Pos) (hs : wfShape p = true) (hst : wfState p = true) :
    wfChess p = Fide.wellFormed (absPos p) := LG.wfChess_eq_spec p hs hst

/-- in particular a legal model position is a well-formed position of the rules … -/
theorem wellFormed_of_WF (p : Pos) (hw : WF p = true) : Fide.wellFormed (absPos p) = true := by
  obtain ⟨hs, hst, hch⟩ := GM.WF_parts p hw
  rw [← WF_iff_spec p hs hst]; exact hch

/-- … and so is every position the engine reaches from it by a move -/
theorem wellFormed_succ (K : Keys) (p : Pos) (hw : WF p = true) (hr : p.ply < 255 ∧ p.hmc < 255) (m : Move) (q : Pos)
    (h : (m, q) ∈ engineLegal K p) : Fide.wellFormed (Fide.apply (absPos p) (absMove m)) = true := by
  rw [← engineLegal_succ K p hw hr m q h]
  exact wellFormed_of_WF q (WF_makeMove K p hw hr m q h)

-- hypotheses satisfiable: the example position (both sides true) and the empty board (both sides false: no kings;
-- the right-hand side is evaluated, the left-hand side follows)
example : wfShape C01a.exPos = true ∧ wfState C01a.exPos = true ∧ Fide.wellFormed (absPos C01a.exPos) = true :=
  ⟨(GM.WF_parts _ C01a.ex_WF).1, (GM.WF_parts _ C01a.ex_WF).2.1, wellFormed_of_WF _ C01a.ex_WF⟩
example : wfShape Pos.empty = true ∧ wfState Pos.empty = true ∧ wfChess Pos.empty = false := by
  have h1 : wfShape Pos.empty = true := by decide +kernel
  have h2 : wfState Pos.empty = true := by decide +kernel
  refine ⟨h1, h2, ?_⟩
  rw [WF_iff_spec _ h1 h2]; decide +kernel

end Clemens
