import Clemens.Proofs.GenReachClass
import Clemens.Props.C04c
import Clemens.Props.C13b
/-
C04d (task P04m) — the end-to-end search theorems with NO class hypothesis: only hypotheses on the root and on the start state.

C04c (`adopted_pv_legal_sane'`, `answer_legal_sane'`, `answer_fide_legal_sane`), C13b (`search_plays_mate`) and C13
(`negamax_score_range`) take a class `C` of positions closed under the engine's moves on which the static evaluation is bounded;
the instance meant, `P19.SearchReach K root`, left the hypothesis `hmat : ∀ p, SearchReach K root p → LegalMaterial p`, which
cannot be discharged: `SearchReach.move` allows EVERY move word, and a word flagged PROMOTION applied to a knight makes a queen
of it.  The search only plays words it generated.  Here:

 1. `GenReach K root` (`Clemens/Proofs/GenReach.lean`): closed under generated moves (up to the score bits of the word) that pass
    the legality filter, and under the null move out of check.
 2. `genReach_WF`, `genReach_material`: every position of `GenReach` is a legal position (`WF`, every clause) with legal material,
    for a root that is.  FINDING: `WF` IS preserved at the counter limits.  C10 (`WF_makeMove`) is stated within the counter range
    `ply < 255 ∧ hmc < 255` only because it is proved through the refinement theorem C02, whose specification side counts in
    `Nat`; `WF` itself only asks `ply < 256`, `hmc < 256` and `ply % 2 = side`, and the `uint8` wrap-around 255 → 0 keeps the parity.
    Proof: `makeMove` does not read the counters (`GR.makeMove_setCnt`, Proofs/GenReachCnt.lean), so the step is made from the
    position with the counters reset and the counters are put back (`GR.step_any`).  No weaker shape invariant is needed.
    The material part (`GR.material_step_rng`, Proofs/GenReachMaterial.lean) counts piece codes on the successor board
    `LG.succAt` (C01/C02): over a generated move the number of squares holding a code `X ≠ 0` changes by
    `- [captured = X] - [en passant victim = X] - [promoting pawn = X] + [promoted piece = X]` (`GR.cnt_succ`); the king counts come
    from `WF` of the successor.
 3. The lemma libraries behind C04c / C13b (`Proofs/MateInv.lean`, `MateBounds.lean`, `MateRoot.lean`, `MateIter.lean`,
    `SearchBadWinQ.lean`, `SearchBadWinProv.lean`, `SearchBadWinIter.lean`) now ask closure only under the words the loops really
    make: `hmove : ∀ p m q, C p → GenMv p m → makeMove K p m = some q → isLegal q = true → C q`, where `SearchLemmas.GenMv p m`
    (Proofs/SearchRange.lean) says that `m`, up to its score bits, is a word of `genMoves p` or of `genCaptures p`; the loop lemmas
    carry `∀ m ∈ l, GenMv p m`, discharged by C19 (`visit_scored_perm`).  `P19.MateClass.move` has the same premise now.  The
    statements C04c uses are kept as corollaries (`searchRoot_prov`, `posti_negamax_prov`, `searchRoot_not_bad`,
    `searchIterative_pv_legal_sane`, `search_answer_legal_sane`; the generalised ones carry the suffix `_gen`).
    For a legal position a capture-generator word is a move-generator word (C17), so `GenReach` is closed under `GenMv`.
 4. The closed theorems below.  `NoCollision` stays a hypothesis of the mate theorem (it is needed, see C13b); it is only asked
    on `GenReach` (`NoCollisionGen`, implied by C13b's `NoCollision`).
-/
namespace Clemens
open SearchLemmas P19 BadWin

/-! ### the reachability the search really has -/

example (K : Keys) (root p q : Pos) (m : Move) (hp : GenReach K root p) (hm : m % 65536 ∈ (genMoves p).map (· % 65536))
    (hq : makeMove K p m = some q) (hl : isLegal q = true) : GenReach K root q := GenReach.move hp hm hq hl
example (K : Keys) (root p : Pos) (hp : GenReach K root p) (hc : isInCheck p p.side = false) :
    GenReach K root (makeNull K p).1 := GenReach.null hp hc
example (K : Keys) (root : Pos) : GenReach K root root := GenReach.root

/-- it is contained in C13b's `SearchReach` -/
theorem genReach_sub_searchReach (K : Keys) (root : Pos) : ∀ p, GenReach K root p → SearchReach K root p :=
  GR.genReach_searchReach K root

/-- the invariant: legal material along `GenReach` -/
theorem genReach_material (K : Keys) (root : Pos) (hwf : WF root = true) (hmat : LegalMaterial root) :
    ∀ p, GenReach K root p → LegalMaterial p :=
  fun p hp => (genReach_inv K root hwf hmat p hp).2

/-- … and every clause of `WF`, with no counter range (`hmat` is not needed for this part) -/
theorem genReach_WF (K : Keys) (root : Pos) (hwf : WF root = true) : ∀ p, GenReach K root p → WF p = true := by
  intro p hp
  induction hp with
  | root => exact hwf
  | @move p q m _ hm hq hl ih =>
    exact (GR.step_any K p ih (m % 65536) (GR.gen_of_low p ih m hm) q (by rw [← makeMove_low]; exact hq) hl).1
  | @null p _ hc ih => exact (GR.null_any K p ih hc).1

/-- the single steps, for every value of the counters: C10 `WF_makeMove` without `hr`, and the material -/
theorem WF_makeMove_any (K : Keys) (p : Pos) (hw : WF p = true) (m : Move) (q : Pos) (h : (m, q) ∈ engineLegal K p) :
    WF q = true ∧ (LegalMaterial p → LegalMaterial q) := by
  obtain ⟨hm, hq, hl⟩ := (mem_engineLegal K p m q).1 h
  exact GR.step_any K p hw m hm q hq hl

/-- hypotheses satisfiable: the start position and the example position of C01a (castling rights, en passant square, promotions) -/
example : WF C01a.exPos = true ∧ LegalMaterial C01a.exPos := ⟨C01a.ex_WF, by decide +kernel⟩
example : LegalMaterial (startPos realKeys) := by decide +kernel
/-- non-trivially: a position one move away from the example position is in `GenReach` (and differs from it) -/
example : ∃ q, q ≠ C01a.exPos ∧ GenReach realKeys C01a.exPos q ∧ WF q = true ∧ LegalMaterial q := by
  obtain ⟨m, q, hmq⟩ := C10b.ex_step
  obtain ⟨hm, hq, hl⟩ := (mem_engineLegal _ _ _ _).1 hmq
  have hr : GenReach realKeys C01a.exPos q := GenReach.move GenReach.root (List.mem_map_of_mem hm) hq hl
  refine ⟨q, ?_, hr, genReach_inv realKeys _ C01a.ex_WF (by decide +kernel) q hr⟩
  intro e
  have hs := makeMove_side realKeys _ _ _ hq
  rw [e, C01a.ex_side] at hs
  revert hs; decide

/-- the evaluation is bounded on `GenReach` (C15): the hypothesis `heval` of C04c / `EvalBounded` of C13b, discharged -/
theorem genReach_eval_bounded (K : Keys) (root : Pos) (hwf : WF root = true) (hmat : LegalMaterial root) (p : Pos)
    (hp : GenReach K root p) (v : Int) (hv : evalRaw p = some v) : -evalBound ≤ v ∧ v ≤ evalBound :=
  GR.genReach_eval K root hwf hmat p hp v hv

/-! ### C04c, closed -/

/-- C04c `adopted_pv_legal_sane'` for the closed instance: the `pv` field after `searchIterative` is a LegalLine from the root
whenever it was one (or empty) before and the table was sane; and the table is sane afterwards.  No class, no `hmat` on reachable
positions, and no counter range. -/
theorem adopted_pv_legal_closed' (K : Keys) (root : Pos) (pvStr : Move → String) (maxD : Nat) (hw : WF root = true)
    (hmat : LegalMaterial root) (s : SState) (hs : TTSane s.tt) (h : LegalLine K root s.pv) :
    LegalLine K root (searchIterative K root pvStr maxD s).2.pv ∧ TTSane (searchIterative K root pvStr maxD s).2.tt :=
  searchIterative_pv_legal_sane_gen K root pvStr maxD (GenReach K root) (GR.genReach_move K root hw hmat)
    (GR.genReach_null K root) (GR.genReach_evalRange K root hw hmat) GenReach.root s hs h

/-- the statement of the task (with the root hypotheses of `answer_fide_legal_closed`; `hr` is not used) -/
theorem adopted_pv_legal_closed (K : Keys) (root : Pos) (pvStr : Move → String) (maxD : Nat) (hw : WF root = true)
    (_hr : root.ply < 255 ∧ root.hmc < 255) (hmat : LegalMaterial root) (s : SState) (hs : TTSane s.tt)
    (h : LegalLine K root s.pv) : LegalLine K root (searchIterative K root pvStr maxD s).2.pv :=
  (adopted_pv_legal_closed' K root pvStr maxD hw hmat s hs h).1

example (K : Keys) : WF C01a.exPos = true ∧ (C01a.exPos.ply < 255 ∧ C01a.exPos.hmc < 255) ∧ LegalMaterial C01a.exPos ∧
    TTSane ({} : SState).tt ∧ LegalLine K C01a.exPos ({} : SState).pv :=
  ⟨C01a.ex_WF, C01.ex_range, by decide +kernel, ttSane_empty, LegalLine.nil _⟩

/-- C04c `searchRoot_never_bad` (the hypothesis `hgood` of C04), closed -/
theorem searchRoot_never_bad_closed (K : Keys) (root : Pos) (hw : WF root = true) (hmat : LegalMaterial root)
    (d : Nat) (a b : Int) (hwin : InWin a b) (s s' : SState) (hs : TTSane s.tt) (v : Int) (pvl : Option (List Move))
    (h : searchRoot K root d a b s = (.ok (v, pvl), s')) (h1 : a < v) (h2 : v < b) : v ≠ -32718 :=
  searchRoot_not_bad_gen K root (GenReach K root) (GR.genReach_move K root hw hmat) (GR.genReach_null K root)
    (GR.genReach_evalRange K root hw hmat) GenReach.root d a b hwin s s' hs v pvl h h1 h2

/-- C04c `answer_legal_sane'`, closed: the answer of `search` is the head of the pv it leaves, that pv is a LegalLine, the table
is sane afterwards -/
theorem answer_legal_closed (K : Keys) (root : Pos) (pvStr : Move → String) (d : Nat) (hw : WF root = true)
    (hmat : LegalMaterial root) (s s' : SState) (m : Move) (hts : TTSane s.tt) (hs : s.pv = [])
    (h : search K root pvStr d s = (.ok m, s')) (hm : m ≠ 0) :
    (∃ rest, s'.pv = m :: rest ∧ LegalLine K root (m :: rest)) ∧ TTSane s'.tt :=
  search_answer_legal_sane_gen K root pvStr (GenReach K root) (GR.genReach_move K root hw hmat) (GR.genReach_null K root)
    (GR.genReach_evalRange K root hw hmat) GenReach.root d s s' m hts hs h hm

/-- C04c `answer_fide_legal_sane` without `hmat` on reachable positions: the move `search` answers with is FIDE-legal in the
root, the engine's successor is the rules' successor and a legal position again — for a legal root position with legal material
within the counter range (`hr`: C02's refinement is stated there) and a start state with a sane table and an empty pv. -/
theorem answer_fide_legal_closed (K : Keys) (root : Pos) (pvStr : Move → String) (d : Nat) (hw : WF root = true)
    (hr : root.ply < 255 ∧ root.hmc < 255) (hmat : LegalMaterial root)
    (s s' : SState) (m : Move) (hts : TTSane s.tt) (hs : s.pv = []) (h : search K root pvStr d s = (.ok m, s')) (hm : m ≠ 0) :
    absMove m ∈ Fide.legalMoves (absPos root) ∧
      ∃ q, makeMove K root m = some q ∧ absPos q = Fide.apply (absPos root) (absMove m) ∧ WF q = true := by
  obtain ⟨⟨rest, _, hl⟩, _⟩ := answer_legal_closed K root pvStr d hw hmat s s' m hts hs h hm
  cases hl with
  | cons _ q _ _ hq hleg hmem _ =>
    obtain ⟨h1, h2, h3, _, _⟩ := legalLine_step K root q hw hr m hq hleg hmem
    rw [absMove_score_bits] at h1 h2
    exact ⟨h1, q, hq, h2, h3⟩

example : WF C01a.exPos = true ∧ (C01a.exPos.ply < 255 ∧ C01a.exPos.hmc < 255) ∧ LegalMaterial C01a.exPos ∧
    TTSane ({} : SState).tt ∧ ({} : SState).pv = [] :=
  ⟨C01a.ex_WF, C01.ex_range, by decide +kernel, ttSane_empty, rfl⟩
/- `h` is satisfiable: `#eval (search realKeys (startPos realKeys) (fun _ => "") 2 {}).1` gives `ok 65537153` (b1c3 with score
bits); no kernel-checked `example`, evaluating the search in the kernel unfolds the magic attack tables (as in C04c). -/

/-! ### C13, closed -/

/-- C13 `negamax_score_range` on `GenReach`: scores stay in `[-INF, INF]` and the table stays sane, after EVERY outcome -/
theorem negamax_score_range_closed (K : Keys) (root : Pos) (hw : WF root = true) (hmat : LegalMaterial root)
    (fuel : Nat) (p : Pos) (hp : GenReach K root p) (alpha beta : Int) (depth ply : Nat) (canNull : Bool) (prev : Move)
    (hwin : InWin alpha beta) (hply : ply + fuel ≤ 32767) (s : SState) (hs : TTSane s.tt) :
    TTSane (negamax K fuel p alpha beta depth ply canNull prev s).2.tt ∧
      ∀ v opv, (negamax K fuel p alpha beta depth ply canNull prev s).1 = .ok (v, opv) → -INF ≤ v ∧ v ≤ INF := by
  have := posta_negamax_gen K (GenReach K root) TTInv (GR.genReach_move K root hw hmat) (GR.genReach_null K root)
    (GR.genReach_evalMate K root hw hmat) (ttinv_tblInv K _) fuel p hp alpha beta depth ply canNull prev hwin hply s hs
  exact ⟨this.1, fun v opv h => this.2 (v, opv) h⟩

example : InWin (-INF) INF ∧ 0 + 300 ≤ 32767 ∧ TTSane ({} : SState).tt := ⟨inwin_root, by decide, ttSane_empty⟩

/-! ### C13b, closed -/

/-- C13b's no-collision hypothesis, asked only on the positions the search really reaches -/
def NoCollisionGen (K : Keys) (root : Pos) : Prop :=
  ∀ p, GenReach K root p → MateHash K root p.hash → NoLegal K p

theorem noCollisionGen_of_noCollision (K : Keys) (root : Pos) (h : NoCollision K root) : NoCollisionGen K root :=
  fun p hp hh => h p (GR.genReach_searchReach K root p hp) hh

/-- the class of the mate theorems, for a legal root with legal material -/
theorem mateClass_closed (K : Keys) (root : Pos) (hw : WF root = true) (hmat : LegalMaterial root)
    (hc : NoCollisionGen K root) : MateClass K (GenReach K root) (MateHash K root) :=
  GR.genReach_mateClass K root hw hmat _ hc

/-- C13b `searchRoot_mate_in_one`, closed: `EvalBounded` and `hlow` discharged from `WF root`, `LegalMaterial root` -/
theorem searchRoot_mate_in_one_closed (K : Keys) (root : Pos) (hw : WF root = true) (hmat : LegalMaterial root)
    (d : Nat) (hd : 1 ≤ d) (hd2 : d ≤ 254) (s s' : SState) (v : Int) (pv : Option (List Move)) (hm : ∃ m, Mates K root m)
    (hc : NoCollisionGen K root) (hinv : TableInv K root s) (h : searchRoot K root d (-INF) INF s = (.ok (v, pv), s')) :
    v = INF - 1 ∧ (∃ m rest, pv = some (m :: rest) ∧ Mates K root (m % 65536)) ∧ TableInv K root s' := by
  have := posti_searchRoot_mate K _ root (mateClass_closed K root hw hmat hc) GenReach.root
    (fun g hg => (GM.genMoves_shape root hw g hg).no_score) hm d hd hd2 s (v, pv) s' hinv h
  exact ⟨this.2.1, this.2.2, this.1⟩

/-- every root search with a window in `InWin` keeps `TableInv`, after every outcome -/
theorem searchRoot_keeps_tableInv_closed (K : Keys) (root : Pos) (hw : WF root = true) (hmat : LegalMaterial root)
    (d : Nat) (a b : Int) (hwin : InWin a b) (hc : NoCollisionGen K root) (s : SState) (hinv : TableInv K root s) :
    TableInv K root (searchRoot K root d a b s).2 :=
  (posta_searchRoot_inv K _ root (mateClass_closed K root hw hmat hc) GenReach.root _
    (tinv_tblInv (mateClass_closed K root hw hmat hc)) d a b hwin s hinv).1

/-- C13b `search_plays_mate` with `EvalBounded K root` (and `hlow`) discharged from `WF root`, `LegalMaterial root`: `search`
answers with a mating move whenever it returns, for every cancellation point and every table in `TableInv`; the pv of the final
state starts with the answer and the table invariant holds again.  `NoCollisionGen` stays (it is needed: C13b). -/
theorem search_plays_mate_closed (K : Keys) (root : Pos) (pvStr : Move → String) (depthParam : Nat) (hdp : depthParam ≤ 254)
    (hw : WF root = true) (hmat : LegalMaterial root) (hm : ∃ m, Mates K root m) (hc : NoCollisionGen K root)
    (s s' : SState) (best : Move) (hinv : TableInv K root s) (hpv : s.pv = [])
    (h : search K root pvStr depthParam s = (.ok best, s')) :
    Mates K root (best % 65536) ∧ (∃ rest, s'.pv = best :: rest) ∧ TableInv K root s' := by
  have hC := mateClass_closed K root hw hmat hc
  obtain ⟨h1, h2, h3⟩ := search_mate K _ root hC GenReach.root _ (tinv_tblInv hC) (fun _ h => h)
    (fun g hg => (GM.genMoves_shape root hw g hg).no_score) hm pvStr depthParam hdp s s' best hinv hpv h
  refine ⟨h1, ?_, h3⟩
  obtain ⟨m0, rest, e, _⟩ := h2
  have hb : best = s'.pv.getD 0 0 := by
    obtain ⟨s1, _, hcases⟩ := search_cases K root pvStr depthParam s best s' h
    rcases hcases with ⟨_, hs', hmm⟩ | ⟨_, _, hmm⟩
    · rw [hmm, hs']
    · exact hmm
  refine ⟨rest, ?_⟩
  rw [hb, e]
  rfl

/-- the same with C13b's `NoCollision` (over `SearchReach`) -/
theorem search_plays_mate_closed' (K : Keys) (root : Pos) (pvStr : Move → String) (depthParam : Nat) (hdp : depthParam ≤ 254)
    (hw : WF root = true) (hmat : LegalMaterial root) (hm : ∃ m, Mates K root m) (hc : NoCollision K root)
    (s s' : SState) (best : Move) (hinv : TableInv K root s) (hpv : s.pv = [])
    (h : search K root pvStr depthParam s = (.ok best, s')) :
    Mates K root (best % 65536) ∧ (∃ rest, s'.pv = best :: rest) ∧ TableInv K root s' :=
  search_plays_mate_closed K root pvStr depthParam hdp hw hmat hm (noCollisionGen_of_noCollision K root hc) s s' best hinv hpv h

/-- clean table -/
theorem search_plays_mate_closed_clean (K : Keys) (root : Pos) (pvStr : Move → String) (depthParam : Nat) (hdp : depthParam ≤ 254)
    (hw : WF root = true) (hmat : LegalMaterial root) (hm : ∃ m, Mates K root m) (hc : NoCollisionGen K root)
    (s s' : SState) (best : Move) (hclean : s.tt = {}) (hpv : s.pv = [])
    (h : search K root pvStr depthParam s = (.ok best, s')) : Mates K root (best % 65536) :=
  (search_plays_mate_closed K root pvStr depthParam hdp hw hmat hm hc s s' best (tableInv_clean K root s hclean) hpv h).1

/- Satisfiability.  `hw`, `hmat`: see above.  `hm`, `hc`, `h` speak about `genMoves` / `isInCheck` / the search: as in C13b the
evidence is `#eval` on the compiled model (back rank `6k1/5ppp/8/8/8/8/5PPP/R5K1 w - - 0 1`: `search realKeys p pvStr 3 {}` =
`ok 855552`, `855552 % 65536 = 3584` = a1a8).  What the kernel can check: -/
example (K : Keys) (root : Pos) : TableInv K root {} ∧ ({} : SState).pv = [] ∧ (3 : Nat) ≤ 254 :=
  ⟨tableInv_clean K root {} rfl, rfl, by decide⟩

end Clemens
