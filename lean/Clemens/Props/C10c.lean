import Clemens.Model.Pos
import Clemens.Model.Eval
import Clemens.Gen.Src
import Clemens.Proofs.TieTac
/-
Tie T1 for the piece/colour/square arithmetic of `pkg/types` and for `evaluation.IsCheckmateValue`: the definitions
regenerated from the Go source text agree with the model functions on the values that occur (piece codes < 16, colours 0/1).
-/
namespace Clemens
open Src

-- only the fallback `tie_tac` (64 bit positions of a rewritten definition) needs more than the default budget; the `rfl` path does not
set_option maxHeartbeats 1000000

theorem tie_switchColor (c : Nat) (hc : c < 256) : (types.SwitchColor (BitVec.ofNat 8 c)).toNat = switchColor c := by
  first
  | tie_budget 400000 (
     have : ∀ c : Fin 256, (types.SwitchColor (BitVec.ofNat 8 c.val)).toNat = switchColor c.val := by decide +kernel
     exact this ⟨c, hc⟩)
  | tie_tac

theorem tie_pieceColor (p : Nat) (hp : p < 256) : (types.Piece_Color (BitVec.ofNat 8 p)).toNat = pieceColor p := by
  first
  | tie_budget 400000 (
     have : ∀ p : Fin 256, (types.Piece_Color (BitVec.ofNat 8 p.val)).toNat = pieceColor p.val := by decide +kernel
     exact this ⟨p, hp⟩)
  | tie_tac

theorem tie_pieceType (p : Nat) (hp : p < 256) : (types.Piece_Type (BitVec.ofNat 8 p)).toNat = pieceType p := by
  first
  | tie_budget 400000 (
     have : ∀ p : Fin 256, (types.Piece_Type (BitVec.ofNat 8 p.val)).toNat = pieceType p.val := by decide +kernel
     exact this ⟨p, hp⟩)
  | tie_tac

theorem tie_newPiece (c t : Nat) (hc : c < 2) (ht : t < 6) :
    (types.NewPiece (BitVec.ofNat 8 c) (BitVec.ofNat 8 t)).toNat = newPiece c t := by
  first
  | tie_budget 400000 (
     have : ∀ c : Fin 2, ∀ t : Fin 6, (types.NewPiece (BitVec.ofNat 8 c.val) (BitVec.ofNat 8 t.val)).toNat = newPiece c.val t.val := by decide +kernel
     exact this ⟨c, hc⟩ ⟨t, ht⟩)
  | tie_tac

theorem tie_squareFromRankAndFile (r f : Nat) (hr : r < 8) (hf : f < 8) :
    (types.SquareFromRankAndFile (BitVec.ofNat 8 r) (BitVec.ofNat 8 f)).toNat = r * 8 + f := by
  first
  | tie_budget 400000 (
     have : ∀ r : Fin 8, ∀ f : Fin 8, (types.SquareFromRankAndFile (BitVec.ofNat 8 r.val) (BitVec.ofNat 8 f.val)).toNat = r.val * 8 + f.val := by decide +kernel
     exact this ⟨r, hr⟩ ⟨f, hf⟩)
  | tie_tac

/-- `IsCheckmateValue`: the regenerated definition (signed 16-bit comparisons) is the model's (comparisons on `Int`) -/
theorem tie_isCheckmateValue (v : BitVec 16) : evaluation.IsCheckmateValue v = isCheckmateValue v.toInt := by
  have h1 : (BitVec.ofInt 16 (-32667)).toInt = -32667 := by decide
  have h2 : (32667#16 : BitVec 16).toInt = 32667 := by decide
  have hI : INF = 32767 := by decide
  have hM : maxPlies = 100 := by decide
  first
  | tie_budget 200000 (
      simp only [evaluation.IsCheckmateValue, isCheckmateValue, BitVec.slt, h1, h2, hI, hM]
      by_cases a : v.toInt < -32667 <;> by_cases b : 32667 < v.toInt <;> simp [a, b] <;> omega)
  | tie_tac

end Clemens
