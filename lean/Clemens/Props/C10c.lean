import Clemens.Model.Pos
import Clemens.Model.Eval
import Clemens.Gen.Src
/-
Tie T1 for the piece/colour/square arithmetic of `pkg/types` and for `evaluation.IsCheckmateValue`: the definitions
regenerated from the Go source text agree with the model functions on the values that occur (piece codes < 16, colours 0/1).
-/
namespace Clemens
open Src

theorem tie_switchColor (c : Nat) (hc : c < 256) : (types.SwitchColor (BitVec.ofNat 8 c)).toNat = switchColor c := by
  have : ∀ c : Fin 256, (types.SwitchColor (BitVec.ofNat 8 c.val)).toNat = switchColor c.val := by decide +kernel
  exact this ⟨c, hc⟩

theorem tie_pieceColor (p : Nat) (hp : p < 256) : (types.Piece_Color (BitVec.ofNat 8 p)).toNat = pieceColor p := by
  have : ∀ p : Fin 256, (types.Piece_Color (BitVec.ofNat 8 p.val)).toNat = pieceColor p.val := by decide +kernel
  exact this ⟨p, hp⟩

theorem tie_pieceType (p : Nat) (hp : p < 256) : (types.Piece_Type (BitVec.ofNat 8 p)).toNat = pieceType p := by
  have : ∀ p : Fin 256, (types.Piece_Type (BitVec.ofNat 8 p.val)).toNat = pieceType p.val := by decide +kernel
  exact this ⟨p, hp⟩

theorem tie_newPiece (c t : Nat) (hc : c < 2) (ht : t < 6) :
    (types.NewPiece (BitVec.ofNat 8 c) (BitVec.ofNat 8 t)).toNat = newPiece c t := by
  have : ∀ c : Fin 2, ∀ t : Fin 6, (types.NewPiece (BitVec.ofNat 8 c.val) (BitVec.ofNat 8 t.val)).toNat = newPiece c.val t.val := by decide +kernel
  exact this ⟨c, hc⟩ ⟨t, ht⟩

theorem tie_squareFromRankAndFile (r f : Nat) (hr : r < 8) (hf : f < 8) :
    (types.SquareFromRankAndFile (BitVec.ofNat 8 r) (BitVec.ofNat 8 f)).toNat = r * 8 + f := by
  have : ∀ r : Fin 8, ∀ f : Fin 8, (types.SquareFromRankAndFile (BitVec.ofNat 8 r.val) (BitVec.ofNat 8 f.val)).toNat = r.val * 8 + f.val := by decide +kernel
  exact this ⟨r, hr⟩ ⟨f, hf⟩

/-- `IsCheckmateValue`: the regenerated definition (signed 16-bit comparisons) is the model's (comparisons on `Int`) -/
theorem tie_isCheckmateValue (v : BitVec 16) : evaluation.IsCheckmateValue v = isCheckmateValue v.toInt := by
  have h1 : (BitVec.ofInt 16 (-32667)).toInt = -32667 := by decide
  have h2 : (32667#16 : BitVec 16).toInt = 32667 := by decide
  have hI : INF = 32767 := by decide
  have hM : maxPlies = 100 := by decide
  simp only [evaluation.IsCheckmateValue, isCheckmateValue, BitVec.slt, h1, h2, hI, hM]
  by_cases a : v.toInt < -32667 <;> by_cases b : 32667 < v.toInt <;> simp [a, b] <;> omega

end Clemens
