import Clemens.Proofs.FenTotal
/-
C11 — the FEN parser never panics.

`Res.panic` in the model stands for a Go run-time panic.  The only source of `.panic` inside
`parseFen` is `setPiece` returning `none` in `fenSetPieces`; the bounds check excludes a square
≥ 64, and the piece code 0 (the only invalid code `pieceFromChar` can produce) comes only from the
rune 32 = ' ', which cannot occur in a token produced by `splitBytes 32`.
Lemmas: Clemens/Proofs/FenTotal.lean.
-/
namespace Clemens

/-- Totality: for every byte string whatsoever the parser returns a position or an error — never a panic. -/
theorem parseFen_total (K : Keys) (b : Bytes) : parseFen K b ≠ .panic :=
  parseFen_ne_panic K b

/-- the three outcomes all occur short of a panic: the start position parses, garbage is an error
(also garbage that is not valid UTF-8 / contains multi-byte runes) -/
example : (match parseFen realKeys ("rnbqkbnr/pppppppp/8/8/8/8/PPPPPPPP/RNBQKBNR w KQkq - 0 1".toList.map Char.toNat) with
    | .ok _ => true | _ => false) = true := by decide +kernel
example : parseFen realKeys [32, 32, 32, 32, 32] = .error := by decide +kernel
example : parseFen realKeys ([0xE2, 0x99, 0x94, 0xFF, 0xC0] ++ " w KQkq - 0 1".toList.map Char.toNat) = .error := by
  decide +kernel
/-- the hypothesis "no byte 32 in the token" of the key lemma is necessary: the piece field routine
itself does panic on a blank (so the totality of `parseFen` really rests on `splitBytes`) -/
example (K : Keys) : fenSetPieces K [32] Pos.empty = .panic := by rfl

/-- no token of `strings.Split(s, sep)` contains the separator -/
theorem splitBytes_no_sep (sep : Nat) (b : Bytes) : ∀ t ∈ splitBytes sep b, sep ∉ t :=
  splitBytes_no_sep_aux sep b

example : splitBytes 32 [97, 32, 32, 98] = [[97], [], [98]] := by decide

/-- `types.SquareFromString` never panics, whatever the bytes -/
theorem squareFromString_total (s : Bytes) : squareFromString s ≠ .panic :=
  squareFromString_ne_panic s

example : squareFromString [101, 52] = .ok 28 := by decide
example : squareFromString [0xFF, 0xD9, 0xA3, 7] = .error := by decide

/-- `strconv.Atoi` is total (it is an `Option`-valued function in the model: there is no panic outcome);
what it returns, when it returns a value, is an `int64` -/
theorem atoi_total (s : Bytes) :
    atoi s = none ∨ ∃ v : Int, atoi s = some v ∧ -9223372036854775808 ≤ v ∧ v ≤ 9223372036854775807 :=
  atoi_none_or_int64 s

example : atoi [45, 49, 50] = some (-12) := by decide
example : atoi [49, 50, 120] = none := by decide

/-- the supporting facts named in the task, at property level -/
theorem decodeRune_32_only_from_byte_32 (s : Bytes) (h : (decodeRune s).1 = 32) : ∃ rest, s = 32 :: rest :=
  decodeRune_eq_32 s h

theorem pieceFromChar_valid (r pc : Nat) (h : pieceFromChar r = some pc) : pc = 0 ∨ validPiece pc = true :=
  pieceFromChar_some' r pc h

theorem setPiece_none_iff (K : Keys) (p : Pos) (pc sq : Nat) :
    setPiece K p pc sq = none ↔ ¬(sq < 64 ∧ validPiece pc = true) :=
  setPiece_eq_none_iff K p pc sq

end Clemens
