import Clemens.Props.C12a
import Clemens.Proofs.MagicAll
/-
C12 part B — the magic-bitboard lookup (`rook/bishop/queen.AttacksBySquare`) equals the ray walker on the relevant
part of the occupancy for every square and every one of the 2^64 occupancies; with C12a (`walker_exact`,
`reach_mask_*`) the slider attack sets are therefore exactly "reachable along an open line up to and including the
first blocker".

Structure of the proof (lemmas in `Clemens/Proofs/MagicCore.lean`):
  * symbolic, once: the recursive subset enumeration `subsetsDesc` lists `occ &&& mask` for every `occ`
    (`and_mask_mem`); a fill loop whose indices are pairwise distinct and in range stores `walker s sub` at
    `index sub` (`fill_getD_mem`); `index occ = index (occ &&& mask)`; soundness of the two Boolean checkers.
  * per square, kernel evaluation (`MagicRook0..7`, `MagicBishop`; 102400 + 5248 subsets): `magicCheck m = true`, i.e.
    Carry-Rippler `allSubsetsOf mask` = `subsetsDesc`, and the magic indices of all subsets are distinct and `< 2^popcount`.
  * for all 64 squares at once: the dumped masks are `magicMask walker s` and do not contain the origin.
No attack set is computed in the kernel.
-/
namespace Clemens

/-- the table lookup is the walker on the relevant part of the occupancy — for every square and all 2^64 occupancies -/
theorem rookAttacks_eq_walker (s : Nat) (hs : s < 64) (occ : BB) :
    rookAttacks s occ = rookWalker s (occ &&& magicMask rookWalker s) :=
  rookAttacks_eq_walker' s hs occ

theorem bishopAttacks_eq_walker (s : Nat) (hs : s < 64) (occ : BB) :
    bishopAttacks s occ = bishopWalker s (occ &&& magicMask bishopWalker s) :=
  bishopAttacks_eq_walker' s hs occ

-- (the examples evaluate only the walker / the geometric side in the kernel; the table side comes from the theorem —
--  evaluating `fillTable` itself in the kernel is what the whole construction avoids)
-- rook a1, blockers d1 and h8 (h8 is outside the relevance mask): a2..a8 + b1..d1
example : rookAttacks 0 (bit 3 ||| bit 63) = 0x010101010101010e#64 := by
  rw [rookAttacks_eq_walker 0 (by decide)]; decide +kernel
-- bishop c1, blocker e3: b2, a3, d2, e3
example : bishopAttacks 2 (bit 20) = 0x0000000000110a00#64 := by
  rw [bishopAttacks_eq_walker 2 (by decide)]; decide +kernel

/-- C12, sliders: the attack set equals the squares reachable along open lines up to and including the first blocker -/
theorem rookAttacks_exact (s t : Nat) (hs : s < 64) (ht : t < 64) (occ : BB) :
    (rookAttacks s occ).getLsbD t = Geo.reach rookDirs occ s t := by
  rw [rookAttacks_eq_walker s hs, reach_mask_rook s t occ hs ht]
  apply rookWalker_exact s t _ hs ht
  rw [BitVec.getLsbD_and, rook_mask_origin s hs, Bool.and_false]

theorem bishopAttacks_exact (s t : Nat) (hs : s < 64) (ht : t < 64) (occ : BB) :
    (bishopAttacks s occ).getLsbD t = Geo.reach bishopDirs occ s t := by
  rw [bishopAttacks_eq_walker s hs, reach_mask_bishop s t occ hs ht]
  apply bishopWalker_exact s t _ hs ht
  rw [BitVec.getLsbD_and, bishop_mask_origin s hs, Bool.and_false]

theorem queenAttacks_exact (s t : Nat) (hs : s < 64) (ht : t < 64) (occ : BB) :
    (queenAttacks s occ).getLsbD t = Geo.reach Dir.all occ s t := by
  unfold queenAttacks
  rw [BitVec.getLsbD_or, rookAttacks_exact s t hs ht, bishopAttacks_exact s t hs ht, dir_all_eq]
  unfold Geo.reach
  rw [List.any_append]

-- rook d4 with blockers f4, d7 and the origin itself occupied (unlike the walker, the lookup ignores the origin):
-- f4 (first blocker) is attacked, g4 behind it is not
example : (rookAttacks 27 (bit 27 ||| bit 29 ||| bit 51)).getLsbD 29 = true ∧
    (rookAttacks 27 (bit 27 ||| bit 29 ||| bit 51)).getLsbD 30 = false := by
  rw [rookAttacks_exact 27 29 (by decide) (by decide), rookAttacks_exact 27 30 (by decide) (by decide)]; decide +kernel
-- bishop c1, blocker e3: e3 attacked, f4 not
example : (bishopAttacks 2 (bit 20)).getLsbD 20 = true ∧ (bishopAttacks 2 (bit 20)).getLsbD 29 = false := by
  rw [bishopAttacks_exact 2 20 (by decide) (by decide), bishopAttacks_exact 2 29 (by decide) (by decide)]; decide +kernel
-- queen d1 on the initial position's occupancy: c2 (own pawn, first blocker) is in the set, b3 and d3 are not
example : (queenAttacks 3 0xffff00000000ffff#64).getLsbD 10 = true ∧
    (queenAttacks 3 0xffff00000000ffff#64).getLsbD 17 = false ∧ (queenAttacks 3 0xffff00000000ffff#64).getLsbD 19 = false := by
  rw [queenAttacks_exact 3 10 (by decide) (by decide), queenAttacks_exact 3 17 (by decide) (by decide),
    queenAttacks_exact 3 19 (by decide) (by decide)]; decide +kernel

end Clemens
