import Clemens.Proofs.SearchPost
/-
C04 — every PV is a legal line; the answer is the head of the last adopted PV.

`LegalLine` is defined in `Clemens/Proofs/SearchPost.lean` (namespace `Clemens`), exactly as in the task:

  inductive LegalLine (K : Keys) : Pos → List Move → Prop
    | nil (p) : LegalLine K p []
    | cons (p q m rest) : makeMove K p m = some q → isLegal q = true → (m % 65536) ∈ (genMoves p).map (· % 65536) →
        LegalLine K q rest → LegalLine K p (m :: rest)

(a line of engine moves that can be played one after the other, each passing the engine's legality filter, each being a
generated move up to its score bits).

All theorems hold for every content of the shared tables (TT, killers, history, counter moves, path, old pv) in the start state:
"whatever earlier searches left in the tables".  Proofs: `Clemens/Proofs/SearchPost.lean` (postcondition logic `Post`, the loop
invariant `StOK` of `nmLoop`, induction on the fuel).

## What is proved, and what is not

The task's `negamax_pv_legal` quantifies over *every* window `alpha beta : Int`.  In that generality it is FALSE in the model
(counterexample below).  The reason is in `nmLoop` (= the Go move loop): `bestMove` is only updated when `score > bestScore`,
`bestScore` starts at `-INF = -32767`, but the PV is written as `bestMove :: childPv` whenever `score > alpha`.  If `alpha < -INF`
a move may score in `(alpha, -INF]`: the PV is then written with the *old* `bestMove` (initially the null word 0).
The theorems below are therefore stated for windows `InWin alpha beta := -INF ≤ alpha ∧ alpha < INF ∧ -INF < beta ∧ beta ≤ INF`.
This class is closed under all the child windows the search derives (`(-β,-α)`, `(-α-1,-α)`, `(-β,-β+1)`, raised alpha),
it contains the full window `(-INF, INF)`, and no `alpha < beta` is needed.  Within `int16` the excluded windows are exactly
`alpha ∈ {-32768, 32767}` or `beta ∈ {-32768, -32767}`.

Counterexample to the unrestricted statement (evaluated with `#eval`, compiled code, in a scratch file):

  def poisonTT : TT :=           -- for every child of the start position an exact entry of depth 10 with score 32768
    (genMoves (startPos realKeys)).foldl (fun t m => match makeMove realKeys (startPos realKeys) m with
      | some q => ttSave t q.hash 0 10 32768 0 0 | none => t) {}
  #eval negamax realKeys 300 (startPos realKeys) (-32770) 32767 2 0 true 0 { tt := poisonTT }
    -- ok (-32767, some [0])   nodes=21 polls=22
  #eval (makeMove realKeys (startPos realKeys) 0).isSome      -- false: the "move" 0 (a1a1) cannot be made
  #eval (0 : Nat) ∈ (genMoves (startPos realKeys)).map (· % 65536)   -- false

so `negamax … = (.ok (-32767, some [0]), s')` and `¬ LegalLine realKeys (startPos realKeys) [0]`.  The window `(-32770, 32767)` and
the TT score `32768` are outside `int16`; the model accepts them because `alpha`, `beta` and `TTEntry.score` are `Int`.  Whether an
`int16` window outside `InWin` (e.g. `alpha = -32768`) with `int16` table contents can produce an illegal PV is left open: it
needs a child returning exactly `+32767`.

The iteration loop computes its aspiration window as `(w16 (score - 50), w16 (score + 50))` in wrapping `int16` arithmetic.  That
window is in `InWin`, or empty (`beta ≤ alpha + 1`, nothing can be adopted from it), for every adopted score except
`score = -32718` ("mated in 49 plies"), where it is `(-32768, -32668)`.  The loop-level theorems therefore carry the hypothesis
`hgood`: no root search returns exactly `-32718`.
-/
namespace Clemens
open SearchLemmas

example : InWin (-INF) INF := inwin_root
example : InWin (-50) 50 := by unfold InWin; rw [INF_eq]; omega
/-- wrapped-around aspiration windows (`alpha > beta`) are fine -/
example : InWin 32710 (-32726) := by unfold InWin; rw [INF_eq]; omega

/-! ### negamax -/

/- Full statement (false in general, see above):
theorem negamax_pv_legal (K fuel p alpha beta depth ply canNull prev) (s s' : SState) (v : Int) (pv : List Move)
    (h : negamax K fuel p alpha beta depth ply canNull prev s = (.ok (v, some pv), s')) : LegalLine K p pv
-/

/-- PARTIAL: added hypothesis `hw : InWin alpha beta` (the window avoids the `int16` boundary values; see the header).
For every state of the shared tables (TT, killers, history are arbitrary in `s`). -/
theorem negamax_pv_legal_partial (K : Keys) (fuel : Nat) (p : Pos) (alpha beta : Int) (depth ply : Nat) (canNull : Bool)
    (prev : Move) (hw : InWin alpha beta) (s s' : SState) (v : Int) (pv : List Move)
    (h : negamax K fuel p alpha beta depth ply canNull prev s = (.ok (v, some pv), s')) : LegalLine K p pv :=
  post_negamax K fuel p alpha beta depth ply canNull prev hw s (v, some pv) s' h pv rfl

/- The hypothesis `h` is satisfiable: `#eval negamax realKeys 300 (startPos realKeys) (-INF) INF 2 0 true 0 {}` gives
`ok (0, some [1153, 2745])` (nodes=104, polls=208).  No kernel-checked `example`: evaluating the search in the kernel unfolds the
magic attack tables. -/

/-- the loop lemma behind it, for an arbitrary `recur` whose PVs are legal lines on `InWin` windows: `nmLoop` keeps the invariant
`StOK` (window in range, `bestScore ≤ alpha`, PV slot legal) and returns a legal PV slot -/
theorem nmLoop_pv_legal (K : Keys) (recur : NegaFn)
    (hrec : ∀ q a b d pl cn pm, InWin a b → Post (fun r : NodeRes => PvOK K q r.2) (recur q a b d pl cn pm))
    (p : Pos) (beta : Int) (depth ply : Nat) (prev : Move) (fp : Bool) (l : List Move) (st : LoopSt)
    (hl : ∀ m ∈ l, m % 65536 ∈ (genMoves p).map (· % 65536)) (hst : StOK K p beta st)
    (s s' : SState) (st' : LoopSt) (h : nmLoop K recur p beta depth ply prev fp l st s = (.ok st', s')) (pv : List Move)
    (hpv : st'.pvl = some pv) : LegalLine K p pv :=
  post_nmLoop K recur hrec p beta depth ply prev fp l st hl hst s st' s' h pv hpv

example (K : Keys) (p : Pos) : StOK K p INF { alpha := -INF, bestScore := -INF } :=
  ⟨inwin_root, Int.le_refl _, pvok_none K p⟩

/-! ### root search -/

/- Full statement (false in general for the same reason as `negamax_pv_legal`; `searchRoot` is `negamax` at ply 0):
theorem searchRoot_pv_legal (K root depth alpha beta) (s s' : SState) (v : Int) (pv : List Move)
    (h : searchRoot K root depth alpha beta s = (.ok (v, some pv), s')) : LegalLine K root pv
-/

/-- PARTIAL: added hypothesis `hw : InWin alpha beta`. -/
theorem searchRoot_pv_legal_partial (K : Keys) (root : Pos) (depth : Nat) (alpha beta : Int) (hw : InWin alpha beta)
    (s s' : SState) (v : Int) (pv : List Move)
    (h : searchRoot K root depth alpha beta s = (.ok (v, some pv), s')) : LegalLine K root pv :=
  post_searchRoot K root depth alpha beta hw s (v, some pv) s' h pv rfl

/-- in particular with the full window `SearchIterative` starts every depth-1 search (and every re-search) with: no hypothesis -/
theorem searchRoot_pv_legal_full (K : Keys) (root : Pos) (depth : Nat) (s s' : SState) (v : Int) (pv : List Move)
    (h : searchRoot K root depth (-INF) INF s = (.ok (v, some pv), s')) : LegalLine K root pv :=
  searchRoot_pv_legal_partial K root depth (-INF) INF inwin_root s s' v pv h

/-! ### the iteration loop -/

/- Full statement:
theorem adopted_pv_legal (K root pvStr maxD) (s : SState) (h : LegalLine K root s.pv) :
    LegalLine K root (searchIterative K root pvStr maxD s).2.pv
-/

/-- PARTIAL: the `pv` field after `searchIterative` is a LegalLine from the root whenever it was a LegalLine (or empty) before.
Added hypothesis `hgood`: no root search returns the score `-32718` — the only adopted score whose wrapped aspiration window
`(w16 (score - 50), w16 (score + 50)) = (-32768, -32668)` is neither in `InWin` nor empty. -/
theorem adopted_pv_legal_partial (K : Keys) (root : Pos) (pvStr : Move → String) (maxD : Nat)
    (hgood : ∀ d a b s0 v pvl s1, searchRoot K root d a b s0 = (.ok (v, pvl), s1) → v ≠ -32718)
    (s : SState) (h : LegalLine K root s.pv) :
    LegalLine K root (searchIterative K root pvStr maxD s).2.pv := by
  unfold searchIterative
  exact go_pv_legal K root pvStr maxD hgood 2000 1 (-INF) INF s (Or.inl inwin_root) h

/-- the empty pv of a fresh search is a legal line -/
example (K : Keys) (root : Pos) : LegalLine K root ({} : SState).pv := LegalLine.nil root

/-- why `-32718` is the only exception: every other adopted score gives a window in `InWin`, or an empty one -/
theorem aspiration_window_ok {a b v : Int} (h : InWin a b) (h1 : a < v) (h2 : v < b) (hv : v ≠ -32718) :
    InWin (w16 (v - widenWindow)) (w16 (v + widenWindow)) ∨ w16 (v + widenWindow) ≤ w16 (v - widenWindow) + 1 :=
  winok_next h h1 h2 hv

example : ¬ InWin (w16 (-32718 - widenWindow)) (w16 (-32718 + widenWindow)) ∧
    ¬ w16 (-32718 + widenWindow) ≤ w16 (-32718 - widenWindow) + 1 := by
  rw [widenWindow_eq]; unfold InWin w16; rw [INF_eq]; omega

/-! ### `search` -/

/-- the move returned by `search` is the head of the pv of the final state (`0` when the pv is empty) — by definition -/
theorem search_answer_head (K : Keys) (root : Pos) (pvStr : Move → String) (d : Nat) (s s' : SState) (m : Move)
    (h : search K root pvStr d s = (.ok m, s')) : m = s'.pv.getD 0 0 := by
  obtain ⟨s1, _, hc⟩ := search_cases K root pvStr d s m s' h
  rcases hc with ⟨_, hs', hm⟩ | ⟨_, _, hm⟩
  · rw [hm, hs']
  · exact hm

/-- `search` never reports a cancellation: it ends `ok` (with the head of whatever pv was adopted) or with a Go panic -/
theorem search_not_cancelled (K : Keys) (root : Pos) (pvStr : Move → String) (d : Nat) (hd : d < 255) (s : SState) :
    (search K root pvStr d s).1 ≠ .cancelled := by
  intro hc
  unfold search at hc
  have hmd : (if d > 0 then d else maxDepth) < 255 := by
    split
    · exact hd
    · decide
  have h1 := searchIterative_not_cancelled' K root pvStr _ hmd s
  rw [bind_def] at hc
  rcases hr : searchIterative K root pvStr (if d > 0 then d else maxDepth) s with ⟨r, s1⟩
  rw [hr] at hc h1
  cases r with
  | cancelled => exact h1 rfl
  | panic => cases hc
  | ok u =>
    dsimp only at hc
    rw [bind_ok (SM.modify _) _ s1 { s1 with mainPolls := s1.polls } () rfl] at hc
    rw [bind_ok SM.get _ _ { s1 with mainPolls := s1.polls } { s1 with mainPolls := s1.polls } rfl] at hc
    dsimp only at hc
    split at hc
    · rw [bind_ok (SM.modify _) _ _ { s1 with mainPolls := s1.polls, cancelAt := none } () rfl] at hc
      have h2 := searchIterative_not_cancelled' K root pvStr 1 (by decide) { s1 with mainPolls := s1.polls, cancelAt := none }
      rw [bind_def] at hc
      rcases hr2 : searchIterative K root pvStr 1 { s1 with mainPolls := s1.polls, cancelAt := none } with ⟨r2, s2⟩
      rw [hr2] at hc h2
      cases r2 with
      | cancelled => exact h2 rfl
      | panic => cases hc
      | ok u2 => cases hc
    · cases hc

/- Full statement:
theorem answer_legal (K root pvStr d) (s s' : SState) (m : Move) (hs : s.pv = []) (h : search K root pvStr d s = (.ok m, s'))
    (hm : m ≠ 0) : ∃ rest, LegalLine K root (m :: rest)
-/

/-- PARTIAL (same added hypothesis `hgood` as `adopted_pv_legal_partial`): if `search` returns `m ≠ 0` from a state whose pv was
empty then `m` is the head of a LegalLine from the root: in particular `makeMove K root m` succeeds, the resulting position
passes `isLegal`, and `m` is a generated move up to its score bits -/
theorem answer_legal_partial (K : Keys) (root : Pos) (pvStr : Move → String) (d : Nat)
    (hgood : ∀ d a b s0 v pvl s1, searchRoot K root d a b s0 = (.ok (v, pvl), s1) → v ≠ -32718)
    (s s' : SState) (m : Move) (hs : s.pv = []) (h : search K root pvStr d s = (.ok m, s')) (hm : m ≠ 0) :
    ∃ rest, s'.pv = m :: rest ∧ LegalLine K root (m :: rest) := by
  obtain ⟨s1, h1, hc⟩ := search_cases K root pvStr d s m s' h
  have hl1 : LegalLine K root s1.pv := by
    have := adopted_pv_legal_partial K root pvStr (if d > 0 then d else maxDepth) hgood s (by rw [hs]; exact LegalLine.nil root)
    rw [h1] at this
    exact this
  rcases hc with ⟨_, hs', hmm⟩ | ⟨_, h2, hmm⟩
  · obtain ⟨rest, hrest⟩ := head_of_getD hmm hm
    refine ⟨rest, by rw [hs']; exact hrest, ?_⟩
    rw [← hrest]; exact hl1
  · have hl2 := adopted_pv_legal_partial K root pvStr 1 hgood { s1 with mainPolls := s1.polls, cancelAt := none } hl1
    rw [h2] at hl2
    obtain ⟨rest, hrest⟩ := head_of_getD hmm hm
    refine ⟨rest, hrest, ?_⟩
    rw [← hrest]; exact hl2

/-- what the answer's legality means concretely -/
theorem answer_playable (K : Keys) (root : Pos) (pvStr : Move → String) (d : Nat)
    (hgood : ∀ d a b s0 v pvl s1, searchRoot K root d a b s0 = (.ok (v, pvl), s1) → v ≠ -32718)
    (s s' : SState) (m : Move) (hs : s.pv = []) (h : search K root pvStr d s = (.ok m, s')) (hm : m ≠ 0) :
    ∃ q, makeMove K root m = some q ∧ isLegal q = true ∧ (m % 65536) ∈ (genMoves root).map (· % 65536) := by
  obtain ⟨rest, _, hl⟩ := answer_legal_partial K root pvStr d hgood s s' m hs h hm
  cases hl with
  | cons _ q _ _ hq hleg hmem _ => exact ⟨q, hq, hleg, hmem⟩

end Clemens
