import Clemens.Proofs.BoardViews
import Clemens.Proofs.MakeMoveShape
import Clemens.Proofs.Examples
/-
C10 — consistency of the board views.

The board array (`PiecesBoard`) and the twelve piece bitboards (`PiecesBitboard`) describe the same
placement, the aggregates are the unions (`wfShape`), and every primitive of the engine that edits a
position keeps it so.  `boardAgrees` (defined in `Clemens/Proofs/BoardViews.lean`) is the placement part:

  def boardAgrees (p : Pos) : Prop := ∀ s, s < 64 → (p.at s = 0 ∨ validPiece (p.at s) = true) ∧
    ∀ c t, c < 2 → t < 6 → ((p.pieces c t).getLsbD s = true ↔ p.at s = newPiece c t)

The theorems are proved in `Clemens/Proofs/BoardViews.lean` and `Clemens/Proofs/MakeMoveShape.lean`
(there the lemmas carry the suffix `_core`).
-/
namespace Clemens

open Ex

/-! ### the primitives -/

theorem setPiece_agrees (K : Keys) (p q : Pos) (pc s : Nat) (h : setPiece K p pc s = some q)
    (he : p.at s = 0) (ha : boardAgrees p) : boardAgrees q :=
  setPiece_agrees_core K p q pc s h he ha

/-- hypotheses satisfiable: a white pawn is put on e3 of the start position -/
example : (setPiece K0 (startPos K0) 1 20).isSome = true ∧ (startPos K0).at 20 = 0 ∧
    boardAgrees (startPos K0) :=
  ⟨by decide +kernel, by decide +kernel, agrees_of_wfShape_core _ (by decide +kernel)⟩

theorem deletePiece_agrees (K : Keys) (p q : Pos) (s pc : Nat) (h : deletePiece K p s = some (q, pc))
    (ha : boardAgrees p) : boardAgrees q :=
  deletePiece_agrees_core K p q s pc h ha

/-- hypotheses satisfiable: the e2 pawn of the start position is removed -/
example : (deletePiece K0 (startPos K0) 12).isSome = true ∧ boardAgrees (startPos K0) :=
  ⟨by decide +kernel, agrees_of_wfShape_core _ (by decide +kernel)⟩

theorem helperBitboards_agrees (p : Pos) (ha : boardAgrees p) : boardAgrees (helperBitboards p) :=
  helperBitboards_agrees_core p ha

/-- after helperBitboards the aggregates are the unions: together with boardAgrees this is wfShape -/
theorem wfShape_of_agrees (p : Pos) (ha : boardAgrees p) : wfShape (helperBitboards p) = true :=
  wfShape_of_agrees_core p ha

theorem agrees_of_wfShape (p : Pos) (hw : wfShape p = true) : boardAgrees p :=
  agrees_of_wfShape_core p hw

/-- `wfShape` is exactly `boardAgrees` plus the three aggregate equations -/
theorem wfShape_iff (p : Pos) : wfShape p = true ↔
    boardAgrees p ∧
    p.white = (List.range 6).foldl (fun acc t => acc ||| p.pieces 0 t) 0#64 ∧
    p.black = (List.range 6).foldl (fun acc t => acc ||| p.pieces 1 t) 0#64 ∧
    p.all = (p.white ||| p.black) :=
  wfShape_iff_core p

example : wfShape (startPos K0) = true ∧ wfShape castlePos = true := by decide +kernel

/-- disjointness of the twelve sets follows from agreement -/
theorem pieces_disjoint (p : Pos) (ha : boardAgrees p) (c t c' t' : Nat) (hc : c < 2) (ht : t < 6)
    (hc' : c' < 2) (ht' : t' < 6) (hne : (c, t) ≠ (c', t')) : p.pieces c t &&& p.pieces c' t' = 0#64 :=
  pieces_disjoint_core p ha c t c' t' hc ht hc' ht' hne

/-! ### `MakeMove` and the null move -/

/-- every move the model can make (no panic) from a consistent position gives a consistent position.
Side condition, only for a word of kind 3 (castling): the rook's destination square `t` is empty, or is the
square the king itself leaves, or already holds the same piece as the rook's square `f`.
(`castlingRookSquares = [(2,0,3),(6,7,5),(58,56,59),(62,63,61)]`: king target, rook from, rook to.)
`makeMove_wfShape_hfree_necessary` below shows that this condition cannot be weakened. -/
theorem makeMove_wfShape (K : Keys) (p q : Pos) (m : Move) (h : makeMove K p m = some q)
    (hw : wfShape p = true) (_hside : p.side < 2)
    (hfree : m.kind = 3 → ∀ f t, (m.tgt, f, t) ∈ castlingRookSquares →
      p.at t = 0 ∨ m.src = t ∨ p.at t = p.at f) : wfShape q = true :=
  makeMove_agrees_core K p q m h (agrees_of_wfShape_core p hw) hfree

/-- the side condition in the form of C09: for a castling move the rook's destination is empty -/
theorem makeMove_wfShape_of_empty (K : Keys) (p q : Pos) (m : Move) (h : makeMove K p m = some q)
    (hw : wfShape p = true) (hside : p.side < 2)
    (hfree : m.kind = 3 → ∀ f t, (m.tgt, f, t) ∈ castlingRookSquares → p.at t = 0) : wfShape q = true :=
  makeMove_wfShape K p q m h hw hside (fun hk f t hft => Or.inl (hfree hk f t hft))

/-- a move that is not a castling word needs no side condition at all -/
theorem makeMove_wfShape_of_not_castling (K : Keys) (p q : Pos) (m : Move) (h : makeMove K p m = some q)
    (hw : wfShape p = true) (hside : p.side < 2) (hk : m.kind ≠ 3) : wfShape q = true :=
  makeMove_wfShape K p q m h hw hside (fun hk' => absurd hk' hk)

/-- hypotheses satisfiable: 1. e4 from the start position, and white O-O in `castlePos` (f1 empty) -/
example : (makeMove K0 (startPos K0) (Move.mk 12 28 0)).isSome = true ∧ wfShape (startPos K0) = true ∧
    (startPos K0).side < 2 ∧ Move.kind (Move.mk 12 28 0) ≠ 3 := by decide +kernel
example : (makeMove K0 castlePos moveOO).isSome = true ∧ wfShape castlePos = true ∧ castlePos.side < 2 ∧
    Move.kind moveOO = 3 ∧ (∀ f t, (Move.tgt moveOO, f, t) ∈ castlingRookSquares → castlePos.at t = 0) := by
  refine ⟨by decide +kernel, by decide +kernel, by decide +kernel, by decide +kernel, ?_⟩
  intro f t h
  simp only [castlingRookSquares, List.mem_cons, Prod.mk.injEq, List.mem_nil_iff, or_false] at h
  have e : Move.tgt moveOO = 6 := by decide +kernel
  rw [e] at h
  obtain ⟨_, rfl⟩ : f = 7 ∧ t = 5 := by omega
  decide +kernel

/-- the side condition of `makeMove_wfShape` is minimal: whenever a castling word is executed from a consistent
position and the result is consistent, the condition held. -/
theorem makeMove_wfShape_hfree_necessary (K : Keys) (p q : Pos) (m : Move) (h : makeMove K p m = some q)
    (hw : wfShape p = true) (hq : wfShape q = true) :
    m.kind = 3 → ∀ f t, (m.tgt, f, t) ∈ castlingRookSquares → p.at t = 0 ∨ m.src = t ∨ p.at t = p.at f :=
  makeMove_hfree_necessary K p q m h (agrees_of_wfShape_core p hw) (agrees_of_wfShape_core q hq)

/-- … so for an executed move from a consistent position, consistency of the result is equivalent to it -/
theorem makeMove_wfShape_iff (K : Keys) (p q : Pos) (m : Move) (h : makeMove K p m = some q)
    (hw : wfShape p = true) (hside : p.side < 2) :
    wfShape q = true ↔ (m.kind = 3 → ∀ f t, (m.tgt, f, t) ∈ castlingRookSquares →
      p.at t = 0 ∨ m.src = t ∨ p.at t = p.at f) :=
  ⟨makeMove_wfShape_hfree_necessary K p q m h hw, makeMove_wfShape K p q m h hw hside⟩

/-- the side condition is really needed: in `blockedPos` (as `castlePos`, with a white bishop on f1) the model
executes the word O-O without panic and the result is inconsistent (f1 is in the rook set and the bishop set). -/
example : wfShape blockedPos = true ∧ blockedPos.side < 2 ∧
    (makeMove K0 blockedPos moveOO).isSome = true ∧
    (makeMove K0 blockedPos moveOO).all (fun q => !wfShape q) = true := by decide +kernel

theorem makeNull_wfShape (K : Keys) (p : Pos) (hw : wfShape p = true) : wfShape (makeNull K p).1 = true := by
  rw [← hw]
  unfold makeNull
  simp only
  split <;> exact wfShape_congr rfl rfl rfl rfl rfl

example : wfShape (startPos K0) = true := by decide +kernel

end Clemens
