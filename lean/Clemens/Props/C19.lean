import Clemens.Proofs.Order
/-
C19 — move ordering only reorders.

`scoreMoves` writes only the score bits (bits 16..31) of each move word, and the selection sort the
search drives through `SortIndex(i); Get(i)` visits a permutation of the scored list in
non-increasing score order.  All statements are for lists of any length, arbitrary move words and
arbitrary heuristic state.  Proofs are in `Clemens/Proofs/Order.lean`.
-/
namespace Clemens

/-! ### the score field of a move word -/

theorem setScore_low (m : Move) (s : Nat) : (m.setScore s) % 65536 = m % 65536 :=
  OrderLemmas.setScore_low m s

example : (Move.setScore (Move.mk 12 28 0) 650) % 65536 = Move.mk 12 28 0 := by decide

theorem score_setScore (m : Move) (hm : m < 65536) (s : Nat) : (m.setScore s).score = s % 65536 :=
  OrderLemmas.score_setScore m hm s

example : Move.mk 12 28 0 < 65536 ∧ (Move.setScore (Move.mk 12 28 0) 70650).score = 5114 := by decide

/-! ### `SortIndex` -/

theorem bestIndex_ge (l : List Move) (i : Nat) : i ≤ bestIndex l i :=
  OrderLemmas.bestIndex_ge l i

theorem bestIndex_lt (l : List Move) (i : Nat) (h : i < l.length) : bestIndex l i < l.length :=
  OrderLemmas.bestIndex_lt l i h

/-- the element SortIndex brings to position i has the maximal score among positions ≥ i -/
theorem bestIndex_max (l : List Move) (i j : Nat) (hi : i ≤ j) (hj : j < l.length) :
    (l.getD j 0).score ≤ (l.getD (bestIndex l i) 0).score :=
  OrderLemmas.bestIndex_max l i j hi hj

/-- five scored moves (scores 5 9 5 7 9): from position 1 the first maximum (index 1) is kept, from
position 2 the scan finds index 4 -/
example :
    let l : List Move := [Move.setScore 1 5, Move.setScore 2 9, Move.setScore 3 5, Move.setScore 4 7, Move.setScore 5 9]
    bestIndex l 0 = 1 ∧ bestIndex l 2 = 4 ∧ 2 ≤ 3 ∧ 3 < l.length ∧
      (l.getD 3 0).score = 7 ∧ (l.getD (bestIndex l 2) 0).score = 9 := by decide

theorem sortIndex_perm (l : List Move) (i : Nat) : (sortIndex l i).Perm l :=
  OrderLemmas.sortIndex_perm l i

theorem sortIndex_length (l : List Move) (i : Nat) : (sortIndex l i).length = l.length :=
  OrderLemmas.sortIndex_length l i

example :
    sortIndex [Move.setScore 1 5, Move.setScore 2 9, Move.setScore 3 5, Move.setScore 4 7, Move.setScore 5 9] 2
      = [Move.setScore 1 5, Move.setScore 2 9, Move.setScore 5 9, Move.setScore 4 7, Move.setScore 3 5] := by decide

/-! ### the visiting order -/

/-- visiting = selection sort: nothing lost, duplicated or altered … -/
theorem visitOrder_perm (l : List Move) : (visitOrder l).Perm l :=
  (OrderLemmas.visitOrder_spec l).1

/-- … and visited in non-increasing score order, for lists of any length and any scores -/
theorem visitOrder_sorted (l : List Move) : (visitOrder l).Pairwise (fun a b => b.score ≤ a.score) :=
  (OrderLemmas.visitOrder_spec l).2

/-- ties are visited in the order the swaps leave them (the sort is not stable: 3 and 1 change places) -/
example :
    visitOrder [Move.setScore 1 5, Move.setScore 2 9, Move.setScore 3 5, Move.setScore 4 7, Move.setScore 5 9]
      = [Move.setScore 2 9, Move.setScore 5 9, Move.setScore 4 7, Move.setScore 3 5, Move.setScore 1 5] := by decide

/-! ### `scoreMoves` -/

/-- scoring changes only the score bits, for every heuristic state (pv/tt move, killers, history, counter moves arbitrary) -/
theorem scoreMoves_low (p : Pos) (h : Heur) (pv tt : Move) (ply : Nat) (l l' : List Move)
    (hs : scoreMoves p h pv tt ply l = some l') : l'.map (· % 65536) = l.map (· % 65536) :=
  OrderLemmas.scoreMoves_low p h pv tt ply l l' hs

/-- the main statement of C19: the visited moves, stripped of their score bits, are a permutation of the generated moves -/
theorem visit_scored_perm (p : Pos) (h : Heur) (pv tt : Move) (ply : Nat) (l l' : List Move)
    (hs : scoreMoves p h pv tt ply l = some l') : ((visitOrder l').map (· % 65536)).Perm (l.map (· % 65536)) := by
  rw [← scoreMoves_low p h pv tt ply l l' hs]
  exact (visitOrder_perm l').map _

/-- white pawn e4, white knight g1, black queen d5 -/
def C19.exPos : Pos :=
  { Pos.empty with board := ((Vector.replicate 64 0).set 28 1 |>.set 35 13 |>.set 6 2) }

def C19.exHeur : Heur :=
  { killers := fun _ k => if k = 0 then Move.mk 6 21 0 else 0
    history := fun _ s t => s * 7 + t
    counter := fun _ _ _ => Move.mk 28 36 0 }

/-- e4e5 (history 232 + counter-move bonus 10), g1f3 (killer, 100), e4xd5 (MVV-LVA 150 + 500), g1h3 (pv move, 1000) -/
def C19.exMoves : List Move := [Move.mk 28 36 0, Move.mk 6 21 0, Move.mk 28 35 0, Move.mk 6 23 0]

/-- the hypothesis of `scoreMoves_low` / `visit_scored_perm` holds on a list exercising the pv, capture,
killer and history/counter-move branches; the visit order is pv, capture, quiet, killer -/
example : (scoreMoves C19.exPos C19.exHeur (Move.mk 6 23 0) 0 3 C19.exMoves).isSome = true := by decide
/- with the ordering constants as they are at the time of writing the scored list is `[15862044, 6554950, 42600668, 65537478]`, visited with the scores
`[1000, 650, 242, 100]` (pv move, capture, quiet move with history, killer).  The numbers are not pinned by an `example`: the ordering constants are tuning
parameters regenerated from the running code, and the theorems hold for any values of them. -/
example : ∀ l', scoreMoves C19.exPos C19.exHeur (Move.mk 6 23 0) 0 3 C19.exMoves = some l' →
    ((visitOrder l').map (· % 65536)).Perm (C19.exMoves.map (· % 65536)) ∧ (visitOrder l').Pairwise (fun a b => b.score ≤ a.score) := by
  intro l' h
  exact ⟨by
    have h1 := (visitOrder_perm l').map (· % 65536)
    rw [scoreMoves_low _ _ _ _ _ _ _ h] at h1
    exact h1, visitOrder_sorted l'⟩

/-! ### generated moves carry no score bits -/

/-- generated moves carry no score bits (so stripping is the identity on them): every word built by Move.mk / withPromo from squares < 64 is < 65536 -/
theorem mk_lt (s t k : Nat) (hs : s < 64) (ht : t < 64) (hk : k < 4) : Move.mk s t k < 16384 :=
  OrderLemmas.mk_lt s t k hs ht hk

example : Move.mk 63 63 3 = 16383 := by decide

theorem withPromo_lt (s t pt : Nat) (hs : s < 64) (ht : t < 64) (hp : 1 ≤ pt ∧ pt ≤ 4) : (Move.mk s t 1).withPromo pt < 65536 :=
  OrderLemmas.withPromo_lt s t pt hs ht hp

example : (Move.mk 63 63 1).withPromo 4 = 57343 ∧ ((Move.mk 52 60 1).withPromo 4).promo = 4 := by decide

end Clemens
