import Clemens.Props.C18b
import Clemens.Props.C04d
import Clemens.Proofs.SeeMen
/-
C18c (task P18c) — C18 for legal positions, without the explicit bound on the number of men.

`see_sign_spec_partial` (C18b) carries the hypothesis `hcount : popcount p.all ≤ 32`, without which the statement is false (the
model's loop handles at most 31 capturers; see the FINDING in C18b).  For the positions that occur in chess the bound follows from
legal material (`LegalMaterial`, C15: at most 16 men per side) and the view consistency contained in `WF`:

  `men_le_32`            `popcount p.all` is the sum of the twelve popcounts of the piece sets (`P18c.popcount_all_eq`,
                         Proofs/SeeMen.lean: a square is in `p.all` iff the board array shows a piece there, a non-zero code of a
                         consistent board is one of the twelve valid codes, and the popcount of a piece set is the number of squares
                         showing its code, `GR.popcount_eq_cnt`), hence at most 16 + 16;
  `see_sign_spec_legal`  C18b with `hcount` discharged by `men_le_32`;
  `see_sign_spec_reach`  … for every position reached from a legal root with legal material by generated moves and null moves
                         (`GenReach`; `genReach_WF`, `genReach_material` of C04d).
-/
namespace Clemens

/-- the number of men is the sum of the twelve popcounts of the piece sets (only the view consistency `wfShape` is needed) -/
theorem men_eq_sum (p : Pos) (hw : WF p = true) :
    popcount p.all =
      (popcount (p.pieces 0 PAWN) + popcount (p.pieces 0 KNIGHT) + popcount (p.pieces 0 BISHOP)
        + popcount (p.pieces 0 ROOK) + popcount (p.pieces 0 QUEEN) + popcount (p.pieces 0 KING))
      + (popcount (p.pieces 1 PAWN) + popcount (p.pieces 1 KNIGHT) + popcount (p.pieces 1 BISHOP)
        + popcount (p.pieces 1 ROOK) + popcount (p.pieces 1 QUEEN) + popcount (p.pieces 1 KING)) :=
  P18c.popcount_all_eq p (GM.WF_parts p hw).1

/-- a legal position with legal material has at most 32 men -/
theorem men_le_32 (p : Pos) (hw : WF p = true) (hmat : LegalMaterial p) : popcount p.all ≤ 32 :=
  P18c.men_le_32 p (GM.WF_parts p hw).1 hmat

-- hypotheses satisfiable: the example position of C01a (10 men), the example position of C18 (6 men), the start position (32 men:
-- the bound is attained)
example : WF C01a.exPos = true ∧ LegalMaterial C01a.exPos := ⟨C01a.ex_WF, by decide +kernel⟩
example : popcount C01a.exPos.all ≤ 32 := men_le_32 _ C01a.ex_WF (by decide +kernel)
example : popcount C01a.exPos.all = 10 := by decide +kernel
example : WF c18ExamplePos = true ∧ LegalMaterial c18ExamplePos ∧ popcount c18ExamplePos.all = 6 :=
  ⟨C18b.ex_WF, by decide +kernel, by decide +kernel⟩
example : LegalMaterial (startPos realKeys) ∧ popcount (startPos realKeys).all = 32 := ⟨by decide +kernel, by decide +kernel⟩
-- `hmat` is needed: the counterexamples of C18b (56 and 53 men) satisfy `WF`; by `men_le_32` they have no legal material

/-- C18 for legal positions: for every legal non-en-passant capture of a legal position with legal material the engine's static
exchange evaluation is negative, zero or positive exactly when the specification's full minimax of the capture sequence is -/
theorem see_sign_spec_legal (K : Keys) (p : Pos) (hw : WF p = true) (hmat : LegalMaterial p) (m : Move) (hcap : p.at m.tgt ≠ 0)
    (hkind : m.kind ≠ 2) (hgen : m ∈ genMoves p) (q : Pos) (hq : makeMove K p m = some q) (hlegal : isLegal q = true)
    (v : Int) (hv : see p m = some v) :
    Fide.signOf v = Fide.signOf (Fide.see pieceValue (absPos p) m.src m.tgt) :=
  see_sign_spec_partial K p hw m hcap hkind hgen q hq hlegal (men_le_32 p hw hmat) v hv

-- all hypotheses hold together for a concrete capture (`C18b.ex_hyps`: Rd2xd5 in the example position of C18, `see` gives
-- `c18ExampleSee` (currently 910), the specification `c18ExampleSpec` (currently 500))
example (K : Keys) : ∃ m q v, WF c18ExamplePos = true ∧ LegalMaterial c18ExamplePos ∧ c18ExamplePos.at m.tgt ≠ 0 ∧ m.kind ≠ 2 ∧
    m ∈ genMoves c18ExamplePos ∧ makeMove K c18ExamplePos m = some q ∧ isLegal q = true ∧ see c18ExamplePos m = some v ∧
    v = c18ExampleSee ∧ Fide.signOf v = Fide.signOf (Fide.see pieceValue (absPos c18ExamplePos) m.src m.tgt) := by
  obtain ⟨m, q, v, hw, hcap, hk2, hm, hq, hleg, _, hv, _, _, hv9⟩ := C18b.ex_hyps K
  have hmat : LegalMaterial c18ExamplePos := by decide +kernel
  exact ⟨m, q, v, hw, hmat, hcap, hk2, hm, hq, hleg, hv, hv9,
    see_sign_spec_legal K _ hw hmat m hcap hk2 hm q hq hleg v hv⟩

/-- along every line of play: for every position reached from a legal root with legal material by generated moves and null moves -/
theorem see_sign_spec_reach (K : Keys) (root : Pos) (hw : WF root = true) (hmat : LegalMaterial root) (p : Pos)
    (hp : GenReach K root p) (m : Move) (hcap : p.at m.tgt ≠ 0) (hkind : m.kind ≠ 2) (hgen : m ∈ genMoves p) (q : Pos)
    (hq : makeMove K p m = some q) (hlegal : isLegal q = true) (v : Int) (hv : see p m = some v) :
    Fide.signOf v = Fide.signOf (Fide.see pieceValue (absPos p) m.src m.tgt) :=
  see_sign_spec_legal K p (genReach_WF K root hw p hp) (genReach_material K root hw hmat p hp) m hcap hkind hgen q hq hlegal v hv

/-- … in particular every position on such a line has at most 32 men -/
theorem genReach_men_le_32 (K : Keys) (root : Pos) (hw : WF root = true) (hmat : LegalMaterial root) (p : Pos)
    (hp : GenReach K root p) : popcount p.all ≤ 32 :=
  men_le_32 p (genReach_WF K root hw p hp) (genReach_material K root hw hmat p hp)

-- hypotheses satisfiable: the capture above, with the position as its own root …
example (K : Keys) : ∃ root p m q v, WF root = true ∧ LegalMaterial root ∧ GenReach K root p ∧ p.at m.tgt ≠ 0 ∧ m.kind ≠ 2 ∧
    m ∈ genMoves p ∧ makeMove K p m = some q ∧ isLegal q = true ∧ see p m = some v ∧
    Fide.signOf v = Fide.signOf (Fide.see pieceValue (absPos p) m.src m.tgt) := by
  obtain ⟨m, q, v, hw, hcap, hk2, hm, hq, hleg, _, hv, _, _, _⟩ := C18b.ex_hyps K
  have hmat : LegalMaterial c18ExamplePos := by decide +kernel
  exact ⟨c18ExamplePos, c18ExamplePos, m, q, v, hw, hmat, GenReach.root, hcap, hk2, hm, hq, hleg, hv,
    see_sign_spec_reach K _ hw hmat _ GenReach.root m hcap hk2 hm q hq hleg v hv⟩
-- … and `GenReach` from a legal root with legal material contains positions other than the root (one move away from the example
-- position of C01a), which again have at most 32 men
example : ∃ q, q ≠ C01a.exPos ∧ GenReach realKeys C01a.exPos q ∧ popcount q.all ≤ 32 := by
  obtain ⟨m, q, hmq⟩ := C10b.ex_step
  obtain ⟨hm, hq, hl⟩ := (mem_engineLegal _ _ _ _).1 hmq
  have hr : GenReach realKeys C01a.exPos q := GenReach.move GenReach.root (List.mem_map_of_mem hm) hq hl
  refine ⟨q, ?_, hr, genReach_men_le_32 realKeys _ C01a.ex_WF (by decide +kernel) q hr⟩
  intro e
  have hs := makeMove_side realKeys _ _ _ hq
  rw [e, C01a.ex_side] at hs
  revert hs; decide

end Clemens
