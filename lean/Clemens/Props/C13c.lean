import Clemens.Props.C04d
/-
C13c — "a mate in one is played", closed: no class of positions and no evaluation bound is assumed any more.

`Props/C13b.lean` proves `search_plays_mate` under `EvalBounded K root` (the evaluation of every position the search reaches is outside the
mate range).  `Props/C04d.lean` (lemma libraries `Proofs/GenReach*.lean`) shows that the positions the search reaches by *generated* moves
and null moves from a legal root keep `WF` and `LegalMaterial`, on which C15 bounds the evaluation; the theorems are restated here for the
C13 obligations.  What remains are hypotheses about the root (a legal position with legal material, in which some move mates), the table
invariant `TableInv` (an invariant: it holds for the empty table and every search keeps it), a fresh `Search` object (`s.pv = []`) and the
absence of a 64-bit hash collision between a position the search reaches and a checkmated child (`NoCollisionGen`) — the last one is
genuinely needed: the transposition table identifies positions by their hash alone.
-/
namespace Clemens
open SearchLemmas P19

/-- for every root that is a legal position with legal material and has a mating move: whatever the depth limit, wherever the cancellation
lands (also before the first iteration completes) and whatever a table satisfying the invariant holds, `search` answers with a move
that mates; the invariant holds again afterwards -/
theorem c13_search_plays_mate (K : Keys) (root : Pos) (pvStr : Move → String) (depthParam : Nat) (hdp : depthParam ≤ 254)
    (hw : WF root = true) (hmat : LegalMaterial root) (hm : ∃ m, Mates K root m) (hc : NoCollisionGen K root)
    (s s' : SState) (best : Move) (hinv : TableInv K root s) (hpv : s.pv = [])
    (h : search K root pvStr depthParam s = (.ok best, s')) :
    Mates K root (best % 65536) ∧ (∃ rest, s'.pv = best :: rest) ∧ TableInv K root s' :=
  search_plays_mate_closed K root pvStr depthParam hdp hw hmat hm hc s s' best hinv hpv h

/-- from a clean table -/
theorem c13_search_plays_mate_clean (K : Keys) (root : Pos) (pvStr : Move → String) (depthParam : Nat) (hdp : depthParam ≤ 254)
    (hw : WF root = true) (hmat : LegalMaterial root) (hm : ∃ m, Mates K root m) (hc : NoCollisionGen K root)
    (s s' : SState) (best : Move) (hclean : s.tt = {}) (hpv : s.pv = [])
    (h : search K root pvStr depthParam s = (.ok best, s')) : Mates K root (best % 65536) :=
  search_plays_mate_closed_clean K root pvStr depthParam hdp hw hmat hm hc s s' best hclean hpv h

/-- the state hypotheses are satisfiable: the fresh search state; the root hypotheses: `C01a.exPos` (kernel-checked in C04d) -/
example (K : Keys) (root : Pos) : TableInv K root {} ∧ ({} : SState).pv = [] ∧ (3 : Nat) ≤ 254 :=
  ⟨tableInv_clean K root {} rfl, rfl, by decide⟩
example : WF C01a.exPos = true ∧ LegalMaterial C01a.exPos := ⟨C01a.ex_WF, by decide +kernel⟩

end Clemens
