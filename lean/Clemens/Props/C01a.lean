import Clemens.Proofs.GenMovesAttacked
/-
C01 part A — the pseudo-legal move generator (`GeneratePseudoLegalMoves`) is exact with respect to the
FIDE specification `Fide.pseudoMoves`: seen through `absMove` (the UCI meaning of a move word) the engine's
list and the specification's list contain the same moves, castling conditions included.

Everything is relative to a well-formed position (`WF p`).  The attack sets are the ones proved exact in C12a/C12b
(`rookAttacks_exact` … `pawnPushes_exact`); no attack table is ever evaluated.
The castling part needs the attack *query* `SquareAttackedBy` to be exact (C12d, `attackedBy_exact`).  That module is
not part of this copy, so
  * the `_partial` theorems take its statement as the explicit hypothesis `GM.AttackedByExact p`:
      ∀ c sq, c < 2 → sq < 64 → ((squareAttackedBy p sq &&& p.byColor c) != 0#64) = Fide.attacked (absPos p) c sq
    (with C12d in scope: `fun c sq hc hsq => attackedBy_exact p hshape c sq hc hsq`), and
  * the same statement is proved here from `wfShape` (`GM.attackedByExact_of_shape`, in
    `Clemens/Proofs/GenMovesAttacked.lean`), which makes the full theorems `canCastleNow_exact`, `genMoves_exact`
    unconditional.

Lemma libraries: `Clemens/Proofs/GenMovesBasic.lean` (squares, move words, `wfShape` square by square),
`GenMovesPieces.lean` (sliders, leapers), `GenMovesPawn.lean`, `GenMovesCastling.lean`, `GenMovesMain.lean`, `GenMovesNodup.lean`,
`GenMovesShape.lean` (`GenShape`), `GenMovesAttacked.lean`.
-/
namespace Clemens

/-! ### decoding of generated words -/

theorem absMove_mk (s t : Nat) (hs : s < 64) (ht : t < 64) (k : Nat) (hk : k = 0 ∨ k = 2 ∨ k = 3) :
    absMove (Move.mk s t k) = ⟨s, t, none⟩ := GM.absMove_mk' s t k hs ht hk

theorem absMove_promo (s t pt : Nat) (hs : s < 64) (ht : t < 64) (hp : 1 ≤ pt ∧ pt ≤ 4) :
    absMove ((Move.mk s t 1).withPromo pt) = ⟨s, t, some pt⟩ := GM.absMove_promo' s t pt hs ht hp.1 hp.2

-- e2e4 as a normal move, e5d6 as an en passant capture, b7a8 promoting to a queen
example : absMove (Move.mk 12 28 0) = ⟨12, 28, none⟩ ∧ absMove (Move.mk 36 43 2) = ⟨36, 43, none⟩ ∧
    absMove ((Move.mk 49 56 1).withPromo 4) = ⟨49, 56, some 4⟩ := by decide

/-! ### a concrete well-formed position (used in the `example`s): castling rights on both sides, an en passant
square, promotions with and without capture -/

/-- r1b1k2r/1P6/8/3pP3/8/8/8/R3K2R w KQkq d6 0 2 -/
def C01a.exBoard : List Nat :=
  [4, 0, 0, 0, 6, 0, 0, 4] ++ List.replicate 24 0 ++ [0, 0, 0, 9, 1, 0, 0, 0] ++ List.replicate 8 0 ++
  [0, 1, 0, 0, 0, 0, 0, 0] ++ [12, 0, 11, 0, 14, 0, 0, 12]

def C01a.exPos : Pos :=
  helperBitboards (boardToBitBoard { Pos.empty with
    board := (Vector.ofFn (n := 64) fun i => C01a.exBoard.getD i.val 0), side := 0, castling := 15, ep := 43, ply := 2 })

/-- the example position is well-formed.  (The check clause is evaluated on the ray walker: the attack tables are
replaced by `rookAttacks_eq_walker` / `bishopAttacks_eq_walker` before the kernel computes anything.) -/
theorem C01a.ex_WF : WF C01a.exPos = true := by
  have h1 : wfShape C01a.exPos = true := by decide +kernel
  have h2 : wfState C01a.exPos = true := by decide +kernel
  have h3 : wfChess C01a.exPos = true := by
    unfold wfChess isInCheck squareAttackedBy
    have hk : lsb (C01a.exPos.pieces (switchColor C01a.exPos.side) KING) = 60 := by decide +kernel
    simp only [hk]
    rw [rookAttacks_eq_walker 60 (by decide), bishopAttacks_eq_walker 60 (by decide)]
    decide +kernel
  unfold WF; rw [h1, h2, h3]; rfl

/-! ### per piece kind: the UCI moves of the engine's list are exactly the specification's -/

/-- the squares holding a piece of kind `k` of the side to move (in the specification's vocabulary) -/
abbrev ownSquares (P : Fide.Pos) (k : Nat) : List Nat := GM.ownSquares P k

example (P : Fide.Pos) (k : Nat) :
    ownSquares P k = (List.range 64).filter fun s => Fide.isOwn P P.side s && Fide.kindOf (P.at s) == k := rfl

theorem genHelper_exact_rook (p : Pos) (hw : WF p = true) : ∀ mv : Fide.Move,
    mv ∈ (genHelper (p.pieces p.side ROOK) (~~~p.byColor p.side) (fun s => rookAttacks s p.all)).map absMove ↔
    mv ∈ (ownSquares (absPos p) ROOK).flatMap fun s => Fide.sliderMoves (absPos p) s rookDirs := by
  intro mv
  obtain ⟨hsh, hst, _⟩ := GM.WF_parts p hw
  exact GM.genHelper_slider p hsh (GM.state_parts p hst).1 ROOK (by decide) rookDirs _
    (fun s hs t ht => rookAttacks_exact s t hs ht p.all) mv

theorem genHelper_exact_bishop (p : Pos) (hw : WF p = true) : ∀ mv : Fide.Move,
    mv ∈ (genHelper (p.pieces p.side BISHOP) (~~~p.byColor p.side) (fun s => bishopAttacks s p.all)).map absMove ↔
    mv ∈ (ownSquares (absPos p) BISHOP).flatMap fun s => Fide.sliderMoves (absPos p) s bishopDirs := by
  intro mv
  obtain ⟨hsh, hst, _⟩ := GM.WF_parts p hw
  exact GM.genHelper_slider p hsh (GM.state_parts p hst).1 BISHOP (by decide) bishopDirs _
    (fun s hs t ht => bishopAttacks_exact s t hs ht p.all) mv

theorem genHelper_exact_queen (p : Pos) (hw : WF p = true) : ∀ mv : Fide.Move,
    mv ∈ (genHelper (p.pieces p.side QUEEN) (~~~p.byColor p.side) (fun s => queenAttacks s p.all)).map absMove ↔
    mv ∈ (ownSquares (absPos p) QUEEN).flatMap fun s => Fide.sliderMoves (absPos p) s Dir.all := by
  intro mv
  obtain ⟨hsh, hst, _⟩ := GM.WF_parts p hw
  exact GM.genHelper_slider p hsh (GM.state_parts p hst).1 QUEEN (by decide) Dir.all _
    (fun s hs t ht => queenAttacks_exact s t hs ht p.all) mv

/-- the engine's attack lookup per slider kind -/
def sliderAttacksOf (t : Nat) (s : Nat) (occ : BB) : BB :=
  if t = ROOK then rookAttacks s occ else if t = BISHOP then bishopAttacks s occ else queenAttacks s occ

/-- sliders, one statement: `Fide.dirsOfKind t` is `bishopDirs`, `rookDirs`, `Dir.all` for t = 2, 3, 4 -/
theorem genHelper_exact_slider (p : Pos) (hw : WF p = true) (t : Nat) (ht : t = ROOK ∨ t = BISHOP ∨ t = QUEEN) :
    ∀ mv : Fide.Move,
    mv ∈ (genHelper (p.pieces p.side t) (~~~p.byColor p.side) (fun s => sliderAttacksOf t s p.all)).map absMove ↔
    mv ∈ (ownSquares (absPos p) t).flatMap fun s => Fide.sliderMoves (absPos p) s (Fide.dirsOfKind t) := by
  rcases ht with rfl | rfl | rfl
  · exact genHelper_exact_rook p hw
  · exact genHelper_exact_bishop p hw
  · exact genHelper_exact_queen p hw

theorem genHelper_exact_knight (p : Pos) (hw : WF p = true) : ∀ mv : Fide.Move,
    mv ∈ (genHelper (p.pieces p.side KNIGHT) (~~~p.byColor p.side) knightAttacks).map absMove ↔
    mv ∈ (ownSquares (absPos p) KNIGHT).flatMap fun s => Fide.leaperMoves (absPos p) s Geo.knightOffsets := by
  intro mv
  obtain ⟨hsh, hst, _⟩ := GM.WF_parts p hw
  exact GM.genHelper_leaper p hsh (GM.state_parts p hst).1 KNIGHT (by decide) Geo.knightOffsets _
    (fun s hs t ht => knightAttacks_exact s t hs ht) mv

theorem genHelper_exact_king (p : Pos) (hw : WF p = true) : ∀ mv : Fide.Move,
    mv ∈ (genHelper (p.pieces p.side KING) (~~~p.byColor p.side) kingAttacks).map absMove ↔
    mv ∈ (ownSquares (absPos p) KING).flatMap fun s => Fide.leaperMoves (absPos p) s Geo.kingOffsets := by
  intro mv
  obtain ⟨hsh, hst, _⟩ := GM.WF_parts p hw
  exact GM.genHelper_leaper p hsh (GM.state_parts p hst).1 KING (by decide) Geo.kingOffsets _
    (fun s hs t ht => kingAttacks_exact s t hs ht) mv

-- hypotheses satisfiable (example position; ROOK is one of the three slider kinds); there the rook a1 takes on a8
-- but does not go through to the h-file rook's squares, and the bishop-less side has no bishop moves
example : WF C01a.exPos = true ∧ (ROOK = ROOK ∨ ROOK = BISHOP ∨ ROOK = QUEEN) := ⟨C01a.ex_WF, Or.inl rfl⟩
example : (⟨0, 56, none⟩ : Fide.Move) ∈
      (genHelper (C01a.exPos.pieces C01a.exPos.side ROOK) (~~~C01a.exPos.byColor C01a.exPos.side)
        (fun s => rookAttacks s C01a.exPos.all)).map absMove ∧
    (⟨0, 4, none⟩ : Fide.Move) ∉
      (genHelper (C01a.exPos.pieces C01a.exPos.side ROOK) (~~~C01a.exPos.byColor C01a.exPos.side)
        (fun s => rookAttacks s C01a.exPos.all)).map absMove := by
  simp only [genHelper_exact_rook C01a.exPos C01a.ex_WF]
  decide +kernel

/-- leapers, one statement -/
theorem genHelper_exact_leaper (p : Pos) (hw : WF p = true) :
    (∀ mv : Fide.Move,
      mv ∈ (genHelper (p.pieces p.side KNIGHT) (~~~p.byColor p.side) knightAttacks).map absMove ↔
      mv ∈ (ownSquares (absPos p) KNIGHT).flatMap fun s => Fide.leaperMoves (absPos p) s Geo.knightOffsets) ∧
    (∀ mv : Fide.Move,
      mv ∈ (genHelper (p.pieces p.side KING) (~~~p.byColor p.side) kingAttacks).map absMove ↔
      mv ∈ (ownSquares (absPos p) KING).flatMap fun s => Fide.leaperMoves (absPos p) s Geo.kingOffsets) :=
  ⟨genHelper_exact_knight p hw, genHelper_exact_king p hw⟩

/-- pawns: single and double pushes, captures, promotions (four each) and en passant -/
theorem genPawn_exact (p : Pos) (hw : WF p = true) : ∀ mv : Fide.Move,
    mv ∈ ((squares (p.pieces p.side PAWN)).flatMap fun s =>
        ((squares (pawnPushesBySquare p.side s p.all)).flatMap fun t => pawnMoveWithPromotion p.side s t) ++
        genPawnCaptures p s ++ genEnPassant p s).map absMove ↔
    mv ∈ (ownSquares (absPos p) PAWN).flatMap fun s => Fide.pawnMoves (absPos p) s := by
  intro mv
  obtain ⟨hsh, hst, hch⟩ := GM.WF_parts p hw
  obtain ⟨hside, _, hep⟩ := GM.state_parts p hst
  exact GM.genPawn_abs p hsh hside hep (GM.ep_empty p hch) mv

-- in the example position: b7-b8=N, b7xc8=R, e5-e6 and the en passant capture e5xd6 are generated; e5xf6 is not
example : WF C01a.exPos = true := C01a.ex_WF
example :
    let l := ((squares (C01a.exPos.pieces C01a.exPos.side PAWN)).flatMap fun s =>
        ((squares (pawnPushesBySquare C01a.exPos.side s C01a.exPos.all)).flatMap fun t =>
          pawnMoveWithPromotion C01a.exPos.side s t) ++
        genPawnCaptures C01a.exPos s ++ genEnPassant C01a.exPos s).map absMove
    (⟨49, 57, some 1⟩ : Fide.Move) ∈ l ∧ (⟨49, 58, some 3⟩ : Fide.Move) ∈ l ∧ (⟨36, 44, none⟩ : Fide.Move) ∈ l ∧
    (⟨36, 43, none⟩ : Fide.Move) ∈ l ∧ (⟨36, 45, none⟩ : Fide.Move) ∉ l := by
  simp only [genPawn_exact C01a.exPos C01a.ex_WF]
  decide +kernel

/-- the list one pawn target contributes: the four promotions on the last rank, else the plain move -/
theorem pawnMoveWithPromotion_exact (c s t : Nat) (hc : c < 2) (hs : s < 64) (ht : t < 64) :
    (pawnMoveWithPromotion c s t).map absMove =
      if rankOf t = (if c = 0 then 7 else 0) then Fide.promoKinds.map fun k => ⟨s, t, some k⟩ else [⟨s, t, none⟩] :=
  GM.pmwp_abs c s t hc hs ht

example : (pawnMoveWithPromotion 0 49 56).map absMove = [⟨49, 56, some 1⟩, ⟨49, 56, some 2⟩, ⟨49, 56, some 3⟩, ⟨49, 56, some 4⟩] ∧
    (pawnMoveWithPromotion 1 49 41).map absMove = [⟨49, 41, none⟩] := by decide

/-! ### castling -/

/-- the specification's castling condition (the local `ok` of `Fide.castlingMoves`) for the right `c`:
right held, squares between king and rook empty, king not in check, the two squares the king crosses / lands on not attacked -/
abbrev castleSpec (P : Fide.Pos) (c : Nat) : Bool := GM.castleSpec P c

example (P : Fide.Pos) (c : Nat) : castleSpec P c =
    (let e := if P.side = 0 then 4 else 60
     let enemy := Fide.other P.side
     let between := if castlingKingSide c then [e + 1, e + 2] else [e - 1, e - 2, e - 3]
     let path := if castlingKingSide c then [e + 1, e + 2] else [e - 1, e - 2]
     P.castling &&& c != 0 && between.all (fun s => P.at s == 0) &&
       !Fide.attacked P enemy e && path.all (fun s => !Fide.attacked P enemy s)) := rfl

/-- `Fide.castlingMoves` is `castleSpec` for the king-side right followed by the queen-side right -/
theorem castlingMoves_castleSpec (P : Fide.Pos) :
    Fide.castlingMoves P =
      (if castleSpec P (if P.side = 0 then 1 else 4) = true then
        [(⟨if P.side = 0 then 4 else 60, (if P.side = 0 then 4 else 60) + 2, none⟩ : Fide.Move)] else []) ++
      (if castleSpec P (if P.side = 0 then 2 else 8) = true then
        [(⟨if P.side = 0 then 4 else 60, (if P.side = 0 then 4 else 60) - 2, none⟩ : Fide.Move)] else []) :=
  GM.castlingMoves_eq P

/-- relative to C12d.  Added hypothesis: `hA`, the statement of `attackedBy_exact` (C12d) for this position -/
theorem canCastleNow_exact_partial (p : Pos) (hw : WF p = true) (hA : GM.AttackedByExact p)
    (c : Nat) (hc : c ∈ [1, 2, 4, 8]) (hcol : castlingColor c = p.side) :
    canCastleNow p c = castleSpec (absPos p) c := GM.canCastleNow_eq p hw hA c hc hcol

/-- `CanCastleNow` is the specification's condition for that right: right held, squares between king and rook empty,
king not in check, the squares the king crosses and lands on not attacked -/
theorem canCastleNow_exact (p : Pos) (hw : WF p = true) (c : Nat) (hc : c ∈ [1, 2, 4, 8]) (hcol : castlingColor c = p.side) :
    canCastleNow p c = castleSpec (absPos p) c :=
  GM.canCastleNow_eq p hw (GM.attackedByExact_of_shape p (GM.WF_parts p hw).1) c hc hcol

-- hypotheses satisfiable: the example position, white's king-side right; both castlings are available there
theorem C01a.ex_side : C01a.exPos.side = 0 := by decide +kernel
example : WF C01a.exPos = true ∧ 1 ∈ [1, 2, 4, 8] ∧ castlingColor 1 = C01a.exPos.side :=
  ⟨C01a.ex_WF, by decide, by rw [C01a.ex_side]; rfl⟩
example : canCastleNow C01a.exPos 1 = true ∧ canCastleNow C01a.exPos 2 = true := by
  rw [canCastleNow_exact _ C01a.ex_WF 1 (by decide) (by rw [C01a.ex_side]; rfl),
    canCastleNow_exact _ C01a.ex_WF 2 (by decide) (by rw [C01a.ex_side]; rfl)]
  decide +kernel

/-- relative to C12d: castling moves, even the same list -/
theorem genCastling_exact_partial (p : Pos) (hw : WF p = true) (hA : GM.AttackedByExact p) :
    (genCastling p).map absMove = Fide.castlingMoves (absPos p) := GM.genCastling_abs p hw hA

/-- castling moves: even the same list -/
theorem genCastling_exact (p : Pos) (hw : WF p = true) :
    (genCastling p).map absMove = Fide.castlingMoves (absPos p) :=
  GM.genCastling_abs p hw (GM.attackedByExact_of_shape p (GM.WF_parts p hw).1)

/-! ### the generator -/

/-- relative to C12d: same set of UCI moves.  Added hypothesis: `hA` (C12d's `attackedBy_exact` for this position), used by the castling part only -/
theorem genMoves_mem_partial (p : Pos) (hw : WF p = true) (hA : GM.AttackedByExact p) :
    ∀ mv : Fide.Move, mv ∈ (genMoves p).map absMove ↔ mv ∈ Fide.pseudoMoves (absPos p) :=
  GM.genMoves_mem p hw hA

/-- the engine's decoded list has no duplicates -/
theorem genMoves_nodup (p : Pos) (hw : WF p = true) : ((genMoves p).map absMove).Nodup := GM.genMoves_nodup p hw

/-- relative to C12d: the theorem of this task with the added hypothesis `hA : GM.AttackedByExact p`
(`attackedBy_exact` of C12d for this position; used only for the castling moves) -/
theorem genMoves_exact_partial (p : Pos) (hw : WF p = true) (hA : GM.AttackedByExact p) :
    (∀ mv : Fide.Move, mv ∈ (genMoves p).map absMove ↔ mv ∈ Fide.pseudoMoves (absPos p)) ∧
    ((genMoves p).map absMove).Nodup :=
  ⟨genMoves_mem_partial p hw hA, genMoves_nodup p hw⟩

/-- THE theorem of this task: same set of UCI moves, and the engine's list has no duplicates -/
theorem genMoves_exact (p : Pos) (hw : WF p = true) :
    (∀ mv : Fide.Move, mv ∈ (genMoves p).map absMove ↔ mv ∈ Fide.pseudoMoves (absPos p)) ∧
    ((genMoves p).map absMove).Nodup :=
  genMoves_exact_partial p hw (GM.attackedByExact_of_shape p (GM.WF_parts p hw).1)

-- hypothesis satisfiable: the example position.  Consequences there (the right-hand sides are evaluated on the
-- specification only): the en passant capture e5xd6, the promotion capture b7xa8=Q, both castlings and the rook
-- lift a1-a8 are generated; the king step e1-e3 is not.
example : WF C01a.exPos = true := C01a.ex_WF
example : (⟨36, 43, none⟩ : Fide.Move) ∈ (genMoves C01a.exPos).map absMove ∧
    (⟨49, 56, some 4⟩ : Fide.Move) ∈ (genMoves C01a.exPos).map absMove ∧
    (⟨4, 6, none⟩ : Fide.Move) ∈ (genMoves C01a.exPos).map absMove ∧
    (⟨4, 2, none⟩ : Fide.Move) ∈ (genMoves C01a.exPos).map absMove ∧
    (⟨0, 56, none⟩ : Fide.Move) ∈ (genMoves C01a.exPos).map absMove ∧
    (⟨4, 20, none⟩ : Fide.Move) ∉ (genMoves C01a.exPos).map absMove := by
  simp only [(genMoves_exact C01a.exPos C01a.ex_WF).1]
  decide +kernel

/-! ### shape of the generated words -/

/- `GenShape p m` (defined in `Clemens/Proofs/GenMovesShape.lean`) is `MoveShape` of C02 with its informal clauses
made precise:
  src_lt, tgt_lt, ne : m.src < 64, m.tgt < 64, m.src ≠ m.tgt
  own         : p.at m.src ≠ 0 ∧ validPiece (p.at m.src) ∧ pieceColor (p.at m.src) = p.side
  target      : p.at m.tgt = 0 ∨ (validPiece (p.at m.tgt) ∧ pieceColor (p.at m.tgt) ≠ p.side)
  kind_lt     : m.kind < 4
  castle      : m.kind = 3 ↔ (pieceType (p.at m.src) = KING ∧ (m.tgt = m.src + 2 ∨ m.src = m.tgt + 2))
  castle_geom : m.kind = 3 → (m.src = 4 ∨ m.src = 60) ∧
                  p.at (if m.tgt = m.src + 2 then m.src + 3 else m.src - 4) = newPiece p.side ROOK ∧
                  p.at (if m.tgt = m.src + 2 then m.src + 1 else m.src - 1) = 0 ∧ p.at m.tgt = 0
  ep          : m.kind = 2 ↔ (pieceType (p.at m.src) = PAWN ∧ fileOf m.src ≠ fileOf m.tgt ∧ p.at m.tgt = 0)
  ep_victim   : m.kind = 2 → p.at (if p.side = 0 then m.tgt - 8 else m.tgt + 8) = newPiece (switchColor p.side) PAWN ∧
                  8 ≤ m.tgt ∧ m.tgt < 56
  promo       : m.kind = 1 ↔ (pieceType (p.at m.src) = PAWN ∧ (rankOf m.tgt = 7 ∨ rankOf m.tgt = 0))
  promo_piece : m.kind = 1 → 1 ≤ m.promo ∧ m.promo ≤ 4
  no_score    : m < 65536
-/

/-- every generated word has the shape `MoveShape` (C02) needs: kind consistent with the position -/
theorem genMoves_shape (p : Pos) (hw : WF p = true) : ∀ m ∈ genMoves p, GenShape p m :=
  fun m h => GM.genMoves_shape p hw m h

-- the fields are what the comment above says (two of them spelled out)
example (p : Pos) (m : Move) (h : GenShape p m) :
    (m.kind = 2 ↔ (pieceType (p.at m.src) = PAWN ∧ fileOf m.src ≠ fileOf m.tgt ∧ p.at m.tgt = 0)) ∧
    (m.kind = 1 ↔ (pieceType (p.at m.src) = PAWN ∧ (rankOf m.tgt = 7 ∨ rankOf m.tgt = 0))) := ⟨h.ep, h.promo⟩

end Clemens
