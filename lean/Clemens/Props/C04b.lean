import Clemens.Proofs.P16Line
import Clemens.Props.C03b
/-
C04, final assembly — the answer of the search is a legal move of the rules.

C04 (`Clemens/Props/C04.lean`) shows that every PV the search adopts is a `LegalLine`: moves the engine can make one after the
other, each passing the engine's own legality filter, each a generated word up to its score bits.  C01 (`legal_exact`,
`engineLegal_succ`) says that the engine's notion of "playable" is the rules' notion of "legal", and C10b (`WF_makeMove`) that
legal positions stay legal.  Put together:

  * `legalLine_fide`     the moves of a LegalLine are FIDE-legal one after the other (`Fide.LegalSeq`), and the engine position
                         at the end of the line is the rules' position `Fide.play …` of C03b (`legalLine_end`);
  * `answer_fide_legal`  the move returned by `search` is a FIDE-legal move in the root;
  * `answer_null_of_no_legal`  conversely `search` returns the null word 0 when the root has no legal move.

The answer carries score bits (e.g. `search` of the start position to depth 2 returns 65537153 = 1153 + 1000·65536, `#eval`):
its meaning `absMove m` does not depend on them (`absMove_score_bits`).
Lemma library: `Clemens/Proofs/P16Line.lean`.
-/
namespace Clemens

/-- the UCI meaning of a move word does not depend on its score bits -/
theorem absMove_score_bits (m : Move) : absMove (m % 65536) = absMove m := P16.absMove_low m

example : absMove 65537153 = absMove 1153 ∧ absMove 1153 = ⟨1, 18, none⟩ := by decide   -- b1c3

/-- a sequence of moves of the rules, each legal in the position reached so far -/
inductive Fide.LegalSeq : Fide.Pos → List Fide.Move → Prop
  | nil (P) : Fide.LegalSeq P []
  | cons (P fm rest) : fm ∈ Fide.legalMoves P → Fide.LegalSeq (Fide.apply P fm) rest → Fide.LegalSeq P (fm :: rest)

/-- one step: the head of a LegalLine is FIDE-legal, the engine's successor is the rules' successor, it is a legal position
again and its counters advanced by at most one -/
theorem legalLine_step (K : Keys) (p q : Pos) (hw : WF p = true) (hr : p.ply < 255 ∧ p.hmc < 255) (m : Move)
    (hq : makeMove K p m = some q) (hl : isLegal q = true) (hm : (m % 65536) ∈ (genMoves p).map (· % 65536)) :
    absMove (m % 65536) ∈ Fide.legalMoves (absPos p) ∧ absPos q = Fide.apply (absPos p) (absMove (m % 65536)) ∧
      WF q = true ∧ q.ply = p.ply + 1 ∧ q.hmc ≤ p.hmc + 1 := by
  have he := P16.step_engineLegal K p q hw m hq hl hm
  refine ⟨?_, engineLegal_succ K p hw hr _ q he, WF_makeMove K p hw hr _ q he, LG.succ_counters K p hw hr _ q he⟩
  rw [← (legal_exact K p hw hr).1]
  exact List.mem_map.2 ⟨(m % 65536, q), he, rfl⟩

/-- the moves of a LegalLine are FIDE-legal one after the other (positions within the counter range): each move, stripped of
its score bits, is in `Fide.legalMoves` of the spec position reached so far -/
theorem legalLine_fide (K : Keys) (p : Pos) (hw : WF p = true) (line : List Move) (h : LegalLine K p line)
    (hr : p.ply + line.length ≤ 255 ∧ p.hmc + line.length ≤ 255) :
    Fide.LegalSeq (absPos p) (line.map fun m => absMove (m % 65536)) := by
  induction h with
  | nil p => exact Fide.LegalSeq.nil _
  | cons p q m rest hq hl hm _ ih =>
    rw [List.length_cons] at hr
    obtain ⟨h1, h2, h3, h4, h5⟩ := legalLine_step K p q hw (by omega) m hq hl hm
    rw [List.map_cons]
    refine Fide.LegalSeq.cons _ _ _ h1 ?_
    rw [← h2]
    exact ih h3 (by omega)

/-- the same with the score bits left in (they do not change the meaning) -/
theorem legalLine_fide' (K : Keys) (p : Pos) (hw : WF p = true) (line : List Move) (h : LegalLine K p line)
    (hr : p.ply + line.length ≤ 255 ∧ p.hmc + line.length ≤ 255) :
    Fide.LegalSeq (absPos p) (line.map absMove) := by
  have := legalLine_fide K p hw line h hr
  have e : (line.map fun m => absMove (m % 65536)) = line.map absMove :=
    List.map_congr_left fun m _ => absMove_score_bits m
  rw [e] at this; exact this

/-- a one-move line from the example position of C01a -/
theorem C04b.ex_line : ∃ m, LegalLine realKeys C01a.exPos [m] := by
  obtain ⟨m, q, hmq⟩ := C10b.ex_step
  obtain ⟨hm, hq, hl⟩ := (mem_engineLegal _ _ _ _).1 hmq
  exact ⟨m, LegalLine.cons _ q m [] hq hl (List.mem_map.2 ⟨m, hm, rfl⟩) (LegalLine.nil q)⟩

-- hypotheses satisfiable, non-trivially
example : WF C01a.exPos = true ∧ ∃ line, line ≠ [] ∧ LegalLine realKeys C01a.exPos line ∧
    C01a.exPos.ply + line.length ≤ 255 ∧ C01a.exPos.hmc + line.length ≤ 255 := by
  obtain ⟨m, hm⟩ := C04b.ex_line
  refine ⟨C01a.ex_WF, [m], by simp, hm, ?_⟩
  have := C01.ex_range
  simp only [List.length_cons, List.length_nil]
  omega

/-- along a LegalLine the engine's positions are the rules' positions: if the engine, making the moves of the line, ends in `r`
then `r` is (seen through the abstraction) the rules' position after those moves, and it is a legal position -/
theorem legalLine_end (K : Keys) (p : Pos) (hw : WF p = true) (line : List Move) (h : LegalLine K p line)
    (hr : p.ply + line.length ≤ 255 ∧ p.hmc + line.length ≤ 255) (r : Pos)
    (hrun : line.foldlM (fun x m => makeMove K x m) p = some r) :
    absPos r = Fide.play (absPos p) (line.map absMove) ∧ WF r = true := by
  induction h with
  | nil p =>
    simp only [List.foldlM_nil, pure, Option.some.injEq] at hrun
    subst hrun
    exact ⟨rfl, hw⟩
  | cons p q m rest hq hl hm _ ih =>
    rw [List.length_cons] at hr
    obtain ⟨_, h2, h3, h4, h5⟩ := legalLine_step K p q hw (by omega) m hq hl hm
    rw [List.foldlM_cons, hq] at hrun
    rw [List.map_cons]
    unfold Fide.play
    rw [← absMove_score_bits m, ← h2]
    exact ih h3 (by omega) hrun

/- The hypothesis `h` of the next theorems is satisfiable: `#eval (search realKeys (startPos realKeys) (fun _ => "") 2 {}).1`
gives `ok 65537153` (b1c3 with score bits).  No kernel-checked `example`: evaluating the search in the kernel unfolds the magic
attack tables. -/

/-- C04: whenever `search` answers with a move (`m ≠ 0`; the null word 0 is what it returns when no PV was ever adopted) that
move is FIDE-legal in the root — under exactly the hypotheses of `answer_legal_partial` (`hgood`: no root search returns the
score -32718, see C04), for a legal root position within the counter range.  The answer's successor in the engine is the
rules' successor. -/
theorem answer_fide_legal (K : Keys) (root : Pos) (pvStr : Move → String) (d : Nat) (hw : WF root = true)
    (hr : root.ply < 255 ∧ root.hmc < 255)
    (hgood : ∀ d a b s0 v pvl s1, searchRoot K root d a b s0 = (.ok (v, pvl), s1) → v ≠ -32718)
    (s s' : SState) (m : Move) (hs : s.pv = []) (h : search K root pvStr d s = (.ok m, s')) (hm : m ≠ 0) :
    absMove m ∈ Fide.legalMoves (absPos root) ∧
      ∃ q, makeMove K root m = some q ∧ absPos q = Fide.apply (absPos root) (absMove m) ∧ WF q = true := by
  obtain ⟨q, hq, hl, hmem⟩ := answer_playable K root pvStr d hgood s s' m hs h hm
  obtain ⟨h1, h2, h3, _, _⟩ := legalLine_step K root q hw hr m hq hl hmem
  rw [absMove_score_bits] at h1 h2
  exact ⟨h1, q, hq, h2, h3⟩

example : WF C01a.exPos = true ∧ (C01a.exPos.ply < 255 ∧ C01a.exPos.hmc < 255) ∧ ({} : SState).pv = [] :=
  ⟨C01a.ex_WF, C01.ex_range, rfl⟩

/-- in particular the root then has a legal move; conversely, when the root has no legal move (checkmate or stalemate)
`search` answers with the null word 0 -/
theorem answer_null_of_no_legal (K : Keys) (root : Pos) (pvStr : Move → String) (d : Nat) (hw : WF root = true)
    (hr : root.ply < 255 ∧ root.hmc < 255)
    (hgood : ∀ d a b s0 v pvl s1, searchRoot K root d a b s0 = (.ok (v, pvl), s1) → v ≠ -32718)
    (s s' : SState) (m : Move) (hs : s.pv = []) (h : search K root pvStr d s = (.ok m, s'))
    (hnone : Fide.legalMoves (absPos root) = []) : m = 0 := by
  apply Classical.byContradiction
  intro hm
  have := (answer_fide_legal K root pvStr d hw hr hgood s s' m hs h hm).1
  rw [hnone] at this
  cases this

/-- the whole PV left in the state by `search` is a sequence of FIDE-legal moves from the root (when it fits the counter
range) -/
theorem answer_pv_fide (K : Keys) (root : Pos) (pvStr : Move → String) (d : Nat) (hw : WF root = true)
    (hgood : ∀ d a b s0 v pvl s1, searchRoot K root d a b s0 = (.ok (v, pvl), s1) → v ≠ -32718)
    (s s' : SState) (m : Move) (hs : s.pv = []) (h : search K root pvStr d s = (.ok m, s')) (hm : m ≠ 0)
    (hr : root.ply + s'.pv.length ≤ 255 ∧ root.hmc + s'.pv.length ≤ 255) :
    Fide.LegalSeq (absPos root) (s'.pv.map absMove) ∧ s'.pv.head? = some m := by
  obtain ⟨rest, hpv, hl⟩ := answer_legal_partial K root pvStr d hgood s s' m hs h hm
  rw [hpv] at hr ⊢
  exact ⟨legalLine_fide' K root hw _ hl hr, rfl⟩

end Clemens
