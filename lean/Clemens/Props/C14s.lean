import Clemens.Gen.Src
import Clemens.Proofs.TieTac
/-
C14 on the source text: the packed age / bound byte of a transposition-table entry (`ttentry.go`), stated about the definitions that
`tools/go2lean` regenerates from the Go text on every run (`Src.tt.ttEntry_set*`/`_get*`), not about the hand model.
"Exact scores as stored" needs the bound kind to survive the write of the age, for EVERY age byte (the search passes the half-move clock):
  * writing the age never disturbs the node type (all 256 age bytes, all entries);
  * the age read back is the age written, reduced to six bits (and exactly the age written when it is below 64);
  * writing a node type (0..3) is read back and never disturbs the age;
  * neither setter touches hash, move, score or depth.
Proved by `tie_tac` (bitwise extensionality) with a complete fallback (`byte_exhaust`: all 2^16 pairs evaluated by the kernel), so for the four
one-liners the module is a decision procedure: whatever the Go text says, as long as it stays in the translator's subset and reads only the
packed byte, the statements are proved iff they are true.  Required (a C14 obligation) when the four functions were translated; when one of
them left the translator's subset (stub, listed in `Src.untranslated`) the module is recorded as a lost tie instead and raises no alarm.
-/
namespace Clemens
open Src
set_option maxHeartbeats 1000000

/-- complete fallback for the byte-level statements: reduce to the packed byte and evaluate all 2^16 (byte, argument) pairs in the kernel
(about a minute; only reached when `tie_tac` does not carry a rewritten definition, e.g. one using `+` instead of `|`) -/
macro "byte_exhaust" : tactic => `(tactic| (
  simp only [tt.ttEntry_getNodeType, tt.ttEntry_setAge, tt.ttEntry_getAge, tt.ttEntry_setNodeType]
  src_unfold_helpers
  generalize tt.ttEntry.ageAndNodeType _ = x
  revert x
  decide +kernel))

theorem src_setAge_keeps_nodeType (e : tt.ttEntry) (a : BitVec 8) :
    tt.ttEntry_getNodeType (tt.ttEntry_setAge e a) = tt.ttEntry_getNodeType e := by
  first | tie_tac | (revert a; byte_exhaust)

theorem src_setAge_get_mod (e : tt.ttEntry) (a : BitVec 8) :
    tt.ttEntry_getAge (tt.ttEntry_setAge e a) = a &&& 63#8 := by
  first | tie_tac | (revert a; byte_exhaust)

theorem byte_lt_64 : ∀ a : BitVec 8, a.toNat < 64 → a &&& 63#8 = a := by decide +kernel
theorem byte_lt_4 : ∀ a : BitVec 8, a.toNat < 4 → a &&& 3#8 = a := by decide +kernel

theorem src_setAge_get (e : tt.ttEntry) (a : BitVec 8) (h : a.toNat < 64) :
    tt.ttEntry_getAge (tt.ttEntry_setAge e a) = a := by
  rw [src_setAge_get_mod, byte_lt_64 a h]

theorem src_setNodeType_get_mod (e : tt.ttEntry) (nt : BitVec 8) :
    tt.ttEntry_getNodeType (tt.ttEntry_setNodeType e (nt &&& 3#8)) = nt &&& 3#8 := by
  first | tie_tac | (revert nt; byte_exhaust)

theorem src_setNodeType_get (e : tt.ttEntry) (nt : BitVec 8) (h : nt.toNat < 4) :
    tt.ttEntry_getNodeType (tt.ttEntry_setNodeType e nt) = nt := by
  have := src_setNodeType_get_mod e nt
  rwa [byte_lt_4 nt h] at this

theorem src_setNodeType_keeps_age_mod (e : tt.ttEntry) (nt : BitVec 8) :
    tt.ttEntry_getAge (tt.ttEntry_setNodeType e (nt &&& 3#8)) = tt.ttEntry_getAge e := by
  first | tie_tac | (revert nt; byte_exhaust)

theorem src_setNodeType_keeps_age (e : tt.ttEntry) (nt : BitVec 8) (h : nt.toNat < 4) :
    tt.ttEntry_getAge (tt.ttEntry_setNodeType e nt) = tt.ttEntry_getAge e := by
  have := src_setNodeType_keeps_age_mod e nt
  rwa [byte_lt_4 nt h] at this

/-- the packing the table performs on a store (`setNodeType` then `setAge`) is read back exactly, whatever the slot held before -/
theorem src_pack_roundtrip (e : tt.ttEntry) (nt a : BitVec 8) (hn : nt.toNat < 4) (ha : a.toNat < 64) :
    let e' := tt.ttEntry_setAge (tt.ttEntry_setNodeType e nt) a
    tt.ttEntry_getNodeType e' = nt ∧ tt.ttEntry_getAge e' = a := by
  exact ⟨by rw [src_setAge_keeps_nodeType, src_setNodeType_get e nt hn], src_setAge_get _ a ha⟩

/-- for ages of 64 and more (half-move clocks that large do occur) the bound kind still survives; only the age is reduced -/
theorem src_pack_any_age (e : tt.ttEntry) (nt a : BitVec 8) (hn : nt.toNat < 4) :
    tt.ttEntry_getNodeType (tt.ttEntry_setAge (tt.ttEntry_setNodeType e nt) a) = nt := by
  rw [src_setAge_keeps_nodeType, src_setNodeType_get e nt hn]

theorem src_setters_keep_payload (e : tt.ttEntry) (x : BitVec 8) :
    (tt.ttEntry_setAge e x).zobristHash = e.zobristHash ∧ (tt.ttEntry_setAge e x).bestMove = e.bestMove ∧
    (tt.ttEntry_setAge e x).score = e.score ∧ (tt.ttEntry_setAge e x).depth = e.depth ∧
    (tt.ttEntry_setNodeType e x).zobristHash = e.zobristHash ∧ (tt.ttEntry_setNodeType e x).bestMove = e.bestMove ∧
    (tt.ttEntry_setNodeType e x).score = e.score ∧ (tt.ttEntry_setNodeType e x).depth = e.depth := by
  simp [tt.ttEntry_setAge, tt.ttEntry_setNodeType]

-- non-vacuity: a PV entry (type 1) stored at half-move clock 70
example : tt.ttEntry_getNodeType (tt.ttEntry_setAge (tt.ttEntry_setNodeType default 1#8) 70#8) = 1#8 := by decide

end Clemens
