import Clemens.Proofs.Attackers
/-
C12 part C — the engine's attack queries on a position are exact with respect to the rules (`Clemens/Spec/Fide.lean`):
bit `a` of `SquareAttackedBy(sq)` is set iff the piece standing on `a` attacks `sq`; "attacked by colour", `IsInCheck`
and `IsLegal` follow.  All for every shape-well-formed position (board array and bitboards agree) and every square.

Ingredients (lemmas in `Clemens/Proofs/Attackers.lean`):
  * C12a/C12b: the leaper/pawn tables and the magic slider lookups equal the (file, rank) geometry seen from `sq`;
  * symmetry: the engine looks from the target square backwards ("which knights does a knight on `sq` attack?"),
    the rules look from the attacker forwards.  Knight/king steps are symmetric and a white pawn attack is a reversed black
    one (kernel evaluation over 64×64 pairs); an open line is open in both directions (`reach_symm_*`, symbolic);
  * the spec's ray walk `Fide.rayFrom` is `Geo.reachAlong` on the position's occupancy (`rayFrom_mem_iff`);
  * `wfShape` square by square (`wfShape_bit`), the 13 piece codes.
Neither `rookAttacks` nor `bishopAttacks` is ever unfolded.
-/
namespace Clemens

/-! ### geometric symmetry -/

/-- an open rook line is open in both directions (the squares strictly between are the same) -/
theorem reach_symm_rook (occ : BB) (s t : Nat) (hs : s < 64) (ht : t < 64) :
    Geo.reach rookDirs occ s t = Geo.reach rookDirs occ t s := reach_symm_rook' occ s t hs ht

theorem reach_symm_bishop (occ : BB) (s t : Nat) (hs : s < 64) (ht : t < 64) :
    Geo.reach bishopDirs occ s t = Geo.reach bishopDirs occ t s := reach_symm_bishop' occ s t hs ht

theorem knightStep_symm (s t : Nat) (hs : s < 64) (ht : t < 64) : Geo.knightStep s t = Geo.knightStep t s :=
  knightStep_symm_all s hs t ht

theorem kingStep_symm (s t : Nat) (hs : s < 64) (ht : t < 64) : Geo.kingStep s t = Geo.kingStep t s :=
  kingStep_symm_all s hs t ht

/-- a white pawn on `s` attacks `t` iff a black pawn on `t` would attack `s` -/
theorem pawnAttack_symm (s t : Nat) (hs : s < 64) (ht : t < 64) : Geo.pawnAttack 0 s t = Geo.pawnAttack 1 t s :=
  (pawnAttack_symm_all s hs t ht).1

-- a1–a8 with a blocker on a4: closed from both ends; a1–a4: open from both ends (a4 is the first blocker / a1 is empty or not, irrelevant)
example : Geo.reach rookDirs (bit 24) 0 56 = false ∧ Geo.reach rookDirs (bit 24) 56 0 = false ∧
    Geo.reach rookDirs (bit 24) 0 24 = true ∧ Geo.reach rookDirs (bit 24) 24 0 = true := by decide
example : Geo.reach bishopDirs (bit 27) 0 63 = false ∧ Geo.reach bishopDirs 0#64 0 63 = true ∧ Geo.reach bishopDirs 0#64 63 0 = true := by decide
example : Geo.pawnAttack 0 12 21 = true ∧ Geo.pawnAttack 1 21 12 = true ∧ Geo.pawnAttack 0 21 12 = false := by decide

/-! ### a concrete position for the examples -/

/-- white Kg1 Re1 Bb5 f2 g2 h2; black Ke8 Qd8 Rh8 Nf6 c6 f7; black to move and in check from the rook on the open e-file
(the bishop's diagonal b5–e8 is blocked on c6) -/
def C12d.exBoard : List Nat :=
  [0, 0, 0, 0, 4, 0, 6, 0,  0, 0, 0, 0, 0, 1, 1, 1,  0, 0, 0, 0, 0, 0, 0, 0,  0, 0, 0, 0, 0, 0, 0, 0,
   0, 3, 0, 0, 0, 0, 0, 0,  0, 0, 9, 0, 0, 10, 0, 0,  0, 0, 0, 0, 0, 9, 0, 0,  0, 0, 0, 13, 14, 0, 0, 12]

def C12d.ex : Pos :=
  helperBitboards (boardToBitBoard { Pos.empty with
    board := Vector.ofFn (n := 64) fun i => C12d.exBoard.getD i.val 0, side := 1, castling := 0, ep := 64, ply := 1 })

theorem C12d.ex_wf : wfShape C12d.ex = true := by decide +kernel
theorem C12d.ex_kings : popcount (C12d.ex.pieces 0 KING) = 1 ∧ popcount (C12d.ex.pieces 1 KING) = 1 := by decide +kernel

-- (in all examples below only the hypotheses and the *spec* side are evaluated in the kernel; the engine side, which would
--  need the magic tables, is obtained from the theorem)

/-! ### the spec's ray walk -/

/-- the spec's ray walk from a square agrees with `Geo.reachAlong` on the occupancy of the position -/
theorem rayFrom_mem_iff (p : Pos) (hw : wfShape p = true) (d : Dir) (a t : Nat) (ha : a < 64) (ht : t < 64) :
    (Fide.rayFrom (absPos p) d a).contains t = Geo.reachAlong d p.all a t :=
  have _ := ha
  have _ := ht
  rayFrom_contains p hw d a t

-- from e1 going north the spec's walk ends on the first occupied square e8; from b5 going north-east it ends on c6
example : wfShape C12d.ex = true ∧ Fide.rayFrom (absPos C12d.ex) .N 4 = [12, 20, 28, 36, 44, 52, 60] ∧
    Fide.rayFrom (absPos C12d.ex) .NE 33 = [42] ∧ Geo.reachAlong .N C12d.ex.all 4 60 = true ∧ Geo.reachAlong .NE C12d.ex.all 33 60 = false := by
  decide +kernel

/-! ### attackers of a square -/

/-- THE theorem: bit `a` of the engine's attacker set of `sq` is set iff the piece standing on `a` attacks `sq` under the rules -/
theorem squareAttackedBy_exact (p : Pos) (hw : wfShape p = true) (sq a : Nat) (hsq : sq < 64) (ha : a < 64) :
    (squareAttackedBy p sq).getLsbD a = Fide.pieceAttacks (absPos p) a sq :=
  squareAttackedBy_exact' p hw sq a hsq ha

-- attackers of e8: the rook e1 (open file) yes, the bishop b5 (blocked on c6) no, the own queen d8 yes (the set is colour-blind),
-- the pawn f7 no
example : (squareAttackedBy C12d.ex 60).getLsbD 4 = true ∧ (squareAttackedBy C12d.ex 60).getLsbD 33 = false ∧
    (squareAttackedBy C12d.ex 60).getLsbD 59 = true ∧ (squareAttackedBy C12d.ex 60).getLsbD 53 = false := by
  rw [squareAttackedBy_exact _ C12d.ex_wf 60 4 (by decide) (by decide), squareAttackedBy_exact _ C12d.ex_wf 60 33 (by decide) (by decide),
    squareAttackedBy_exact _ C12d.ex_wf 60 59 (by decide) (by decide), squareAttackedBy_exact _ C12d.ex_wf 60 53 (by decide) (by decide)]
  decide +kernel
-- a pawn attacks diagonally forwards only: f7 (black) attacks g6, not g8; g2 (white) attacks h3
example : (squareAttackedBy C12d.ex 46).getLsbD 53 = true ∧ (squareAttackedBy C12d.ex 62).getLsbD 53 = false ∧
    (squareAttackedBy C12d.ex 23).getLsbD 14 = true := by
  rw [squareAttackedBy_exact _ C12d.ex_wf 46 53 (by decide) (by decide), squareAttackedBy_exact _ C12d.ex_wf 62 53 (by decide) (by decide),
    squareAttackedBy_exact _ C12d.ex_wf 23 14 (by decide) (by decide)]
  decide +kernel

/-- attacked-by-colour -/
theorem attackedBy_exact (p : Pos) (hw : wfShape p = true) (c sq : Nat) (hc : c < 2) (hsq : sq < 64) :
    ((squareAttackedBy p sq &&& p.byColor c) != 0#64) = Fide.attacked (absPos p) c sq :=
  attackedBy_exact' p hw c sq hc hsq

-- e8 is attacked by white (Re1) and by black (Qd8 defends it); d5 is attacked by black (c6, Nf6, Qd8), not by white
example : ((squareAttackedBy C12d.ex 60 &&& C12d.ex.byColor 0) != 0#64) = true ∧
    ((squareAttackedBy C12d.ex 35 &&& C12d.ex.byColor 1) != 0#64) = true ∧
    ((squareAttackedBy C12d.ex 35 &&& C12d.ex.byColor 0) != 0#64) = false := by
  rw [attackedBy_exact _ C12d.ex_wf 0 60 (by decide) (by decide), attackedBy_exact _ C12d.ex_wf 1 35 (by decide) (by decide),
    attackedBy_exact _ C12d.ex_wf 0 35 (by decide) (by decide)]
  decide +kernel

/-! ### check detection -/

theorem isInCheck_exact (p : Pos) (hw : wfShape p = true) (c : Nat) (hc : c < 2) (hk : popcount (p.pieces c KING) = 1) :
    isInCheck p c = Fide.inCheck (absPos p) c := by
  obtain ⟨hlt, hks⟩ := kingSquare_of_popcount p hw c hc hk
  unfold isInCheck Fide.inCheck
  rw [hks, switchColor_eq_other c hc]
  exact attackedBy_exact p hw (Fide.other c) _ (by rw [← switchColor_eq_other c hc]; exact switchColor_lt c) hlt

-- black is in check, white is not
example : isInCheck C12d.ex 1 = true ∧ isInCheck C12d.ex 0 = false := by
  rw [isInCheck_exact _ C12d.ex_wf 1 (by decide) C12d.ex_kings.2, isInCheck_exact _ C12d.ex_wf 0 (by decide) C12d.ex_kings.1]
  decide +kernel

theorem isLegal_exact (p : Pos) (hw : wfShape p = true) (hs : p.side < 2) (hk : popcount (p.pieces (switchColor p.side) KING) = 1) :
    isLegal p = !Fide.inCheck (absPos p) (switchColor p.side) := by
  have _ := hs
  unfold isLegal
  rw [isInCheck_exact p hw (switchColor p.side) (switchColor_lt _) hk]

-- black to move, white (who just moved) is not in check: the position is legal; with white to move it would not be
example : C12d.ex.side < 2 ∧ isLegal C12d.ex = true := by
  refine ⟨by decide +kernel, ?_⟩
  rw [isLegal_exact _ C12d.ex_wf (by decide +kernel) (by decide +kernel)]; decide +kernel

def C12d.exW : Pos := { C12d.ex with side := 0 }
example : isLegal C12d.exW = false := by
  rw [isLegal_exact _ (by decide +kernel) (by decide +kernel) (by decide +kernel)]; decide +kernel

end Clemens
