import Clemens.Proofs.Hash
import Clemens.Proofs.HashMove
import Clemens.Proofs.HashFen
import Clemens.Proofs.HashKeys
/-
C09 — the position hash is a function of the position (placement, side to move, castling rights,
en passant square), not of the path that led to it.

All theorems are for an arbitrary key table `K : Keys` unless stated.  Helper lemmas live in
`Clemens/Proofs/Hash.lean` (decomposition of `fullHash`, board-update lemma, primitives),
`HashMove.lean` (null move, `MakeMove` in stages), `HashFen.lean`, `HashKeys.lean` (distinctness, key table), all in
`namespace Clemens.Hash`; the side-condition predicates of `makeMove_hash` are in `namespace Clemens` (top of `HashMove.lean`).
-/
namespace Clemens
open Hash

def HashOK (K : Keys) (p : Pos) : Prop := p.hash = fullHash K p

instance (K : Keys) (p : Pos) : Decidable (HashOK K p) := inferInstanceAs (Decidable (p.hash = fullHash K p))

/-- the hash from scratch reads nothing but placement, side, castling rights and en passant square -/
theorem fullHash_congr (K : Keys) (p q : Pos) (hb : p.board = q.board) (hs : p.side = q.side) (hc : p.castling = q.castling) (he : p.ep = q.ep) :
    fullHash K p = fullHash K q := by
  simp only [fullHash_eq, hb, hs, hc, he]

/-- the start position carries the from-scratch hash (used by the examples below) -/
theorem startPos_hashOK (K : Keys) : HashOK K (startPos K) := by
  unfold HashOK startPos
  simp only [fullHash_eq]

/-- recomputing the hash field makes any position `HashOK` -/
theorem rehash_hashOK (K : Keys) (p : Pos) : HashOK K { p with hash := fullHash K p } := by
  unfold HashOK
  simp only [fullHash_eq]

private theorem exists_of_isSome {α : Type} {o : Option α} (h : o.isSome = true) : ∃ a, o = some a := Option.isSome_iff_exists.mp h

/-- the start position with other clocks and a stale hash field -/
def C09.exStale : Pos := { startPos realKeys with hmc := 5, ply := 7, hash := 1#64 }

example : (startPos realKeys).board = C09.exStale.board ∧ (startPos realKeys).side = C09.exStale.side ∧
    (startPos realKeys).castling = C09.exStale.castling ∧ (startPos realKeys).ep = C09.exStale.ep ∧ startPos realKeys ≠ C09.exStale := by
  decide +kernel

theorem setPiece_hash (K : Keys) (p q : Pos) (pc s : Nat) (h : setPiece K p pc s = some q) (he : p.at s = 0) (hok : HashOK K p) : HashOK K q :=
  setPiece_hash_eq K p q pc s h he hok

/-- a white pawn dropped on a3 of the start position -/
example : (∃ q, setPiece realKeys (startPos realKeys) 1 16 = some q) ∧ (startPos realKeys).at 16 = 0 ∧ HashOK realKeys (startPos realKeys) :=
  ⟨exists_of_isSome (by decide +kernel), by decide +kernel, startPos_hashOK _⟩

theorem deletePiece_hash (K : Keys) (p q : Pos) (s pc : Nat) (h : deletePiece K p s = some (q, pc)) (hok : HashOK K p) : HashOK K q :=
  deletePiece_hash_eq K p q s pc h hok

/-- the a2 pawn taken off the start position -/
example : (∃ x, deletePiece realKeys (startPos realKeys) 8 = some x) ∧ HashOK realKeys (startPos realKeys) :=
  ⟨exists_of_isSome (by decide +kernel), startPos_hashOK _⟩

theorem removeCastling_hash (K : Keys) (p : Pos) (c idx : Nat) (hci : (c, idx) ∈ castlingRights) (hok : HashOK K p) : HashOK K (removeCastling K p c idx) :=
  removeCastling_hash_eq K p c idx hci hok

example : ((4, 2) : Nat × Nat) ∈ castlingRights ∧ HashOK realKeys (startPos realKeys) ∧ (removeCastling realKeys (startPos realKeys) 4 2).castling = 11 :=
  ⟨by decide, startPos_hashOK _, by decide +kernel⟩

theorem touchSquare_hash (K : Keys) (p : Pos) (s : Nat) (hok : HashOK K p) : HashOK K (touchSquare K p s) :=
  touchSquare_hash_eq K p s hok

example : HashOK realKeys (startPos realKeys) ∧ (touchSquare realKeys (startPos realKeys) 4).castling = 12 :=
  ⟨startPos_hashOK _, by decide +kernel⟩

/-- The exact side condition of `makeMove_hash`:
 * `rook` (`RookTargetFree`): in a castling move (`m.kind = 3`) to one of the four king targets `MakeMove` accepts
   (`CastlingTarget m.tgt`: c1, g1, c8, g8) the rook's destination square (d1/f1/d8/f8, `rookTarget m.tgt`) is empty, or is the
   square the "king" leaves.  True for every castling move generated from a well-formed position (king on e1/e8: `canCastleNow` checks the squares
   next to the king); not proved here.
   It cannot be dropped: see `makeMove_hash_needs_rook` below.
 * `ep` (`EpTargetOK`): the move is not a black pawn "double push" a6→a8 (40 → 56).  The model (following the Go `uint8` arithmetic)
   then sets the en passant square to `56 + 8 = 64 = SQUARE_NONE` while xor-ing the key of file a into the hash.  No generator
   emits this move (black pawns push downwards), but `makeMove` accepts any move word, so the condition cannot be dropped:
   see `makeMove_hash_needs_ep` below. -/
structure MoveSide (p : Pos) (m : Move) : Prop where
  rook : RookTargetFree p m
  ep : EpTargetOK p m

/-- incremental = from scratch after every move the model can make. -/
theorem makeMove_hash (K : Keys) (p q : Pos) (m : Move) (h : makeMove K p m = some q) (hok : HashOK K p)
    (hside : p.side < 2) (hfree : MoveSide p m) : HashOK K q :=
  have _ := hside
  makeMove_hash_eq K p q m h hok hfree.rook hfree.ep

/-- 1. e4 from the start position (a double push: exercises the en passant key) -/
example : (∃ q, makeMove realKeys (startPos realKeys) (Move.mk 12 28 0) = some q) ∧ HashOK realKeys (startPos realKeys) ∧
    (startPos realKeys).side < 2 ∧ MoveSide (startPos realKeys) (Move.mk 12 28 0) :=
  ⟨exists_of_isSome (by decide +kernel), startPos_hashOK _, by decide +kernel,
   ⟨fun h => absurd h (by decide +kernel), fun h => absurd h.2.1 (by decide +kernel)⟩⟩

/-- white castles queen side (king e1→c1, rook a1→d1) with d1 empty -/
def C09.exCastle : Pos :=
  let p : Pos := { Pos.empty with board := vset (vset Pos.empty.board 0 4) 4 6, side := 0, castling := 3, ep := 64 }
  { p with hash := fullHash realKeys p }

example : (∃ q, makeMove realKeys C09.exCastle (Move.mk 4 2 3) = some q) ∧ HashOK realKeys C09.exCastle ∧ C09.exCastle.side < 2 ∧
    MoveSide C09.exCastle (Move.mk 4 2 3) :=
  ⟨exists_of_isSome (by decide +kernel), rehash_hashOK _ _, by decide +kernel,
   ⟨fun _ _ => Or.inl (by decide +kernel), fun h => absurd h.2.1 (by decide +kernel)⟩⟩

private theorem exists_of_any {α : Type} {o : Option α} {P : α → Prop} [DecidablePred P]
    (h : o.any (fun a => decide (P a)) = true) : ∃ a, o = some a ∧ P a := by
  cases o with
  | none => simp at h
  | some a => exact ⟨a, rfl, by simpa using h⟩

/-- the same, with a queen on d1: the rook is dropped onto her -/
def C09.exCastleBlocked : Pos :=
  let p : Pos := { Pos.empty with board := vset (vset (vset Pos.empty.board 0 4) 3 5) 4 6, side := 0, castling := 3, ep := 64 }
  { p with hash := fullHash realKeys p }

/-- `RookTargetFree` cannot be dropped: with the engine's keys, castling onto an occupied d1 leaves a wrong hash -/
theorem makeMove_hash_needs_rook : ∃ p m, HashOK realKeys p ∧ p.side < 2 ∧ EpTargetOK p m ∧
    ∃ q, makeMove realKeys p m = some q ∧ ¬HashOK realKeys q :=
  ⟨C09.exCastleBlocked, Move.mk 4 2 3, rehash_hashOK _ _, by decide +kernel, fun h => absurd h.2.1 (by decide +kernel),
   exists_of_any (by decide +kernel)⟩

/-- black to move, a black pawn on a6 and nothing else -/
def C09.exBackPush : Pos :=
  let p : Pos := { Pos.empty with board := vset Pos.empty.board 40 9, side := 1, castling := 0, ep := 64 }
  { p with hash := fullHash realKeys p }

/-- `EpTargetOK` cannot be dropped: the (never generated) black move a6→a8 is taken for a double push, the en passant square
becomes `56 + 8 = 64 = SQUARE_NONE`, and the key of file a stays in the incremental hash -/
theorem makeMove_hash_needs_ep : ∃ p m, HashOK realKeys p ∧ p.side < 2 ∧ RookTargetFree p m ∧
    ∃ q, makeMove realKeys p m = some q ∧ ¬HashOK realKeys q :=
  ⟨C09.exBackPush, Move.mk 40 56 0, rehash_hashOK _ _, by decide +kernel, fun h => absurd h (by decide +kernel),
   exists_of_any (by decide +kernel)⟩

theorem makeNull_hash (K : Keys) (p : Pos) (hok : HashOK K p) (hside : p.side < 2) : HashOK K (makeNull K p).1 :=
  have _ := hside
  makeNull_hash_eq K p hok

example : HashOK realKeys (startPos realKeys) ∧ (startPos realKeys).side < 2 := ⟨startPos_hashOK _, by decide +kernel⟩

theorem unmakeNull_makeNull (K : Keys) (p : Pos) (hside : p.side < 2) (hply : p.ply < 256) (hep : p.ep ≤ 64 → True) :
    unmakeNull K (makeNull K p).1 (makeNull K p).2 = p :=
  have _ := hep
  unmakeNull_makeNull_eq K p hside hply

example : (startPos realKeys).side < 2 ∧ (startPos realKeys).ply < 256 ∧ ((startPos realKeys).ep ≤ 64 → True) :=
  ⟨by decide +kernel, by decide +kernel, fun _ => trivial⟩

theorem parseFen_hash (K : Keys) (b : Bytes) (p : Pos) (h : parseFen K b = .ok p) : HashOK K p :=
  parseFen_hash_eq K b p h

private def resIsOk {α : Type} : Res α → Bool | .ok _ => true | _ => false
private theorem exists_of_resIsOk {α : Type} {r : Res α} (h : resIsOk r = true) : ∃ a, r = .ok a := by
  cases r <;> simp_all [resIsOk]

def C09.exFen : Bytes := "r3k2r/pppq1ppp/2n5/4p3/4P3/2N5/PPPQ1PPP/R3K2R b Kq e3 4 9".toList.map Char.toNat
example : ∃ p, parseFen realKeys C09.exFen = .ok p := exists_of_resIsOk (by decide +kernel)

/-- path independence: any two ways of reaching positions that agree on the four components give equal hashes -/
theorem hash_path_independent (K : Keys) (p q : Pos) (hp : HashOK K p) (hq : HashOK K q)
    (hb : p.board = q.board) (hs : p.side = q.side) (hc : p.castling = q.castling) (he : p.ep = q.ep) : p.hash = q.hash := by
  rw [hp, hq]
  exact fullHash_congr K p q hb hs hc he

example : HashOK realKeys (startPos realKeys) ∧ HashOK realKeys { C09.exStale with hash := fullHash realKeys C09.exStale } ∧
    (startPos realKeys).board = C09.exStale.board ∧ (startPos realKeys).ply ≠ C09.exStale.ply :=
  ⟨startPos_hashOK _, rehash_hashOK _ _, by decide +kernel, by decide +kernel⟩

/-! ### distinctness for positions differing in exactly one component
needs only that the keys involved are non-zero / distinct -/

theorem hash_differs_side (K : Keys) (p q : Pos) (hb : p.board = q.board) (hc : p.castling = q.castling) (he : p.ep = q.ep)
    (hs : p.side = 0) (hs' : q.side = 1) (hk : K.side ≠ 0#64) : fullHash K p ≠ fullHash K q := by
  intro h
  have h := fullHash_eq_components K p q h
  rw [hb, hc, he, hs, hs'] at h
  exact sideHash_ne K hk (xor_left_cancel (xor_right_cancel (xor_right_cancel h)))

example : let p := startPos realKeys; let q : Pos := { startPos realKeys with side := 1 }
    p.board = q.board ∧ p.castling = q.castling ∧ p.ep = q.ep ∧ p.side = 0 ∧ q.side = 1 ∧ realKeys.side ≠ 0#64 := by
  decide +kernel

/-- `p` and `q` are equal except for exactly one castling right `(c, idx) ∈ castlingRights` (one has it, the other does not) -/
theorem hash_differs_castling (K : Keys) (p q : Pos) (c idx : Nat) (hci : (c, idx) ∈ castlingRights)
    (hb : p.board = q.board) (hs : p.side = q.side) (he : p.ep = q.ep)
    (hsame : ∀ r i, (r, i) ∈ castlingRights → r ≠ c → (p.castling &&& r = 0 ↔ q.castling &&& r = 0))
    (hdiff : p.castling &&& c = 0 ↔ ¬(q.castling &&& c = 0))
    (hk : K.castling idx ≠ 0#64) : fullHash K p ≠ fullHash K q := by
  intro h
  have h := fullHash_eq_components K p q h
  rw [hb, hs, he] at h
  exact castHash_ne K p.castling q.castling c idx hci hsame hdiff hk (xor_left_cancel (xor_right_cancel h))

/-- start position with and without black's king-side right -/
example : let p := startPos realKeys; let q : Pos := { startPos realKeys with castling := 11 }
    ((4, 2) : Nat × Nat) ∈ castlingRights ∧ p.board = q.board ∧ p.side = q.side ∧ p.ep = q.ep ∧
    (∀ r i, (r, i) ∈ castlingRights → r ≠ 4 → (p.castling &&& r = 0 ↔ q.castling &&& r = 0)) ∧
    (p.castling &&& 4 = 0 ↔ ¬(q.castling &&& 4 = 0)) ∧ realKeys.castling 2 ≠ 0#64 := by
  refine ⟨by decide, by decide +kernel, by decide +kernel, by decide +kernel, ?_, by decide +kernel, by decide +kernel⟩
  intro r i hm hne
  simp only [castlingRights, List.mem_cons, Prod.mk.injEq, List.mem_nil_iff, or_false] at hm
  rcases hm with ⟨rfl, rfl⟩ | ⟨rfl, rfl⟩ | ⟨rfl, rfl⟩ | ⟨rfl, rfl⟩
  · decide +kernel
  · decide +kernel
  · exact absurd rfl hne
  · decide +kernel

/-- equal except for the en passant square: none vs. some file `f` (needs `K.ep f ≠ 0`), or two different files
(needs `K.ep f ≠ K.ep g`) -/
theorem hash_differs_ep (K : Keys) (p q : Pos) (hb : p.board = q.board) (hs : p.side = q.side) (hc : p.castling = q.castling)
    (hep : (p.ep = 64 ∧ q.ep ≠ 64 ∧ K.ep (fileOf q.ep) ≠ 0#64) ∨
           (p.ep ≠ 64 ∧ q.ep ≠ 64 ∧ K.ep (fileOf p.ep) ≠ K.ep (fileOf q.ep))) : fullHash K p ≠ fullHash K q := by
  intro h
  have h := fullHash_eq_components K p q h
  rw [hb, hs, hc] at h
  have h := xor_left_cancel h
  rcases hep with ⟨h1, h2, h3⟩ | ⟨h1, h2, h3⟩
  · rw [h1, epHash_none, epHash_some K _ h2] at h
    exact h3 h.symm
  · rw [epHash_some K _ h1, epHash_some K _ h2] at h
    exact h3 h

/-- start position (no en passant square) vs. the same placement with e3; and d6 vs. e6 -/
example : let p := startPos realKeys; let q : Pos := { startPos realKeys with ep := 20 }
    p.board = q.board ∧ p.side = q.side ∧ p.castling = q.castling ∧ p.ep = 64 ∧ q.ep ≠ 64 ∧ realKeys.ep (fileOf q.ep) ≠ 0#64 := by
  decide +kernel
example : let p : Pos := { startPos realKeys with ep := 43 }; let q : Pos := { startPos realKeys with ep := 44 }
    p.board = q.board ∧ p.side = q.side ∧ p.castling = q.castling ∧ p.ep ≠ 64 ∧ q.ep ≠ 64 ∧
    realKeys.ep (fileOf p.ep) ≠ realKeys.ep (fileOf q.ep) := by
  decide +kernel

/-- the placements differ at exactly one square `s` (contents `a` and `b`, possibly one of them empty): the two piece keys
must be distinct, where an empty square counts as key 0 (so "piece vs. empty" needs the piece key to be non-zero) -/
theorem hash_differs_square (K : Keys) (p q : Pos) (s a b : Nat) (hs64 : s < 64)
    (hsame : ∀ i, i ≠ s → p.at i = q.at i) (ha : p.at s = a) (hb : q.at s = b)
    (hs : p.side = q.side) (hc : p.castling = q.castling) (he : p.ep = q.ep)
    (hk : (if a = 0 then 0#64 else K.piece s (pieceColor a) (pieceType a)) ≠
          (if b = 0 then 0#64 else K.piece s (pieceColor b) (pieceType b))) : fullHash K p ≠ fullHash K q := by
  intro h
  have h := fullHash_eq_components K p q h
  rw [hs, hc, he] at h
  refine boardHash_ne K p.board q.board s hs64 hsame ?_ (xor_right_cancel (xor_right_cancel (xor_right_cancel h)))
  simp only [Pos.at] at ha hb
  rw [ha, hb]
  simp only [pieceKey, bne_iff_ne, ne_eq, ite_not]
  exact hk

/-- start position vs. start position with an extra white pawn on a3 (piece vs. empty);
start position vs. the a2 pawn replaced by a knight (piece vs. piece) -/
example : let p := startPos realKeys; let q : Pos := { startPos realKeys with board := vset (startPos realKeys).board 16 1 }
    (16 < 64) ∧ (∀ i, i ≠ 16 → p.at i = q.at i) ∧ p.at 16 = 0 ∧ q.at 16 = 1 ∧ p.side = q.side ∧ p.castling = q.castling ∧ p.ep = q.ep ∧
    (if (0 : Nat) = 0 then 0#64 else realKeys.piece 16 (pieceColor 0) (pieceType 0)) ≠
      (if (1 : Nat) = 0 then 0#64 else realKeys.piece 16 (pieceColor 1) (pieceType 1)) :=
  ⟨by decide, fun i hi => (vget_vset_ne _ _ _ _ _ hi).symm, by decide +kernel, by decide +kernel, by decide +kernel, by decide +kernel, by decide +kernel, by decide +kernel⟩
example : let p := startPos realKeys; let q : Pos := { startPos realKeys with board := vset (startPos realKeys).board 8 2 }
    (8 < 64) ∧ (∀ i, i ≠ 8 → p.at i = q.at i) ∧ p.at 8 = 1 ∧ q.at 8 = 2 ∧
    (if (1 : Nat) = 0 then 0#64 else realKeys.piece 8 (pieceColor 1) (pieceType 1)) ≠
      (if (2 : Nat) = 0 then 0#64 else realKeys.piece 8 (pieceColor 2) (pieceType 2)) :=
  ⟨by decide, fun i hi => (vget_vset_ne _ _ _ _ _ hi).symm, by decide +kernel, by decide +kernel, by decide +kernel⟩

/-- the keys the running engine drew (dumped into `Gen.zobristData`) are pairwise distinct and non-zero.
`Nodup` goes through a radix-split checker (`radixNodup`, sound by `radixNodup_sound`), evaluated by the kernel. -/
theorem realKeys_distinct : (Gen.zobristData.toList).Nodup ∧ ∀ k ∈ Gen.zobristData.toList, k ≠ 0 ∧ k < 2^64 :=
  ⟨zobristData_nodup, zobristData_range⟩

/-! ### consequences for `realKeys`: every key condition of the `hash_differs_*` theorems holds for the engine's table -/

theorem realKeys_side_ne_zero : realKeys.side ≠ 0#64 := zkey_ne_zero 768 (by decide)

theorem realKeys_castling_ne_zero (i : Nat) (hi : i < 4) : realKeys.castling i ≠ 0#64 := zkey_ne_zero (769 + i) (by omega)

theorem realKeys_ep_ne_zero (f : Nat) (hf : f < 8) : realKeys.ep f ≠ 0#64 := zkey_ne_zero (773 + f) (by omega)

theorem realKeys_ep_inj (f g : Nat) (hf : f < 8) (hg : g < 8) (h : realKeys.ep f = realKeys.ep g) : f = g := by
  have := zkey_inj (773 + f) (773 + g) (by omega) (by omega) h
  omega

theorem realKeys_piece_ne_zero (s c t : Nat) (hs : s < 64) (hc : c < 2) (ht : t < 6) : realKeys.piece s c t ≠ 0#64 :=
  zkey_ne_zero ((s * 2 + c) * 6 + t) (by omega)

theorem realKeys_piece_inj (s c t s' c' t' : Nat) (hs : s < 64) (hc : c < 2) (ht : t < 6) (hs' : s' < 64) (hc' : c' < 2) (ht' : t' < 6)
    (h : realKeys.piece s c t = realKeys.piece s' c' t') : s = s' ∧ c = c' ∧ t = t' := by
  have := zkey_inj ((s * 2 + c) * 6 + t) ((s' * 2 + c') * 6 + t') (by omega) (by omega) h
  omega

end Clemens
