import Clemens.Proofs.SearchRange
/-
C13 — lemmas towards "a mate in one is played".

 * `makeMove_low`: `MakeMove` reads only the low 16 bits of a move word (the score bits written by `scoreMoves` are ignored);
 * `negamax_checkmated`: a node that is in check and has no legal move returns the mate value `w16 (-INF + ply)` and no PV;
 * `quiescence_score_range` / `negamax_score_range`: every score returned lies in `[-INF, INF]`, and the transposition table
   keeps holding only such scores.

Proofs: `Clemens/Proofs/SearchRange.lean`.

Not proved here: the end-to-end statement "if the root has a move after which the opponent is checkmated, `search` returns such
a move".  It needs, on top of the lemmas below, that a mate score `INF - 1` at the root is never beaten or cut (easy from the
range lemma) *and* that the mating move is not discarded before being searched: it may be futility-pruned only if it gives no
check (it does), but the root node may return early through static-null-move / null-move pruning when it is not a PV node — at the
root with the windows `searchIterative` uses it is a PV node unless the aspiration window has width 1, which cannot happen
(`widenWindow = 50`).
-/
namespace Clemens
open SearchLemmas

/-! ### move words -/

/-- `MakeMove` only reads the low 16 bits of a move word: source, target, kind and promotion piece -/
theorem makeMove_low (K : Keys) (p : Pos) (m : Move) : makeMove K p m = makeMove K p (m % 65536) :=
  SearchLemmas.makeMove_low K p m

/-- e2e4 scored 650 is the same move as e2e4 -/
example : (Move.setScore (Move.mk 12 28 0) 650) % 65536 = Move.mk 12 28 0 ∧ Move.setScore (Move.mk 12 28 0) 650 ≠ Move.mk 12 28 0 := by
  decide

/-! ### checkmate -/

/-- a node in check without a legal move returns the mate value and writes no PV: for every fuel, every state of the tables,
killers, history; `.ok` excludes the cancelled and the panicking runs.
Hypotheses: `hdepth` — the `uint8` depth counter does not wrap when the check extension adds 1; `hpvn` — the node is the root or a
PV node, so that the TT probe cannot cut it off (a non-PV node may return a stored score instead). -/
theorem negamax_checkmated (K : Keys) (fuel : Nat) (p : Pos) (alpha beta : Int) (depth ply : Nat) (canNull : Bool) (prev : Move)
    (hcheck : isInCheck p p.side = true)
    (hno : ∀ m ∈ genMoves p, ∀ q, makeMove K p m = some q → isLegal q = false)
    (hdepth : depth < 255) (hpvn : ply = 0 ∨ w16 (beta - alpha) ≠ 1)
    (s s' : SState) (v : Int) (opv : Option (List Move))
    (h : negamax K fuel p alpha beta depth ply canNull prev s = (.ok (v, opv), s')) :
    v = w16 (-INF + ply) ∧ opv = none := by
  have := post_negamax_checkmated K fuel p alpha beta depth ply canNull prev hcheck hno hdepth hpvn s (v, opv) s' h
  cases this
  exact ⟨rfl, rfl⟩

/-- without wrap-around: mated at ply `ply` scores `-INF + ply` -/
theorem mateValue_eq (ply : Nat) (h : ply ≤ 65534) : w16 (-INF + ply) = -INF + ply := by
  unfold w16; rw [INF_eq]; omega

/- The hypotheses are satisfiable: for the position after 1.f3 e5 2.g4 Qh4# (parsed with `parseFen realKeys`),
`#eval (isInCheck p p.side, (genMoves p).all fun m => match makeMove realKeys p m with | some q => !isLegal q | none => true)`
gives `(true, true)`, and `#eval negamax realKeys 300 p (-INF) INF 3 0 true 0 {}` gives `ok (-32767, none)` (nodes=1, polls=1),
`#eval negamax realKeys 300 p (-100) 100 3 4 true 0 {}` gives `ok (-32763, none)`.
No kernel-checked `example`: evaluating `isInCheck` in the kernel unfolds the magic attack tables. -/
example : (3 : Nat) < 255 ∧ ((0 : Nat) = 0 ∨ w16 (INF - (-INF)) ≠ 1) := ⟨by decide, Or.inl rfl⟩

/-- the move loop of a node without legal moves returns its state unchanged (`legalMoves = 0`), whatever `recur` is -/
theorem nmLoop_no_legal (K : Keys) (recur : NegaFn) (p : Pos) (beta : Int) (depth ply : Nat) (prev : Move) (fp : Bool)
    (l : List Move) (st : LoopSt) (hl : ∀ m ∈ l, ∀ q, makeMove K p m = some q → isLegal q = false)
    (s s' : SState) (st' : LoopSt) (h : nmLoop K recur p beta depth ply prev fp l st s = (.ok st', s')) : st' = st :=
  post_nmLoop_nolegal K recur p beta depth ply prev fp l st hl s st' s' h

/-! ### the score range

`SearchLemmas.InRange v := -INF ≤ v ∧ v ≤ INF` (all of `int16` but `-32768`, so that negation never wraps).
`SearchLemmas.TTSane t`: every entry of every bucket of `t` has `InRange score`.
`SearchLemmas.InWin` (see C04): `-INF ≤ α < INF`, `-INF < β ≤ INF`.

The evaluation is the only source of scores the search does not control.  The theorems are stated for a class `C` of positions
that is closed under `makeMove` / `makeNull` and on which `evalRaw` is in range — meant to be instantiated with the "legal
material" class on which C15 bounds the evaluation. -/

example : TTSane ({} : SState).tt := ttSane_empty
example : InRange 400 ∧ InRange (-INF) ∧ ¬ InRange (-32768) := by
  unfold InRange; rw [INF_eq]; omega

/-- what `Get` returns from a sane table is in range (mate scores are shifted by `ply`) -/
theorem ttGet_score_range (t : TT) (h : BB) (alpha beta : Int) (depth ply : Nat) (ht : TTSane t) (ha : InRange alpha)
    (hb : InRange beta) (hp : ply ≤ 32767) : InRange (ttGet t h alpha beta depth ply).1 :=
  ttGet_range t h alpha beta depth ply ht ha hb hp

/-- saving an in-range score keeps the table sane -/
theorem ttSave_keeps_sane (t : TT) (h : BB) (m : Move) (d : Nat) (score : Int) (nt age : Nat) (ht : TTSane t)
    (hs : InRange score) : TTSane (ttSave t h m d score nt age) :=
  ttSave_sane t h m d score nt age ht hs

/-- every score returned by `quiescence` lies in `[-INF, INF]` (window in range; any state) -/
theorem quiescence_score_range (K : Keys) (C : Pos → Prop) (hmove : ∀ p m q, C p → makeMove K p m = some q → C q)
    (heval : ∀ p v, C p → evalRaw p = some v → InRange v)
    (fuel : Nat) (p : Pos) (hp : C p) (alpha beta : Int) (ply : Nat) (ha : InRange alpha) (hb : InRange beta)
    (s s' : SState) (v : Int) (h : quiescence K fuel p alpha beta ply s = (.ok v, s')) : InRange v :=
  (posti_quiescence_range (I := fun _ => True) (fun _ _ _ _ => trivial) K C hmove heval fuel p hp alpha beta ply ha hb
    s v s' trivial h).2

/-- every score returned by `negamax` lies in `[-INF, INF]`, and the table stays sane: window in `InWin`, start table sane,
`ply + fuel ≤ 32767` (so that neither the mate value `-INF + ply` nor the ply shift of stored mate scores wraps) -/
theorem negamax_score_range (K : Keys) (C : Pos → Prop) (hmove : ∀ p m q, C p → makeMove K p m = some q → C q)
    (hnull : ∀ p, C p → C (makeNull K p).1) (heval : ∀ p v, C p → evalRaw p = some v → InRange v)
    (fuel : Nat) (p : Pos) (hp : C p) (alpha beta : Int) (depth ply : Nat) (canNull : Bool) (prev : Move)
    (hw : InWin alpha beta) (hply : ply + fuel ≤ 32767)
    (s s' : SState) (hs : TTSane s.tt) (v : Int) (opv : Option (List Move))
    (h : negamax K fuel p alpha beta depth ply canNull prev s = (.ok (v, opv), s')) : InRange v ∧ TTSane s'.tt := by
  have := posti_negamax_range K C hmove hnull heval fuel p hp alpha beta depth ply canNull prev hw hply s (v, opv) s' hs h
  exact ⟨this.2, this.1⟩

/-- the same for a root search (`fuel = 300`, `ply = 0`) -/
theorem searchRoot_score_range (K : Keys) (C : Pos → Prop) (hmove : ∀ p m q, C p → makeMove K p m = some q → C q)
    (hnull : ∀ p, C p → C (makeNull K p).1) (heval : ∀ p v, C p → evalRaw p = some v → InRange v)
    (root : Pos) (hp : C root) (depth : Nat) (alpha beta : Int) (hw : InWin alpha beta)
    (s s' : SState) (hs : TTSane s.tt) (v : Int) (opv : Option (List Move))
    (h : searchRoot K root depth alpha beta s = (.ok (v, opv), s')) : InRange v ∧ TTSane s'.tt := by
  unfold searchRoot at h
  rw [bind_ok (SM.modify _) _ s { s with killers := {} } () rfl] at h
  exact negamax_score_range K C hmove hnull heval 300 root hp alpha beta depth 0 true 0 hw (by decide)
    { s with killers := {} } s' hs v opv h

/- The class hypotheses are satisfiable in the degenerate way (`C := fun _ => False` has no root); a useful instance needs the
evaluation bound of C15 for `C := positions with legal material`.  `hw`, `hply`, `hs` are satisfied by the calls the engine makes: -/
example : InWin (-INF) INF ∧ 0 + 300 ≤ 32767 ∧ TTSane ({} : SState).tt := ⟨inwin_root, by decide, ttSane_empty⟩

end Clemens
