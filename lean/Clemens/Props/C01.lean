import Clemens.Proofs.LegalPerft
/-
C01 — the moves the engine treats as playable (`engineLegal`: generate pseudo-legal moves, make each, keep those after
which the mover is not in check) are exactly the legal moves of the rules (`Fide.legalMoves`), each exactly once, and the
position reached is the rules' successor.

Ingredients: C01a (`genMoves_exact`, `genMoves_nodup`, `genMoves_shape`), C02 (`makeMove_refines`), C10 (`makeMove_wfShape`,
here through a namespaced copy of its lemma library, see `Clemens/Proofs/LegalBoardViews.lean`), the attack query of C12d
(through `GM.attackedByExact_of_shape` of C01a).
Lemma libraries: `Clemens/Proofs/LegalPseudo.lean` (what the rules' move list says about a generated move),
`LegalSucc.lean` (the successor square by square, kings, check), `LegalExact.lean` (the two lists),
`LegalWF.lean` (legal positions stay legal; the statement is `WF_makeMove` in `Clemens/Props/C10b.lean`),
`LegalPerft.lean` (the rules' own lists have no duplicates; node counts).
-/
namespace Clemens

/-- a generated move has the shape `makeMove_refines` needs -/
theorem moveShape_of_gen (p : Pos) (hw : WF p = true) (m : Move) (hm : m ∈ genMoves p) : MoveShape p m :=
  LG.moveShape_of p m (genMoves_shape p hw m hm) (LG.pseudoFacts_of_gen p hw m hm)

-- hypotheses satisfiable: the example position of C01a (castling rights, an en passant square, promotions); its
-- generated list is not empty (seen through the specification: the rook lift a1-a8 is generated)
example : WF C01a.exPos = true ∧ ∃ m, m ∈ genMoves C01a.exPos := by
  refine ⟨C01a.ex_WF, ?_⟩
  have h : (⟨0, 56, none⟩ : Fide.Move) ∈ (genMoves C01a.exPos).map absMove := by
    rw [(genMoves_exact C01a.exPos C01a.ex_WF).1]; decide +kernel
  obtain ⟨m, hm, _⟩ := List.mem_map.1 h
  exact ⟨m, hm⟩

/-- what membership in the engine's list means -/
theorem mem_engineLegal (K : Keys) (p : Pos) (m : Move) (q : Pos) :
    (m, q) ∈ engineLegal K p ↔ m ∈ genMoves p ∧ makeMove K p m = some q ∧ isLegal q = true :=
  LG.mem_engineLegal K p m q

/-- the successor the engine reaches is the FIDE successor of that move -/
theorem engineLegal_succ (K : Keys) (p : Pos) (hw : WF p = true) (hr : p.ply < 255 ∧ p.hmc < 255) (m : Move) (q : Pos)
    (h : (m, q) ∈ engineLegal K p) : absPos q = Fide.apply (absPos p) (absMove m) := by
  obtain ⟨hm, hq, _⟩ := (LG.mem_engineLegal K p m q).1 h
  obtain ⟨q', hq', habs, _⟩ := LG.succ_exists K p hw hr m hm
  rw [hq] at hq'
  injection hq' with hq'
  rw [hq']; exact habs

/-- C01, main statement: the moves the engine treats as playable are exactly the FIDE legal moves — none missing, none
extra, none duplicated -/
theorem legal_exact (K : Keys) (p : Pos) (hw : WF p = true) (hr : p.ply < 255 ∧ p.hmc < 255) :
    (∀ mv : Fide.Move, mv ∈ ((engineLegal K p).map (fun mq => absMove mq.1)) ↔ mv ∈ Fide.legalMoves (absPos p)) ∧
    ((engineLegal K p).map (fun mq => absMove mq.1)).Nodup :=
  ⟨LG.engineLegal_mem K p hw hr, LG.engineLegal_nodup K p hw⟩

theorem C01.ex_range : C01a.exPos.ply < 255 ∧ C01a.exPos.hmc < 255 := by decide +kernel

-- hypotheses satisfiable: the example position.  Consequences there (the right-hand sides are evaluated on the
-- specification only): the en passant capture e5xd6, the promotion b7xa8=Q, castling O-O and O-O-O are playable for the
-- engine; e1-e3 is not
example : WF C01a.exPos = true ∧ C01a.exPos.ply < 255 ∧ C01a.exPos.hmc < 255 := ⟨C01a.ex_WF, C01.ex_range⟩
example :
    let l := (engineLegal realKeys C01a.exPos).map (fun mq => absMove mq.1)
    (⟨36, 43, none⟩ : Fide.Move) ∈ l ∧ (⟨49, 56, some 4⟩ : Fide.Move) ∈ l ∧ (⟨4, 6, none⟩ : Fide.Move) ∈ l ∧
    (⟨4, 2, none⟩ : Fide.Move) ∈ l ∧ (⟨4, 20, none⟩ : Fide.Move) ∉ l := by
  simp only [(legal_exact realKeys C01a.exPos C01a.ex_WF C01.ex_range).1]
  decide +kernel

-- `engineLegal_succ`: hypotheses satisfiable — the engine's list in the example position contains a pair (m, q)
example : WF C01a.exPos = true ∧ (C01a.exPos.ply < 255 ∧ C01a.exPos.hmc < 255) ∧
    ∃ m q, (m, q) ∈ engineLegal realKeys C01a.exPos := by
  refine ⟨C01a.ex_WF, C01.ex_range, ?_⟩
  have h : (⟨36, 43, none⟩ : Fide.Move) ∈ (engineLegal realKeys C01a.exPos).map (fun mq => absMove mq.1) := by
    rw [(legal_exact realKeys C01a.exPos C01a.ex_WF C01.ex_range).1]; decide +kernel
  obtain ⟨⟨m, q⟩, hmq, _⟩ := List.mem_map.1 h
  exact ⟨m, q, hmq⟩

/-! ### perft -/

/-- the rules' own move lists have no duplicates in a legal position (needed for counting) -/
theorem legalMoves_nodup (p : Pos) (hw : WF p = true) :
    (Fide.pseudoMoves (absPos p)).Nodup ∧ (Fide.legalMoves (absPos p)).Nodup :=
  ⟨LG.pseudoMoves_nodup p hw, LG.legalMoves_nodup p hw⟩

/-- … so the two lists are permutations of each other -/
theorem legal_perm (K : Keys) (p : Pos) (hw : WF p = true) (hr : p.ply < 255 ∧ p.hmc < 255) :
    ((engineLegal K p).map (fun mq => absMove mq.1)).Perm (Fide.legalMoves (absPos p)) :=
  (List.perm_ext_iff_of_nodup (LG.engineLegal_nodup K p hw) (LG.legalMoves_nodup p hw)).2 (LG.engineLegal_mem K p hw hr)

/-- perft: the engine's node count equals the true count, for every depth (positions within the counter range:
ply + depth ≤ 255 and hmc + depth ≤ 255) -/
theorem perft_exact (K : Keys) (p : Pos) (hw : WF p = true) (d : Nat) (hr : p.ply + d ≤ 255 ∧ p.hmc + d ≤ 255) :
    perft K p d = Fide.perft (absPos p) d := LG.perft_eq K d p hw hr

-- hypotheses satisfiable: the example position, any depth up to 253; at depth 1 the count is the number of legal moves
-- of the rules there (evaluated on the specification only)
example : WF C01a.exPos = true ∧ C01a.exPos.ply + 3 ≤ 255 ∧ C01a.exPos.hmc + 3 ≤ 255 :=
  ⟨C01a.ex_WF, by decide +kernel⟩
example : perft realKeys C01a.exPos 1 = (Fide.legalMoves (absPos C01a.exPos)).length := by
  rw [perft_exact realKeys C01a.exPos C01a.ex_WF 1 (by decide +kernel)]
  have sum_ones : ∀ l : List Fide.Move, (l.map fun _ => 1).sum = l.length := by
    intro l
    induction l with
    | nil => rfl
    | cons a l ih => rw [List.map_cons, List.sum_cons, ih, List.length_cons, Nat.add_comm]
  exact sum_ones _

end Clemens
