import Clemens.Gen.Src
/-
C08 — the time budget never exceeds what is on the clock.

The theorems are about `Src.search.calculateTime`, the definition that tools/go2lean regenerates from the Go source text of
`pkg/search/search.go` on every run (Go `int` ↦ `Int`, `/` ↦ truncating division, the SearchParameter struct ↦ a structure).
They are proved by one generic script — unfold, split every branch, linear arithmetic with every truncating division left
opaque — so a rewrite of the function that keeps the property (another buffer formula of the shape `m - max(…, c)` with c > 0,
other constants, reordered branches) is re-proved automatically, and a rewrite that breaks it makes the script fail.
(The same statements for the hand-written model, with the tie `calculateTime_tie`, are in Props/M08.lean and M08b.lean.)
-/
namespace Clemens
open Src

/-- the mover's clock / increment (side 1 = black, as in the Go code) -/
def srcClock (side : BitVec 8) (sp : search.SearchParameter) : Int := if side == 1#8 then sp.BTime else sp.WTime
def srcInc (side : BitVec 8) (sp : search.SearchParameter) : Int := if side == 1#8 then sp.BInc else sp.WInc

macro "budget_tac" : tactic => `(tactic| (
  unfold search.calculateTime
  src_unfold_helpers
  simp only [decide_eq_true_eq, Bool.and_eq_true, Bool.or_eq_true, Bool.not_eq_true', decide_eq_false_iff_not]
  (repeat' split) <;> (try simp only [*, if_true, if_false, Bool.false_eq_true] at *) <;>
    (try simp only [decide_eq_true_eq, Bool.and_eq_true, Bool.or_eq_true, Bool.not_eq_true', decide_eq_false_iff_not,
      Bool.not_eq_true, true_and, and_true, false_and, and_false, true_or, or_true, false_or, or_false, not_true_eq_false,
      not_false_eq_true] at *) <;> omega))

/-- the budget is less than the remaining clock time of the side to move whenever that is known (positive) -/
theorem src_budget_lt_clock (side : BitVec 8) (plys : Int) (sp : search.SearchParameter) (h : 0 < srcClock side sp) :
    search.calculateTime side plys sp < srcClock side sp := by
  unfold srcClock at *
  budget_tac

/-- … and less than an explicit movetime when one is given … -/
theorem src_budget_lt_movetime (side : BitVec 8) (plys : Int) (sp : search.SearchParameter) (h : 0 < sp.MoveTime) :
    search.calculateTime side plys sp < sp.MoveTime := by
  budget_tac

/-- … both at once (clock known and movetime given) … -/
theorem src_budget_lt_both (side : BitVec 8) (plys : Int) (sp : search.SearchParameter)
    (hc : 0 < srcClock side sp) (hm : 0 < sp.MoveTime) :
    search.calculateTime side plys sp < srcClock side sp ∧ search.calculateTime side plys sp < sp.MoveTime :=
  ⟨src_budget_lt_clock side plys sp hc, src_budget_lt_movetime side plys sp hm⟩

/-- … and it depends only on the mover's own clock and increment, never on the opponent's: two parameter sets that differ at most in the
opponent's clock and increment get the same budget (everything else — movetime, movestogo, depth, infinite — is the same on both sides) -/
theorem src_budget_ignores_opponent (side : BitVec 8) (plys : Int) (sp sp' : search.SearchParameter)
    (hc : srcClock side sp = srcClock side sp') (hi : srcInc side sp = srcInc side sp') (hm : sp.MoveTime = sp'.MoveTime)
    (hg : sp.MovesToGo = sp'.MovesToGo) (hd : sp.Depth = sp'.Depth) (hf : sp.Infinite = sp'.Infinite) :
    search.calculateTime side plys sp = search.calculateTime side plys sp' := by
  unfold srcClock srcInc at *
  unfold search.calculateTime
  src_unfold_helpers
  by_cases hs : (side == 1#8) = true <;> simp only [hs, if_true, if_false, Bool.false_eq_true] at * <;> simp only [hc, hi, hm, hg, hd, hf]

-- the hypotheses are satisfiable by a non-trivial value: 100 ms on the clock, 2 s increment (the witness of the repaired defect D4);
-- the theorem then bounds the regenerated function's value at that point, whatever it is
example : 0 < srcClock 0#8 ⟨100, 60000, 2000, 0, 0, 0#8, 0, false⟩ := by decide
example : search.calculateTime 0#8 0 ⟨100, 60000, 2000, 0, 0, 0#8, 0, false⟩ < 100 :=
  src_budget_lt_clock 0#8 0 ⟨100, 60000, 2000, 0, 0, 0#8, 0, false⟩ (by decide)

end Clemens
