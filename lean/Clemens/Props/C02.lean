import Clemens.Proofs.MakeMoveKinds
/-
C02 — `MakeMove` yields the FIDE successor: for every position with consistent scalar state and every
move word of the shape the generators produce, `makeMove` does not panic and its result, seen through
the abstraction `absPos` (what a FEN shows), is `Fide.apply` of the abstracted position and move.
Lemmas: Clemens/Proofs/MakeMove.lean (stages, castling rights, side/ply),
Clemens/Proofs/MakeMoveMid.lean (common stages, scalar fields), Clemens/Proofs/MakeMoveKinds.lean (per kind).
-/
namespace Clemens

/-- the fields of `MoveShape` exactly as the task lists them -/
structure MoveShapeBase (p : Pos) (m : Move) : Prop where
  src_lt : m.src < 64
  tgt_lt : m.tgt < 64
  ne : m.src ≠ m.tgt
  /-- the mover's own piece stands on the source square -/
  own : p.at m.src ≠ 0 ∧ validPiece (p.at m.src) = true ∧ pieceColor (p.at m.src) = p.side
  /-- the target square is empty or holds an enemy piece -/
  target : p.at m.tgt = 0 ∨ (validPiece (p.at m.tgt) = true ∧ pieceColor (p.at m.tgt) ≠ p.side)
  kind_lt : m.kind < 4
  /-- castling kind ⇔ the king moves two files -/
  castle : m.kind = 3 ↔ (pieceType (p.at m.src) = KING ∧ (m.tgt = m.src + 2 ∨ m.src = m.tgt + 2))
  /-- a castling king starts on e1/e8, the mover's rook stands in the corresponding corner, the rook's
  destination and the king's destination are empty -/
  castle_geom : m.kind = 3 → (m.src = 4 ∨ m.src = 60) ∧
    (m.tgt = m.src + 2 → p.at (m.src + 3) = newPiece p.side ROOK ∧ p.at (m.src + 1) = 0) ∧
    (m.src = m.tgt + 2 → p.at (m.src - 4) = newPiece p.side ROOK ∧ p.at (m.src - 1) = 0) ∧
    p.at m.tgt = 0
  /-- en passant kind ⇔ a pawn changes file onto an empty square -/
  ep : m.kind = 2 ↔ (pieceType (p.at m.src) = PAWN ∧ fileOf m.src ≠ fileOf m.tgt ∧ p.at m.tgt = 0)
  /-- the enemy pawn stands behind the en passant target -/
  ep_victim : m.kind = 2 → 8 ≤ m.tgt ∧ m.tgt < 56 ∧
    p.at (if p.side = 0 then m.tgt - 8 else m.tgt + 8) = newPiece (switchColor p.side) PAWN
  /-- promotion kind ⇔ a pawn reaches the first or last rank -/
  promo : m.kind = 1 ↔ (pieceType (p.at m.src) = PAWN ∧ (rankOf m.tgt = 7 ∨ rankOf m.tgt = 0))
  promo_piece : m.kind = 1 → 1 ≤ m.promo ∧ m.promo ≤ 4

/-- what a generated legal-looking move word looks like in its position (all true of every move the
generators produce in a legal position).  `pawn_fwd` is ADDED to the fields of the task: without it the
theorem is false — for a pawn that "moves" two ranks backwards the engine records the square behind the
target as en passant square, `Fide.apply` the square in front of the source (see the `example` below).
Only the double-step instance of `pawn_fwd` is used in the proof. -/
structure MoveShape (p : Pos) (m : Move) : Prop extends MoveShapeBase p m where
  /-- pawns move towards the far side: up the board for white, down for black -/
  pawn_fwd : pieceType (p.at m.src) = PAWN → if p.side = 0 then m.src < m.tgt else m.tgt < m.src

instance (p : Pos) (m : Move) : Decidable (MoveShapeBase p m) :=
  decidable_of_iff
    ((m.src < 64) ∧ (m.tgt < 64) ∧ (m.src ≠ m.tgt) ∧
     (p.at m.src ≠ 0 ∧ validPiece (p.at m.src) = true ∧ pieceColor (p.at m.src) = p.side) ∧
     (p.at m.tgt = 0 ∨ (validPiece (p.at m.tgt) = true ∧ pieceColor (p.at m.tgt) ≠ p.side)) ∧
     (m.kind < 4) ∧
     (m.kind = 3 ↔ (pieceType (p.at m.src) = KING ∧ (m.tgt = m.src + 2 ∨ m.src = m.tgt + 2))) ∧
     (m.kind = 3 → (m.src = 4 ∨ m.src = 60) ∧
      (m.tgt = m.src + 2 → p.at (m.src + 3) = newPiece p.side ROOK ∧ p.at (m.src + 1) = 0) ∧
      (m.src = m.tgt + 2 → p.at (m.src - 4) = newPiece p.side ROOK ∧ p.at (m.src - 1) = 0) ∧
      p.at m.tgt = 0) ∧
     (m.kind = 2 ↔ (pieceType (p.at m.src) = PAWN ∧ fileOf m.src ≠ fileOf m.tgt ∧ p.at m.tgt = 0)) ∧
     (m.kind = 2 → 8 ≤ m.tgt ∧ m.tgt < 56 ∧
      p.at (if p.side = 0 then m.tgt - 8 else m.tgt + 8) = newPiece (switchColor p.side) PAWN) ∧
     (m.kind = 1 ↔ (pieceType (p.at m.src) = PAWN ∧ (rankOf m.tgt = 7 ∨ rankOf m.tgt = 0))) ∧
     (m.kind = 1 → 1 ≤ m.promo ∧ m.promo ≤ 4))
    ⟨fun ⟨a, b, c, d, e, f, g, h, i, j, k, l⟩ => ⟨a, b, c, d, e, f, g, h, i, j, k, l⟩,
     fun ⟨a, b, c, d, e, f, g, h, i, j, k, l⟩ => ⟨a, b, c, d, e, f, g, h, i, j, k, l⟩⟩

instance (p : Pos) (m : Move) : Decidable (MoveShape p m) :=
  decidable_of_iff
    (MoveShapeBase p m ∧ (pieceType (p.at m.src) = PAWN → if p.side = 0 then m.src < m.tgt else m.tgt < m.src))
    ⟨fun ⟨a, b⟩ => ⟨a, b⟩, fun ⟨a, b⟩ => ⟨a, b⟩⟩

/-- positions for the examples, read from a FEN by the model's own parser -/
def C02.posOfFen (fen : String) : Pos :=
  match parseFen realKeys (fen.toList.map Char.toNat) with
  | .ok p => p
  | _ => Pos.empty

/-- all hypotheses of the refinement theorem at once (for the examples) -/
def C02.Hyps (p : Pos) (m : Move) : Prop :=
  wfShape p = true ∧ wfState p = true ∧ MoveShape p m ∧ p.ply < 255 ∧ p.hmc < 255

instance (p : Pos) (m : Move) : Decidable (C02.Hyps p m) := by unfold C02.Hyps; infer_instance

/-! ### per move kind (none of them needs `wfShape`) -/

theorem makeMove_refines_normal (K : Keys) (p : Pos) (m : Move) (hst : wfState p = true) (hm : MoveShape p m)
    (hr : p.ply < 255 ∧ p.hmc < 255) (hk : m.kind = 0) :
    ∃ q, makeMove K p m = some q ∧ absPos q = Fide.apply (absPos p) (absMove m) :=
  refines_normal hst hm.src_lt hm.tgt_lt hm.ne hm.own.2.1 (hm.target.imp id And.left) hm.pawn_fwd hr hk
    (fun h => by have := hm.castle.2 h; omega) (fun h => by have := hm.ep.2 h; omega)

/-- e2e4 in the start position (double push: the en passant square e3 appears), Ng1f3 -/
example : C02.Hyps (startPos realKeys) (Move.mk 12 28 0) ∧ (Move.mk 12 28 0).kind = 0 ∧
    C02.Hyps (startPos realKeys) (Move.mk 6 21 0) := by decide +kernel
/-- rook takes rook on the home squares (a1xa8), both sides lose the queen-side right -/
example : C02.Hyps (C02.posOfFen "r3k2r/8/8/8/8/8/8/R3K2R w KQkq - 0 1") (Move.mk 0 56 0) := by decide +kernel

theorem makeMove_refines_promotion (K : Keys) (p : Pos) (m : Move) (hst : wfState p = true) (hm : MoveShape p m)
    (hr : p.ply < 255 ∧ p.hmc < 255) (hk : m.kind = 1) :
    ∃ q, makeMove K p m = some q ∧ absPos q = Fide.apply (absPos p) (absMove m) :=
  refines_promotion hst hm.src_lt hm.tgt_lt hm.ne hm.own.2.1 (hm.target.imp id And.left) hm.pawn_fwd hr hk
    (hm.promo.1 hk).1 (fun h => by have := hm.ep.2 h; omega) (hm.promo_piece hk)

/-- b7xa8=Q (promotion with capture of the a8 rook), and black's g2-g1=N -/
example : C02.Hyps (C02.posOfFen "rn2k2r/1P4P1/8/8/8/8/1p4p1/RN2K2R w KQkq - 0 1") ((Move.mk 49 56 1).withPromo QUEEN) ∧
    C02.Hyps (C02.posOfFen "rn2k2r/1P4P1/8/8/8/8/1p4p1/RN2K2R b KQkq - 0 1") ((Move.mk 14 6 1).withPromo KNIGHT) := by
  decide +kernel

theorem makeMove_refines_enpassant (K : Keys) (p : Pos) (m : Move) (hst : wfState p = true) (hm : MoveShape p m)
    (hr : p.ply < 255 ∧ p.hmc < 255) (hk : m.kind = 2) :
    ∃ q, makeMove K p m = some q ∧ absPos q = Fide.apply (absPos p) (absMove m) :=
  refines_enpassant hst hm.src_lt hm.tgt_lt hm.ne hm.own.2.1 hm.pawn_fwd hr hk
    (hm.ep.1 hk).1 (hm.ep.1 hk).2.1 (hm.ep.1 hk).2.2 (hm.ep_victim hk)

/-- e5xd6 e.p. for white, d4xe3 e.p. for black -/
example : C02.Hyps (C02.posOfFen "4k3/8/8/3pP3/8/8/8/4K3 w - d6 0 2") (Move.mk 36 43 2) ∧
    C02.Hyps (C02.posOfFen "4k3/8/8/8/3pP3/8/8/4K3 b - e3 0 2") (Move.mk 27 20 2) := by decide +kernel

theorem makeMove_refines_castling (K : Keys) (p : Pos) (m : Move) (hst : wfState p = true) (hm : MoveShape p m)
    (hr : p.ply < 255 ∧ p.hmc < 255) (hk : m.kind = 3) :
    ∃ q, makeMove K p m = some q ∧ absPos q = Fide.apply (absPos p) (absMove m) :=
  refines_castling hst hm.src_lt hm.tgt_lt hm.ne hm.own.2.1 (hm.target.imp id And.left) hr hk
    (hm.castle.1 hk).1 (hm.castle.1 hk).2 (hm.castle_geom hk).1
    (fun h => ((hm.castle_geom hk).2.1 h).1) (fun h => ((hm.castle_geom hk).2.2.1 h).1)

/-- O-O and O-O-O for white and for black -/
example : C02.Hyps (C02.posOfFen "r3k2r/8/8/8/8/8/8/R3K2R w KQkq - 0 1") ((3 <<< 12) ||| 4 ||| (6 <<< 6)) ∧
    C02.Hyps (C02.posOfFen "r3k2r/8/8/8/8/8/8/R3K2R w KQkq - 0 1") ((3 <<< 12) ||| 4 ||| (2 <<< 6)) ∧
    C02.Hyps (C02.posOfFen "r3k2r/8/8/8/8/8/8/R3K2R b KQkq - 0 1") ((3 <<< 12) ||| 60 ||| (62 <<< 6)) ∧
    C02.Hyps (C02.posOfFen "r3k2r/8/8/8/8/8/8/R3K2R b KQkq - 0 1") ((3 <<< 12) ||| 60 ||| (58 <<< 6)) := by
  decide +kernel

/-! ### the refinement theorem -/

/-- THE refinement theorem: for every consistent position and every move of that shape the engine's
successor, seen through the abstraction (what a FEN shows), is exactly the successor defined by the
rules; in particular MakeMove does not panic.  Counter range: ply < 255 and hmc < 255 (the width of the
counters).  (`wfShape` is not used: the abstraction only reads the board array and the scalar fields.) -/
theorem makeMove_refines (K : Keys) (p : Pos) (m : Move) (_hw : wfShape p = true) (hst : wfState p = true)
    (hm : MoveShape p m) (hr : p.ply < 255 ∧ p.hmc < 255) :
    ∃ q, makeMove K p m = some q ∧ absPos q = Fide.apply (absPos p) (absMove m) := by
  have hk := hm.kind_lt
  have h4 : m.kind = 0 ∨ m.kind = 1 ∨ m.kind = 2 ∨ m.kind = 3 := by omega
  rcases h4 with h | h | h | h
  · exact makeMove_refines_normal K p m hst hm hr h
  · exact makeMove_refines_promotion K p m hst hm hr h
  · exact makeMove_refines_enpassant K p m hst hm hr h
  · exact makeMove_refines_castling K p m hst hm hr h

/-- the hypotheses hold for e2e4 in the start position -/
example : wfShape (startPos realKeys) = true ∧ wfState (startPos realKeys) = true ∧
    MoveShape (startPos realKeys) (Move.mk 12 28 0) ∧ (startPos realKeys).ply < 255 ∧ (startPos realKeys).hmc < 255 := by
  decide +kernel

/-- `pawn_fwd` is needed: for the (never generated) move e4-e2 of a white pawn all fields the task lists
hold, and the engine's successor differs from the rules' (en passant square e1 versus e5) -/
example :
    let p := C02.posOfFen "4k3/8/8/8/4P3/8/8/4K3 w - - 0 1"
    let m := Move.mk 28 12 0
    wfShape p = true ∧ wfState p = true ∧ MoveShapeBase p m ∧
    (makeMove realKeys p m).map absPos ≠ some (Fide.apply (absPos p) (absMove m)) ∧
    ((makeMove realKeys p m).map absPos).map (·.ep) = some (some 4) ∧
    (Fide.apply (absPos p) (absMove m)).ep = some 36 := by
  decide +kernel

/-- the counter bounds are needed: at ply 255 the engine's `uint8` ply wraps to 0 -/
example :
    let p := { C02.posOfFen "4k3/8/8/8/8/8/8/4K2R b - - 0 1" with ply := 255 }
    let m := Move.mk 60 59 0
    wfShape p = true ∧ wfState p = true ∧ MoveShape p m ∧
    (makeMove realKeys p m).map absPos ≠ some (Fide.apply (absPos p) (absMove m)) := by
  decide +kernel

/-! ### side and ply -/

/-- whenever `makeMove` succeeds the other side is to move -/
theorem makeMove_side (K : Keys) (p q : Pos) (m : Move) (h : makeMove K p m = some q) :
    q.side = switchColor p.side := (makeMove_side_ply h).1

/-- whenever `makeMove` succeeds the ply counter advanced by one (in `uint8`) -/
theorem makeMove_ply (K : Keys) (p q : Pos) (m : Move) (h : makeMove K p m = some q) :
    q.ply = (p.ply + 1) % 256 := (makeMove_side_ply h).2

example : ∃ q, makeMove realKeys (startPos realKeys) (Move.mk 12 28 0) = some q ∧
    q.side = switchColor (startPos realKeys).side ∧ q.ply = ((startPos realKeys).ply + 1) % 256 := by
  have hh : C02.Hyps (startPos realKeys) (Move.mk 12 28 0) := by decide +kernel
  obtain ⟨q, hq, -⟩ := makeMove_refines realKeys _ _ hh.1 hh.2.1 hh.2.2.1 hh.2.2.2
  exact ⟨q, hq, makeMove_side _ _ _ _ hq, makeMove_ply _ _ _ _ hq⟩

end Clemens
