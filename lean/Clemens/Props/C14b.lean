import Clemens.Model.TT
import Clemens.Gen.Src
import Clemens.Proofs.TieTac
/-
Tie T1 for the packed age / bound byte of a transposition table entry (`ttentry.go`).
-/
namespace Clemens
open Src

-- only the fallback `tie_tac` (64 bit positions of a rewritten definition) needs more than the default budget; the `rfl` path does not
set_option maxHeartbeats 1000000

theorem tie_nodeType (e : tt.ttEntry) (m : TTEntry) (h : m.ageNode = e.ageAndNodeType.toNat) :
    (tt.ttEntry_getNodeType e).toNat = m.nodeType := by
  have h3 : (3#8 : BitVec 8).toNat = 3 := rfl
  first
  | tie_rfl
  | tie_budget 200000 (
      simp only [tt.ttEntry_getNodeType, TTEntry.nodeType, BitVec.toNat_and, h3, h]; done)
  | tie_tac

theorem tie_age (e : tt.ttEntry) (m : TTEntry) (h : m.ageNode = e.ageAndNodeType.toNat) :
    (tt.ttEntry_getAge e).toNat = m.age := by
  first
  | tie_rfl
  | tie_budget 200000 (
      simp only [tt.ttEntry_getAge, TTEntry.age, BitVec.toNat_ushiftRight, h]; done)
  | tie_tac

end Clemens
