import Clemens.Model.TT
import Clemens.Gen.Src
/-
Tie T1 for the packed age / bound byte of a transposition table entry (`ttentry.go`).
-/
namespace Clemens
open Src

theorem tie_nodeType (e : tt.ttEntry) (m : TTEntry) (h : m.ageNode = e.ageAndNodeType.toNat) :
    (tt.ttEntry_getNodeType e).toNat = m.nodeType := by
  have h3 : (3#8 : BitVec 8).toNat = 3 := rfl
  simp only [tt.ttEntry_getNodeType, TTEntry.nodeType, BitVec.toNat_and, h3, h]

theorem tie_age (e : tt.ttEntry) (m : TTEntry) (h : m.ageNode = e.ageAndNodeType.toNat) :
    (tt.ttEntry_getAge e).toNat = m.age := by
  simp only [tt.ttEntry_getAge, TTEntry.age, BitVec.toNat_ushiftRight, h]

end Clemens
