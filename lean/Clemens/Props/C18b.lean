import Clemens.Props.C18
import Clemens.Props.C01
import Clemens.Proofs.SeeSpecLegal
/-
C18b — the engine's static exchange evaluation against the specification's exchange minimax (`Fide.see`).

FINDING (sanity sweep, `#eval`): the statement asked for,

  theorem see_sign_spec (p : Pos) (hw : WF p = true) (m : Move) (hcap : p.at m.tgt ≠ 0) (hkind : m.kind ≠ 2)
      (hgen : m ∈ genMoves p) (hlegal : the successor is legal) (v : Int) (hv : see p m = some v) :
      Fide.signOf v = Fide.signOf (Fide.see pieceValue (absPos p) m.src m.tgt)

is FALSE as it stands: `WF` does not bound the number of pieces, the model's loop (`gain[32]` in the Go code) handles at
most 31 capturers, the specification up to 41.  Counterexamples (`WF` holds, the capture is generated and legal; evaluated
with `#eval`, script `scratch/cex.lean`):

  FEN  Q1NR2Q1/nbnQnBNp/PNqrbNnn/RRrprRqq/NNbQbnnP/KBNqNbN1/QPPrnnBp/2Nrk1nQ w - - 0 1  (56 pieces)  move c3d5 (word 2258)
       see p m = some 100  (sign +1)        Fide.see pieceValue (absPos p) 18 35 = -210  (sign -1)
       (34 further capturers follow the knight; the model's loop stops after 30)
  FEN  B2QNNb1/nbNrNBn1/1NbrBn1K/rrrpRrRR/NNBRBn1P/nQnqnqpp/qnPQn1BP/nN1q2kB w - - 0 1   (53 pieces)  move c4d5 (word 2266)
       see p m = some 100  (sign +1)        Fide.see pieceValue (absPos p) 26 35 = -10   (sign -1)
       (31 further capturers: one more than the loop handles)

With at most 32 pieces on the board (`popcount p.all ≤ 32`, true in every position reachable in a game) the statement
holds: `see_sign_spec_partial` below.  Apart from such constructed positions (more than 50 pieces, 32 or more of them
capturing on one square) no sign disagreement was found: 0 in about 55 000 legal captures of random positions (sparse,
and dense clusters around a target square).

Proof structure (lemma libraries `Clemens/Proofs/SeeSpec*.lean`, namespace `Clemens.P18`):
  (a) `SeeSpecSeq`   `Fide.seeRec` unrolled along its least attackers is `minimaxSeq` over their values (`specSeq`);
  (b) `SeeSpecBits/Board/Sim/Step`  invariant of the model's loop: its attacker bitboard, restricted to the pieces that
      have not captured yet, is the specification's attacker set on the current board (original position minus the
      capturers, target occupied).  X-rays: `Geo.reach` only grows when a square is vacated (`reach_mono`); after a knight
      nothing changes because a knight stands on no line through the target (`knight_offline`);
  (c) `SeeSpecKing/Legal`  king rule "before the king moves" (model) against "after" (specification): they differ only
      if an enemy slider stands behind the king on the line through the target (`king_xray`); then that slider attacks
      the king already in the original position (no capturer can have stood between them, `not_removed_behind`), which
      contradicts legality of the position (king of the side not to move) or of the first capture (king of the side to
      move, which is still attacked after the capture) — `kingSafe_of_legal`;
  (d) `SeeSpecFuel/Init`  both lists are independent of the fuel once it exceeds the number of pieces; `see_sign` (C18).
-/
namespace Clemens

open P18

/-! ### (a) the specification as a list -/

/-- the specification's recursion is the minimax over the values of the capturers it finds -/
theorem seeRec_eq_minimaxSeq (value : Nat → Int) (fuel : Nat) (q : Fide.Pos) (t side : Nat) (victim : Int) :
    Fide.seeRec value fuel q t side victim = minimaxSeq victim (specSeq value fuel q t side) :=
  P18.seeRec_eq_minimaxSeq value fuel q t side victim

/-- the specification's exchange value is `exchangeValue` over the list of capturer values it finds -/
theorem spec_see_eq_exchangeValue (value : Nat → Int) (P : Fide.Pos) (src tgt : Nat) :
    Fide.see value P src tgt =
      exchangeValue (value (Fide.kindOf (P.at tgt))) (value (Fide.kindOf (P.at src)))
        (specSeq value 40 (capBoard P src tgt) tgt (Fide.other (Fide.colorOf (P.at src)))) :=
  P18.spec_see_eq value P src tgt

-- the example position of C18 (white Rd1 Rd2 Ke1, black Qd5 pe6 Ke8), Rd2xd5: the specification finds pawn, rook
-- (stated through `pieceValue`, not through the current numbers `[100, 510]` / `500`, so that tuning the piece values does not break them)
example : specSeq pieceValue 40 (capBoard (absPos c18ExamplePos) 11 35) 35 1 = [pieceValue PAWN, pieceValue ROOK] := by
  set_option maxRecDepth 100000 in decide +kernel
example : Fide.see pieceValue (absPos c18ExamplePos) 11 35 = c18ExampleSpec := by
  set_option maxRecDepth 100000 in decide +kernel

/-! ### a concrete instance for the `example`s: Rd2xd5 in the example position of C18 -/

theorem C18b.ex_WF : WF c18ExamplePos = true := by
  have h1 : wfShape c18ExamplePos = true := by decide +kernel
  have h2 : wfState c18ExamplePos = true := by decide +kernel
  have h3 : wfChess c18ExamplePos = true := by
    unfold wfChess isInCheck squareAttackedBy
    have hk : lsb (c18ExamplePos.pieces (switchColor c18ExamplePos.side) KING) = 60 := by decide +kernel
    simp only [hk]
    rw [rookAttacks_eq_walker 60 (by decide), bishopAttacks_eq_walker 60 (by decide)]
    decide +kernel
  unfold WF; rw [h1, h2, h3]; rfl

/-- all hypotheses of `see_sign_spec_partial` / `see_attackers_spec` / `see_king_rule` hold together for a concrete
capture: the word the generator produces for Rd2xd5 (d2 = 11, d5 = 35) in the example position of C18; `see` gives `c18ExampleSee`
(currently 910).
(The generated word and its successor are obtained through C01/C02 — evaluating `genMoves` in the kernel would need the
attack tables.) -/
theorem C18b.ex_hyps (K : Keys) : ∃ m q v, WF c18ExamplePos = true ∧ c18ExamplePos.at m.tgt ≠ 0 ∧ m.kind ≠ 2 ∧
    m ∈ genMoves c18ExamplePos ∧ makeMove K c18ExamplePos m = some q ∧ isLegal q = true ∧
    popcount c18ExamplePos.all ≤ 32 ∧ see c18ExamplePos m = some v ∧ m.src = 11 ∧ m.tgt = 35 ∧ v = c18ExampleSee := by
  have hw := C18b.ex_WF
  have hmem : (⟨11, 35, none⟩ : Fide.Move) ∈ (genMoves c18ExamplePos).map absMove := by
    rw [(genMoves_exact c18ExamplePos hw).1]; decide +kernel
  obtain ⟨m, hm, habs⟩ := List.mem_map.1 hmem
  have hs : m.src = 11 := congrArg Fide.Move.src habs
  have ht : m.tgt = 35 := congrArg Fide.Move.tgt habs
  have hcap : c18ExamplePos.at m.tgt ≠ 0 := by rw [ht]; decide +kernel
  have g := genMoves_shape c18ExamplePos hw m hm
  have hk2 : m.kind ≠ 2 := fun h => hcap (g.ep.1 h).2.2
  obtain ⟨q, hq, habsq, hshq, hsideq, _, hat⟩ := LG.succ_exists K c18ExamplePos hw (by decide +kernel) m hm
  have hleg : isLegal q = true := by
    rw [LG.isLegal_succ c18ExamplePos hw m hm q hshq hsideq hat, habsq, habs]
    decide +kernel
  refine ⟨m, q, c18ExampleSee, hw, hcap, hk2, hm, hq, hleg, by decide +kernel, ?_, hs, ht, rfl⟩
  have e : see c18ExamplePos m = see c18ExamplePos (11 ||| (35 <<< 6)) := by
    unfold see
    rw [hs, ht]
    rfl
  rw [e]
  set_option maxRecDepth 100000 in decide +kernel

/-! ### (b), (c) the two attacker sequences -/

/-- the attacker values the model's loop finds are those of the specification: for every legal capture (not en passant)
of a legal position with at most 32 pieces -/
theorem see_attackers_spec (K : Keys) (p : Pos) (hw : WF p = true) (m : Move) (hcap : p.at m.tgt ≠ 0) (hkind : m.kind ≠ 2)
    (hgen : m ∈ genMoves p) (q : Pos) (hq : makeMove K p m = some q) (hlegal : isLegal q = true)
    (hcount : popcount p.all ≤ 32) :
    attackerValues p m.tgt (seeMaxXray p) 30 (seeInit p m) =
      specSeq pieceValue 40 (capBoard (absPos p) m.src m.tgt) m.tgt (Fide.other p.side) :=
  attackerValues_eq_specSeq p m (capFacts p hw m hcap hgen)
    (kingSafe_of_legal K p hw m hcap hkind hgen q hq hlegal)
    (firstKingOK_of_legal K p hw m hcap hkind hgen q hq hlegal) hcount

-- hypotheses satisfiable (`C18b.ex_hyps`); there the model's loop finds the specification's list [pawn, rook]
example (K : Keys) : ∃ m, m.src = 11 ∧ m.tgt = 35 ∧
    attackerValues c18ExamplePos m.tgt (seeMaxXray c18ExamplePos) 30 (seeInit c18ExamplePos m) = [pieceValue PAWN, pieceValue ROOK] := by
  obtain ⟨m, q, v, hw, hcap, hk2, hm, hq, hleg, hcnt, _, hs, ht, _⟩ := C18b.ex_hyps K
  refine ⟨m, hs, ht, ?_⟩
  rw [see_attackers_spec K _ hw m hcap hk2 hm q hq hleg hcnt, hs, ht]
  set_option maxRecDepth 100000 in decide +kernel

/-- the king rule: in a legal position, after a legal first capture, no king that stays on its square is attacked by an
enemy piece other than the one on the target — so "no enemy attacker before the king captures" (model) and "after"
(specification) agree throughout the exchange -/
theorem see_king_rule (K : Keys) (p : Pos) (hw : WF p = true) (m : Move) (hcap : p.at m.tgt ≠ 0) (hkind : m.kind ≠ 2)
    (hgen : m ∈ genMoves p) (q : Pos) (hq : makeMove K p m = some q) (hlegal : isLegal q = true) :
    KingSafe p m.src m.tgt ∧ FirstKingOK p m :=
  ⟨kingSafe_of_legal K p hw m hcap hkind hgen q hq hlegal, firstKingOK_of_legal K p hw m hcap hkind hgen q hq hlegal⟩

-- hypotheses satisfiable (`C18b.ex_hyps`)
example (K : Keys) : ∃ m, KingSafe c18ExamplePos m.src m.tgt ∧ FirstKingOK c18ExamplePos m := by
  obtain ⟨m, q, v, hw, hcap, hk2, hm, hq, hleg, _, _, _, _, _⟩ := C18b.ex_hyps K
  exact ⟨m, see_king_rule K _ hw m hcap hk2 hm q hq hleg⟩

/-! ### (d) the theorem -/

/- the full statement (false without the bound on the number of pieces, see the FINDING above):
theorem see_sign_spec (K : Keys) (p : Pos) (hw : WF p = true) (m : Move) (hcap : p.at m.tgt ≠ 0) (hkind : m.kind ≠ 2)
    (hgen : m ∈ genMoves p) (q : Pos) (hq : makeMove K p m = some q) (hlegal : isLegal q = true)
    (v : Int) (hv : see p m = some v) :
    Fide.signOf v = Fide.signOf (Fide.see pieceValue (absPos p) m.src m.tgt)
-/

/-- for every legal non-en-passant capture of a legal position the engine's static exchange evaluation is negative, zero
or positive exactly when the specification's full minimax of the capture sequence is.
Added hypothesis: `hcount : popcount p.all ≤ 32` (at most 32 pieces on the board); without it the statement is false. -/
theorem see_sign_spec_partial (K : Keys) (p : Pos) (hw : WF p = true) (m : Move) (hcap : p.at m.tgt ≠ 0)
    (hkind : m.kind ≠ 2) (hgen : m ∈ genMoves p) (q : Pos) (hq : makeMove K p m = some q) (hlegal : isLegal q = true)
    (hcount : popcount p.all ≤ 32) (v : Int) (hv : see p m = some v) :
    Fide.signOf v = Fide.signOf (Fide.see pieceValue (absPos p) m.src m.tgt) := by
  have cf := capFacts p hw m hcap hgen
  have hsh := cf.shape
  have hsrc0 : p.at m.src ≠ 0 := by rw [cf.src_piece]; exact newPiece_ne_zero _ _
  rw [see_sign p m v hv, spec_see_eq_exchangeValue, absPos_at_A, absPos_at_A,
    ← LG.pieceType_kindOf p hsh m.tgt hcap, ← LG.pieceType_kindOf p hsh m.src hsrc0,
    see_attackers_spec K p hw m hcap hkind hgen q hq hlegal hcount]
  have hcol : Fide.colorOf (p.at m.src) = p.side := by
    rw [cf.src_piece]; exact (newPiece_color _ cf.side_lt _ cf.type_lt).1
  rw [hcol]

-- hypotheses satisfiable (`C18b.ex_hyps`: Rd2xd5 in the example position of C18).  There `see` returns `c18ExampleSee` (currently 910:
-- the early exit fires) while the specification's minimax is `c18ExampleSpec` (currently 500): different values, same sign — what the
-- theorem says.
example (K : Keys) : ∃ m v, see c18ExamplePos m = some v ∧ v = c18ExampleSee ∧
    Fide.see pieceValue (absPos c18ExamplePos) m.src m.tgt = c18ExampleSpec ∧
    Fide.signOf v = Fide.signOf (Fide.see pieceValue (absPos c18ExamplePos) m.src m.tgt) := by
  obtain ⟨m, q, v, hw, hcap, hk2, hm, hq, hleg, hcnt, hv, hs, ht, hv9⟩ := C18b.ex_hyps K
  refine ⟨m, v, hv, hv9, ?_, see_sign_spec_partial K _ hw m hcap hk2 hm q hq hleg hcnt v hv⟩
  rw [hs, ht]
  set_option maxRecDepth 100000 in decide +kernel

end Clemens
