import Clemens.Model.Uci
/-
C07, line handler: in the sequential model of `handleInput` + the game handlers no input line is fatal, except a
`position` whose first argument is neither `startpos` nor `fen` (the Go code dereferences a nil position there — outside
the stated domain of C07: "garbage inside a position command").
-/
namespace Clemens

/-- every command other than a malformed `position` is handled without a panic, in every state -/
theorem dialogStep_total (st : GameSt) (cmd : String) (pa : PosArgs) (movesOk : Bool) (goMsgs : Nat)
    (h : ¬(cmd = "position" ∧ pa = .other ∧ st.flag ≠ .running)) :
    (dialogStep st cmd pa movesOk goMsgs).isSome = true := by
  unfold dialogStep
  split
  · rfl
  · split
    · rfl
    · split
      · rfl
      · split
        · rename_i hc
          split
          · rfl
          · rename_i hr
            cases pa <;> simp_all
        · split
          · split <;> rfl
          · split <;> rfl

/-- unknown commands are ignored: no output, no state change -/
theorem unknown_command_ignored (st : GameSt) (cmd : String) (pa : PosArgs) (movesOk : Bool) (goMsgs : Nat)
    (h : cmd ∉ ["isready", "uci", "ucinewgame", "position", "go", "stop"]) :
    dialogStep st cmd pa movesOk goMsgs = some (st, []) := by
  simp only [List.mem_cons, List.mem_nil_iff, or_false, not_or] at h
  obtain ⟨h1, h2, h3, h4, h5, h6⟩ := h
  simp [dialogStep, h1, h2, h3, h4, h5, h6]

/-- `isready` is answered with exactly `readyok` in every state -/
theorem isready_answered (st : GameSt) (pa : PosArgs) (movesOk : Bool) (goMsgs : Nat) :
    dialogStep st "isready" pa movesOk goMsgs = some (st, [.readyok]) := by
  simp [dialogStep]

/-- an accepted `go` is answered by exactly one `bestmove` (after the parser's messages) and leaves the engine idle;
a `go` without a position set prints "no position is set" and starts nothing -/
theorem go_one_bestmove (st : GameSt) (pa : PosArgs) (movesOk : Bool) (goMsgs : Nat) :
    dialogStep st "go" pa movesOk goMsgs =
      (if st.flag ≠ .positionSet || !st.hasSearch then some (st, [.noPosition])
       else some ({ st with flag := .idle }, List.replicate goMsgs .goMsg ++ [.bestmove])) := by
  simp [dialogStep]

end Clemens
