import Clemens.Proofs.EvalTotal
import Clemens.Proofs.Mirror
import Clemens.Proofs.MirrorAbs
import Clemens.Proofs.ReachFlip
/-
C15 — the static evaluation stays strictly below the mate range, none of the `int16` intermediates of
the Go computation overflows (part 1), and the evaluation is colour-symmetric (part 2).

Part 1 needs no disjointness / `wfShape` hypothesis at all: every bound is derived from the twelve
popcounts `popcount (p.pieces c t)` alone (`LegalMaterial`), so the `hd` hypothesis of the task statement is
dropped (the theorems are stronger).  The closed forms of the evaluation terms and the per-term bounds are in
`Clemens/Proofs/EvalBits.lean`, `EvalTune.lean`, `EvalBounds.lean`, `EvalTotal.lean`.

Independence of the tuning constants: the bound `evalBound` (and the bounds of the intermediates, `midBound`, `baseB1` …
`baseBound`) are computable functions of the generated constants (`Clemens/Proofs/EvalConsts.lean`: piece values, piece square
tables, isolated / supported / passed pawn weights, pair bonuses, pawn adjustment tables, king attack weights, game phase
weights); all proofs are symbolic in these constants.  The only facts about their current VALUES are the `decide`d inequalities
at the end of `EvalConsts.lean` — `phase_facts` (game phase weights ≥ 0, divisor > 0), `evalBound_lt_mate`, `evalBound_le_20000`,
`evalBound_i16` — which are re-evaluated on every run.  Currently `evalBound = 14881`.
-/
namespace Clemens

/-! ### legal material -/

/-- material of colour `c` that can arise in a game: exactly one king, at most 8 pawns, at most 16 men, and every
piece beyond the initial two knights / two bishops / two rooks / one queen is a promoted pawn -/
def LegalSide (p : Pos) (c : Nat) : Prop :=
  popcount (p.pieces c KING) = 1 ∧
  popcount (p.pieces c PAWN) ≤ 8 ∧
  popcount (p.pieces c PAWN) + popcount (p.pieces c KNIGHT) + popcount (p.pieces c BISHOP)
    + popcount (p.pieces c ROOK) + popcount (p.pieces c QUEEN) + popcount (p.pieces c KING) ≤ 16 ∧
  popcount (p.pieces c PAWN) + (popcount (p.pieces c KNIGHT) - 2) + (popcount (p.pieces c BISHOP) - 2)
    + (popcount (p.pieces c ROOK) - 2) + (popcount (p.pieces c QUEEN) - 1) ≤ 8

/-- legal material for both colours (only the popcounts of the twelve piece sets are constrained) -/
def LegalMaterial (p : Pos) : Prop := LegalSide p 0 ∧ LegalSide p 1

instance (p : Pos) (c : Nat) : Decidable (LegalSide p c) := by unfold LegalSide; infer_instance
instance (p : Pos) : Decidable (LegalMaterial p) := by unfold LegalMaterial; infer_instance

-- the hypotheses are satisfiable: the start position, and a position with nine queens and ten knights
example : LegalMaterial (startPos realKeys) := by decide +kernel
example : LegalMaterial { Pos.empty with
    bb := #v[0#64, 0x42#64, 0x24#64, 0x81#64, 0x00ff000000000008#64, 0x10#64,
             0#64, 0x4200000000ff0000#64, 0x2400000000000000#64, 0x8100000000000000#64, 0x0800000000000000#64,
             0x1000000000000000#64] } := by decide +kernel
-- eleven queens are rejected
example : ¬ LegalMaterial { Pos.empty with
    bb := #v[0#64, 0x42#64, 0x24#64, 0x81#64, 0x03ff000000000008#64, 0x10#64,
             0#64, 0#64, 0#64, 0#64, 0#64, 0x1000000000000000#64] } := by decide +kernel

theorem LegalMaterial.raw {p : Pos} (h : LegalMaterial p) : legalRawOf p 0 ∧ legalRawOf p 1 := h

/-! ### `int16` -/

/-- the value fits Go's `int16` -/
def I16 (x : Int) : Prop := -32768 ≤ x ∧ x ≤ 32767

def EvalAcc.fitsI16 (e : EvalAcc) : Prop := I16 e.mid ∧ I16 e.end_ ∧ I16 e.base

/-- every `int16` intermediate of `eval.do` (see `EvalTrace` in `Proofs/EvalTotal.lean`: the accumulator after each
of the six evaluation terms, the two mobility values, `base + mobW`, the game phase, both products, their sum,
the quotient, the score and the score seen from the side to move) fits `int16` -/
structure EvalTrace.NoOverflow (t : EvalTrace) : Prop where
  ePst : t.ePst.fitsI16
  ePawns : t.ePawns.fitsI16
  ePairs : t.ePairs.fitsI16
  eMat : t.eMat.fitsI16
  eAdj : t.eAdj.fitsI16
  mobW : I16 t.mobW
  mobB : I16 t.mobB
  baseW : I16 t.baseW
  eMob : t.eMob.fitsI16
  phase : I16 t.phase
  prodMid : I16 t.prodMid
  prodEnd : I16 t.prodEnd
  prodSum : I16 t.prodSum
  quot : I16 t.quot
  score : I16 t.score
  result : I16 t.result

theorem I16_of_absLe {x M : Int} (h : absLe x M) (hM : M ≤ 32767) : I16 x := by
  unfold absLe at h; unfold I16; omega

theorem fitsI16_of_within {e : EvalAcc} {M B : Int} (h : e.within M B) (hM : M ≤ 32767) (hB : B ≤ 32767) :
    e.fitsI16 :=
  ⟨I16_of_absLe h.1 hM, I16_of_absLe h.2.1 hM, I16_of_absLe h.2.2 hB⟩

/-- the accumulated bounds fit `int16`: `evalBound_i16`, a `decide`d fact about the current constants -/
theorem EvalTrace.Bounded.noOverflow {t : EvalTrace} (b : t.Bounded) : t.NoOverflow := by
  obtain ⟨i1, i2, i3, i4, i5, i6, i7, i8, i9, i10, i11, i12⟩ := evalBound_i16
  exact {
    ePst := fitsI16_of_within b.ePst i1 (by omega)
    ePawns := fitsI16_of_within b.ePawns i1 i4
    ePairs := fitsI16_of_within b.ePairs i1 i5
    eMat := fitsI16_of_within b.eMat i1 i6
    eAdj := fitsI16_of_within b.eAdj i1 i7
    mobW := by have := b.mobW; unfold I16; omega
    mobB := by have := b.mobB; unfold I16; omega
    baseW := I16_of_absLe b.baseW i8
    eMob := fitsI16_of_within b.eMob i1 i9
    phase := by have := b.phase; unfold I16; omega
    prodMid := I16_of_absLe b.prodMid i2
    prodEnd := I16_of_absLe b.prodEnd i2
    prodSum := I16_of_absLe b.prodSum i2
    quot := I16_of_absLe b.quot i1
    score := I16_of_absLe b.score i12
    result := I16_of_absLe b.result i12 }

/-! ### part 1: the theorems -/

/-- the pawn-adjustment tables are never indexed past their end (no Go panic) -/
theorem evalRaw_isSome (p : Pos) (h : LegalMaterial p) : (evalRaw p).isSome := by
  rw [evalRaw_eq_trace]
  split
  · rfl
  · obtain ⟨tr, htr⟩ := isSome_of_legal p h.1.2.1 h.2.2.1
    rw [htr]; rfl

/-- explicit version: a non-drawn position has a trace, all of whose entries obey the bounds of
`EvalTrace.Bounded` (|mid|, |end| ≤ `midBound`, |base| ≤ `baseBound`, |products| ≤ `midBound * maxGamePhase`,
|score| ≤ `midBound + baseBound`; currently 1145, 13736, 27480, 14881) and `evalRaw` returns its last entry -/
theorem eval_trace_bounded (p : Pos) (h : LegalMaterial p) :
    ∃ tr, evalTrace p = some tr ∧ tr.Bounded ∧ (isDraw p = false → evalRaw p = some tr.result) := by
  obtain ⟨tr, htr⟩ := isSome_of_legal p h.1.2.1 h.2.2.1
  refine ⟨tr, htr, evalTrace_bounded p h.raw.1 h.raw.2 tr htr, ?_⟩
  intro hd
  rw [evalRaw_eq_trace, hd, htr]; rfl

/-- … and no `int16` intermediate of the Go computation overflows.  (Go's `int16` `+`/`-`/`*` wrap, i.e. are ring
operations modulo 2^16, so the Go values coincide with the `Int` values of the model as soon as the latter fit — in
particular at the division by `maxGamePhase`, the only operation that is not a ring operation.) -/
theorem eval_no_overflow (p : Pos) (h : LegalMaterial p) :
    ∃ tr, evalTrace p = some tr ∧ tr.NoOverflow ∧ (isDraw p = false → evalRaw p = some tr.result) := by
  obtain ⟨tr, h1, h2, h3⟩ := eval_trace_bounded p h
  exact ⟨tr, h1, h2.noOverflow, h3⟩

/-- the score is bounded by `evalBound`, a function of the tuning constants (`Proofs/EvalConsts.lean`; currently 14881) -/
theorem eval_bounded_explicit (p : Pos) (h : LegalMaterial p) (v : Int) (hv : evalRaw p = some v) :
    -evalBound ≤ v ∧ v ≤ evalBound := by
  obtain ⟨tr, _, h2, h3⟩ := eval_trace_bounded p h
  cases hd : isDraw p with
  | false =>
    rw [h3 hd] at hv
    injection hv with hv
    have := h2.result
    unfold absLe at this
    unfold evalBound
    omega
  | true =>
    rw [evalRaw_eq_trace, hd] at hv
    simp only [if_true, Option.some.injEq] at hv
    have hc := contempt_small p
    unfold evalBound contemptMax
    omega

-- the bound is positive and below the mate range for the current constants (hypotheses satisfiable: `LegalMaterial (startPos realKeys)`
-- above); the numerical facts the theorems below use are `evalBound_lt_mate`, `evalBound_le_20000`, `evalBound_i16` in `EvalConsts.lean`
example : 0 < evalBound ∧ evalBound < 32667 := by decide +kernel

/-- the score stays strictly inside the range reserved for mate scores (INF - 100 = 32667) -/
theorem eval_bounded (p : Pos) (h : LegalMaterial p) (v : Int) (hv : evalRaw p = some v) :
    -(INF - 100) < v ∧ v < INF - 100 := by
  have := eval_bounded_explicit p h v hv
  have := evalBound_lt_mate.2
  omega

/-- consequence: a static evaluation is never mistaken for a mate score -/
theorem eval_not_mate (p : Pos) (h : LegalMaterial p) (v : Int) (hv : evalRaw p = some v) :
    isCheckmateValue v = false := by
  have := eval_bounded_explicit p h v hv
  have := evalBound_lt_mate.1
  unfold isCheckmateValue
  simp; omega

/-! ## part 2: colour symmetry

`flipV` (vertical flip of a set of squares), `mirrorPos` (the model-level colour mirror) and `EvalAcc.neg` are defined in
`Clemens/Proofs/Flip.lean` / `Mirror.lean`; they are characterised here.  Route: the shifts, fills and leaper attack sets are
union-homomorphisms, hence determined by their values on the 64 single squares (`IsHom.ext`), so each commutation with the
flip is one kernel-checked finite fact; every evaluation term changes sign under the mirror, the game phase and the draw
rule are invariant. -/

/-- `flipV` is the map `s ↦ s ^^^ 56` on squares -/
theorem flipV_spec (b : BB) (i : Nat) (hi : i < 64) : (flipV b).getLsbD i = b.getLsbD (i ^^^ 56) := getLsbD_flipV b i hi

example : flipV 0x00000000000000ff#64 = 0xff00000000000000#64 ∧ flipV (bit 12) = bit 52 := by decide +kernel

/-- `mirrorPos`: piece sets flipped and exchanged between the colours -/
theorem mirrorPos_spec (p : Pos) :
    (∀ c < 2, ∀ t < 6, (mirrorPos p).pieces c t = flipV (p.pieces (1 - c) t)) ∧
    (∀ s < 64, (mirrorPos p).at s = Fide.mirrorPiece (p.at (s ^^^ 56))) ∧
    (mirrorPos p).all = flipV p.all ∧ (mirrorPos p).white = flipV p.black ∧ (mirrorPos p).black = flipV p.white ∧
    (mirrorPos p).side = 1 - p.side ∧ (mirrorPos p).hmc = p.hmc ∧ (mirrorPos p).ply = p.ply := by
  refine ⟨fun c hc t ht => mirrorPos_pieces p c t hc ht, ?_, rfl, rfl, rfl, rfl, rfl, rfl⟩
  intro s hs
  simp [Pos.at, vget, mirrorPos, hs]

/-! ### per-term mirror lemmas (all unconditional) -/

theorem C15.evalMaterial_mirror (p : Pos) (e : EvalAcc) :
    evalMaterial (mirrorPos p) e.neg = (evalMaterial p e).neg := Clemens.evalMaterial_mirror p e
theorem C15.evalPairs_mirror (p : Pos) (e : EvalAcc) :
    evalPairs (mirrorPos p) e.neg = (evalPairs p e).neg := Clemens.evalPairs_mirror p e
theorem C15.evalPawnAdjustment_mirror (p : Pos) (e : EvalAcc) :
    evalPawnAdjustment (mirrorPos p) e.neg = (evalPawnAdjustment p e).map EvalAcc.neg := Clemens.evalPawnAdjustment_mirror p e
theorem C15.gamePhase_mirror (p : Pos) : gamePhase (mirrorPos p) = gamePhase p := Clemens.gamePhase_mirror p
theorem C15.isDraw_mirror (p : Pos) : isDraw (mirrorPos p) = isDraw p := Clemens.isDraw_mirror p
theorem C15.contempt_mirror (p : Pos) : contempt (mirrorPos p) = contempt p := Clemens.contempt_mirror p
theorem C15.evalPst_mirror (p : Pos) (e : EvalAcc) :
    evalPst (mirrorPos p) e.neg = (evalPst p e).neg := Clemens.evalPst_mirror p e
theorem C15.evalPawns_mirror (p : Pos) (e : EvalAcc) :
    evalPawns (mirrorPos p) e.neg = (evalPawns p e).neg := Clemens.evalPawns_mirror p e
theorem C15.calculateScore_mirror (p : Pos) (hs : p.side < 2) (e : EvalAcc) :
    calculateScore (mirrorPos p) e.neg = calculateScore p e := Clemens.calculateScore_mirror p hs e

/-- mobility and king attack value: the colours exchange their values.  The magic-table lookups are opaque here;
`SliderFlip` says that `rookAttacks` and `bishopAttacks` commute with the flip:
`rookAttacks (s ^^^ 56) (flipV occ) = flipV (rookAttacks s occ)` for `s < 64`, likewise for the bishop. -/
theorem mobility_mirror (hsl : SliderFlip) (p : Pos)
    (hk : popcount (p.pieces 0 KING) = 1 ∧ popcount (p.pieces 1 KING) = 1) :
    mobilityByColor (mirrorPos p) 0 = mobilityByColor p 1 ∧ mobilityByColor (mirrorPos p) 1 = mobilityByColor p 0 :=
  ⟨mobility_mirror0 hsl p hk.1, mobility_mirror1 hsl p hk.2⟩

/-! ### the mirror is the specification mirror -/

/-- ties `mirrorPos` to `Fide.mirror`; no well-formedness hypothesis is needed (the `hw` of the task statement is dropped),
ply and full-move number are kept by both mirrors -/
theorem absPos_mirror (p : Pos) : absPos (mirrorPos p) = Fide.mirror (absPos p) := absPos_mirrorPos p

/-- the mirror of a well-formed position is well-formed … -/
theorem wfShape_mirror (p : Pos) (hw : wfShape p = true) : wfShape (mirrorPos p) = true := wfShape_mirrorPos p hw

/-- … and has legal material if the position has (so part 1 applies to both) -/
theorem LegalMaterial_mirror (p : Pos) (h : LegalMaterial p) : LegalMaterial (mirrorPos p) := by
  obtain ⟨a0, a1, a2, a3, a4, a5, b0, b1, b2, b3, b4, b5⟩ := mp p
  unfold LegalMaterial LegalSide at h ⊢
  simp only [PAWN, KNIGHT, BISHOP, ROOK, QUEEN, KING] at h ⊢
  rw [a0, a1, a2, a3, a4, a5, b0, b1, b2, b3, b4, b5]
  simp only [popcount_flipV]
  exact ⟨h.2, h.1⟩

/-! ### the evaluation is colour-symmetric -/

/- Full statement of the task:
     theorem eval_mirror (p : Pos) (hw : wfShape p = true) (hs : p.side < 2) (hk : one king each) :
         evalRaw (mirrorPos p) = evalRaw p
   `Clemens/Props/C12b.lean` (`rookAttacks_exact` / `bishopAttacks_exact`) is not part of this copy of the project and the
   magic tables must not be unfolded, so the flip-equivariance of the two table lookups is an explicit hypothesis:
   `eval_mirror_partial` adds `hsl : SliderFlip` (and needs neither `hw` nor any other well-formedness);
   `eval_mirror_of_exact` derives `SliderFlip` from the exactness of the lookups w.r.t. `Geo.reach` (`SlidersExact`, the
   shape of `rookWalker_exact` of C12a for all occupancies) — with C12b, `eval_mirror` is
   `eval_mirror_of_exact ⟨rookAttacks_exact, bishopAttacks_exact⟩ p hs hk`. -/
theorem eval_mirror_partial (hsl : SliderFlip) (p : Pos) (hs : p.side < 2)
    (hk : popcount (p.pieces 0 KING) = 1 ∧ popcount (p.pieces 1 KING) = 1) :
    evalRaw (mirrorPos p) = evalRaw p := evalRaw_mirror hsl p hs hk

theorem eval_mirror_of_exact (hx : SlidersExact) (p : Pos) (hs : p.side < 2)
    (hk : popcount (p.pieces 0 KING) = 1 ∧ popcount (p.pieces 1 KING) = 1) :
    evalRaw (mirrorPos p) = evalRaw p := evalRaw_mirror (sliderFlip_of_exact hx) p hs hk

-- the hypotheses on the position are satisfiable (the slider hypotheses are statements about the tables, see the report)
example : (startPos realKeys).side < 2 ∧ popcount ((startPos realKeys).pieces 0 KING) = 1 ∧
    popcount ((startPos realKeys).pieces 1 KING) = 1 := by decide +kernel
-- `hs` is necessary: with a side to move outside {0, 1} both positions are scored from white's point of view
-- `hk` is necessary: the king-attack term reads `lsb` of the king set, which does not commute with the flip for two kings
example : lsb (flipV (bit 0 ||| bit 9)) ≠ lsb (bit 0 ||| bit 9) ^^^ 56 := by decide +kernel

end Clemens
