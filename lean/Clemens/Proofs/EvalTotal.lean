import Clemens.Proofs.EvalBounds
/-
Lemma library for C15 (part 1): the trace of all `int16` intermediates of `eval.do`, and the
numeric bounds of every one of them under the material constraints.
-/
namespace Clemens

/-- raw form of `LegalSide` of `Props/C15` on the six popcounts of one colour -/
def legalSideRaw (nP nN nB nR nQ nK : Nat) : Prop :=
  nK = 1 ∧ nP ≤ 8 ∧ nP + nN + nB + nR + nQ + nK ≤ 16 ∧
  nP + (nN - 2) + (nB - 2) + (nR - 2) + (nQ - 1) ≤ 8

/-- every value the Go code holds in an `int16` while it evaluates a non-drawn position -/
structure EvalTrace where
  ePst : EvalAcc        -- after `evalPieceSquareTables`
  ePawns : EvalAcc      -- after `evalPawns`
  ePairs : EvalAcc      -- after `evalPairs`
  eMat : EvalAcc        -- after `evalBaseMaterial`
  eAdj : EvalAcc        -- after `evalPawnAdjustment`
  mobW : Int            -- mobility and king attack value of white
  mobB : Int            -- … of black
  baseW : Int           -- base + mobW (before mobB is subtracted)
  eMob : EvalAcc        -- after the mobility term
  phase : Int           -- gamePhase
  prodMid : Int         -- mid * gamePhase
  prodEnd : Int         -- end * (maxGamePhase - gamePhase)
  prodSum : Int         -- their sum
  quot : Int            -- … / maxGamePhase
  score : Int           -- … + base
  result : Int          -- from the point of view of the side to move
deriving Repr

def evalTrace (p : Pos) : Option EvalTrace := do
  let e1 := evalPst p {}
  let e2 := evalPawns p e1
  let e3 := evalPairs p e2
  let e4 := evalMaterial p e3
  let e5 ← evalPawnAdjustment p e4
  let mw := mobilityByColor p 0
  let mb := mobilityByColor p 1
  let e6 : EvalAcc := { e5 with base := e5.base + mw - mb }
  let gp := gamePhase p
  let pm := e6.mid * gp
  let pe := e6.end_ * (maxGamePhase - gp)
  let q := (pm + pe).tdiv maxGamePhase
  let sc := q + e6.base
  pure { ePst := e1, ePawns := e2, ePairs := e3, eMat := e4, eAdj := e5, mobW := mw, mobB := mb,
         baseW := e5.base + mw, eMob := e6, phase := gp, prodMid := pm, prodEnd := pe, prodSum := pm + pe,
         quot := q, score := sc, result := if p.side = 1 then -sc else sc }

/-- the trace computes what `evalRaw` computes -/
theorem evalRaw_eq_trace (p : Pos) :
    evalRaw p = if isDraw p then some (contempt p) else (evalTrace p).map (·.result) := by
  unfold evalRaw evalTrace
  split
  · rfl
  · cases h : evalPawnAdjustment p (evalMaterial p (evalPairs p (evalPawns p (evalPst p {})))) with
    | none => dsimp only; rw [h]; rfl
    | some e => dsimp only; rw [h]; rfl

theorem tdiv24_bounds (x M : Int) (h1 : -(24 * M) ≤ x) (h2 : x ≤ 24 * M) :
    -M ≤ x.tdiv 24 ∧ x.tdiv 24 ≤ M := by
  by_cases hx : 0 ≤ x
  · rw [Int.tdiv_eq_ediv_of_nonneg hx]; omega
  · have : x.tdiv 24 = -((-x) / 24) := by
      have h := Int.neg_tdiv (-x) 24
      rw [Int.neg_neg] at h
      rw [h, Int.tdiv_eq_ediv_of_nonneg (by omega)]
    rw [this]; omega

theorem isSome_of_legal (p : Pos) (hw : popcount (p.pieces 0 0) ≤ 8) (hb : popcount (p.pieces 1 0) ≤ 8) :
    ∃ tr, evalTrace p = some tr := by
  unfold evalTrace
  dsimp only
  rw [evalPawnAdjustment_eq p _ hw hb]
  exact ⟨_, rfl⟩

def absLe (x M : Int) : Prop := -M ≤ x ∧ x ≤ M

def EvalAcc.within (e : EvalAcc) (M B : Int) : Prop := absLe e.mid M ∧ absLe e.end_ M ∧ absLe e.base B

/-! ### arithmetic on the popcounts of one side -/

/-- weighted piece counts of colour `c` -/
def goodN (p : Pos) (c : Nat) : Nat :=   -- PST maxima
  50 * popcount (p.pieces c 0) + 20 * popcount (p.pieces c 1) + 10 * popcount (p.pieces c 2)
  + 10 * popcount (p.pieces c 3) + 5 * popcount (p.pieces c 4) + 40 * popcount (p.pieces c 5)
def badN (p : Pos) (c : Nat) : Nat :=    -- PST minima (absolute value)
  20 * popcount (p.pieces c 0) + 50 * popcount (p.pieces c 1) + 20 * popcount (p.pieces c 2)
  + 5 * popcount (p.pieces c 3) + 20 * popcount (p.pieces c 4) + 50 * popcount (p.pieces c 5)
def matN (p : Pos) (c : Nat) : Nat :=    -- material
  100 * popcount (p.pieces c 0) + 310 * popcount (p.pieces c 1) + 310 * popcount (p.pieces c 2)
  + 510 * popcount (p.pieces c 3) + 910 * popcount (p.pieces c 4)
def adjHiN (p : Pos) (c : Nat) : Nat := 12 * popcount (p.pieces c 1) + 15 * popcount (p.pieces c 3)
def adjLoN (p : Pos) (c : Nat) : Nat := 20 * popcount (p.pieces c 1) + 9 * popcount (p.pieces c 3)
def mobN (p : Pos) (c : Nat) : Nat :=    -- crude mobility bound
  64 + 72 * popcount (p.pieces c 0) + 80 * popcount (p.pieces c 1) + 80 * popcount (p.pieces c 2)
  + 88 * popcount (p.pieces c 3) + 96 * popcount (p.pieces c 4) + 72 * popcount (p.pieces c 5)

/-- the material constraints of colour `c` in raw form -/
def legalRawOf (p : Pos) (c : Nat) : Prop :=
  legalSideRaw (popcount (p.pieces c 0)) (popcount (p.pieces c 1)) (popcount (p.pieces c 2))
    (popcount (p.pieces c 3)) (popcount (p.pieces c 4)) (popcount (p.pieces c 5))

structure SideSums (p : Pos) (c : Nat) : Prop where
  pawns : popcount (p.pieces c 0) ≤ 8
  good : goodN p c ≤ 525
  bad : badN p c + 20 * popcount (p.pieces c 0) ≤ 620
  mat : matN p c ≤ 10450
  adjHi : adjHiN p c ≤ 174
  adjLo : adjLoN p c ≤ 218
  adjLoMat : adjLoN p c ≤ matN p c
  mob : mobN p c ≤ 1600
  big : matN p c + adjHiN p c + mobN p c ≤ 12000

theorem sideSums (p : Pos) (c : Nat) (h : legalRawOf p c) : SideSums p c := by
  obtain ⟨h1, h2, h3, h4⟩ := h
  constructor
  · exact h2
  · unfold goodN; omega
  · unfold badN; omega
  · unfold matN; omega
  · unfold adjHiN; omega
  · unfold adjLoN; omega
  · unfold adjLoN matN; omega
  · unfold mobN; omega
  · unfold matN adjHiN mobN; omega

theorem pstSum_bounds' (ph : Nat) (hph : ph < 2) (p : Pos) :
    -(badN p 0 : Int) - goodN p 1 ≤ pstSum ph p ∧ pstSum ph p ≤ goodN p 0 + badN p 1 := by
  have h := pstSum_bounds ph hph p
  simp only [pc] at h
  unfold goodN badN
  omega

theorem materialTerm_eq' (p : Pos) : materialTerm p = (matN p 0 : Int) - matN p 1 := by
  unfold materialTerm matN pc; omega

theorem adjTerm_bounds' (p : Pos) :
    -(adjLoN p 0 : Int) - adjHiN p 1 ≤ adjTerm p ∧ adjTerm p ≤ adjHiN p 0 + adjLoN p 1 := by
  have h := adjTerm_bounds p
  simp only [pc] at h
  unfold adjLoN adjHiN
  omega

theorem mobilityByColor_bounds' (p : Pos) (c : Nat) :
    0 ≤ mobilityByColor p c ∧ mobilityByColor p c ≤ mobN p c := by
  have h := mobilityByColor_bounds p c
  simp only [pc] at h
  unfold mobN
  omega

theorem combine_phase (S KI gW xW pW gB xB pB : Int)
    (hlo : -xW - gB ≤ S) (hhi : S ≤ gW + xB) (hKI : -(20 * pW) ≤ KI ∧ KI ≤ 20 * pB)
    (w0 : 0 ≤ gW ∧ 0 ≤ xW ∧ 0 ≤ pW) (w1 : gW ≤ 525) (w2 : xW + 20 * pW ≤ 620)
    (b0 : 0 ≤ gB ∧ 0 ≤ xB ∧ 0 ≤ pB) (b1 : gB ≤ 525) (b2 : xB + 20 * pB ≤ 620) :
    absLe (0 + S) 1145 ∧ absLe (0 + S + KI) 1145 := by
  unfold absLe
  omega

theorem combine_base (R PR M A MW MB matW matB aHw aLw aHb aLb mUw mUb : Int)
    (hR : -1344 ≤ R ∧ R ≤ 1344) (hPR : -54 ≤ PR ∧ PR ≤ 54)
    (hM : M = matW - matB)
    (hA : -aLw - aHb ≤ A ∧ A ≤ aHw + aLb)
    (hMW : 0 ≤ MW ∧ MW ≤ mUw)
    (hMB : 0 ≤ MB ∧ MB ≤ mUb)
    (w1 : 0 ≤ matW ∧ matW ≤ 10450) (w2 : 0 ≤ aHw ∧ aHw ≤ 174) (_w3 : 0 ≤ aLw ∧ aLw ≤ 218) (w4 : mUw ≤ 1600)
    (w5 : matW + aHw + mUw ≤ 12000) (w6 : aLw ≤ matW)
    (b1 : 0 ≤ matB ∧ matB ≤ 10450) (b2 : 0 ≤ aHb ∧ aHb ≤ 174) (_b3 : 0 ≤ aLb ∧ aLb ≤ 218) (b4 : mUb ≤ 1600)
    (b5 : matB + aHb + mUb ≤ 12000) (b6 : aLb ≤ matB) :
    absLe (0 + R) 1344 ∧ absLe (0 + R + PR) 1398 ∧ absLe (0 + R + PR + M) 11848 ∧
    absLe (0 + R + PR + M + A) 12240 ∧ (0 ≤ MW ∧ MW ≤ 1600) ∧ (0 ≤ MB ∧ MB ≤ 1600) ∧
    absLe (0 + R + PR + M + A + MW) 14000 ∧ absLe (0 + R + PR + M + A + MW - MB) 14000 := by
  unfold absLe
  subst hM
  refine ⟨by omega, by omega, by omega, by omega, by omega, by omega, by omega, by omega⟩

/-- explicit bounds for every intermediate -/
structure EvalTrace.Bounded (t : EvalTrace) : Prop where
  ePst : t.ePst.within 1145 0
  ePawns : t.ePawns.within 1145 1344
  ePairs : t.ePairs.within 1145 1398
  eMat : t.eMat.within 1145 11848
  eAdj : t.eAdj.within 1145 12240
  mobW : 0 ≤ t.mobW ∧ t.mobW ≤ 1600
  mobB : 0 ≤ t.mobB ∧ t.mobB ≤ 1600
  baseW : absLe t.baseW 14000
  eMob : t.eMob.within 1145 14000
  phase : 0 ≤ t.phase ∧ t.phase ≤ 24
  prodMid : absLe t.prodMid 27480
  prodEnd : absLe t.prodEnd 27480
  prodSum : absLe t.prodSum 27480
  quot : absLe t.quot 1145
  score : absLe t.score 15145
  result : absLe t.result 15145

theorem final_bounds (m e b g : Int) (hm : absLe m 1145) (he : absLe e 1145) (hb : absLe b 14000)
    (hg : 0 ≤ g ∧ g ≤ 24) :
    absLe (m * g) 27480 ∧ absLe (e * (24 - g)) 27480 ∧ absLe (m * g + e * (24 - g)) 27480 ∧
    absLe ((m * g + e * (24 - g)).tdiv 24) 1145 ∧ absLe ((m * g + e * (24 - g)).tdiv 24 + b) 15145 := by
  unfold absLe at *
  have h1 := mul_bounds m g (-1145) 1145 hm.1 hm.2 hg.1
  have h2 := mul_bounds e (24 - g) (-1145) 1145 he.1 he.2 (by omega)
  have h3 := tdiv24_bounds (m * g + e * (24 - g)) 1145 (by omega) (by omega)
  omega


theorem evalTrace_bounded (p : Pos) (hw : legalRawOf p 0) (hb : legalRawOf p 1)
    (tr : EvalTrace) (h : evalTrace p = some tr) : tr.Bounded := by
  have sw := sideSums p 0 hw
  have sb := sideSums p 1 hb
  unfold evalTrace at h
  dsimp only at h
  rw [evalPawnAdjustment_eq p _ sw.pawns sb.pawns] at h
  simp only [Option.bind_eq_bind, Option.bind_some, Option.pure_def, Option.some.injEq] at h
  simp only [evalPst_eq, evalPawns_eq, evalPairs_eq, evalMaterial_eq, maxGamePhase_eq] at h
  have i := isoDiff_bounds p
  simp only [pc] at i
  have g := gamePhase_bounds p
  obtain ⟨hm0, hm⟩ := combine_phase (pstSum 0 p) (-20 * isoDiff p) (goodN p 0) (badN p 0) (popcount (p.pieces 0 0))
    (goodN p 1) (badN p 1) (popcount (p.pieces 1 0))
    (pstSum_bounds' 0 (by omega) p).1 (pstSum_bounds' 0 (by omega) p).2 (by omega)
    (by omega) (by have := sw.good; omega) (by have := sw.bad; omega)
    (by omega) (by have := sb.good; omega) (by have := sb.bad; omega)
  obtain ⟨he0, he⟩ := combine_phase (pstSum 1 p) (-5 * isoDiff p) (goodN p 0) (badN p 0) (popcount (p.pieces 0 0))
    (goodN p 1) (badN p 1) (popcount (p.pieces 1 0))
    (pstSum_bounds' 1 (by omega) p).1 (pstSum_bounds' 1 (by omega) p).2 (by omega)
    (by omega) (by have := sw.good; omega) (by have := sw.bad; omega)
    (by omega) (by have := sb.good; omega) (by have := sb.bad; omega)
  obtain ⟨b1, b2, b3, b4, mw, mb, b5, b6⟩ := combine_base
    (pawnRanked p) (pairsTerm p) (materialTerm p) (adjTerm p) (mobilityByColor p 0) (mobilityByColor p 1)
    (matN p 0) (matN p 1) (adjHiN p 0) (adjLoN p 0) (adjHiN p 1) (adjLoN p 1) (mobN p 0) (mobN p 1)
    (pawnRanked_bounds p) (pairsTerm_bounds p) (materialTerm_eq' p) (adjTerm_bounds' p)
    (mobilityByColor_bounds' p 0) (mobilityByColor_bounds' p 1)
    (by have := sw.mat; omega) (by have := sw.adjHi; omega) (by have := sw.adjLo; omega) (by have := sw.mob; omega)
    (by have := sw.big; omega) (by have := sw.adjLoMat; omega)
    (by have := sb.mat; omega) (by have := sb.adjHi; omega) (by have := sb.adjLo; omega) (by have := sb.mob; omega)
    (by have := sb.big; omega) (by have := sb.adjLoMat; omega)
  obtain ⟨f1, f2, f3, f4, f5⟩ := final_bounds _ _ _ _ hm he b6 g
  have z : absLe 0 0 := ⟨by omega, by omega⟩
  subst h
  refine ⟨⟨hm0, he0, z⟩, ⟨hm, he, b1⟩, ⟨hm, he, b2⟩, ⟨hm, he, b3⟩, ⟨hm, he, b4⟩, mw, mb, b5, ⟨hm, he, b6⟩,
    g, f1, f2, f3, f4, f5, ?_⟩
  dsimp only
  unfold absLe at f5 ⊢
  split <;> omega

end Clemens
