import Clemens.Proofs.EvalBounds
/-
Lemma library for C15 (part 1): the trace of all `int16` intermediates of `eval.do`, and the
bounds of every one of them under the material constraints — the bounds are the functions of the tuning
constants defined in `Proofs/EvalConsts.lean` (`midBound`, `baseB1` … `baseBound`, `evalBound`); nothing here
depends on the current values of the constants.
-/
namespace Clemens

/-- every value the Go code holds in an `int16` while it evaluates a non-drawn position -/
structure EvalTrace where
  ePst : EvalAcc        -- after `evalPieceSquareTables`
  ePawns : EvalAcc      -- after `evalPawns`
  ePairs : EvalAcc      -- after `evalPairs`
  eMat : EvalAcc        -- after `evalBaseMaterial`
  eAdj : EvalAcc        -- after `evalPawnAdjustment`
  mobW : Int            -- mobility and king attack value of white
  mobB : Int            -- … of black
  baseW : Int           -- base + mobW (before mobB is subtracted)
  eMob : EvalAcc        -- after the mobility term
  phase : Int           -- gamePhase
  prodMid : Int         -- mid * gamePhase
  prodEnd : Int         -- end * (maxGamePhase - gamePhase)
  prodSum : Int         -- their sum
  quot : Int            -- … / maxGamePhase
  score : Int           -- … + base
  result : Int          -- from the point of view of the side to move
deriving Repr

def evalTrace (p : Pos) : Option EvalTrace := do
  let e1 := evalPst p {}
  let e2 := evalPawns p e1
  let e3 := evalPairs p e2
  let e4 := evalMaterial p e3
  let e5 ← evalPawnAdjustment p e4
  let mw := mobilityByColor p 0
  let mb := mobilityByColor p 1
  let e6 : EvalAcc := { e5 with base := e5.base + mw - mb }
  let gp := gamePhase p
  let pm := e6.mid * gp
  let pe := e6.end_ * (maxGamePhase - gp)
  let q := (pm + pe).tdiv maxGamePhase
  let sc := q + e6.base
  pure { ePst := e1, ePawns := e2, ePairs := e3, eMat := e4, eAdj := e5, mobW := mw, mobB := mb,
         baseW := e5.base + mw, eMob := e6, phase := gp, prodMid := pm, prodEnd := pe, prodSum := pm + pe,
         quot := q, score := sc, result := if p.side = 1 then -sc else sc }

/-- the trace computes what `evalRaw` computes -/
theorem evalRaw_eq_trace (p : Pos) :
    evalRaw p = if isDraw p then some (contempt p) else (evalTrace p).map (·.result) := by
  unfold evalRaw evalTrace
  split
  · rfl
  · cases h : evalPawnAdjustment p (evalMaterial p (evalPairs p (evalPawns p (evalPst p {})))) with
    | none => dsimp only; rw [h]; rfl
    | some e => dsimp only; rw [h]; rfl

theorem isSome_of_legal (p : Pos) (hw : popcount (p.pieces 0 0) ≤ 8) (hb : popcount (p.pieces 1 0) ≤ 8) :
    ∃ tr, evalTrace p = some tr := by
  unfold evalTrace
  dsimp only
  rw [evalPawnAdjustment_eq p _ hw hb]
  exact ⟨_, rfl⟩

def EvalAcc.within (e : EvalAcc) (M B : Int) : Prop := absLe e.mid M ∧ absLe e.end_ M ∧ absLe e.base B

/-- the base score: the accumulated bounds -/
theorem combine_base (R PR M A MW MB : Int)
    (hR : absLe R pawnBound) (hPR : absLe PR pairsBound) (hM : absLe M matBound) (hA : absLe A adjBound)
    (hMW : mobLo ≤ MW ∧ MW ≤ mobHi) (hMB : mobLo ≤ MB ∧ MB ≤ mobHi) :
    absLe (0 + R) baseB1 ∧ absLe (0 + R + PR) baseB2 ∧ absLe (0 + R + PR + M) baseB3 ∧
    absLe (0 + R + PR + M + A) baseB4 ∧ absLe (0 + R + PR + M + A + MW) baseBW ∧
    absLe (0 + R + PR + M + A + MW - MB) baseBound := by
  unfold absLe at *
  unfold baseBound baseBW baseB4 baseB3 baseB2 baseB1
  refine ⟨by omega, by omega, by omega, by omega, by omega, by omega⟩

/-- explicit bounds for every intermediate -/
structure EvalTrace.Bounded (t : EvalTrace) : Prop where
  ePst : t.ePst.within midBound 0
  ePawns : t.ePawns.within midBound baseB1
  ePairs : t.ePairs.within midBound baseB2
  eMat : t.eMat.within midBound baseB3
  eAdj : t.eAdj.within midBound baseB4
  mobW : mobLo ≤ t.mobW ∧ t.mobW ≤ mobHi
  mobB : mobLo ≤ t.mobB ∧ t.mobB ≤ mobHi
  baseW : absLe t.baseW baseBW
  eMob : t.eMob.within midBound baseBound
  phase : 0 ≤ t.phase ∧ t.phase ≤ maxGamePhase
  prodMid : absLe t.prodMid (midBound * maxGamePhase)
  prodEnd : absLe t.prodEnd (midBound * maxGamePhase)
  prodSum : absLe t.prodSum (midBound * maxGamePhase)
  quot : absLe t.quot midBound
  score : absLe t.score (midBound + baseBound)
  result : absLe t.result (midBound + baseBound)

/-- the tapering: both products, their sum, the quotient and the score, for any phase scores within `M`, base score within `B`,
game phase `g ∈ [0, G]` and divisor `G > 0` -/
theorem final_bounds (m e b g M B G : Int) (hm : absLe m M) (he : absLe e M) (hb : absLe b B)
    (hg : 0 ≤ g ∧ g ≤ G) (hG : 0 < G) :
    absLe (m * g) (M * G) ∧ absLe (e * (G - g)) (M * G) ∧ absLe (m * g + e * (G - g)) (M * G) ∧
    absLe ((m * g + e * (G - g)).tdiv G) M ∧ absLe ((m * g + e * (G - g)).tdiv G + b) (M + B) := by
  have h1 := absLe_mul_right m g M G hm hg.1 hg.2
  have h2 := absLe_mul_right e (G - g) M G he (by omega) (by omega)
  have h1' := absLe_mul_right m g M g hm hg.1 (Int.le_refl _)
  have h2' := absLe_mul_right e (G - g) M (G - g) he (by omega) (Int.le_refl _)
  have hs : M * g + M * (G - g) = M * G := by rw [← Int.mul_add]; congr 1; omega
  have h3 : absLe (m * g + e * (G - g)) (M * G) := by unfold absLe at *; omega
  have h4 := tdiv_bounds (m * g + e * (G - g)) G M hG h3.1 h3.2
  refine ⟨h1, h2, h3, h4, ?_⟩
  unfold absLe at *; omega

theorem evalTrace_bounded (p : Pos) (hw : legalRawOf p 0) (hb : legalRawOf p 1)
    (tr : EvalTrace) (h : evalTrace p = some tr) : tr.Bounded := by
  unfold evalTrace at h
  dsimp only at h
  rw [evalPawnAdjustment_eq p _ hw.2.1 hb.2.1] at h
  simp only [Option.bind_eq_bind, Option.bind_some, Option.pure_def, Option.some.injEq] at h
  simp only [evalPst_eq, evalPawns_eq, evalPairs_eq, evalMaterial_eq] at h
  have g := gamePhase_bounds p
  obtain ⟨hm0, hm⟩ := phase_bounds 0 (by omega) p hw hb
  obtain ⟨he0, he⟩ := phase_bounds 1 (by omega) p hw hb
  obtain ⟨b1, b2, b3, b4, b5, b6⟩ := combine_base
    (pawnRanked p) (pairsTerm p) (materialTerm p) (adjTerm p) (mobilityByColor p 0) (mobilityByColor p 1)
    (pawnRanked_bounds p) (pairsTerm_bounds p) (materialTerm_bounds p hw hb) (adjTerm_bounds p hw hb)
    (mobilityByColor_bounds p 0 hw) (mobilityByColor_bounds p 1 hb)
  have hm0' : absLe (0 + pstSum 0 p) midBound := by rw [Int.zero_add]; exact hm0
  have he0' : absLe (0 + pstSum 1 p) midBound := by rw [Int.zero_add]; exact he0
  have hm' : absLe (0 + pstSum 0 p + isoW 0 * isoDiff p) midBound := by rw [Int.zero_add]; exact hm
  have he' : absLe (0 + pstSum 1 p + isoW 1 * isoDiff p) midBound := by rw [Int.zero_add]; exact he
  obtain ⟨f1, f2, f3, f4, f5⟩ := final_bounds _ _ _ _ _ _ _ hm' he' b6 g phase_facts.2.2.2.2
  have z : absLe 0 0 := ⟨by omega, by omega⟩
  subst h
  refine ⟨⟨hm0', he0', z⟩, ⟨hm', he', b1⟩, ⟨hm', he', b2⟩, ⟨hm', he', b3⟩, ⟨hm', he', b4⟩,
    mobilityByColor_bounds p 0 hw, mobilityByColor_bounds p 1 hb, b5, ⟨hm', he', b6⟩,
    g, f1, f2, f3, f4, f5, ?_⟩
  dsimp only
  unfold absLe at f5 ⊢
  split <;> omega

end Clemens
