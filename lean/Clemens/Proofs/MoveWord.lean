import Clemens.Model.Pos
/-
Decoding of the 32-bit move words the generators build (`Move.mk`, `withPromo`, the castling word).
-/
namespace Clemens

theorem Move.mk_eq_add (s t k : Nat) (hs : s < 64) (ht : t < 64) :
    Move.mk s t k = s + t * 64 + k * 4096 := by
  unfold Move.mk
  show @Eq Nat _ _
  have h1 : s ||| t <<< 6 = t <<< 6 + s := by
    rw [Nat.or_comm]; exact (Nat.shiftLeft_add_eq_or_of_lt (i := 6) (by omega) t).symm
  have h2 : (t <<< 6 + s) ||| k <<< 12 = k <<< 12 + (t <<< 6 + s) := by
    rw [Nat.or_comm]
    refine (Nat.shiftLeft_add_eq_or_of_lt (i := 12) ?_ k).symm
    rw [Nat.shiftLeft_eq]; omega
  rw [h1, h2, Nat.shiftLeft_eq, Nat.shiftLeft_eq]; omega

theorem Move.tgt_eq (m : Move) : Move.tgt m = m / 64 % 64 := by
  unfold Move.tgt
  rw [Nat.shiftRight_eq_div_pow, show (63 : Nat) = 2 ^ 6 - 1 by rfl, Nat.and_two_pow_sub_one_eq_mod]

theorem Move.kind_eq (m : Move) : Move.kind m = m / 4096 % 4 := by
  unfold Move.kind
  rw [Nat.shiftRight_eq_div_pow, show (3 : Nat) = 2 ^ 2 - 1 by rfl, Nat.and_two_pow_sub_one_eq_mod]

theorem Move.src_eq (m : Move) : Move.src m = m % 64 := by
  unfold Move.src
  rw [show (63 : Nat) = 2 ^ 6 - 1 by rfl, Nat.and_two_pow_sub_one_eq_mod]

theorem Move.tgt_mk (s t k : Nat) (hs : s < 64) (ht : t < 64) : (Move.mk s t k).tgt = t := by
  rw [Move.tgt_eq, Move.mk_eq_add s t k hs ht]; omega

theorem Move.kind_mk (s t k : Nat) (hs : s < 64) (ht : t < 64) (hk : k < 4) : (Move.mk s t k).kind = k := by
  rw [Move.kind_eq, Move.mk_eq_add s t k hs ht]; omega

theorem Move.src_mk (s t k : Nat) (hs : s < 64) (ht : t < 64) : (Move.mk s t k).src = s := by
  rw [Move.src_eq, Move.mk_eq_add s t k hs ht]; omega

/-- a promotion word for one of the four piece types the generator uses -/
theorem Move.withPromo_eq_add (s t pt : Nat) (hs : s < 64) (ht : t < 64) (hpt : 1 ≤ pt ∧ pt ≤ 4) :
    (Move.mk s t 1).withPromo pt = s + t * 64 + 4096 + (pt - 1) * 16384 := by
  unfold Move.withPromo
  show @Eq Nat _ _
  rw [Move.mk_eq_add s t 1 hs ht]
  have e1 : (pt + 4294967295) % 4294967296 = pt - 1 := by omega
  rw [e1, Nat.shiftLeft_eq]
  have e2 : (pt - 1) * 2 ^ 14 % 4294967296 = (pt - 1) <<< 14 := by
    rw [Nat.shiftLeft_eq]; omega
  rw [e2, Nat.or_comm, ← Nat.shiftLeft_add_eq_or_of_lt (i := 14) (by omega), Nat.shiftLeft_eq]
  omega

theorem Move.tgt_withPromo (s t pt : Nat) (hs : s < 64) (ht : t < 64) (hpt : 1 ≤ pt ∧ pt ≤ 4) :
    ((Move.mk s t 1).withPromo pt).tgt = t := by
  rw [Move.tgt_eq, Move.withPromo_eq_add s t pt hs ht hpt]; omega

theorem Move.kind_withPromo (s t pt : Nat) (hs : s < 64) (ht : t < 64) (hpt : 1 ≤ pt ∧ pt ≤ 4) :
    ((Move.mk s t 1).withPromo pt).kind = 1 := by
  rw [Move.kind_eq, Move.withPromo_eq_add s t pt hs ht hpt]; omega

/-- the castling word `(3 <<< 12) ||| src ||| (tgt <<< 6)` for squares on the board -/
theorem castlingWord_eq_add (s t : Nat) (hs : s < 64) (ht : t < 64) :
    (3 <<< 12) ||| s ||| (t <<< 6) = s + t * 64 + 12288 := by
  rw [Nat.or_assoc]
  have h1 : s ||| t <<< 6 = t <<< 6 + s := by
    rw [Nat.or_comm]; exact (Nat.shiftLeft_add_eq_or_of_lt (i := 6) (by omega) t).symm
  rw [h1, ← Nat.shiftLeft_add_eq_or_of_lt (i := 12) (by rw [Nat.shiftLeft_eq]; omega), Nat.shiftLeft_eq,
    Nat.shiftLeft_eq]
  omega

end Clemens
