import Clemens.Model.WF
/-
C02 — `MakeMove` in stages.  `makeMove` is cut into the five stages of the Go function
(`stCapture`, the two `touchSquare`s, `movePiece`, `stPawn`, `stKind`, `stFinish`); every stage gets a
total twin (`capP`, `delP`, `setP`, `pawnP`, `kindP`) that it equals whenever it does not panic, and
simp lemmas say what each twin does to the fields a FEN shows (`at`, side, castling, ep, hmc, ply).
Also: `makeMove_side`, `makeMove_ply` (no hypotheses beyond success).
-/
namespace Clemens

/-! ### the stages of `makeMove` -/

def clearEp (K : Keys) (p : Pos) : Pos :=
  if p.ep != 64 then { p with hash := p.hash ^^^ K.ep (fileOf p.ep), ep := 64 } else p

def stCapture (K : Keys) (p : Pos) (tgt : Nat) : Option (Pos × Bool) :=
  if p.at tgt != 0 then (do let (p, _) ← deletePiece K p tgt; pure (p, true)) else pure (p, false)

def stPawn (K : Keys) (p : Pos) (piece src tgt : Nat) (reset : Bool) : Option (Pos × Bool) :=
  if pieceType piece = PAWN then
    if absDiff src tgt % 256 = 16 then
      let p := { p with ep := tgt, hash := p.hash ^^^ K.ep (fileOf tgt) }
      if p.side = 1 then pure ({ p with ep := (p.ep + 8) % 256 }, true)
      else if p.side = 0 then pure ({ p with ep := (p.ep + 248) % 256 }, true)
      else none
    else pure (p, true)
  else pure (p, reset)

def stKind (K : Keys) (p : Pos) (m : Move) : Option Pos :=
  let tgt := m.tgt
  if m.kind = 3 then
    if tgt = 2 then (do let (p, _) ← movePiece K p 0 3; pure p)
    else if tgt = 6 then (do let (p, _) ← movePiece K p 7 5; pure p)
    else if tgt = 58 then (do let (p, _) ← movePiece K p 56 59; pure p)
    else if tgt = 62 then (do let (p, _) ← movePiece K p 63 61; pure p)
    else none
  else if m.kind = 2 then
    let victim := if p.side = 0 then (tgt + 248) % 256 else if p.side = 1 then (tgt + 8) % 256 else 0
    (do let (p, _) ← deletePiece K p victim; pure p)
  else if m.kind = 1 then
    (do let (p, _) ← deletePiece K p tgt; setPiece K p (newPiece p.side m.promo) tgt)
  else pure p

def stFinish (K : Keys) (p : Pos) (reset : Bool) : Pos :=
  let p := { p with ply := (p.ply + 1) % 256, side := switchColor p.side, hash := p.hash ^^^ K.side }
  let p := { p with hmc := if reset then 0 else (p.hmc + 1) % 256 }
  helperBitboards p

theorem ite_bind_opt {α β} (c : Prop) [Decidable c] (x y : Option α) (f : α → Option β) :
    (if c then x else y) >>= f = if c then x >>= f else y >>= f := by split <;> rfl

/-- `makeMove` is the composition of its stages -/
theorem makeMove_eq (K : Keys) (p : Pos) (m : Move) : makeMove K p m = (do
    let p0 := clearEp K p
    let (p1, r1) ← stCapture K p0 m.tgt
    let p2 := touchSquare K (touchSquare K p1 m.src) m.tgt
    let (p3, piece) ← movePiece K p2 m.src m.tgt
    let (p4, r2) ← stPawn K p3 piece m.src m.tgt r1
    let p5 ← stKind K p4 m
    pure (stFinish K p5 r2)) := by
  unfold makeMove clearEp stCapture stPawn stKind stFinish
  simp only [ite_bind_opt]

/-! ### total twins of the primitive operations -/

/-- what `deletePiece` returns when it does not panic -/
def delP (K : Keys) (p : Pos) (s : Nat) : Pos :=
  { p with
    board := vset p.board s 0
    bb := vset p.bb (pieceColor (p.at s) * 6 + pieceType (p.at s))
            (p.pieces (pieceColor (p.at s)) (pieceType (p.at s)) &&& ~~~(bit s))
    hash := p.hash ^^^ K.piece s (pieceColor (p.at s)) (pieceType (p.at s)) }

/-- what `setPiece` returns when it does not panic -/
def setP (K : Keys) (p : Pos) (pc s : Nat) : Pos :=
  { p with
    board := vset p.board s pc
    bb := vset p.bb (pieceColor pc * 6 + pieceType pc) (p.pieces (pieceColor pc) (pieceType pc) ||| bit s)
    hash := p.hash ^^^ K.piece s (pieceColor pc) (pieceType pc) }

theorem deletePiece_eq {K : Keys} {p : Pos} {s : Nat} (hs : s < 64) (hv : validPiece (p.at s) = true) :
    deletePiece K p s = some (delP K p s, p.at s) := by
  simp [deletePiece, delP, hs, hv]

theorem setPiece_eq {K : Keys} {p : Pos} {pc s : Nat} (hs : s < 64) (hv : validPiece pc = true) :
    setPiece K p pc s = some (setP K p pc s) := by
  simp [setPiece, setP, hs, hv]

theorem deletePiece_some {K : Keys} {p q : Pos} {s pc : Nat} (h : deletePiece K p s = some (q, pc)) :
    q = delP K p s ∧ pc = p.at s := by
  simp only [deletePiece] at h
  split at h
  · simp only [Option.some.injEq, Prod.mk.injEq] at h
    exact ⟨h.1.symm, h.2.symm⟩
  · cases h

theorem setPiece_some {K : Keys} {p q : Pos} {s pc : Nat} (h : setPiece K p pc s = some q) :
    q = setP K p pc s := by
  unfold setPiece at h
  split at h
  · simp only [Option.some.injEq] at h
    exact h.symm
  · cases h

theorem movePiece_some {K : Keys} {p q : Pos} {f t pc : Nat} (h : movePiece K p f t = some (q, pc)) :
    q = setP K (delP K p f) (p.at f) t ∧ pc = p.at f := by
  unfold movePiece at h
  cases h1 : deletePiece K p f with
  | none => simp [h1] at h
  | some r =>
    obtain ⟨p1, pc1⟩ := r
    obtain ⟨rfl, rfl⟩ := deletePiece_some h1
    cases h2 : setPiece K (delP K p f) (p.at f) t with
    | none => simp [h1, h2] at h
    | some p2 =>
      have := setPiece_some h2
      simp [h1, h2] at h
      exact ⟨by rw [← h.1, this], h.2.symm⟩

/-! ### fields of the twins -/

theorem at_vset (b : Vector Nat 64) (s x j : Nat) :
    vget (vset b s x) j 0 = if j = s ∧ s < 64 then x else vget b j 0 := by
  unfold vget vset
  rw [Vector.getElem?_setIfInBounds]
  by_cases h : s = j
  · subst h; by_cases h2 : s < 64 <;> simp [h2]
  · have : ¬ j = s := fun e => h e.symm
    simp [h, this]

@[simp] theorem delP_side (K p s) : (delP K p s).side = p.side := rfl
@[simp] theorem delP_castling (K p s) : (delP K p s).castling = p.castling := rfl
@[simp] theorem delP_ep (K p s) : (delP K p s).ep = p.ep := rfl
@[simp] theorem delP_hmc (K p s) : (delP K p s).hmc = p.hmc := rfl
@[simp] theorem delP_ply (K p s) : (delP K p s).ply = p.ply := rfl
@[simp] theorem setP_side (K p pc s) : (setP K p pc s).side = p.side := rfl
@[simp] theorem setP_castling (K p pc s) : (setP K p pc s).castling = p.castling := rfl
@[simp] theorem setP_ep (K p pc s) : (setP K p pc s).ep = p.ep := rfl
@[simp] theorem setP_hmc (K p pc s) : (setP K p pc s).hmc = p.hmc := rfl
@[simp] theorem setP_ply (K p pc s) : (setP K p pc s).ply = p.ply := rfl

/-- a square that is off the board reads as empty -/
theorem at_ge (p : Pos) {s : Nat} (h : 64 ≤ s) : p.at s = 0 := by
  unfold Pos.at vget
  rw [Vector.getElem?_eq_none (by omega)]; rfl

theorem delP_at (K : Keys) (p : Pos) (s j : Nat) : (delP K p s).at j = if j = s then 0 else p.at j := by
  show vget (vset p.board s 0) j 0 = _
  rw [at_vset]
  by_cases h : j = s
  · subst h
    by_cases h2 : j < 64
    · simp [h2]
    · simp [h2]; exact at_ge p (by omega)
  · simp [h]; rfl

theorem setP_at (K : Keys) (p : Pos) (pc s j : Nat) :
    (setP K p pc s).at j = if j = s ∧ s < 64 then pc else p.at j := by
  show vget (vset p.board s pc) j 0 = _
  rw [at_vset]; rfl

/-! ### `clearEp` -/
@[simp] theorem clearEp_side (K p) : (clearEp K p).side = p.side := by unfold clearEp; split <;> rfl
@[simp] theorem clearEp_castling (K p) : (clearEp K p).castling = p.castling := by unfold clearEp; split <;> rfl
@[simp] theorem clearEp_hmc (K p) : (clearEp K p).hmc = p.hmc := by unfold clearEp; split <;> rfl
@[simp] theorem clearEp_ply (K p) : (clearEp K p).ply = p.ply := by unfold clearEp; split <;> rfl
@[simp] theorem clearEp_board (K p) : (clearEp K p).board = p.board := by unfold clearEp; split <;> rfl
@[simp] theorem clearEp_at (K p s) : (clearEp K p).at s = p.at s := by
  show vget (clearEp K p).board s 0 = _; rw [clearEp_board]; rfl
@[simp] theorem clearEp_ep (K p) : (clearEp K p).ep = 64 := by
  unfold clearEp; split
  · rfl
  · rename_i h; simpa using h

/-! ### castling rights -/
@[simp] theorem removeCastling_side (K p c i) : (removeCastling K p c i).side = p.side := by
  unfold removeCastling; split <;> rfl
@[simp] theorem removeCastling_ep (K p c i) : (removeCastling K p c i).ep = p.ep := by
  unfold removeCastling; split <;> rfl
@[simp] theorem removeCastling_hmc (K p c i) : (removeCastling K p c i).hmc = p.hmc := by
  unfold removeCastling; split <;> rfl
@[simp] theorem removeCastling_ply (K p c i) : (removeCastling K p c i).ply = p.ply := by
  unfold removeCastling; split <;> rfl
@[simp] theorem removeCastling_board (K p c i) : (removeCastling K p c i).board = p.board := by
  unfold removeCastling; split <;> rfl

theorem and_compl_of_disjoint : ∀ c < 16, ∀ r < 16, c &&& r = 0 → c &&& (15 - r) = c := by decide

theorem removeCastling_castling (K : Keys) (p : Pos) (c i : Nat) (hc : p.castling < 16) (hr : c < 16) :
    (removeCastling K p c i).castling = p.castling &&& (15 - c) := by
  unfold removeCastling; split
  · rename_i h
    exact (and_compl_of_disjoint _ hc _ hr (by simpa using h)).symm
  · rfl

@[simp] theorem touchSquare_side (K p s) : (touchSquare K p s).side = p.side := by
  unfold touchSquare; repeat' split
  all_goals simp
@[simp] theorem touchSquare_ep (K p s) : (touchSquare K p s).ep = p.ep := by
  unfold touchSquare; repeat' split
  all_goals simp
@[simp] theorem touchSquare_hmc (K p s) : (touchSquare K p s).hmc = p.hmc := by
  unfold touchSquare; repeat' split
  all_goals simp
@[simp] theorem touchSquare_ply (K p s) : (touchSquare K p s).ply = p.ply := by
  unfold touchSquare; repeat' split
  all_goals simp
@[simp] theorem touchSquare_board (K p s) : (touchSquare K p s).board = p.board := by
  unfold touchSquare; repeat' split
  all_goals simp
@[simp] theorem touchSquare_at (K p s j) : (touchSquare K p s).at j = p.at j := by
  show vget (touchSquare K p s).board j 0 = _; rw [touchSquare_board]; rfl

theorem and_and_compl : ∀ c < 16, ∀ a < 16, ∀ b < 16,
    (c &&& (15 - a)) &&& (15 - b) = c &&& (15 - (a ||| b)) := by decide

theorem rightsTouched_lt (s : Nat) : Fide.rightsTouched s < 16 := by
  unfold Fide.rightsTouched; repeat' split
  all_goals decide

theorem touchSquare_castling (K : Keys) (p : Pos) (s : Nat) (hc : p.castling < 16) :
    (touchSquare K p s).castling = p.castling &&& (15 - Fide.rightsTouched s) := by
  have hle : ∀ x : Nat, p.castling &&& x < 16 := fun x => Nat.lt_of_le_of_lt Nat.and_le_left hc
  have h2 : (removeCastling K p 2 1).castling = p.castling &&& 13 := removeCastling_castling K p 2 1 hc (by decide)
  have h8 : (removeCastling K p 8 3).castling = p.castling &&& 7 := removeCastling_castling K p 8 3 hc (by decide)
  have key : s = 0 ∨ s = 7 ∨ s = 56 ∨ s = 63 ∨ s = 4 ∨ s = 60 ∨
      (s ≠ 0 ∧ s ≠ 7 ∧ s ≠ 56 ∧ s ≠ 63 ∧ s ≠ 4 ∧ s ≠ 60) := by omega
  rcases key with rfl | rfl | rfl | rfl | rfl | rfl | ⟨h0, h7, h56, h63, h4, h60⟩
  · simp [touchSquare, Fide.rightsTouched, removeCastling_castling, hc]
  · simp [touchSquare, Fide.rightsTouched, removeCastling_castling, hc]
  · simp [touchSquare, Fide.rightsTouched, removeCastling_castling, hc]
  · simp [touchSquare, Fide.rightsTouched, removeCastling_castling, hc]
  · have : (touchSquare K p 4) = removeCastling K (removeCastling K p 2 1) 1 0 := by simp [touchSquare]
    rw [this, removeCastling_castling _ _ _ _ (by rw [h2]; exact hle _) (by decide), h2]
    exact and_and_compl _ hc 2 (by decide) 1 (by decide)
  · have : (touchSquare K p 60) = removeCastling K (removeCastling K p 8 3) 4 2 := by simp [touchSquare]
    rw [this, removeCastling_castling _ _ _ _ (by rw [h8]; exact hle _) (by decide), h8]
    exact and_and_compl _ hc 8 (by decide) 4 (by decide)
  · simp [touchSquare, Fide.rightsTouched, h0, h7, h56, h63, h4, h60]
    exact (and_compl_of_disjoint _ hc 0 (by decide) (by simp)).symm

/-- the two `switch` statements together remove exactly the rights the rules say are lost -/
theorem touch2_castling (K : Keys) (p : Pos) (s t : Nat) (hc : p.castling < 16) :
    (touchSquare K (touchSquare K p s) t).castling
      = p.castling &&& (15 - (Fide.rightsTouched s ||| Fide.rightsTouched t)) := by
  have h1 := touchSquare_castling K p s hc
  have hlt : (touchSquare K p s).castling < 16 := by
    rw [h1]; exact Nat.lt_of_le_of_lt Nat.and_le_left hc
  rw [touchSquare_castling K _ t hlt, h1]
  exact and_and_compl _ hc _ (rightsTouched_lt s) _ (rightsTouched_lt t)

/-! ### `stFinish` -/
@[simp] theorem helperBitboards_side (p) : (helperBitboards p).side = p.side := rfl
@[simp] theorem helperBitboards_ply (p) : (helperBitboards p).ply = p.ply := rfl
@[simp] theorem stFinish_side (K p r) : (stFinish K p r).side = switchColor p.side := rfl
@[simp] theorem stFinish_ply (K p r) : (stFinish K p r).ply = (p.ply + 1) % 256 := rfl
@[simp] theorem stFinish_castling (K p r) : (stFinish K p r).castling = p.castling := rfl
@[simp] theorem stFinish_ep (K p r) : (stFinish K p r).ep = p.ep := rfl
@[simp] theorem stFinish_hmc (K p r) : (stFinish K p r).hmc = if r = true then 0 else (p.hmc + 1) % 256 := rfl
@[simp] theorem stFinish_board (K p r) : (stFinish K p r).board = p.board := rfl
@[simp] theorem stFinish_at (K p r j) : (stFinish K p r).at j = p.at j := rfl

/-! ### side and ply of the successor, with no assumption but success -/

/-- a stage that keeps side to move and ply -/
def SamePly (p q : Pos) : Prop := q.side = p.side ∧ q.ply = p.ply

theorem SamePly.refl (p : Pos) : SamePly p p := ⟨rfl, rfl⟩
theorem SamePly.trans {p q r : Pos} (h1 : SamePly p q) (h2 : SamePly q r) : SamePly p r :=
  ⟨h2.1.trans h1.1, h2.2.trans h1.2⟩

theorem samePly_delete {K p q s pc} (h : deletePiece K p s = some (q, pc)) : SamePly p q := by
  obtain ⟨rfl, -⟩ := deletePiece_some h; exact ⟨rfl, rfl⟩
theorem samePly_set {K p q s pc} (h : setPiece K p pc s = some q) : SamePly p q := by
  have := setPiece_some h; subst this; exact ⟨rfl, rfl⟩
theorem samePly_move {K p q f t pc} (h : movePiece K p f t = some (q, pc)) : SamePly p q := by
  obtain ⟨rfl, -⟩ := movePiece_some h; exact ⟨rfl, rfl⟩
theorem samePly_clearEp (K p) : SamePly p (clearEp K p) := ⟨by simp, by simp⟩
theorem samePly_touch (K p s) : SamePly p (touchSquare K p s) := ⟨by simp, by simp⟩

theorem samePly_capture {K p q t r} (h : stCapture K p t = some (q, r)) : SamePly p q := by
  unfold stCapture at h
  split at h
  · cases h1 : deletePiece K p t with
    | none => simp [h1] at h
    | some x =>
      obtain ⟨p1, pc1⟩ := x
      simp [h1] at h
      rw [← h.1]; exact samePly_delete h1
  · simp at h; rw [← h.1]; exact SamePly.refl p

theorem samePly_pawn {K p q pc s t r r'} (h : stPawn K p pc s t r = some (q, r')) : SamePly p q := by
  unfold stPawn at h
  simp only at h
  split at h
  · split at h
    · split at h
      · simp at h; rw [← h.1]; exact ⟨rfl, rfl⟩
      · split at h
        · simp at h; rw [← h.1]; exact ⟨rfl, rfl⟩
        · cases h
    · simp at h; rw [← h.1]; exact SamePly.refl p
  · simp at h; rw [← h.1]; exact SamePly.refl p

theorem samePly_kind {K p q m} (h : stKind K p m = some q) : SamePly p q := by
  unfold stKind at h
  have mv : ∀ f t, (do let (p, _) ← movePiece K p f t; pure p) = some q → SamePly p q := by
    intro f t h
    cases h1 : movePiece K p f t with
    | none => simp [h1] at h
    | some x =>
      obtain ⟨p1, pc1⟩ := x
      simp [h1] at h
      rw [← h]; exact samePly_move h1
  simp only at h
  split at h
  · repeat' split at h
    all_goals first
      | exact mv _ _ h
      | cases h
  · split at h
    · cases h1 : deletePiece K p (if p.side = 0 then (m.tgt + 248) % 256 else if p.side = 1 then (m.tgt + 8) % 256 else 0) with
      | none => simp [h1] at h
      | some x =>
        obtain ⟨p1, pc1⟩ := x
        simp [h1] at h
        rw [← h]; exact samePly_delete h1
    · split at h
      · cases h1 : deletePiece K p m.tgt with
        | none => simp [h1] at h
        | some x =>
          obtain ⟨p1, pc1⟩ := x
          simp [h1] at h
          exact (samePly_delete h1).trans (samePly_set h)
      · simp at h; rw [← h]; exact SamePly.refl p

/-- whenever `makeMove` succeeds, side and ply of the successor are the switched side and the next ply -/
theorem makeMove_side_ply {K : Keys} {p q : Pos} {m : Move} (h : makeMove K p m = some q) :
    q.side = switchColor p.side ∧ q.ply = (p.ply + 1) % 256 := by
  rw [makeMove_eq] at h
  simp only at h
  cases h1 : stCapture K (clearEp K p) m.tgt with
  | none => simp [h1] at h
  | some x1 =>
    obtain ⟨p1, r1⟩ := x1
    simp only [h1, Option.bind_eq_bind, Option.bind_some] at h
    cases h3 : movePiece K (touchSquare K (touchSquare K p1 m.src) m.tgt) m.src m.tgt with
    | none => simp [h3] at h
    | some x3 =>
      obtain ⟨p3, piece⟩ := x3
      simp only [h3, Option.bind_some] at h
      cases h4 : stPawn K p3 piece m.src m.tgt r1 with
      | none => simp [h4] at h
      | some x4 =>
        obtain ⟨p4, r2⟩ := x4
        simp only [h4, Option.bind_some] at h
        cases h5 : stKind K p4 m with
        | none => simp [h5] at h
        | some p5 =>
          simp only [h5, Option.bind_some, Option.pure_def, Option.some.injEq] at h
          have hs : SamePly p p5 :=
            (samePly_clearEp K p).trans <| (samePly_capture h1).trans <| (samePly_touch K p1 m.src).trans <|
              (samePly_touch K _ m.tgt).trans <| (samePly_move h3).trans <| (samePly_pawn h4).trans (samePly_kind h5)
          subst h
          exact ⟨by simp [hs.1], by simp [hs.2]⟩

end Clemens
