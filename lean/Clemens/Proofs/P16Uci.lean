import Clemens.Model.Fen
import Clemens.Model.WF
/-
P16 (C03b, stretch) lemmas: the specification's UCI text of a move (`Fide.Move.uci`, a `String`) is, byte for byte, what the
engine prints for every move word with that meaning (`moveToString`, a list of bytes).
-/
namespace Clemens

/-- the bytes of an ASCII string (for the strings considered here — all characters below 128, see `P16.uci_ascii` — these are
the UTF-8 bytes Go sees) -/
def bytesOfString (s : String) : Bytes := s.toList.map Char.toNat

namespace P16

theorem fileChar : ∀ f, f < 8 → (Char.ofNat (97 + f)).toNat = ("abcdefgh".toList.map Char.toNat).getD (f % 8) 63 := by
  decide

theorem sqName_bytes (s : Nat) : bytesOfString (Fide.sqName s) = squareToString s := by
  unfold bytesOfString Fide.sqName squareToString natToDec
  have hf : fileOf s < 8 := by unfold fileOf; omega
  rw [String.toList_append, List.map_append, String.toList_singleton, List.map_cons, List.map_nil, fileChar _ hf]
  rfl

theorem promoSuffix : ∀ pt, 1 ≤ pt → pt ≤ 4 →
    bytesOfString (match (some pt : Option Nat) with
      | some 1 => "n" | some 2 => "b" | some 3 => "r" | some 4 => "q" | _ => "") = pieceTypeString pt := by
  intro pt h1 h4
  obtain rfl | rfl | rfl | rfl : pt = 1 ∨ pt = 2 ∨ pt = 3 ∨ pt = 4 := by omega
  all_goals decide

theorem uci_suffix (m : Move) (hp : m.kind = 1 → 1 ≤ m.promo ∧ m.promo ≤ 4) :
    bytesOfString (match (if m.kind = 1 then some m.promo else none : Option Nat) with
      | some 1 => "n" | some 2 => "b" | some 3 => "r" | some 4 => "q" | _ => "") =
    (if m.kind = 1 then pieceTypeString m.promo else []) := by
  by_cases hk : m.kind = 1
  · obtain ⟨a, b⟩ := hp hk
    rw [if_pos hk, if_pos hk]
    exact promoSuffix m.promo a b
  · rw [if_neg hk, if_neg hk]
    rfl

/-- the spec's UCI text of the meaning of `m` is the engine's text of `m` (for promotion words: promotion piece N, B, R or Q) -/
theorem uci_bytes (m : Move) (hp : m.kind = 1 → 1 ≤ m.promo ∧ m.promo ≤ 4) :
    bytesOfString (absMove m).uci = moveToString m := by
  have h1 := sqName_bytes m.src
  have h2 := sqName_bytes m.tgt
  have h3 := uci_suffix m hp
  unfold Fide.Move.uci moveToString absMove
  unfold bytesOfString at *
  simp only [String.toList_append, List.map_append, h1, h2]
  exact congrArg (fun x => squareToString m.src ++ squareToString m.tgt ++ x) h3

theorem square_ascii : ∀ s, s < 64 → ∀ b ∈ squareToString s, b < 128 := by decide

theorem pieceTypeString_ascii (t : Nat) : ∀ b ∈ pieceTypeString t, b < 128 := by
  unfold pieceTypeString
  intro b hb
  split at hb
  · simp at hb; omega
  · split at hb
    · simp at hb; omega
    · split at hb
      · simp at hb; omega
      · split at hb
        · simp at hb; omega
        · cases hb

/-- every byte the engine prints for a move is ASCII -/
theorem moveToString_ascii (m : Move) : ∀ b ∈ moveToString m, b < 128 := by
  have hs : m.src < 64 := by
    unfold Move.src
    exact Nat.lt_of_le_of_lt Nat.and_le_right (by omega)
  have ht : m.tgt < 64 := by
    unfold Move.tgt
    exact Nat.lt_of_le_of_lt Nat.and_le_right (by omega)
  intro b hb
  unfold moveToString at hb
  rw [List.mem_append, List.mem_append] at hb
  rcases hb with (hb | hb) | hb
  · exact square_ascii _ hs b hb
  · exact square_ascii _ ht b hb
  · split at hb
    · exact pieceTypeString_ascii _ b hb
    · cases hb

end P16
end Clemens
