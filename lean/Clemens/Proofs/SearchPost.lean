import Clemens.Proofs.SearchCancel
import Clemens.Props.C19
/-
Lemma library for C04 / C13: a postcondition logic for the search monad (`Post P m`: every `ok` result of `m` satisfies `P`),
legal lines, and the induction through `nmLoop` / `negamax`.
-/
namespace Clemens

/-- a line of engine moves that can be played one after the other, each passing the engine's legality filter, each being a
generated move up to its score bits -/
inductive LegalLine (K : Keys) : Pos → List Move → Prop
  | nil (p) : LegalLine K p []
  | cons (p q m rest) : makeMove K p m = some q → isLegal q = true → (m % 65536) ∈ (genMoves p).map (· % 65536) →
      LegalLine K q rest → LegalLine K p (m :: rest)

namespace SearchLemmas

/-- every normal (`ok`) result satisfies `P`, from every start state -/
def Post {α} (P : α → Prop) (m : SM α) : Prop := ∀ s a s', m s = (.ok a, s') → P a

theorem post_pure {α} {P : α → Prop} {a : α} (h : P a) : Post P (pure a : SM α) := by
  intro s b s' hb
  cases hb
  exact h

theorem post_panic {α} {P : α → Prop} : Post P (SM.panic : SM α) := by
  intro s b s' hb
  cases hb

theorem post_cancel {α} {P : α → Prop} : Post P (SM.cancel : SM α) := by
  intro s b s' hb
  cases hb

theorem post_bind_of {α β} {R : α → Prop} {P : β → Prop} {m : SM α} {f : α → SM β} (hm : Post R m)
    (hf : ∀ a, R a → Post P (f a)) : Post P (m >>= f) := by
  intro s b s' hb
  rw [bind_def] at hb
  rcases hms : m s with ⟨r, s1⟩
  rw [hms] at hb
  cases r with
  | ok a => exact hf a (hm s a s1 hms) s1 b s' hb
  | cancelled => cases hb
  | panic => cases hb

theorem post_true {α} (m : SM α) : Post (fun _ => True) m := fun _ _ _ _ => trivial

theorem post_bind {α β} {P : β → Prop} {m : SM α} {f : α → SM β} (hf : ∀ a, Post P (f a)) : Post P (m >>= f) :=
  post_bind_of (post_true m) (fun a _ => hf a)

theorem post_ite {α} {P : α → Prop} {c : Prop} [Decidable c] {a b : SM α} (ha : Post P a) (hb : Post P b) :
    Post P (if c then a else b) := by
  split
  · exact ha
  · exact hb

theorem post_ofOption {α} (o : Option α) : Post (fun a => o = some a) (SM.ofOption o) := by
  cases o with
  | none => exact post_panic
  | some a => exact post_pure rfl

theorem post_get : Post (fun _ => True) SM.get := post_true _

theorem post_popPath {α} {P : α → Prop} (body : SM α) (h : Post P body) :
    Post P (fun s => ((body s).1, { (body s).2 with path := (body s).2.path.pop })) := by
  intro s a s' hb
  have h1 : (body s).1 = .ok a := congrArg Prod.fst hb
  exact h s a (body s).2 (by rw [← h1])

theorem post_mono {α} {P Q : α → Prop} {m : SM α} (h : Post P m) (hpq : ∀ a, P a → Q a) : Post Q m :=
  fun s a s' hs => hpq a (h s a s' hs)

/-! ### windows -/

/-- the windows the search uses away from the `int16` boundary: `-INF ≤ α < INF`, `-INF < β ≤ INF` (no `α < β` required) -/
def InWin (a b : Int) : Prop := -INF ≤ a ∧ a < INF ∧ -INF < b ∧ b ≤ INF

theorem inwin_full {a b : Int} (h : InWin a b) : InWin (w16 (-b)) (w16 (-a)) := by
  unfold InWin w16 at *
  rw [INF_eq] at *
  omega

theorem inwin_zw {a b : Int} (h : InWin a b) : InWin (w16 (w16 (-a) - 1)) (w16 (-a)) := by
  unfold InWin w16 at *
  rw [INF_eq] at *
  omega

theorem inwin_null {a b : Int} (h : InWin a b) : InWin (w16 (-b)) (w16 (-b + 1)) := by
  unfold InWin w16 at *
  rw [INF_eq] at *
  omega

theorem inwin_raise {a b sc : Int} (h : InWin a b) (h1 : sc > a) (h2 : ¬ sc ≥ b) : InWin sc b := by
  unfold InWin at *
  omega

theorem inwin_root : InWin (-INF) INF := by
  unfold InWin
  rw [INF_eq]
  omega

/-! ### legal lines -/

/-- the PV slot of a node result: if it was written, it holds a legal line from `p` -/
def PvOK (K : Keys) (p : Pos) (o : Option (List Move)) : Prop := ∀ pv, o = some pv → LegalLine K p pv

theorem pvok_none (K : Keys) (p : Pos) : PvOK K p none := by
  intro pv h
  cases h

theorem pvok_getD {K : Keys} {p : Pos} {o : Option (List Move)} (h : PvOK K p o) : LegalLine K p (o.getD []) := by
  cases o with
  | none => exact LegalLine.nil p
  | some pv => exact h pv rfl

theorem post_pure_none {K : Keys} {p : Pos} (v : Int) :
    Post (fun r : NodeRes => PvOK K p r.2) (pure (v, none) : SM NodeRes) :=
  post_pure (pvok_none K p)

/-! ### the move loop keeps the PV legal -/

/-- loop state invariant -/
structure StOK (K : Keys) (p : Pos) (beta : Int) (st : LoopSt) : Prop where
  win : InWin st.alpha beta
  best : st.bestScore ≤ st.alpha
  pv : PvOK K p st.pvl

theorem post_nmLoop (K : Keys) (recur : NegaFn)
    (hrec : ∀ q a b d pl cn pm, InWin a b → Post (fun r : NodeRes => PvOK K q r.2) (recur q a b d pl cn pm))
    (p : Pos) (beta : Int) (depth ply : Nat) (prev : Move) (fp : Bool) (l : List Move) (st : LoopSt)
    (hl : ∀ m ∈ l, m % 65536 ∈ (genMoves p).map (· % 65536)) (hst : StOK K p beta st) :
    Post (fun st' : LoopSt => PvOK K p st'.pvl) (nmLoop K recur p beta depth ply prev fp l st) := by
  induction l generalizing st with
  | nil => unfold nmLoop; exact post_pure hst.pv
  | cons m rest ih =>
    have ih' := fun st h => ih st (fun m' hm' => hl m' (List.mem_cons_of_mem _ hm')) h
    have hm := hl m List.mem_cons_self
    unfold nmLoop
    split
    · exact post_panic
    · rename_i q hq
      split
      · exact ih' st hst
      · rename_i hleg
        have hleg : isLegal q = true := by simpa using hleg
        extract_lets st1 alpha hk jp
        have hst1 : StOK K p beta st1 := ⟨hst.win, hst.best, hst.pv⟩
        split
        · exact ih' st1 hst1
        · have hjp : ∀ x : Int × Option (List Move), PvOK K q x.2 → Post (fun st' : LoopSt => PvOK K p st'.pvl) (jp x) := by
            intro x hx
            obtain ⟨score, childPv⟩ := x
            unfold jp
            dsimp -zeta only
            extract_lets st2 jp2 st3
            have hx' : PvOK K q childPv := hx
            have hwin := hst.win
            have hbest := hst.best
            by_cases hbs : score > st1.bestScore
            · have e2 : st2 = { st1 with bestMove := m, bestScore := score } := if_pos hbs
              have hpv2 : PvOK K p st2.pvl := by rw [e2]; exact hst.pv
              split
              · split
                · exact post_bind (fun _ => post_pure hpv2)
                · exact post_pure hpv2
              · rename_i hnb
                apply ih' st3
                by_cases ha : score > alpha
                · have e3 : st3 = { st2 with nodeType := 0, alpha := score, pvl := some (st2.bestMove :: childPv.getD []) } := if_pos ha
                  rw [e3, e2]
                  refine ⟨inwin_raise hwin ha hnb, Int.le_refl _, ?_⟩
                  intro pv hpv
                  cases hpv
                  exact LegalLine.cons p q m _ hq hleg hm (pvok_getD hx')
                · have e3 : st3 = st2 := if_neg ha
                  rw [e3, e2]
                  exact ⟨hwin, by show score ≤ st.alpha; exact Int.not_lt.1 ha, hst.pv⟩
            · have e2 : st2 = st1 := if_neg hbs
              have hpv2 : PvOK K p st2.pvl := by rw [e2]; exact hst.pv
              split
              · split
                · exact post_bind (fun _ => post_pure hpv2)
                · exact post_pure hpv2
              · rename_i hnb
                apply ih' st3
                have ha : ¬ score > alpha := by
                  have h1 : ¬ score > st.bestScore := hbs
                  show ¬ score > st.alpha
                  omega
                have e3 : st3 = st2 := if_neg ha
                rw [e3, e2]
                exact hst1
          clear_value jp
          have hwin := hst.win
          split
          · refine post_bind_of (hrec q _ _ _ _ _ _ (inwin_full hwin)) ?_
            intro x hx
            obtain ⟨sc, cpv⟩ := x
            exact hjp (w16 (-sc), cpv) hx
          · refine post_bind ?_
            intro x
            obtain ⟨sc, cpv0⟩ := x
            dsimp only
            split
            · refine post_bind_of (hrec q _ _ _ _ _ _ (inwin_full hwin)) ?_
              intro x hx
              obtain ⟨sc, cpv⟩ := x
              exact hjp (w16 (-sc), cpv) hx
            · exact hjp (w16 (-sc), none) (pvok_none K q)

/-! ### tying the knot: induction on fuel -/

theorem post_negamax (K : Keys) (fuel : Nat) (p : Pos) (alpha beta : Int) (depth ply : Nat) (cn : Bool) (prev : Move)
    (hw : InWin alpha beta) :
    Post (fun r : NodeRes => PvOK K p r.2) (negamax K fuel p alpha beta depth ply cn prev) := by
  induction fuel generalizing p alpha beta depth ply cn prev with
  | zero => unfold negamax; exact post_panic
  | succ fuel ih =>
    unfold negamax
    refine post_bind ?_
    intro _
    extract_lets isRoot mateValue pvNode inCheck depth' R body
    have hbody : Post (fun r : NodeRes => PvOK K p r.2) body := by
      unfold body
      refine post_bind ?_
      intro s
      extract_lets pvMove
      split
      rename_i ttScore use ttMove httg
      split
      · exact post_pure_none _
      · extract_lets jp3 jp2 jp1
        have h3 : ∀ fp, Post (fun r : NodeRes => PvOK K p r.2) (jp3 fp) := by
          intro fp
          unfold jp3
          refine post_bind ?_
          intro s2
          refine post_bind_of (post_ofOption _) ?_
          intro scored hsc
          have hl : ∀ m ∈ visitOrder scored, m % 65536 ∈ (genMoves p).map (· % 65536) := by
            intro m hm
            have hperm := visit_scored_perm p (heurOf s2) pvMove ttMove ply (genMoves p) scored hsc
            exact hperm.mem_iff.1 (List.mem_map_of_mem hm)
          have hst0 : StOK K p beta { alpha := alpha, bestScore := -INF } := ⟨hw, hw.1, pvok_none K p⟩
          refine post_bind_of (post_nmLoop K _ (fun q a b d pl cn pm h => ih q a b d pl cn pm h) p beta depth' ply prev fp _ _ hl hst0) ?_
          intro st hst
          split
          · exact post_pure hst
          · exact post_bind (fun _ => post_bind (fun _ => post_pure hst))
        have h2 : ∀ nc, Post (fun r : NodeRes => PvOK K p r.2) (jp2 nc) := by
          intro nc
          unfold jp2
          split
          · exact post_pure_none _
          · split
            · exact post_bind (fun _ => h3 _)
            · exact post_bind (fun _ => h3 _)
        have h1 : ∀ snm, Post (fun r : NodeRes => PvOK K p r.2) (jp1 snm) := by
          intro snm
          unfold jp1
          split
          · exact post_pure_none _
          · split
            · exact post_bind (fun _ => h2 _)
            · exact post_bind (fun _ => h2 _)
        split
        · exact post_bind (fun _ => h1 _)
        · exact post_bind (fun _ => h1 _)
    split
    · exact post_bind (fun _ => post_pure_none _)
    · refine post_bind (fun _ => post_bind (fun s => ?_))
      split
      · exact post_pure_none _
      · refine post_bind (fun _ => ?_)
        exact post_popPath body hbody

/-! ### root search, iteration loop, `search` -/

theorem post_searchRoot (K : Keys) (root : Pos) (d : Nat) (a b : Int) (hw : InWin a b) :
    Post (fun r : NodeRes => PvOK K root r.2) (searchRoot K root d a b) := by
  unfold searchRoot
  exact post_bind (fun _ => post_negamax K 300 root a b d 0 true 0 hw)

/-- windows of the iteration loop: inside the safe range, or empty (then nothing is ever adopted from them) -/
def WinOK (a b : Int) : Prop := InWin a b ∨ b ≤ a + 1

theorem winok_next {a b v : Int} (h : InWin a b) (h1 : a < v) (h2 : v < b) (hv : v ≠ -32718) :
    WinOK (w16 (v - widenWindow)) (w16 (v + widenWindow)) := by
  unfold WinOK InWin w16 at *
  rw [widenWindow_eq]
  rw [INF_eq] at *
  omega

section
variable (K : Keys) (root : Pos) (pvStr : Move → String) (maxD : Nat)

theorem go_pv_legal
    (hgood : ∀ d a b s0 v pvl s1, searchRoot K root d a b s0 = (.ok (v, pvl), s1) → v ≠ -32718)
    (f d : Nat) (a b : Int) (s : SState) (hw : WinOK a b) (hpv : LegalLine K root s.pv) :
    LegalLine K root (searchIterative.go K root pvStr maxD f d a b s).2.pv := by
  induction f generalizing d a b s with
  | zero => rw [go_zero]; exact hpv
  | succ f ih =>
    by_cases hgt : d > maxD
    · rw [go_gt _ _ _ _ _ _ _ _ _ hgt]; exact hpv
    · have hle : d ≤ maxD := by omega
      have hfr := holds_searchRoot K root d a b s
      rcases hr : searchRoot K root d a b s with ⟨r, s'⟩
      rw [hr] at hfr
      have hpv' : s'.pv = s.pv := hfr.2.2.1
      cases r with
      | cancelled =>
        rw [go_cancelled _ _ _ _ _ _ _ _ _ hle (by rw [hr]), hr]
        show LegalLine K root s'.pv
        rw [hpv']; exact hpv
      | panic =>
        rw [go_panic _ _ _ _ _ _ _ _ _ hle (by rw [hr]), hr]
        show LegalLine K root s'.pv
        rw [hpv']; exact hpv
      | ok res =>
        obtain ⟨score, pvl⟩ := res
        by_cases hin : a < score ∧ score < b
        · rw [go_adopt _ _ _ _ _ _ _ _ _ _ hle score pvl hr hin]
          have hiw : InWin a b := by
            rcases hw with h | h
            · exact h
            · omega
          apply ih
          · exact winok_next hiw hin.1 hin.2 (hgood d a b s score pvl s' hr)
          · show LegalLine K root (pvl.getD [])
            exact pvok_getD (post_searchRoot K root d a b hiw s (score, pvl) s' hr)
        · have hf : score ≤ a ∨ score ≥ b := by omega
          by_cases hfull : a = -INF ∧ b = INF
          · obtain ⟨rfl, rfl⟩ := hfull
            rw [go_fail_full _ _ _ _ _ _ _ _ hle score pvl hr hf]
            show LegalLine K root s'.pv
            rw [hpv']; exact hpv
          · rw [go_fail_asp _ _ _ _ _ _ _ _ _ _ hle score pvl hr hf hfull]
            apply ih
            · exact Or.inl inwin_root
            · show LegalLine K root s'.pv
              rw [hpv']; exact hpv
end

/-- `search`, unfolded into its two phases -/
theorem search_cases (K : Keys) (root : Pos) (pvStr : Move → String) (dp : Nat) (s : SState) (m : Move) (s' : SState)
    (h : search K root pvStr dp s = (.ok m, s')) :
    ∃ s1, searchIterative K root pvStr (if dp > 0 then dp else maxDepth) s = (.ok (), s1) ∧
      ((s1.pv.getD 0 0 ≠ 0 ∧ s' = { s1 with mainPolls := s1.polls } ∧ m = s1.pv.getD 0 0) ∨
       (s1.pv.getD 0 0 = 0 ∧
          searchIterative K root pvStr 1 { s1 with mainPolls := s1.polls, cancelAt := none } = (.ok (), s') ∧ m = s'.pv.getD 0 0)) := by
  unfold search at h
  rw [bind_def] at h
  rcases h1 : searchIterative K root pvStr (if dp > 0 then dp else maxDepth) s with ⟨r, s1⟩
  rw [h1] at h
  cases r with
  | cancelled => cases h
  | panic => cases h
  | ok u =>
    refine ⟨s1, rfl, ?_⟩
    dsimp only at h
    rw [bind_ok (SM.modify _) _ s1 { s1 with mainPolls := s1.polls } () rfl] at h
    rw [bind_ok SM.get _ _ { s1 with mainPolls := s1.polls } { s1 with mainPolls := s1.polls } rfl] at h
    dsimp only at h
    by_cases h0 : s1.pv.getD 0 0 = 0
    · right
      rw [if_pos h0] at h
      rw [bind_ok (SM.modify _) _ _ { s1 with mainPolls := s1.polls, cancelAt := none } () rfl] at h
      rw [bind_def] at h
      rcases h2 : searchIterative K root pvStr 1 { s1 with mainPolls := s1.polls, cancelAt := none } with ⟨r2, s2⟩
      rw [h2] at h
      cases r2 with
      | cancelled => cases h
      | panic => cases h
      | ok u2 =>
        dsimp only at h
        rw [bind_ok SM.get _ s2 s2 s2 rfl] at h
        cases h
        exact ⟨h0, rfl, rfl⟩
    · left
      rw [if_neg h0] at h
      cases h
      exact ⟨h0, rfl, rfl⟩

theorem head_of_getD {l : List Move} {m : Move} (h : m = l.getD 0 0) (hm : m ≠ 0) : ∃ rest, l = m :: rest := by
  cases l with
  | nil => exact absurd h hm
  | cons a rest =>
    refine ⟨rest, ?_⟩
    have : m = a := h
    rw [this]

end SearchLemmas
end Clemens
