import Clemens.Proofs.SearchPost
/-
Lemma library for C13: `MakeMove` reads only the low 16 bits of a move word, a checkmated node returns the mate value,
scores stay in `[-INF, INF]` (with a state invariant on the transposition table).
-/
namespace Clemens
namespace SearchLemmas

/-! ### move words -/

theorem src_low (m : Move) : Move.src (m % 65536) = Move.src m := by
  unfold Move.src
  have h : (63 : Nat) = 2 ^ 6 - 1 := by decide
  rw [h, Nat.and_two_pow_sub_one_eq_mod, Nat.and_two_pow_sub_one_eq_mod]
  omega

theorem tgt_low (m : Move) : Move.tgt (m % 65536) = Move.tgt m := by
  unfold Move.tgt
  have h : (63 : Nat) = 2 ^ 6 - 1 := by decide
  rw [h, Nat.and_two_pow_sub_one_eq_mod, Nat.and_two_pow_sub_one_eq_mod, Nat.shiftRight_eq_div_pow, Nat.shiftRight_eq_div_pow]
  omega

theorem kind_low (m : Move) : Move.kind (m % 65536) = Move.kind m := by
  unfold Move.kind
  have h : (3 : Nat) = 2 ^ 2 - 1 := by decide
  rw [h, Nat.and_two_pow_sub_one_eq_mod, Nat.and_two_pow_sub_one_eq_mod, Nat.shiftRight_eq_div_pow, Nat.shiftRight_eq_div_pow]
  omega

theorem promo_low (m : Move) : Move.promo (m % 65536) = Move.promo m := by
  unfold Move.promo
  have h : (3 : Nat) = 2 ^ 2 - 1 := by decide
  rw [h, Nat.and_two_pow_sub_one_eq_mod, Nat.and_two_pow_sub_one_eq_mod, Nat.shiftRight_eq_div_pow, Nat.shiftRight_eq_div_pow]
  omega

/-- `MakeMove` only reads the low 16 bits of a move word -/
theorem makeMove_low (K : Keys) (p : Pos) (m : Move) : makeMove K p m = makeMove K p (m % 65536) := by
  unfold makeMove
  simp only [src_low, tgt_low, kind_low, promo_low]

/-! ### a node without legal moves -/


/-- with no legal move the loop returns its state unchanged (or panics) -/
theorem post_nmLoop_nolegal (K : Keys) (recur : NegaFn) (p : Pos) (beta : Int) (depth ply : Nat) (prev : Move) (fp : Bool)
    (l : List Move) (st : LoopSt) (hl : ∀ m ∈ l, ∀ q, makeMove K p m = some q → isLegal q = false) :
    Post (fun st' : LoopSt => st' = st) (nmLoop K recur p beta depth ply prev fp l st) := by
  induction l with
  | nil => unfold nmLoop; exact post_pure rfl
  | cons m rest ih =>
    unfold nmLoop
    split
    · exact post_panic
    · rename_i q hq
      have hleg := hl m List.mem_cons_self q hq
      split
      · exact ih (fun m' hm' => hl m' (List.mem_cons_of_mem _ hm'))
      · rename_i hc
        rw [hleg] at hc
        exact absurd rfl hc

/-- no visited move is legal if no generated move is -/
theorem nolegal_visit (K : Keys) (p : Pos) (h : Heur) (pv tt : Move) (ply : Nat) (scored : List Move)
    (hs : scoreMoves p h pv tt ply (genMoves p) = some scored)
    (hno : ∀ m ∈ genMoves p, ∀ q, makeMove K p m = some q → isLegal q = false) :
    ∀ m ∈ visitOrder scored, ∀ q, makeMove K p m = some q → isLegal q = false := by
  intro m hm q hq
  have hperm := visit_scored_perm p h pv tt ply (genMoves p) scored hs
  have hmem : m % 65536 ∈ (genMoves p).map (· % 65536) := hperm.mem_iff.1 (List.mem_map_of_mem hm)
  obtain ⟨g, hg, hge⟩ := List.mem_map.1 hmem
  have : makeMove K p g = some q := by
    rw [makeMove_low K p g, hge, ← makeMove_low K p m]; exact hq
  exact hno g hg q this

/-! ### the moves the loops make (P04m)

`nmLoop` and `qLoop` only call `makeMove` on the words of `visitOrder scored`, where `scored` is `scoreMoves … (genMoves p)`
resp. `scoreMoves … (genCaptures p)`: words that agree with a generated word up to the score bits.  `GenMv p m` says so; the class
closure hypotheses of the search lemmas only have to hold for such words. -/

/-- `m` is, up to its score bits, a word of the move generator or of the capture generator in `p` -/
def GenMv (p : Pos) (m : Move) : Prop :=
  m % 65536 ∈ (genMoves p).map (· % 65536) ∨ m % 65536 ∈ (genCaptures p).map (· % 65536)

theorem genMv_visit_moves (p : Pos) (h : Heur) (pv tt : Move) (ply : Nat) (scored : List Move)
    (hs : scoreMoves p h pv tt ply (genMoves p) = some scored) : ∀ m ∈ visitOrder scored, GenMv p m := by
  intro m hm
  have hperm := visit_scored_perm p h pv tt ply (genMoves p) scored hs
  exact Or.inl (hperm.mem_iff.1 (List.mem_map_of_mem hm))

theorem genMv_visit_caps (p : Pos) (h : Heur) (pv tt : Move) (ply : Nat) (scored : List Move)
    (hs : scoreMoves p h pv tt ply (genCaptures p) = some scored) : ∀ m ∈ visitOrder scored, GenMv p m := by
  intro m hm
  have hperm := visit_scored_perm p h pv tt ply (genCaptures p) scored hs
  exact Or.inr (hperm.mem_iff.1 (List.mem_map_of_mem hm))

theorem post_negamax_checkmated (K : Keys) (fuel : Nat) (p : Pos) (alpha beta : Int) (depth ply : Nat) (cn : Bool) (prev : Move)
    (hcheck : isInCheck p p.side = true)
    (hno : ∀ m ∈ genMoves p, ∀ q, makeMove K p m = some q → isLegal q = false)
    (hdepth : depth < 255) (hpvn : ply = 0 ∨ w16 (beta - alpha) ≠ 1) :
    Post (fun r : NodeRes => r = (w16 (-INF + ply), none)) (negamax K fuel p alpha beta depth ply cn prev) := by
  cases fuel with
  | zero => unfold negamax; exact post_panic
  | succ fuel =>
    unfold negamax
    refine post_bind ?_
    intro _
    extract_lets isRoot mateValue pvNode inCheck depth' R body
    have hic : inCheck = true := hcheck
    have hd' : depth' = (depth + 1) % 256 := by simp only [depth', hic, if_true]
    have hbody : Post (fun r : NodeRes => r = (w16 (-INF + ply), none)) body := by
      unfold body
      refine post_bind ?_
      intro s
      extract_lets pvMove
      split
      rename_i ttScore use ttMove httg
      split
      · rename_i hc
        exfalso
        rcases hpvn with h | h
        · simp [isRoot, h] at hc
        · simp [pvNode, h] at hc
      · extract_lets jp3 jp2 jp1
        have h3 : ∀ fp, Post (fun r : NodeRes => r = (w16 (-INF + ply), none)) (jp3 fp) := by
          intro fp
          unfold jp3
          refine post_bind ?_
          intro s2
          refine post_bind_of (post_ofOption _) ?_
          intro scored hsc
          refine post_bind_of (post_nmLoop_nolegal K _ p beta depth' ply prev fp _ _
            (nolegal_visit K p (heurOf s2) pvMove ttMove ply scored hsc hno)) ?_
          intro st hst
          subst hst
          split
          · refine post_pure ?_
            first | rfl | (rw [if_pos hic])
          · rename_i hc
            exact absurd rfl hc
        have h2 : Post (fun r : NodeRes => r = (w16 (-INF + ply), none)) (jp2 false) := by
          unfold jp2
          split
          · rename_i hc; cases hc
          · split
            · rename_i hc
              simp [hic] at hc
            · exact post_bind (fun _ => h3 _)
        have h1 : Post (fun r : NodeRes => r = (w16 (-INF + ply), none)) (jp1 none) := by
          unfold jp1
          split
          · rename_i hc; cases hc
          · split
            · rename_i hc
              simp [hic] at hc
            · exact h2
        split
        · rename_i hc
          simp [hic] at hc
        · exact h1
    split
    · rename_i hc
      omega
    · refine post_bind (fun _ => post_bind (fun s => ?_))
      split
      · rename_i hc
        simp [hic] at hc
      · refine post_bind (fun _ => ?_)
        exact post_popPath body hbody

/-! ### the score range -/

def InRange (v : Int) : Prop := -INF ≤ v ∧ v ≤ INF
theorem inrange_neg {v : Int} (h : InRange v) : InRange (w16 (-v)) := by
  unfold InRange w16 at *
  rw [INF_eq] at *
  omega

/-! ### postconditions with a state invariant -/

/-- from a state satisfying `I`, every `ok` result satisfies `P` and ends in a state satisfying `I` -/
def PostI (I : SState → Prop) {α} (P : α → Prop) (m : SM α) : Prop := ∀ s a s', I s → m s = (.ok a, s') → I s' ∧ P a

section
variable {I : SState → Prop}

theorem posti_pure {α} {P : α → Prop} {a : α} (h : P a) : PostI I P (pure a : SM α) := by
  intro s b s' hi hb
  cases hb
  exact ⟨hi, h⟩

theorem posti_panic {α} {P : α → Prop} : PostI I P (SM.panic : SM α) := by
  intro s b s' _ hb
  cases hb

theorem posti_bind_of {α β} {R : α → Prop} {P : β → Prop} {m : SM α} {f : α → SM β} (hm : PostI I R m)
    (hf : ∀ a, R a → PostI I P (f a)) : PostI I P (m >>= f) := by
  intro s b s' hi hb
  rw [bind_def] at hb
  rcases hms : m s with ⟨r, s1⟩
  rw [hms] at hb
  cases r with
  | ok a =>
    obtain ⟨hi1, hr⟩ := hm s a s1 hi hms
    exact hf a hr s1 b s' hi1 hb
  | cancelled => cases hb
  | panic => cases hb

theorem posti_mono {α} {P Q : α → Prop} {m : SM α} (h : PostI I P m) (hpq : ∀ a, P a → Q a) : PostI I Q m :=
  fun s a s' hi hs => ⟨(h s a s' hi hs).1, hpq a (h s a s' hi hs).2⟩

theorem posti_bind {α β} {R : α → Prop} {P : β → Prop} {m : SM α} {f : α → SM β} (hm : PostI I R m)
    (hf : ∀ a, PostI I P (f a)) : PostI I P (m >>= f) :=
  posti_bind_of hm (fun a _ => hf a)

theorem posti_seq {α β} {P : β → Prop} {m : SM α} {f : α → SM β} (hm : PostI I (fun _ => True) m)
    (hf : ∀ a, PostI I P (f a)) : PostI I P (m >>= f) :=
  posti_bind_of hm (fun a _ => hf a)

theorem posti_pure_true {α} (a : α) : PostI I (fun _ => True) (pure a : SM α) := posti_pure trivial

theorem posti_true {α} {P : α → Prop} {m : SM α} (h : PostI I P m) : PostI I (fun _ => True) m :=
  posti_mono h (fun _ _ => trivial)

theorem posti_get : PostI I (fun s => I s) SM.get := by
  intro s a s' hi hb
  cases hb
  exact ⟨hi, hi⟩

theorem posti_modify (f : SState → SState) (h : ∀ s, I s → I (f s)) : PostI I (fun _ => True) (SM.modify f) := by
  intro s a s' hi hb
  cases hb
  exact ⟨h s hi, trivial⟩

theorem posti_ofOption {α} (o : Option α) : PostI I (fun a => o = some a) (SM.ofOption o) := by
  cases o with
  | none => exact posti_panic
  | some a => exact posti_pure rfl

theorem posti_popPath {α} {P : α → Prop} (hI : ∀ s s', s'.tt = s.tt → I s → I s') (body : SM α) (h : PostI I P body) :
    PostI I P (fun s => ((body s).1, { (body s).2 with path := (body s).2.path.pop })) := by
  intro s a s' hi hb
  have h1 : (body s).1 = .ok a := congrArg Prod.fst hb
  have h2 : s' = { (body s).2 with path := (body s).2.path.pop } := (congrArg Prod.snd hb).symm
  obtain ⟨hi', hp⟩ := h s a (body s).2 hi (by rw [← h1])
  exact ⟨by rw [h2]; exact hI (body s).2 _ rfl hi', hp⟩

theorem posti_poll (hI : ∀ s s', s'.tt = s.tt → I s → I s') : PostI I (fun _ => True) poll := by
  intro s a s' hi hb
  rcases poll_ok_or s with ⟨h, _⟩ | ⟨h, _⟩
  · rw [h] at hb
    cases hb
    exact ⟨hI s _ rfl hi, trivial⟩
  · rw [h] at hb
    cases hb
end


section
variable {I : SState → Prop} (hI : ∀ s s', s'.tt = s.tt → I s → I s')
include hI

theorem posti_modify_tt (f : SState → SState) (h : ∀ s, (f s).tt = s.tt) : PostI I (fun _ => True) (SM.modify f) :=
  posti_modify f (fun s hi => hI s _ (h s) hi)

omit hI in
theorem posti_qLoop_range (K : Keys) (C : Pos → Prop) (hmove : ∀ p m q, C p → makeMove K p m = some q → C q)
    (recur : Pos → Int → Int → Nat → SM Int)
    (hrec : ∀ q a b pl, C q → InRange a → InRange b → PostI I InRange (recur q a b pl))
    (p : Pos) (hp : C p) (sp beta : Int) (ply : Nat) (eg : Bool) (l : List Move) (a : Int) (ha : InRange a) (hb : InRange beta) :
    PostI I InRange (qLoop K recur p sp beta ply eg l a) := by
  induction l generalizing a with
  | nil => unfold qLoop; exact posti_pure ha
  | cons m rest ih =>
    unfold qLoop
    extract_lets jp2 jp1
    have h2 : ∀ sn, PostI I InRange (jp2 sn) := by
      intro sn
      unfold jp2
      split
      · exact ih a ha
      · split
        · exact posti_panic
        · rename_i q hq
          split
          · exact ih a ha
          · refine posti_bind_of (hrec _ _ _ _ (hmove p m q hp hq) (inrange_neg hb) (inrange_neg ha)) ?_
            intro sc hsc
            extract_lets score
            have hscore : InRange score := inrange_neg hsc
            split
            · exact posti_pure hb
            · apply ih
              split
              · exact hscore
              · exact ha
    have h1 : ∀ sd, PostI I InRange (jp1 sd) := by
      intro sd
      unfold jp1
      split
      · exact ih a ha
      · split
        · exact posti_seq (posti_seq (posti_true (posti_ofOption _)) (fun _ => posti_pure_true _)) (fun _ => h2 _)
        · exact posti_seq (posti_pure_true _) (fun _ => h2 _)
    split
    · split
      · exact posti_seq posti_panic (fun _ => h1 _)
      · exact posti_seq (posti_pure_true _) (fun _ => h1 _)
    · exact posti_seq (posti_pure_true _) (fun _ => h1 _)

theorem posti_quiescence_range (K : Keys) (C : Pos → Prop) (hmove : ∀ p m q, C p → makeMove K p m = some q → C q)
    (heval : ∀ p v, C p → evalRaw p = some v → InRange v)
    (fuel : Nat) (p : Pos) (hp : C p) (alpha beta : Int) (ply : Nat) (ha : InRange alpha) (hb : InRange beta) :
    PostI I InRange (quiescence K fuel p alpha beta ply) := by
  induction fuel generalizing p alpha beta ply with
  | zero => unfold quiescence; exact posti_panic
  | succ fuel ih =>
    unfold quiescence
    refine posti_bind (posti_modify_tt hI _ (fun _ => rfl)) (fun _ => posti_bind (posti_poll hI) (fun _ => ?_))
    refine posti_bind_of (posti_ofOption _) ?_
    intro sp hsp
    have hspr : InRange sp := heval p sp hp hsp
    split
    · exact posti_pure hb
    · extract_lets alpha'
      have ha' : InRange alpha' := by
        show InRange (if alpha < sp then sp else alpha)
        split
        · exact hspr
        · exact ha
      split
      · exact posti_pure ha'
      · refine posti_bind posti_get (fun s => posti_bind (posti_ofOption _) (fun scored => ?_))
        exact posti_qLoop_range K C hmove _ (fun q a b pl hq ha hb => ih q hq a b pl ha hb) p hp sp beta ply _ _ alpha' ha' hb

/-- loop state invariant for the score range -/
structure StR (beta : Int) (st : LoopSt) : Prop where
  win : InWin st.alpha beta
  best : InRange st.bestScore

theorem posti_nmLoop_range (K : Keys) (C : Pos → Prop) (hmove : ∀ p m q, C p → makeMove K p m = some q → C q)
    (recur : NegaFn) (p : Pos) (hp : C p) (beta : Int) (depth ply : Nat) (prev : Move) (fp : Bool)
    (hrec : ∀ q a b d cn pm, C q → InWin a b → PostI I (fun r : NodeRes => InRange r.1) (recur q a b d (ply + 1) cn pm))
    (l : List Move) (st : LoopSt) (hst : StR beta st) :
    PostI I (fun st' : LoopSt => InRange st'.bestScore) (nmLoop K recur p beta depth ply prev fp l st) := by
  induction l generalizing st with
  | nil => unfold nmLoop; exact posti_pure hst.best
  | cons m rest ih =>
    unfold nmLoop
    split
    · exact posti_panic
    · rename_i q hq
      split
      · exact ih st hst
      · extract_lets st1 alpha hk jp
        have hst1 : StR beta st1 := ⟨hst.win, hst.best⟩
        split
        · exact ih st1 hst1
        · have hjp : ∀ x : Int × Option (List Move), InRange x.1 → PostI I (fun st' : LoopSt => InRange st'.bestScore) (jp x) := by
            intro x hx
            obtain ⟨score, childPv⟩ := x
            unfold jp
            dsimp -zeta only
            extract_lets st2 jp2 st3
            have hx' : InRange score := hx
            have hwin := hst.win
            have h2b : InRange st2.bestScore := by
              by_cases hbs : score > st1.bestScore
              · have e2 : st2 = { st1 with bestMove := m, bestScore := score } := if_pos hbs
                rw [e2]; exact hx'
              · have e2 : st2 = st1 := if_neg hbs
                rw [e2]; exact hst.best
            have h2a : st2.alpha = st.alpha := by
              by_cases hbs : score > st1.bestScore
              · have e2 : st2 = { st1 with bestMove := m, bestScore := score } := if_pos hbs
                rw [e2]
              · have e2 : st2 = st1 := if_neg hbs
                rw [e2]
            split
            · split
              · exact posti_seq (posti_modify_tt hI _ (fun _ => rfl)) (fun _ => posti_pure h2b)
              · exact posti_pure h2b
            · rename_i hnb
              apply ih st3
              by_cases ha : score > alpha
              · have e3 : st3 = { st2 with nodeType := 0, alpha := score, pvl := some (st2.bestMove :: childPv.getD []) } := if_pos ha
                rw [e3]
                exact ⟨inwin_raise hwin ha hnb, h2b⟩
              · have e3 : st3 = st2 := if_neg ha
                rw [e3]
                exact ⟨by rw [h2a]; exact hwin, h2b⟩
          clear_value jp
          have hwin := hst.win
          split
          · refine posti_bind_of (hrec q _ _ _ _ _ (hmove p m q hp hq) (inwin_full hwin)) ?_
            intro x hx
            obtain ⟨sc, cpv⟩ := x
            exact hjp (w16 (-sc), cpv) (inrange_neg hx)
          · refine posti_bind_of (hrec q _ _ _ _ _ (hmove p m q hp hq) (inwin_zw hwin)) ?_
            intro x hx0
            obtain ⟨sc0, cpv0⟩ := x
            dsimp only
            split
            · refine posti_bind_of (hrec q _ _ _ _ _ (hmove p m q hp hq) (inwin_full hwin)) ?_
              intro x hx
              obtain ⟨sc, cpv⟩ := x
              exact hjp (w16 (-sc), cpv) (inrange_neg hx)
            · exact hjp (w16 (-sc0), none) (inrange_neg hx0)
end

/-- every score stored in the table is in `[-INF, INF]` -/
def TTSane (t : TT) : Prop := ∀ key, ∀ e ∈ t.bucket key, InRange e.score

theorem inrange_zero : InRange 0 := by unfold InRange; rw [INF_eq]; omega

theorem ttSane_empty : TTSane {} := by
  intro key e he
  have : e ∈ emptyBucket := by simpa [TT.bucket] using he
  unfold emptyBucket at this
  rw [List.eq_of_mem_replicate this]
  exact inrange_zero

theorem adj_range (x : Int) (ply : Nat) (hx : InRange x) (hp : ply ≤ 32767) :
    InRange (if x > 32767 - 100 then x - ply else if x < -32767 + 100 then x + ply else x) := by
  unfold InRange at *
  rw [INF_eq] at *
  by_cases h1 : x > 32767 - 100
  · rw [if_pos h1]; omega
  · rw [if_neg h1]
    by_cases h2 : x < -32767 + 100
    · rw [if_pos h2]; omega
    · rw [if_neg h2]; omega

theorem ttGet_range (t : TT) (h : BB) (alpha beta : Int) (depth ply : Nat) (ht : TTSane t) (ha : InRange alpha)
    (hb : InRange beta) (hp : ply ≤ 32767) : InRange (ttGet t h alpha beta depth ply).1 := by
  unfold ttGet
  split
  · exact inrange_zero
  · rename_i te hf
    have hte : InRange te.score := ht _ te (List.mem_of_find?_eq_some hf)
    split
    · exact inrange_zero
    · extract_lets score score'
      have hs : InRange score' := adj_range te.score ply hte hp
      split
      · split
        · exact ha
        · exact hs
      · split
        · split
          · exact hb
          · exact hs
        · split
          · exact hs
          · exact hs

theorem ttSave_sane (t : TT) (h : BB) (m : Move) (d : Nat) (score : Int) (nt age : Nat) (ht : TTSane t) (hs : InRange score) :
    TTSane (ttSave t h m d score nt age) := by
  intro key e he
  unfold ttSave TT.bucket at he
  dsimp only at he
  rw [Std.HashMap.getD_insert] at he
  split at he
  · rcases List.mem_or_eq_of_mem_set he with h1 | h1
    · exact ht _ e h1
    · rw [h1]; exact hs
  · exact ht key e he


/-! ### negamax: scores stay in range, the table stays sane -/

def TTInv (s : SState) : Prop := TTSane s.tt

theorem ttinv_stable : ∀ s s' : SState, s'.tt = s.tt → TTInv s → TTInv s' := by
  intro s s' h hi
  unfold TTInv at *
  rw [h]; exact hi

theorem inwin_range {a b : Int} (h : InWin a b) : InRange a ∧ InRange b := by
  unfold InWin InRange at *
  omega

theorem w16_bounds (x : Int) : -32768 ≤ w16 x ∧ w16 x ≤ 32767 := by
  unfold w16; omega

theorem inrange_contempt (p : Pos) : InRange (contempt p) := by
  have := contempt_small p
  unfold InRange
  rw [INF_eq]
  omega

theorem inrange_mate (ply : Nat) (h : ply ≤ 65534) : InRange (w16 (-INF + ply)) := by
  unfold InRange w16
  rw [INF_eq]
  omega

theorem posti_negamax_range (K : Keys) (C : Pos → Prop) (hmove : ∀ p m q, C p → makeMove K p m = some q → C q)
    (hnull : ∀ p, C p → C (makeNull K p).1) (heval : ∀ p v, C p → evalRaw p = some v → InRange v)
    (fuel : Nat) (p : Pos) (hp : C p) (alpha beta : Int) (depth ply : Nat) (cn : Bool) (prev : Move)
    (hw : InWin alpha beta) (hply : ply + fuel ≤ 32767) :
    PostI TTInv (fun r : NodeRes => InRange r.1) (negamax K fuel p alpha beta depth ply cn prev) := by
  induction fuel generalizing p alpha beta depth ply cn prev with
  | zero => unfold negamax; exact posti_panic
  | succ fuel ih =>
    have hab := inwin_range hw
    unfold negamax
    refine posti_seq (posti_poll ttinv_stable) ?_
    intro _
    extract_lets isRoot mateValue pvNode inCheck depth' R body
    have hbody : PostI TTInv (fun r : NodeRes => InRange r.1) body := by
      unfold body
      refine posti_bind_of posti_get ?_
      intro s hs
      extract_lets pvMove
      have htt : InRange (ttGet s.tt p.hash alpha beta depth' ply).1 :=
        ttGet_range s.tt p.hash alpha beta depth' ply hs hab.1 hab.2 (by omega)
      split
      rename_i ttScore use ttMove httg
      rw [httg] at htt
      split
      · exact posti_pure htt
      · extract_lets jp3 jp2 jp1
        have h3 : ∀ fp, PostI TTInv (fun r : NodeRes => InRange r.1) (jp3 fp) := by
          intro fp
          unfold jp3
          refine posti_seq (posti_true posti_get) ?_
          intro s2
          refine posti_seq (posti_true (posti_ofOption _)) ?_
          intro scored
          have hst0 : StR beta { alpha := alpha, bestScore := -INF } :=
            ⟨hw, by show InRange (-INF); unfold InRange; rw [INF_eq]; omega⟩
          refine posti_bind_of (posti_nmLoop_range ttinv_stable K C hmove _ p hp beta depth' ply prev fp
            (fun q a b d cn pm hq h => ih q hq a b d (ply + 1) cn pm h (by omega)) _ _ hst0) ?_
          intro st hst
          split
          · refine posti_pure ?_
            show InRange (if inCheck = true then mateValue else contempt p)
            split
            · exact inrange_mate ply (by omega)
            · exact inrange_contempt p
          · refine posti_seq (posti_poll ttinv_stable) (fun _ => ?_)
            refine posti_seq (posti_modify _ ?_) (fun _ => posti_pure hst)
            intro s3 hs3
            exact ttSave_sane _ _ _ _ _ _ _ hs3 hst
        have h2 : ∀ nc, PostI TTInv (fun r : NodeRes => InRange r.1) (jp2 nc) := by
          intro nc
          unfold jp2
          split
          · exact posti_pure hab.2
          · split
            · exact posti_seq (posti_seq (posti_true (posti_ofOption _)) (fun _ => posti_pure_true _)) (fun _ => h3 _)
            · exact posti_seq (posti_pure_true _) (fun _ => h3 _)
        have h1 : ∀ snm : Option Int, (∀ b, snm = some b → InRange b) →
            PostI TTInv (fun r : NodeRes => InRange r.1) (jp1 snm) := by
          intro snm hsnm
          unfold jp1
          split
          · rename_i b
            exact posti_pure (hsnm b rfl)
          · split
            · refine posti_seq ?_ (fun _ => h2 _)
              refine posti_seq (posti_true (posti_ofOption _)) (fun e => ?_)
              split
              · split
                rename_i q ep hmk
                have hq : C q := by
                  have := hnull p hp
                  rw [hmk] at this
                  exact this
                refine posti_seq (posti_true (ih q hq _ _ _ (ply + 1) false 0 (inwin_null hw) (by omega))) (fun x => ?_)
                split
                exact posti_pure_true _
              · exact posti_pure_true _
            · exact posti_seq (posti_pure_true _) (fun _ => h2 _)
        split
        · refine posti_bind_of (R := fun snm : Option Int => ∀ b, snm = some b → InRange b) ?_ (fun snm h => h1 snm h)
          refine posti_seq (posti_true (posti_ofOption _)) (fun e => ?_)
          extract_lets b
          refine posti_pure ?_
          intro b' hb'
          split at hb'
          · rename_i hge
            cases hb'
            have hb1 := w16_bounds (e - w16 (staticNullMargin * ↑depth'))
            have hb2 := hab.2
            unfold InRange at *
            rw [INF_eq] at *
            have : b = w16 (e - w16 (staticNullMargin * ↑depth')) := rfl
            omega
          · cases hb'
        · refine posti_bind_of (R := fun snm : Option Int => ∀ b, snm = some b → InRange b) (posti_pure ?_) (fun snm h => h1 snm h)
          intro b hb
          cases hb
    split
    · refine posti_bind_of (posti_quiescence_range ttinv_stable K C hmove heval 128 p hp alpha beta ply hab.1 hab.2) ?_
      intro v hv
      exact posti_pure hv
    · refine posti_seq (posti_modify_tt ttinv_stable _ (fun _ => rfl)) (fun _ => posti_seq (posti_true posti_get) (fun s => ?_))
      split
      · exact posti_pure (inrange_contempt p)
      · refine posti_seq (posti_modify_tt ttinv_stable _ (fun _ => rfl)) (fun _ => ?_)
        exact posti_popPath ttinv_stable body hbody

end SearchLemmas
end Clemens
