import Clemens.Proofs.EvalConsts
/-
Lemma library for C15 (part 1): closed forms of the evaluation terms and bounds for each of them in terms of the
popcounts of the twelve piece sets.  Everything is symbolic in the tuning constants (`Proofs/EvalConsts.lean` defines
the bounds as functions of them); the only numerical fact used here is the sign condition `phase_facts`.
-/
namespace Clemens

/-! ### constants -/

/-- `INF` is the largest `int16` (not a tuning constant; the search proofs use the value) -/
theorem INF_eq : INF = 32767 := by decide

/-! ### piece square tables -/

def pstTerm (ph t : Nat) (p : Pos) : Int :=
  sumOver (pst ph 0 t) (p.pieces 0 t) - sumOver (pst ph 1 t) (p.pieces 1 t)

def pstSum (ph : Nat) (p : Pos) : Int :=
  pstTerm ph 0 p + pstTerm ph 1 p + pstTerm ph 2 p + pstTerm ph 3 p + pstTerm ph 4 p + pstTerm ph 5 p

theorem evalPst_eq (p : Pos) (e : EvalAcc) :
    evalPst p e = { mid := e.mid + pstSum 0 p, end_ := e.end_ + pstSum 1 p, base := e.base } := by
  unfold evalPst
  rw [range6]
  simp only [List.foldl_cons, List.foldl_nil, foldl_acc_add, foldl_acc_sub]
  simp only [pstSum, pstTerm, sumOver]
  congr 1 <;> omega

/-- every entry of a table lies between the computed extrema of that table (for any tables) -/
theorem pst_bounds (ph c t s : Nat) (hs : s < 64) : pstLo ph c t ≤ pst ph c t s ∧ pst ph c t s ≤ pstHi ph c t :=
  ⟨minOver_le _ 64 s hs, le_maxOver _ 64 s hs⟩

theorem pstTerm_bounds (ph t : Nat) (p : Pos) :
    pstLo ph 0 t * pc (p.pieces 0 t) - pstHi ph 1 t * pc (p.pieces 1 t) ≤ pstTerm ph t p ∧
    pstTerm ph t p ≤ pstHi ph 0 t * pc (p.pieces 0 t) - pstLo ph 1 t * pc (p.pieces 1 t) := by
  have a := le_sumOver (pst ph 0 t) (pstLo ph 0 t) (p.pieces 0 t) (fun s hs => (pst_bounds ph 0 t s hs).1)
  have b := sumOver_le (pst ph 0 t) (pstHi ph 0 t) (p.pieces 0 t) (fun s hs => (pst_bounds ph 0 t s hs).2)
  have c := le_sumOver (pst ph 1 t) (pstLo ph 1 t) (p.pieces 1 t) (fun s hs => (pst_bounds ph 1 t s hs).1)
  have d := sumOver_le (pst ph 1 t) (pstHi ph 1 t) (p.pieces 1 t) (fun s hs => (pst_bounds ph 1 t s hs).2)
  unfold pstTerm; omega

/-! ### pawn structure: isolated pawns -/

def isoDiff (p : Pos) : Int := pc (isolanis (p.pieces 0 0)) - pc (isolanis (p.pieces 1 0))

theorem pc_isolanis_le (b : BB) : pc (isolanis b) ≤ pc b := by
  unfold isolanis
  exact Int.le_trans (pc_and_le_left _ _) (pc_and_le_left _ _)

/-- the phase scores after the piece square tables (`pstSum`) and after the isolated pawns, for legal material -/
theorem phase_bounds_raw (ph : Nat) (p : Pos) (hw : legalRawOf p 0) (hb : legalRawOf p 1) :
    (midLo ph ≤ pstSum ph p ∧ pstSum ph p ≤ midHi ph) ∧
    (midLo ph ≤ pstSum ph p + isoW ph * isoDiff p ∧ pstSum ph p + isoW ph * isoDiff p ≤ midHi ph) := by
  have t0 := pstTerm_bounds ph 0 p
  have t1 := pstTerm_bounds ph 1 p
  have t2 := pstTerm_bounds ph 2 p
  have t3 := pstTerm_bounds ph 3 p
  have t4 := pstTerm_bounds ph 4 p
  have t5 := pstTerm_bounds ph 5 p
  have iw0 := pc_nonneg (isolanis (p.pieces 0 0))
  have iw1 := pc_isolanis_le (p.pieces 0 0)
  have ib0 := pc_nonneg (isolanis (p.pieces 1 0))
  have ib1 := pc_isolanis_le (p.pieces 1 0)
  have a1 := mul_le_posPart (isoW ph) _ _ iw0 iw1
  have a2 := neg_posPart_le_mul (isoW ph) _ _ iw0 iw1
  have b1 := mul_le_posPart (isoW ph) _ _ ib0 ib1
  have b2 := neg_posPart_le_mul (isoW ph) _ _ ib0 ib1
  have n1 := posPart_mul_nonneg (isoW ph) _ (pc_nonneg (p.pieces 0 0))
  have n2 := posPart_mul_nonneg (-isoW ph) _ (pc_nonneg (p.pieces 0 0))
  have n3 := posPart_mul_nonneg (isoW ph) _ (pc_nonneg (p.pieces 1 0))
  have n4 := posPart_mul_nonneg (-isoW ph) _ (pc_nonneg (p.pieces 1 0))
  have s1 := sideSum_le p 0 hw (pstHi ph 0 0 + posPart (isoW ph)) (pstHi ph 0 1) (pstHi ph 0 2) (pstHi ph 0 3)
    (pstHi ph 0 4) (pstHi ph 0 5)
  have s2 := sideSum_le p 1 hb (-pstLo ph 1 0 + posPart (-isoW ph)) (-pstLo ph 1 1) (-pstLo ph 1 2) (-pstLo ph 1 3)
    (-pstLo ph 1 4) (-pstLo ph 1 5)
  have s3 := sideSum_le p 0 hw (-pstLo ph 0 0 + posPart (-isoW ph)) (-pstLo ph 0 1) (-pstLo ph 0 2) (-pstLo ph 0 3)
    (-pstLo ph 0 4) (-pstLo ph 0 5)
  have s4 := sideSum_le p 1 hb (pstHi ph 1 0 + posPart (isoW ph)) (pstHi ph 1 1) (pstHi ph 1 2) (pstHi ph 1 3)
    (pstHi ph 1 4) (pstHi ph 1 5)
  unfold sideSum at s1 s2 s3 s4
  simp only [Int.add_mul, Int.neg_mul] at s1 s2 s3 s4
  have e : isoW ph * isoDiff p
      = isoW ph * pc (isolanis (p.pieces 0 0)) - isoW ph * pc (isolanis (p.pieces 1 0)) := by
    unfold isoDiff; rw [Int.mul_sub]
  unfold midHi midLo pstSum
  rw [e]
  omega

theorem phase_bounds (ph : Nat) (hph : ph < 2) (p : Pos) (hw : legalRawOf p 0) (hb : legalRawOf p 1) :
    absLe (pstSum ph p) midBound ∧ absLe (pstSum ph p + isoW ph * isoDiff p) midBound := by
  have h := phase_bounds_raw ph p hw hb
  have h0 : midHi 0 ≤ midBound ∧ -midLo 0 ≤ midBound ∧ midHi 1 ≤ midBound ∧ -midLo 1 ≤ midBound := by
    unfold midBound; omega
  have : ph = 0 ∨ ph = 1 := by omega
  unfold absLe
  rcases this with rfl | rfl <;> omega

/-! ### pawn structure: supported and passed pawns -/

theorem popcount_rankmask : ∀ i < 6, popcount (rankMask2 <<< (8 * i)) = 8 := by decide +kernel

theorem pc_and_rank (w : BB) (i : Nat) (hi : i < 6) :
    0 ≤ pc (w &&& rankMask2 <<< (8 * i)) ∧ pc (w &&& rankMask2 <<< (8 * i)) ≤ 8 := by
  have h1 := popcount_and_le_right w (rankMask2 <<< (8 * i))
  have h2 := popcount_rankmask i hi
  unfold pc; omega

/-- the summand of `rankedPawnEval` for the rank with index `i`, without the scalar -/
def rankTerm (i : Nat) (w b : BB) : Int :=
  ((i + 1 : Nat) : Int) * pc (w &&& rankMask2 <<< (8 * i)) - ((7 - (i + 1) : Nat) : Int) * pc (b &&& rankMask2 <<< (8 * i))

def rankSum (w b : BB) : Int :=
  rankTerm 0 w b + rankTerm 1 w b + rankTerm 2 w b + rankTerm 3 w b + rankTerm 4 w b + rankTerm 5 w b

/-- `rankedPawnEval` is linear in its scalar -/
theorem rankedPawnEval_eq (s : Int) (w b : BB) : rankedPawnEval s w b = s * rankSum w b := by
  unfold rankedPawnEval
  rw [range6]
  simp only [List.foldl_cons, List.foldl_nil]
  show 0 + s * rankTerm 0 w b + s * rankTerm 1 w b + s * rankTerm 2 w b + s * rankTerm 3 w b + s * rankTerm 4 w b
    + s * rankTerm 5 w b = _
  unfold rankSum
  simp only [Int.mul_add]
  omega

theorem rankSum_bounds (w b : BB) : absLe (rankSum w b) rankSumMax := by
  have w0 := pc_and_rank w 0 (by omega)
  have w1 := pc_and_rank w 1 (by omega)
  have w2 := pc_and_rank w 2 (by omega)
  have w3 := pc_and_rank w 3 (by omega)
  have w4 := pc_and_rank w 4 (by omega)
  have w5 := pc_and_rank w 5 (by omega)
  have b0 := pc_and_rank b 0 (by omega)
  have b1 := pc_and_rank b 1 (by omega)
  have b2 := pc_and_rank b 2 (by omega)
  have b3 := pc_and_rank b 3 (by omega)
  have b4 := pc_and_rank b 4 (by omega)
  have b5 := pc_and_rank b 5 (by omega)
  unfold absLe rankSum rankTerm rankSumMax
  omega

theorem rankedPawnEval_bounds (s : Int) (w b : BB) : absLe (rankedPawnEval s w b) (absI s * rankSumMax) := by
  rw [rankedPawnEval_eq]
  exact absLe_mul_left s _ _ (rankSum_bounds w b)

def pawnRanked (p : Pos) : Int :=
  rankedPawnEval supScalar (supportedPawns 0 (p.pieces 0 0)) (supportedPawns 1 (p.pieces 1 0)) +
  rankedPawnEval pasScalar (passed 0 (p.pieces 0 0) (p.pieces 1 0)) (passed 1 (p.pieces 0 0) (p.pieces 1 0))

theorem evalPawns_eq (p : Pos) (e : EvalAcc) :
    evalPawns p e = { mid := e.mid + isoW 0 * isoDiff p, end_ := e.end_ + isoW 1 * isoDiff p,
                      base := e.base + pawnRanked p } := by
  unfold evalPawns
  simp only [isoW, supScalar, pasScalar, isoDiff, pawnRanked, PAWN]
  congr 1; omega

theorem pawnRanked_bounds (p : Pos) : absLe (pawnRanked p) pawnBound := by
  have a := rankedPawnEval_bounds supScalar (supportedPawns 0 (p.pieces 0 0)) (supportedPawns 1 (p.pieces 1 0))
  have b := rankedPawnEval_bounds pasScalar (passed 0 (p.pieces 0 0) (p.pieces 1 0)) (passed 1 (p.pieces 0 0) (p.pieces 1 0))
  unfold absLe at *
  unfold pawnRanked pawnBound; omega

/-! ### pairs -/

/-- the bonus `c` for a pair, white minus black -/
def pairD (c : Int) (nw nb : Nat) : Int := (if nw > 1 then c else 0) - (if nb > 1 then c else 0)

def pairsTerm (p : Pos) : Int :=
  pairD (pairW 2) (popcount (p.pieces 0 2)) (popcount (p.pieces 1 2))
  + pairD (pairW 1) (popcount (p.pieces 0 1)) (popcount (p.pieces 1 1))
  + pairD (pairW 0) (popcount (p.pieces 0 3)) (popcount (p.pieces 1 3))

theorem evalPairs_eq (p : Pos) (e : EvalAcc) :
    evalPairs p e = { e with base := e.base + pairsTerm p } := by
  unfold evalPairs
  simp only [pairsTerm, pairD, pairW, BISHOP, KNIGHT, ROOK]
  congr 1
  omega

theorem pairD_bounds (c : Int) (nw nb : Nat) : absLe (pairD c nw nb) (absI c) := by
  unfold pairD absLe absI
  split <;> split <;> omega

theorem pairsTerm_bounds (p : Pos) : absLe (pairsTerm p) pairsBound := by
  have a := pairD_bounds (pairW 2) (popcount (p.pieces 0 2)) (popcount (p.pieces 1 2))
  have b := pairD_bounds (pairW 1) (popcount (p.pieces 0 1)) (popcount (p.pieces 1 1))
  have c := pairD_bounds (pairW 0) (popcount (p.pieces 0 3)) (popcount (p.pieces 1 3))
  unfold absLe at *
  unfold pairsTerm pairsBound; omega

/-! ### material -/

/-- the material of colour `c` -/
def matSide (p : Pos) (c : Nat) : Int :=
  sideSum p c (pieceValue 0) (pieceValue 1) (pieceValue 2) (pieceValue 3) (pieceValue 4) (pieceValue 5)

def materialTerm (p : Pos) : Int := matSide p 0 - matSide p 1

theorem evalMaterial_eq (p : Pos) (e : EvalAcc) :
    evalMaterial p e = { e with base := e.base + materialTerm p } := by
  unfold evalMaterial
  rw [range6]
  simp only [List.foldl_cons, List.foldl_nil, Int.mul_sub, materialTerm, matSide, sideSum]
  congr 1
  omega

theorem matSide_bounds (p : Pos) (c : Nat) (h : legalRawOf p c) : matLo ≤ matSide p c ∧ matSide p c ≤ matHi :=
  ⟨le_sideSum p c h _ _ _ _ _ _, sideSum_le p c h _ _ _ _ _ _⟩

theorem materialTerm_bounds (p : Pos) (hw : legalRawOf p 0) (hb : legalRawOf p 1) : absLe (materialTerm p) matBound := by
  have a := matSide_bounds p 0 hw
  have b := matSide_bounds p 1 hb
  unfold absLe materialTerm matBound; omega

/-! ### pawn adjustment -/

/-- pawn adjustment of the knights and rooks of colour `c` -/
def adjSide (p : Pos) (c : Nat) : Int :=
  ka (popcount (p.pieces c 0)) * pc (p.pieces c 1) + ra (popcount (p.pieces c 0)) * pc (p.pieces c 3)

def adjTerm (p : Pos) : Int := adjSide p 0 - adjSide p 1

theorem evalPawnAdjustment_eq (p : Pos) (e : EvalAcc)
    (hw : popcount (p.pieces 0 0) ≤ 8) (hb : popcount (p.pieces 1 0) ≤ 8) :
    evalPawnAdjustment p e = some { e with base := e.base + adjTerm p } := by
  have hw' : popcount (p.pieces 0 PAWN) ≤ 8 := hw
  have hb' : popcount (p.pieces 1 PAWN) ≤ 8 := hb
  unfold evalPawnAdjustment
  dsimp only
  split
  · rename_i h; simp at h; omega
  · simp only [adjTerm, adjSide, ka, ra, PAWN, KNIGHT, ROOK]
    congr 2
    omega

theorem evalPawnAdjustment_none (p : Pos) (e : EvalAcc)
    (h : 8 < popcount (p.pieces 0 0) ∨ 8 < popcount (p.pieces 1 0)) :
    evalPawnAdjustment p e = none := by
  have h' : 8 < popcount (p.pieces 0 PAWN) ∨ 8 < popcount (p.pieces 1 PAWN) := h
  unfold evalPawnAdjustment
  dsimp only
  split
  · rfl
  · rename_i h2; simp at h2; omega

/-- the adjustment table entries used with at most eight pawns lie between the computed extrema -/
theorem ka_bounds (n : Nat) (h : n ≤ 8) : kaLo ≤ ka n ∧ ka n ≤ kaHi :=
  ⟨minOver_le ka 9 n (by omega), le_maxOver ka 9 n (by omega)⟩

theorem ra_bounds (n : Nat) (h : n ≤ 8) : raLo ≤ ra n ∧ ra n ≤ raHi :=
  ⟨minOver_le ra 9 n (by omega), le_maxOver ra 9 n (by omega)⟩

theorem adjSide_bounds (p : Pos) (c : Nat) (h : legalRawOf p c) : adjLo ≤ adjSide p c ∧ adjSide p c ≤ adjHi := by
  have h8 : popcount (p.pieces c 0) ≤ 8 := h.2.1
  have a := mul_bounds _ _ _ _ (ka_bounds _ h8).1 (ka_bounds _ h8).2 (pc_nonneg (p.pieces c 1))
  have b := mul_bounds _ _ _ _ (ra_bounds _ h8).1 (ra_bounds _ h8).2 (pc_nonneg (p.pieces c 3))
  have s1 := sideSum_le p c h 0 kaHi 0 raHi 0 0
  have s2 := sideSum_le p c h 0 (-kaLo) 0 (-raLo) 0 0
  unfold sideSum at s1 s2
  simp only [Int.neg_mul] at s2
  unfold adjSide adjLo adjHi
  omega

theorem adjTerm_bounds (p : Pos) (hw : legalRawOf p 0) (hb : legalRawOf p 1) : absLe (adjTerm p) adjBound := by
  have a := adjSide_bounds p 0 hw
  have b := adjSide_bounds p 1 hb
  unfold absLe adjTerm adjBound; omega

/-! ### mobility -/

/-- contribution of the piece of type `t` on `s` -/
def mobTerm (p : Pos) (we t s : Nat) : Int :=
  pc (attacksOfType p we t s &&& ~~~(p.byColor we))
  + kav t * pc ((attacksOfType p we t s &&& ~~~(p.byColor we)) &&& kingAttacks (lsb (p.pieces (switchColor we) 5)))

def mobPawns (p : Pos) (we : Nat) : Int := pc (pawnPushes we (p.pieces we 0) p.all &&& ~~~(p.byColor we))

theorem mobilityByColor_eq (p : Pos) (we : Nat) :
    mobilityByColor p we = mobPawns p we
      + sumOver (mobTerm p we 0) (p.pieces we 0) + sumOver (mobTerm p we 1) (p.pieces we 1)
      + sumOver (mobTerm p we 2) (p.pieces we 2) + sumOver (mobTerm p we 3) (p.pieces we 3)
      + sumOver (mobTerm p we 4) (p.pieces we 4) + sumOver (mobTerm p we 5) (p.pieces we 5) := by
  unfold mobilityByColor
  rw [range6]
  simp only [List.foldl_cons, List.foldl_nil, foldl_add_sum2, KING, PAWN]
  rfl

theorem lsb_le (b : BB) : lsb b ≤ 64 := by
  unfold lsb
  cases h : squares b with
  | nil => simp
  | cons a l =>
    have : a ∈ squares b := by rw [h]; simp
    have := lt_of_mem_squares this
    simp; omega

theorem popcount_kingAttacks : ∀ s ≤ 64, popcount (kingAttacks s) ≤ 8 := by decide +kernel

/-- crude per-piece bound: at most 64 target squares, at most 8 of them next to the king; the king attack weight may have
either sign -/
theorem mobTerm_bounds (p : Pos) (we t s : Nat) :
    -(posPart (-kav t) * 8) ≤ mobTerm p we t s ∧ mobTerm p we t s ≤ 64 + posPart (kav t) * 8 := by
  unfold mobTerm
  generalize attacksOfType p we t s &&& ~~~(p.byColor we) = m
  have h1 := pc_nonneg m
  have h2 := pc_le_64 m
  have h3 := pc_nonneg (m &&& kingAttacks (lsb (p.pieces (switchColor we) 5)))
  have h4 : pc (m &&& kingAttacks (lsb (p.pieces (switchColor we) 5))) ≤ 8 := by
    have := popcount_and_le_right m (kingAttacks (lsb (p.pieces (switchColor we) 5)))
    have := popcount_kingAttacks _ (lsb_le (p.pieces (switchColor we) 5))
    unfold pc; omega
  have h5 := mul_le_posPart (kav t) _ 8 h3 h4
  have h6 := neg_posPart_le_mul (kav t) _ 8 h3 h4
  omega

theorem mobSum_bounds (p : Pos) (we t : Nat) (b : BB) :
    -(posPart (-kav t) * 8 * pc b) ≤ sumOver (mobTerm p we t) b ∧
    sumOver (mobTerm p we t) b ≤ (64 + posPart (kav t) * 8) * pc b := by
  have a := le_sumOver (mobTerm p we t) (-(posPart (-kav t) * 8)) b (fun s _ => (mobTerm_bounds p we t s).1)
  have c := sumOver_le (mobTerm p we t) (64 + posPart (kav t) * 8) b (fun s _ => (mobTerm_bounds p we t s).2)
  rw [Int.neg_mul] at a
  exact ⟨a, c⟩

theorem mobilityByColor_bounds (p : Pos) (we : Nat) (h : legalRawOf p we) :
    mobLo ≤ mobilityByColor p we ∧ mobilityByColor p we ≤ mobHi := by
  have h0 := mobSum_bounds p we 0 (p.pieces we 0)
  have h1 := mobSum_bounds p we 1 (p.pieces we 1)
  have h2 := mobSum_bounds p we 2 (p.pieces we 2)
  have h3 := mobSum_bounds p we 3 (p.pieces we 3)
  have h4 := mobSum_bounds p we 4 (p.pieces we 4)
  have h5 := mobSum_bounds p we 5 (p.pieces we 5)
  have hp0 : 0 ≤ mobPawns p we := pc_nonneg _
  have hp1 : mobPawns p we ≤ 64 := pc_le_64 _
  have s1 := sideSum_le p we h (64 + posPart (kav 0) * 8) (64 + posPart (kav 1) * 8) (64 + posPart (kav 2) * 8)
    (64 + posPart (kav 3) * 8) (64 + posPart (kav 4) * 8) (64 + posPart (kav 5) * 8)
  have s2 := sideSum_le p we h (posPart (-kav 0) * 8) (posPart (-kav 1) * 8) (posPart (-kav 2) * 8)
    (posPart (-kav 3) * 8) (posPart (-kav 4) * 8) (posPart (-kav 5) * 8)
  unfold sideSum at s1 s2
  rw [mobilityByColor_eq]
  unfold mobLo mobHi
  omega

/-! ### game phase -/

def phaseRaw (p : Pos) : Int :=
  gpv 1 * pc (p.pieces 0 2) + gpv 0 * pc (p.pieces 0 1) + gpv 2 * pc (p.pieces 0 3) + gpv 3 * pc (p.pieces 0 4)
  + gpv 1 * pc (p.pieces 1 2) + gpv 0 * pc (p.pieces 1 1) + gpv 2 * pc (p.pieces 1 3) + gpv 3 * pc (p.pieces 1 4)

theorem gamePhase_eq (p : Pos) : gamePhase p = if phaseRaw p > maxGamePhase then maxGamePhase else phaseRaw p := by
  unfold gamePhase
  simp only [List.foldl_cons, List.foldl_nil, BISHOP, KNIGHT, ROOK, QUEEN]
  have : (0 + Gen.eval_gamePhaseValues.getD 1 0 * pc (p.pieces 0 2) + Gen.eval_gamePhaseValues.getD 0 0 * pc (p.pieces 0 1)
      + Gen.eval_gamePhaseValues.getD 2 0 * pc (p.pieces 0 3) + Gen.eval_gamePhaseValues.getD 3 0 * pc (p.pieces 0 4)
      + Gen.eval_gamePhaseValues.getD 1 0 * pc (p.pieces 1 2) + Gen.eval_gamePhaseValues.getD 0 0 * pc (p.pieces 1 1)
      + Gen.eval_gamePhaseValues.getD 2 0 * pc (p.pieces 1 3) + Gen.eval_gamePhaseValues.getD 3 0 * pc (p.pieces 1 4))
      = phaseRaw p := by
    unfold phaseRaw gpv; omega
  simp only [this]

/-- `0 ≤ gamePhase ≤ maxGamePhase` (uses the sign conditions `phase_facts`) -/
theorem gamePhase_bounds (p : Pos) : 0 ≤ gamePhase p ∧ gamePhase p ≤ maxGamePhase := by
  obtain ⟨g0, g1, g2, g3, gm⟩ := phase_facts
  rw [gamePhase_eq]
  have : 0 ≤ phaseRaw p := by
    have a1 := Int.mul_nonneg g1 (pc_nonneg (p.pieces 0 2))
    have a2 := Int.mul_nonneg g0 (pc_nonneg (p.pieces 0 1))
    have a3 := Int.mul_nonneg g2 (pc_nonneg (p.pieces 0 3))
    have a4 := Int.mul_nonneg g3 (pc_nonneg (p.pieces 0 4))
    have a5 := Int.mul_nonneg g1 (pc_nonneg (p.pieces 1 2))
    have a6 := Int.mul_nonneg g0 (pc_nonneg (p.pieces 1 1))
    have a7 := Int.mul_nonneg g2 (pc_nonneg (p.pieces 1 3))
    have a8 := Int.mul_nonneg g3 (pc_nonneg (p.pieces 1 4))
    unfold phaseRaw; omega
  split <;> omega

end Clemens
