import Clemens.Proofs.EvalBits
/-
Lemma library for C15 (part 1): closed forms of the evaluation terms and explicit numeric
bounds for each of them in terms of the popcounts of the twelve piece sets.
-/
namespace Clemens

/-! ### constants -/

theorem maxGamePhase_eq : maxGamePhase = 24 := by decide
theorem INF_eq : INF = 32767 := by decide

/-! ### piece square tables -/

def pstTerm (ph t : Nat) (p : Pos) : Int :=
  sumOver (pst ph 0 t) (p.pieces 0 t) - sumOver (pst ph 1 t) (p.pieces 1 t)

def pstSum (ph : Nat) (p : Pos) : Int :=
  pstTerm ph 0 p + pstTerm ph 1 p + pstTerm ph 2 p + pstTerm ph 3 p + pstTerm ph 4 p + pstTerm ph 5 p

theorem evalPst_eq (p : Pos) (e : EvalAcc) :
    evalPst p e = { mid := e.mid + pstSum 0 p, end_ := e.end_ + pstSum 1 p, base := e.base } := by
  unfold evalPst
  rw [range6]
  simp only [List.foldl_cons, List.foldl_nil, foldl_acc_add, foldl_acc_sub]
  simp only [pstSum, pstTerm, sumOver]
  congr 1 <;> omega

/-- smallest / largest entry of the tables of piece type `t` (both colours, both phases) -/
def pstLo (t : Nat) : Int := [-20, -50, -20, -5, -20, -50].getD t 0
def pstHi (t : Nat) : Int := [50, 20, 10, 10, 5, 40].getD t 0

theorem pst_bounds : ∀ ph < 2, ∀ c < 2, ∀ t < 6, ∀ s < 64, pstLo t ≤ pst ph c t s ∧ pst ph c t s ≤ pstHi t := by
  decide +kernel

theorem pstTerm_bounds (ph t : Nat) (hph : ph < 2) (ht : t < 6) (p : Pos) :
    pstLo t * pc (p.pieces 0 t) - pstHi t * pc (p.pieces 1 t) ≤ pstTerm ph t p ∧
    pstTerm ph t p ≤ pstHi t * pc (p.pieces 0 t) - pstLo t * pc (p.pieces 1 t) := by
  have a := le_sumOver (pst ph 0 t) (pstLo t) (p.pieces 0 t) (fun s hs => (pst_bounds ph hph 0 (by omega) t ht s hs).1)
  have b := sumOver_le (pst ph 0 t) (pstHi t) (p.pieces 0 t) (fun s hs => (pst_bounds ph hph 0 (by omega) t ht s hs).2)
  have c := le_sumOver (pst ph 1 t) (pstLo t) (p.pieces 1 t) (fun s hs => (pst_bounds ph hph 1 (by omega) t ht s hs).1)
  have d := sumOver_le (pst ph 1 t) (pstHi t) (p.pieces 1 t) (fun s hs => (pst_bounds ph hph 1 (by omega) t ht s hs).2)
  unfold pstTerm; omega

/-- the PST sum in terms of the twelve popcounts -/
theorem pstSum_bounds (ph : Nat) (hph : ph < 2) (p : Pos) :
    -20 * pc (p.pieces 0 0) - 50 * pc (p.pieces 0 1) - 20 * pc (p.pieces 0 2) - 5 * pc (p.pieces 0 3)
      - 20 * pc (p.pieces 0 4) - 50 * pc (p.pieces 0 5)
      - 50 * pc (p.pieces 1 0) - 20 * pc (p.pieces 1 1) - 10 * pc (p.pieces 1 2) - 10 * pc (p.pieces 1 3)
      - 5 * pc (p.pieces 1 4) - 40 * pc (p.pieces 1 5) ≤ pstSum ph p ∧
    pstSum ph p ≤
      50 * pc (p.pieces 0 0) + 20 * pc (p.pieces 0 1) + 10 * pc (p.pieces 0 2) + 10 * pc (p.pieces 0 3)
      + 5 * pc (p.pieces 0 4) + 40 * pc (p.pieces 0 5)
      + 20 * pc (p.pieces 1 0) + 50 * pc (p.pieces 1 1) + 20 * pc (p.pieces 1 2) + 5 * pc (p.pieces 1 3)
      + 20 * pc (p.pieces 1 4) + 50 * pc (p.pieces 1 5) := by
  have h0 : -20 * pc (p.pieces 0 0) - 50 * pc (p.pieces 1 0) ≤ pstTerm ph 0 p ∧
      pstTerm ph 0 p ≤ 50 * pc (p.pieces 0 0) - -20 * pc (p.pieces 1 0) := pstTerm_bounds ph 0 hph (by omega) p
  have h1 : -50 * pc (p.pieces 0 1) - 20 * pc (p.pieces 1 1) ≤ pstTerm ph 1 p ∧
      pstTerm ph 1 p ≤ 20 * pc (p.pieces 0 1) - -50 * pc (p.pieces 1 1) := pstTerm_bounds ph 1 hph (by omega) p
  have h2 : -20 * pc (p.pieces 0 2) - 10 * pc (p.pieces 1 2) ≤ pstTerm ph 2 p ∧
      pstTerm ph 2 p ≤ 10 * pc (p.pieces 0 2) - -20 * pc (p.pieces 1 2) := pstTerm_bounds ph 2 hph (by omega) p
  have h3 : -5 * pc (p.pieces 0 3) - 10 * pc (p.pieces 1 3) ≤ pstTerm ph 3 p ∧
      pstTerm ph 3 p ≤ 10 * pc (p.pieces 0 3) - -5 * pc (p.pieces 1 3) := pstTerm_bounds ph 3 hph (by omega) p
  have h4 : -20 * pc (p.pieces 0 4) - 5 * pc (p.pieces 1 4) ≤ pstTerm ph 4 p ∧
      pstTerm ph 4 p ≤ 5 * pc (p.pieces 0 4) - -20 * pc (p.pieces 1 4) := pstTerm_bounds ph 4 hph (by omega) p
  have h5 : -50 * pc (p.pieces 0 5) - 40 * pc (p.pieces 1 5) ≤ pstTerm ph 5 p ∧
      pstTerm ph 5 p ≤ 40 * pc (p.pieces 0 5) - -50 * pc (p.pieces 1 5) := pstTerm_bounds ph 5 hph (by omega) p
  unfold pstSum; omega

/-! ### pawn structure -/

def isoDiff (p : Pos) : Int := pc (isolanis (p.pieces 0 0)) - pc (isolanis (p.pieces 1 0))

def pawnRanked (p : Pos) : Int :=
  rankedPawnEval 3 (supportedPawns 0 (p.pieces 0 0)) (supportedPawns 1 (p.pieces 1 0)) +
  rankedPawnEval 5 (passed 0 (p.pieces 0 0) (p.pieces 1 0)) (passed 1 (p.pieces 0 0) (p.pieces 1 0))

theorem evalPawns_eq (p : Pos) (e : EvalAcc) :
    evalPawns p e = { mid := e.mid + -20 * isoDiff p, end_ := e.end_ + -5 * isoDiff p,
                      base := e.base + pawnRanked p } := by
  have h1 : Gen.eval_isolanis.getD 0 0 = -20 := by decide
  have h2 : Gen.eval_isolanis.getD 1 0 = -5 := by decide
  have h3 : Gen.eval_supportedScalar.getD 0 0 = 3 := by decide
  have h4 : Gen.eval_passedScalar.getD 0 0 = 5 := by decide
  unfold evalPawns
  simp only [h1, h2, h3, h4, isoDiff, pawnRanked, PAWN]
  congr 1; omega

theorem pc_isolanis_le (b : BB) : pc (isolanis b) ≤ pc b := by
  unfold isolanis
  exact Int.le_trans (pc_and_le_left _ _) (pc_and_le_left _ _)

theorem isoDiff_bounds (p : Pos) : -pc (p.pieces 1 0) ≤ isoDiff p ∧ isoDiff p ≤ pc (p.pieces 0 0) := by
  have a := pc_isolanis_le (p.pieces 0 0)
  have b := pc_isolanis_le (p.pieces 1 0)
  have c := pc_nonneg (isolanis (p.pieces 0 0))
  have d := pc_nonneg (isolanis (p.pieces 1 0))
  unfold isoDiff; omega

theorem popcount_rankmask : ∀ i < 6, popcount (rankMask2 <<< (8 * i)) = 8 := by decide +kernel

theorem pc_and_rank (w : BB) (i : Nat) (hi : i < 6) :
    0 ≤ pc (w &&& rankMask2 <<< (8 * i)) ∧ pc (w &&& rankMask2 <<< (8 * i)) ≤ 8 := by
  have h1 := popcount_and_le_right w (rankMask2 <<< (8 * i))
  have h2 := popcount_rankmask i hi
  unfold pc; omega

theorem rankedPawnEval_3_bounds (w b : BB) :
    -504 ≤ rankedPawnEval 3 w b ∧ rankedPawnEval 3 w b ≤ 504 := by
  unfold rankedPawnEval
  rw [range6]
  simp only [List.foldl_cons, List.foldl_nil]
  have w0 := pc_and_rank w 0 (by omega)
  have w1 := pc_and_rank w 1 (by omega)
  have w2 := pc_and_rank w 2 (by omega)
  have w3 := pc_and_rank w 3 (by omega)
  have w4 := pc_and_rank w 4 (by omega)
  have w5 := pc_and_rank w 5 (by omega)
  have b0 := pc_and_rank b 0 (by omega)
  have b1 := pc_and_rank b 1 (by omega)
  have b2 := pc_and_rank b 2 (by omega)
  have b3 := pc_and_rank b 3 (by omega)
  have b4 := pc_and_rank b 4 (by omega)
  have b5 := pc_and_rank b 5 (by omega)
  omega

theorem rankedPawnEval_5_bounds (w b : BB) :
    -840 ≤ rankedPawnEval 5 w b ∧ rankedPawnEval 5 w b ≤ 840 := by
  unfold rankedPawnEval
  rw [range6]
  simp only [List.foldl_cons, List.foldl_nil]
  have w0 := pc_and_rank w 0 (by omega)
  have w1 := pc_and_rank w 1 (by omega)
  have w2 := pc_and_rank w 2 (by omega)
  have w3 := pc_and_rank w 3 (by omega)
  have w4 := pc_and_rank w 4 (by omega)
  have w5 := pc_and_rank w 5 (by omega)
  have b0 := pc_and_rank b 0 (by omega)
  have b1 := pc_and_rank b 1 (by omega)
  have b2 := pc_and_rank b 2 (by omega)
  have b3 := pc_and_rank b 3 (by omega)
  have b4 := pc_and_rank b 4 (by omega)
  have b5 := pc_and_rank b 5 (by omega)
  omega

theorem pawnRanked_bounds (p : Pos) : -1344 ≤ pawnRanked p ∧ pawnRanked p ≤ 1344 := by
  have a := rankedPawnEval_3_bounds (supportedPawns 0 (p.pieces 0 0)) (supportedPawns 1 (p.pieces 1 0))
  have b := rankedPawnEval_5_bounds (passed 0 (p.pieces 0 0) (p.pieces 1 0)) (passed 1 (p.pieces 0 0) (p.pieces 1 0))
  unfold pawnRanked; omega

/-! ### pairs -/

def pairsTerm (p : Pos) : Int :=
  (if popcount (p.pieces 0 2) > 1 then 30 else 0) - (if popcount (p.pieces 1 2) > 1 then 30 else 0)
  - (if popcount (p.pieces 0 1) > 1 then 8 else 0) + (if popcount (p.pieces 1 1) > 1 then 8 else 0)
  - (if popcount (p.pieces 0 3) > 1 then 16 else 0) + (if popcount (p.pieces 1 3) > 1 then 16 else 0)

theorem evalPairs_eq (p : Pos) (e : EvalAcc) :
    evalPairs p e = { e with base := e.base + pairsTerm p } := by
  have h1 : Gen.eval_pairs.getD 0 0 = -16 := by decide
  have h2 : Gen.eval_pairs.getD 1 0 = -8 := by decide
  have h3 : Gen.eval_pairs.getD 2 0 = 30 := by decide
  unfold evalPairs
  simp only [h1, h2, h3, pairsTerm, BISHOP, KNIGHT, ROOK]
  congr 1
  omega

theorem pairsTerm_bounds (p : Pos) : -54 ≤ pairsTerm p ∧ pairsTerm p ≤ 54 := by
  unfold pairsTerm; omega

/-! ### material -/

def materialTerm (p : Pos) : Int :=
  100 * (pc (p.pieces 0 0) - pc (p.pieces 1 0)) + 310 * (pc (p.pieces 0 1) - pc (p.pieces 1 1))
  + 310 * (pc (p.pieces 0 2) - pc (p.pieces 1 2)) + 510 * (pc (p.pieces 0 3) - pc (p.pieces 1 3))
  + 910 * (pc (p.pieces 0 4) - pc (p.pieces 1 4))

theorem evalMaterial_eq (p : Pos) (e : EvalAcc) :
    evalMaterial p e = { e with base := e.base + materialTerm p } := by
  have h0 : pieceValue 0 = 100 := by decide
  have h1 : pieceValue 1 = 310 := by decide
  have h2 : pieceValue 2 = 310 := by decide
  have h3 : pieceValue 3 = 510 := by decide
  have h4 : pieceValue 4 = 910 := by decide
  have h5 : pieceValue 5 = 0 := by decide
  unfold evalMaterial
  rw [range6]
  simp only [List.foldl_cons, List.foldl_nil, h0, h1, h2, h3, h4, h5, materialTerm]
  congr 1
  omega

/-! ### pawn adjustment -/

def ka (n : Nat) : Int := Gen.eval_knightPawnAdjustment.getD n 0
def ra (n : Nat) : Int := Gen.eval_rookPawnAdjustment.getD n 0

def adjTerm (p : Pos) : Int :=
  ka (popcount (p.pieces 0 0)) * pc (p.pieces 0 1) - ka (popcount (p.pieces 1 0)) * pc (p.pieces 1 1)
  + ra (popcount (p.pieces 0 0)) * pc (p.pieces 0 3) - ra (popcount (p.pieces 1 0)) * pc (p.pieces 1 3)

theorem evalPawnAdjustment_eq (p : Pos) (e : EvalAcc)
    (hw : popcount (p.pieces 0 0) ≤ 8) (hb : popcount (p.pieces 1 0) ≤ 8) :
    evalPawnAdjustment p e = some { e with base := e.base + adjTerm p } := by
  have hw' : popcount (p.pieces 0 PAWN) ≤ 8 := hw
  have hb' : popcount (p.pieces 1 PAWN) ≤ 8 := hb
  unfold evalPawnAdjustment
  dsimp only
  split
  · rename_i h; simp at h; omega
  · simp only [adjTerm, ka, ra, PAWN, KNIGHT, ROOK]
    congr 2
    omega

theorem evalPawnAdjustment_none (p : Pos) (e : EvalAcc)
    (h : 8 < popcount (p.pieces 0 0) ∨ 8 < popcount (p.pieces 1 0)) :
    evalPawnAdjustment p e = none := by
  have h' : 8 < popcount (p.pieces 0 PAWN) ∨ 8 < popcount (p.pieces 1 PAWN) := h
  unfold evalPawnAdjustment
  dsimp only
  split
  · rfl
  · rename_i h2; simp at h2; omega

theorem ka_bounds (n : Nat) : -20 ≤ ka n ∧ ka n ≤ 12 := by
  by_cases h : n < 9
  · have : ∀ n < 9, -20 ≤ ka n ∧ ka n ≤ 12 := by decide
    exact this n h
  · have : ka n = 0 := by
      unfold ka; rw [List.getD_eq_getElem?_getD, List.getElem?_eq_none (by simp [Gen.eval_knightPawnAdjustment]; omega)]; rfl
    omega

theorem ra_bounds (n : Nat) : -9 ≤ ra n ∧ ra n ≤ 15 := by
  by_cases h : n < 9
  · have : ∀ n < 9, -9 ≤ ra n ∧ ra n ≤ 15 := by decide
    exact this n h
  · have : ra n = 0 := by
      unfold ra; rw [List.getD_eq_getElem?_getD, List.getElem?_eq_none (by simp [Gen.eval_rookPawnAdjustment]; omega)]; rfl
    omega

theorem mul_bounds (a x lo hi : Int) (hlo : lo ≤ a) (hhi : a ≤ hi) (hx : 0 ≤ x) :
    lo * x ≤ a * x ∧ a * x ≤ hi * x :=
  ⟨Int.mul_le_mul_of_nonneg_right hlo hx, Int.mul_le_mul_of_nonneg_right hhi hx⟩

theorem adjTerm_bounds (p : Pos) :
    -20 * pc (p.pieces 0 1) - 12 * pc (p.pieces 1 1) - 9 * pc (p.pieces 0 3) - 15 * pc (p.pieces 1 3) ≤ adjTerm p ∧
    adjTerm p ≤ 12 * pc (p.pieces 0 1) + 20 * pc (p.pieces 1 1) + 15 * pc (p.pieces 0 3) + 9 * pc (p.pieces 1 3) := by
  have a := mul_bounds _ _ _ _ (ka_bounds (popcount (p.pieces 0 0))).1 (ka_bounds _).2 (pc_nonneg (p.pieces 0 1))
  have b := mul_bounds _ _ _ _ (ka_bounds (popcount (p.pieces 1 0))).1 (ka_bounds _).2 (pc_nonneg (p.pieces 1 1))
  have c := mul_bounds _ _ _ _ (ra_bounds (popcount (p.pieces 0 0))).1 (ra_bounds _).2 (pc_nonneg (p.pieces 0 3))
  have d := mul_bounds _ _ _ _ (ra_bounds (popcount (p.pieces 1 0))).1 (ra_bounds _).2 (pc_nonneg (p.pieces 1 3))
  unfold adjTerm; omega

/-! ### mobility -/

def kav (t : Nat) : Int := Gen.eval_kingAttValue.getD t 0

/-- contribution of the piece of type `t` on `s` -/
def mobTerm (p : Pos) (we t s : Nat) : Int :=
  pc (attacksOfType p we t s &&& ~~~(p.byColor we))
  + kav t * pc ((attacksOfType p we t s &&& ~~~(p.byColor we)) &&& kingAttacks (lsb (p.pieces (switchColor we) 5)))

def mobPawns (p : Pos) (we : Nat) : Int := pc (pawnPushes we (p.pieces we 0) p.all &&& ~~~(p.byColor we))

theorem mobilityByColor_eq (p : Pos) (we : Nat) :
    mobilityByColor p we = mobPawns p we
      + sumOver (mobTerm p we 0) (p.pieces we 0) + sumOver (mobTerm p we 1) (p.pieces we 1)
      + sumOver (mobTerm p we 2) (p.pieces we 2) + sumOver (mobTerm p we 3) (p.pieces we 3)
      + sumOver (mobTerm p we 4) (p.pieces we 4) + sumOver (mobTerm p we 5) (p.pieces we 5) := by
  unfold mobilityByColor
  rw [range6]
  simp only [List.foldl_cons, List.foldl_nil, foldl_add_sum2, KING, PAWN]
  rfl

theorem lsb_le (b : BB) : lsb b ≤ 64 := by
  unfold lsb
  cases h : squares b with
  | nil => simp
  | cons a l =>
    have : a ∈ squares b := by rw [h]; simp
    have := lt_of_mem_squares this
    simp; omega

theorem popcount_kingAttacks : ∀ s ≤ 64, popcount (kingAttacks s) ≤ 8 := by decide +kernel

theorem kav_vals : kav 0 = 1 ∧ kav 1 = 2 ∧ kav 2 = 2 ∧ kav 3 = 3 ∧ kav 4 = 4 ∧ kav 5 = 1 := by decide

/-- crude per-piece bound: at most 64 target squares, at most 8 of them next to the king -/
theorem mobTerm_bounds (p : Pos) (we t s : Nat) (k : Int) (hk : kav t = k) (hk0 : 0 ≤ k) :
    0 ≤ mobTerm p we t s ∧ mobTerm p we t s ≤ 64 + k * 8 := by
  unfold mobTerm
  rw [hk]
  generalize attacksOfType p we t s &&& ~~~(p.byColor we) = m
  have h1 := pc_nonneg m
  have h2 := pc_le_64 m
  have h3 := pc_nonneg (m &&& kingAttacks (lsb (p.pieces (switchColor we) 5)))
  have h4 : pc (m &&& kingAttacks (lsb (p.pieces (switchColor we) 5))) ≤ 8 := by
    have := popcount_and_le_right m (kingAttacks (lsb (p.pieces (switchColor we) 5)))
    have := popcount_kingAttacks _ (lsb_le (p.pieces (switchColor we) 5))
    unfold pc; omega
  have h5 := mul_bounds k _ 0 k hk0 (Int.le_refl _) h3
  have h6 : k * pc (m &&& kingAttacks (lsb (p.pieces (switchColor we) 5))) ≤ k * 8 :=
    Int.mul_le_mul_of_nonneg_left h4 hk0
  omega

theorem mobSum_bounds (p : Pos) (we t : Nat) (k : Int) (hk : kav t = k) (hk0 : 0 ≤ k) (b : BB) :
    0 ≤ sumOver (mobTerm p we t) b ∧ sumOver (mobTerm p we t) b ≤ (64 + k * 8) * pc b := by
  have a := le_sumOver (mobTerm p we t) 0 b (fun s _ => (mobTerm_bounds p we t s k hk hk0).1)
  have c := sumOver_le (mobTerm p we t) (64 + k * 8) b (fun s _ => (mobTerm_bounds p we t s k hk hk0).2)
  omega

theorem mobilityByColor_bounds (p : Pos) (we : Nat) :
    0 ≤ mobilityByColor p we ∧
    mobilityByColor p we ≤ 64 + 72 * pc (p.pieces we 0) + 80 * pc (p.pieces we 1) + 80 * pc (p.pieces we 2)
      + 88 * pc (p.pieces we 3) + 96 * pc (p.pieces we 4) + 72 * pc (p.pieces we 5) := by
  obtain ⟨k0, k1, k2, k3, k4, k5⟩ := kav_vals
  have h0 := mobSum_bounds p we 0 1 k0 (by omega) (p.pieces we 0)
  have h1 := mobSum_bounds p we 1 2 k1 (by omega) (p.pieces we 1)
  have h2 := mobSum_bounds p we 2 2 k2 (by omega) (p.pieces we 2)
  have h3 := mobSum_bounds p we 3 3 k3 (by omega) (p.pieces we 3)
  have h4 := mobSum_bounds p we 4 4 k4 (by omega) (p.pieces we 4)
  have h5 := mobSum_bounds p we 5 1 k5 (by omega) (p.pieces we 5)
  have hp0 : 0 ≤ mobPawns p we := pc_nonneg _
  have hp1 : mobPawns p we ≤ 64 := pc_le_64 _
  rw [mobilityByColor_eq]
  omega

/-! ### game phase -/

def phaseRaw (p : Pos) : Int :=
  pc (p.pieces 0 2) + pc (p.pieces 0 1) + 2 * pc (p.pieces 0 3) + 4 * pc (p.pieces 0 4)
  + pc (p.pieces 1 2) + pc (p.pieces 1 1) + 2 * pc (p.pieces 1 3) + 4 * pc (p.pieces 1 4)

theorem gamePhase_eq (p : Pos) : gamePhase p = if phaseRaw p > 24 then 24 else phaseRaw p := by
  have h0 : Gen.eval_gamePhaseValues.getD 0 0 = 1 := by decide
  have h1 : Gen.eval_gamePhaseValues.getD 1 0 = 1 := by decide
  have h2 : Gen.eval_gamePhaseValues.getD 2 0 = 2 := by decide
  have h3 : Gen.eval_gamePhaseValues.getD 3 0 = 4 := by decide
  unfold gamePhase
  simp only [List.foldl_cons, List.foldl_nil, h0, h1, h2, h3, maxGamePhase_eq, BISHOP, KNIGHT, ROOK, QUEEN]
  have : (0 + 1 * pc (p.pieces 0 2) + 1 * pc (p.pieces 0 1) + 2 * pc (p.pieces 0 3) + 4 * pc (p.pieces 0 4)
      + 1 * pc (p.pieces 1 2) + 1 * pc (p.pieces 1 1) + 2 * pc (p.pieces 1 3) + 4 * pc (p.pieces 1 4)) = phaseRaw p := by
    unfold phaseRaw; omega
  rw [this]

theorem gamePhase_bounds (p : Pos) : 0 ≤ gamePhase p ∧ gamePhase p ≤ 24 := by
  rw [gamePhase_eq]
  have : 0 ≤ phaseRaw p := by
    have := pc_nonneg (p.pieces 0 2); have := pc_nonneg (p.pieces 0 1); have := pc_nonneg (p.pieces 0 3)
    have := pc_nonneg (p.pieces 0 4); have := pc_nonneg (p.pieces 1 2); have := pc_nonneg (p.pieces 1 1)
    have := pc_nonneg (p.pieces 1 3); have := pc_nonneg (p.pieces 1 4)
    unfold phaseRaw; omega
  omega

end Clemens
