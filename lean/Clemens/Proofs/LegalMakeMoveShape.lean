import Clemens.Proofs.LegalBoardViews
/-
NOTE (P15): this file is a verbatim copy of `Clemens/Proofs/MakeMoveShape.lean` placed in the namespace `Clemens.LBV`.
Reason: the lemma libraries of C02 (`MakeMove*.lean`), C10 (`BoardViews.lean`, `MakeMoveShape.lean`) and C12d (`Attackers.lean`)
declare clashing global names (`Clemens.validPiece_lt`, `Clemens.makeMove_eq`, `Clemens.absPos_at`, …), so `Clemens.Props.C02` and
`Clemens.Props.C10` cannot be imported into one module.  C01/C10b need `makeMove_refines` (C02) and `makeMove_wfShape` (C10)
together; the latter is taken from this copy (`LBV.makeMove_agrees_core`), whose statement mentions model definitions only.
-/
/-
C10: `MakeMove` keeps the board array and the bitboards consistent.  `makeMove` is cut into its
stages (`makeMove_eq` is by `rfl`), each stage is shown to preserve `boardAgrees` and its effect on
the board array is recorded.
-/
namespace Clemens
namespace LBV

/-! ### the stages of `makeMove` -/

def mmClearEp (K : Keys) (p : Pos) : Pos :=
  if p.ep != 64 then { p with hash := p.hash ^^^ K.ep (fileOf p.ep), ep := 64 } else p

def mmCapture (K : Keys) (p : Pos) (tgt : Nat) : Option (Pos × Bool) :=
  if p.at tgt != 0 then (do let (p, _) ← deletePiece K p tgt; pure (p, true)) else pure (p, false)

def mmPawn (K : Keys) (p : Pos) (piece src tgt : Nat) (reset : Bool) : Option (Pos × Bool) :=
  if pieceType piece = PAWN then
    if absDiff src tgt % 256 = 16 then
      let p := { p with ep := tgt, hash := p.hash ^^^ K.ep (fileOf tgt) }
      if p.side = 1 then pure ({ p with ep := (p.ep + 8) % 256 }, true)
      else if p.side = 0 then pure ({ p with ep := (p.ep + 248) % 256 }, true)
      else none
    else pure (p, true)
  else pure (p, reset)

def mmSpecial (K : Keys) (p : Pos) (m : Move) : Option Pos :=
  let tgt := m.tgt
  if m.kind = 3 then
    if tgt = 2 then (do let (p, _) ← movePiece K p 0 3; pure p)
    else if tgt = 6 then (do let (p, _) ← movePiece K p 7 5; pure p)
    else if tgt = 58 then (do let (p, _) ← movePiece K p 56 59; pure p)
    else if tgt = 62 then (do let (p, _) ← movePiece K p 63 61; pure p)
    else none
  else if m.kind = 2 then
    let victim := if p.side = 0 then (tgt + 248) % 256 else if p.side = 1 then (tgt + 8) % 256 else 0
    (do let (p, _) ← deletePiece K p victim; pure p)
  else if m.kind = 1 then
    (do let (p, _) ← deletePiece K p tgt; setPiece K p (newPiece p.side m.promo) tgt)
  else pure p

def mmFinish (K : Keys) (p : Pos) (reset : Bool) : Pos :=
  let p := { p with ply := (p.ply + 1) % 256, side := switchColor p.side, hash := p.hash ^^^ K.side }
  let p := { p with hmc := if reset then 0 else (p.hmc + 1) % 256 }
  helperBitboards p

theorem opt_ite_bind {α β : Type} {c : Prop} [Decidable c] (x y : Option α) (f : α → Option β) :
    (if c then x else y) >>= f = if c then x >>= f else y >>= f := by split <;> rfl

theorem makeMove_eq (K : Keys) (p : Pos) (m : Move) : makeMove K p m = (do
    let p0 := mmClearEp K p
    let (p1, reset) ← mmCapture K p0 m.tgt
    let p2 := touchSquare K (touchSquare K p1 m.src) m.tgt
    let (p3, piece) ← movePiece K p2 m.src m.tgt
    let (p4, reset) ← mmPawn K p3 piece m.src m.tgt reset
    let p5 ← mmSpecial K p4 m
    pure (mmFinish K p5 reset)) := by
  unfold makeMove mmClearEp mmCapture mmPawn mmSpecial mmFinish
  simp only [opt_ite_bind, bind_assoc, pure_bind]

/-! ### each stage keeps the two views in agreement -/

theorem mmClearEp_bb (K : Keys) (p : Pos) : (mmClearEp K p).bb = p.bb ∧ (mmClearEp K p).board = p.board := by
  unfold mmClearEp; split <;> exact ⟨rfl, rfl⟩

theorem removeCastling_bb (K : Keys) (p : Pos) (c i : Nat) :
    (removeCastling K p c i).bb = p.bb ∧ (removeCastling K p c i).board = p.board := by
  unfold removeCastling; split <;> exact ⟨rfl, rfl⟩

theorem touchSquare_bb (K : Keys) (p : Pos) (s : Nat) :
    (touchSquare K p s).bb = p.bb ∧ (touchSquare K p s).board = p.board := by
  unfold touchSquare
  repeat' split
  all_goals simp only [removeCastling_bb, and_self]

theorem at_congr {p q : Pos} (h : q.board = p.board) (s : Nat) : q.at s = p.at s := by
  simp only [Pos.at, h]

theorem mmCapture_spec (K : Keys) (p q : Pos) (tgt : Nat) (r : Bool) (h : mmCapture K p tgt = some (q, r))
    (ha : boardAgrees p) : boardAgrees q ∧ ∀ s, q.at s = if s = tgt then 0 else p.at s := by
  unfold mmCapture at h
  split at h
  · cases h1 : deletePiece K p tgt with
    | none => simp [h1] at h
    | some x =>
      obtain ⟨p1, pc⟩ := x
      simp only [h1, bind, pure, Option.bind_some, Option.some.injEq, Prod.mk.injEq] at h
      obtain ⟨hq, _⟩ := h
      subst hq
      exact ⟨deletePiece_agrees_core K p p1 tgt pc h1 ha, (deletePiece_at K p p1 tgt pc h1).2.2.2⟩
  · rename_i hz
    simp only [pure, Option.some.injEq, Prod.mk.injEq] at h
    obtain ⟨hq, _⟩ := h
    subst hq
    refine ⟨ha, fun s => ?_⟩
    split
    · rename_i hs; subst hs; simpa using hz
    · rfl

theorem mmPawn_bb (K : Keys) (p q : Pos) (piece src tgt : Nat) (r r' : Bool)
    (h : mmPawn K p piece src tgt r = some (q, r')) : q.bb = p.bb ∧ q.board = p.board := by
  unfold mmPawn at h
  simp only [pure] at h
  repeat' split at h
  all_goals first
    | (simp only [Option.some.injEq, Prod.mk.injEq] at h; obtain ⟨hq, _⟩ := h; subst hq; exact ⟨rfl, rfl⟩)
    | exact absurd h (by simp)

/-- (king's target square, rook's source square, rook's destination square) of the four castling moves,
as hard-wired in `MakeMove` -/
def castlingRookSquares : List (Nat × Nat × Nat) := [(2, 0, 3), (6, 7, 5), (58, 56, 59), (62, 63, 61)]

theorem not_validPiece_zero : validPiece 0 = false := by decide

theorem mmSpecial_agrees (K : Keys) (p q : Pos) (m : Move) (h : mmSpecial K p m = some q)
    (hfree : m.kind = 3 → ∀ f t, (m.tgt, f, t) ∈ castlingRookSquares →
      p.at t = 0 ∨ p.at t = p.at f ∨ p.at f = 0)
    (ha : boardAgrees p) : boardAgrees q := by
  have castle : ∀ f t, (m.tgt, f, t) ∈ castlingRookSquares → m.kind = 3 →
      ((movePiece K p f t).bind fun x => some x.1) = some q → boardAgrees q := by
    intro f t hft hk hm
    cases h1 : movePiece K p f t with
    | none => simp [h1] at hm
    | some x =>
      obtain ⟨p1, pc⟩ := x
      simp only [h1, Option.bind_some, Option.some.injEq] at hm
      subst hm
      obtain ⟨_, _, hpc, hv, _⟩ := movePiece_at K p p1 f t pc h1
      rcases hfree hk f t hft with h0 | h0 | h0
      · exact movePiece_agrees K p p1 f t pc h1 (Or.inr (Or.inl h0)) ha
      · exact movePiece_agrees K p p1 f t pc h1 (Or.inr (Or.inr h0)) ha
      · rw [hpc, h0, not_validPiece_zero] at hv
        exact absurd hv (by simp)
  unfold mmSpecial at h
  simp only [bind, pure] at h
  split at h
  · rename_i hk
    split at h
    · rename_i ht; exact castle 0 3 (by simp [castlingRookSquares, ht]) hk h
    · split at h
      · rename_i ht; exact castle 7 5 (by simp [castlingRookSquares, ht]) hk h
      · split at h
        · rename_i ht; exact castle 56 59 (by simp [castlingRookSquares, ht]) hk h
        · split at h
          · rename_i h2 h6 h58 ht; exact castle 63 61 (by simp [castlingRookSquares, ht]) hk h
          · exact absurd h (by simp)
  · split at h
    · generalize (if p.side = 0 then (m.tgt + 248) % 256 else if p.side = 1 then (m.tgt + 8) % 256 else 0) = v at h
      cases h1 : deletePiece K p v with
      | none => simp [h1] at h
      | some x =>
        obtain ⟨p1, pc⟩ := x
        simp only [h1, Option.bind_some, Option.some.injEq] at h
        subst h
        exact deletePiece_agrees_core K p p1 v pc h1 ha
    · split at h
      · cases h1 : deletePiece K p m.tgt with
        | none => simp [h1] at h
        | some x =>
          obtain ⟨p1, pc⟩ := x
          simp only [h1, Option.bind_some] at h
          have a1 := deletePiece_agrees_core K p p1 m.tgt pc h1 ha
          have e1 := (deletePiece_at K p p1 m.tgt pc h1).2.2.2 m.tgt
          simp only [if_true] at e1
          exact setPiece_agrees_core K p1 q _ m.tgt h e1 a1
      · simp only [Option.some.injEq] at h
        subst h; exact ha

theorem mmFinish_wfShape (K : Keys) (p : Pos) (r : Bool) (ha : boardAgrees p) :
    wfShape (mmFinish K p r) = true := by
  unfold mmFinish
  exact wfShape_of_agrees_core _ (boardAgrees_congr (p := p) rfl rfl ha)

/-! ### the whole move -/

/-- `makeMove` succeeded: the position `p4` before the move-kind specific step agrees, its board array is
that of `p` with the piece moved from `src` to `tgt`, and `q` is `mmFinish` of the special step. -/
theorem makeMove_stages (K : Keys) (p q : Pos) (m : Move) (h : makeMove K p m = some q)
    (ha : boardAgrees p) : ∃ p4 p5 r, boardAgrees p4 ∧
      (∀ s, s ≠ m.tgt → p4.at s = if s = m.src then 0 else p.at s) ∧
      mmSpecial K p4 m = some p5 ∧ q = mmFinish K p5 r := by
  rw [makeMove_eq] at h
  simp only [bind, pure] at h
  have e0 := mmClearEp_bb K p
  have a0 : boardAgrees (mmClearEp K p) := boardAgrees_congr e0.1 e0.2 ha
  have at0 : ∀ s, (mmClearEp K p).at s = p.at s := at_congr e0.2
  generalize mmClearEp K p = p0 at h a0 at0
  cases hc : mmCapture K p0 m.tgt with
  | none => simp [hc] at h
  | some x =>
    obtain ⟨p1, r1⟩ := x
    simp only [hc, Option.bind_some] at h
    obtain ⟨a1, at1⟩ := mmCapture_spec K p0 p1 m.tgt r1 hc a0
    have e2 : (touchSquare K (touchSquare K p1 m.src) m.tgt).bb = p1.bb ∧
        (touchSquare K (touchSquare K p1 m.src) m.tgt).board = p1.board := by
      have x1 := touchSquare_bb K p1 m.src
      have x2 := touchSquare_bb K (touchSquare K p1 m.src) m.tgt
      exact ⟨x2.1.trans x1.1, x2.2.trans x1.2⟩
    have a2 := boardAgrees_congr e2.1 e2.2 a1
    have at2 := at_congr e2.2
    generalize touchSquare K (touchSquare K p1 m.src) m.tgt = p2 at h a2 at2
    cases hm : movePiece K p2 m.src m.tgt with
    | none => simp [hm] at h
    | some x =>
      obtain ⟨p3, piece⟩ := x
      simp only [hm, Option.bind_some] at h
      have ht0 : p2.at m.tgt = 0 := by rw [at2, at1]; simp
      have a3 := movePiece_agrees K p2 p3 m.src m.tgt piece hm (Or.inr (Or.inl ht0)) a2
      obtain ⟨_, _, _, _, at3⟩ := movePiece_at K p2 p3 m.src m.tgt piece hm
      cases hp : mmPawn K p3 piece m.src m.tgt r1 with
      | none => simp [hp] at h
      | some x =>
        obtain ⟨p4, r4⟩ := x
        simp only [hp, Option.bind_some] at h
        have e4 := mmPawn_bb K p3 p4 piece m.src m.tgt r1 r4 hp
        have a4 := boardAgrees_congr e4.1 e4.2 a3
        have at4 := at_congr e4.2
        cases hs : mmSpecial K p4 m with
        | none => simp [hs] at h
        | some p5 =>
          simp only [hs, Option.bind_some, Option.some.injEq] at h
          refine ⟨p4, p5, r4, a4, ?_, hs, h.symm⟩
          intro s hs
          rw [at4, at3, if_neg hs, at2, at1, if_neg hs, at0]

theorem makeMove_agrees_core (K : Keys) (p q : Pos) (m : Move) (h : makeMove K p m = some q)
    (ha : boardAgrees p)
    (hfree : m.kind = 3 → ∀ f t, (m.tgt, f, t) ∈ castlingRookSquares →
      p.at t = 0 ∨ m.src = t ∨ p.at t = p.at f) : wfShape q = true := by
  obtain ⟨p4, p5, r4, a4, key, hs, hq⟩ := makeMove_stages K p q m h ha
  subst hq
  apply mmFinish_wfShape
  refine mmSpecial_agrees K p4 p5 m hs ?_ a4
  intro hk f t hft
  have hh := hfree hk f t hft
  simp only [castlingRookSquares, List.mem_cons, Prod.mk.injEq, List.mem_nil_iff, or_false] at hft
  have htne : t ≠ m.tgt := by omega
  have hfne : f ≠ m.tgt := by omega
  rw [key t htne, key f hfne]
  by_cases c1 : t = m.src
  · simp [c1]
  · by_cases c2 : f = m.src
    · simp [c2]
    · rw [if_neg c1, if_neg c2]
      rcases hh with hh | hh | hh
      · exact Or.inl hh
      · exact absurd hh.symm c1
      · exact Or.inr (Or.inl hh)

/-- the special step of a castling word is the hard-wired rook move -/
theorem mmSpecial_castle (K : Keys) (p q : Pos) (m : Move) (h : mmSpecial K p m = some q) (hk : m.kind = 3)
    (f t : Nat) (hft : (m.tgt, f, t) ∈ castlingRookSquares) : ∃ y, movePiece K p f t = some (q, y) := by
  have castle : ∀ f t, ((movePiece K p f t).bind fun x => some x.1) = some q →
      ∃ y, movePiece K p f t = some (q, y) := by
    intro f t hm
    cases h1 : movePiece K p f t with
    | none => simp [h1] at hm
    | some x =>
      obtain ⟨p1, pc⟩ := x
      simp only [h1, Option.bind_some, Option.some.injEq] at hm
      subst hm
      exact ⟨pc, rfl⟩
  simp only [castlingRookSquares, List.mem_cons, Prod.mk.injEq, List.mem_nil_iff, or_false] at hft
  unfold mmSpecial at h
  simp only [bind, pure, hk, if_true] at h
  rcases hft with ⟨e, rfl, rfl⟩ | ⟨e, rfl, rfl⟩ | ⟨e, rfl, rfl⟩ | ⟨e, rfl, rfl⟩
  all_goals (rw [e] at h; simp only [if_true, if_false, Nat.reduceEqDiff] at h; exact castle _ _ h)

theorem mmFinish_bb (K : Keys) (p : Pos) (r : Bool) :
    (mmFinish K p r).bb = p.bb ∧ (mmFinish K p r).board = p.board := ⟨rfl, rfl⟩

/-- the side condition of `makeMove_agrees_core` is necessary: if a castling word is executed and the
result is consistent, the rook's destination was empty, or the square the king left, or held the same
piece as the rook's square. -/
theorem makeMove_hfree_necessary (K : Keys) (p q : Pos) (m : Move) (h : makeMove K p m = some q)
    (ha : boardAgrees p) (hq : boardAgrees q) :
    m.kind = 3 → ∀ f t, (m.tgt, f, t) ∈ castlingRookSquares →
      p.at t = 0 ∨ m.src = t ∨ p.at t = p.at f := by
  intro hk f t hft
  obtain ⟨p4, p5, r4, a4, key, hs, hqq⟩ := makeMove_stages K p q m h ha
  obtain ⟨y, hmv⟩ := mmSpecial_castle K p4 p5 m hs hk f t hft
  obtain ⟨hf64, ht64, hy, hyv, at5⟩ := movePiece_at K p4 p5 f t y hmv
  have hft' := hft
  simp only [castlingRookSquares, List.mem_cons, Prod.mk.injEq, List.mem_nil_iff, or_false] at hft'
  have htne : t ≠ m.tgt := by omega
  have hfne : f ≠ m.tgt := by omega
  have hft_ne : t ≠ f := by omega
  by_cases c0 : p.at t = 0
  · exact Or.inl c0
  by_cases c1 : m.src = t
  · exact Or.inr (Or.inl c1)
  refine Or.inr (Or.inr ?_)
  have e4t : p4.at t = p.at t := by rw [key t htne, if_neg (fun hh => c1 hh.symm)]
  -- the piece standing on `t` keeps its bit through the rook move
  have hvx : validPiece (p4.at t) = true := by
    rcases (a4 t ht64).1 with h0 | h0
    · rw [e4t] at h0; exact absurd h0 c0
    · exact h0
  obtain ⟨hc', ht', hx, _⟩ := validPiece_cases hvx
  have hbit : (p4.pieces (pieceColor (p4.at t)) (pieceType (p4.at t))).getLsbD t = true :=
    ((a4 t ht64).2 _ _ hc' ht').2 hx
  have hbit5 := movePiece_pieces_keep K p4 p5 f t y hmv _ _ t hft_ne hbit
  -- in `q` the board says `y` on `t`
  have eq_bb := mmFinish_bb K p5 r4
  rw [← hqq] at eq_bb
  have hqbit : (q.pieces (pieceColor (p4.at t)) (pieceType (p4.at t))).getLsbD t = true := by
    simp only [Pos.pieces, eq_bb.1]; exact hbit5
  have hqat : q.at t = y := by
    rw [at_congr eq_bb.2, at5 t]; simp
  have := ((hq t ht64).2 _ _ hc' ht').1 hqbit
  rw [hqat, ← hx, e4t] at this
  -- and `y` is the piece of the rook's square
  by_cases c2 : f = m.src
  · rw [hy, key f hfne, if_pos c2] at hyv
    rw [not_validPiece_zero] at hyv
    exact absurd hyv (by simp)
  · rw [← this, hy, key f hfne, if_neg c2]

end LBV
end Clemens
