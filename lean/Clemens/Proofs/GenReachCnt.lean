import Clemens.Proofs.MakeMove
/-
P04m, part 1: `makeMove` does not read the two counters `ply` and `hmc` (except to increment them).

`setCnt p a b` is `p` with the counters replaced.  Every stage of `makeMove` commutes with `setCnt`; the last stage writes
`(a + 1) % 256` and `0` or `(b + 1) % 256`.  This lets the theorems that were proved "within the counter range"
(`ply < 255`, `hmc < 255`: `LG.WF_succ`, `LG.succ_exists`) be used at the counter limits: replace the counters, make the move,
put the counters back.
-/
namespace Clemens
namespace GR

/-- the position with its two counters replaced -/
def setCnt (p : Pos) (a b : Nat) : Pos := { p with ply := a, hmc := b }

theorem setCnt_self (p : Pos) : setCnt p p.ply p.hmc = p := rfl

/-- lift over the result of a stage returning a position and something else -/
def liftP {β : Type} (a b : Nat) : Pos × β → Pos × β := fun r => (setCnt r.1 a b, r.2)

theorem clearEp_setCnt (K : Keys) (p : Pos) (a b : Nat) : clearEp K (setCnt p a b) = setCnt (clearEp K p) a b := by
  unfold clearEp
  have e : (setCnt p a b).ep = p.ep := rfl
  rw [e]
  by_cases hc : (p.ep != 64) = true
  · rw [if_pos hc, if_pos hc]; rfl
  · rw [if_neg hc, if_neg hc]

theorem deletePiece_setCnt (K : Keys) (p : Pos) (a b s : Nat) :
    deletePiece K (setCnt p a b) s = (deletePiece K p s).map (liftP a b) := by
  have e : (setCnt p a b).at s = p.at s := rfl
  unfold deletePiece
  simp only [e]
  by_cases hc : (decide (s < 64) && validPiece (p.at s)) = true
  · rw [if_pos hc, if_pos hc]; rfl
  · rw [if_neg hc, if_neg hc]; rfl

theorem setPiece_setCnt (K : Keys) (p : Pos) (a b pc s : Nat) :
    setPiece K (setCnt p a b) pc s = (setPiece K p pc s).map (fun q => setCnt q a b) := by
  unfold setPiece
  by_cases hc : (decide (s < 64) && validPiece pc) = true
  · rw [if_pos hc, if_pos hc]; rfl
  · rw [if_neg hc, if_neg hc]; rfl

theorem movePiece_setCnt (K : Keys) (p : Pos) (a b f t : Nat) :
    movePiece K (setCnt p a b) f t = (movePiece K p f t).map (liftP a b) := by
  unfold movePiece
  rw [deletePiece_setCnt]
  cases h1 : deletePiece K p f with
  | none => rfl
  | some r =>
    obtain ⟨p1, pc⟩ := r
    show (setPiece K (setCnt p1 a b) pc t >>= fun q => pure (q, pc)) = _
    rw [setPiece_setCnt]
    cases h2 : setPiece K p1 pc t with
    | none => simp [h2, bind, Option.bind]
    | some p2 => simp [h2, bind, Option.bind, liftP, pure]

theorem removeCastling_setCnt (K : Keys) (p : Pos) (a b c i : Nat) :
    removeCastling K (setCnt p a b) c i = setCnt (removeCastling K p c i) a b := by
  unfold removeCastling
  have e : (setCnt p a b).castling = p.castling := rfl
  rw [e]
  by_cases hc : (p.castling &&& c == 0) = true
  · rw [if_pos hc, if_pos hc]
  · rw [if_neg hc, if_neg hc]; rfl

theorem touchSquare_setCnt (K : Keys) (p : Pos) (a b s : Nat) :
    touchSquare K (setCnt p a b) s = setCnt (touchSquare K p s) a b := by
  unfold touchSquare
  simp only [removeCastling_setCnt]
  repeat' split
  all_goals rfl

theorem stCapture_setCnt (K : Keys) (p : Pos) (a b t : Nat) :
    stCapture K (setCnt p a b) t = (stCapture K p t).map (liftP a b) := by
  unfold stCapture
  have e : (setCnt p a b).at t = p.at t := rfl
  rw [e]
  split
  · rw [deletePiece_setCnt]
    cases h1 : deletePiece K p t with
    | none => rfl
    | some r => rfl
  · rfl

theorem stPawn_setCnt (K : Keys) (p : Pos) (a b piece src tgt : Nat) (r : Bool) :
    stPawn K (setCnt p a b) piece src tgt r = (stPawn K p piece src tgt r).map (liftP a b) := by
  unfold stPawn
  dsimp only
  have e : (setCnt p a b).side = p.side := rfl
  split
  · split
    · rw [e]
      split
      · rfl
      · split <;> rfl
    · rfl
  · rfl

theorem stKind_setCnt (K : Keys) (p : Pos) (a b : Nat) (m : Move) :
    stKind K (setCnt p a b) m = (stKind K p m).map (fun q => setCnt q a b) := by
  unfold stKind
  dsimp only
  have mv : ∀ f t, (do let (q, _) ← movePiece K (setCnt p a b) f t; pure q : Option Pos) =
      (do let (q, _) ← movePiece K p f t; pure q : Option Pos).map (fun q => setCnt q a b) := by
    intro f t
    rw [movePiece_setCnt]
    cases h1 : movePiece K p f t with
    | none => rfl
    | some r => rfl
  have e : (setCnt p a b).side = p.side := rfl
  split
  · repeat' split
    all_goals first
      | exact mv _ _
      | rfl
  · split
    · rw [e, deletePiece_setCnt]
      cases h1 : deletePiece K p (if p.side = 0 then (m.tgt + 248) % 256 else if p.side = 1 then (m.tgt + 8) % 256 else 0) with
      | none => rfl
      | some r => rfl
    · split
      · rw [deletePiece_setCnt]
        cases h1 : deletePiece K p m.tgt with
        | none => rfl
        | some r =>
          obtain ⟨p1, pc⟩ := r
          show setPiece K (setCnt p1 a b) (newPiece (setCnt p1 a b).side m.promo) m.tgt = _
          rw [setPiece_setCnt]
          rfl
      · rfl

theorem stFinish_setCnt (K : Keys) (p : Pos) (a b : Nat) (r : Bool) :
    stFinish K (setCnt p a b) r = setCnt (stFinish K p r) ((a + 1) % 256) (if r = true then 0 else (b + 1) % 256) := rfl

/-- `makeMove` commutes with replacing the counters: the successor only differs in the counters, which are
`(a + 1) % 256` and `0` (after a capture or a pawn move) or `(b + 1) % 256` -/
theorem makeMove_setCnt (K : Keys) (p q : Pos) (m : Move) (h : makeMove K p m = some q) :
    ∃ r : Bool, ∀ a b, makeMove K (setCnt p a b) m = some (setCnt q ((a + 1) % 256) (if r = true then 0 else (b + 1) % 256)) := by
  rw [makeMove_eq] at h
  simp only at h
  cases h1 : stCapture K (clearEp K p) m.tgt with
  | none => simp [h1] at h
  | some x1 =>
    obtain ⟨p1, r1⟩ := x1
    cases h2 : movePiece K (touchSquare K (touchSquare K p1 m.src) m.tgt) m.src m.tgt with
    | none => simp [h1, h2] at h
    | some x2 =>
      obtain ⟨p3, piece⟩ := x2
      cases h3 : stPawn K p3 piece m.src m.tgt r1 with
      | none => simp [h1, h2, h3] at h
      | some x3 =>
        obtain ⟨p4, r2⟩ := x3
        cases h4 : stKind K p4 m with
        | none => simp [h1, h2, h3, h4] at h
        | some p5 =>
          simp [h1, h2, h3, h4] at h
          refine ⟨r2, fun a b => ?_⟩
          rw [makeMove_eq]
          simp only [clearEp_setCnt, stCapture_setCnt, h1, Option.map_some, liftP, Option.bind_eq_bind, Option.bind_some,
            touchSquare_setCnt, movePiece_setCnt, h2, stPawn_setCnt, h3, stKind_setCnt, h4, stFinish_setCnt, h, pure]

/-- the counters of a successor are in `uint8` range -/
theorem makeMove_counters_lt (K : Keys) (p q : Pos) (m : Move) (h : makeMove K p m = some q) : q.ply < 256 ∧ q.hmc < 256 := by
  obtain ⟨r, hr⟩ := makeMove_setCnt K p q m h
  have h2 := hr p.ply p.hmc
  rw [setCnt_self, h] at h2
  injection h2 with h2
  constructor
  · have : q.ply = (p.ply + 1) % 256 := by rw [h2]; rfl
    omega
  · have : q.hmc = if r = true then 0 else (p.hmc + 1) % 256 := by rw [h2]; rfl
    rw [this]; split <;> omega

end GR
end Clemens
