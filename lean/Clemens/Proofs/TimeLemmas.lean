import Clemens.Model.Time
/-
Lemmas about `calculateTime` (C08).
-/
namespace Clemens

/-- `calculateTime` written over the three quantities it really depends on. -/
def calcCore (t inc mt plys : Int) : Int :=
  let remainingMoves := max (60 - plys.tdiv 2) 20
  let movetime :=
    if mt > 0 then mt
    else if t > 0 then min ((t + inc * remainingMoves).tdiv remainingMoves) maxTimeInMs
    else 1000
  let movetime := if t > 0 then min movetime t else movetime
  movetime - max (movetime.tdiv 10) 50

theorem calculateTime_eq_core' (side : Nat) (plys : Int) (sp : SearchParams) :
    calculateTime side plys sp =
      calcCore (if side = 1 then sp.btime else sp.wtime) (if side = 1 then sp.binc else sp.winc) sp.moveTime plys := rfl

/-- the final step never returns more than `m - 50` -/
theorem final_le (m : Int) : m - max (m.tdiv 10) 50 ≤ m - 50 := by omega

theorem calcCore_le_clock_sub_50 (t inc mt plys : Int) (h : 0 < t) : calcCore t inc mt plys ≤ t - 50 := by
  unfold calcCore
  simp only [h, if_true, gt_iff_lt]
  generalize (if 0 < mt then mt else min ((t + inc * max (60 - plys.tdiv 2) 20).tdiv (max (60 - plys.tdiv 2) 20)) maxTimeInMs) = m
  have := final_le (min m t)
  omega

theorem calcCore_lt_movetime (t inc mt plys : Int) (h : 0 < mt) : calcCore t inc mt plys < mt := by
  unfold calcCore
  simp only [h, if_true, gt_iff_lt]
  split
  · have := final_le (min mt t); omega
  · have := final_le mt; omega

end Clemens

namespace Clemens

theorem mul_bound (inc rm B : Int) (hB : -B < inc ∧ inc < B) (hrm : 20 ≤ rm ∧ rm ≤ 60) :
    -(60 * B) < inc * rm ∧ inc * rm < 60 * B := by
  have hBpos : 0 < B := by omega
  rcases Int.le_total 0 inc with h | h
  · have h1 : inc * rm ≤ inc * 60 := Int.mul_le_mul_of_nonneg_left hrm.2 h
    have h2 : 0 ≤ inc * rm := Int.mul_nonneg h (by omega)
    omega
  · have h1 : inc * 60 ≤ inc * rm := Int.mul_le_mul_of_nonpos_left h hrm.2
    have h2 : inc * rm ≤ 0 := Int.mul_nonpos_of_nonpos_of_nonneg h (by omega)
    omega

theorem tdiv_bound (a b B : Int) (h : -B < a ∧ a < B) : -B < a.tdiv b ∧ a.tdiv b < B := by
  have := Int.natAbs_tdiv_le_natAbs a b
  omega

/-- bounds form of `budget_no_overflow` -/
theorem calcCore_bounds (t inc mt plys : Int)
    (hp : 0 ≤ plys ∧ plys < 2^40) (ht : -(2^40) < t ∧ t < 2^40) (hi : -(2^40) < inc ∧ inc < 2^40)
    (hm : -(2^40) < mt ∧ mt < 2^40) :
    let rm := max (60 - plys.tdiv 2) 20
    (-(2^62) < t + inc * rm ∧ t + inc * rm < 2^62) ∧ (-(2^62) < calcCore t inc mt plys ∧ calcCore t inc mt plys < 2^62) := by
  intro rm
  have hrm : 20 ≤ rm ∧ rm ≤ 60 := by
    have : plys.tdiv 2 = plys / 2 := Int.tdiv_eq_ediv_of_nonneg hp.1
    simp only [rm, this]; omega
  have hmul := mul_bound inc rm (2^40) hi hrm
  have hX : -(61 * 2^40) < t + inc * rm ∧ t + inc * rm < 61 * 2^40 := by omega
  refine ⟨by omega, ?_⟩
  have hdiv := tdiv_bound (t + inc * rm) rm (61 * 2^40) hX
  unfold calcCore
  simp only [show max (60 - plys.tdiv 2) 20 = rm from rfl, maxTimeInMs]
  generalize (t + inc * rm).tdiv rm = d at hdiv
  generalize hm0 : (if mt > 0 then mt else if t > 0 then min d 1000000 else 1000) = m0
  generalize hm1 : (if t > 0 then min m0 t else m0) = m1
  have h10 := Int.natAbs_tdiv_le_natAbs m1 10
  have hm0b : -(61 * 2^40) < m0 ∧ m0 < 61 * 2^40 := by
    subst hm0; split
    · omega
    · split <;> omega
  have hm1b : -(61 * 2^40) < m1 ∧ m1 < 61 * 2^40 := by
    subst hm1; split <;> omega
  omega

end Clemens
