import Clemens.Proofs.MagicRook0
import Clemens.Proofs.MagicRook1
import Clemens.Proofs.MagicRook2
import Clemens.Proofs.MagicRook3
import Clemens.Proofs.MagicRook4
import Clemens.Proofs.MagicRook5
import Clemens.Proofs.MagicRook6
import Clemens.Proofs.MagicRook7
import Clemens.Proofs.MagicBishop
/-
C12b: the per-square kernel facts collected into `∀ s < 64`, and the lookup theorems for the two global tables.
-/
namespace Clemens

theorem rook_check (s : Nat) (hs : s < 64) : magicCheck (rookMagic s) = true := by
  apply all_of_ranks (fun s => magicCheck (rookMagic s)) _ s hs
  intro k hk
  have : k = 0 ∨ k = 1 ∨ k = 2 ∨ k = 3 ∨ k = 4 ∨ k = 5 ∨ k = 6 ∨ k = 7 := by omega
  rcases this with rfl | rfl | rfl | rfl | rfl | rfl | rfl | rfl
  · exact rook_check_rank0
  · exact rook_check_rank1
  · exact rook_check_rank2
  · exact rook_check_rank3
  · exact rook_check_rank4
  · exact rook_check_rank5
  · exact rook_check_rank6
  · exact rook_check_rank7

theorem rookAttacks_eq_walker' (s : Nat) (hs : s < 64) (occ : BB) :
    rookAttacks s occ = rookWalker s (occ &&& magicMask rookWalker s) := by
  unfold rookAttacks rookTables
  rw [tables_getD _ s hs, lookup_of_check rookWalker s _ (rook_check s hs), rook_mask_eq s hs]

theorem bishopAttacks_eq_walker' (s : Nat) (hs : s < 64) (occ : BB) :
    bishopAttacks s occ = bishopWalker s (occ &&& magicMask bishopWalker s) := by
  unfold bishopAttacks bishopTables
  rw [tables_getD _ s hs, lookup_of_check bishopWalker s _ (bishop_check s hs), bishop_mask_eq s hs]

end Clemens
