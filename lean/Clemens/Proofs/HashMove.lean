import Clemens.Proofs.Hash
/-
C09 lemmas: null move and `MakeMove`.
-/
namespace Clemens

/-! ### the side conditions of `makeMove_hash` (property-level definitions) -/

/-- the square the rook lands on in a castling move with king target `tgt` -/
def rookTarget (tgt : Nat) : Nat := if tgt = 2 then 3 else if tgt = 6 then 5 else if tgt = 58 then 59 else 61

/-- the four king targets `MakeMove` accepts in a castling move (c1, g1, c8, g8) -/
def CastlingTarget (tgt : Nat) : Prop := tgt = 2 ∨ tgt = 6 ∨ tgt = 58 ∨ tgt = 62

theorem rookTarget_ne {tgt : Nat} (h : CastlingTarget tgt) : rookTarget tgt ≠ tgt := by
  rcases h with rfl | rfl | rfl | rfl <;> decide

/-- side condition 1 of `makeMove_hash`: in a castling move the rook's destination is empty
(or is vacated by the move itself) -/
def RookTargetFree (p : Pos) (m : Move) : Prop :=
  m.kind = 3 → CastlingTarget m.tgt → p.at (rookTarget m.tgt) = 0 ∨ m.src = rookTarget m.tgt

/-- side condition 2 of `makeMove_hash`: the move is not a *black* "double push" a6-a8 (40 → 56).  For that move the
en passant square becomes `56 + 8 = 64 = SQUARE_NONE`, while the incremental hash has the key of file a xor-ed in. -/
def EpTargetOK (p : Pos) (m : Move) : Prop :=
  ¬(p.side = 1 ∧ m.src = 40 ∧ m.tgt = 56 ∧ pieceType (p.at 40) = PAWN)

end Clemens

namespace Clemens.Hash

theorem sideHash_switch (K : Keys) (s : Nat) : sideHash K (switchColor s) = sideHash K s ^^^ K.side := by
  unfold sideHash switchColor
  by_cases h : s = 1 <;> simp [h]

@[simp] theorem epHash_none (K : Keys) : epHash K 64 = 0#64 := by simp [epHash]

theorem epHash_some (K : Keys) (ep : Nat) (h : ep ≠ 64) : epHash K ep = K.ep (fileOf ep) := by
  simp [epHash, h]

/-- the first step of `MakeMove` / `MakeNullMove`: forget the en passant square -/
def clearEp (K : Keys) (p : Pos) : Pos :=
  if p.ep != 64 then { p with hash := p.hash ^^^ K.ep (fileOf p.ep), ep := 64 } else p

theorem clearEp_hash_eq (K : Keys) (p : Pos) (hok : p.hash = fullHash K p) : (clearEp K p).hash = fullHash K (clearEp K p) := by
  unfold clearEp
  split
  · rename_i h
    simp only [bne_iff_ne, ne_eq] at h
    simp only [fullHash_eq] at hok ⊢
    rw [hok, epHash_some K _ h, epHash_none, BitVec.xor_zero, xor_cancel_right]
  · exact hok

theorem clearEp_frame (K : Keys) (p : Pos) :
    (clearEp K p).board = p.board ∧ (clearEp K p).side = p.side ∧ (clearEp K p).castling = p.castling ∧ (clearEp K p).ep = 64 := by
  unfold clearEp
  split
  · exact ⟨rfl, rfl, rfl, rfl⟩
  · rename_i h
    simp only [bne_iff_ne, ne_eq, Decidable.not_not] at h
    exact ⟨rfl, rfl, rfl, h⟩

/-- the last hash-relevant step of `MakeMove` / `MakeNullMove`: the other side is to move -/
theorem switchSide_hash_eq (K : Keys) (p q : Pos) (hb : q.board = p.board) (hs : q.side = switchColor p.side)
    (hc : q.castling = p.castling) (he : q.ep = p.ep) (hh : q.hash = p.hash ^^^ K.side)
    (hok : p.hash = fullHash K p) : q.hash = fullHash K q := by
  simp only [fullHash_eq] at hok ⊢
  rw [hh, hb, hs, hc, he, hok, sideHash_switch]
  ac_rfl

theorem makeNull_hash_eq (K : Keys) (p : Pos) (hok : p.hash = fullHash K p) :
    (makeNull K p).1.hash = fullHash K (makeNull K p).1 := by
  have h1 : ({ p with ply := (p.ply + 1) % 256 } : Pos).hash = fullHash K { p with ply := (p.ply + 1) % 256 } := by
    simp only [fullHash_eq] at hok ⊢; exact hok
  have h2 := clearEp_hash_eq K _ h1
  exact switchSide_hash_eq K (clearEp K { p with ply := (p.ply + 1) % 256 }) (makeNull K p).1 rfl rfl rfl rfl rfl h2

theorem switchColor_switchColor (s : Nat) (h : s < 2) : switchColor (switchColor s) = s := by
  have : s = 0 ∨ s = 1 := by omega
  rcases this with rfl | rfl <;> rfl

theorem xor4_cancel (a e s : BB) : a ^^^ e ^^^ s ^^^ e ^^^ s = a := by
  have : a ^^^ e ^^^ s ^^^ e ^^^ s = a ^^^ (e ^^^ e) ^^^ (s ^^^ s) := by ac_rfl
  rw [this]; simp

theorem unmakeNull_makeNull_eq (K : Keys) (p : Pos) (hside : p.side < 2) (hply : p.ply < 256) :
    unmakeNull K (makeNull K p).1 (makeNull K p).2 = p := by
  have hp : ((p.ply + 1) % 256 + 255) % 256 = p.ply := by omega
  unfold unmakeNull makeNull
  by_cases h : p.ep = 64
  · simp [h, hp, switchColor_switchColor _ hside, xor_cancel_right]
    cases p; simp_all
  · simp [h, hp, switchColor_switchColor _ hside, xor4_cancel]

/-! ### `MakeMove` in stages -/

def mmCapture (K : Keys) (p : Pos) (tgt : Nat) : Option (Pos × Bool) :=
  if p.at tgt != 0 then (deletePiece K p tgt).bind fun x => some (x.1, true) else some (p, false)

def mmPawn (K : Keys) (p : Pos) (piece src tgt : Nat) (reset : Bool) : Option (Pos × Bool) :=
  if pieceType piece = PAWN then
    if absDiff src tgt % 256 = 16 then
      if p.side = 1 then some ({ p with ep := (tgt + 8) % 256, hash := p.hash ^^^ K.ep (fileOf tgt) }, true)
      else if p.side = 0 then some ({ p with ep := (tgt + 248) % 256, hash := p.hash ^^^ K.ep (fileOf tgt) }, true)
      else none
    else some (p, true)
  else some (p, reset)

def mmSpecial (K : Keys) (p : Pos) (m : Move) : Option Pos :=
  if m.kind = 3 then
    if m.tgt = 2 then (movePiece K p 0 3).bind fun x => some x.1
    else if m.tgt = 6 then (movePiece K p 7 5).bind fun x => some x.1
    else if m.tgt = 58 then (movePiece K p 56 59).bind fun x => some x.1
    else if m.tgt = 62 then (movePiece K p 63 61).bind fun x => some x.1
    else none
  else if m.kind = 2 then
    (deletePiece K p (if p.side = 0 then (m.tgt + 248) % 256 else if p.side = 1 then (m.tgt + 8) % 256 else 0)).bind fun x => some x.1
  else if m.kind = 1 then
    (deletePiece K p m.tgt).bind fun x => setPiece K x.1 (newPiece x.1.side m.promo) m.tgt
  else some p

def mmFinish (K : Keys) (p : Pos) (reset : Bool) : Pos :=
  helperBitboards { p with ply := (p.ply + 1) % 256, side := switchColor p.side, hash := p.hash ^^^ K.side,
                           hmc := if reset then 0 else (p.hmc + 1) % 256 }

/-- `makeMove` is the composition of its stages -/
theorem makeMove_eq (K : Keys) (p : Pos) (m : Move) :
    makeMove K p m =
      (mmCapture K (clearEp K p) m.tgt).bind fun x =>
      (movePiece K (touchSquare K (touchSquare K x.1 m.src) m.tgt) m.src m.tgt).bind fun y =>
      (mmPawn K y.1 y.2 m.src m.tgt x.2).bind fun z =>
      (mmSpecial K z.1 m).bind fun w => some (mmFinish K w z.2) := by
  have ite_bind : ∀ {α β : Type} (c : Prop) [Decidable c] (a b : Option α) (f : α → Option β),
      (if c then a else b).bind f = if c then a.bind f else b.bind f := by
    intros; split <;> rfl
  unfold makeMove mmCapture mmPawn mmSpecial mmFinish clearEp
  simp (config := {maxSteps := 2000000}) only [Option.bind_eq_bind, Option.pure_def, ite_bind, Option.bind_some, Option.bind_none,
    Option.bind_assoc]

theorem move_tgt_lt (m : Move) : m.tgt < 64 := by
  unfold Move.tgt
  exact Nat.lt_succ_of_le Nat.and_le_right

theorem move_src_lt (m : Move) : m.src < 64 := by
  unfold Move.src
  exact Nat.lt_succ_of_le Nat.and_le_right

theorem mmCapture_spec (K : Keys) (p r : Pos) (tgt : Nat) (b : Bool) (h : mmCapture K p tgt = some (r, b))
    (hok : p.hash = fullHash K p) :
    r.hash = fullHash K r ∧ (∀ s, r.at s = if s = tgt then 0 else p.at s) ∧ r.side = p.side ∧ r.ep = p.ep := by
  unfold mmCapture at h
  split at h
  · simp only [Option.bind_eq_some_iff, Option.some.injEq, Prod.mk.injEq] at h
    obtain ⟨⟨r', pc⟩, hd, rfl, rfl⟩ := h
    obtain ⟨hs, _, _, hb, hside, _, hep⟩ := deletePiece_some K p r' tgt pc hd
    refine ⟨deletePiece_hash_eq K p r' tgt pc hd hok, ?_, hside, hep⟩
    intro s
    simp only [Pos.at, hb]
    split
    · rename_i e; subst e; exact vget_vset_self _ _ _ _ hs
    · rename_i e; exact vget_vset_ne _ _ _ _ _ e
  · rename_i hz
    simp only [bne_iff_ne, ne_eq, Decidable.not_not] at hz
    simp only [Option.some.injEq, Prod.mk.injEq] at h
    obtain ⟨rfl, rfl⟩ := h
    refine ⟨hok, ?_, rfl, rfl⟩
    intro s
    split
    · rename_i e; subst e; exact hz
    · rfl

theorem movePiece_spec (K : Keys) (p q : Pos) (f t pc : Nat) (h : movePiece K p f t = some (q, pc)) :
    pc = p.at f ∧ validPiece pc = true ∧ f < 64 ∧ t < 64 ∧
    (∀ s, q.at s = if s = t then pc else if s = f then 0 else p.at s) ∧ q.side = p.side ∧ q.ep = p.ep := by
  obtain ⟨r, h1, h2⟩ := movePiece_some K p q f t pc h
  obtain ⟨hf, hpc, hv, hb, hside, _, hep⟩ := deletePiece_some K p r f pc h1
  obtain ⟨ht, _, hb', hside', _, hep'⟩ := setPiece_some K r q pc t h2
  refine ⟨hpc, hv, hf, ht, ?_, hside'.trans hside, hep'.trans hep⟩
  intro s
  simp only [Pos.at, hb', hb]
  split
  · rename_i e; subst e; exact vget_vset_self _ _ _ _ ht
  · rename_i e
    rw [vget_vset_ne _ _ _ _ _ e]
    split
    · rename_i e'; subst e'; exact vget_vset_self _ _ _ _ hf
    · rename_i e'; exact vget_vset_ne _ _ _ _ _ e'

theorem epHash_push_black (K : Keys) (tgt : Nat) (ht : tgt < 64) (h56 : tgt ≠ 56) :
    epHash K ((tgt + 8) % 256) = K.ep (fileOf tgt) := by
  rw [epHash_some K _ (by omega)]
  congr 1
  unfold fileOf
  omega

theorem epHash_push_white (K : Keys) (tgt : Nat) (ht : tgt < 64) :
    epHash K ((tgt + 248) % 256) = K.ep (fileOf tgt) := by
  rw [epHash_some K _ (by omega)]
  congr 1
  unfold fileOf
  omega

theorem mmPawn_spec (K : Keys) (p z : Pos) (piece src tgt : Nat) (reset b : Bool)
    (h : mmPawn K p piece src tgt reset = some (z, b)) (hep : p.ep = 64) (ht : tgt < 64)
    (hside : ¬(pieceType piece = PAWN ∧ absDiff src tgt % 256 = 16 ∧ p.side = 1 ∧ tgt = 56))
    (hok : p.hash = fullHash K p) :
    z.hash = fullHash K z ∧ z.board = p.board ∧ z.side = p.side := by
  unfold mmPawn at h
  split at h
  · rename_i hp
    split at h
    · rename_i hd
      split at h
      · rename_i hs
        have h56 : tgt ≠ 56 := fun e => hside ⟨hp, hd, hs, e⟩
        simp only [Option.some.injEq, Prod.mk.injEq] at h
        obtain ⟨rfl, rfl⟩ := h
        refine ⟨?_, rfl, rfl⟩
        simp only [fullHash_eq] at hok ⊢
        rw [epHash_push_black K tgt ht h56, hok, hep, epHash_none]
        simp only [BitVec.xor_zero]
      · split at h
        · simp only [Option.some.injEq, Prod.mk.injEq] at h
          obtain ⟨rfl, rfl⟩ := h
          refine ⟨?_, rfl, rfl⟩
          simp only [fullHash_eq] at hok ⊢
          rw [epHash_push_white K tgt ht, hok, hep, epHash_none]
          simp only [BitVec.xor_zero]
        · exact absurd h (by simp)
    · simp only [Option.some.injEq, Prod.mk.injEq] at h
      obtain ⟨rfl, rfl⟩ := h
      exact ⟨hok, rfl, rfl⟩
  · simp only [Option.some.injEq, Prod.mk.injEq] at h
    obtain ⟨rfl, rfl⟩ := h
    exact ⟨hok, rfl, rfl⟩

theorem mmSpecial_spec (K : Keys) (p w : Pos) (m : Move) (h : mmSpecial K p m = some w)
    (hrook : m.kind = 3 → CastlingTarget m.tgt → p.at (rookTarget m.tgt) = 0)
    (hok : p.hash = fullHash K p) : w.hash = fullHash K w := by
  unfold mmSpecial at h
  split at h
  · rename_i hk
    have hr := hrook hk
    split at h
    · rename_i ht
      simp only [Option.bind_eq_some_iff, Option.some.injEq] at h
      obtain ⟨⟨w', pc⟩, hm, rfl⟩ := h
      exact movePiece_hash_eq K p w' 0 3 pc hm (Or.inl (by simpa [rookTarget, ht] using hr (Or.inl ht))) hok
    · split at h
      · rename_i ht
        simp only [Option.bind_eq_some_iff, Option.some.injEq] at h
        obtain ⟨⟨w', pc⟩, hm, rfl⟩ := h
        exact movePiece_hash_eq K p w' 7 5 pc hm (Or.inl (by simpa [rookTarget, ht] using hr (Or.inr (Or.inl ht)))) hok
      · split at h
        · rename_i ht
          simp only [Option.bind_eq_some_iff, Option.some.injEq] at h
          obtain ⟨⟨w', pc⟩, hm, rfl⟩ := h
          exact movePiece_hash_eq K p w' 56 59 pc hm (Or.inl (by simpa [rookTarget, ht] using hr (Or.inr (Or.inr (Or.inl ht))))) hok
        · split at h
          · rename_i ht
            simp only [Option.bind_eq_some_iff, Option.some.injEq] at h
            obtain ⟨⟨w', pc⟩, hm, rfl⟩ := h
            exact movePiece_hash_eq K p w' 63 61 pc hm (Or.inl (by simpa [rookTarget, ht] using hr (Or.inr (Or.inr (Or.inr ht))))) hok
          · exact absurd h (by simp)
  · split at h
    · simp only [Option.bind_eq_some_iff, Option.some.injEq] at h
      obtain ⟨⟨w', pc⟩, hd, rfl⟩ := h
      exact deletePiece_hash_eq K p w' _ pc hd hok
    · split at h
      · simp only [Option.bind_eq_some_iff] at h
        obtain ⟨⟨r, pc⟩, hd, hs⟩ := h
        have hr := deletePiece_hash_eq K p r _ pc hd hok
        obtain ⟨hlt, _, _, hb, _⟩ := deletePiece_some K p r _ pc hd
        refine setPiece_hash_eq K r w _ _ hs ?_ hr
        simp only [Pos.at, hb]
        exact vget_vset_self _ _ _ _ hlt
      · simp only [Option.some.injEq] at h
        subst h
        exact hok

theorem mmFinish_hash_eq (K : Keys) (p : Pos) (reset : Bool) (hok : p.hash = fullHash K p) :
    (mmFinish K p reset).hash = fullHash K (mmFinish K p reset) :=
  switchSide_hash_eq K p (mmFinish K p reset) rfl rfl rfl rfl rfl hok

theorem at_congr {p q : Pos} (h : q.board = p.board) (s : Nat) : q.at s = p.at s := by
  simp only [Pos.at, h]

theorem makeMove_hash_eq (K : Keys) (p q : Pos) (m : Move) (h : makeMove K p m = some q) (hok : p.hash = fullHash K p)
    (hfree : RookTargetFree p m) (hepok : EpTargetOK p m) : q.hash = fullHash K q := by
  rw [makeMove_eq] at h
  simp only [Option.bind_eq_some_iff, Option.some.injEq] at h
  obtain ⟨⟨r, b0⟩, hcap, ⟨y1, pc⟩, hmv, ⟨z1, b1⟩, hpawn, w, hspec, rfl⟩ := h
  simp only at hmv hpawn hspec ⊢
  have hp0 := clearEp_hash_eq K p hok
  obtain ⟨f0b, f0s, _, f0e⟩ := clearEp_frame K p
  obtain ⟨hr, rat, rside, rep⟩ := mmCapture_spec K _ r m.tgt b0 hcap hp0
  have ht1 := touchSquare_hash_eq K r m.src hr
  have ht2 := touchSquare_hash_eq K _ m.tgt ht1
  obtain ⟨g1b, g1s, g1e⟩ := touchSquare_frame K r m.src
  obtain ⟨g2b, g2s, g2e⟩ := touchSquare_frame K (touchSquare K r m.src) m.tgt
  have tat : ∀ s, (touchSquare K (touchSquare K r m.src) m.tgt).at s = if s = m.tgt then 0 else p.at s := by
    intro s
    rw [at_congr (g2b.trans g1b) s, rat s, at_congr f0b s]
  obtain ⟨hpc, hv, _, _, yat, yside, yep⟩ := movePiece_spec K _ y1 m.src m.tgt pc hmv
  have hy1 : y1.hash = fullHash K y1 := by
    refine movePiece_hash_eq K _ y1 m.src m.tgt pc hmv (Or.inl ?_) ht2
    rw [tat]; simp
  have hpc0 := validPiece_ne_zero hv
  have hsrc : m.src ≠ m.tgt ∧ pc = p.at m.src := by
    rw [tat] at hpc
    by_cases e : m.src = m.tgt
    · rw [if_pos e] at hpc; exact absurd hpc hpc0
    · rw [if_neg e] at hpc; exact ⟨e, hpc⟩
  have y1side : y1.side = p.side := by rw [yside, g2s, g1s, rside, f0s]
  have y1ep : y1.ep = 64 := by rw [yep, g2e, g1e, rep, f0e]
  obtain ⟨hz1, zb, _⟩ := mmPawn_spec K y1 z1 pc m.src m.tgt b0 b1 hpawn y1ep (move_tgt_lt m) (by
    rintro ⟨hP, hd, hs, h56⟩
    apply hepok
    have hlt := (move_src_lt m)
    have h40 : m.src = 40 := by
      rw [h56] at hd
      unfold absDiff at hd
      split at hd <;> omega
    refine ⟨y1side ▸ hs, h40, h56, ?_⟩
    rw [← h40, ← hsrc.2]; exact hP) hy1
  have hw := mmSpecial_spec K z1 w m hspec (by
    intro hk hct
    have hne := rookTarget_ne hct
    rw [at_congr zb, yat, if_neg hne]
    split
    · rfl
    · rename_i hns
      rw [tat, if_neg hne]
      rcases hfree hk hct with h0 | h0
      · exact h0
      · exact absurd h0.symm hns) hz1
  exact mmFinish_hash_eq K w b1 hw

end Clemens.Hash
