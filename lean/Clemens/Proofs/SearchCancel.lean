import Clemens.Proofs.SearchFrame
/-
Lemma library for C05 (cancellation, depth bound, termination of the iteration loop).
-/
namespace Clemens
namespace SearchLemmas

/-! ### entering a node after the cancellation -/

theorem poll_of_cancelled (s : SState) (h : Cancelled s) : poll s = (.cancelled, { s with polls := s.polls + 1 }) := by
  rcases poll_ok_or s with ⟨_, hc⟩ | ⟨h2, _⟩
  · obtain ⟨k, hk, hle⟩ := h
    have := hc k hk
    omega
  · exact h2

theorem cancelled_mono {s s' : SState} (h : Cancelled s) (h1 : s'.cancelAt = s.cancelAt) (h2 : s.polls ≤ s'.polls) : Cancelled s' := by
  obtain ⟨k, hk, hle⟩ := h
  exact ⟨k, by rw [h1]; exact hk, by omega⟩

theorem poll_cancelled (s : SState) (h : Cancelled s) : (poll s).1 = .cancelled ∧ Cancelled (poll s).2 := by
  rw [poll_of_cancelled s h]
  exact ⟨rfl, cancelled_mono h rfl (Nat.le_succ _)⟩

theorem negamax_after_cancel (K : Keys) (fuel : Nat) (p : Pos) (alpha beta : Int) (depth ply : Nat) (canNull : Bool) (prev : Move)
    (s : SState) (h : Cancelled s) (hf : 0 < fuel) :
    negamax K fuel p alpha beta depth ply canNull prev s = (.cancelled, { s with polls := s.polls + 1 }) := by
  obtain ⟨f, rfl⟩ : ∃ f, fuel = f + 1 := ⟨fuel - 1, by omega⟩
  unfold negamax
  rw [bind_cancelled' poll _ s (by rw [poll_of_cancelled s h])]
  rw [poll_of_cancelled s h]

theorem quiescence_after_cancel (K : Keys) (fuel : Nat) (p : Pos) (alpha beta : Int) (ply : Nat)
    (s : SState) (h : Cancelled s) (hf : 0 < fuel) :
    quiescence K fuel p alpha beta ply s = (.cancelled, { s with polls := s.polls + 1, nodes := s.nodes + 1 }) := by
  obtain ⟨f, rfl⟩ : ∃ f, fuel = f + 1 := ⟨fuel - 1, by omega⟩
  unfold quiescence
  have hc : Cancelled (incNodes s) := cancelled_mono h rfl (Nat.le_refl _)
  rw [bind_ok _ _ s (incNodes s) () rfl]
  rw [bind_cancelled' poll _ _ (by rw [poll_of_cancelled _ hc])]
  rw [poll_of_cancelled _ hc]
  rfl

theorem cancelled_of_fr {s s' : SState} (h : Fr s .cancelled s') : Cancelled s' := by
  obtain ⟨a1, _, _, _, _, _, _, _, a9, _⟩ := h
  obtain ⟨c, hc, hlt⟩ := a9 rfl
  exact ⟨c, by rw [a1]; exact hc, by omega⟩

theorem holds_cancelled_state {α} {m : SM α} (hm : Holds m) (s : SState) (h : (m s).1 = .cancelled) : Cancelled (m s).2 := by
  have := hm s
  rw [h] at this
  exact cancelled_of_fr this

/-! ### the move loops stop at the first cancelled child -/

theorem pure_bind {α β} (a : α) (f : α → SM β) : (pure a >>= f) = f a := rfl

/-- `nmLoop` on a move that is played and searched: first legal move (full window) -/
theorem nmLoop_stop_first (K : Keys) (recur : NegaFn) (p : Pos) (beta : Int) (depth ply : Nat) (prev : Move) (fp : Bool)
    (m : Move) (rest : List Move) (st : LoopSt) (q : Pos) (s : SState)
    (hq : makeMove K p m = some q) (hl : isLegal q = true)
    (hp : (fp && !isCapture p m && m.kind != 1 && !isInCheck q q.side) = false)
    (h1 : st.legalMoves = 0)
    (hc : (recur q (w16 (-beta)) (w16 (-st.alpha)) (depth - 1) (ply + 1) true prev s).1 = .cancelled) :
    nmLoop K recur p beta depth ply prev fp (m :: rest) st s =
      (.cancelled, (recur q (w16 (-beta)) (w16 (-st.alpha)) (depth - 1) (ply + 1) true prev s).2) := by
  unfold nmLoop
  simp only [hq, hl, hp, h1]
  simp only [Bool.not_true, Bool.false_eq_true, if_false, Nat.zero_add, if_true]
  rw [bind_cancelled' _ _ s hc]

theorem nmLoop_stop_zw (K : Keys) (recur : NegaFn) (p : Pos) (beta : Int) (depth ply : Nat) (prev : Move) (fp : Bool)
    (m : Move) (rest : List Move) (st : LoopSt) (q : Pos) (s : SState)
    (hq : makeMove K p m = some q) (hl : isLegal q = true)
    (hp : (fp && !isCapture p m && m.kind != 1 && !isInCheck q q.side) = false)
    (h1 : st.legalMoves ≠ 0)
    (hc : (recur q (w16 (w16 (-st.alpha) - 1)) (w16 (-st.alpha)) (depth - 1) (ply + 1) true prev s).1 = .cancelled) :
    nmLoop K recur p beta depth ply prev fp (m :: rest) st s =
      (.cancelled, (recur q (w16 (w16 (-st.alpha) - 1)) (w16 (-st.alpha)) (depth - 1) (ply + 1) true prev s).2) := by
  unfold nmLoop
  have h1' : ¬ (st.legalMoves + 1 = 1) := by omega
  simp only [hq, hl, hp, h1']
  simp only [Bool.not_true, Bool.false_eq_true, if_false]
  rw [bind_cancelled' _ _ s hc]

theorem nmLoop_stop_research (K : Keys) (recur : NegaFn) (p : Pos) (beta : Int) (depth ply : Nat) (prev : Move) (fp : Bool)
    (m : Move) (rest : List Move) (st : LoopSt) (q : Pos) (s s1 : SState) (sc : Int) (cpv : Option (List Move))
    (hq : makeMove K p m = some q) (hl : isLegal q = true)
    (hp : (fp && !isCapture p m && m.kind != 1 && !isInCheck q q.side) = false)
    (h1 : st.legalMoves ≠ 0)
    (h0 : recur q (w16 (w16 (-st.alpha) - 1)) (w16 (-st.alpha)) (depth - 1) (ply + 1) true prev s = (.ok (sc, cpv), s1))
    (hs : w16 (-sc) > st.alpha)
    (hc : (recur q (w16 (-beta)) (w16 (-st.alpha)) (depth - 1) (ply + 1) true prev s1).1 = .cancelled) :
    nmLoop K recur p beta depth ply prev fp (m :: rest) st s =
      (.cancelled, (recur q (w16 (-beta)) (w16 (-st.alpha)) (depth - 1) (ply + 1) true prev s1).2) := by
  unfold nmLoop
  have h1' : ¬ (st.legalMoves + 1 = 1) := by omega
  simp only [hq, hl, hp, h1']
  simp only [Bool.not_true, Bool.false_eq_true, if_false]
  rw [bind_ok _ _ s s1 _ h0]
  simp only [hs, if_true]
  rw [bind_cancelled' _ _ s1 hc]

/-- `qLoop`: a capture that survives delta pruning and the SEE filter, is made and is legal -/
theorem qLoop_stop (K : Keys) (recur : Pos → Int → Int → Nat → SM Int) (p : Pos) (sp beta : Int) (ply : Nat) (eg : Bool)
    (m : Move) (rest : List Move) (a : Int) (q : Pos) (s : SState)
    (hep : m.kind = 2)   -- en passant captures are neither delta pruned nor SEE filtered
    (hq : makeMove K p m = some q) (hl : isLegal q = true)
    (hc : (recur q (w16 (-beta)) (w16 (-a)) (ply + 1) s).1 = .cancelled) :
    qLoop K recur p sp beta ply eg (m :: rest) a s = (.cancelled, (recur q (w16 (-beta)) (w16 (-a)) (ply + 1) s).2) := by
  unfold qLoop
  have hk : (m.kind != 2) = false := by simp [hep]
  simp only [hk, hq, hl]
  simp only [Bool.not_true, Bool.false_eq_true, if_false]
  simp only [pure_bind, Bool.false_eq_true, if_false]
  rw [bind_cancelled' _ _ s hc]

theorem ofOption_some {α} (a : α) : SM.ofOption (some a) = pure a := rfl

theorem qLoop_stop_capture (K : Keys) (recur : Pos → Int → Int → Nat → SM Int) (p : Pos) (sp beta : Int) (ply : Nat) (eg : Bool)
    (m : Move) (rest : List Move) (a : Int) (q : Pos) (s : SState) (v : Int)
    (hk : m.kind ≠ 2) (ht : pieceType (p.at m.tgt) < 6)
    (hdelta : (decide (w16 (w16 (sp + pieceValue (pieceType (p.at m.tgt))) +
        (if m.kind = 1 then w16 (w16 (2 * pieceValue PAWN - pieceValue PAWN) + pieceValue m.promo) else 2 * pieceValue PAWN)) < a)
        && !eg) = false)
    (hsee : see p m = some v) (hv : ¬ v < 0)
    (hq : makeMove K p m = some q) (hl : isLegal q = true)
    (hc : (recur q (w16 (-beta)) (w16 (-a)) (ply + 1) s).1 = .cancelled) :
    qLoop K recur p sp beta ply eg (m :: rest) a s = (.cancelled, (recur q (w16 (-beta)) (w16 (-a)) (ply + 1) s).2) := by
  unfold qLoop
  have hk' : (m.kind != 2) = true := by simp [hk]
  have ht' : ¬ pieceType (p.at m.tgt) ≥ 6 := by omega
  simp only [hk', hq, hl, ht', hsee, ofOption_some, hdelta]
  simp only [pure_bind, Bool.not_true, Bool.false_eq_true, if_false, if_true, hv, decide_false]
  rw [bind_cancelled' _ _ s hc]

/-! ### `searchIterative.go`, one step at a time -/

theorem INF_eq : INF = 32767 := by decide
theorem widenWindow_eq : widenWindow = 50 := by decide

section
variable (K : Keys) (root : Pos) (pvStr : Move → String) (maxD : Nat)

theorem go_zero (d : Nat) (a b : Int) (s : SState) : searchIterative.go K root pvStr maxD 0 d a b s = (.ok (), s) := rfl

theorem go_gt (f d : Nat) (a b : Int) (s : SState) (h : d > maxD) :
    searchIterative.go K root pvStr maxD (f + 1) d a b s = (.ok (), s) := by
  unfold searchIterative.go
  simp only [h, if_true]
  rfl

theorem go_cancelled (f d : Nat) (a b : Int) (s : SState) (h : d ≤ maxD)
    (hc : (searchRoot K root d a b s).1 = .cancelled) :
    searchIterative.go K root pvStr maxD (f + 1) d a b s = (.ok (), (searchRoot K root d a b s).2) := by
  unfold searchIterative.go
  have h' : ¬ d > maxD := by omega
  simp only [h', if_false]
  rcases hr : searchRoot K root d a b s with ⟨r, s'⟩
  rw [hr] at hc
  simp only at hc
  subst hc
  rfl

theorem go_panic (f d : Nat) (a b : Int) (s : SState) (h : d ≤ maxD)
    (hc : (searchRoot K root d a b s).1 = .panic) :
    searchIterative.go K root pvStr maxD (f + 1) d a b s = (.panic, (searchRoot K root d a b s).2) := by
  unfold searchIterative.go
  have h' : ¬ d > maxD := by omega
  simp only [h', if_false]
  rcases hr : searchRoot K root d a b s with ⟨r, s'⟩
  rw [hr] at hc
  simp only at hc
  subst hc
  rfl

theorem go_fail_full (f d : Nat) (s s' : SState) (h : d ≤ maxD) (score : Int) (pvl : Option (List Move))
    (hr : searchRoot K root d (-INF) INF s = (.ok (score, pvl), s')) (hf : score ≤ -INF ∨ score ≥ INF) :
    searchIterative.go K root pvStr maxD (f + 1) d (-INF) INF s = (.ok (), s') := by
  unfold searchIterative.go
  have h' : ¬ d > maxD := by omega
  simp only [h', if_false, hr]
  have : (decide (score ≤ -INF) || decide (score ≥ INF)) = true := by simpa using hf
  simp only [this, if_true, beq_self_eq_true, Bool.and_self]

theorem go_fail_asp (f d : Nat) (a b : Int) (s s' : SState) (h : d ≤ maxD) (score : Int) (pvl : Option (List Move))
    (hr : searchRoot K root d a b s = (.ok (score, pvl), s')) (hf : score ≤ a ∨ score ≥ b) (hw : ¬ (a = -INF ∧ b = INF)) :
    searchIterative.go K root pvStr maxD (f + 1) d a b s =
      searchIterative.go K root pvStr maxD f d (-INF) INF
        { s' with log := s!"info string windows [{a},{b}] too small for value {score}" :: s'.log } := by
  conv => lhs; unfold searchIterative.go
  have h' : ¬ d > maxD := by omega
  simp only [h', if_false, hr]
  have h1 : (decide (score ≤ a) || decide (score ≥ b)) = true := by simpa using hf
  have h2 : (a == -INF && b == INF) = false := by
    simp only [Bool.and_eq_false_iff, beq_eq_false_iff_ne]
    by_cases ha : a = -INF
    · right; intro hb; exact hw ⟨ha, hb⟩
    · left; exact ha
  simp only [h1, h2, if_true, Bool.false_eq_true, if_false]

theorem go_adopt (f d : Nat) (a b : Int) (s s' : SState) (h : d ≤ maxD) (score : Int) (pvl : Option (List Move))
    (hr : searchRoot K root d a b s = (.ok (score, pvl), s')) (hin : a < score ∧ score < b) :
    searchIterative.go K root pvStr maxD (f + 1) d a b s =
      searchIterative.go K root pvStr maxD f ((d + 1) % 256) (w16 (score - widenWindow)) (w16 (score + widenWindow))
        { s' with pv := pvl.getD [], log := infoLine d score s'.nodes ((pvl.getD []).map pvStr) :: s'.log } := by
  conv => lhs; unfold searchIterative.go
  have h' : ¬ d > maxD := by omega
  simp only [h', if_false, hr]
  have h1 : (decide (score ≤ a) || decide (score ≥ b)) = false := by
    simp only [Bool.or_eq_false_iff, decide_eq_false_iff_not]; omega
  simp only [h1, Bool.false_eq_true, if_false]
end



theorem holds_searchRoot (K : Keys) (root : Pos) (d : Nat) (a b : Int) : Holds (searchRoot K root d a b) := by
  unfold searchRoot
  exact holds_bind (holds_modify _ (fun _ => ⟨rfl, rfl, rfl, rfl, rfl, rfl, rfl⟩)) (fun _ => holds_negamax _ _ _ _ _ _ _ _ _)

/-- the lines `SearchIterative(maxD)` may print -/
def IterLine (maxD : Nat) (l : String) : Prop :=
  (∃ (d : Nat) (sc : Int) (n : Nat) (pv : List String), 1 ≤ d ∧ d ≤ maxD ∧ l = infoLine d sc n pv) ∨
  (∃ a b v : Int, l = s!"info string windows [{a},{b}] too small for value {v}")

/-- number of further root searches the loop can still make: two per remaining depth, one less once the window is full -/
def iterBudget (maxD d : Nat) (a b : Int) : Nat := 2 * (maxD + 1 - d) - (if a = -INF ∧ b = INF then 1 else 0)

section
variable (K : Keys) (root : Pos) (pvStr : Move → String) (maxD : Nat)

theorem go_spec (hm : maxD < 255) (f d : Nat) (a b : Int) (s : SState) (hd1 : 1 ≤ d) (hd2 : d ≤ maxD + 1) :
    (searchIterative.go K root pvStr maxD f d a b s).1 ≠ .cancelled ∧
    ∃ added : List String, (searchIterative.go K root pvStr maxD f d a b s).2.log = added ++ s.log ∧
      (∀ l ∈ added, IterLine maxD l) ∧ added.length ≤ iterBudget maxD d a b := by
  induction f generalizing d a b s with
  | zero => rw [go_zero]; exact ⟨by simp, [], rfl, by simp, Nat.zero_le _⟩
  | succ f ih =>
    by_cases hgt : d > maxD
    · rw [go_gt _ _ _ _ _ _ _ _ _ hgt]; exact ⟨by simp, [], rfl, by simp, Nat.zero_le _⟩
    · have hle : d ≤ maxD := by omega
      have hfr := holds_searchRoot K root d a b s
      rcases hr : searchRoot K root d a b s with ⟨r, s'⟩
      rw [hr] at hfr
      have hlog : s'.log = s.log := hfr.2.1
      cases r with
      | cancelled =>
        rw [go_cancelled _ _ _ _ _ _ _ _ _ hle (by rw [hr]), hr]
        exact ⟨by simp, [], by simpa using hlog, by simp, Nat.zero_le _⟩
      | panic =>
        rw [go_panic _ _ _ _ _ _ _ _ _ hle (by rw [hr]), hr]
        exact ⟨by simp, [], by simpa using hlog, by simp, Nat.zero_le _⟩
      | ok res =>
        obtain ⟨score, pvl⟩ := res
        by_cases hin : a < score ∧ score < b
        · rw [go_adopt _ _ _ _ _ _ _ _ _ _ hle score pvl hr hin]
          have hd' : (d + 1) % 256 = d + 1 := by omega
          rw [hd']
          obtain ⟨h1, added, h2, h3, h4⟩ := ih (d + 1) (w16 (score - widenWindow)) (w16 (score + widenWindow))
            { s' with pv := pvl.getD [], log := infoLine d score s'.nodes ((pvl.getD []).map pvStr) :: s'.log } (by omega) (by omega)
          refine ⟨h1, added ++ [infoLine d score s'.nodes ((pvl.getD []).map pvStr)], ?_, ?_, ?_⟩
          · rw [h2, hlog]; simp
          · intro l hl
            rcases List.mem_append.1 hl with hl | hl
            · exact h3 l hl
            · left; exact ⟨d, score, s'.nodes, _, hd1, hle, by simpa using hl⟩
          · simp only [List.length_append, List.length_cons, List.length_nil]
            unfold iterBudget at h4 ⊢
            split at h4 <;> split <;> omega
        · have hf : score ≤ a ∨ score ≥ b := by omega
          by_cases hw : a = -INF ∧ b = INF
          · obtain ⟨rfl, rfl⟩ := hw
            rw [go_fail_full _ _ _ _ _ _ _ _ hle score pvl hr hf]
            exact ⟨by simp, [], by simpa using hlog, by simp, Nat.zero_le _⟩
          · rw [go_fail_asp _ _ _ _ _ _ _ _ _ _ hle score pvl hr hf hw]
            obtain ⟨h1, added, h2, h3, h4⟩ := ih d (-INF) INF
              { s' with log := s!"info string windows [{a},{b}] too small for value {score}" :: s'.log } hd1 hd2
            refine ⟨h1, added ++ [s!"info string windows [{a},{b}] too small for value {score}"], ?_, ?_, ?_⟩
            · rw [h2, hlog]; simp
            · intro l hl
              rcases List.mem_append.1 hl with hl | hl
              · exact h3 l hl
              · right; exact ⟨a, b, score, by simpa using hl⟩
            · simp only [List.length_append, List.length_cons, List.length_nil]
              unfold iterBudget at h4 ⊢
              simp only [and_self, if_true] at h4
              simp only [hw, if_false]
              omega
end

theorem searchIterative_not_cancelled' (K : Keys) (root : Pos) (pvStr : Move → String) (maxD : Nat) (hm : maxD < 255)
    (s : SState) : (searchIterative K root pvStr maxD s).1 ≠ .cancelled :=
  (go_spec K root pvStr maxD hm 2000 1 (-INF) INF s (Nat.le_refl _) (by omega)).1

/-! ### counting root searches -/

section
variable (K : Keys) (root : Pos) (pvStr : Move → String) (maxD : Nat)

/-- number of `searchRoot` calls made by `searchIterative.go` (same recursion, counting instead of returning) -/
def rootSearches : Nat → Nat → Int → Int → SState → Nat
  | 0, _, _, _, _ => 0
  | fuel+1, depth, alpha, beta, s =>
    if depth > maxD then 0 else
    match searchRoot K root depth alpha beta s with
    | (.cancelled, _) => 1
    | (.panic, _) => 1
    | (.ok (score, pvl), s') =>
      if score ≤ alpha || score ≥ beta then
        if alpha == -INF && beta == INF then 1
        else 1 + rootSearches fuel depth (-INF) INF { s' with log := s!"info string windows [{alpha},{beta}] too small for value {score}" :: s'.log }
      else
        let pv := pvl.getD []
        let s' := { s' with pv := pv, log := infoLine depth score s'.nodes (pv.map pvStr) :: s'.log }
        1 + rootSearches fuel ((depth + 1) % 256) (w16 (score - widenWindow)) (w16 (score + widenWindow)) s'

theorem rootSearches_le (hm : maxD < 255) (f d : Nat) (a b : Int) (s : SState) (hd1 : 1 ≤ d) (hd2 : d ≤ maxD + 1) :
    rootSearches K root pvStr maxD f d a b s ≤ iterBudget maxD d a b + 1 := by
  induction f generalizing d a b s with
  | zero => unfold rootSearches; exact Nat.zero_le _
  | succ f ih =>
    unfold rootSearches
    by_cases hgt : d > maxD
    · simp only [hgt, if_true]; exact Nat.zero_le _
    · simp only [hgt, if_false]
      rcases searchRoot K root d a b s with ⟨r, s'⟩
      cases r with
      | cancelled => exact Nat.le_add_left _ _
      | panic => exact Nat.le_add_left _ _
      | ok res =>
        obtain ⟨score, pvl⟩ := res
        dsimp only
        have hd' : (d + 1) % 256 = d + 1 := by omega
        split
        · split
          · exact Nat.le_add_left _ _
          · rename_i hw
            have h := ih d (-INF) INF
              { s' with log := s!"info string windows [{a},{b}] too small for value {score}" :: s'.log } hd1 hd2
            have hw' : ¬ (a = -INF ∧ b = INF) := by
              intro ⟨h1, h2⟩; apply hw; simp [h1, h2]
            unfold iterBudget at h ⊢
            simp only [and_self, if_true] at h
            simp only [hw', if_false]
            omega
        · rw [hd']
          have h := ih (d + 1) (w16 (score - widenWindow)) (w16 (score + widenWindow))
            { s' with pv := pvl.getD [], log := infoLine d score s'.nodes ((pvl.getD []).map pvStr) :: s'.log } (by omega) (by omega)
          unfold iterBudget at h ⊢
          split at h <;> split <;> omega
end

/-! ### the fuel of `searchIterative.go` is never the reason it stops -/

section
variable (K : Keys) (root : Pos) (pvStr : Move → String) (maxD : Nat)

/-- the fuel of the model never runs out: any two fuels above the budget give the same run -/
theorem go_fuel_irrelevant (hm : maxD < 255) (f f' d : Nat) (a b : Int) (s : SState) (hd1 : 1 ≤ d) (hd2 : d ≤ maxD + 1)
    (hf : iterBudget maxD d a b < f) (hf' : iterBudget maxD d a b < f') :
    searchIterative.go K root pvStr maxD f d a b s = searchIterative.go K root pvStr maxD f' d a b s := by
  induction f generalizing f' d a b s with
  | zero => omega
  | succ f ih =>
    obtain ⟨g, rfl⟩ : ∃ g, f' = g + 1 := ⟨f' - 1, by omega⟩
    by_cases hgt : d > maxD
    · rw [go_gt _ _ _ _ _ _ _ _ _ hgt, go_gt _ _ _ _ _ _ _ _ _ hgt]
    · have hle : d ≤ maxD := by omega
      rcases hr : searchRoot K root d a b s with ⟨r, s'⟩
      cases r with
      | cancelled =>
        rw [go_cancelled _ _ _ _ _ _ _ _ _ hle (by rw [hr]), go_cancelled _ _ _ _ _ _ _ _ _ hle (by rw [hr])]
      | panic =>
        rw [go_panic _ _ _ _ _ _ _ _ _ hle (by rw [hr]), go_panic _ _ _ _ _ _ _ _ _ hle (by rw [hr])]
      | ok res =>
        obtain ⟨score, pvl⟩ := res
        by_cases hin : a < score ∧ score < b
        · rw [go_adopt _ _ _ _ _ _ _ _ _ _ hle score pvl hr hin, go_adopt _ _ _ _ _ _ _ _ _ _ hle score pvl hr hin]
          have hd' : (d + 1) % 256 = d + 1 := by omega
          rw [hd']
          apply ih
          · omega
          · omega
          · unfold iterBudget at hf ⊢; split at hf <;> split <;> omega
          · unfold iterBudget at hf' ⊢; split at hf' <;> split <;> omega
        · have hfl : score ≤ a ∨ score ≥ b := by omega
          by_cases hw : a = -INF ∧ b = INF
          · obtain ⟨rfl, rfl⟩ := hw
            rw [go_fail_full _ _ _ _ _ _ _ _ hle score pvl hr hfl, go_fail_full _ _ _ _ _ _ _ _ hle score pvl hr hfl]
          · rw [go_fail_asp _ _ _ _ _ _ _ _ _ _ hle score pvl hr hfl hw, go_fail_asp _ _ _ _ _ _ _ _ _ _ hle score pvl hr hfl hw]
            apply ih _ _ _ _ _ hd1 hd2
            · unfold iterBudget at hf ⊢; simp only [hw, if_false] at hf; simp only [and_self, if_true]; omega
            · unfold iterBudget at hf' ⊢; simp only [hw, if_false] at hf'; simp only [and_self, if_true]; omega
end

end SearchLemmas
end Clemens
