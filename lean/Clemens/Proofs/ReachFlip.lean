import Clemens.Proofs.MirrorMob
/-
Lemma library for C15 (part 2): geometric reachability (`Geo.reach`, the specification of the slider attacks in C12) is
equivariant under the vertical flip; hence exactness of the magic-table lookups implies `SliderFlip`.
The tables themselves are never unfolded here.
-/
namespace Clemens

/-- the direction seen in the flipped board -/
def flipD : Dir → Dir
  | .N => .S | .S => .N | .E => .E | .W => .W | .NE => .SE | .NW => .SW | .SE => .NE | .SW => .NW

theorem step_flip_all : ∀ d ∈ Dir.all, ∀ k < 8, ∀ s < 64,
    Geo.step (flipD d) k (s ^^^ 56) = (Geo.step d k s).map (· ^^^ 56) := by decide +kernel

theorem step_flip (d : Dir) (k s : Nat) (hk : k < 8) (hs : s < 64) :
    Geo.step (flipD d) k (s ^^^ 56) = (Geo.step d k s).map (· ^^^ 56) :=
  step_flip_all d (by cases d <;> decide) k hk s hs

theorem fl_eq_iff (u t : Nat) (hu : u < 64) (ht : t < 64) : ((u ^^^ 56) == t) = (u == (t ^^^ 56)) := by
  by_cases h : u = t ^^^ 56
  · subst h; simp [fl_fl t ht]
  · have : u ^^^ 56 ≠ t := by
      intro h2; apply h; rw [← h2, fl_fl u hu]
    rw [beq_eq_false_iff_ne.2 this, beq_eq_false_iff_ne.2 h]

theorem reachAlong_flip (d : Dir) (occ : BB) (s t : Nat) (hs : s < 64) (ht : t < 64) :
    Geo.reachAlong (flipD d) (flipV occ) (s ^^^ 56) t = Geo.reachAlong d occ s (t ^^^ 56) := by
  unfold Geo.reachAlong
  apply any_congr'
  intro j hj
  have hj := List.mem_range.1 hj
  dsimp only
  rw [step_flip d (j + 1) s (by omega) hs]
  congr 1
  · cases h : Geo.step d (j + 1) s with
    | none => rfl
    | some u =>
      have hu := step_lt d (j + 1) s u h
      simp only [Option.map_some]
      show ((u ^^^ 56) == t) = (u == (t ^^^ 56))
      exact fl_eq_iff u t hu ht
  · apply all_congr'
    intro i hi
    have hi := List.mem_range.1 hi
    rw [step_flip d (i + 1) s (by omega) hs]
    cases h : Geo.step d (i + 1) s with
    | none => rfl
    | some u =>
      have hu := step_lt d (i + 1) s u h
      simp only [Option.map_some, BB.has]
      rw [getLsbD_flipV _ _ (fl_lt u hu), fl_fl u hu]

theorem reach_rook_flip (occ : BB) (s t : Nat) (hs : s < 64) (ht : t < 64) :
    Geo.reach rookDirs (flipV occ) (s ^^^ 56) t = Geo.reach rookDirs occ s (t ^^^ 56) := by
  have hN := reachAlong_flip .N occ s t hs ht
  have hS := reachAlong_flip .S occ s t hs ht
  have hE := reachAlong_flip .E occ s t hs ht
  have hW := reachAlong_flip .W occ s t hs ht
  simp only [flipD] at hN hS hE hW
  simp only [Geo.reach, rookDirs, List.any_cons, List.any_nil, Bool.or_false, hN, hS, hE, hW]
  cases Geo.reachAlong .N occ s (t ^^^ 56) <;> cases Geo.reachAlong .S occ s (t ^^^ 56) <;> rfl

theorem reach_bishop_flip (occ : BB) (s t : Nat) (hs : s < 64) (ht : t < 64) :
    Geo.reach bishopDirs (flipV occ) (s ^^^ 56) t = Geo.reach bishopDirs occ s (t ^^^ 56) := by
  have h1 := reachAlong_flip .NE occ s t hs ht
  have h2 := reachAlong_flip .NW occ s t hs ht
  have h3 := reachAlong_flip .SE occ s t hs ht
  have h4 := reachAlong_flip .SW occ s t hs ht
  simp only [flipD] at h1 h2 h3 h4
  simp only [Geo.reach, bishopDirs, List.any_cons, List.any_nil, Bool.or_false, h1, h2, h3, h4]
  cases Geo.reachAlong .NE occ s (t ^^^ 56) <;> cases Geo.reachAlong .NW occ s (t ^^^ 56) <;>
    cases Geo.reachAlong .SE occ s (t ^^^ 56) <;> cases Geo.reachAlong .SW occ s (t ^^^ 56) <;> rfl

/-- the magic-table lookups are exact (the statement of C12 part B, in the shape of `rookWalker_exact` of C12a but for
every occupancy) -/
def SlidersExact : Prop :=
  (∀ s t occ, s < 64 → t < 64 → (rookAttacks s occ).getLsbD t = Geo.reach rookDirs occ s t) ∧
  (∀ s t occ, s < 64 → t < 64 → (bishopAttacks s occ).getLsbD t = Geo.reach bishopDirs occ s t)

theorem sliderFlip_of_exact (h : SlidersExact) : SliderFlip := by
  constructor
  · intro s hs occ
    apply BitVec.eq_of_getLsbD_eq
    intro t ht
    rw [h.1 _ _ _ (fl_lt s hs) ht, getLsbD_flipV _ _ ht, h.1 _ _ _ hs (fl_lt t ht), reach_rook_flip occ s t hs ht]
  · intro s hs occ
    apply BitVec.eq_of_getLsbD_eq
    intro t ht
    rw [h.2 _ _ _ (fl_lt s hs) ht, getLsbD_flipV _ _ ht, h.2 _ _ _ hs (fl_lt t ht), reach_bishop_flip occ s t hs ht]

end Clemens
