import Clemens.Props.C04
import Clemens.Props.C13
import Clemens.Props.C10b
import Clemens.Proofs.MoveWord
/-
P16 (C04b) lemmas: a step of a `LegalLine` is a member of `engineLegal` (for the word without its score bits), and the
meaning of a move word does not depend on its score bits.
-/
namespace Clemens.P16
open Clemens

theorem promo_eq (m : Move) : Move.promo m = m / 16384 % 4 + 1 := by
  unfold Move.promo
  rw [Nat.shiftRight_eq_div_pow, show (3 : Nat) = 2 ^ 2 - 1 by rfl, Nat.and_two_pow_sub_one_eq_mod]

theorem low_arith (n : Nat) : n % 65536 % 64 = n % 64 ∧ n % 65536 / 64 % 64 = n / 64 % 64 ∧
    n % 65536 / 4096 % 4 = n / 4096 % 4 ∧ n % 65536 / 16384 % 4 = n / 16384 % 4 := by omega

/-- the UCI meaning of a move word only depends on its low 16 bits (the score bits are ignored) -/
theorem absMove_low (m : Move) : absMove (m % 65536) = absMove m := by
  unfold absMove
  rw [Move.src_eq, Move.src_eq, Move.tgt_eq, Move.tgt_eq, Move.kind_eq, Move.kind_eq, promo_eq, promo_eq]
  obtain ⟨h1, h2, h3, h4⟩ := low_arith m
  rw [h1, h2, h3, h4]

/-- a word that agrees with a generated word up to the score bits is, without its score bits, a generated word -/
theorem gen_of_low (p : Pos) (hw : WF p = true) (m : Move) (h : (m % 65536) ∈ (genMoves p).map (· % 65536)) :
    m % 65536 ∈ genMoves p := by
  obtain ⟨g, hg, he⟩ := List.mem_map.1 h
  have hlt := (genMoves_shape p hw g hg).no_score
  have : g % 65536 = g := Nat.mod_eq_of_lt hlt
  rw [← he, this]; exact hg

/-- a step of a `LegalLine` is a member of the engine's list of playable moves -/
theorem step_engineLegal (K : Keys) (p q : Pos) (hw : WF p = true) (m : Move) (hq : makeMove K p m = some q)
    (hl : isLegal q = true) (h : (m % 65536) ∈ (genMoves p).map (· % 65536)) : (m % 65536, q) ∈ engineLegal K p := by
  rw [mem_engineLegal]
  exact ⟨gen_of_low p hw m h, by rw [← makeMove_low]; exact hq, hl⟩

end Clemens.P16
