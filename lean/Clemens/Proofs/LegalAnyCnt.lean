import Clemens.Proofs.LegalPerft
import Clemens.Proofs.GenReach
import Clemens.Proofs.LegalAnyCntSpec
/-
P01c, engine side: `genMoves`, `isLegal` do not read the counters `ply` / `hmc`; `makeMove` commutes with replacing them
(`GR.makeMove_setCnt`); hence the moves of `engineLegal` and the node counts of `perft` do not depend on them.  Together with the
specification side (`LegalAnyCntSpec.lean`) the theorems of C01 are transferred from the position with its counters reset to
(`side`, 0) — where the counter range of C02 holds — to the position itself.
-/
namespace Clemens
namespace LAC
open GR GM LG

theorem setCnt_setCnt (p : Pos) (a b a' b' : Nat) : setCnt (setCnt p a b) a' b' = setCnt p a' b' := rfl

/-- `makeMove` fails on the position with replaced counters iff it fails on the position -/
theorem makeMove_setCnt_none (K : Keys) (p : Pos) (m : Move) (a b : Nat) (h : makeMove K p m = none) :
    makeMove K (setCnt p a b) m = none := by
  cases h' : makeMove K (setCnt p a b) m with
  | none => rfl
  | some q' =>
    obtain ⟨r, hr⟩ := makeMove_setCnt K _ q' m h'
    have := hr p.ply p.hmc
    rw [setCnt_setCnt, setCnt_self, h] at this
    cases this

/-- one step of the filter in `engineLegal` -/
def step (K : Keys) (p : Pos) (m : Move) : Option (Move × Pos) :=
  match makeMove K p m with
  | some q => if isLegal q then some (m, q) else none
  | none => none

theorem engineLegal_eq (K : Keys) (p : Pos) : engineLegal K p = (genMoves p).filterMap (step K p) := rfl

/-- the step on the position with replaced counters: same move, successor with replaced counters -/
theorem step_setCnt (K : Keys) (p : Pos) (m : Move) (a b : Nat) :
    (step K p m = none ∧ step K (setCnt p a b) m = none) ∨
    ∃ q a' b', step K p m = some (m, q) ∧ step K (setCnt p a b) m = some (m, setCnt q a' b') := by
  unfold step
  cases h : makeMove K p m with
  | none => left; rw [makeMove_setCnt_none K p m a b h]; exact ⟨rfl, rfl⟩
  | some q =>
    obtain ⟨r, hr⟩ := makeMove_setCnt K p q m h
    rw [hr a b]
    by_cases hl : isLegal q = true
    · right; exact ⟨q, _, _, if_pos hl, if_pos hl⟩
    · left; exact ⟨if_neg hl, if_neg hl⟩

/-- the two filtered lists, seen through functions that agree on successors differing only in the counters -/
theorem filterMap_step_setCnt {β : Type} (K : Keys) (p : Pos) (a b : Nat) (F G : Move × Pos → β)
    (hFG : ∀ m q a' b', F (m, setCnt q a' b') = G (m, q)) (l : List Move) :
    (l.filterMap (step K (setCnt p a b))).map F = (l.filterMap (step K p)).map G := by
  induction l with
  | nil => rfl
  | cons m l ih =>
    rcases step_setCnt K p m a b with ⟨h1, h2⟩ | ⟨q, a', b', h1, h2⟩
    · rw [List.filterMap_cons_none h1, List.filterMap_cons_none h2, ih]
    · rw [List.filterMap_cons_some h1, List.filterMap_cons_some h2, List.map_cons, List.map_cons, ih, hFG]

/-- which moves the engine treats as playable does not depend on the counters -/
theorem engineLegal_moves_setCnt (K : Keys) (p : Pos) (a b : Nat) :
    (engineLegal K (setCnt p a b)).map (fun mq => absMove mq.1) = (engineLegal K p).map (fun mq => absMove mq.1) := by
  rw [engineLegal_eq, engineLegal_eq, genMoves_setCnt]
  exact filterMap_step_setCnt K p a b _ _ (fun _ _ _ _ => rfl) _

/-- the engine's node counts do not depend on the counters -/
theorem perft_setCnt (K : Keys) (d : Nat) : ∀ (p : Pos) (a b : Nat), perft K (setCnt p a b) d = perft K p d := by
  induction d with
  | zero => intro p a b; rfl
  | succ d ih =>
    intro p a b
    unfold perft
    rw [engineLegal_eq, engineLegal_eq, genMoves_setCnt]
    congr 1
    exact filterMap_step_setCnt K p a b _ _ (fun _ q a' b' => ih q a' b') _

/-! ### the reset position -/

/-- the position with the counters reset to the smallest values of the right parity -/
def reset (p : Pos) : Pos := setCnt p p.side 0

theorem reset_range (p : Pos) (hw : WF p = true) : (reset p).ply < 255 ∧ (reset p).hmc < 255 := by
  obtain ⟨_, hst, _⟩ := WF_parts p hw
  obtain ⟨s1, _⟩ := state_full p hst
  exact ⟨by show p.side < 255; omega, by show 0 < 255; omega⟩

theorem absPos_setCnt (p : Pos) (a b : Nat) : absPos (setCnt p a b) = fsetCnt (absPos p) b (a / 2 + 1) := rfl

theorem legalMoves_reset (p : Pos) : Fide.legalMoves (absPos (reset p)) = Fide.legalMoves (absPos p) := by
  unfold reset; rw [absPos_setCnt, legalMoves_fsetCnt]

theorem fperft_reset (p : Pos) (d : Nat) : Fide.perft (absPos (reset p)) d = Fide.perft (absPos p) d := by
  unfold reset; rw [absPos_setCnt, perft_fsetCnt]

theorem engineLegal_moves_reset (K : Keys) (p : Pos) :
    (engineLegal K (reset p)).map (fun mq => absMove mq.1) = (engineLegal K p).map (fun mq => absMove mq.1) :=
  engineLegal_moves_setCnt K p _ _

/-- C01 `legal_exact` (membership part) without the counter range -/
theorem engineLegal_mem_any (K : Keys) (p : Pos) (hw : WF p = true) (mv : Fide.Move) :
    mv ∈ (engineLegal K p).map (fun mq => absMove mq.1) ↔ mv ∈ Fide.legalMoves (absPos p) := by
  rw [← engineLegal_moves_reset K p, ← legalMoves_reset p]
  exact engineLegal_mem K (reset p) (WF_reset p hw) (reset_range p hw) mv

/-- C01 `perft_exact` without the counter range: at every level the count is taken at the reset position, so the `uint8` wrap of
the counters of deep successors never matters -/
theorem perft_eq_any (K : Keys) (d : Nat) : ∀ p : Pos, WF p = true → perft K p d = Fide.perft (absPos p) d := by
  induction d with
  | zero => intro p _; rfl
  | succ d ih =>
    intro p hw
    have hw0 := WF_reset p hw
    have hr0 := reset_range p hw
    rw [← fperft_reset p, ← perft_setCnt K (d + 1) p p.side 0]
    show perft K (reset p) (d + 1) = _
    unfold perft Fide.perft
    apply perft_succ K (reset p) hw0 hr0 (fun P => Fide.perft P d) (fun q => perft K q d)
    intro m q hmq
    obtain ⟨hm, hq, hl⟩ := (mem_engineLegal K (reset p) m q).1 hmq
    exact ih q (WF_succ K (reset p) hw0 hr0 m hm q hq hl)

end LAC
end Clemens
