import Clemens.Proofs.MateInv
/-
Lemma library for C04c (task P04h), part 1: the transposition table stays sane (`TTSane`: every stored score in `[-INF, INF]`)
through `quiescence`, `nmLoop`, `negamax`, `searchRoot` — for EVERY window (also the windows outside `InWin` the iteration loop
can produce) and after EVERY outcome (ok, cancelled, panic; `PostA`).

Reason: the only write to the table is `ttSave … st.bestScore …`, and `bestScore` starts as `-INF` and is only ever replaced by a
strictly larger `w16 (-sc)`, which lies in `(-INF, 32767]` whatever the child returned.
-/
namespace Clemens
namespace BadWin
open SearchLemmas P19

theorem inrange_minf : InRange (-INF) := by
  unfold InRange; rw [INF_eq]; omega

/-- a wrapped score that beats an in-range best score is in range -/
theorem inrange_w16_gt {x b : Int} (hb : InRange b) (h : w16 x > b) : InRange (w16 x) := by
  have := w16_bounds x
  unfold InRange at *
  rw [INF_eq] at *
  omega

/-! ### quiescence does not touch the table -/

theorem posta_qLoop_tt (K : Keys) (recur : Pos → Int → Int → Nat → SM Int)
    (hrec : ∀ q a b pl, PostA TTInv (fun _ => True) (recur q a b pl))
    (p : Pos) (sp beta : Int) (ply : Nat) (eg : Bool) (l : List Move) (a : Int) :
    PostA TTInv (fun _ => True) (qLoop K recur p sp beta ply eg l a) := by
  induction l generalizing a with
  | nil => unfold qLoop; exact posta_pure_true _
  | cons m rest ih =>
    unfold qLoop
    extract_lets jp2 jp1
    have h2 : ∀ sn, PostA TTInv (fun _ => True) (jp2 sn) := by
      intro sn
      unfold jp2
      split
      · exact ih a
      · split
        · exact posta_panic
        · rename_i q hq
          split
          · exact ih a
          · refine posta_seq (hrec _ _ _ _) ?_
            intro sc
            extract_lets score
            split
            · exact posta_pure_true _
            · exact ih _
    have h1 : ∀ sd, PostA TTInv (fun _ => True) (jp1 sd) := by
      intro sd
      unfold jp1
      split
      · exact ih a
      · split
        · exact posta_seq (posta_seq (posta_true (posta_ofOption _)) (fun _ => posta_pure_true _)) (fun _ => h2 _)
        · exact posta_seq (posta_pure_true _) (fun _ => h2 _)
    split
    · split
      · exact posta_seq posta_panic (fun _ => h1 _)
      · exact posta_seq (posta_pure_true _) (fun _ => h1 _)
    · exact posta_seq (posta_pure_true _) (fun _ => h1 _)

theorem posta_quiescence_tt (K : Keys) (fuel : Nat) (p : Pos) (alpha beta : Int) (ply : Nat) :
    PostA TTInv (fun _ => True) (quiescence K fuel p alpha beta ply) := by
  induction fuel generalizing p alpha beta ply with
  | zero => unfold quiescence; exact posta_panic
  | succ fuel ih =>
    unfold quiescence
    refine posta_seq (posta_modify_tt ttinv_stable _ (fun _ => rfl)) (fun _ => posta_seq (posta_poll ttinv_stable) (fun _ => ?_))
    refine posta_seq (posta_true (posta_ofOption _)) ?_
    intro sp
    split
    · exact posta_pure_true _
    · extract_lets alpha'
      split
      · exact posta_pure_true _
      · refine posta_seq (posta_true posta_get) (fun s => posta_seq (posta_true (posta_ofOption _)) (fun scored => ?_))
        exact posta_qLoop_tt K _ (fun q a b pl => ih q a b pl) p sp beta ply _ _ alpha'

/-! ### the move loop: the best score stays in range, for every window -/

theorem posta_nmLoop_tt (K : Keys) (recur : NegaFn)
    (hrec : ∀ q a b d pl cn pm, PostA TTInv (fun _ => True) (recur q a b d pl cn pm))
    (p : Pos) (beta : Int) (depth ply : Nat) (prev : Move) (fp : Bool) (l : List Move) (st : LoopSt)
    (hst : InRange st.bestScore) :
    PostA TTInv (fun st' : LoopSt => InRange st'.bestScore) (nmLoop K recur p beta depth ply prev fp l st) := by
  induction l generalizing st with
  | nil => unfold nmLoop; exact posta_pure hst
  | cons m rest ih =>
    unfold nmLoop
    split
    · exact posta_panic
    · rename_i q hq
      split
      · exact ih st hst
      · extract_lets st1 alpha hk jp
        have hst1 : InRange st1.bestScore := hst
        split
        · exact ih st1 hst1
        · have hjp : ∀ (sc : Int) (cpv : Option (List Move)),
              PostA TTInv (fun st' : LoopSt => InRange st'.bestScore) (jp (w16 (-sc), cpv)) := by
            intro sc childPv
            unfold jp
            dsimp -zeta only
            extract_lets st2 jp2 st3
            have h2b : InRange st2.bestScore := by
              by_cases hbs : w16 (-sc) > st1.bestScore
              · have e2 : st2 = { st1 with bestMove := m, bestScore := w16 (-sc) } := if_pos hbs
                rw [e2]; exact inrange_w16_gt hst1 hbs
              · have e2 : st2 = st1 := if_neg hbs
                rw [e2]; exact hst1
            split
            · split
              · exact posta_seq (posta_modify_tt ttinv_stable _ (fun _ => rfl)) (fun _ => posta_pure h2b)
              · exact posta_pure h2b
            · apply ih st3
              by_cases ha : w16 (-sc) > alpha
              · have e3 : st3 = { st2 with nodeType := 0, alpha := w16 (-sc), pvl := some (st2.bestMove :: childPv.getD []) } :=
                  if_pos ha
                rw [e3]; exact h2b
              · have e3 : st3 = st2 := if_neg ha
                rw [e3]; exact h2b
          clear_value jp
          split
          · refine posta_seq (hrec q _ _ _ _ _ _) ?_
            intro x
            obtain ⟨sc, cpv⟩ := x
            exact hjp sc cpv
          · refine posta_seq (hrec q _ _ _ _ _ _) ?_
            intro x
            obtain ⟨sc0, cpv0⟩ := x
            dsimp only
            split
            · refine posta_seq (hrec q _ _ _ _ _ _) ?_
              intro x
              obtain ⟨sc, cpv⟩ := x
              exact hjp sc cpv
            · exact hjp sc0 none

/-! ### negamax, root search -/

theorem posta_negamax_tt (K : Keys) (fuel : Nat) (p : Pos) (alpha beta : Int) (depth ply : Nat) (cn : Bool) (prev : Move) :
    PostA TTInv (fun _ : NodeRes => True) (negamax K fuel p alpha beta depth ply cn prev) := by
  induction fuel generalizing p alpha beta depth ply cn prev with
  | zero => unfold negamax; exact posta_panic
  | succ fuel ih =>
    unfold negamax
    refine posta_seq (posta_poll ttinv_stable) ?_
    intro _
    extract_lets isRoot mateValue pvNode inCheck depth' R body
    have hbody : PostA TTInv (fun _ : NodeRes => True) body := by
      unfold body
      refine posta_seq (posta_true posta_get) ?_
      intro s
      extract_lets pvMove
      split
      rename_i ttScore use ttMove httg
      split
      · exact posta_pure_true _
      · extract_lets jp3 jp2 jp1
        have h3 : ∀ fp, PostA TTInv (fun _ : NodeRes => True) (jp3 fp) := by
          intro fp
          unfold jp3
          refine posta_seq (posta_true posta_get) ?_
          intro s2
          refine posta_seq (posta_true (posta_ofOption _)) ?_
          intro scored
          refine posta_bind_of (posta_nmLoop_tt K _ (fun q a b d pl cn pm => ih q a b d pl cn pm) p beta depth' ply prev fp _ _
            inrange_minf) ?_
          intro st hst
          split
          · exact posta_pure_true _
          · refine posta_seq (posta_poll ttinv_stable) (fun _ => ?_)
            refine posta_seq (posta_modify _ ?_) (fun _ => posta_pure_true _)
            intro s3 hs3
            exact ttSave_sane _ _ _ _ _ _ _ hs3 hst
        have h2 : ∀ nc, PostA TTInv (fun _ : NodeRes => True) (jp2 nc) := by
          intro nc
          unfold jp2
          split
          · exact posta_pure_true _
          · split
            · exact posta_seq (posta_seq (posta_true (posta_ofOption _)) (fun _ => posta_pure_true _)) (fun _ => h3 _)
            · exact posta_seq (posta_pure_true _) (fun _ => h3 _)
        have h1 : ∀ snm : Option Int, PostA TTInv (fun _ : NodeRes => True) (jp1 snm) := by
          intro snm
          unfold jp1
          split
          · exact posta_pure_true _
          · split
            · refine posta_seq ?_ (fun _ => h2 _)
              refine posta_seq (posta_true (posta_ofOption _)) (fun e => ?_)
              split
              · split
                rename_i q ep hmk
                refine posta_seq (ih q _ _ _ (ply + 1) false 0) (fun x => ?_)
                split
                exact posta_pure_true _
              · exact posta_pure_true _
            · exact posta_seq (posta_pure_true _) (fun _ => h2 _)
        split
        · refine posta_seq ?_ (fun snm => h1 snm)
          refine posta_seq (posta_true (posta_ofOption _)) (fun e => ?_)
          extract_lets b
          exact posta_pure_true _
        · exact posta_seq (posta_pure_true _) (fun snm => h1 snm)
    split
    · exact posta_seq (posta_quiescence_tt K 128 p alpha beta ply) (fun v => posta_pure_true _)
    · refine posta_seq (posta_modify_tt ttinv_stable _ (fun _ => rfl)) (fun _ => posta_seq (posta_true posta_get) (fun s => ?_))
      split
      · exact posta_pure_true _
      · refine posta_seq (posta_modify_tt ttinv_stable _ (fun _ => rfl)) (fun _ => ?_)
        exact posta_popPath ttinv_stable body hbody

/-- the table is sane after a root search: every window, every outcome -/
theorem searchRoot_tt (K : Keys) (root : Pos) (d : Nat) (a b : Int) (s : SState) (hs : TTSane s.tt) :
    TTSane (searchRoot K root d a b s).2.tt := by
  have h : PostA TTInv (fun _ : NodeRes => True) (searchRoot K root d a b) := by
    unfold searchRoot
    exact posta_seq (posta_modify_tt ttinv_stable _ (fun _ => rfl)) (fun _ => posta_negamax_tt K 300 root a b d 0 true 0)
  exact (h s hs).1

end BadWin
end Clemens
