import Clemens.Proofs.EvalBits
import Clemens.Proofs.Rays
/-
Lemma library for C15 (part 2): the vertical flip of a set of squares (`s ↦ s ^^^ 56`), union-homomorphisms of
bitboards (determined by their values on the 64 single squares), and the behaviour of the shifts, fills and
leaper attack sets under the flip.
-/
namespace Clemens

/-! ### the flip -/

/-- vertical flip (what `bits.ReverseBytes64` computes): square `i` of the result is square `i ^^^ 56` of `b` -/
def flipV (b : BB) : BB :=
  (BitVec.ofBoolListLE ((List.range 64).map fun i => b.getLsbD (i ^^^ 56))).cast (by simp)

theorem getLsbD_flipV (b : BB) (i : Nat) (hi : i < 64) : (flipV b).getLsbD i = b.getLsbD (i ^^^ 56) := by
  unfold flipV
  rw [BitVec.getLsbD_cast, BitVec.getLsbD_ofBoolListLE]
  simp [List.getD_eq_getElem?_getD, hi]

theorem fl_lt : ∀ i < 64, i ^^^ 56 < 64 := by decide
theorem fl_fl : ∀ i < 64, (i ^^^ 56) ^^^ 56 = i := by decide

theorem flipV_flipV (b : BB) : flipV (flipV b) = b := by
  apply BitVec.eq_of_getLsbD_eq
  intro i hi
  rw [getLsbD_flipV _ _ hi, getLsbD_flipV _ _ (fl_lt i hi), fl_fl i hi]

theorem flipV_or (a b : BB) : flipV (a ||| b) = flipV a ||| flipV b := by
  apply BitVec.eq_of_getLsbD_eq
  intro i hi
  rw [getLsbD_flipV _ _ hi, BitVec.getLsbD_or, BitVec.getLsbD_or, getLsbD_flipV _ _ hi, getLsbD_flipV _ _ hi]

theorem flipV_and (a b : BB) : flipV (a &&& b) = flipV a &&& flipV b := by
  apply BitVec.eq_of_getLsbD_eq
  intro i hi
  rw [getLsbD_flipV _ _ hi, BitVec.getLsbD_and, BitVec.getLsbD_and, getLsbD_flipV _ _ hi, getLsbD_flipV _ _ hi]

theorem flipV_not (a : BB) : flipV (~~~a) = ~~~(flipV a) := by
  apply BitVec.eq_of_getLsbD_eq
  intro i hi
  rw [getLsbD_flipV _ _ hi, BitVec.getLsbD_not, BitVec.getLsbD_not, getLsbD_flipV _ _ hi]
  simp [hi, fl_lt i hi]

theorem flipV_zero : flipV 0#64 = 0#64 := by decide +kernel

theorem flipV_inj {a b : BB} (h : flipV a = flipV b) : a = b := by
  rw [← flipV_flipV a, h, flipV_flipV]

theorem flipV_eq_zero {a : BB} : flipV a = 0#64 ↔ a = 0#64 := by
  constructor
  · intro h; apply flipV_inj; rw [h, flipV_zero]
  · intro h; rw [h, flipV_zero]

theorem flipV_bit : ∀ s < 64, flipV (bit s) = bit (s ^^^ 56) := by decide +kernel

/-! ### sums and counts over the squares of a flipped set -/

theorem perm_sum_int {l₁ l₂ : List Int} (h : l₁.Perm l₂) : l₁.sum = l₂.sum := by
  induction h with
  | nil => rfl
  | cons x _ ih => simp [ih]
  | swap x y l => simp only [List.sum_cons]; omega
  | trans _ _ ih1 ih2 => rw [ih1, ih2]

theorem sum_filter_eq (f : Nat → Int) (q : Nat → Bool) (l : List Nat) :
    ((l.filter q).map f).sum = (l.map fun i => if q i then f i else 0).sum := by
  induction l with
  | nil => rfl
  | cons a l ih =>
    by_cases h : q a <;> simp [h, ih]

theorem range64_flip_perm : ((List.range 64).map (· ^^^ 56)).Perm (List.range 64) := by
  rw [← List.isPerm_iff]; decide +kernel

/-- `Σ_{s ∈ flipV b} f s = Σ_{s ∈ b} f (s ^^^ 56)` -/
theorem sumOver_flipV (f : Nat → Int) (b : BB) : sumOver f (flipV b) = sumOver (fun s => f (s ^^^ 56)) b := by
  unfold sumOver squares
  rw [sum_filter_eq, sum_filter_eq]
  have h1 : (List.range 64).map (fun i => if (flipV b).getLsbD i then f i else 0)
      = ((List.range 64).map (· ^^^ 56)).map (fun j => if b.getLsbD j then f (j ^^^ 56) else 0) := by
    rw [List.map_map]
    apply List.map_congr_left
    intro i hi
    have hi := List.mem_range.1 hi
    simp only [Function.comp, getLsbD_flipV _ _ hi, fl_fl i hi]
  rw [h1]
  exact perm_sum_int (range64_flip_perm.map _)

theorem popcount_eq_sumOver (b : BB) : pc b = sumOver (fun _ => 1) b := by
  unfold pc popcount sumOver
  induction squares b with
  | nil => rfl
  | cons a l ih => simp only [List.length_cons, List.map_cons, List.sum_cons]; omega

theorem pc_flipV (b : BB) : pc (flipV b) = pc b := by
  rw [popcount_eq_sumOver, popcount_eq_sumOver, sumOver_flipV]

theorem popcount_flipV (b : BB) : popcount (flipV b) = popcount b := by
  have := pc_flipV b; unfold pc at this; omega

/-! ### union-homomorphisms -/

/-- `f` commutes with unions (shifts, masks, fills, leaper attack sets, the flip …) -/
structure IsHom (f : BB → BB) : Prop where
  zero : f 0#64 = 0#64
  or : ∀ a b, f (a ||| b) = f a ||| f b

theorem getLsbD_foldl_bit (l : List Nat) (hl : ∀ s ∈ l, s < 64) (a : BB) (i : Nat) :
    (l.foldl (fun acc s => acc ||| bit s) a).getLsbD i = (a.getLsbD i || decide (i ∈ l)) := by
  induction l generalizing a with
  | nil => simp
  | cons x l ih =>
    rw [List.foldl_cons, ih (fun s hs => hl s (by simp [hs]))]
    rw [BitVec.getLsbD_or, getLsbD_bit x i (hl x (by simp))]
    simp [Bool.or_assoc]

theorem ofSquares_squares (b : BB) : (squares b).foldl (fun acc s => acc ||| bit s) 0#64 = b := by
  apply BitVec.eq_of_getLsbD_eq
  intro i hi
  rw [getLsbD_foldl_bit _ (fun s hs => lt_of_mem_squares hs)]
  by_cases h : b.getLsbD i
  · simp [h, mem_squares_E, hi]
  · simp [h, mem_squares_E]

theorem IsHom.foldl {f : BB → BB} (hf : IsHom f) (l : List Nat) (a : BB) :
    f (l.foldl (fun acc s => acc ||| bit s) a) = l.foldl (fun acc s => acc ||| f (bit s)) (f a) := by
  induction l generalizing a with
  | nil => rfl
  | cons x l ih => rw [List.foldl_cons, ih, hf.or, List.foldl_cons]

/-- a union-homomorphism is determined by its values on the 64 single squares -/
theorem IsHom.ext {f g : BB → BB} (hf : IsHom f) (hg : IsHom g) (h : ∀ s < 64, f (bit s) = g (bit s)) (b : BB) :
    f b = g b := by
  rw [← ofSquares_squares b, hf.foldl, hg.foldl, hf.zero, hg.zero]
  generalize (0#64 : BB) = a
  have hl : ∀ s ∈ squares b, s < 64 := fun s hs => lt_of_mem_squares hs
  generalize squares b = l at hl
  induction l generalizing a with
  | nil => rfl
  | cons x l ih =>
    rw [List.foldl_cons, List.foldl_cons, h x (hl x (by simp))]
    exact ih _ (fun s hs => hl s (by simp [hs]))

end Clemens
