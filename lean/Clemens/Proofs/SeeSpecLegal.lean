import Clemens.Proofs.SeeSpecInit
/-
C18b (c) — what legality of the position and of the first capture give: no king that stays where it is is attacked
(in the original position) by an enemy piece other than the captured one (`KingSafe`); if the first capturer is the
king, nothing attacks the target afterwards (`FirstKingOK`).
-/
namespace Clemens.P18
open Clemens

theorem and_ne_zero (x y : BB) (a : Nat) (ha : a < 64) (hx : x.getLsbD a = true) (hy : y.getLsbD a = true) :
    ((x &&& y) != 0#64) = true := by
  rw [bne_zero_iff]
  exact ⟨a, ha, by rw [BitVec.getLsbD_and, hx, hy]; rfl⟩

theorem color_lt : ∀ pc ∈ pieceCodes, pc ≠ 0 → Fide.colorOf pc < 2 := by decide

theorem pieceColor_newPiece (c k : Nat) (hc : c < 2) (hk : k < 6) : pieceColor (newPiece c k) = c :=
  (GM.newPiece_facts c hc k hk).2.2.1

/-- the successor's board for a capture that is not en passant -/
theorem succ_at (K : Keys) (p q : Pos) (m : Move) (g : GenShape p m) (hside : p.side < 2) (hcap : p.at m.tgt ≠ 0)
    (hkind : m.kind ≠ 2) (hq : makeMove K p m = some q) :
    ∀ j, q.at j = if j = m.tgt then (if m.kind = 1 then newPiece p.side m.promo else p.at m.src)
      else if j = m.src then 0 else p.at j := by
  have hk3 : m.kind ≠ 3 := fun h => hcap (g.castle_geom h).2.2.2
  rw [makeMove_mid g.src_lt g.tgt_lt g.ne g.own.2.1 (g.target.imp id And.left) hside] at hq
  by_cases hk1 : m.kind = 1
  · have hst : stKind K (mid K p m) m =
        some (setP K (delP K (mid K p m) m.tgt) (newPiece (mid K p m).side m.promo) m.tgt) :=
      stKind_promo hk1 g.tgt_lt (by rw [mid_at K p m g.tgt_lt, if_pos rfl]; exact g.own.2.1)
        (by rw [mid_side]; exact valid_newPiece hside (g.promo_piece hk1).2)
    rw [hst, Option.map_some, Option.some.injEq] at hq
    subst hq
    intro j
    rw [stFinish_at, setP_at, delP_at, mid_at K p m g.tgt_lt, mid_side, if_pos hk1]
    by_cases e : j = m.tgt
    · simp [e, g.tgt_lt]
    · simp [e]
  · have hst : stKind K (mid K p m) m = some (mid K p m) := by
      unfold stKind; simp [hk3, hkind, hk1]
    rw [hst, Option.map_some, Option.some.injEq] at hq
    subst hq
    intro j
    rw [stFinish_at, mid_at K p m g.tgt_lt, if_neg hk1]

/-- everything the legality hypotheses give about the successor -/
structure SuccFacts (p q : Pos) (m : Move) : Prop where
  shape : wfShape q = true
  side : q.side = switchColor p.side
  at_eq : ∀ j, q.at j = if j = m.tgt then (if m.kind = 1 then newPiece p.side m.promo else p.at m.src)
      else if j = m.src then 0 else p.at j
  nocheck : isInCheck q p.side = false

theorem succFacts (K : Keys) (p : Pos) (hw : WF p = true) (m : Move) (hcap : p.at m.tgt ≠ 0) (hkind : m.kind ≠ 2)
    (hgen : m ∈ genMoves p) (q : Pos) (hq : makeMove K p m = some q) (hlegal : isLegal q = true) :
    SuccFacts p q m := by
  obtain ⟨hsh, hst, _⟩ := GM.WF_parts p hw
  have hside := (GM.state_parts p hst).1
  have g := genMoves_shape p hw m hgen
  have hk3 : m.kind ≠ 3 := fun h => hcap (g.castle_geom h).2.2.2
  have hqs := (makeMove_side_ply hq).1
  refine ⟨LBV.makeMove_agrees_core K p q m hq (LBV.agrees_of_wfShape_core p hsh) (fun k3 => absurd k3 hk3), hqs,
    succ_at K p q m g hside hcap hkind hq, ?_⟩
  unfold isLegal at hlegal
  rw [hqs, sw_sw p.side hside] at hlegal
  simpa using hlegal

/-- occupancy of the successor is contained in the old one -/
theorem SuccFacts.all_sub {p q : Pos} {m : Move} (sf : SuccFacts p q m) (hsh : wfShape p = true)
    (hcap : p.at m.tgt ≠ 0) : ∀ u, u < 64 → q.all.getLsbD u = true → p.all.getLsbD u = true := by
  intro u hu h
  rw [all_bit q sf.shape u hu, sf.at_eq u] at h
  rw [all_bit p hsh u hu]
  by_cases e1 : u = m.tgt
  · rw [e1]; simpa using hcap
  · rw [if_neg e1] at h
    by_cases e2 : u = m.src
    · rw [if_pos e2] at h; simp at h
    · rw [if_neg e2] at h; exact h

/-- an enemy piece that attacks the square `k` in `p` still does so in the successor -/
theorem SuccFacts.still_attacks {p q : Pos} {m : Move} (sf : SuccFacts p q m) (hsh : wfShape p = true)
    (hcap : p.at m.tgt ≠ 0) (k S : Nat) (hk : k < 64) (hS : S < 64) (hSt : S ≠ m.tgt) (hSs : S ≠ m.src)
    (h : attT p.all (p.at S) k S = true) : (squareAttackedBy q k).getLsbD S = true := by
  rw [squareAttackedBy_eq_attBB, attBB_bit q sf.shape k S q.all hk hS, sf.at_eq S, if_neg hSt, if_neg hSs]
  exact attT_mono p.all q.all _ _ _ (sf.all_sub hsh hcap) h

theorem byColor_of (p : Pos) (hsh : wfShape p = true) (c a : Nat) (hc : c < 2) (ha : a < 64) (h0 : p.at a ≠ 0)
    (hcol : Fide.colorOf (p.at a) = c) : (p.byColor c).getLsbD a = true := by
  rw [byColor_bit p hsh c a hc ha]
  unfold Fide.isOwn
  rw [absPos_at_A, hcol]
  simpa using h0

theorem inCheck_of_attacker (p : Pos) (hsh : wfShape p = true) (c k S : Nat) (hc : c < 2) (hk : k < 64) (hS : S < 64)
    (hU : ∀ j, p.at j = newPiece c KING ↔ j = k)
    (hatt : (squareAttackedBy p k).getLsbD S = true) (h0 : p.at S ≠ 0)
    (hcol : Fide.colorOf (p.at S) = switchColor c) : isInCheck p c = true := by
  have h1 : popcount (p.pieces c KING) = 1 := (LG.popcount_king_iff p hsh c hc).2 ⟨k, hU⟩
  have hl := GM.king_square p hsh c k hc hk h1 ((hU k).2 rfl)
  unfold isInCheck
  simp only [hl]
  exact and_ne_zero _ _ S hS hatt (byColor_of p hsh _ S (switchColor_lt c) hS h0 hcol)

theorem kingSafe_of_legal (K : Keys) (p : Pos) (hw : WF p = true) (m : Move) (hcap : p.at m.tgt ≠ 0)
    (hkind : m.kind ≠ 2) (hgen : m ∈ genMoves p) (q : Pos) (hq : makeMove K p m = some q) (hlegal : isLegal q = true) :
    KingSafe p m.src m.tgt := by
  obtain ⟨hsh, hst, hch⟩ := GM.WF_parts p hw
  have hside := (GM.state_parts p hst).1
  have cp := GM.chess_parts p hch
  have g := genMoves_shape p hw m hgen
  have sf := succFacts K p hw m hcap hkind hgen q hq hlegal
  intro c k S hc hk hS hpk hksrc hSt hpS hcol
  cases hatt : attT p.all (p.at S) k S with
  | false => rfl
  | true =>
    exfalso
    have hcolS : Fide.colorOf (p.at S) = switchColor c := by
      have := color_lt _ (wfShape_code' p hsh S hS) hpS
      unfold switchColor
      split <;> omega
    obtain ⟨k0, hU⟩ := LG.king_of_WF p hw c hc
    have hk0 : k = k0 := (hU k).1 hpk
    subst hk0
    by_cases hcs : c = p.side
    · -- the king of the side to move stays where it is: still attacked after the move
      subst hcs
      have hSs : S ≠ m.src := by
        intro e
        have h1 := g.own.2.2
        rw [← e, LG.pieceColor_colorOf p hsh S hpS] at h1
        exact hcol h1
      have hkt : k ≠ m.tgt := by
        intro e
        rcases g.target with h | h
        · exact hcap h
        · rw [← e, hpk, pieceColor_newPiece _ _ hc (by decide)] at h; exact h.2 rfl
      have hUq : ∀ j, q.at j = newPiece p.side KING ↔ j = k := by
        intro j
        rw [sf.at_eq j]
        by_cases e1 : j = m.tgt
        · rw [if_pos e1]
          constructor
          · intro h
            exfalso
            by_cases hk1 : m.kind = 1
            · rw [if_pos hk1] at h
              have := (newPiece_inj _ _ _ _ (by have := (g.promo_piece hk1).2; omega) (by decide) h).2
              have := (g.promo_piece hk1).2
              unfold KING at *
              omega
            · rw [if_neg hk1] at h
              exact hksrc ((hU m.src).1 h).symm
          · intro h; rw [h] at e1; exact absurd e1 hkt
        · rw [if_neg e1]
          by_cases e2 : j = m.src
          · rw [if_pos e2]
            constructor
            · intro h; exact absurd h.symm (newPiece_ne_zero _ _)
            · intro h; rw [h] at e2; exact absurd e2 hksrc
          · rw [if_neg e2]; exact hU j
      have hq0 : q.at S = p.at S := by rw [sf.at_eq S, if_neg hSt, if_neg hSs]
      have := inCheck_of_attacker q sf.shape p.side k S hc hk hS hUq
        (sf.still_attacks hsh hcap k S hk hS hSt hSs hatt) (by rw [hq0]; exact hpS) (by rw [hq0]; exact hcolS)
      rw [sf.nocheck] at this; cases this
    · -- the king of the side not to move: in check in a legal position
      have hcs' : c = switchColor p.side := by
        unfold switchColor; split <;> omega
      have hatt' : (squareAttackedBy p k).getLsbD S = true := by
        rw [squareAttackedBy_eq_attBB, attBB_bit p hsh k S p.all hk hS]; exact hatt
      have := inCheck_of_attacker p hsh c k S hc hk hS hU hatt' hpS hcolS
      rw [hcs', cp.nocheck] at this; cases this

theorem firstKingOK_of_legal (K : Keys) (p : Pos) (hw : WF p = true) (m : Move) (hcap : p.at m.tgt ≠ 0)
    (hkind : m.kind ≠ 2) (hgen : m ∈ genMoves p) (q : Pos) (hq : makeMove K p m = some q) (hlegal : isLegal q = true) :
    FirstKingOK p m := by
  obtain ⟨hsh, hst, hch⟩ := GM.WF_parts p hw
  have hside := (GM.state_parts p hst).1
  have g := genMoves_shape p hw m hgen
  have sf := succFacts K p hw m hcap hkind hgen q hq hlegal
  have cf := capFacts p hw m hcap hgen
  intro hking
  have hk1 : m.kind ≠ 1 := by
    intro h
    have := (g.promo.1 h).1
    rw [hking] at this; cases this
  have hsrcK : p.at m.src = newPiece p.side KING := by
    have := cf.src_piece
    rw [hking] at this; exact this
  obtain ⟨k0, hU⟩ := LG.king_of_WF p hw p.side hside
  have hk0 : m.src = k0 := (hU m.src).1 hsrcK
  -- in the successor the king stands on the target
  have hUq : ∀ j, q.at j = newPiece p.side KING ↔ j = m.tgt := by
    intro j
    rw [sf.at_eq j]
    by_cases e1 : j = m.tgt
    · rw [if_pos e1, if_neg hk1]; exact ⟨fun _ => e1, fun _ => hsrcK⟩
    · rw [if_neg e1]
      by_cases e2 : j = m.src
      · rw [if_pos e2]
        exact ⟨fun h => absurd h.symm (newPiece_ne_zero _ _), fun h => absurd h e1⟩
      · rw [if_neg e2]
        constructor
        · intro h; exact absurd (((hU j).1 h).trans hk0.symm) e2
        · intro h; exact absurd h e1
  -- hence no enemy piece attacks the target in the successor
  have hno : ∀ a, a < 64 → (squareAttackedBy q m.tgt).getLsbD a = true → q.at a ≠ 0 →
      Fide.colorOf (q.at a) = switchColor p.side → False := by
    intro a ha h1 h2 h3
    have := inCheck_of_attacker q sf.shape p.side m.tgt a hside g.tgt_lt ha hUq h1 h2 h3
    rw [sf.nocheck] at this; cases this
  constructor
  · intro a ha hatt
    cases hbc : (p.byColor (switchColor p.side)).getLsbD a with
    | false => rfl
    | true =>
      exfalso
      rw [byColor_bit p hsh _ a (switchColor_lt _) ha] at hbc
      unfold Fide.isOwn at hbc
      rw [absPos_at_A, Bool.and_eq_true, bne_iff_ne, beq_iff_eq] at hbc
      rw [squareAttackedBy_eq_attBB, attBB_bit p hsh m.tgt a p.all g.tgt_lt ha] at hatt
      have hat : a ≠ m.tgt := by
        intro e; rw [e, attT_self _ _ _ g.tgt_lt] at hatt; cases hatt
      have has : a ≠ m.src := by
        intro e
        rw [e, hsrcK] at hbc
        have h5 := (newPiece_color _ hside KING (by decide)).1
        rw [h5] at hbc
        exact sw_ne p.side hside hbc.2.symm
      have hq0 : q.at a = p.at a := by rw [sf.at_eq a, if_neg hat, if_neg has]
      exact hno a ha (sf.still_attacks hsh hcap m.tgt a g.tgt_lt ha hat has hatt) (by rw [hq0]; exact hbc.1)
        (by rw [hq0]; exact hbc.2)
  · cases hsc : Fide.attacked (capBoard (absPos p) m.src m.tgt) (Fide.other p.side) m.tgt with
    | false => rfl
    | true =>
      exfalso
      have hRt : (0#64 ||| bit m.src).getLsbD m.tgt = false := by
        rw [zero_or_bit, getLsbD_bit m.src m.tgt cf.src_lt]; simp [Ne.symm cf.ne]
      obtain ⟨a, ha, hat, hRa, hpa, hca, hatt⟩ :=
        ((board_init p m cf).attacked_iff hsh g.tgt_lt hcap hRt (Fide.other p.side)).1 hsc
      have has : a ≠ m.src := by
        intro e
        rw [e, zero_or_bit, getLsbD_bit m.src m.src cf.src_lt] at hRa
        simp at hRa
      have hq0 : q.at a = p.at a := by rw [sf.at_eq a, if_neg hat, if_neg has]
      apply hno a ha ?_ (by rw [hq0]; exact hpa) (by rw [hq0, hca, switchColor_eq_other p.side hside])
      rw [squareAttackedBy_eq_attBB, attBB_bit q sf.shape m.tgt a q.all g.tgt_lt ha, hq0]
      rw [← attT_congr (occOf p (0#64 ||| bit m.src)) q.all (p.at a) m.tgt a ?_]
      · exact hatt
      · intro u hu
        rw [occOf_or_bit p _ m.src u cf.src_lt hu, occOf_zero p u hu, all_bit q sf.shape u hu, all_bit p hsh u hu,
          sf.at_eq u]
        by_cases e1 : u = m.tgt
        · rw [if_pos e1, if_neg hk1, e1]
          have h1 : (p.at m.src != 0) = true := by rw [bne_iff_ne, hsrcK]; exact newPiece_ne_zero _ _
          have h2 : (p.at m.tgt != 0) = true := by rw [bne_iff_ne]; exact hcap
          rw [h1, h2]; simp [Ne.symm cf.ne]
        · rw [if_neg e1]
          by_cases e2 : u = m.src
          · rw [if_pos e2]; simp [e2]
          · rw [if_neg e2]; simp [e2]

end Clemens.P18
