import Clemens.Proofs.GenReachCnt
import Clemens.Props.C15
import Clemens.Props.C17
import Clemens.Proofs.LegalWF
/-
P04m, part 2: legal material (`LegalMaterial`, C15) is kept by every generated move that passes the legality filter.

`cnt f X`: the number of squares on which the board function `f` shows the piece code `X`; for a shape-consistent position the
popcount of a piece set is the count of its code on the board array (`popcount_eq_cnt`).  The successor board of a generated move
is `LG.succAt` (pointwise updates, C01/C02), and a pointwise update changes a count by `- [old = X] + [new = X]` (`cnt_upd`); the
balance over a whole move is `cnt_succ`.  Hence every one of the twelve popcounts can only go down, except that a promotion takes
one pawn away and adds one piece (`material_step_rng`; the king counts come from `WF` of the successor, `LG.WF_succ`).
-/
namespace Clemens
namespace GR
open GM LG

/-- number of squares `< n` on which the board function `f` shows the code `X` -/
def cntN (f : Nat → Nat) (X n : Nat) : Nat := (List.range n).countP (fun j => f j == X)

def cnt (f : Nat → Nat) (X : Nat) : Nat := cntN f X 64

theorem cntN_succ (f : Nat → Nat) (X n : Nat) : cntN f X (n + 1) = cntN f X n + (if f n = X then 1 else 0) := by
  unfold cntN
  rw [List.range_succ, List.countP_append, List.countP_singleton]
  simp only [beq_iff_eq]

theorem cntN_upd (f : Nat → Nat) (a x X n : Nat) :
    cntN (upd f a x) X n + (if a < n ∧ f a = X then 1 else 0) = cntN f X n + (if a < n ∧ x = X then 1 else 0) := by
  induction n with
  | zero => simp [cntN]
  | succ n ih =>
    rw [cntN_succ, cntN_succ, upd_apply]
    by_cases h : n = a
    · subst h
      simp only [Nat.lt_irrefl, false_and, if_false, Nat.add_zero, if_true, Nat.lt_succ_self, true_and] at ih ⊢
      omega
    · have h1 : (a < n + 1) ↔ (a < n) := by omega
      rw [if_neg h]
      simp only [h1]
      omega

theorem cnt_upd (f : Nat → Nat) (a x X : Nat) (ha : a < 64) :
    cnt (upd f a x) X + (if f a = X then 1 else 0) = cnt f X + (if x = X then 1 else 0) := by
  have := cntN_upd f a x X 64
  simp only [ha, true_and] at this
  exact this

theorem cnt_congr (f g : Nat → Nat) (X : Nat) (h : ∀ j, f j = g j) : cnt f X = cnt g X := by
  have : f = g := funext h
  rw [this]

theorem popcount_eq_cnt (p : Pos) (hsh : wfShape p = true) (c t : Nat) (hc : c < 2) (ht : t < 6) :
    popcount (p.pieces c t) = cnt p.at (newPiece c t) := by
  unfold popcount squares cnt cntN
  rw [List.countP_eq_length_filter]
  congr 1
  apply List.filter_congr
  intro j hj
  exact ((shape_parts p hsh).1 j (List.mem_range.1 hj)).2 c hc t ht

theorem color_ne (c : Nat) (_hc : c < 2) (T : Nat) (hT : T < 6) (pc : Nat) (h : pieceColor pc = c) :
    pc ≠ newPiece (switchColor c) T := by
  intro e
  rw [e] at h
  have := (newPiece_facts (switchColor c) (switchColor_lt' c) T hT).2.2.1
  rw [this] at h
  unfold switchColor at h
  split at h <;> omega

/-- the balance of the code `X` over a generated move -/
theorem cnt_succ (p : Pos) (m : Move) (g : GenShape p m) (hside : p.side < 2) (X : Nat) (hX : X ≠ 0) :
    cnt (succAt p m) X + (if p.at m.tgt = X then 1 else 0)
        + (if m.kind = 2 ∧ newPiece (switchColor p.side) PAWN = X then 1 else 0)
        + (if m.kind = 1 ∧ p.at m.src = X then 1 else 0)
      = cnt p.at X + (if m.kind = 1 ∧ newPiece p.side m.promo = X then 1 else 0) := by
  have hs := g.src_lt
  have ht := g.tgt_lt
  have hne := g.ne
  have h2 := cnt_upd p.at m.src 0 X hs
  have e0 : upd p.at m.src 0 m.tgt = p.at m.tgt := by rw [upd_apply, if_neg (fun e => hne e.symm)]
  have h0X : ¬ (0 = X) := fun e => hX e.symm
  rw [if_neg h0X] at h2
  have hk := g.kind_lt
  by_cases k1 : m.kind = 1
  · have h1 := cnt_upd (upd p.at m.src 0) m.tgt (newPiece p.side m.promo) X ht
    rw [e0] at h1
    have e : succAt p m = upd (upd p.at m.src 0) m.tgt (newPiece p.side m.promo) := by
      unfold succAt placedPc
      simp [k1]
    rw [e]
    simp only [k1, true_and, show ¬ ((1 : Nat) = 2) by omega, false_and, if_false]
    omega
  · have h1 := cnt_upd (upd p.at m.src 0) m.tgt (p.at m.src) X ht
    rw [e0] at h1
    simp only [k1, false_and, if_false, Nat.add_zero]
    by_cases k2 : m.kind = 2
    · obtain ⟨v1, v2, v3⟩ := g.ep_victim k2
      have htz : p.at m.tgt = 0 := (g.ep.1 k2).2.2
      have hv : victimSq p m < 64 := by unfold victimSq; split <;> omega
      have hvt : victimSq p m ≠ m.tgt := by unfold victimSq; split <;> omega
      have hvs : victimSq p m ≠ m.src := by
        intro e
        unfold victimSq at e
        rw [e] at v1
        exact color_ne p.side hside PAWN (by decide) _ g.own.2.2 v1
      have e : succAt p m = upd (upd (upd p.at m.src 0) m.tgt (p.at m.src)) (victimSq p m) 0 := by
        unfold succAt placedPc
        simp [k2]
      have h3 := cnt_upd (upd (upd p.at m.src 0) m.tgt (p.at m.src)) (victimSq p m) 0 X hv
      have e3 : upd (upd p.at m.src 0) m.tgt (p.at m.src) (victimSq p m) = newPiece (switchColor p.side) PAWN := by
        rw [upd_apply, if_neg hvt, upd_apply, if_neg hvs]
        exact v1
      rw [e3, if_neg h0X] at h3
      rw [e]
      simp only [k2, true_and]
      omega
    · simp only [k2, false_and, if_false, Nat.add_zero]
      by_cases k3 : m.kind = 3
      · obtain ⟨c1, c2, c3, c4⟩ := g.castle_geom k3
        have hd := (g.castle.1 k3).2
        have hrf : rookFrom m < 64 := by unfold rookFrom; split <;> omega
        have hrt : rookTo m < 64 := by unfold rookTo; split <;> omega
        have n1 : rookFrom m ≠ m.src := by unfold rookFrom; split <;> omega
        have n2 : rookFrom m ≠ m.tgt := by unfold rookFrom; split <;> omega
        have n3 : rookTo m ≠ m.src := by unfold rookTo; split <;> omega
        have n4 : rookTo m ≠ m.tgt := by unfold rookTo; split <;> omega
        have n5 : rookTo m ≠ rookFrom m := by unfold rookTo rookFrom; split <;> omega
        have e : succAt p m = upd (upd (upd (upd p.at m.src 0) m.tgt (p.at m.src)) (rookFrom m) 0) (rookTo m)
            (newPiece p.side ROOK) := by
          unfold succAt placedPc
          simp [k3]
        have h3 := cnt_upd (upd (upd (upd p.at m.src 0) m.tgt (p.at m.src)) (rookFrom m) 0) (rookTo m) (newPiece p.side ROOK) X hrt
        have h4 := cnt_upd (upd (upd p.at m.src 0) m.tgt (p.at m.src)) (rookFrom m) 0 X hrf
        have e3 : upd (upd (upd p.at m.src 0) m.tgt (p.at m.src)) (rookFrom m) 0 (rookTo m) = 0 := by
          rw [upd_apply, if_neg n5, upd_apply, if_neg n4, upd_apply, if_neg n3]
          exact c3
        have e4 : upd (upd p.at m.src 0) m.tgt (p.at m.src) (rookFrom m) = newPiece p.side ROOK := by
          rw [upd_apply, if_neg n2, upd_apply, if_neg n1]
          exact c2
        rw [e3] at h3
        rw [e4] at h4
        rw [if_neg h0X] at h3 h4
        rw [e]
        omega
      · have e : succAt p m = upd (upd p.at m.src 0) m.tgt (p.at m.src) := by
          unfold succAt placedPc
          simp [k1, k2, k3]
        rw [e]
        omega

/-! ### legal material after a generated move -/

theorem legalSide_of_le (p q : Pos) (c : Nat) (hk : popcount (q.pieces c KING) = 1)
    (h : ∀ t, t < 5 → popcount (q.pieces c t) ≤ popcount (p.pieces c t)) (hp : LegalSide p c) : LegalSide q c := by
  unfold LegalSide at *
  have h0 := h 0 (by omega)
  have h1 := h 1 (by omega)
  have h2 := h 2 (by omega)
  have h3 := h 3 (by omega)
  have h4 := h 4 (by omega)
  simp only [PAWN, KNIGHT, BISHOP, ROOK, QUEEN, KING] at *
  omega

theorem legalSide_of_promo (p q : Pos) (c T : Nat) (hT : 1 ≤ T ∧ T ≤ 4) (hk : popcount (q.pieces c KING) = 1)
    (hpawn : popcount (q.pieces c PAWN) + 1 ≤ popcount (p.pieces c PAWN))
    (hT' : popcount (q.pieces c T) ≤ popcount (p.pieces c T) + 1)
    (h : ∀ t, 1 ≤ t → t ≤ 4 → t ≠ T → popcount (q.pieces c t) ≤ popcount (p.pieces c t)) (hp : LegalSide p c) :
    LegalSide q c := by
  unfold LegalSide at *
  simp only [PAWN, KNIGHT, BISHOP, ROOK, QUEEN, KING] at *
  have hT4 : T = 1 ∨ T = 2 ∨ T = 3 ∨ T = 4 := by omega
  rcases hT4 with rfl | rfl | rfl | rfl
  · have h2 := h 2 (by omega) (by omega) (by omega)
    have h3 := h 3 (by omega) (by omega) (by omega)
    have h4 := h 4 (by omega) (by omega) (by omega)
    omega
  · have h1 := h 1 (by omega) (by omega) (by omega)
    have h3 := h 3 (by omega) (by omega) (by omega)
    have h4 := h 4 (by omega) (by omega) (by omega)
    omega
  · have h1 := h 1 (by omega) (by omega) (by omega)
    have h2 := h 2 (by omega) (by omega) (by omega)
    have h4 := h 4 (by omega) (by omega) (by omega)
    omega
  · have h1 := h 1 (by omega) (by omega) (by omega)
    have h2 := h 2 (by omega) (by omega) (by omega)
    have h3 := h 3 (by omega) (by omega) (by omega)
    omega

theorem newPiece_inj' (c t c' t' : Nat) (ht : t < 6) (ht' : t' < 6) (h : newPiece c t = newPiece c' t') : c = c' ∧ t = t' := by
  unfold newPiece at h; omega

/-- material is legal again after a generated move that passes the legality filter (within the counter range) -/
theorem material_step_rng (K : Keys) (p : Pos) (hw : WF p = true) (hr : p.ply < 255 ∧ p.hmc < 255) (m : Move)
    (hm : m ∈ genMoves p) (q : Pos) (hq : makeMove K p m = some q) (hl : isLegal q = true) (hmat : LegalMaterial p) :
    LegalMaterial q := by
  obtain ⟨hsh, hst, hch⟩ := WF_parts p hw
  obtain ⟨hs2, _, _⟩ := state_parts p hst
  have g := genMoves_shape p hw m hm
  obtain ⟨q', hq', _, hshq, _, _, hat⟩ := succ_exists K p hw hr m hm
  rw [hq] at hq'
  injection hq' with hq'
  subst hq'
  have hwq := WF_succ K p hw hr m hm q hq hl
  have cq := chess_parts q (WF_parts q hwq).2.2
  have hkq : ∀ c, c < 2 → popcount (q.pieces c KING) = 1 := by
    intro c hc
    have : c = 0 ∨ c = 1 := by omega
    rcases this with rfl | rfl
    · exact cq.wk
    · exact cq.bk
  -- the counts
  have hcnt : ∀ c t, c < 2 → t < 6 → popcount (q.pieces c t) + (if p.at m.tgt = newPiece c t then 1 else 0)
        + (if m.kind = 2 ∧ newPiece (switchColor p.side) PAWN = newPiece c t then 1 else 0)
        + (if m.kind = 1 ∧ p.at m.src = newPiece c t then 1 else 0)
      = popcount (p.pieces c t) + (if m.kind = 1 ∧ newPiece p.side m.promo = newPiece c t then 1 else 0) := by
    intro c t hc ht
    rw [popcount_eq_cnt q hshq c t hc ht, popcount_eq_cnt p hsh c t hc ht, cnt_congr q.at (succAt p m) _ hat]
    exact cnt_succ p m g hs2 _ (newPiece_facts c hc t ht).1
  have hle : ∀ c t, c < 2 → t < 6 → ¬ (m.kind = 1 ∧ c = p.side ∧ t = m.promo) →
      popcount (q.pieces c t) ≤ popcount (p.pieces c t) := by
    intro c t hc ht hn
    have := hcnt c t hc ht
    have hn' : ¬ (m.kind = 1 ∧ newPiece p.side m.promo = newPiece c t) := by
      rintro ⟨k1, e⟩
      have hp := g.promo_piece k1
      obtain ⟨e1, e2⟩ := newPiece_inj' _ _ _ _ (by omega) ht e
      exact hn ⟨k1, e1.symm, e2.symm⟩
    rw [if_neg hn'] at this
    omega
  by_cases k1 : m.kind = 1
  · have hpp := g.promo_piece k1
    have hsrc : p.at m.src = newPiece p.side PAWN := own_pawn_code p hsh m g (g.promo.1 k1).1
    have hside : ∀ c, c < 2 → c ≠ p.side → LegalSide q c := by
      intro c hc hne
      have hp : LegalSide p c := by
        have : c = 0 ∨ c = 1 := by omega
        rcases this with rfl | rfl
        · exact hmat.1
        · exact hmat.2
      exact legalSide_of_le p q c (hkq c hc) (fun t ht => hle c t hc (by omega) (fun h => hne h.2.1)) hp
    have hown : LegalSide q p.side := by
      have hp : LegalSide p p.side := by
        have : p.side = 0 ∨ p.side = 1 := by omega
        rcases this with e | e <;> rw [e]
        · exact hmat.1
        · exact hmat.2
      apply legalSide_of_promo p q p.side m.promo hpp (hkq _ hs2) ?_ ?_ ?_ hp
      · have := hcnt p.side PAWN hs2 (by decide)
        have hn' : ¬ (m.kind = 1 ∧ newPiece p.side m.promo = newPiece p.side PAWN) := by
          rintro ⟨_, e⟩
          have := (newPiece_inj' _ _ _ _ (by omega) (by decide) e).2
          simp only [PAWN] at this
          omega
        rw [if_neg hn', if_pos (show m.kind = 1 ∧ p.at m.src = newPiece p.side PAWN from ⟨k1, hsrc⟩)] at this
        omega
      · have := hcnt p.side m.promo hs2 (by omega)
        rw [if_pos (show m.kind = 1 ∧ newPiece p.side m.promo = newPiece p.side m.promo from ⟨k1, rfl⟩)] at this
        omega
      · intro t t1 t4 tne
        exact hle p.side t hs2 (by omega) (fun h => tne h.2.2)
    have : p.side = 0 ∨ p.side = 1 := by omega
    rcases this with e | e
    · exact ⟨by rw [← e]; exact hown, hside 1 (by omega) (by omega)⟩
    · exact ⟨hside 0 (by omega) (by omega), by rw [← e]; exact hown⟩
  · exact ⟨legalSide_of_le p q 0 (hkq 0 (by omega)) (fun t ht => hle 0 t (by omega) (by omega) (fun h => k1 h.1)) hmat.1,
      legalSide_of_le p q 1 (hkq 1 (by omega)) (fun t ht => hle 1 t (by omega) (by omega) (fun h => k1 h.1)) hmat.2⟩
end GR
end Clemens

