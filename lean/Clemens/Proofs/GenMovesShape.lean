import Clemens.Proofs.GenMovesNodup
import Clemens.Props.C19
/-
C01a lemmas: every generated move word has the shape that `MakeMove` (C02, `MoveShape`) relies on.
-/
namespace Clemens

/-- what a generated move word looks like in its position (the content of `MoveShape` of C02, made precise) -/
structure GenShape (p : Pos) (m : Move) : Prop where
  src_lt : m.src < 64
  tgt_lt : m.tgt < 64
  ne : m.src ≠ m.tgt
  own : p.at m.src ≠ 0 ∧ validPiece (p.at m.src) = true ∧ pieceColor (p.at m.src) = p.side
  target : p.at m.tgt = 0 ∨ (validPiece (p.at m.tgt) = true ∧ pieceColor (p.at m.tgt) ≠ p.side)
  kind_lt : m.kind < 4
  castle : m.kind = 3 ↔ (pieceType (p.at m.src) = KING ∧ (m.tgt = m.src + 2 ∨ m.src = m.tgt + 2))
  castle_geom : m.kind = 3 → (m.src = 4 ∨ m.src = 60) ∧
    p.at (if m.tgt = m.src + 2 then m.src + 3 else m.src - 4) = newPiece p.side ROOK ∧
    p.at (if m.tgt = m.src + 2 then m.src + 1 else m.src - 1) = 0 ∧ p.at m.tgt = 0
  ep : m.kind = 2 ↔ (pieceType (p.at m.src) = PAWN ∧ fileOf m.src ≠ fileOf m.tgt ∧ p.at m.tgt = 0)
  ep_victim : m.kind = 2 →
    p.at (if p.side = 0 then m.tgt - 8 else m.tgt + 8) = newPiece (switchColor p.side) PAWN ∧ 8 ≤ m.tgt ∧ m.tgt < 56
  promo : m.kind = 1 ↔ (pieceType (p.at m.src) = PAWN ∧ (rankOf m.tgt = 7 ∨ rankOf m.tgt = 0))
  promo_piece : m.kind = 1 → 1 ≤ m.promo ∧ m.promo ≤ 4
  no_score : m < 65536

namespace GM

theorem newPiece_facts : ∀ c < 2, ∀ T < 6, newPiece c T ≠ 0 ∧ validPiece (newPiece c T) = true ∧
    pieceColor (newPiece c T) = c ∧ pieceType (newPiece c T) = T := by decide

theorem promo_range (m : Move) : 1 ≤ m.promo ∧ m.promo ≤ 4 := by
  have h : ∀ n : Nat, 1 ≤ ((n >>> 14) &&& 3) + 1 ∧ ((n >>> 14) &&& 3) + 1 ≤ 4 := by
    intro n
    have : (n >>> 14) &&& 3 ≤ 3 := Nat.and_le_right
    omega
  exact h m

/-- a decoded word (origin, target, kind) and the facts about it that make up `GenShape` -/
theorem shape_core (p : Pos) (m : Move) (s t k T : Nat)
    (hs : s < 64) (ht : t < 64) (hsrc : m.src = s) (htgt : m.tgt = t) (hkind : m.kind = k) (hk : k < 4)
    (hlt : m < 65536) (hne : s ≠ t) (hside : p.side < 2) (hT : T < 6) (hat : p.at s = newPiece p.side T)
    (htarget : p.at t = 0 ∨ (validPiece (p.at t) = true ∧ pieceColor (p.at t) ≠ p.side))
    (hcastle : k = 3 ↔ (T = KING ∧ (t = s + 2 ∨ s = t + 2)))
    (hgeom : k = 3 → (s = 4 ∨ s = 60) ∧ p.at (if t = s + 2 then s + 3 else s - 4) = newPiece p.side ROOK ∧
      p.at (if t = s + 2 then s + 1 else s - 1) = 0 ∧ p.at t = 0)
    (hep : k = 2 ↔ (T = PAWN ∧ fileOf s ≠ fileOf t ∧ p.at t = 0))
    (hvict : k = 2 → p.at (if p.side = 0 then t - 8 else t + 8) = newPiece (switchColor p.side) PAWN ∧ 8 ≤ t ∧ t < 56)
    (hpromo : k = 1 ↔ (T = PAWN ∧ (rankOf t = 7 ∨ rankOf t = 0))) : GenShape p m := by
  obtain ⟨f1, f2, f3, f4⟩ := newPiece_facts p.side hside T hT
  refine ⟨by rw [hsrc]; exact hs, by rw [htgt]; exact ht, by rw [hsrc, htgt]; exact hne, ?_, ?_, by rw [hkind]; exact hk,
    ?_, ?_, ?_, ?_, ?_, fun _ => promo_range m, hlt⟩
  · rw [hsrc, hat]; exact ⟨f1, f2, f3⟩
  · rw [htgt]; exact htarget
  · rw [hsrc, htgt, hkind, hat, f4]; exact hcastle
  · rw [hsrc, htgt, hkind]; exact hgeom
  · rw [hsrc, htgt, hkind, hat, f4]; exact hep
  · rw [htgt, hkind]; exact hvict
  · rw [hsrc, htgt, hkind, hat, f4]; exact hpromo

theorem at_of_bit (p : Pos) (hsh : wfShape p = true) (c T : Nat) (hc : c < 2) (hT : T < 6) (s : Nat)
    (h : (p.pieces c T).getLsbD s = true) : p.at s = newPiece c T := by
  rw [((shape_parts p hsh).1 s (getLsbD_lt h)).2 c hc T hT] at h
  simpa using h

theorem target_of_notown (p : Pos) (hsh : wfShape p = true) (hside : p.side < 2) (t : Nat)
    (h : (p.byColor p.side).getLsbD t = false) :
    p.at t = 0 ∨ (validPiece (p.at t) = true ∧ pieceColor (p.at t) ≠ p.side) := by
  rw [byColor_iff p hsh _ hside] at h
  unfold Fide.isOwn at h
  rw [absPos_at] at h
  by_cases h0 : p.at t = 0
  · exact Or.inl h0
  · right
    obtain ⟨v, c1, _⟩ := codes_model _ (at_codes p hsh t) h0
    refine ⟨v, ?_⟩
    rw [c1]
    intro hc
    simp [h0, hc] at h

theorem target_of_enemy (p : Pos) (hsh : wfShape p = true) (hside : p.side < 2) (t : Nat)
    (h : (p.byColor (switchColor p.side)).getLsbD t = true) :
    p.at t ≠ 0 ∧ validPiece (p.at t) = true ∧ pieceColor (p.at t) ≠ p.side := by
  rw [switchColor_eq _ hside, byColor_iff p hsh _ (by unfold Fide.other; omega)] at h
  unfold Fide.isOwn at h
  rw [absPos_at, Bool.and_eq_true, beq_iff_eq] at h
  have h0 : p.at t ≠ 0 := by simpa using h.1
  obtain ⟨v, c1, _⟩ := codes_model _ (at_codes p hsh t) h0
  refine ⟨h0, v, ?_⟩
  rw [c1, h.2]
  unfold Fide.other; omega

/-- words of `genHelper` for a piece kind `T` -/
theorem shape_helper (p : Pos) (hsh : wfShape p = true) (hside : p.side < 2) (T : Nat) (hT : T < 6) (hT0 : T ≠ 0)
    (att : Nat → BB) (hking : T = KING → ∀ s < 64, ∀ t < 64, (att s).getLsbD t = true → ¬ (t = s + 2 ∨ t + 2 = s))
    (m : Move) (h : m ∈ genHelper (p.pieces p.side T) (~~~p.byColor p.side) att) : GenShape p m := by
  rw [mem_genHelper] at h
  obtain ⟨s, t, hs, h1, h2, rfl⟩ := h
  have hs64 := getLsbD_lt hs
  have ht64 := getLsbD_lt h1
  have hat := at_of_bit p hsh _ T hside hT s hs
  rw [BitVec.getLsbD_not] at h2
  simp only [ht64, decide_true, Bool.true_and, Bool.not_eq_true'] at h2
  have hown : (p.byColor p.side).getLsbD s = true := by
    rw [byColor_iff p hsh _ hside]
    have := hs
    rw [pieces_iff p hsh _ _ hside hT, Bool.and_eq_true] at this
    exact this.1
  have hne : s ≠ t := by
    intro he; rw [he, h2] at hown; cases hown
  have ht0 := target_of_notown p hsh hside t h2
  apply shape_core p _ s t 0 T hs64 ht64 (mk_src hs64 ht64 (by omega)) (mk_tgt hs64 ht64 (by omega))
    (mk_kind hs64 ht64 (by omega)) (by omega) (Nat.lt_trans (mk_lt s t 0 hs64 ht64 (by omega)) (by decide)) hne hside hT hat ht0
  · constructor
    · intro h; cases h
    · rintro ⟨hk, hd⟩
      exfalso
      apply hking hk s hs64 t ht64 h1
      omega
  · intro h; cases h
  · constructor
    · intro h; cases h
    · rintro ⟨hk, _⟩; exact absurd hk hT0
  · intro h; cases h
  · constructor
    · intro h; cases h
    · rintro ⟨hk, _⟩; exact absurd hk hT0

/-! ### pawn words -/

theorem mem_pmwp (c s t : Nat) (hc : c < 2) (m : Move) (h : m ∈ pawnMoveWithPromotion c s t) :
    (rankOf t ≠ (if c = 0 then 7 else 0) ∧ m = Move.mk s t 0) ∨
    (rankOf t = (if c = 0 then 7 else 0) ∧ ∃ pt, 1 ≤ pt ∧ pt ≤ 4 ∧ m = (Move.mk s t 1).withPromo pt) := by
  have hc' : c = 0 ∨ c = 1 := by omega
  unfold pawnMoveWithPromotion at h
  rcases hc' with rfl | rfl
  · by_cases hr : rankOf t = 7
    · simp [hr, KNIGHT, BISHOP, ROOK, QUEEN] at h
      right
      refine ⟨by simpa using hr, ?_⟩
      rcases h with rfl | rfl | rfl | rfl
      · exact ⟨1, by omega, by omega, rfl⟩
      · exact ⟨2, by omega, by omega, rfl⟩
      · exact ⟨3, by omega, by omega, rfl⟩
      · exact ⟨4, by omega, by omega, rfl⟩
    · simp [hr] at h
      left
      exact ⟨by simpa using hr, h⟩
  · by_cases hr : rankOf t = 0
    · simp [hr, KNIGHT, BISHOP, ROOK, QUEEN] at h
      right
      refine ⟨by simpa using hr, ?_⟩
      rcases h with rfl | rfl | rfl | rfl
      · exact ⟨1, by omega, by omega, rfl⟩
      · exact ⟨2, by omega, by omega, rfl⟩
      · exact ⟨3, by omega, by omega, rfl⟩
      · exact ⟨4, by omega, by omega, rfl⟩
    · simp [hr] at h
      left
      exact ⟨by simpa using hr, h⟩
theorem pawnPush_coords (c : Nat) (occ : BB) (s t : Nat) (h : Geo.pawnPush c occ s t = true) :
    fileOf t = fileOf s ∧ occ.getLsbD t = false ∧
    (((rankOf t : Nat) : Int) = (rankOf s : Nat) + (if c = 0 then 1 else -1) ∨
     ((rankOf t : Nat) : Int) = (rankOf s : Nat) + 2 * (if c = 0 then 1 else -1)) := by
  unfold Geo.pawnPush at h
  simp only at h
  cases ho1 : Geo.offset 0 (if c = 0 then 1 else -1) s with
  | none => rw [ho1] at h; cases h
  | some t1 =>
    rw [ho1] at h
    simp only [Bool.and_eq_true, Bool.or_eq_true, beq_iff_eq, Bool.not_eq_true', BB.has] at h
    rcases h.2 with rfl | h2
    · have := offset_coords _ _ _ _ ho1
      exact ⟨by omega, h.1, Or.inl this.1⟩
    · cases ho2 : Geo.offset 0 (2 * if c = 0 then 1 else -1) s with
      | none => rw [ho2] at h2; simp at h2
      | some t2 =>
        rw [ho2] at h2
        simp only [Bool.and_eq_true, beq_iff_eq, Bool.not_eq_true'] at h2
        rw [h2.2.1]
        have := offset_coords _ _ _ _ ho2
        exact ⟨by omega, h2.2.2, Or.inr this.1⟩

theorem pawnAttack_coords (c s t : Nat) (h : Geo.pawnAttack c s t = true) :
    fileOf t ≠ fileOf s ∧ ((rankOf t : Nat) : Int) = (rankOf s : Nat) + (if c = 0 then 1 else -1) := by
  unfold Geo.pawnAttack at h
  simp only [Bool.or_eq_true, beq_iff_eq] at h
  rcases h with h | h
  · have := offset_coords _ _ _ _ h; exact ⟨by omega, this.1⟩
  · have := offset_coords _ _ _ _ h; exact ⟨by omega, this.1⟩

/-- a pawn push or capture word -/
theorem shape_pawn_pm (p : Pos) (hsh : wfShape p = true) (hside : p.side < 2) (s t : Nat)
    (hs : (p.pieces p.side PAWN).getLsbD s = true) (ht : t < 64)
    (hgeo : (fileOf t = fileOf s ∧ p.at t = 0) ∨ (p.at t ≠ 0 ∧ validPiece (p.at t) = true ∧ pieceColor (p.at t) ≠ p.side))
    (hrank : ((rankOf t : Nat) : Int) = (rankOf s : Nat) + (if p.side = 0 then 1 else -1) ∨
      ((rankOf t : Nat) : Int) = (rankOf s : Nat) + 2 * (if p.side = 0 then 1 else -1))
    (m : Move) (h : m ∈ pawnMoveWithPromotion p.side s t) : GenShape p m := by
  have hs64 := getLsbD_lt hs
  have hat := at_of_bit p hsh _ PAWN hside (by decide) s hs
  have hne : s ≠ t := by
    intro he; subst he
    by_cases h0 : p.side = 0 <;> simp only [h0, if_true, if_false] at hrank <;> omega
  have htarget : p.at t = 0 ∨ (validPiece (p.at t) = true ∧ pieceColor (p.at t) ≠ p.side) := by
    rcases hgeo with h | h
    · exact Or.inl h.2
    · exact Or.inr h.2
  have hnoep : ¬ (fileOf s ≠ fileOf t ∧ p.at t = 0) := by
    rintro ⟨h1, h2⟩
    rcases hgeo with h | h
    · exact h1 h.1.symm
    · exact h.1 h2
  have hrs : rankOf s ≤ 7 := by unfold rankOf; omega
  rcases mem_pmwp _ _ _ hside m h with ⟨hr, rfl⟩ | ⟨hr, pt, h1, h4, rfl⟩
  · apply shape_core p _ s t 0 PAWN hs64 ht (mk_src hs64 ht (by omega)) (mk_tgt hs64 ht (by omega))
      (mk_kind hs64 ht (by omega)) (by omega) (Nat.lt_trans (mk_lt s t 0 hs64 ht (by omega)) (by decide)) hne hside
      (by decide) hat htarget
    · constructor
      · intro h; cases h
      · rintro ⟨hk, _⟩; cases hk
    · intro h; cases h
    · constructor
      · intro h; cases h
      · rintro ⟨_, hd⟩; exact absurd hd hnoep
    · intro h; cases h
    · constructor
      · intro h; cases h
      · rintro ⟨_, hd⟩
        exfalso
        by_cases h0 : p.side = 0 <;> simp only [h0, if_true, if_false] at hrank hr <;> omega
  · obtain ⟨d1, d2, d3, _⟩ := promo_decode hs64 ht h1 h4
    apply shape_core p _ s t 1 PAWN hs64 ht d1 d2 d3 (by omega) (withPromo_lt s t pt hs64 ht ⟨h1, h4⟩) hne hside
      (by decide) hat htarget
    · constructor
      · intro h; cases h
      · rintro ⟨hk, _⟩; cases hk
    · intro h; cases h
    · constructor
      · intro h; cases h
      · rintro ⟨_, hd⟩; exact absurd hd hnoep
    · intro h; cases h
    · constructor
      · intro _
        refine ⟨rfl, ?_⟩
        by_cases h0 : p.side = 0 <;> simp only [h0, if_true, if_false] at hr
        · exact Or.inl hr
        · exact Or.inr hr
      · intro _; rfl

/-- an en passant word -/
theorem shape_pawn_ep (p : Pos) (hsh : wfShape p = true) (hside : p.side < 2) (hep64 : p.ep ≤ 64)
    (hch : wfChess p = true) (s : Nat) (hs : (p.pieces p.side PAWN).getLsbD s = true) (he : p.ep ≠ 64)
    (hatt : (pawnAttacks p.side s).getLsbD p.ep = true) : GenShape p (Move.mk s p.ep 2) := by
  have hs64 := getLsbD_lt hs
  have ht : p.ep < 64 := by omega
  have hat := at_of_bit p hsh _ PAWN hside (by decide) s hs
  have cp := chess_parts p hch
  rw [pawnAttacks_exact _ _ _ hside hs64 ht] at hatt
  obtain ⟨hfile, hrank⟩ := pawnAttack_coords _ _ _ hatt
  have h0 := ep_empty p hch he
  have hne : s ≠ p.ep := by
    intro h; rw [← h] at hfile; exact hfile rfl
  apply shape_core p _ s p.ep 2 PAWN hs64 ht (mk_src hs64 ht (by omega)) (mk_tgt hs64 ht (by omega))
    (mk_kind hs64 ht (by omega)) (by omega) (Nat.lt_trans (mk_lt s p.ep 2 hs64 ht (by omega)) (by decide)) hne hside
    (by decide) hat (Or.inl h0)
  · constructor
    · intro h; cases h
    · rintro ⟨hk, _⟩; cases hk
  · intro h; cases h
  · constructor
    · intro _; exact ⟨rfl, fun h => hfile h.symm, h0⟩
    · intro _; rfl
  · intro _
    by_cases hs0 : p.side = 0
    · obtain ⟨r, _, v, _⟩ := cp.epw he hs0
      rw [if_pos hs0, hs0]
      refine ⟨v, ?_, ?_⟩ <;> unfold rankOf at r <;> omega
    · obtain ⟨r, _, v, _⟩ := cp.epb he hs0
      have hs1 : p.side = 1 := by omega
      rw [if_neg hs0, hs1]
      refine ⟨v, ?_, ?_⟩ <;> unfold rankOf at r <;> omega
  · constructor
    · intro h; cases h
    · rintro ⟨_, hd⟩
      exfalso
      by_cases hs0 : p.side = 0
      · have := (cp.epw he hs0).1; omega
      · have := (cp.epb he hs0).1; omega

/-! ### castling words -/

theorem canCastle_empty (p : Pos) (c e : Nat) (ks : Bool) (hks : castlingKingSide c = ks) (he : e = 4 ∨ e = 60)
    (hking : lsb (p.pieces p.side KING) = e) (h : canCastleNow p c = true) :
    (if ks then [e + 1, e + 2] else [e - 1, e - 2, e - 3]).all (fun s => p.at s == 0) = true := by
  unfold canCastleNow at h
  split at h
  · cases h
  · split at h
    · cases h
    · split at h
      · cases h
      · rw [hks, hking] at h
        simp only [Pos.isEmpty] at h
        rcases he with rfl | rfl <;> cases ks <;>
          simp only [List.range_succ, List.range_zero, List.nil_append, List.cons_append, List.all_cons, List.all_nil,
            Nat.reduceAdd, Nat.reduceSub, Nat.reduceMod, Nat.reduceLT, gt_iff_lt, Nat.lt_irrefl, decide_true, decide_false,
            Bool.false_or, Bool.true_or, Bool.and_true, Bool.and_false, Bool.or_false, if_true, if_false,
            Bool.false_eq_true, Bool.and_eq_true, beq_iff_eq] at h ⊢
        · exact ⟨h.1.1, h.2.1.1, h.2.2⟩
        · exact ⟨h.1.1, h.2.1⟩
        · exact ⟨h.1.1, h.2.1.1, h.2.2⟩
        · exact ⟨h.1.1, h.2.1⟩

theorem shape_castle_core (p : Pos) (hside : p.side < 2) (m : Move) (s t : Nat) (hs : s = 4 ∨ s = 60)
    (ht : t = s + 2 ∨ s = t + 2) (hm : m.src = s ∧ m.tgt = t ∧ m.kind = 3 ∧ m < 65536)
    (hat : p.at s = newPiece p.side KING)
    (hrook : p.at (if t = s + 2 then s + 3 else s - 4) = newPiece p.side ROOK)
    (hdest : p.at (if t = s + 2 then s + 1 else s - 1) = 0) (ht0 : p.at t = 0) : GenShape p m := by
  apply shape_core p m s t 3 KING (by omega) (by omega) hm.1 hm.2.1 hm.2.2.1 (by omega) hm.2.2.2 (by omega) hside
    (by decide) hat (Or.inl ht0)
  · constructor
    · intro _; exact ⟨rfl, ht⟩
    · intro _; rfl
  · intro _; exact ⟨hs, hrook, hdest, ht0⟩
  · constructor
    · intro h; cases h
    · rintro ⟨hk, _⟩; cases hk
  · intro h; cases h
  · constructor
    · intro h; cases h
    · rintro ⟨hk, _⟩; cases hk

theorem castle_word_facts :
    (let m : Move := (3 <<< 12) ||| 4 ||| (((4 + 2) % 256) <<< 6); m.src = 4 ∧ m.tgt = 6 ∧ m.kind = 3 ∧ m < 65536) ∧
    (let m : Move := (3 <<< 12) ||| 4 ||| (((4 + 254) % 256) <<< 6); m.src = 4 ∧ m.tgt = 2 ∧ m.kind = 3 ∧ m < 65536) ∧
    (let m : Move := (3 <<< 12) ||| 60 ||| (((60 + 2) % 256) <<< 6); m.src = 60 ∧ m.tgt = 62 ∧ m.kind = 3 ∧ m < 65536) ∧
    (let m : Move := (3 <<< 12) ||| 60 ||| (((60 + 254) % 256) <<< 6); m.src = 60 ∧ m.tgt = 58 ∧ m.kind = 3 ∧ m < 65536) := by
  decide

theorem shape_castle (p : Pos) (hw : WF p = true) (c : Nat) (hc : c ∈ [1, 2, 4, 8]) (m : Move)
    (h : m ∈ castleStep p c) : GenShape p m := by
  obtain ⟨hsh, hst, hch⟩ := WF_parts p hw
  obtain ⟨hside, _, _⟩ := state_parts p hst
  have cp := chess_parts p hch
  unfold castleStep at h
  split at h
  · cases h
  · rename_i hcol
    have hcol : castlingColor c = p.side := by simpa using hcol
    split at h
    · cases h
    · rename_i hcc
      have hcc : canCastleNow p c = true := by simpa using hcc
      have hr := canCastle_right p c hcc
      have hk := king_home p hw c hc hcol hr
      simp only [hk, List.mem_singleton] at h
      obtain ⟨w1, w2, w3, w4⟩ := castle_word_facts
      simp only [List.mem_cons, List.not_mem_nil, or_false] at hc
      rw [Nat.and_comm] at hr
      rcases hc with rfl | rfl | rfl | rfl
      · have hs : p.side = 0 := by rw [← hcol]; rfl
        have hk' : lsb (p.pieces p.side KING) = 4 := by rw [hk, hs]; rfl
        have he := canCastle_empty p 1 4 true rfl (Or.inl rfl) hk' hcc
        simp only [if_true, List.all_cons, List.all_nil, Bool.and_true, Bool.and_eq_true, beq_iff_eq] at he
        simp only [hs, if_true, castlingKingSide] at h
        subst h
        apply shape_castle_core p hside _ 4 6 (Or.inl rfl) (Or.inl rfl) w1
        · rw [hs]; exact (cp.c1 hr).1
        · rw [hs]; exact (cp.c1 hr).2
        · exact he.1
        · exact he.2
      · have hs : p.side = 0 := by rw [← hcol]; rfl
        have hk' : lsb (p.pieces p.side KING) = 4 := by rw [hk, hs]; rfl
        have he := canCastle_empty p 2 4 false rfl (Or.inl rfl) hk' hcc
        simp only [Bool.false_eq_true, if_false, List.all_cons, List.all_nil, Bool.and_true, Bool.and_eq_true, beq_iff_eq] at he
        simp only [hs, if_true, castlingKingSide] at h
        subst h
        apply shape_castle_core p hside _ 4 2 (Or.inl rfl) (Or.inr rfl) w2
        · rw [hs]; exact (cp.c2 hr).1
        · rw [hs]; exact (cp.c2 hr).2
        · exact he.1
        · exact he.2.1
      · have hs : p.side = 1 := by rw [← hcol]; rfl
        have hk' : lsb (p.pieces p.side KING) = 60 := by rw [hk, hs]; rfl
        have he := canCastle_empty p 4 60 true rfl (Or.inr rfl) hk' hcc
        simp only [if_true, List.all_cons, List.all_nil, Bool.and_true, Bool.and_eq_true, beq_iff_eq] at he
        simp only [hs, castlingKingSide] at h
        subst h
        apply shape_castle_core p hside _ 60 62 (Or.inr rfl) (Or.inl rfl) w3
        · rw [hs]; exact (cp.c4 hr).1
        · rw [hs]; exact (cp.c4 hr).2
        · exact he.1
        · exact he.2
      · have hs : p.side = 1 := by rw [← hcol]; rfl
        have hk' : lsb (p.pieces p.side KING) = 60 := by rw [hk, hs]; rfl
        have he := canCastle_empty p 8 60 false rfl (Or.inr rfl) hk' hcc
        simp only [Bool.false_eq_true, if_false, List.all_cons, List.all_nil, Bool.and_true, Bool.and_eq_true, beq_iff_eq] at he
        simp only [hs, castlingKingSide] at h
        subst h
        apply shape_castle_core p hside _ 60 58 (Or.inr rfl) (Or.inr rfl) w4
        · rw [hs]; exact (cp.c8 hr).1
        · rw [hs]; exact (cp.c8 hr).2
        · exact he.1
        · exact he.2.1

/-- every generated word has the shape `MoveShape` needs -/
theorem genMoves_shape (p : Pos) (hw : WF p = true) (m : Move) (h : m ∈ genMoves p) : GenShape p m := by
  obtain ⟨hsh, hst, hch⟩ := WF_parts p hw
  obtain ⟨hside, _, hep64⟩ := state_parts p hst
  unfold genMoves at h
  simp only [List.mem_append] at h
  rcases h with (((((h | h) | h) | h) | h) | h) | h
  · exact shape_helper p hsh hside ROOK (by decide) (by decide) _ (fun hk => by cases hk) m h
  · exact shape_helper p hsh hside BISHOP (by decide) (by decide) _ (fun hk => by cases hk) m h
  · exact shape_helper p hsh hside QUEEN (by decide) (by decide) _ (fun hk => by cases hk) m h
  · exact shape_helper p hsh hside KNIGHT (by decide) (by decide) _ (fun hk => by cases hk) m h
  · rw [List.mem_flatMap] at h
    obtain ⟨s, hs, h⟩ := h
    rw [mem_squares_iff] at hs
    have hs64 := getLsbD_lt hs
    rw [List.mem_append, List.mem_append] at h
    rcases h with (h | h) | h
    · rw [List.mem_flatMap] at h
      obtain ⟨t, ht, h⟩ := h
      rw [mem_squares_iff] at ht
      have ht64 := getLsbD_lt ht
      rw [pawnPushes_exact _ _ _ _ hside hs64 ht64] at ht
      obtain ⟨c1, c2, c3⟩ := pawnPush_coords _ _ _ _ ht
      have h0 : p.at t = 0 := by
        rw [all_iff p hsh, absPos_at] at c2
        simpa using c2
      exact shape_pawn_pm p hsh hside s t hs ht64 (Or.inl ⟨c1, h0⟩) c3 m h
    · unfold genPawnCaptures at h
      rw [List.mem_flatMap] at h
      obtain ⟨t, ht, h⟩ := h
      rw [mem_squares_iff, BitVec.getLsbD_and, Bool.and_eq_true] at ht
      have ht64 := getLsbD_lt ht.1
      rw [pawnAttacks_exact _ _ _ hside hs64 ht64] at ht
      obtain ⟨_, c2⟩ := pawnAttack_coords _ _ _ ht.1
      exact shape_pawn_pm p hsh hside s t hs ht64 (Or.inr (target_of_enemy p hsh hside t ht.2)) (Or.inl c2) m h
    · unfold genEnPassant at h
      split at h
      · rename_i he
        have he : p.ep ≠ 64 := by simpa using he
        rw [List.mem_map] at h
        obtain ⟨t, ht, rfl⟩ := h
        rw [mem_squares_iff, BitVec.getLsbD_and, Bool.and_eq_true, getLsbD_bit _ _ (by omega), decide_eq_true_eq] at ht
        obtain ⟨h1, rfl⟩ := ht
        exact shape_pawn_ep p hsh hside hep64 hch s hs he h1
      · cases h
  · rw [genCastling_eq] at h
    simp only [List.mem_append] at h
    rcases h with ((h | h) | h) | h
    · exact shape_castle p hw 1 (by decide) m h
    · exact shape_castle p hw 2 (by decide) m h
    · exact shape_castle p hw 4 (by decide) m h
    · exact shape_castle p hw 8 (by decide) m h
  · exact shape_helper p hsh hside KING (by decide) (by decide) _
      (fun _ s hs t ht hst => no_king_two s hs t ht (by rw [← kingAttacks_exact s t hs ht]; exact hst)) m h

end GM
end Clemens
