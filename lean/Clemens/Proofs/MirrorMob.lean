import Clemens.Proofs.Mirror
/-
Lemma library for C15 (part 2): mobility and king attack value under the colour mirror.  The magic-table lookups
`rookAttacks` / `bishopAttacks` are kept opaque: their flip-equivariance is the hypothesis `SliderFlip`
(it follows from table correctness, `rookAttacks s occ = rookWalker s occ`, by `Proofs/WalkerFlip.lean`).
-/
namespace Clemens

/-- the slider attack lookups commute with the vertical flip -/
def SliderFlip : Prop :=
  (∀ s, s < 64 → ∀ occ, rookAttacks (s ^^^ 56) (flipV occ) = flipV (rookAttacks s occ)) ∧
  (∀ s, s < 64 → ∀ occ, bishopAttacks (s ^^^ 56) (flipV occ) = flipV (bishopAttacks s occ))

/-! ### pawn pushes -/

theorem pawnPushes0_flipV (a o : BB) : pawnPushes 0 (flipV a) (flipV o) = flipV (pawnPushes 1 a o) := by
  unfold pawnPushes doublePushTargets singlePushTargets
  simp only [if_true, if_false, Nat.one_ne_zero, flipV_or, flipV_and, flipV_not, flipV_southOne, flipV_rankMask5]

theorem pawnPushes1_flipV (a o : BB) : pawnPushes 1 (flipV a) (flipV o) = flipV (pawnPushes 0 a o) := by
  unfold pawnPushes doublePushTargets singlePushTargets
  simp only [if_true, if_false, Nat.one_ne_zero, flipV_or, flipV_and, flipV_not, flipV_northOne, flipV_rankMask4]

/-! ### leapers on a flipped square -/

theorem knightAttacks_flip (s : Nat) (hs : s < 64) : knightAttacks (s ^^^ 56) = flipV (knightAttacks s) := by
  unfold knightAttacks; rw [← flipV_bit s hs, flipV_knightAttacksSet]

theorem kingAttacks_flip (s : Nat) (hs : s < 64) : kingAttacks (s ^^^ 56) = flipV (kingAttacks s) := by
  unfold kingAttacks; rw [← flipV_bit s hs, flipV_kingAttacksSet]

theorem pawnAttacks0_flip (s : Nat) (hs : s < 64) : pawnAttacks 0 (s ^^^ 56) = flipV (pawnAttacks 1 s) := by
  unfold pawnAttacks; rw [← flipV_bit s hs, flipV_pawnAttacksSet1]

theorem pawnAttacks1_flip (s : Nat) (hs : s < 64) : pawnAttacks 1 (s ^^^ 56) = flipV (pawnAttacks 0 s) := by
  unfold pawnAttacks; rw [← flipV_bit s hs, flipV_pawnAttacksSet0]

/-! ### the king square -/

theorem lsb_bit : ∀ k < 64, lsb (bit k) = k := by decide +kernel

theorem single_of_popcount_one (b : BB) (h : popcount b = 1) : ∃ k, k < 64 ∧ b = bit k := by
  unfold popcount at h
  have hb := ofSquares_squares b
  cases hl : squares b with
  | nil => rw [hl] at h; simp at h
  | cons k l =>
    rw [hl] at h
    have : l = [] := by cases l with
      | nil => rfl
      | cons _ _ => simp at h
    subst this
    have hk : k < 64 := lt_of_mem_squares (by rw [hl]; simp)
    refine ⟨k, hk, ?_⟩
    rw [hl] at hb
    simp at hb
    exact hb.symm

theorem kingAttacks_lsb_flip (b : BB) (h : popcount b = 1) :
    kingAttacks (lsb (flipV b)) = flipV (kingAttacks (lsb b)) := by
  obtain ⟨k, hk, rfl⟩ := single_of_popcount_one b h
  rw [flipV_bit k hk, lsb_bit k hk, lsb_bit _ (fl_lt k hk), kingAttacks_flip k hk]

/-! ### attacks of the piece on a flipped square -/

theorem attacksOfType_mirror0 (hsl : SliderFlip) (p : Pos) (t s : Nat) (hs : s < 64) :
    attacksOfType (mirrorPos p) 0 t (s ^^^ 56) = flipV (attacksOfType p 1 t s) := by
  unfold attacksOfType queenAttacks
  rw [mirrorPos_all, hsl.1 s hs, hsl.2 s hs, knightAttacks_flip s hs, kingAttacks_flip s hs, pawnAttacks0_flip s hs,
    ← flipV_or]
  repeat' split
  all_goals rfl

theorem attacksOfType_mirror1 (hsl : SliderFlip) (p : Pos) (t s : Nat) (hs : s < 64) :
    attacksOfType (mirrorPos p) 1 t (s ^^^ 56) = flipV (attacksOfType p 0 t s) := by
  unfold attacksOfType queenAttacks
  rw [mirrorPos_all, hsl.1 s hs, hsl.2 s hs, knightAttacks_flip s hs, kingAttacks_flip s hs, pawnAttacks1_flip s hs,
    ← flipV_or]
  repeat' split
  all_goals rfl

/-! ### the mobility terms -/

theorem mobTerm_mirror0 (hsl : SliderFlip) (p : Pos) (hk : popcount (p.pieces 0 5) = 1) (t s : Nat) (hs : s < 64) :
    mobTerm (mirrorPos p) 0 t (s ^^^ 56) = mobTerm p 1 t s := by
  unfold mobTerm
  have h1 : (mirrorPos p).pieces (switchColor 0) 5 = flipV (p.pieces (switchColor 1) 5) := (mp p).2.2.2.2.2.2.2.2.2.2.2
  have hk' : popcount (p.pieces (switchColor 1) 5) = 1 := hk
  rw [attacksOfType_mirror0 hsl p t s hs, mirrorPos_byColor p 0 (by omega), h1, kingAttacks_lsb_flip _ hk',
    ← flipV_not, ← flipV_and, ← flipV_and, pc_flipV, pc_flipV]

theorem mobTerm_mirror1 (hsl : SliderFlip) (p : Pos) (hk : popcount (p.pieces 1 5) = 1) (t s : Nat) (hs : s < 64) :
    mobTerm (mirrorPos p) 1 t (s ^^^ 56) = mobTerm p 0 t s := by
  unfold mobTerm
  have h1 : (mirrorPos p).pieces (switchColor 1) 5 = flipV (p.pieces (switchColor 0) 5) := (mp p).2.2.2.2.2.1
  have hk' : popcount (p.pieces (switchColor 0) 5) = 1 := hk
  rw [attacksOfType_mirror1 hsl p t s hs, mirrorPos_byColor p 1 (by omega), h1, kingAttacks_lsb_flip _ hk',
    ← flipV_not, ← flipV_and, ← flipV_and, pc_flipV, pc_flipV]

theorem mobPawns_mirror0 (p : Pos) : mobPawns (mirrorPos p) 0 = mobPawns p 1 := by
  unfold mobPawns
  rw [(mp p).1, mirrorPos_all, mirrorPos_byColor p 0 (by omega), pawnPushes0_flipV, ← flipV_not, ← flipV_and, pc_flipV]

theorem mobPawns_mirror1 (p : Pos) : mobPawns (mirrorPos p) 1 = mobPawns p 0 := by
  unfold mobPawns
  rw [(mp p).2.2.2.2.2.2.1, mirrorPos_all, mirrorPos_byColor p 1 (by omega), pawnPushes1_flipV, ← flipV_not,
    ← flipV_and, pc_flipV]

theorem mobSum_mirror0 (hsl : SliderFlip) (p : Pos) (hk : popcount (p.pieces 0 5) = 1) (t : Nat) (ht : t < 6) :
    sumOver (mobTerm (mirrorPos p) 0 t) ((mirrorPos p).pieces 0 t) = sumOver (mobTerm p 1 t) (p.pieces 1 t) := by
  rw [mirrorPos_pieces p 0 t (by omega) ht, sumOver_flipV]
  exact sumOver_congr _ _ _ (fun s hs => mobTerm_mirror0 hsl p hk t s hs)

theorem mobSum_mirror1 (hsl : SliderFlip) (p : Pos) (hk : popcount (p.pieces 1 5) = 1) (t : Nat) (ht : t < 6) :
    sumOver (mobTerm (mirrorPos p) 1 t) ((mirrorPos p).pieces 1 t) = sumOver (mobTerm p 0 t) (p.pieces 0 t) := by
  rw [mirrorPos_pieces p 1 t (by omega) ht, sumOver_flipV]
  exact sumOver_congr _ _ _ (fun s hs => mobTerm_mirror1 hsl p hk t s hs)

/-- white's mobility in the mirrored position is black's mobility in the original one -/
theorem mobility_mirror0 (hsl : SliderFlip) (p : Pos) (hk : popcount (p.pieces 0 5) = 1) :
    mobilityByColor (mirrorPos p) 0 = mobilityByColor p 1 := by
  rw [mobilityByColor_eq, mobilityByColor_eq, mobPawns_mirror0,
    mobSum_mirror0 hsl p hk 0 (by omega), mobSum_mirror0 hsl p hk 1 (by omega), mobSum_mirror0 hsl p hk 2 (by omega),
    mobSum_mirror0 hsl p hk 3 (by omega), mobSum_mirror0 hsl p hk 4 (by omega), mobSum_mirror0 hsl p hk 5 (by omega)]

theorem mobility_mirror1 (hsl : SliderFlip) (p : Pos) (hk : popcount (p.pieces 1 5) = 1) :
    mobilityByColor (mirrorPos p) 1 = mobilityByColor p 0 := by
  rw [mobilityByColor_eq, mobilityByColor_eq, mobPawns_mirror1,
    mobSum_mirror1 hsl p hk 0 (by omega), mobSum_mirror1 hsl p hk 1 (by omega), mobSum_mirror1 hsl p hk 2 (by omega),
    mobSum_mirror1 hsl p hk 3 (by omega), mobSum_mirror1 hsl p hk 4 (by omega), mobSum_mirror1 hsl p hk 5 (by omega)]

/-! ### the whole evaluation -/

theorem evalRaw_mirror (hsl : SliderFlip) (p : Pos) (hs : p.side < 2)
    (hk : popcount (p.pieces 0 5) = 1 ∧ popcount (p.pieces 1 5) = 1) :
    evalRaw (mirrorPos p) = evalRaw p := by
  have hL : evalPawnAdjustment (mirrorPos p) (evalMaterial (mirrorPos p) (evalPairs (mirrorPos p)
      (evalPawns (mirrorPos p) (evalPst (mirrorPos p) {})))) =
      (evalPawnAdjustment p (evalMaterial p (evalPairs p (evalPawns p (evalPst p {}))))).map EvalAcc.neg := by
    have h0 : evalPst (mirrorPos p) {} = (evalPst p {}).neg := evalPst_mirror p {}
    rw [h0, evalPawns_mirror, evalPairs_mirror, evalMaterial_mirror, evalPawnAdjustment_mirror]
  unfold evalRaw
  rw [isDraw_mirror, contempt_mirror]
  split
  · rfl
  · dsimp only
    rw [hL, mobility_mirror0 hsl p hk.1, mobility_mirror1 hsl p hk.2]
    generalize evalPawnAdjustment p (evalMaterial p (evalPairs p (evalPawns p (evalPst p {})))) = r
    cases r with
    | none => rfl
    | some e =>
      simp only [Option.map_some, Option.bind_eq_bind, Option.bind_some, Option.pure_def, Option.some.injEq]
      rw [← calculateScore_mirror p hs]
      congr 1
      unfold EvalAcc.neg
      dsimp only
      congr 1
      omega

end Clemens
