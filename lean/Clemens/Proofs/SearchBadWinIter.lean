import Clemens.Proofs.SearchBadWinProv
/-
Lemma library for C04c (task P04h), part 4: the iteration loop never reaches the window `(-32768, -32668)`.

The loop adopts a score `v` only if it lies strictly inside the window it searched; such a `v` has a provenance at ply 0
(`searchRoot_prov`), so `v ≠ -32718` (`not_prov_bad`), and the next aspiration window is in `InWin` or empty (`winok_next`).
The table stays sane through every root search (`searchRoot_tt`), whatever the window and the outcome.
-/
namespace Clemens
namespace BadWin
open SearchLemmas P19

section
variable (K : Keys) (root : Pos) (pvStr : Move → String) (maxD : Nat)
  (C : Pos → Prop) (hmove : ∀ p m q, C p → GenMv p m → makeMove K p m = some q → isLegal q = true → C q)
  (hnull : ∀ p, C p → isInCheck p p.side = false → C (makeNull K p).1)
  (heval : ∀ p v, C p → evalRaw p = some v → EvalRange v) (hroot : C root)
include hmove hnull heval hroot

/-- the hypothesis `hgood` of C04, proved: no root search from a sane table returns `-32718` strictly inside an `InWin` window -/
theorem searchRoot_not_bad_gen (d : Nat) (a b : Int) (hw : InWin a b) (s s' : SState) (hs : TTSane s.tt)
    (v : Int) (pvl : Option (List Move)) (h : searchRoot K root d a b s = (.ok (v, pvl), s')) (h1 : a < v) (h2 : v < b) :
    v ≠ -32718 := by
  intro e
  have := searchRoot_prov_gen K C hmove hnull heval root hroot d a b hw s s' hs v pvl h h1 h2
  rw [e] at this
  exact not_prov_bad this

theorem go_pv_legal_sane_gen (f d : Nat) (a b : Int) (s : SState) (hw : WinOK a b) (hs : TTSane s.tt)
    (hpv : LegalLine K root s.pv) :
    LegalLine K root (searchIterative.go K root pvStr maxD f d a b s).2.pv ∧
      TTSane (searchIterative.go K root pvStr maxD f d a b s).2.tt := by
  induction f generalizing d a b s with
  | zero => rw [go_zero]; exact ⟨hpv, hs⟩
  | succ f ih =>
    by_cases hgt : d > maxD
    · rw [go_gt _ _ _ _ _ _ _ _ _ hgt]; exact ⟨hpv, hs⟩
    · have hle : d ≤ maxD := by omega
      have hfr := holds_searchRoot K root d a b s
      have htt := searchRoot_tt K root d a b s hs
      rcases hr : searchRoot K root d a b s with ⟨r, s'⟩
      rw [hr] at hfr htt
      have hpv' : s'.pv = s.pv := hfr.2.2.1
      have hts' : TTSane s'.tt := htt
      cases r with
      | cancelled =>
        rw [go_cancelled _ _ _ _ _ _ _ _ _ hle (by rw [hr]), hr]
        refine ⟨?_, hts'⟩
        show LegalLine K root s'.pv
        rw [hpv']; exact hpv
      | panic =>
        rw [go_panic _ _ _ _ _ _ _ _ _ hle (by rw [hr]), hr]
        refine ⟨?_, hts'⟩
        show LegalLine K root s'.pv
        rw [hpv']; exact hpv
      | ok res =>
        obtain ⟨score, pvl⟩ := res
        by_cases hin : a < score ∧ score < b
        · rw [go_adopt _ _ _ _ _ _ _ _ _ _ hle score pvl hr hin]
          have hiw : InWin a b := by
            rcases hw with h | h
            · exact h
            · omega
          apply ih
          · exact winok_next hiw hin.1 hin.2
              (searchRoot_not_bad_gen K root C hmove hnull heval hroot d a b hiw s s' hs score pvl hr hin.1 hin.2)
          · exact hts'
          · show LegalLine K root (pvl.getD [])
            exact pvok_getD (post_searchRoot K root d a b hiw s (score, pvl) s' hr)
        · have hf : score ≤ a ∨ score ≥ b := by omega
          by_cases hfull : a = -INF ∧ b = INF
          · obtain ⟨rfl, rfl⟩ := hfull
            rw [go_fail_full _ _ _ _ _ _ _ _ hle score pvl hr hf]
            refine ⟨?_, hts'⟩
            show LegalLine K root s'.pv
            rw [hpv']; exact hpv
          · rw [go_fail_asp _ _ _ _ _ _ _ _ _ _ hle score pvl hr hf hfull]
            apply ih
            · exact Or.inl inwin_root
            · exact hts'
            · show LegalLine K root s'.pv
              rw [hpv']; exact hpv

theorem searchIterative_pv_legal_sane_gen (s : SState) (hs : TTSane s.tt) (h : LegalLine K root s.pv) :
    LegalLine K root (searchIterative K root pvStr maxD s).2.pv ∧ TTSane (searchIterative K root pvStr maxD s).2.tt := by
  unfold searchIterative
  exact go_pv_legal_sane_gen K root pvStr maxD C hmove hnull heval hroot 2000 1 (-INF) INF s (Or.inl inwin_root) hs h

omit maxD in
theorem search_answer_legal_sane_gen (d : Nat) (s s' : SState) (m : Move) (hts : TTSane s.tt) (hs : s.pv = [])
    (h : search K root pvStr d s = (.ok m, s')) (hm : m ≠ 0) :
    (∃ rest, s'.pv = m :: rest ∧ LegalLine K root (m :: rest)) ∧ TTSane s'.tt := by
  obtain ⟨s1, h1, hc⟩ := search_cases K root pvStr d s m s' h
  have hl1 : LegalLine K root s1.pv ∧ TTSane s1.tt := by
    have := searchIterative_pv_legal_sane_gen K root pvStr (if d > 0 then d else maxDepth) C hmove hnull heval hroot s hts
      (by rw [hs]; exact LegalLine.nil root)
    rw [h1] at this
    exact this
  rcases hc with ⟨_, hs', hmm⟩ | ⟨_, h2, hmm⟩
  · obtain ⟨rest, hrest⟩ := head_of_getD hmm hm
    refine ⟨⟨rest, by rw [hs']; exact hrest, ?_⟩, by rw [hs']; exact hl1.2⟩
    rw [← hrest]; exact hl1.1
  · have hl2 := searchIterative_pv_legal_sane_gen K root pvStr 1 C hmove hnull heval hroot
      { s1 with mainPolls := s1.polls, cancelAt := none } hl1.2 hl1.1
    rw [h2] at hl2
    obtain ⟨rest, hrest⟩ := head_of_getD hmm hm
    refine ⟨⟨rest, hrest, ?_⟩, hl2.2⟩
    rw [← hrest]; exact hl2.1
end

/-! ### the statements for a class closed under ALL move words (as used by C04c) -/

section
variable (K : Keys) (root : Pos) (pvStr : Move → String) (maxD : Nat)
  (C : Pos → Prop) (hmove : ∀ p m q, C p → makeMove K p m = some q → isLegal q = true → C q)
  (hnull : ∀ p, C p → isInCheck p p.side = false → C (makeNull K p).1)
  (heval : ∀ p v, C p → evalRaw p = some v → EvalRange v) (hroot : C root)
include hmove hnull heval hroot

theorem searchRoot_not_bad (d : Nat) (a b : Int) (hw : InWin a b) (s s' : SState) (hs : TTSane s.tt)
    (v : Int) (pvl : Option (List Move)) (h : searchRoot K root d a b s = (.ok (v, pvl), s')) (h1 : a < v) (h2 : v < b) :
    v ≠ -32718 :=
  searchRoot_not_bad_gen K root C (fun p m q hp _ => hmove p m q hp) hnull heval hroot d a b hw s s' hs v pvl h h1 h2

theorem searchIterative_pv_legal_sane (s : SState) (hs : TTSane s.tt) (h : LegalLine K root s.pv) :
    LegalLine K root (searchIterative K root pvStr maxD s).2.pv ∧ TTSane (searchIterative K root pvStr maxD s).2.tt :=
  searchIterative_pv_legal_sane_gen K root pvStr maxD C (fun p m q hp _ => hmove p m q hp) hnull heval hroot s hs h

omit maxD in
theorem search_answer_legal_sane (d : Nat) (s s' : SState) (m : Move) (hts : TTSane s.tt) (hs : s.pv = [])
    (h : search K root pvStr d s = (.ok m, s')) (hm : m ≠ 0) :
    (∃ rest, s'.pv = m :: rest ∧ LegalLine K root (m :: rest)) ∧ TTSane s'.tt :=
  search_answer_legal_sane_gen K root pvStr C (fun p m q hp _ => hmove p m q hp) hnull heval hroot d s s' m hts hs h hm
end

end BadWin
end Clemens
