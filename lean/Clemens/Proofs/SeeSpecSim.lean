import Clemens.Proofs.SeeSpecBoard
/-
C18b (b), (c) — the simulation: the attacker bitboard the model maintains incrementally is, restricted to the pieces
that have not captured yet, the specification's attacker set on the current board; the two king rules agree as long
as no enemy slider attacks a king that has not moved (`KingSafe`).
-/
namespace Clemens.P18
open Clemens

/-! ### small facts -/

theorem attT_congr (occ occ' : BB) (pc t a : Nat) (h : ∀ u, u < 64 → occ'.getLsbD u = occ.getLsbD u) :
    attT occ pc t a = attT occ' pc t a := by
  apply Bool.eq_iff_iff.mpr
  constructor
  · exact attT_mono occ occ' pc t a (fun u hu hb => by rw [← h u hu]; exact hb)
  · exact attT_mono occ' occ pc t a (fun u hu hb => by rw [h u hu]; exact hb)

theorem xrT_congr (occ occ' : BB) (pc t a : Nat) (h : ∀ u, u < 64 → occ'.getLsbD u = occ.getLsbD u) :
    xrT occ pc t a = xrT occ' pc t a := by
  apply Bool.eq_iff_iff.mpr
  constructor
  · exact xrT_mono occ occ' pc t a (fun u hu hb => by rw [← h u hu]; exact hb)
  · exact xrT_mono occ' occ pc t a (fun u hu hb => by rw [h u hu]; exact hb)

theorem newPiece_ne_zero (c k : Nat) : newPiece c k ≠ 0 := by unfold newPiece; omega

theorem sw_sw (c : Nat) (hc : c < 2) : switchColor (switchColor c) = c := by
  have : c = 0 ∨ c = 1 := by omega
  rcases this with rfl | rfl <;> rfl

theorem sw_ne (c : Nat) (hc : c < 2) : switchColor c ≠ c := by
  have : c = 0 ∨ c = 1 := by omega
  rcases this with rfl | rfl <;> decide

theorem newPiece_inj (c k c' k' : Nat) (hk : k < 6) (hk' : k' < 6) (h : newPiece c k = newPiece c' k') :
    c = c' ∧ k = k' := by
  unfold newPiece at h; omega

theorem newPiece_color : ∀ c < 2, ∀ k < 6, Fide.colorOf (newPiece c k) = c ∧ Fide.kindOf (newPiece c k) = k := by decide

/-- occupancy after one more piece has left -/
theorem occOf_or_bit (p : Pos) (R : BB) (s a : Nat) (hs : s < 64) (ha : a < 64) :
    (occOf p (R ||| bit s)).getLsbD a = ((occOf p R).getLsbD a && !decide (a = s)) := by
  rw [occOf_bit p _ a ha, occOf_bit p _ a ha, BitVec.getLsbD_or, getLsbD_bit s a hs]
  cases p.all.getLsbD a <;> cases R.getLsbD a <;> cases decide (a = s) <;> rfl

theorem occOf_sub (p : Pos) (R : BB) (s : Nat) (hs : s < 64) :
    ∀ u, u < 64 → (occOf p (R ||| bit s)).getLsbD u = true → (occOf p R).getLsbD u = true := by
  intro u hu h
  rw [occOf_or_bit p R s u hs hu, Bool.and_eq_true] at h
  exact h.1

/-- a knight's attack is a knight's step -/
theorem attT_knight (occ : BB) (pc t a : Nat) (hpc : pc = 2 ∨ pc = 10) (h : attT occ pc t a = true) :
    Geo.knightStep t a = true := by
  unfold attT leapT xrT at h
  rcases hpc with rfl | rfl <;> simpa using h

/-- a king's attack is a king's step -/
theorem attT_king (occ : BB) (pc t a : Nat) (hpc : pc = 6 ∨ pc = 14) (h : attT occ pc t a = true) :
    Geo.kingStep t a = true := by
  unfold attT leapT xrT at h
  rcases hpc with rfl | rfl <;> simpa using h

/-! ### the model's state after a capture -/

/-- the attacker set after the current capturer has been removed (and x-rays added when it was a pawn or a slider) -/
def att1 (p : Pos) (t : Nat) (mx : BB) (st : SeeState) : BB :=
  if (st.src &&& mx) != 0#64 then
    (st.attacks ^^^ st.src) ||| considerXrays p t (st.occ ^^^ st.src) (st.already ||| st.src)
  else st.attacks ^^^ st.src

theorem seeNext_eq (p : Pos) (t : Nat) (mx : BB) (st : SeeState) :
    seeNext p t mx st =
      (let lv := leastValuable p (att1 p t mx st) (switchColor st.side)
       if lv.1 == 0#64 then none
       else if lv.2 == KING && (att1 p t mx st &&& p.byColor (switchColor (switchColor st.side))) != 0#64 then none
       else some { gains := (pieceValue st.atype - st.gains.headD 0) :: st.gains, attacks := att1 p t mx st,
                   occ := st.occ ^^^ st.src, already := st.already ||| st.src, src := lv.1, atype := lv.2,
                   side := switchColor st.side }) := by
  unfold seeNext att1
  rfl

/-- invariant of the model's loop relative to the set `R` of squares whose pieces captured before the current
capturer `s` -/
structure Pre (p : Pos) (t src0 : Nat) (st : SeeState) (R : BB) (s : Nat) : Prop where
  s_lt : s < 64
  src_eq : st.src = bit s
  s_notin : R.getLsbD s = false
  t_notin : R.getLsbD t = false
  occ_eq : ∀ a, a < 64 → st.occ.getLsbD a = (occOf p R).getLsbD a
  att_eq : ∀ a, a < 64 → st.attacks.getLsbD a = (attT (occOf p R) (p.at a) t a && !R.getLsbD a)
  alr_eq : ∀ a, a < 64 → (st.already ||| st.src).getLsbD a = (R.getLsbD a || decide (a = s))
  att_s : st.attacks.getLsbD s = true
  side_lt : st.side < 2
  type_lt : st.atype < 6
  piece_s : p.at s = newPiece st.side st.atype
  hist : ∀ r, r < 64 → R.getLsbD r = true → attT (occOf p R) (p.at r) t r = true
  src0_in : (R ||| bit s).getLsbD src0 = true

theorem Pre.s_ne_t {p : Pos} {t src0 : Nat} {st : SeeState} {R : BB} {s : Nat} (h : Pre p t src0 st R s)
    (ht : t < 64) : s ≠ t := by
  intro e
  have := h.att_eq s h.s_lt
  rw [h.att_s, e, attT_self _ _ _ ht] at this
  cases this

theorem Pre.att_at_s {p : Pos} {t src0 : Nat} {st : SeeState} {R : BB} {s : Nat} (h : Pre p t src0 st R s) :
    attT (occOf p R) (p.at s) t s = true := by
  have := h.att_eq s h.s_lt
  rw [h.att_s, h.s_notin] at this
  simpa using this.symm

theorem Pre.all_s {p : Pos} {t src0 : Nat} {st : SeeState} {R : BB} {s : Nat} (h : Pre p t src0 st R s)
    (hw : wfShape p = true) : p.all.getLsbD s = true := by
  rw [all_bit p hw s h.s_lt, h.piece_s]
  simpa using newPiece_ne_zero _ _

/-- the occupancy after the current capturer has left -/
theorem Pre.occ1 {p : Pos} {t src0 : Nat} {st : SeeState} {R : BB} {s : Nat} (h : Pre p t src0 st R s)
    (hw : wfShape p = true) :
    ∀ a, a < 64 → (st.occ ^^^ st.src).getLsbD a = (occOf p (R ||| bit s)).getLsbD a := by
  intro a ha
  rw [h.src_eq, BitVec.getLsbD_xor, h.occ_eq a ha, occOf_or_bit p R s a h.s_lt ha, getLsbD_bit s a h.s_lt]
  by_cases e : a = s
  · subst e
    rw [occOf_bit p R a ha, h.all_s hw, h.s_notin]; simp
  · simp [e]

theorem mx_codes : ∀ c < 2, ∀ k < 6,
    (newPiece c k == 1 || newPiece c k == 9 || newPiece c k == 3 || newPiece c k == 11 || newPiece c k == 4 ||
      newPiece c k == 12 || newPiece c k == 5 || newPiece c k == 13) = (k != 1 && k != 5) := by decide

/-- (b) the incrementally maintained attacker set is exact on the pieces that have not captured -/
theorem Pre.att1_bits {p : Pos} {t src0 : Nat} {st : SeeState} {R : BB} {s : Nat} (h : Pre p t src0 st R s)
    (hw : wfShape p = true) (ht : t < 64) (hk : st.atype ≠ 5) :
    ∀ a, a < 64 → (att1 p t (seeMaxXray p) st).getLsbD a =
      (attT (occOf p (R ||| bit s)) (p.at a) t a && !(R ||| bit s).getLsbD a) := by
  intro a ha
  have hx : ((st.src &&& seeMaxXray p) != 0#64) = (st.atype != 1 && st.atype != 5) := by
    rw [h.src_eq, bit_and_ne_zero s _ h.s_lt, seeMaxXray_bit p hw s h.s_lt, h.piece_s]
    exact mx_codes st.side h.side_lt st.atype h.type_lt
  have hR1 : (R ||| bit s).getLsbD a = (R.getLsbD a || decide (a = s)) := by
    rw [BitVec.getLsbD_or, getLsbD_bit s a h.s_lt]
  unfold att1
  rw [hx, hR1]
  by_cases hkn : st.atype = 1
  · -- a knight has captured: no line from `t` passes through its square
    have e : (st.atype != 1 && st.atype != 5) = false := by simp [hkn]
    rw [e]
    simp only [Bool.false_eq_true, if_false]
    rw [BitVec.getLsbD_xor, h.src_eq, getLsbD_bit s a h.s_lt, h.att_eq a ha]
    have hks : Geo.knightStep t s = true := by
      apply attT_knight _ (p.at s) t s _ h.att_at_s
      rw [h.piece_s, hkn]
      have := h.side_lt
      have : st.side = 0 ∨ st.side = 1 := by omega
      rcases this with e | e <;> rw [e] <;> decide
    have hoff := knight_offline t s ht hks
    rw [attT_vacate_offline (occOf p R) (occOf p (R ||| bit s)) (p.at a) t a s hoff
      (fun u hu hus => by rw [occOf_or_bit p R s u h.s_lt hu]; simp [hus])]
    by_cases e : a = s
    · subst e
      rw [← attT_vacate_offline (occOf p R) (occOf p (R ||| bit a)) (p.at a) t a a hoff
        (fun u hu hus => by rw [occOf_or_bit p R a u h.s_lt hu]; simp [hus]), h.att_at_s, h.s_notin]
      simp
    · simp [e]
  · have e : (st.atype != 1 && st.atype != 5) = true := by simp [hkn, hk]
    rw [e]
    simp only [if_true]
    have halr := h.alr_eq a ha
    have hocc1 := h.occ1 hw
    rw [h.src_eq] at halr hocc1
    rw [BitVec.getLsbD_or, BitVec.getLsbD_xor, h.src_eq, getLsbD_bit s a h.s_lt, h.att_eq a ha,
      considerXrays_bit p hw t a _ _ ht ha, halr,
      ← xrT_congr (occOf p (R ||| bit s)) (st.occ ^^^ bit s) (p.at a) t a hocc1]
    have himp : xrT (occOf p R) (p.at a) t a = true → xrT (occOf p (R ||| bit s)) (p.at a) t a = true :=
      xrT_mono _ _ _ _ _ (occOf_sub p R s h.s_lt)
    by_cases e : a = s
    · subst e
      rw [h.att_at_s, h.s_notin]; simp
    · unfold attT
      simp only [e, decide_false, Bool.or_false, Bool.xor_false]
      cases h1 : leapT (p.at a) t a <;> cases h2 : xrT (occOf p R) (p.at a) t a <;>
        cases h3 : xrT (occOf p (R ||| bit s)) (p.at a) t a <;> cases R.getLsbD a <;> simp_all

end Clemens.P18
