import Clemens.Proofs.MakeMove
/-
C02 — the part of `MakeMove` that all move kinds share: en passant reset, capture, castling rights,
moving the piece, double-push en passant square.  `mid K p m` is the position after these stages,
`makeMove_mid` says `makeMove` is `stKind` applied to it followed by `stFinish`; the scalar fields
(side, castling, ep, hmc, fullmove) of the result are compared with `Fide.apply` once and for all in
`refines_of_kind`.
-/
namespace Clemens

/-! ### pieces -/

theorem validPiece_lt {pc : Nat} (h : validPiece pc = true) : pc < 16 := by
  unfold validPiece pieceColor at h
  simp only [Bool.and_eq_true, decide_eq_true_eq, Nat.shiftRight_eq_div_pow] at h
  omega

theorem valid_facts_fin : ∀ pc < 16, validPiece pc = true →
    pc ≠ 0 ∧ Fide.kindOf pc = pieceType pc ∧ pieceColor pc < 2 ∧ pieceType pc < 6 := by decide

theorem valid_facts {pc : Nat} (h : validPiece pc = true) :
    pc ≠ 0 ∧ Fide.kindOf pc = pieceType pc ∧ pieceColor pc < 2 ∧ pieceType pc < 6 :=
  valid_facts_fin pc (validPiece_lt h) h

theorem valid_newPiece_fin : ∀ c < 2, ∀ t < 5, validPiece (newPiece c t) = true := by decide

theorem valid_newPiece {c t : Nat} (hc : c < 2) (ht : t ≤ 4) : validPiece (newPiece c t) = true :=
  valid_newPiece_fin c hc t (by omega)

theorem newPiece_eq_mkPiece (c t : Nat) : newPiece c t = Fide.mkPiece c t := by
  unfold newPiece Fide.mkPiece; omega

/-! ### the capture stage -/

def capP (K : Keys) (p : Pos) (t : Nat) : Pos := if p.at t != 0 then delP K p t else p

theorem stCapture_eq {K : Keys} {p : Pos} {t : Nat} (ht : t < 64)
    (hv : p.at t = 0 ∨ validPiece (p.at t) = true) :
    stCapture K p t = some (capP K p t, p.at t != 0) := by
  unfold stCapture capP
  by_cases h : p.at t = 0
  · simp [h]
  · have hv' : validPiece (p.at t) = true := hv.resolve_left h
    simp [h, deletePiece_eq ht hv']

@[simp] theorem capP_side (K p t) : (capP K p t).side = p.side := by unfold capP; split <;> rfl
@[simp] theorem capP_castling (K p t) : (capP K p t).castling = p.castling := by unfold capP; split <;> rfl
@[simp] theorem capP_ep (K p t) : (capP K p t).ep = p.ep := by unfold capP; split <;> rfl
@[simp] theorem capP_hmc (K p t) : (capP K p t).hmc = p.hmc := by unfold capP; split <;> rfl
@[simp] theorem capP_ply (K p t) : (capP K p t).ply = p.ply := by unfold capP; split <;> rfl
theorem capP_at (K : Keys) (p : Pos) (t j : Nat) : (capP K p t).at j = if j = t then 0 else p.at j := by
  unfold capP
  by_cases h : p.at t = 0
  · simp only [h, bne_self_eq_false, Bool.false_eq_true, if_false]
    by_cases hj : j = t
    · subst hj; simp [h]
    · simp [hj]
  · simp only [bne_iff_ne, ne_eq, h, not_false_eq_true, if_true]
    exact delP_at K p t j

/-! ### the pawn stage -/

def pawnP (K : Keys) (p : Pos) (piece src tgt : Nat) : Pos :=
  if pieceType piece = PAWN ∧ absDiff src tgt % 256 = 16 then
    { p with ep := (if p.side = 1 then tgt + 8 else tgt + 248) % 256, hash := p.hash ^^^ K.ep (fileOf tgt) }
  else p

theorem stPawn_eq {K : Keys} {p : Pos} {piece src tgt : Nat} {r : Bool} (hs : p.side < 2) :
    stPawn K p piece src tgt r = some (pawnP K p piece src tgt, decide (pieceType piece = PAWN) || r) := by
  unfold stPawn pawnP
  by_cases h1 : pieceType piece = PAWN
  · by_cases h2 : absDiff src tgt % 256 = 16
    · by_cases h3 : p.side = 1
      · simp [h1, h2, h3]
      · have h0 : p.side = 0 := by omega
        simp [h1, h2, h0]
    · simp [h1, h2]
  · simp [h1]

@[simp] theorem pawnP_side (K p a b c) : (pawnP K p a b c).side = p.side := by unfold pawnP; split <;> rfl
@[simp] theorem pawnP_castling (K p a b c) : (pawnP K p a b c).castling = p.castling := by
  unfold pawnP; split <;> rfl
@[simp] theorem pawnP_hmc (K p a b c) : (pawnP K p a b c).hmc = p.hmc := by unfold pawnP; split <;> rfl
@[simp] theorem pawnP_ply (K p a b c) : (pawnP K p a b c).ply = p.ply := by unfold pawnP; split <;> rfl
@[simp] theorem pawnP_board (K p a b c) : (pawnP K p a b c).board = p.board := by unfold pawnP; split <;> rfl
@[simp] theorem pawnP_at (K p a b c j) : (pawnP K p a b c).at j = p.at j := by
  show vget (pawnP K p a b c).board j 0 = _; rw [pawnP_board]; rfl
theorem pawnP_ep (K : Keys) (p : Pos) (piece src tgt : Nat) : (pawnP K p piece src tgt).ep =
    if pieceType piece = PAWN ∧ absDiff src tgt % 256 = 16 then (if p.side = 1 then tgt + 8 else tgt + 248) % 256
    else p.ep := by
  unfold pawnP; split <;> rfl

/-! ### the position after the common stages -/

/-- the position after capture, castling-right update, moving the piece and the double-push bookkeeping -/
def mid (K : Keys) (p : Pos) (m : Move) : Pos :=
  let p2 := touchSquare K (touchSquare K (capP K (clearEp K p) m.tgt) m.src) m.tgt
  pawnP K (setP K (delP K p2 m.src) (p.at m.src) m.tgt) (p.at m.src) m.src m.tgt

/-- is the half-move clock reset? -/
def rst (p : Pos) (m : Move) : Bool := decide (pieceType (p.at m.src) = PAWN) || (p.at m.tgt != 0)

@[simp] theorem mid_side (K p m) : (mid K p m).side = p.side := by simp [mid]
@[simp] theorem mid_hmc (K p m) : (mid K p m).hmc = p.hmc := by simp [mid]
@[simp] theorem mid_ply (K p m) : (mid K p m).ply = p.ply := by simp [mid]
theorem mid_castling (K : Keys) (p : Pos) (m : Move) (hc : p.castling < 16) : (mid K p m).castling =
    p.castling &&& (15 - (Fide.rightsTouched m.src ||| Fide.rightsTouched m.tgt)) := by
  simp only [mid, pawnP_castling, setP_castling, delP_castling]
  rw [touch2_castling K _ _ _ (by simpa using hc)]
  simp
theorem mid_ep (K : Keys) (p : Pos) (m : Move) : (mid K p m).ep =
    if pieceType (p.at m.src) = PAWN ∧ absDiff m.src m.tgt % 256 = 16 then
      (if p.side = 1 then m.tgt + 8 else m.tgt + 248) % 256
    else 64 := by
  simp [mid, pawnP_ep]
theorem mid_at (K : Keys) (p : Pos) (m : Move) (ht : m.tgt < 64) (j : Nat) : (mid K p m).at j =
    if j = m.tgt then p.at m.src else if j = m.src then 0 else p.at j := by
  simp only [mid, pawnP_at, setP_at, delP_at, touchSquare_at, capP_at, clearEp_at, ht, and_true]
  by_cases h1 : j = m.tgt <;> simp [h1]

/-- `makeMove` is the common stages, then the kind-specific stage, then the counters -/
theorem makeMove_mid {K : Keys} {p : Pos} {m : Move} (hs : m.src < 64) (ht : m.tgt < 64) (hne : m.src ≠ m.tgt)
    (hown : validPiece (p.at m.src) = true)
    (htgt : p.at m.tgt = 0 ∨ validPiece (p.at m.tgt) = true) (hside : p.side < 2) :
    makeMove K p m = (stKind K (mid K p m) m).map fun p5 => stFinish K p5 (rst p m) := by
  rw [makeMove_eq]
  simp only
  rw [stCapture_eq ht (by simpa using htgt)]
  simp only [Option.bind_eq_bind, Option.bind_some, clearEp_at]
  have hmv : movePiece K (touchSquare K (touchSquare K (capP K (clearEp K p) m.tgt) m.src) m.tgt) m.src m.tgt
      = some (setP K (delP K (touchSquare K (touchSquare K (capP K (clearEp K p) m.tgt) m.src) m.tgt) m.src)
          (p.at m.src) m.tgt, p.at m.src) := by
    have hat : (touchSquare K (touchSquare K (capP K (clearEp K p) m.tgt) m.src) m.tgt).at m.src = p.at m.src := by
      simp [capP_at, hne]
    unfold movePiece
    rw [deletePiece_eq hs (by rw [hat]; exact hown)]
    simp only [Option.bind_eq_bind, Option.bind_some, hat]
    rw [setPiece_eq ht hown]
    rfl
  rw [hmv]
  simp only [Option.bind_some]
  rw [stPawn_eq (by simpa using hside)]
  simp only [Option.bind_some]
  cases h : stKind K (mid K p m) m with
  | none =>
    have h' := h
    unfold mid at h'
    simp only at h'
    rw [h']; rfl
  | some p5 =>
    have h' := h
    unfold mid at h'
    simp only at h'
    rw [h']; rfl

/-! ### the abstraction -/

theorem absPos_at (p : Pos) (s : Nat) : (absPos p).at s = p.at s := by
  unfold Fide.Pos.at absPos Pos.at vget
  simp [Array.getD_eq_getD_getElem?]

theorem getD_setSq (b : Array Nat) (s pc j : Nat) :
    (Fide.setSq b s pc).getD j 0 = if j = s ∧ s < b.size then pc else b.getD j 0 := by
  unfold Fide.setSq
  rw [Array.getD_eq_getD_getElem?, Array.getD_eq_getD_getElem?, Array.getElem?_setIfInBounds]
  by_cases h : s = j
  · subst h; by_cases h2 : s < b.size <;> simp [h2]
  · have : ¬ j = s := fun e => h e.symm
    simp [h, this]

@[simp] theorem size_setSq (b : Array Nat) (s pc : Nat) : (Fide.setSq b s pc).size = b.size := by
  unfold Fide.setSq; simp

theorem getD_board (p : Pos) (j : Nat) : p.board.toArray.getD j 0 = p.at j := by
  unfold Pos.at vget
  simp [Array.getD_eq_getD_getElem?]

/-- boards agree when they agree square by square -/
theorem board_eq_of_at {q : Pos} {b : Array Nat} (hb : b.size = 64) (h : ∀ j < 64, q.at j = b.getD j 0) :
    q.board.toArray = b := by
  apply Array.ext
  · simp [hb]
  · intro i h1 h2
    have hi : i < 64 := by simpa using h1
    have := h i hi
    rw [← getD_board, Array.getD_eq_getD_getElem?, Array.getD_eq_getD_getElem?] at this
    simpa [Array.getElem?_eq_getElem h1, Array.getElem?_eq_getElem h2] using this

theorem fidePos_ext {a b : Fide.Pos} (h1 : a.board = b.board) (h2 : a.side = b.side)
    (h3 : a.castling = b.castling) (h4 : a.ep = b.ep) (h5 : a.hmc = b.hmc) (h6 : a.fullmove = b.fullmove) :
    a = b := by
  cases a; cases b; simp_all

/-- the scalar fields of the rules' successor in the words of the model -/
theorem apply_side (p : Pos) (m : Move) : (Fide.apply (absPos p) (absMove m)).side = Fide.other p.side := rfl
theorem apply_castling (p : Pos) (m : Move) : (Fide.apply (absPos p) (absMove m)).castling =
    p.castling &&& (15 - (Fide.rightsTouched m.src ||| Fide.rightsTouched m.tgt)) := rfl
theorem apply_fullmove (p : Pos) (m : Move) : (Fide.apply (absPos p) (absMove m)).fullmove =
    if p.side = 1 then p.ply / 2 + 1 + 1 else p.ply / 2 + 1 := rfl
theorem apply_ep (p : Pos) (m : Move) : (Fide.apply (absPos p) (absMove m)).ep =
    if (decide (Fide.kindOf (p.at m.src) = 0) && (decide (m.tgt = m.src + 16) || decide (m.src = m.tgt + 16))) = true
    then some (if p.side = 0 then m.src + 8 else m.src - 8) else none := by
  simp only [Fide.apply, absPos_at]
  rfl
theorem apply_hmc (p : Pos) (m : Move) : (Fide.apply (absPos p) (absMove m)).hmc =
    if (decide (Fide.kindOf (p.at m.src) = 0) || (p.at m.tgt != 0)) = true then 0 else p.hmc + 1 := by
  simp only [Fide.apply, absPos_at]
  rfl

/-- the en passant square the engine records (uint8 arithmetic) is the one the rules name -/
theorem ep_agree (side src tgt : Nat) (hs : src < 64) (ht : tgt < 64) (hside : side < 2)
    (isP : Prop) [Decidable isP] (hf : isP → if side = 0 then src < tgt else tgt < src) (e : Nat)
    (he : e = if isP ∧ absDiff src tgt % 256 = 16 then (if side = 1 then tgt + 8 else tgt + 248) % 256 else 64) :
    (if e = 64 then none else some e) =
      if (decide isP && (decide (tgt = src + 16) || decide (src = tgt + 16))) = true
      then some (if side = 0 then src + 8 else src - 8) else none := by
  have habs : absDiff src tgt % 256 = 16 ↔ (tgt = src + 16 ∨ src = tgt + 16) := by
    unfold absDiff; split <;> omega
  by_cases hp : isP
  · have hf := hf hp
    by_cases hd : tgt = src + 16 ∨ src = tgt + 16
    · have hc : (decide isP && (decide (tgt = src + 16) || decide (src = tgt + 16))) = true := by
        simpa [hp] using hd
      rw [if_pos ⟨hp, habs.2 hd⟩] at he
      rw [if_pos hc]
      by_cases hw : side = 0
      · rw [if_pos hw] at hf ⊢
        rw [if_neg (by omega)] at he
        have : e = src + 8 := by omega
        rw [this, if_neg (by omega)]
      · rw [if_neg hw] at hf ⊢
        rw [if_pos (by omega)] at he
        have : e = src - 8 := by omega
        rw [this, if_neg (by omega)]
    · have hc : ¬ (decide isP && (decide (tgt = src + 16) || decide (src = tgt + 16))) = true := by
        simpa [hp] using hd
      rw [if_neg (fun h => hd (habs.1 h.2))] at he
      rw [if_neg hc, if_pos he]
  · have hc : ¬ (decide isP && (decide (tgt = src + 16) || decide (src = tgt + 16))) = true := by
      simp [hp]
    rw [if_neg (fun h => hp h.1)] at he
    rw [if_neg hc, if_pos he]

/-- what remains to be shown per move kind: the kind-specific stage succeeds, keeps the scalar fields, and
produces the board of the rules -/
theorem refines_of_kind {K : Keys} {p : Pos} {m : Move} (hst : wfState p = true)
    (hs : m.src < 64) (ht : m.tgt < 64) (hne : m.src ≠ m.tgt)
    (hown : validPiece (p.at m.src) = true)
    (htgt : p.at m.tgt = 0 ∨ validPiece (p.at m.tgt) = true)
    (hfwd : pieceType (p.at m.src) = PAWN → if p.side = 0 then m.src < m.tgt else m.tgt < m.src)
    (hr : p.ply < 255 ∧ p.hmc < 255)
    (p5 : Pos) (hk : stKind K (mid K p m) m = some p5)
    (h5 : p5.side = p.side ∧ p5.castling = (mid K p m).castling ∧ p5.ep = (mid K p m).ep ∧ p5.hmc = p.hmc ∧
      p5.ply = p.ply)
    (hb : (Fide.apply (absPos p) (absMove m)).board.size = 64)
    (hboard : ∀ j < 64, p5.at j = (Fide.apply (absPos p) (absMove m)).board.getD j 0) :
    ∃ q, makeMove K p m = some q ∧ absPos q = Fide.apply (absPos p) (absMove m) := by
  unfold wfState at hst
  simp only [Bool.and_eq_true, decide_eq_true_eq, beq_iff_eq] at hst
  obtain ⟨⟨⟨⟨⟨hside, hcast⟩, -⟩, -⟩, -⟩, hpar⟩ := hst
  obtain ⟨h5s, h5c, h5e, h5h, h5p⟩ := h5
  refine ⟨stFinish K p5 (rst p m), ?_, ?_⟩
  · rw [makeMove_mid hs ht hne hown htgt hside, hk]; rfl
  · have hkind := (valid_facts hown).2.1
    apply fidePos_ext
    · exact board_eq_of_at hb hboard
    · show switchColor p5.side = _
      rw [apply_side, h5s]; unfold switchColor Fide.other
      split <;> omega
    · show p5.castling = _
      rw [apply_castling, h5c, mid_castling K p m hcast]
    · show (if (stFinish K p5 (rst p m)).ep = 64 then none else some (stFinish K p5 (rst p m)).ep) = _
      rw [apply_ep, stFinish_ep, hkind]
      exact ep_agree p.side m.src m.tgt hs ht hside (pieceType (p.at m.src) = PAWN) hfwd _ (by rw [h5e, mid_ep])
    · show (stFinish K p5 (rst p m)).hmc = _
      rw [apply_hmc, stFinish_hmc, h5h, hkind]
      unfold rst
      have : PAWN = 0 := rfl
      rw [this]
      split
      · rfl
      · omega
    · show (stFinish K p5 (rst p m)).ply / 2 + 1 = _
      rw [apply_fullmove, stFinish_ply, h5p]
      split <;> omega

end Clemens
