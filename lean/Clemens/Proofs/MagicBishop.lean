import Clemens.Proofs.MagicCore
/-
C12b kernel facts, bishop, all 64 squares (5248 subsets in total): for each square the Carry-Rippler enumeration of the
mask's subsets is the recursive enumeration, and the magic indices of all subsets are pairwise distinct and in range.
-/
namespace Clemens

theorem bishop_check_all : (List.range 64).all (fun s => magicCheck (bishopMagic s)) = true := by decide +kernel

theorem bishop_check (s : Nat) (hs : s < 64) : magicCheck (bishopMagic s) = true :=
  List.all_eq_true.1 bishop_check_all s (List.mem_range.2 hs)

end Clemens
