import Clemens.Model.Search
/-
Lemma library for C05: a small relational ("frame") logic for the search monad `SM`.

`Fr s k s'` relates the state before a computation, the kind of its result (`ok`, `cancelled`, `panic`)
and the state after it.  It is reflexive at `ok`/`panic` and transitive through `ok`, hence compositional over
`>>=`.  `Holds m` says that `m` satisfies `Fr` from every start state.
-/
namespace Clemens

/-- a state in which the cancellation has already been reported (or will be at the next poll) -/
def Cancelled (s : SState) : Prop := ∃ k, s.cancelAt = some k ∧ k ≤ s.polls

namespace SearchLemmas

inductive RKind | ok | cancelled | panic
deriving DecidableEq

def kind {α} : SRes α → RKind
  | .ok _ => .ok
  | .cancelled => .cancelled
  | .panic => .panic

@[simp] theorem kind_ok {α} (a : α) : kind (SRes.ok a) = .ok := rfl
@[simp] theorem kind_cancelled {α} : kind (SRes.cancelled : SRes α) = .cancelled := rfl
@[simp] theorem kind_panic {α} : kind (SRes.panic : SRes α) = .panic := rfl

theorem kind_eq_cancelled {α} {r : SRes α} : kind r = .cancelled ↔ r = .cancelled := by
  cases r <;> simp [kind]

/-- what every search computation guarantees:
 * the cancellation oracle, the log, the adopted pv, `mainPolls`, `rootHmc` are not touched;
 * polls and nodes only grow, and nodes grow by at most the number of polls (every node visit polls);
 * `cancelled` is only ever produced by a poll that saw the cancellation: afterwards `cancelAt = some c` with `c < polls`;
 * from a state with `polls ≤ c`: a cancelled result means the cancelling poll (number `c`) was the *last* poll
   (`polls = c + 1`), any other result means no poll saw the cancellation (`polls ≤ c`). -/
def Fr (s : SState) (k : RKind) (s' : SState) : Prop :=
  s'.cancelAt = s.cancelAt ∧ s'.log = s.log ∧ s'.pv = s.pv ∧ s'.mainPolls = s.mainPolls ∧ s'.rootHmc = s.rootHmc ∧
  s.polls ≤ s'.polls ∧ s.nodes ≤ s'.nodes ∧ s'.nodes + s.polls ≤ s'.polls + s.nodes ∧
  (k = .cancelled → ∃ c, s.cancelAt = some c ∧ c < s'.polls) ∧
  (∀ c, s.cancelAt = some c → s.polls ≤ c → (k = .cancelled → s'.polls = c + 1) ∧ (k ≠ .cancelled → s'.polls ≤ c))

theorem Fr.refl_ok (s : SState) : Fr s .ok s := by
  simp [Fr]; omega

theorem Fr.refl_panic (s : SState) : Fr s .panic s := by
  simp [Fr]; omega

theorem Fr.trans {s s1 s2 : SState} {k : RKind} (h1 : Fr s .ok s1) (h2 : Fr s1 k s2) : Fr s k s2 := by
  obtain ⟨a1, a2, a3, a4, a5, a6, a7, a8, _, a10⟩ := h1
  obtain ⟨b1, b2, b3, b4, b5, b6, b7, b8, b9, b10⟩ := h2
  refine ⟨by rw [b1, a1], by rw [b2, a2], by rw [b3, a3], by rw [b4, a4], by rw [b5, a5], by omega, by omega, by omega, ?_, ?_⟩
  · intro hk
    obtain ⟨c, hc, hlt⟩ := b9 hk
    exact ⟨c, by rw [← a1]; exact hc, hlt⟩
  · intro c hc hle
    have h := (a10 c hc hle).2 (by decide)
    exact b10 c (by rw [a1]; exact hc) h

def Holds {α} (m : SM α) : Prop := ∀ s, Fr s (kind (m s).1) (m s).2

theorem holds_pure {α} (a : α) : Holds (pure a : SM α) := fun s => Fr.refl_ok s
theorem holds_pure' {α} (a : α) : Holds (SM.pure a : SM α) := fun s => Fr.refl_ok s
theorem holds_panic {α} : Holds (SM.panic : SM α) := fun s => Fr.refl_panic s
theorem holds_get : Holds SM.get := fun s => Fr.refl_ok s

theorem holds_ofOption {α} (o : Option α) : Holds (SM.ofOption o) := by
  cases o
  · exact holds_panic
  · exact holds_pure _

theorem holds_evalS (p : Pos) : Holds (evalS p) := holds_ofOption _

theorem bind_def {α β} (m : SM α) (f : α → SM β) (s : SState) :
    (m >>= f) s = match m s with
      | (.ok a, s') => f a s'
      | (.cancelled, s') => (.cancelled, s')
      | (.panic, s') => (.panic, s') := rfl

theorem bind_ok {α β} (m : SM α) (f : α → SM β) (s s' : SState) (a : α) (h : m s = (.ok a, s')) :
    (m >>= f) s = f a s' := by
  rw [bind_def, h]

theorem bind_cancelled' {α β} (m : SM α) (f : α → SM β) (s : SState) (h : (m s).1 = .cancelled) :
    (m >>= f) s = (.cancelled, (m s).2) := by
  rw [bind_def]
  rcases hm : m s with ⟨r, s'⟩
  rw [hm] at h
  simp only at h
  subst h
  rfl

theorem bind_panic {α β} (m : SM α) (f : α → SM β) (s : SState) (h : (m s).1 = .panic) :
    (m >>= f) s = (.panic, (m s).2) := by
  rw [bind_def]
  rcases hm : m s with ⟨r, s'⟩
  rw [hm] at h
  simp only at h
  subst h
  rfl

theorem bind_assoc {α β γ} (m : SM α) (f : α → SM β) (g : β → SM γ) :
    (m >>= f) >>= g = m >>= fun a => f a >>= g := by
  funext s
  simp only [bind_def]
  rcases m s with ⟨r, s'⟩
  cases r <;> rfl

theorem holds_bind {α β} {m : SM α} {f : α → SM β} (hm : Holds m) (hf : ∀ a, Holds (f a)) : Holds (m >>= f) := by
  intro s
  have h1 := hm s
  rw [bind_def]
  rcases hms : m s with ⟨r, s'⟩
  rw [hms] at h1
  cases r with
  | ok a => exact Fr.trans h1 (hf a s')
  | cancelled => exact h1
  | panic => exact h1

theorem holds_ite {α} {c : Prop} [Decidable c] {a b : SM α} (ha : Holds a) (hb : Holds b) : Holds (if c then a else b) := by
  split
  · exact ha
  · exact hb

/-- a modification that touches none of the observed fields -/
theorem holds_modify (f : SState → SState)
    (h : ∀ s, (f s).cancelAt = s.cancelAt ∧ (f s).log = s.log ∧ (f s).pv = s.pv ∧ (f s).mainPolls = s.mainPolls ∧
      (f s).rootHmc = s.rootHmc ∧ (f s).polls = s.polls ∧ (f s).nodes = s.nodes) : Holds (SM.modify f) := by
  intro s
  obtain ⟨h1, h2, h3, h4, h5, h6, h7⟩ := h s
  refine ⟨h1, h2, h3, h4, h5, ?_, ?_, ?_, ?_, ?_⟩
  · show s.polls ≤ (f s).polls; omega
  · show s.nodes ≤ (f s).nodes; omega
  · show (f s).nodes + s.polls ≤ (f s).polls + s.nodes; omega
  · intro h; cases h
  · intro c _ hle
    refine ⟨fun h => (by cases h), fun _ => ?_⟩
    show (f s).polls ≤ c; omega

theorem poll_ok_or (s : SState) :
    (poll s = (.ok (), { s with polls := s.polls + 1 }) ∧ (∀ c, s.cancelAt = some c → s.polls < c)) ∨
    (poll s = (.cancelled, { s with polls := s.polls + 1 }) ∧ ∃ c, s.cancelAt = some c ∧ c ≤ s.polls) := by
  unfold poll
  rcases hc : s.cancelAt with _ | c
  · left; simp
  · by_cases h : s.polls ≥ c
    · right; simp [h]
    · left; simp [h]; omega

theorem holds_poll : Holds poll := by
  intro s
  rcases poll_ok_or s with ⟨h, hc⟩ | ⟨h, c, hc, hle⟩
  · rw [h]
    refine ⟨rfl, rfl, rfl, rfl, rfl, ?_, ?_, ?_, ?_, ?_⟩
    · show s.polls ≤ s.polls + 1; omega
    · exact Nat.le_refl _
    · show s.nodes + s.polls ≤ s.polls + 1 + s.nodes; omega
    · intro h; cases h
    · intro c hcs _
      have := hc c hcs
      refine ⟨fun h => (by cases h), fun _ => ?_⟩
      show s.polls + 1 ≤ c; omega
  · rw [h]
    refine ⟨rfl, rfl, rfl, rfl, rfl, ?_, ?_, ?_, ?_, ?_⟩
    · show s.polls ≤ s.polls + 1; omega
    · exact Nat.le_refl _
    · show s.nodes + s.polls ≤ s.polls + 1 + s.nodes; omega
    · intro _; exact ⟨c, hc, show c < s.polls + 1 by omega⟩
    · intro c' hc' hle'
      rw [hc] at hc'
      cases hc'
      refine ⟨fun _ => ?_, fun h => absurd rfl h⟩
      show s.polls + 1 = c + 1; omega

/-- the node counter: `s.nodes++` -/
def incNodes : SState → SState := fun s => { s with nodes := s.nodes + 1 }

/-- `quiescence` counts, then polls -/
theorem holds_inc_poll : Holds (SM.modify incNodes >>= fun _ => poll) := by
  intro s
  rw [bind_ok _ _ s (incNodes s) () rfl]
  rcases poll_ok_or (incNodes s) with ⟨h, hc⟩ | ⟨h, c, hc, hle⟩
  · rw [h]
    refine ⟨rfl, rfl, rfl, rfl, rfl, ?_, ?_, ?_, ?_, ?_⟩
    · show s.polls ≤ s.polls + 1; omega
    · show s.nodes ≤ s.nodes + 1; omega
    · show s.nodes + 1 + s.polls ≤ s.polls + 1 + s.nodes; omega
    · intro h; cases h
    · intro c hcs _
      have := hc c hcs
      refine ⟨fun h => (by cases h), fun _ => ?_⟩
      show s.polls + 1 ≤ c; exact this
  · rw [h]
    refine ⟨rfl, rfl, rfl, rfl, rfl, ?_, ?_, ?_, ?_, ?_⟩
    · show s.polls ≤ s.polls + 1; omega
    · show s.nodes ≤ s.nodes + 1; omega
    · show s.nodes + 1 + s.polls ≤ s.polls + 1 + s.nodes; omega
    · intro _; exact ⟨c, hc, show c < s.polls + 1 from Nat.lt_succ_of_le hle⟩
    · intro c' hc' hle'
      have hc2 : s.cancelAt = some c := hc
      rw [hc2] at hc'
      cases hc'
      have hle2 : c ≤ s.polls := hle
      refine ⟨fun _ => ?_, fun h => absurd rfl h⟩
      show s.polls + 1 = c + 1; omega

/-- `negamax` polls, then counts -/
theorem holds_poll_inc : Holds (poll >>= fun _ => SM.modify incNodes) := by
  intro s
  rcases poll_ok_or s with ⟨h, hc⟩ | ⟨h, c, hc, hle⟩
  · rw [bind_ok _ _ s _ () h]
    refine ⟨rfl, rfl, rfl, rfl, rfl, ?_, ?_, ?_, ?_, ?_⟩
    · show s.polls ≤ s.polls + 1; omega
    · show s.nodes ≤ s.nodes + 1; omega
    · show s.nodes + 1 + s.polls ≤ s.polls + 1 + s.nodes; omega
    · intro h; cases h
    · intro c hcs _
      have := hc c hcs
      refine ⟨fun h => (by cases h), fun _ => ?_⟩
      show s.polls + 1 ≤ c; exact this
  · have hb := bind_cancelled' poll (fun _ => SM.modify incNodes) s (by rw [h])
    rw [hb, h]
    refine ⟨rfl, rfl, rfl, rfl, rfl, ?_, ?_, ?_, ?_, ?_⟩
    · show s.polls ≤ s.polls + 1; omega
    · exact Nat.le_refl _
    · show s.nodes + s.polls ≤ s.polls + 1 + s.nodes; omega
    · intro _; exact ⟨c, hc, show c < s.polls + 1 from Nat.lt_succ_of_le hle⟩
    · intro c' hc' hle'
      rw [hc] at hc'
      cases hc'
      refine ⟨fun _ => ?_, fun h => absurd rfl h⟩
      show s.polls + 1 = c + 1; omega

/-! ### stepping through the `do` blocks of the model

`sm_step` applies one structural rule (bind / if / match / primitive); everything runs at reducible transparency
so that the unifier never unfolds `negamax`, `qLoop`, … -/

macro "sm_step" : tactic => `(tactic| with_reducible first
  | exact holds_pure _ | exact holds_panic | exact holds_get | exact holds_poll | exact holds_ofOption _ | exact holds_evalS _
  | exact holds_modify _ (fun _ => ⟨rfl, rfl, rfl, rfl, rfl, rfl, rfl⟩)
  | apply holds_bind
  | apply holds_ite
  | intro _
  | dsimp only
  | split)

theorem holds_inc_poll_bind {β} (rest : Unit → SM β) (h : ∀ u, Holds (rest u)) :
    Holds (SM.modify incNodes >>= fun _ => poll >>= rest) := by
  rw [← bind_assoc]; exact holds_bind holds_inc_poll h

theorem holds_poll_then {β} {c : Prop} [Decidable c] (A : SM β) (B : Unit → SM β) (hA : Holds A) (hB : ∀ u, Holds (B u)) :
    Holds (poll >>= fun _ => if c then A else SM.modify incNodes >>= B) := by
  by_cases h : c
  · simp only [if_pos h]; exact holds_bind holds_poll (fun _ => hA)
  · simp only [if_neg h]; rw [← bind_assoc]; exact holds_bind holds_poll_inc hB

theorem holds_qLoop (K : Keys) (recur : Pos → Int → Int → Nat → SM Int) (hrec : ∀ q a b pl, Holds (recur q a b pl))
    (p : Pos) (sp beta : Int) (ply : Nat) (eg : Bool) (l : List Move) (a : Int) :
    Holds (qLoop K recur p sp beta ply eg l a) := by
  induction l generalizing a with
  | nil => unfold qLoop; exact holds_pure _
  | cons m rest ih =>
    unfold qLoop
    repeat (first | (with_reducible exact ih _) | (with_reducible exact hrec _ _ _ _) | sm_step)

theorem holds_quiescence (K : Keys) (fuel : Nat) (p : Pos) (alpha beta : Int) (ply : Nat) :
    Holds (quiescence K fuel p alpha beta ply) := by
  induction fuel generalizing p alpha beta ply with
  | zero => unfold quiescence; exact holds_panic
  | succ fuel ih =>
    unfold quiescence
    refine holds_inc_poll_bind _ ?_
    repeat (first | (with_reducible exact holds_qLoop K _ ih _ _ _ _ _ _ _) | sm_step)

theorem holds_nmLoop (K : Keys) (recur : NegaFn) (hrec : ∀ q a b d pl cn pm, Holds (recur q a b d pl cn pm))
    (p : Pos) (beta : Int) (depth ply : Nat) (prev : Move) (fp : Bool) (l : List Move) (st : LoopSt) :
    Holds (nmLoop K recur p beta depth ply prev fp l st) := by
  induction l generalizing st with
  | nil => unfold nmLoop; exact holds_pure _
  | cons m rest ih =>
    unfold nmLoop
    repeat (first | (with_reducible exact ih _) | (with_reducible exact hrec _ _ _ _ _ _ _) | sm_step)

theorem holds_popPath {α} (body : SM α) (h : Holds body) :
    Holds (fun s => ((body s).1, { (body s).2 with path := (body s).2.path.pop })) := by
  intro s
  exact h s

theorem holds_negamax (K : Keys) (fuel : Nat) (p : Pos) (alpha beta : Int) (depth ply : Nat) (cn : Bool) (prev : Move) :
    Holds (negamax K fuel p alpha beta depth ply cn prev) := by
  induction fuel generalizing p alpha beta depth ply cn prev with
  | zero => unfold negamax; exact holds_panic
  | succ fuel ih =>
    unfold negamax
    dsimp only
    refine holds_poll_then _ _ ?_ ?_
    · exact holds_bind (holds_quiescence _ _ _ _ _ _) (fun _ => holds_pure _)
    · intro _
      repeat (first | (with_reducible exact ih _ _ _ _ _ _ _) | (with_reducible exact holds_nmLoop K _ ih _ _ _ _ _ _ _ _)
                    | (with_reducible refine holds_popPath _ ?_) | sm_step)

end SearchLemmas
end Clemens
