import Clemens.Props.C02
import Clemens.Proofs.LegalPseudo
import Clemens.Proofs.LegalMakeMoveShape
/-
C01 lemmas: the successor of a generated move.  `MoveShape` from `GenShape`; the board of `Fide.apply` square by square
(`succAt`, a chain of pointwise updates); a king that is not captured stays unique; `IsInCheck` against the rules for a
position with exactly one king of that colour (from `GM.attackedByExact_of_shape`; C12d itself cannot be imported next to
C02, see `LegalBoardViews.lean`); the successor exists, refines the rules and is shape-consistent (`succ_exists`); the
legality test on it is the rules' "mover not in check" (`isLegal_succ`).
-/
namespace Clemens
namespace LG
open GM


theorem moveShape_of (p : Pos) (m : Move) (g : GenShape p m) (f : PseudoFacts p m) : MoveShape p m := by
  refine ⟨⟨g.src_lt, g.tgt_lt, g.ne, g.own, g.target, g.kind_lt, g.castle, ?_, g.ep, ?_, g.promo, g.promo_piece⟩, f.pawn_fwd⟩
  · intro hk
    obtain ⟨a, b, c, d⟩ := g.castle_geom hk
    refine ⟨a, fun h => ?_, fun h => ?_, d⟩
    · rw [if_pos h] at b c; exact ⟨b, c⟩
    · have hn : ¬ m.tgt = m.src + 2 := by omega
      rw [if_neg hn] at b c; exact ⟨b, c⟩
  · intro hk
    obtain ⟨a, b, c⟩ := g.ep_victim hk
    exact ⟨b, c, a⟩

theorem mem_engineLegal (K : Keys) (p : Pos) (m : Move) (q : Pos) :
    (m, q) ∈ engineLegal K p ↔ m ∈ genMoves p ∧ makeMove K p m = some q ∧ isLegal q = true := by
  unfold engineLegal
  rw [List.mem_filterMap]
  constructor
  · rintro ⟨a, ha, h⟩
    cases hq : makeMove K p a with
    | none => rw [hq] at h; cases h
    | some q' =>
      rw [hq] at h
      simp only at h
      by_cases hl : isLegal q' = true
      · rw [if_pos hl] at h
        injection h with h
        injection h with h1 h2
        subst h1; subst h2
        exact ⟨ha, hq, hl⟩
      · rw [if_neg hl] at h; cases h
  · rintro ⟨ha, hq, hl⟩
    exact ⟨m, ha, by rw [hq]; simp [hl]⟩


/-- pointwise update of a board function -/
def upd (f : Nat → Nat) (a x : Nat) : Nat → Nat := fun j => if j = a then x else f j

theorem upd_apply (f : Nat → Nat) (a x j : Nat) : upd f a x j = if j = a then x else f j := rfl

def victimSq (p : Pos) (m : Move) : Nat := if p.side = 0 then m.tgt - 8 else m.tgt + 8
def rookFrom (m : Move) : Nat := if m.tgt = m.src + 2 then m.src + 3 else m.src - 4
def rookTo (m : Move) : Nat := if m.tgt = m.src + 2 then m.src + 1 else m.src - 1
def placedPc (p : Pos) (m : Move) : Nat := if m.kind = 1 then newPiece p.side m.promo else p.at m.src

/-- the board after a generated move, square by square -/
def succAt (p : Pos) (m : Move) : Nat → Nat :=
  let b0 := upd (upd p.at m.src 0) m.tgt (placedPc p m)
  let b1 := if m.kind = 2 then upd b0 (victimSq p m) 0 else b0
  if m.kind = 3 then upd (upd b1 (rookFrom m) 0) (rookTo m) (newPiece p.side ROOK) else b1

theorem apply_at (p : Pos) (m : Move) (g : GenShape p m) (j : Nat) :
    (Fide.apply (absPos p) (absMove m)).at j = succAt p m j := by
  have hB := apply_board (p := p) (m := m) g.own.2.1
  have h1 : (decide (pieceType (p.at m.src) = PAWN) && fileOf m.src != fileOf m.tgt && p.at m.tgt == 0) = decide (m.kind = 2) := by
    rw [Bool.eq_iff_iff]
    simp only [Bool.and_eq_true, decide_eq_true_eq, bne_iff_ne, beq_iff_eq, and_assoc]
    exact g.ep.symm
  have h2 : (decide (pieceType (p.at m.src) = KING) && (decide (m.tgt = m.src + 2) || decide (m.src = m.tgt + 2))) = decide (m.kind = 3) := by
    rw [Bool.eq_iff_iff]
    simp only [Bool.and_eq_true, Bool.or_eq_true, decide_eq_true_eq]
    exact g.castle.symm
  rw [h1, h2] at hB
  unfold Fide.Pos.at
  rw [hB]
  have hs := g.src_lt
  have ht := g.tgt_lt
  have hsz : p.board.toArray.size = 64 := Vector.size_toArray _
  by_cases k3 : m.kind = 3
  · have k2 : ¬ m.kind = 2 := by omega
    have k1 : ¬ m.kind = 1 := by omega
    have hsrc := (g.castle_geom k3).1
    have e3 : decide (m.kind = 3) = true := by simpa using k3
    have e2 : decide (m.kind = 2) = false := by simpa using k2
    unfold succAt specBoard placedPc
    rw [e2, e3, if_pos k3, if_neg k2, if_neg k1]
    simp only [Bool.false_eq_true, if_false, if_true]
    by_cases hd : m.tgt = m.src + 2
    · have a1 : m.src + 1 < 64 := by omega
      have a3 : m.src + 3 < 64 := by omega
      simp only [rookFrom, rookTo, hd, if_true, getD_setSq, size_setSq, getD_board, hsz, upd_apply, a1, a3, hs, and_true]
      simp only [← hd, ht, and_true, newPiece_eq_mkPiece, ROOK, k1, if_false]
    · have a1 : m.src - 1 < 64 := by omega
      have a3 : m.src - 4 < 64 := by omega
      simp only [rookFrom, rookTo, hd, if_false, getD_setSq, size_setSq, getD_board, hsz, upd_apply, a1, a3, hs, ht, and_true,
        newPiece_eq_mkPiece, ROOK, k1]
  · have e3 : decide (m.kind = 3) = false := by simpa using k3
    by_cases k2 : m.kind = 2
    · obtain ⟨_, v1, v2⟩ := g.ep_victim k2
      have k1 : ¬ m.kind = 1 := by omega
      have e2 : decide (m.kind = 2) = true := by simpa using k2
      have hv : (if p.side = 0 then m.tgt - 8 else m.tgt + 8) < 64 := by split <;> omega
      unfold succAt specBoard placedPc
      rw [e2, e3, if_neg k3, if_pos k2, if_neg k1]
      simp only [Bool.false_eq_true, if_false, if_true, getD_setSq, size_setSq, getD_board, hsz, upd_apply, victimSq,
        hs, ht, hv, and_true, k1]
    · have e2 : decide (m.kind = 2) = false := by simpa using k2
      unfold succAt specBoard placedPc
      rw [e2, e3, if_neg k3, if_neg k2]
      simp only [Bool.false_eq_true, if_false, getD_setSq, size_setSq, getD_board, hsz, upd_apply,
        hs, ht, and_true, newPiece_eq_mkPiece]


/-! ### uniqueness of a piece under pointwise updates -/

theorem upd_uniq_keep (f : Nat → Nat) (X k a x : Nat) (hU : ∀ j, f j = X ↔ j = k) (hx : x ≠ X) (ha : a ≠ k) :
    ∀ j, upd f a x j = X ↔ j = k := by
  intro j
  rw [upd_apply]
  by_cases h : j = a
  · rw [if_pos h]
    constructor
    · intro e; exact absurd e hx
    · intro e; exact absurd (h ▸ e) ha
  · rw [if_neg h]; exact hU j

theorem upd_absent (f : Nat → Nat) (X k x : Nat) (hU : ∀ j, f j = X ↔ j = k) (hx : x ≠ X) :
    ∀ j, upd f k x j ≠ X := by
  intro j
  rw [upd_apply]
  by_cases h : j = k
  · rw [if_pos h]; exact hx
  · rw [if_neg h]; exact fun e => h ((hU j).1 e)

theorem upd_place (f : Nat → Nat) (X a : Nat) (hA : ∀ j, f j ≠ X) : ∀ j, upd f a X j = X ↔ j = a := by
  intro j
  rw [upd_apply]
  by_cases h : j = a
  · rw [if_pos h]; exact ⟨fun _ => h, fun _ => rfl⟩
  · rw [if_neg h]; exact ⟨fun e => absurd e (hA j), fun e => absurd e h⟩

theorem king_codes : ∀ s < 2, ∀ c < 2, newPiece c KING ≠ 0 ∧ newPiece s ROOK ≠ newPiece c KING ∧
    newPiece s PAWN ≠ newPiece c KING ∧ pieceType (newPiece c KING) = KING ∧ pieceColor (newPiece c KING) = c ∧
    ∀ pr, 1 ≤ pr → pr ≤ 4 → newPiece s pr ≠ newPiece c KING := by
  intro s hs c hc
  refine ⟨?_, ?_, ?_, ?_, ?_, ?_⟩
  · revert c; revert s; decide
  · revert c; revert s; decide
  · revert c; revert s; decide
  · revert c; decide
  · revert c; decide
  · intro pr h1 h4
    have : pr = 1 ∨ pr = 2 ∨ pr = 3 ∨ pr = 4 := by omega
    revert c; revert s
    rcases this with rfl | rfl | rfl | rfl <;> decide

/-- a king that is not captured is still unique after the move -/
theorem succ_king (p : Pos) (m : Move) (g : GenShape p m) (hside : p.side < 2) (c : Nat) (hc : c < 2) (k : Nat)
    (hU : ∀ j, p.at j = newPiece c KING ↔ j = k) (hcap : p.at m.tgt ≠ newPiece c KING) :
    ∃ k', ∀ j, succAt p m j = newPiece c KING ↔ j = k' := by
  obtain ⟨x0, xr, xp, xt, xc, xpr⟩ := king_codes p.side hside c hc
  have hsw : switchColor p.side < 2 := by unfold switchColor; split <;> omega
  have xp' := (king_codes (switchColor p.side) hsw c hc).2.2.1
  have k1 : p.at m.src = newPiece c KING → m.kind ≠ 1 := by
    intro h hk
    have := (g.promo.1 hk).1
    rw [h, xt] at this
    cases this
  have k2 : p.at m.src = newPiece c KING → m.kind ≠ 2 := by
    intro h hk
    have := (g.ep.1 hk).1
    rw [h, xt] at this
    cases this
  unfold succAt
  by_cases hX : p.at m.src = newPiece c KING
  · have hk : k = m.src := ((hU m.src).1 hX).symm
    subst hk
    have hpl : placedPc p m = newPiece c KING := by unfold placedPc; rw [if_neg (k1 hX)]; exact hX
    have b0 := upd_place _ _ m.tgt (upd_absent p.at _ m.src 0 hU x0.symm)
    refine ⟨m.tgt, ?_⟩
    simp only [if_neg (k2 hX), hpl]
    by_cases k3 : m.kind = 3
    · rw [if_pos k3]
      obtain ⟨hs, _, _, _⟩ := g.castle_geom k3
      have hd := (g.castle.1 k3).2
      apply upd_uniq_keep _ _ _ _ _ _ xr
      · unfold rookTo; split <;> omega
      · apply upd_uniq_keep _ _ _ _ _ b0 x0.symm
        unfold rookFrom; split <;> omega
    · rw [if_neg k3]; exact b0
  · have hne : m.src ≠ k := fun e => hX ((hU m.src).2 e)
    have hpl : placedPc p m ≠ newPiece c KING := by
      unfold placedPc
      by_cases h1 : m.kind = 1
      · rw [if_pos h1]; exact xpr _ (g.promo_piece h1).1 (g.promo_piece h1).2
      · rw [if_neg h1]; exact hX
    have b0 := upd_uniq_keep _ _ _ m.tgt _ (upd_uniq_keep p.at _ k m.src 0 hU x0.symm hne) hpl
      (fun e => hcap ((hU m.tgt).2 e))
    refine ⟨k, ?_⟩
    have b1 : ∀ j, (if m.kind = 2 then upd (upd (upd p.at m.src 0) m.tgt (placedPc p m)) (victimSq p m) 0
        else upd (upd p.at m.src 0) m.tgt (placedPc p m)) j = newPiece c KING ↔ j = k := by
      by_cases h2 : m.kind = 2
      · rw [if_pos h2]
        apply upd_uniq_keep _ _ _ _ _ b0 x0.symm
        intro e
        have := (g.ep_victim h2).1
        unfold victimSq at e
        rw [e, (hU k).2 rfl] at this
        exact xp' this.symm
      · rw [if_neg h2]; exact b0
    by_cases k3 : m.kind = 3
    · rw [if_pos k3]
      obtain ⟨_, hr, he, _⟩ := g.castle_geom k3
      apply upd_uniq_keep _ _ _ _ _ _ xr
      · intro e
        unfold rookTo at e
        rw [e, (hU k).2 rfl] at he
        exact x0 he
      · apply upd_uniq_keep _ _ _ _ _ b1 x0.symm
        intro e
        unfold rookFrom at e
        rw [e, (hU k).2 rfl] at hr
        exact xr hr.symm
    · rw [if_neg k3]; exact b1

/-! ### kings and check -/


theorem popcount_one_iff (b : BB) : popcount b = 1 ↔ ∃ k, ∀ j, b.getLsbD j = true ↔ j = k := by
  unfold popcount
  constructor
  · intro h
    match hsq : squares b, h with
    | [x], _ =>
      refine ⟨x, fun j => ?_⟩
      rw [← mem_squares_iff, hsq, List.mem_singleton]
  · rintro ⟨k, hk⟩
    have hp : (squares b).Perm [k] := by
      rw [List.perm_ext_iff_of_nodup (squares_nodup b) (List.pairwise_singleton _ _)]
      intro a
      rw [mem_squares_iff, hk a, List.mem_singleton]
    simpa using hp.length_eq

theorem king_bit_iff (p : Pos) (hsh : wfShape p = true) (c : Nat) (hc : c < 2) (j : Nat) :
    (p.pieces c KING).getLsbD j = true ↔ p.at j = newPiece c KING := by
  by_cases hj : j < 64
  · rw [((shape_parts p hsh).1 j hj).2 c hc KING (by decide), beq_iff_eq]
  · have h0 : p.at j = 0 := GM.at_ge p j (by omega)
    have hb : (p.pieces c KING).getLsbD j = false := BitVec.getLsbD_of_ge _ _ (by omega)
    rw [hb, h0]
    constructor
    · intro h; cases h
    · intro h; exact absurd h.symm (newPiece_facts c hc KING (by decide)).1

theorem popcount_king_iff (p : Pos) (hsh : wfShape p = true) (c : Nat) (hc : c < 2) :
    popcount (p.pieces c KING) = 1 ↔ ∃ k, ∀ j, p.at j = newPiece c KING ↔ j = k := by
  rw [popcount_one_iff]
  constructor
  · rintro ⟨k, h⟩; exact ⟨k, fun j => by rw [← king_bit_iff p hsh c hc]; exact h j⟩
  · rintro ⟨k, h⟩; exact ⟨k, fun j => by rw [king_bit_iff p hsh c hc]; exact h j⟩

theorem inCheck_exact (p : Pos) (hsh : wfShape p = true) (c : Nat) (hc : c < 2) (k : Nat)
    (hU : ∀ j, p.at j = newPiece c KING ↔ j = k) : isInCheck p c = Fide.inCheck (absPos p) c := by
  have hk : p.at k = newPiece c KING := (hU k).2 rfl
  have hk64 : k < 64 := by
    apply Classical.byContradiction
    intro h
    rw [GM.at_ge p k (by omega)] at hk
    exact (newPiece_facts c hc KING (by decide)).1 hk.symm
  have h1 : popcount (p.pieces c KING) = 1 := (popcount_king_iff p hsh c hc).2 ⟨k, hU⟩
  have hl := king_square p hsh c k hc hk64 h1 hk
  have hsw : switchColor c < 2 := by unfold switchColor; split <;> omega
  have hks : Fide.kingSquare (absPos p) c = some k := by
    unfold Fide.kingSquare
    rw [List.find?_range_eq_some]
    refine ⟨?_, List.mem_range.2 hk64, ?_⟩
    · rw [GM.absPos_at, ← newPiece_eq_mkPiece, hk]; exact beq_self_eq_true _
    · intro j hj
      rw [GM.absPos_at, ← newPiece_eq_mkPiece]
      have : p.at j ≠ newPiece c 5 := fun e => by have := (hU j).1 e; omega
      simpa using this
  unfold isInCheck Fide.inCheck
  simp only [hl, hks]
  rw [attackedByExact_of_shape p hsh _ k hsw hk64, switchColor_eq c hc]

/-! ### the successor -/


theorem switchColor_twice (c : Nat) (hc : c < 2) : switchColor (switchColor c) = c := by
  have : c = 0 ∨ c = 1 := by omega
  rcases this with rfl | rfl <;> rfl

theorem switchColor_lt' (c : Nat) : switchColor c < 2 := by unfold switchColor; split <;> omega

/-- the king of colour `c` in a well-formed position -/
theorem king_of_WF (p : Pos) (hw : WF p = true) (c : Nat) (hc : c < 2) :
    ∃ k, ∀ j, p.at j = newPiece c KING ↔ j = k := by
  obtain ⟨hsh, _, hch⟩ := WF_parts p hw
  have cp := chess_parts p hch
  apply (popcount_king_iff p hsh c hc).1
  have : c = 0 ∨ c = 1 := by omega
  rcases this with rfl | rfl
  · exact cp.wk
  · exact cp.bk

/-- the successor of a generated move: exists, refines the rules, is shape-consistent, described square by square -/
theorem succ_exists (K : Keys) (p : Pos) (hw : WF p = true) (hr : p.ply < 255 ∧ p.hmc < 255) (m : Move)
    (hm : m ∈ genMoves p) :
    ∃ q, makeMove K p m = some q ∧ absPos q = Fide.apply (absPos p) (absMove m) ∧ wfShape q = true ∧
      q.side = switchColor p.side ∧ q.ply = p.ply + 1 ∧ ∀ j, q.at j = succAt p m j := by
  obtain ⟨hsh, hst, hch⟩ := WF_parts p hw
  have g := genMoves_shape p hw m hm
  have f := pseudoFacts_of_gen p hw m hm
  obtain ⟨q, hq, habs⟩ := makeMove_refines K p m hsh hst (moveShape_of p m g f) hr
  refine ⟨q, hq, habs, ?_, makeMove_side K p q m hq, ?_, ?_⟩
  · apply LBV.makeMove_agrees_core K p q m hq (LBV.agrees_of_wfShape_core p hsh)
    intro k3 fr t hmem
    obtain ⟨hs, _, he, _⟩ := g.castle_geom k3
    have hd := (g.castle.1 k3).2
    left
    simp only [LBV.castlingRookSquares, List.mem_cons, Prod.mk.injEq, List.not_mem_nil, or_false] at hmem
    rcases hmem with ⟨a, _, rfl⟩ | ⟨a, _, rfl⟩ | ⟨a, _, rfl⟩ | ⟨a, _, rfl⟩
    · have : ¬ m.tgt = m.src + 2 := by omega
      rw [if_neg this] at he
      have e : m.src - 1 = 3 := by omega
      rw [e] at he; exact he
    · have : m.tgt = m.src + 2 := by omega
      rw [if_pos this] at he
      have e : m.src + 1 = 5 := by omega
      rw [e] at he; exact he
    · have : ¬ m.tgt = m.src + 2 := by omega
      rw [if_neg this] at he
      have e : m.src - 1 = 59 := by omega
      rw [e] at he; exact he
    · have : m.tgt = m.src + 2 := by omega
      rw [if_pos this] at he
      have e : m.src + 1 = 61 := by omega
      rw [e] at he; exact he
  · rw [makeMove_ply K p q m hq]; omega
  · intro j
    rw [← GM.absPos_at, habs]
    exact apply_at p m g j

/-- the legality test on the successor is the rules' "mover not in check" -/
theorem isLegal_succ (p : Pos) (hw : WF p = true) (m : Move) (hm : m ∈ genMoves p) (q : Pos)
    (hshq : wfShape q = true) (hside : q.side = switchColor p.side) (hat : ∀ j, q.at j = succAt p m j) :
    isLegal q = !Fide.inCheck (absPos q) p.side := by
  obtain ⟨hsh, hst, hch⟩ := WF_parts p hw
  obtain ⟨hs2, _, _⟩ := state_parts p hst
  have g := genMoves_shape p hw m hm
  obtain ⟨k, hU⟩ := king_of_WF p hw p.side hs2
  have hcap : p.at m.tgt ≠ newPiece p.side KING := by
    intro e
    rcases g.target with h | h
    · rw [h] at e; exact (newPiece_facts _ hs2 KING (by decide)).1 e.symm
    · rw [e] at h; exact h.2 (newPiece_facts _ hs2 KING (by decide)).2.2.1
  obtain ⟨k', hU'⟩ := succ_king p m g hs2 p.side hs2 k hU hcap
  unfold isLegal
  rw [hside, switchColor_twice _ hs2]
  rw [inCheck_exact q hshq p.side hs2 k' (fun j => by rw [hat j]; exact hU' j)]

end LG
end Clemens
