import Clemens.Proofs.Hash
import Clemens.Model.Fen
/-
C09 lemma: a position built by `NewFromFen` carries the from-scratch hash.
-/
namespace Clemens.Hash

theorem helperBitboards_hash_eq (K : Keys) (p : Pos) (hok : p.hash = fullHash K p) :
    (helperBitboards p).hash = fullHash K (helperBitboards p) := by
  simp only [fullHash_eq] at hok ⊢
  exact hok

theorem res_bind_eq_ok {α β : Type} (r : Res α) (f : α → Res β) (b : β) (h : r.bind f = .ok b) :
    ∃ a, r = .ok a ∧ f a = .ok b := by
  cases r with
  | ok a => exact ⟨a, rfl, h⟩
  | error => exact absurd h (by simp [Res.bind])
  | panic => exact absurd h (by simp [Res.bind])

theorem parseFen_hash_eq (K : Keys) (b : Bytes) (p : Pos) (h : parseFen K b = .ok p) : p.hash = fullHash K p := by
  unfold parseFen at h
  split at h
  · obtain ⟨p1, _, h⟩ := res_bind_eq_ok _ _ _ h
    obtain ⟨p2, _, h⟩ := res_bind_eq_ok _ _ _ h
    obtain ⟨p3, _, h⟩ := res_bind_eq_ok _ _ _ h
    obtain ⟨p4, _, h⟩ := res_bind_eq_ok _ _ _ h
    split at h
    · exact absurd h (by simp)
    · split at h
      · exact absurd h (by simp)
      · simp only [pure, Res.ok.injEq] at h
        subst h
        apply helperBitboards_hash_eq
        simp only [fullHash_eq]
  · exact absurd h (by simp)

end Clemens.Hash
