import Clemens.Proofs.GenReachMaterial
import Clemens.Proofs.Captures
/-
P18c: the number of men on the board of a shape-consistent position is the sum of the twelve popcounts of the piece sets, hence
at most 32 for legal material (`LegalMaterial`, C15: at most 16 men per side).

`p.all` contains a square iff the board array shows a piece there (`all_getLsbD`); a non-zero code of a shape-consistent board is
one of the twelve valid codes (`validPiece`), so the number of occupied squares is the sum over the twelve codes of the number of
squares showing that code (`GR.cnt`), which is the popcount of the corresponding piece set (`GR.popcount_eq_cnt`).
-/
namespace Clemens
namespace P18c
open GR

/-- a valid piece code is one of the twelve -/
theorem valid_codes (x : Nat) (h : validPiece x = true) :
    x = 1 ∨ x = 2 ∨ x = 3 ∨ x = 4 ∨ x = 5 ∨ x = 6 ∨ x = 9 ∨ x = 10 ∨ x = 11 ∨ x = 12 ∨ x = 13 ∨ x = 14 := by
  unfold validPiece pieceColor pieceType at h
  simp only [Bool.and_eq_true, decide_eq_true_eq] at h
  obtain ⟨h1, h2⟩ := h
  have hx : x < 16 := by
    rw [Nat.shiftRight_eq_div_pow] at h1
    omega
  clear h1
  have : ∀ y < 16, ((y &&& 7) + 255) % 256 < 6 →
      y = 1 ∨ y = 2 ∨ y = 3 ∨ y = 4 ∨ y = 5 ∨ y = 6 ∨ y = 9 ∨ y = 10 ∨ y = 11 ∨ y = 12 ∨ y = 13 ∨ y = 14 := by decide
  exact this x hx h2

/-- the sum of the twelve code counts below `n` -/
def sumCodes (f : Nat → Nat) (n : Nat) : Nat :=
  cntN f 1 n + cntN f 2 n + cntN f 3 n + cntN f 4 n + cntN f 5 n + cntN f 6 n
    + cntN f 9 n + cntN f 10 n + cntN f 11 n + cntN f 12 n + cntN f 13 n + cntN f 14 n

theorem occupied_eq_sumCodes (f : Nat → Nat) (n : Nat) (hv : ∀ j < n, f j = 0 ∨ validPiece (f j) = true) :
    (List.range n).countP (fun j => f j != 0) = sumCodes f n := by
  induction n with
  | zero => simp [sumCodes, cntN]
  | succ n ih =>
    have ih' := ih (fun j hj => hv j (by omega))
    unfold sumCodes at ih' ⊢
    simp only [cntN_succ]
    rw [List.range_succ, List.countP_append, List.countP_singleton, ih']
    rcases hv n (by omega) with h0 | hval
    · simp [h0]
    · rcases valid_codes _ hval with h | h | h | h | h | h | h | h | h | h | h | h <;> simp [h] <;> omega

/-- number of men = sum of the twelve popcounts -/
theorem popcount_all_eq (p : Pos) (hsh : wfShape p = true) :
    popcount p.all =
      (popcount (p.pieces 0 PAWN) + popcount (p.pieces 0 KNIGHT) + popcount (p.pieces 0 BISHOP)
        + popcount (p.pieces 0 ROOK) + popcount (p.pieces 0 QUEEN) + popcount (p.pieces 0 KING))
      + (popcount (p.pieces 1 PAWN) + popcount (p.pieces 1 KNIGHT) + popcount (p.pieces 1 BISHOP)
        + popcount (p.pieces 1 ROOK) + popcount (p.pieces 1 QUEEN) + popcount (p.pieces 1 KING)) := by
  have hA : popcount p.all = (List.range 64).countP (fun j => p.at j != 0) := by
    unfold popcount squares
    rw [List.countP_eq_length_filter]
    congr 1
    apply List.filter_congr
    intro j hj
    exact all_getLsbD hsh (List.mem_range.1 hj)
  rw [hA, occupied_eq_sumCodes p.at 64 (fun j hj => ((GM.shape_parts p hsh).1 j hj).1)]
  simp only [PAWN, KNIGHT, BISHOP, ROOK, QUEEN, KING]
  rw [popcount_eq_cnt p hsh 0 0 (by omega) (by omega), popcount_eq_cnt p hsh 0 1 (by omega) (by omega),
    popcount_eq_cnt p hsh 0 2 (by omega) (by omega), popcount_eq_cnt p hsh 0 3 (by omega) (by omega),
    popcount_eq_cnt p hsh 0 4 (by omega) (by omega), popcount_eq_cnt p hsh 0 5 (by omega) (by omega),
    popcount_eq_cnt p hsh 1 0 (by omega) (by omega), popcount_eq_cnt p hsh 1 1 (by omega) (by omega),
    popcount_eq_cnt p hsh 1 2 (by omega) (by omega), popcount_eq_cnt p hsh 1 3 (by omega) (by omega),
    popcount_eq_cnt p hsh 1 4 (by omega) (by omega), popcount_eq_cnt p hsh 1 5 (by omega) (by omega)]
  unfold sumCodes cnt newPiece
  simp only [Nat.reduceAdd, Nat.reduceMul]
  omega

/-- at most 32 men for legal material -/
theorem men_le_32 (p : Pos) (hsh : wfShape p = true) (hmat : LegalMaterial p) : popcount p.all ≤ 32 := by
  rw [popcount_all_eq p hsh]
  have h0 := hmat.1.2.2.1
  have h1 := hmat.2.2.2.1
  omega

end P18c
end Clemens
