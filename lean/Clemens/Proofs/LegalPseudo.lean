import Clemens.Props.C01a
/-
C01 lemmas: what the specification's move list tells about a generated move beyond `GenShape`:
pawns move forwards, a move onto an occupied square is an attack of the moving piece on that square, a pawn's
double step starts on the home rank and crosses an empty square.  (Spec side: `Fide.pseudoMoves` regrouped
by `GM.mem_pseudoMoves`, then per piece kind.)
-/
namespace Clemens
namespace LG
open GM

/-- facts about a generated move that `GenShape` does not record -/
structure PseudoFacts (p : Pos) (m : Move) : Prop where
  pawn_fwd : pieceType (p.at m.src) = PAWN → if p.side = 0 then m.src < m.tgt else m.tgt < m.src
  attacks : p.at m.tgt ≠ 0 → Fide.pieceAttacks (absPos p) m.src m.tgt = true
  double : pieceType (p.at m.src) = PAWN → (m.tgt = m.src + 16 ∨ m.src = m.tgt + 16) →
    rankOf m.src = (if p.side = 0 then 1 else 6) ∧ p.at (if p.side = 0 then m.src + 8 else m.src - 8) = 0 ∧ p.at m.tgt = 0

theorem isOwn_iff (P : Fide.Pos) (c s : Nat) : Fide.isOwn P c s = true ↔ P.at s ≠ 0 ∧ Fide.colorOf (P.at s) = c := by
  unfold Fide.isOwn
  simp

theorem pieceType_kindOf (p : Pos) (hsh : wfShape p = true) (s : Nat) (h0 : p.at s ≠ 0) :
    pieceType (p.at s) = Fide.kindOf (p.at s) := (codes_model _ (at_codes p hsh s) h0).2.2.1

theorem pieceColor_colorOf (p : Pos) (hsh : wfShape p = true) (s : Nat) (h0 : p.at s ≠ 0) :
    pieceColor (p.at s) = Fide.colorOf (p.at s) := (codes_model _ (at_codes p hsh s) h0).2.1

/-- a move of a piece that is not a pawn onto a square it attacks -/
theorem facts_piece (p : Pos) (hsh : wfShape p = true) (m : Move) (h0 : p.at m.src ≠ 0)
    (hk : Fide.kindOf (p.at m.src) ≠ 0) (hatt : p.at m.tgt ≠ 0 → Fide.pieceAttacks (absPos p) m.src m.tgt = true) :
    PseudoFacts p m := by
  have hpt := pieceType_kindOf p hsh m.src h0
  refine ⟨fun h => ?_, hatt, fun h => ?_⟩
  · rw [hpt] at h; exact absurd h hk
  · rw [hpt] at h; exact absurd h hk

theorem pieceAttacks_slider (P : Fide.Pos) (s t k : Nat) (h0 : P.at s ≠ 0) (hk : Fide.kindOf (P.at s) = k)
    (hk' : k = 2 ∨ k = 3 ∨ k = 4) (dirs : List Dir) (hd : Fide.dirsOfKind k = dirs)
    (h : ∃ d ∈ dirs, t ∈ Fide.rayFrom P d s) : Fide.pieceAttacks P s t = true := by
  unfold Fide.pieceAttacks
  simp only [h0, if_false, hk]
  have h1 : k ≠ 0 := by omega
  have h2 : k ≠ 1 := by omega
  have h3 : k ≠ 5 := by omega
  simp only [h1, h2, h3, if_false, hd, List.any_eq_true, List.contains_iff_mem]
  exact h

theorem pieceAttacks_knight (P : Fide.Pos) (s t : Nat) (h0 : P.at s ≠ 0) (hk : Fide.kindOf (P.at s) = 1) :
    Fide.pieceAttacks P s t = Geo.knightStep s t := by
  unfold Fide.pieceAttacks
  simp [h0, hk]

theorem pieceAttacks_king (P : Fide.Pos) (s t : Nat) (h0 : P.at s ≠ 0) (hk : Fide.kindOf (P.at s) = 5) :
    Fide.pieceAttacks P s t = Geo.kingStep s t := by
  unfold Fide.pieceAttacks
  simp [h0, hk]

theorem pieceAttacks_pawn (P : Fide.Pos) (s t : Nat) (h0 : P.at s ≠ 0) (hk : Fide.kindOf (P.at s) = 0) :
    Fide.pieceAttacks P s t = Geo.pawnAttack (Fide.colorOf (P.at s)) s t := by
  unfold Fide.pieceAttacks
  simp [h0, hk]

/-- the double step of `Geo.pawnPush` -/
theorem pawnPush_double (c : Nat) (occ : BB) (s t : Nat) (h : Geo.pawnPush c occ s t = true)
    (hd : t = s + 16 ∨ s = t + 16) :
    rankOf s = (if c = 0 then 1 else 6) ∧ occ.getLsbD (if c = 0 then s + 8 else s - 8) = false := by
  unfold Geo.pawnPush at h
  simp only at h
  cases ho1 : Geo.offset 0 (if c = 0 then 1 else -1) s with
  | none => rw [ho1] at h; cases h
  | some t1 =>
    rw [ho1] at h
    simp only [Bool.and_eq_true, Bool.or_eq_true, beq_iff_eq, Bool.not_eq_true', BB.has] at h
    have c1 := offset_coords _ _ _ _ ho1
    have ht1 : t1 = (if c = 0 then s + 8 else s - 8) := by
      by_cases hc : c = 0
      · simp only [hc, if_true] at c1 ⊢; unfold rankOf fileOf at c1; omega
      · simp only [hc, if_false] at c1 ⊢; unfold rankOf fileOf at c1; omega
    rcases h.2 with rfl | h2
    · exfalso
      by_cases hc : c = 0
      · simp only [hc, if_true] at ht1; omega
      · simp only [hc, if_false] at ht1; unfold rankOf at c1; omega
    · rw [← ht1]
      exact ⟨h2.1, h.1⟩

theorem facts_pawn (p : Pos) (hw : WF p = true) (m : Move) (s : Nat) (hs : s < 64)
    (ho : Fide.isOwn (absPos p) p.side s = true) (hk : Fide.kindOf ((absPos p).at s) = 0)
    (hmv : absMove m ∈ Fide.pawnMoves (absPos p) s) : PseudoFacts p m := by
  obtain ⟨hsh, hst, hch⟩ := WF_parts p hw
  obtain ⟨hside, _, hep64⟩ := state_parts p hst
  have hep : ∀ e, (absPos p).ep = some e → (absPos p).at e = 0 := by
    intro e he
    rw [absPos_ep p e hep64] at he
    rw [absPos_at, he.2.1]
    exact ep_empty p hch he.1
  rw [pawnMoves_iff (absPos p) p.all (all_iff p hsh) hside hep s] at hmv
  have hsideP : (absPos p).side = p.side := rfl
  obtain ⟨t, hmv⟩ := hmv
  rw [hsideP] at hmv
  rw [isOwn_iff, absPos_at] at ho
  rw [absPos_at] at hk
  have hsrc : ∀ x : Fide.Move, x = absMove m → x.src = s → x.tgt = t → m.src = s ∧ m.tgt = t := by
    rintro x rfl h1 h2; exact ⟨h1, h2⟩
  have hrs : rankOf s ≤ 7 := by unfold rankOf; omega
  rcases hmv with ⟨hp, hW⟩ | ⟨ha, hen, hW⟩ | ⟨ha, hE, hW⟩
  · obtain ⟨e1, e2⟩ := hsrc _ rfl (mem_Wp _ _ _ _ hW).1 (mem_Wp _ _ _ _ hW).2
    obtain ⟨c1, c2, c3⟩ := pawnPush_coords _ _ _ _ hp
    have ht64 := pawnPush_lt _ _ _ _ hp
    have h0 : p.at t = 0 := by
      rw [all_iff p hsh, absPos_at] at c2
      simpa using c2
    subst e1; subst e2
    refine ⟨fun _ => ?_, fun h => absurd h0 h, fun _ hd => ?_⟩
    · by_cases hc : p.side = 0
      · simp only [hc, if_true] at c3 ⊢; unfold rankOf at c3; omega
      · simp only [hc, if_false] at c3 ⊢; unfold rankOf at c3; omega
    · obtain ⟨d1, d2⟩ := pawnPush_double _ _ _ _ hp hd
      refine ⟨d1, ?_, h0⟩
      rw [all_iff p hsh, absPos_at] at d2
      simpa using d2
  · obtain ⟨e1, e2⟩ := hsrc _ rfl (mem_Wp _ _ _ _ hW).1 (mem_Wp _ _ _ _ hW).2
    obtain ⟨_, c2⟩ := pawnAttack_coords _ _ _ ha
    subst e1; subst e2
    refine ⟨fun _ => ?_, fun _ => ?_, fun _ hd => ?_⟩
    · by_cases hc : p.side = 0
      · simp only [hc, if_true] at c2 ⊢; unfold rankOf at c2; omega
      · simp only [hc, if_false] at c2 ⊢; unfold rankOf at c2; omega
    · rw [pieceAttacks_pawn _ _ _ (by rw [absPos_at]; exact ho.1) (by rw [absPos_at]; exact hk), absPos_at, ho.2]
      exact ha
    · exfalso
      by_cases hc : p.side = 0
      · simp only [hc, if_true] at c2; unfold rankOf at c2; omega
      · simp only [hc, if_false] at c2; unfold rankOf at c2; omega
  · obtain ⟨e1, e2⟩ := hsrc _ rfl (by rw [hW]) (by rw [hW])
    obtain ⟨_, c2⟩ := pawnAttack_coords _ _ _ ha
    have h0 : p.at t = 0 := by rw [← absPos_at]; exact hep t hE
    subst e1; subst e2
    refine ⟨fun _ => ?_, fun h => absurd h0 h, fun _ hd => ?_⟩
    · by_cases hc : p.side = 0
      · simp only [hc, if_true] at c2 ⊢; unfold rankOf at c2; omega
      · simp only [hc, if_false] at c2 ⊢; unfold rankOf at c2; omega
    · exfalso
      by_cases hc : p.side = 0
      · simp only [hc, if_true] at c2; unfold rankOf at c2; omega
      · simp only [hc, if_false] at c2; unfold rankOf at c2; omega

theorem facts_slider (p : Pos) (hsh : wfShape p = true) (m : Move) (s k : Nat) (dirs : List Dir)
    (hk' : k = 2 ∨ k = 3 ∨ k = 4) (hd : Fide.dirsOfKind k = dirs)
    (ho : Fide.isOwn (absPos p) (absPos p).side s = true) (hk : Fide.kindOf ((absPos p).at s) = k)
    (hmv : absMove m ∈ Fide.sliderMoves (absPos p) s dirs) : PseudoFacts p m := by
  rw [mem_sliderMoves] at hmv
  obtain ⟨t, hray, _, hx⟩ := hmv
  have e1 : m.src = s := congrArg Fide.Move.src hx
  have e2 : m.tgt = t := congrArg Fide.Move.tgt hx
  rw [isOwn_iff, absPos_at] at ho
  apply facts_piece p hsh m (by rw [e1]; exact ho.1) (by rw [e1, ← absPos_at, hk]; omega)
  intro _
  rw [e1, e2]
  exact pieceAttacks_slider _ s t k (by rw [absPos_at]; exact ho.1) hk hk' dirs hd hray

theorem facts_leaper (p : Pos) (hsh : wfShape p = true) (m : Move) (s k : Nat) (offs : List (Int × Int))
    (hk' : k ≠ 0)
    (ho : Fide.isOwn (absPos p) (absPos p).side s = true) (hk : Fide.kindOf ((absPos p).at s) = k)
    (hatt : ∀ t, (offs.any fun o => Geo.offset o.1 o.2 s == some t) = true → Fide.pieceAttacks (absPos p) s t = true)
    (hmv : absMove m ∈ Fide.leaperMoves (absPos p) s offs) : PseudoFacts p m := by
  rw [mem_leaperMoves] at hmv
  obtain ⟨t, hstep, _, hx⟩ := hmv
  have e1 : m.src = s := congrArg Fide.Move.src hx
  have e2 : m.tgt = t := congrArg Fide.Move.tgt hx
  rw [isOwn_iff, absPos_at] at ho
  apply facts_piece p hsh m (by rw [e1]; exact ho.1) (by rw [e1, ← absPos_at, hk]; exact hk')
  intro _
  rw [e1, e2]
  exact hatt t hstep

theorem castling_tgt_empty (P : Fide.Pos) (mv : Fide.Move) (h : mv ∈ Fide.castlingMoves P) : P.at mv.tgt = 0 := by
  rw [castlingMoves_eq, List.mem_append] at h
  have k1 : castlingKingSide 1 = true := by decide
  have k4 : castlingKingSide 4 = true := by decide
  have k2 : castlingKingSide 2 = false := by decide
  have k8 : castlingKingSide 8 = false := by decide
  by_cases hs : P.side = 0
  · simp only [hs, if_true] at h
    rcases h with h | h
    · split at h
      · rename_i hc
        rw [List.mem_singleton] at h
        subst h
        unfold GM.castleSpec at hc
        simp only [hs, if_true, k1, Bool.and_eq_true, List.all_cons, List.all_nil, Bool.and_true, beq_iff_eq] at hc
        exact hc.1.1.2.2
      · cases h
    · split at h
      · rename_i hc
        rw [List.mem_singleton] at h
        subst h
        unfold GM.castleSpec at hc
        simp only [hs, if_true, k2, Bool.false_eq_true, if_false, Bool.and_eq_true, List.all_cons, List.all_nil,
          Bool.and_true, beq_iff_eq] at hc
        exact hc.1.1.2.2.1
      · cases h
  · simp only [hs, if_false] at h
    rcases h with h | h
    · split at h
      · rename_i hc
        rw [List.mem_singleton] at h
        subst h
        unfold GM.castleSpec at hc
        simp only [hs, if_false, k4, if_true, Bool.and_eq_true, List.all_cons, List.all_nil, Bool.and_true, beq_iff_eq] at hc
        exact hc.1.1.2.2
      · cases h
    · split at h
      · rename_i hc
        rw [List.mem_singleton] at h
        subst h
        unfold GM.castleSpec at hc
        simp only [hs, if_false, k8, Bool.false_eq_true, Bool.and_eq_true, List.all_cons, List.all_nil,
          Bool.and_true, beq_iff_eq] at hc
        exact hc.1.1.2.2.1
      · cases h

theorem facts_castling (p : Pos) (hw : WF p = true) (m : Move)
    (hmv : absMove m ∈ Fide.castlingMoves (absPos p)) : PseudoFacts p m := by
  obtain ⟨hsh, hst, hch⟩ := WF_parts p hw
  have hk := (castling_form p hw (absMove m) (by rw [genCastling_exact p hw]; exact hmv)).1
  unfold srcKind at hk
  rw [absPos_at] at hk
  have hsrc : (absMove m).src = m.src := rfl
  rw [hsrc] at hk
  have h0 : p.at m.src ≠ 0 := by
    intro h; rw [h] at hk; revert hk; decide
  apply facts_piece p hsh m h0 (by rw [hk]; decide)
  intro hne
  exfalso
  apply hne
  have := castling_tgt_empty (absPos p) (absMove m) hmv
  rw [GM.absPos_at] at this
  exact this

/-- every generated move has these properties -/
theorem pseudoFacts_of_gen (p : Pos) (hw : WF p = true) (m : Move) (hm : m ∈ genMoves p) : PseudoFacts p m := by
  obtain ⟨hsh, hst, hch⟩ := WF_parts p hw
  have hmem : absMove m ∈ Fide.pseudoMoves (absPos p) :=
    ((genMoves_exact p hw).1 (absMove m)).1 (List.mem_map_of_mem hm)
  rw [mem_pseudoMoves] at hmem
  simp only [List.mem_flatMap, mem_ownSquares] at hmem
  rcases hmem with (((((⟨s, ⟨hs, ho, hk⟩, h⟩ | ⟨s, ⟨hs, ho, hk⟩, h⟩) | ⟨s, ⟨hs, ho, hk⟩, h⟩) | ⟨s, ⟨hs, ho, hk⟩, h⟩) |
    ⟨s, ⟨hs, ho, hk⟩, h⟩) | h) | ⟨s, ⟨hs, ho, hk⟩, h⟩
  · exact facts_slider p hsh m s 3 rookDirs (by omega) rfl ho hk h
  · exact facts_slider p hsh m s 2 bishopDirs (by omega) rfl ho hk h
  · exact facts_slider p hsh m s 4 Dir.all (by omega) rfl ho hk h
  · refine facts_leaper p hsh m s 1 _ (by decide) ho hk (fun t ht => ?_) h
    rw [isOwn_iff] at ho
    rw [pieceAttacks_knight _ _ _ ho.1 hk]; exact ht
  · exact facts_pawn p hw m s hs ho hk h
  · exact facts_castling p hw m h
  · refine facts_leaper p hsh m s 5 _ (by decide) ho hk (fun t ht => ?_) h
    rw [isOwn_iff] at ho
    rw [pieceAttacks_king _ _ _ ho.1 hk]; exact ht

end LG
end Clemens
