import Clemens.Proofs.LegalExact
/-
C10 lemmas: every clause of `WF` holds again after a move the engine plays (`WF_succ`).
-/
namespace Clemens
namespace LG
open GM

/-! ### tools -/

theorem piece_bit_iff (p : Pos) (hsh : wfShape p = true) (c T : Nat) (hc : c < 2) (hT : T < 6) (j : Nat) :
    (p.pieces c T).getLsbD j = true ↔ p.at j = newPiece c T := by
  by_cases hj : j < 64
  · rw [((shape_parts p hsh).1 j hj).2 c hc T hT, beq_iff_eq]
  · have h0 : p.at j = 0 := GM.at_ge p j (by omega)
    have hb : (p.pieces c T).getLsbD j = false := BitVec.getLsbD_of_ge _ _ (by omega)
    rw [hb, h0]
    constructor
    · intro h; cases h
    · intro h; exact absurd h.symm (newPiece_facts c hc T hT).1

/-- no pawn stands on the first or the last rank -/
def pawnsOK (f : Nat → Nat) : Prop := ∀ j, (f j = 1 ∨ f j = 9) → rankOf j ≠ 0 ∧ rankOf j ≠ 7

theorem edge_mask : ∀ j < 64, (rankMask1 ||| rankMask8).getLsbD j = decide (rankOf j = 0 ∨ rankOf j = 7) := by decide

theorem pawn_clause_iff (p : Pos) (hsh : wfShape p = true) :
    ((p.pieces 0 PAWN ||| p.pieces 1 PAWN) &&& (rankMask1 ||| rankMask8)) = 0#64 ↔ pawnsOK p.at := by
  have e0 : newPiece 0 PAWN = 1 := rfl
  have e1 : newPiece 1 PAWN = 9 := rfl
  constructor
  · intro h j hj
    have hb : ((p.pieces 0 PAWN ||| p.pieces 1 PAWN) &&& (rankMask1 ||| rankMask8)).getLsbD j = false := by rw [h]; simp
    have hj64 : j < 64 := by
      apply Classical.byContradiction
      intro hn
      rw [GM.at_ge p j (by omega)] at hj
      omega
    rw [BitVec.getLsbD_and, BitVec.getLsbD_or, edge_mask j hj64] at hb
    have hp : ((p.pieces 0 PAWN).getLsbD j || (p.pieces 1 PAWN).getLsbD j) = true := by
      rcases hj with hj | hj
      · rw [(piece_bit_iff p hsh 0 PAWN (by omega) (by decide) j).2 (by rw [hj, e0])]; rfl
      · rw [(piece_bit_iff p hsh 1 PAWN (by omega) (by decide) j).2 (by rw [hj, e1])]; simp
    rw [hp, Bool.true_and, decide_eq_false_iff_not] at hb
    omega
  · intro h
    apply Classical.byContradiction
    intro hne
    have : ((p.pieces 0 PAWN ||| p.pieces 1 PAWN) &&& (rankMask1 ||| rankMask8) != 0#64) = true := by simpa using hne
    rw [bv_ne_zero_iff] at this
    obtain ⟨j, hj⟩ := this
    have hj64 := getLsbD_lt hj
    rw [BitVec.getLsbD_and, BitVec.getLsbD_or, edge_mask j hj64, Bool.and_eq_true, Bool.or_eq_true, decide_eq_true_eq] at hj
    have := h j (by
      rcases hj.1 with hb | hb
      · left; rw [(piece_bit_iff p hsh 0 PAWN (by omega) (by decide) j).1 hb, e0]
      · right; rw [(piece_bit_iff p hsh 1 PAWN (by omega) (by decide) j).1 hb, e1])
    omega

theorem wfChess_intro (p : Pos) (hsh : wfShape p = true)
    (h1 : popcount (p.pieces 0 KING) = 1) (h2 : popcount (p.pieces 1 KING) = 1) (hp : pawnsOK p.at)
    (c1 : p.castling &&& 1 ≠ 0 → p.at 4 = 6 ∧ p.at 7 = 4) (c2 : p.castling &&& 2 ≠ 0 → p.at 4 = 6 ∧ p.at 0 = 4)
    (c4 : p.castling &&& 4 ≠ 0 → p.at 60 = 14 ∧ p.at 63 = 12) (c8 : p.castling &&& 8 ≠ 0 → p.at 60 = 14 ∧ p.at 56 = 12)
    (epw : p.ep ≠ 64 → p.side = 0 → rankOf p.ep = 5 ∧ p.at p.ep = 0 ∧ p.at (p.ep - 8) = 9 ∧ p.at (p.ep + 8) = 0)
    (epb : p.ep ≠ 64 → p.side ≠ 0 → rankOf p.ep = 2 ∧ p.at p.ep = 0 ∧ p.at (p.ep + 8) = 1 ∧ p.at (p.ep - 8) = 0)
    (hck : isInCheck p (switchColor p.side) = false) : wfChess p = true := by
  unfold wfChess
  simp only [Bool.and_eq_true, beq_iff_eq, Bool.or_eq_true, Bool.not_eq_true']
  refine ⟨⟨⟨⟨⟨⟨⟨⟨h1, h2⟩, (pawn_clause_iff p hsh).2 hp⟩, ?_⟩, ?_⟩, ?_⟩, ?_⟩, ?_⟩, hck⟩
  · by_cases h : p.castling &&& 1 = 0
    · exact Or.inl h
    · exact Or.inr (c1 h)
  · by_cases h : p.castling &&& 2 = 0
    · exact Or.inl h
    · exact Or.inr (c2 h)
  · by_cases h : p.castling &&& 4 = 0
    · exact Or.inl h
    · exact Or.inr (c4 h)
  · by_cases h : p.castling &&& 8 = 0
    · exact Or.inl h
    · exact Or.inr (c8 h)
  · by_cases h : p.ep = 64
    · exact Or.inl h
    · right
      by_cases hs : p.side = 0
      · rw [if_pos hs]
        obtain ⟨a, b, c, d⟩ := epw h hs
        simp only [Bool.and_eq_true, beq_iff_eq]
        exact ⟨⟨⟨a, b⟩, c⟩, d⟩
      · rw [if_neg hs]
        obtain ⟨a, b, c, d⟩ := epb h hs
        simp only [Bool.and_eq_true, beq_iff_eq]
        exact ⟨⟨⟨a, b⟩, c⟩, d⟩

theorem pawnsOK_of_WF (p : Pos) (hw : WF p = true) : pawnsOK p.at := by
  obtain ⟨hsh, _, hch⟩ := WF_parts p hw
  apply (pawn_clause_iff p hsh).1
  unfold wfChess at hch
  simp only [Bool.and_eq_true, beq_iff_eq] at hch
  exact hch.1.1.1.1.1.1.2



/-! ### the enemy king is never captured -/

theorem kingSquare_eq (p : Pos) (c : Nat) (hc : c < 2) (k : Nat) (hU : ∀ j, p.at j = newPiece c KING ↔ j = k) :
    Fide.kingSquare (absPos p) c = some k := by
  have hk : p.at k = newPiece c KING := (hU k).2 rfl
  have hk64 : k < 64 := by
    apply Classical.byContradiction
    intro h
    rw [GM.at_ge p k (by omega)] at hk
    exact (newPiece_facts c hc KING (by decide)).1 hk.symm
  unfold Fide.kingSquare
  rw [List.find?_range_eq_some]
  refine ⟨?_, List.mem_range.2 hk64, ?_⟩
  · rw [GM.absPos_at, ← newPiece_eq_mkPiece, hk]; exact beq_self_eq_true _
  · intro j hj
    rw [GM.absPos_at, ← newPiece_eq_mkPiece]
    have : p.at j ≠ newPiece c 5 := fun e => by have := (hU j).1 e; omega
    simpa using this

theorem no_king_capture (p : Pos) (hw : WF p = true) (m : Move) (hm : m ∈ genMoves p) :
    p.at m.tgt ≠ newPiece (switchColor p.side) KING := by
  intro e
  obtain ⟨hsh, hst, hch⟩ := WF_parts p hw
  obtain ⟨hs2, _, _⟩ := state_parts p hst
  have cp := chess_parts p hch
  have g := genMoves_shape p hw m hm
  have f := pseudoFacts_of_gen p hw m hm
  have hsw := switchColor_lt' p.side
  obtain ⟨k, hU⟩ := king_of_WF p hw (switchColor p.side) hsw
  have hk : k = m.tgt := ((hU m.tgt).1 e).symm
  subst hk
  have hatt := f.attacks (by rw [e]; exact (newPiece_facts _ hsw KING (by decide)).1)
  have hchk := cp.nocheck
  rw [inCheck_exact p hsh _ hsw _ hU] at hchk
  unfold Fide.inCheck at hchk
  rw [kingSquare_eq p _ hsw _ hU] at hchk
  simp only at hchk
  rw [← switchColor_eq _ hsw, switchColor_twice _ hs2] at hchk
  unfold Fide.attacked Fide.attackers at hchk
  have hmem : m.src ∈ (List.range 64).filter fun s => Fide.isOwn (absPos p) p.side s && Fide.pieceAttacks (absPos p) s m.tgt := by
    rw [List.mem_filter, List.mem_range, Bool.and_eq_true, isOwn_iff, GM.absPos_at]
    refine ⟨g.src_lt, ⟨g.own.1, ?_⟩, hatt⟩
    rw [← pieceColor_colorOf p hsh _ g.own.1]; exact g.own.2.2
  cases hl : (List.range 64).filter fun s => Fide.isOwn (absPos p) p.side s && Fide.pieceAttacks (absPos p) s m.tgt with
  | nil => rw [hl] at hmem; cases hmem
  | cons a l => rw [hl] at hchk; simp at hchk

/-! ### squares the move does not touch -/

theorem succAt_untouched (p : Pos) (m : Move) (j : Nat) (h1 : j ≠ m.src) (h2 : j ≠ m.tgt)
    (h3 : m.kind = 2 → j ≠ victimSq p m) (h4 : m.kind = 3 → j ≠ rookFrom m ∧ j ≠ rookTo m) : succAt p m j = p.at j := by
  unfold succAt
  have b0 : upd (upd p.at m.src 0) m.tgt (placedPc p m) j = p.at j := by
    rw [upd_apply, if_neg h2, upd_apply, if_neg h1]
  have b1 : (if m.kind = 2 then upd (upd (upd p.at m.src 0) m.tgt (placedPc p m)) (victimSq p m) 0
      else upd (upd p.at m.src 0) m.tgt (placedPc p m)) j = p.at j := by
    by_cases k2 : m.kind = 2
    · rw [if_pos k2, upd_apply, if_neg (h3 k2)]; exact b0
    · rw [if_neg k2]; exact b0
  by_cases k3 : m.kind = 3
  · rw [if_pos k3, upd_apply, if_neg (h4 k3).2, upd_apply, if_neg (h4 k3).1]; exact b1
  · rw [if_neg k3]; exact b1

/-! ### pawns -/

theorem upd_pred (f : Nat → Nat) (a x : Nat) (Q : Nat → Prop) (R : Nat → Prop) (h : ∀ j, Q (f j) → R j)
    (hx : Q x → R a) : ∀ j, Q (upd f a x j) → R j := by
  intro j
  rw [upd_apply]
  by_cases e : j = a
  · rw [if_pos e, e]; exact hx
  · rw [if_neg e]; exact h j

theorem nonpawn_codes : ∀ s < 2, (newPiece s ROOK ≠ 1 ∧ newPiece s ROOK ≠ 9) ∧
    ∀ pr, 1 ≤ pr → pr ≤ 4 → newPiece s pr ≠ 1 ∧ newPiece s pr ≠ 9 := by
  intro s hs
  refine ⟨by revert s; decide, ?_⟩
  intro pr h1 h4
  have : pr = 1 ∨ pr = 2 ∨ pr = 3 ∨ pr = 4 := by omega
  revert s
  rcases this with rfl | rfl | rfl | rfl <;> decide

theorem succ_pawnsOK (p : Pos) (m : Move) (g : GenShape p m) (hside : p.side < 2) (hp : pawnsOK p.at) :
    pawnsOK (succAt p m) := by
  obtain ⟨⟨r1, r9⟩, hpr⟩ := nonpawn_codes p.side hside
  let Q : Nat → Prop := fun x => x = 1 ∨ x = 9
  let R : Nat → Prop := fun j => rankOf j ≠ 0 ∧ rankOf j ≠ 7
  have q0 : ∀ a, Q 0 → R a := fun a h => by rcases h with h | h <;> cases h
  have b0 : ∀ j, Q (upd (upd p.at m.src 0) m.tgt (placedPc p m) j) → R j := by
    apply upd_pred _ _ _ Q R (upd_pred _ _ _ Q R hp (q0 _))
    intro hq
    unfold placedPc at hq
    by_cases k1 : m.kind = 1
    · rw [if_pos k1] at hq
      have := hpr _ (g.promo_piece k1).1 (g.promo_piece k1).2
      rcases hq with hq | hq
      · exact absurd hq this.1
      · exact absurd hq this.2
    · rw [if_neg k1] at hq
      have hpt : pieceType (p.at m.src) = PAWN := by
        rcases hq with hq | hq <;> rw [hq] <;> rfl
      have hn : ¬ (rankOf m.tgt = 7 ∨ rankOf m.tgt = 0) := fun h => k1 (g.promo.2 ⟨hpt, h⟩)
      show rankOf m.tgt ≠ 0 ∧ rankOf m.tgt ≠ 7
      omega
  have b1 : ∀ j, Q ((if m.kind = 2 then upd (upd (upd p.at m.src 0) m.tgt (placedPc p m)) (victimSq p m) 0
      else upd (upd p.at m.src 0) m.tgt (placedPc p m)) j) → R j := by
    by_cases k2 : m.kind = 2
    · rw [if_pos k2]; exact upd_pred _ _ _ Q R b0 (q0 _)
    · rw [if_neg k2]; exact b0
  unfold pawnsOK succAt
  by_cases k3 : m.kind = 3
  · rw [if_pos k3]
    apply upd_pred _ _ _ Q R (upd_pred _ _ _ Q R b1 (q0 _))
    intro hq
    rcases hq with hq | hq
    · exact absurd hq r1
    · exact absurd hq r9
  · rw [if_neg k3]; exact b1



/-! ### castling rights -/

theorem rights_fin_r (r : Nat) (hr : r = 1 ∨ r = 2 ∨ r = 4 ∨ r = 8) : ∀ c < 16, ∀ x < 16, ∀ y < 16,
    (c &&& (15 - (x ||| y))) &&& r = 0 ∨ (c &&& r ≠ 0 ∧ x &&& r = 0 ∧ y &&& r = 0) := by
  rcases hr with rfl | rfl | rfl | rfl <;> decide +kernel

theorem rights_fin : ∀ c < 16, ∀ x < 16, ∀ y < 16, ∀ r, (r = 1 ∨ r = 2 ∨ r = 4 ∨ r = 8) →
    (c &&& (15 - (x ||| y))) &&& r ≠ 0 → c &&& r ≠ 0 ∧ x &&& r = 0 ∧ y &&& r = 0 :=
  fun c hc x hx y hy r hr h => (rights_fin_r r hr c hc x hx y hy).resolve_left h

theorem rt_squares (s : Nat) :
    (Fide.rightsTouched s &&& 1 = 0 → s ≠ 4 ∧ s ≠ 7) ∧ (Fide.rightsTouched s &&& 2 = 0 → s ≠ 4 ∧ s ≠ 0) ∧
    (Fide.rightsTouched s &&& 4 = 0 → s ≠ 60 ∧ s ≠ 63) ∧ (Fide.rightsTouched s &&& 8 = 0 → s ≠ 60 ∧ s ≠ 56) := by
  refine ⟨fun h => ⟨?_, ?_⟩, fun h => ⟨?_, ?_⟩, fun h => ⟨?_, ?_⟩, fun h => ⟨?_, ?_⟩⟩ <;>
    (rintro rfl; revert h; decide)

/-- a home square of a right still held keeps its piece -/
theorem succ_home (p : Pos) (m : Move) (g : GenShape p m) (a x : Nat)
    (hsrc : m.src ≠ a) (htgt : m.tgt ≠ a) (hx : p.at a = x) (hxp : x ≠ 1 ∧ x ≠ 9)
    (hc : m.kind = 3 → (m.src = 60 ∧ a < 8) ∨ (m.src = 4 ∧ 56 ≤ a)) : succAt p m a = x := by
  rw [succAt_untouched p m a (Ne.symm hsrc) (Ne.symm htgt), hx]
  · intro k2 e
    have := (g.ep_victim k2).1
    unfold victimSq at e
    rw [← e, hx] at this
    have hsw := switchColor_lt' p.side
    have : x = 1 ∨ x = 9 := by
      have h2 : switchColor p.side = 0 ∨ switchColor p.side = 1 := by omega
      rcases h2 with h2 | h2 <;> rw [h2] at this
      · left; exact this
      · right; exact this
    omega
  · intro k3
    have hd := (g.castle.1 k3).2
    unfold rookFrom rookTo
    rcases hc k3 with ⟨h, ha⟩ | ⟨h, ha⟩ <;> constructor <;> split <;> omega

theorem succ_castling (p : Pos) (hw : WF p = true) (m : Move) (g : GenShape p m) (cq : Nat)
    (hcq : cq = p.castling &&& (15 - (Fide.rightsTouched m.src ||| Fide.rightsTouched m.tgt))) :
    (cq &&& 1 ≠ 0 → succAt p m 4 = 6 ∧ succAt p m 7 = 4) ∧ (cq &&& 2 ≠ 0 → succAt p m 4 = 6 ∧ succAt p m 0 = 4) ∧
    (cq &&& 4 ≠ 0 → succAt p m 60 = 14 ∧ succAt p m 63 = 12) ∧ (cq &&& 8 ≠ 0 → succAt p m 60 = 14 ∧ succAt p m 56 = 12) := by
  obtain ⟨hsh, hst, hch⟩ := WF_parts p hw
  obtain ⟨hs2, hc16, _⟩ := state_parts p hst
  have cp := chess_parts p hch
  have fin := rights_fin p.castling hc16 _ (rightsTouched_lt m.src) _ (rightsTouched_lt m.tgt)
  have rs := rt_squares m.src
  have rt := rt_squares m.tgt
  have hk3 : m.kind = 3 → m.src = 4 ∨ m.src = 60 := fun k3 => (g.castle_geom k3).1
  subst hcq
  refine ⟨fun h => ?_, fun h => ?_, fun h => ?_, fun h => ?_⟩
  · obtain ⟨a, b, c⟩ := fin 1 (by omega) h
    obtain ⟨v1, v2⟩ := cp.c1 a
    have s1 := rs.1 b
    have t1 := rt.1 c
    exact ⟨succ_home p m g 4 6 s1.1 t1.1 v1 (by omega) (fun k3 => by have := hk3 k3; omega),
      succ_home p m g 7 4 s1.2 t1.2 v2 (by omega) (fun k3 => by have := hk3 k3; omega)⟩
  · obtain ⟨a, b, c⟩ := fin 2 (by omega) h
    obtain ⟨v1, v2⟩ := cp.c2 a
    have s1 := rs.2.1 b
    have t1 := rt.2.1 c
    exact ⟨succ_home p m g 4 6 s1.1 t1.1 v1 (by omega) (fun k3 => by have := hk3 k3; omega),
      succ_home p m g 0 4 s1.2 t1.2 v2 (by omega) (fun k3 => by have := hk3 k3; omega)⟩
  · obtain ⟨a, b, c⟩ := fin 4 (by omega) h
    obtain ⟨v1, v2⟩ := cp.c4 a
    have s1 := rs.2.2.1 b
    have t1 := rt.2.2.1 c
    exact ⟨succ_home p m g 60 14 s1.1 t1.1 v1 (by omega) (fun k3 => by have := hk3 k3; omega),
      succ_home p m g 63 12 s1.2 t1.2 v2 (by omega) (fun k3 => by have := hk3 k3; omega)⟩
  · obtain ⟨a, b, c⟩ := fin 8 (by omega) h
    obtain ⟨v1, v2⟩ := cp.c8 a
    have s1 := rs.2.2.2 b
    have t1 := rt.2.2.2 c
    exact ⟨succ_home p m g 60 14 s1.1 t1.1 v1 (by omega) (fun k3 => by have := hk3 k3; omega),
      succ_home p m g 56 12 s1.2 t1.2 v2 (by omega) (fun k3 => by have := hk3 k3; omega)⟩



/-! ### the new en passant square -/

theorem own_pawn_code (p : Pos) (hsh : wfShape p = true) (m : Move) (g : GenShape p m)
    (hpawn : pieceType (p.at m.src) = PAWN) : p.at m.src = newPiece p.side PAWN := by
  obtain ⟨_, c1, c2, c3, _⟩ := codes_model _ (at_codes p hsh m.src) g.own.1
  rw [c3, ← c1, ← c2, g.own.2.2, hpawn]

theorem succ_ep (p : Pos) (hw : WF p = true) (m : Move) (g : GenShape p m) (f : PseudoFacts p m)
    (hpawn : pieceType (p.at m.src) = PAWN) (hd : m.tgt = m.src + 16 ∨ m.src = m.tgt + 16) :
    (p.side = 0 → rankOf (m.src + 8) = 2 ∧ succAt p m (m.src + 8) = 0 ∧ succAt p m (m.src + 8 + 8) = 1 ∧
      succAt p m (m.src + 8 - 8) = 0) ∧
    (p.side ≠ 0 → rankOf (m.src - 8) = 5 ∧ succAt p m (m.src - 8) = 0 ∧ succAt p m (m.src - 8 - 8) = 9 ∧
      succAt p m (m.src - 8 + 8) = 0) := by
  obtain ⟨hsh, hst, hch⟩ := WF_parts p hw
  obtain ⟨hs2, _, _⟩ := state_parts p hst
  obtain ⟨d1, d2, d3⟩ := f.double hpawn hd
  have hfwd := f.pawn_fwd hpawn
  have hcode := own_pawn_code p hsh m g hpawn
  have hs := g.src_lt
  have ht := g.tgt_lt
  have k3 : ¬ m.kind = 3 := by
    intro k; have := (g.castle.1 k).1; rw [hpawn] at this; cases this
  have k2 : ¬ m.kind = 2 := by
    intro k; have := (g.ep.1 k).2.1; unfold fileOf at this; omega
  constructor
  · intro h0
    rw [if_pos h0] at d1 d2 hfwd
    have e : m.tgt = m.src + 16 := by omega
    have k1 : ¬ m.kind = 1 := by
      intro k; have := (g.promo.1 k).2; unfold rankOf at this d1; omega
    rw [h0] at hcode
    have hc1 : p.at m.src = 1 := hcode
    unfold succAt placedPc
    simp only [if_neg k1, if_neg k2, if_neg k3, upd_apply]
    refine ⟨by unfold rankOf at d1 ⊢; omega, ?_, ?_, ?_⟩
    · rw [if_neg (by omega), if_neg (by omega)]; exact d2
    · rw [if_pos (by omega)]; exact hc1
    · rw [if_neg (by omega), if_pos (by omega)]
  · intro h0
    rw [if_neg h0] at d1 d2 hfwd
    have h1 : p.side = 1 := by omega
    have e : m.src = m.tgt + 16 := by omega
    have k1 : ¬ m.kind = 1 := by
      intro k; have := (g.promo.1 k).2; unfold rankOf at this d1; omega
    rw [h1] at hcode
    have hc1 : p.at m.src = 9 := hcode
    unfold succAt placedPc
    simp only [if_neg k1, if_neg k2, if_neg k3, upd_apply]
    refine ⟨by unfold rankOf at d1 ⊢; omega, ?_, ?_, ?_⟩
    · rw [if_neg (by omega), if_neg (by omega)]; exact d2
    · rw [if_pos (by omega)]; exact hc1
    · rw [if_neg (by omega), if_pos (by omega)]

/-! ### legal positions stay legal -/

theorem switchColor_of_ne (c s : Nat) (hc : c < 2) (hs : s < 2) (h : c ≠ s) : c = switchColor s := by
  have h1 : c = 0 ∨ c = 1 := by omega
  have h2 : s = 0 ∨ s = 1 := by omega
  rcases h1 with rfl | rfl <;> rcases h2 with rfl | rfl <;> first | rfl | exact absurd rfl h

theorem state_full (p : Pos) (h : wfState p = true) :
    p.side < 2 ∧ p.castling < 16 ∧ p.ep ≤ 64 ∧ p.hmc < 256 ∧ p.ply < 256 ∧ p.ply % 2 = p.side := by
  unfold wfState at h
  simp only [Bool.and_eq_true, decide_eq_true_eq, beq_iff_eq] at h
  exact ⟨h.1.1.1.1.1, h.1.1.1.1.2, h.1.1.1.2, h.1.1.2, h.1.2, h.2⟩

theorem WF_succ (K : Keys) (p : Pos) (hw : WF p = true) (hr : p.ply < 255 ∧ p.hmc < 255) (m : Move)
    (hm : m ∈ genMoves p) (q : Pos) (hq : makeMove K p m = some q) (hl : isLegal q = true) : WF q = true := by
  obtain ⟨hsh, hst, hch⟩ := WF_parts p hw
  obtain ⟨hs2, hc16, hep64, hh, hpl, hpar⟩ := state_full p hst
  have g := genMoves_shape p hw m hm
  have f := pseudoFacts_of_gen p hw m hm
  obtain ⟨q', hq', habs, hshq, hside, hply, hat⟩ := succ_exists K p hw hr m hm
  rw [hq] at hq'
  injection hq' with hq'
  subst hq'
  have hsw := switchColor_lt' p.side
  have hcast : q.castling = p.castling &&& (15 - (Fide.rightsTouched m.src ||| Fide.rightsTouched m.tgt)) :=
    (congrArg Fide.Pos.castling habs).trans (apply_castling p m)
  have hhmc := (congrArg Fide.Pos.hmc habs).trans (apply_hmc p m)
  have hep := (congrArg Fide.Pos.ep habs).trans (apply_ep p m)
  have hkind : Fide.kindOf (p.at m.src) = pieceType (p.at m.src) := (pieceType_kindOf p hsh m.src g.own.1).symm
  rw [hkind] at hep
  -- the en passant square of the successor
  have hepq : (q.ep = 64 ∧ ¬ (pieceType (p.at m.src) = PAWN ∧ (m.tgt = m.src + 16 ∨ m.src = m.tgt + 16))) ∨
      (q.ep = (if p.side = 0 then m.src + 8 else m.src - 8) ∧ q.ep ≠ 64 ∧
        pieceType (p.at m.src) = PAWN ∧ (m.tgt = m.src + 16 ∨ m.src = m.tgt + 16)) := by
    have hE : (absPos q).ep = if q.ep = 64 then none else some q.ep := rfl
    rw [hE] at hep
    by_cases hD : (decide (pieceType (p.at m.src) = 0) && (decide (m.tgt = m.src + 16) || decide (m.src = m.tgt + 16))) = true
    · rw [if_pos hD] at hep
      simp only [Bool.and_eq_true, Bool.or_eq_true, decide_eq_true_eq] at hD
      right
      by_cases h64 : q.ep = 64
      · rw [if_pos h64] at hep; cases hep
      · rw [if_neg h64] at hep
        injection hep with hep
        exact ⟨hep, h64, hD.1, hD.2⟩
    · rw [if_neg hD] at hep
      simp only [Bool.and_eq_true, Bool.or_eq_true, decide_eq_true_eq] at hD
      left
      by_cases h64 : q.ep = 64
      · exact ⟨h64, hD⟩
      · rw [if_neg h64] at hep; cases hep
  have hst' : wfState q = true := by
    unfold wfState
    simp only [Bool.and_eq_true, decide_eq_true_eq, beq_iff_eq]
    refine ⟨⟨⟨⟨⟨by rw [hside]; exact hsw, ?_⟩, ?_⟩, ?_⟩, by omega⟩, ?_⟩
    · rw [hcast]; exact Nat.lt_of_le_of_lt Nat.and_le_left hc16
    · rcases hepq with ⟨h, _⟩ | ⟨h, _, _, _⟩
      · omega
      · rename_i hpawn hd
        have hd1 := (f.double hpawn hd).1
        rw [h]; have := g.src_lt; unfold rankOf at hd1
        by_cases h0 : p.side = 0
        · rw [if_pos h0] at hd1 ⊢; omega
        · rw [if_neg h0] at hd1 ⊢; omega
    · have : q.hmc = (absPos q).hmc := rfl
      rw [this, hhmc]; split <;> omega
    · rw [hside, hply]
      have : p.side = 0 ∨ p.side = 1 := by omega
      rcases this with h | h <;> rw [h] at hpar ⊢
      · show (p.ply + 1) % 2 = 1; omega
      · show (p.ply + 1) % 2 = 0; omega
  have hcapAll : ∀ c, c < 2 → p.at m.tgt ≠ newPiece c KING := by
    intro c hc e
    by_cases hcs : c = p.side
    · subst hcs
      rcases g.target with h | h
      · rw [h] at e; exact (newPiece_facts _ hs2 KING (by decide)).1 e.symm
      · rw [e] at h; exact h.2 (newPiece_facts _ hs2 KING (by decide)).2.2.1
    · have : c = switchColor p.side := switchColor_of_ne c p.side hc hs2 hcs
      subst this
      exact no_king_capture p hw m hm e
  have hking : ∀ c, c < 2 → popcount (q.pieces c KING) = 1 := by
    intro c hc
    obtain ⟨k, hU⟩ := king_of_WF p hw c hc
    obtain ⟨k', hU'⟩ := succ_king p m g hs2 c hc k hU (hcapAll c hc)
    exact (popcount_king_iff q hshq c hc).2 ⟨k', fun j => by rw [hat j]; exact hU' j⟩
  have hcs := succ_castling p hw m g q.castling hcast
  have hch' : wfChess q = true := by
    apply wfChess_intro q hshq (hking 0 (by omega)) (hking 1 (by omega))
    · intro j hj
      rw [hat j] at hj
      exact succ_pawnsOK p m g hs2 (pawnsOK_of_WF p hw) j hj
    · intro h; rw [hat 4, hat 7]; exact hcs.1 h
    · intro h; rw [hat 4, hat 0]; exact hcs.2.1 h
    · intro h; rw [hat 60, hat 63]; exact hcs.2.2.1 h
    · intro h; rw [hat 60, hat 56]; exact hcs.2.2.2 h
    · intro h64 hs0
      rcases hepq with ⟨h, _⟩ | ⟨he, _, hpawn, hd⟩
      · exact absurd h h64
      · have hp1 : p.side ≠ 0 := by
          intro h0; rw [hside, h0] at hs0; revert hs0; decide
        rw [if_neg hp1] at he
        rw [he, hat, hat, hat]
        exact (succ_ep p hw m g f hpawn hd).2 hp1
    · intro h64 hs0
      rcases hepq with ⟨h, _⟩ | ⟨he, _, hpawn, hd⟩
      · exact absurd h h64
      · have hp0 : p.side = 0 := by
          apply Classical.byContradiction
          intro h0
          have h1 : p.side = 1 := by omega
          rw [hside, h1] at hs0; exact hs0 rfl
        rw [if_pos hp0] at he
        rw [he, hat, hat, hat]
        exact (succ_ep p hw m g f hpawn hd).1 hp0
    · unfold isLegal at hl
      simpa using hl
  unfold WF
  rw [hshq, hst', hch']
  rfl

end LG
end Clemens
