import Clemens.Proofs.SeeSpecGeo
import Clemens.Proofs.SeeSpecSeq
/-
C18b — bit-level layer: `x & -x`, the attacker set of the model bit by bit for an arbitrary occupancy (`attT`),
the specification's `pieceAttacks` on a board with that occupancy, `considerXrays`, and the two "least valuable
attacker" selections as one abstract selection `pick`.
-/
namespace Clemens.P18
open Clemens

/-! ### lowest set bit -/

/-- `x & -x` isolates the lowest set bit -/
theorem lowbit (x : BB) (s : Nat) (hs : s < 64) (h1 : x.getLsbD s = true) (h2 : ∀ j, j < s → x.getLsbD j = false) :
    x &&& (0#64 - x) = bit s := by
  apply BitVec.eq_of_getLsbD_eq
  intro i hi
  rw [BitVec.getLsbD_and, BitVec.zero_sub, BitVec.getLsbD_neg, getLsbD_bit s i hs]
  by_cases his : i = s
  · subst his
    have : ¬ ∃ j, j < i ∧ x.getLsbD j = true := by
      rintro ⟨j, hj, hx⟩; rw [h2 j hj] at hx; cases hx
    simp [h1, hi, this]
  · simp only [his, decide_false]
    by_cases hlt : i < s
    · rw [h2 i hlt]; rfl
    · have : ∃ j, j < i ∧ x.getLsbD j = true := ⟨s, by omega, h1⟩
      simp [hi, this]

theorem bne_zero_iff (x : BB) : (x != 0#64) = true ↔ ∃ a, a < 64 ∧ x.getLsbD a = true := by
  rw [bne_zero_eq_any, List.any_eq_true]
  constructor
  · rintro ⟨a, ha, h⟩; exact ⟨a, List.mem_range.1 ha, h⟩
  · rintro ⟨a, ha, h⟩; exact ⟨a, List.mem_range.2 ha, h⟩

/-! ### attacks for an arbitrary occupancy, seen from the target -/

/-- knight or king with code `pc` on `a` attacks `t` -/
def leapT (pc t a : Nat) : Bool :=
  Geo.knightStep t a && (pc == 2 || pc == 10) || Geo.kingStep t a && (pc == 6 || pc == 14)

/-- slider or pawn with code `pc` on `a` attacks `t` when the occupancy is `occ` -/
def xrT (occ : BB) (pc t a : Nat) : Bool :=
  Geo.reach bishopDirs occ t a && (pc == 3 || pc == 11 || pc == 5 || pc == 13) ||
  Geo.reach rookDirs occ t a && (pc == 4 || pc == 12 || pc == 5 || pc == 13) ||
  Geo.pawnAttack 0 t a && pc == 9 ||
  Geo.pawnAttack 1 t a && pc == 1

/-- the piece with code `pc` standing on `a` attacks `t` when the occupancy is `occ` -/
def attT (occ : BB) (pc t a : Nat) : Bool := leapT pc t a || xrT occ pc t a

/-- `SquareAttackedBy` with the occupancy as a parameter -/
def attBB (p : Pos) (s : Nat) (occ : BB) : BB :=
  let knights := p.pieces 0 KNIGHT ||| p.pieces 1 KNIGHT
  let a := knightAttacks s &&& knights
  let kings := p.pieces 0 KING ||| p.pieces 1 KING
  let a := a ||| (kingAttacks s &&& kings)
  let diag := p.pieces 0 BISHOP ||| p.pieces 1 BISHOP ||| p.pieces 0 QUEEN ||| p.pieces 1 QUEEN
  let a := a ||| (bishopAttacks s occ &&& diag)
  let line := p.pieces 0 ROOK ||| p.pieces 1 ROOK ||| p.pieces 0 QUEEN ||| p.pieces 1 QUEEN
  let a := a ||| (rookAttacks s occ &&& line)
  let a := a ||| (pawnAttacks 0 s &&& p.pieces 1 PAWN)
  a ||| (pawnAttacks 1 s &&& p.pieces 0 PAWN)

theorem squareAttackedBy_eq_attBB (p : Pos) (s : Nat) : squareAttackedBy p s = attBB p s p.all := rfl

theorem attBB_bit (p : Pos) (hw : wfShape p = true) (sq a : Nat) (occ : BB) (hsq : sq < 64) (ha : a < 64) :
    (attBB p sq occ).getLsbD a = attT occ (p.at a) sq a := by
  unfold attBB attT leapT xrT
  simp only [BitVec.getLsbD_or, BitVec.getLsbD_and]
  rw [knightAttacks_exact sq a hsq ha, kingAttacks_exact sq a hsq ha, bishopAttacks_exact sq a hsq ha,
    rookAttacks_exact sq a hsq ha, pawnAttacks_exact 0 sq a (by decide) hsq ha, pawnAttacks_exact 1 sq a (by decide) hsq ha,
    wfShape_bit p hw 0 KNIGHT a (by decide) (by decide) ha, wfShape_bit p hw 1 KNIGHT a (by decide) (by decide) ha,
    wfShape_bit p hw 0 KING a (by decide) (by decide) ha, wfShape_bit p hw 1 KING a (by decide) (by decide) ha,
    wfShape_bit p hw 0 BISHOP a (by decide) (by decide) ha, wfShape_bit p hw 1 BISHOP a (by decide) (by decide) ha,
    wfShape_bit p hw 0 QUEEN a (by decide) (by decide) ha, wfShape_bit p hw 1 QUEEN a (by decide) (by decide) ha,
    wfShape_bit p hw 0 ROOK a (by decide) (by decide) ha, wfShape_bit p hw 1 ROOK a (by decide) (by decide) ha,
    wfShape_bit p hw 1 PAWN a (by decide) (by decide) ha, wfShape_bit p hw 0 PAWN a (by decide) (by decide) ha]
  simp only [newPiece, KNIGHT, KING, BISHOP, ROOK, QUEEN, PAWN, Bool.or_assoc]

theorem considerXrays_bit (p : Pos) (hw : wfShape p = true) (sq a : Nat) (occ already : BB) (hsq : sq < 64) (ha : a < 64) :
    (considerXrays p sq occ already).getLsbD a = (xrT occ (p.at a) sq a && !already.getLsbD a) := by
  unfold considerXrays xrT
  simp only [BitVec.getLsbD_or, BitVec.getLsbD_and, BitVec.getLsbD_not, ha, decide_true, Bool.true_and]
  rw [bishopAttacks_exact sq a hsq ha,
    rookAttacks_exact sq a hsq ha, pawnAttacks_exact 0 sq a (by decide) hsq ha, pawnAttacks_exact 1 sq a (by decide) hsq ha,
    wfShape_bit p hw 0 BISHOP a (by decide) (by decide) ha, wfShape_bit p hw 1 BISHOP a (by decide) (by decide) ha,
    wfShape_bit p hw 0 QUEEN a (by decide) (by decide) ha, wfShape_bit p hw 1 QUEEN a (by decide) (by decide) ha,
    wfShape_bit p hw 0 ROOK a (by decide) (by decide) ha, wfShape_bit p hw 1 ROOK a (by decide) (by decide) ha,
    wfShape_bit p hw 1 PAWN a (by decide) (by decide) ha, wfShape_bit p hw 0 PAWN a (by decide) (by decide) ha]
  simp only [newPiece, BISHOP, ROOK, QUEEN, PAWN]

/-- membership in the x-ray mask of `see` -/
theorem seeMaxXray_bit (p : Pos) (hw : wfShape p = true) (a : Nat) (ha : a < 64) :
    (seeMaxXray p).getLsbD a = (p.at a == 1 || p.at a == 9 || p.at a == 3 || p.at a == 11 || p.at a == 4 || p.at a == 12 ||
      p.at a == 5 || p.at a == 13) := by
  unfold seeMaxXray
  simp only [BitVec.getLsbD_or]
  rw [wfShape_bit p hw 0 PAWN a (by decide) (by decide) ha, wfShape_bit p hw 1 PAWN a (by decide) (by decide) ha,
    wfShape_bit p hw 0 BISHOP a (by decide) (by decide) ha, wfShape_bit p hw 1 BISHOP a (by decide) (by decide) ha,
    wfShape_bit p hw 0 QUEEN a (by decide) (by decide) ha, wfShape_bit p hw 1 QUEEN a (by decide) (by decide) ha,
    wfShape_bit p hw 0 ROOK a (by decide) (by decide) ha, wfShape_bit p hw 1 ROOK a (by decide) (by decide) ha]
  simp only [newPiece, BISHOP, ROOK, QUEEN, PAWN, Bool.or_assoc]

/-! ### monotonicity and trivial cases -/

theorem xrT_mono (occ occ' : BB) (pc t a : Nat)
    (hsub : ∀ u, u < 64 → occ'.getLsbD u = true → occ.getLsbD u = true)
    (h : xrT occ pc t a = true) : xrT occ' pc t a = true := by
  unfold xrT at *
  simp only [Bool.or_eq_true, Bool.and_eq_true] at *
  rcases h with ((⟨h, hp⟩ | ⟨h, hp⟩) | h) | h
  · exact Or.inl (Or.inl (Or.inl ⟨reach_mono _ occ occ' t a hsub h, hp⟩))
  · exact Or.inl (Or.inl (Or.inr ⟨reach_mono _ occ occ' t a hsub h, hp⟩))
  · exact Or.inl (Or.inr h)
  · exact Or.inr h

theorem attT_mono (occ occ' : BB) (pc t a : Nat)
    (hsub : ∀ u, u < 64 → occ'.getLsbD u = true → occ.getLsbD u = true)
    (h : attT occ pc t a = true) : attT occ' pc t a = true := by
  unfold attT at *
  rw [Bool.or_eq_true] at *
  rcases h with h | h
  · exact Or.inl h
  · exact Or.inr (xrT_mono occ occ' pc t a hsub h)

theorem attT_self (occ : BB) (pc t : Nat) (ht : t < 64) : attT occ pc t t = false := by
  obtain ⟨h1, h2, h3, h4⟩ := self_not_all t ht
  unfold attT leapT xrT
  simp [h1, h2, h3, h4, reach_self]

theorem attT_zero (occ : BB) (t a : Nat) : attT occ 0 t a = false := by
  unfold attT leapT xrT
  simp

/-- vacating a square that is on no line from `t` changes no attack on `t` -/
theorem attT_vacate_offline (occ occ' : BB) (pc t a s : Nat)
    (hoff : ∀ d i, Geo.step d (i + 1) t ≠ some s)
    (hsame : ∀ u, u < 64 → u ≠ s → occ'.getLsbD u = occ.getLsbD u) :
    attT occ pc t a = attT occ' pc t a := by
  unfold attT xrT
  rw [reach_vacate_offline bishopDirs occ occ' t a s hoff hsame, reach_vacate_offline rookDirs occ occ' t a s hoff hsame]

/-! ### the specification's `pieceAttacks` on a board whose occupancy is `occ` -/

theorem slider_any_occ (q : Fide.Pos) (occ : BB) (hocc : ∀ u, u < 64 → (q.at u != 0) = occ.getLsbD u)
    (dirs : List Dir) (a t : Nat) :
    (dirs.any fun d => (Fide.rayFrom q d a).contains t) = Geo.reach dirs occ a t := by
  unfold Geo.reach
  apply any_congr'
  intro d _
  unfold Fide.rayFrom
  rw [reachAlong_eq_from]
  exact rayFrom_go_contains q occ d a t hocc 7 1

theorem pieceAttacks_attT (q : Fide.Pos) (occ : BB) (hocc : ∀ u, u < 64 → (q.at u != 0) = occ.getLsbD u)
    (a t : Nat) (ha : a < 64) (ht : t < 64) (hcode : q.at a ∈ pieceCodes) :
    Fide.pieceAttacks q a t = attT occ (q.at a) t a := by
  unfold Fide.pieceAttacks attT leapT xrT
  simp only [slider_any_occ q occ hocc]
  have hk := knightStep_symm_all t ht a ha
  have hg := kingStep_symm_all t ht a ha
  obtain ⟨hp0, hp1⟩ := pawnAttack_symm_all t ht a ha
  have hb := reach_symm_bishop' occ t a ht ha
  have hr := reach_symm_rook' occ t a ht ha
  rw [hk, hg, hp0, hp1, hb, hr]
  generalize q.at a = pc at *
  simp only [pieceCodes, List.mem_cons, List.not_mem_nil, or_false] at hcode
  rcases hcode with rfl | rfl | rfl | rfl | rfl | rfl | rfl | rfl | rfl | rfl | rfl | rfl | rfl <;>
    simp [Fide.colorOf, Fide.kindOf, Fide.dirsOfKind, reach_all, Bool.or_comm]

/-! ### the abstract selection -/

/-- least kind (0..5) for which `f kind` holds somewhere, and the least such square -/
def pick (f : Nat → Nat → Bool) : Option (Nat × Nat) :=
  (List.range 6).findSome? fun k => ((List.range 64).find? (f k)).map fun a => (k, a)

theorem findSome?_eq_find?_bind {α β} (l : List α) (g : α → Option β) :
    l.findSome? g = (l.find? fun k => (g k).isSome).bind g := by
  induction l with
  | nil => rfl
  | cons x l ih =>
    rw [List.findSome?_cons, List.find?_cons]
    cases h : g x with
    | none => simp [ih]
    | some b => simp [h]

theorem map_findSome? {α β γ} (l : List α) (g : α → Option β) (h : β → γ) :
    (l.findSome? g).map h = l.findSome? fun k => (g k).map h := by
  induction l with
  | nil => rfl
  | cons x l ih =>
    rw [List.findSome?_cons, List.findSome?_cons]
    cases g x with
    | none => simpa using ih
    | some b => rfl

theorem findSome?_congr' {α β} (l : List α) (g g' : α → Option β) (h : ∀ x ∈ l, g x = g' x) :
    l.findSome? g = l.findSome? g' := by
  induction l with
  | nil => rfl
  | cons x l ih =>
    rw [List.findSome?_cons, List.findSome?_cons, h x (List.mem_cons_self ..)]
    cases g' x with
    | none => exact ih (fun y hy => h y (List.mem_cons_of_mem _ hy))
    | some b => rfl

theorem find?_congr' {α} (l : List α) (f g : α → Bool) (h : ∀ x ∈ l, f x = g x) : l.find? f = l.find? g := by
  induction l with
  | nil => rfl
  | cons x l ih =>
    rw [List.find?_cons, List.find?_cons, h x (List.mem_cons_self ..)]
    cases g x with
    | false => exact ih (fun y hy => h y (List.mem_cons_of_mem _ hy))
    | true => rfl

theorem pick_some {f : Nat → Nat → Bool} {k a : Nat} (h : pick f = some (k, a)) :
    k < 6 ∧ a < 64 ∧ f k a = true ∧ (∀ j, j < a → f k j = false) ∧ (∀ k', k' < k → ∀ b, b < 64 → f k' b = false) := by
  unfold pick at h
  rw [findSome?_eq_find?_bind] at h
  cases hf : (List.range 6).find? (fun k => (((List.range 64).find? (f k)).map fun a => (k, a)).isSome) with
  | none => rw [hf] at h; cases h
  | some k0 =>
    rw [hf, Option.bind_some] at h
    rw [List.find?_range_eq_some] at hf
    obtain ⟨_, hk0, hmin⟩ := hf
    cases hg : (List.range 64).find? (f k0) with
    | none => rw [hg] at h; cases h
    | some a0 =>
      rw [hg] at h
      simp only [Option.map_some, Option.some.injEq, Prod.mk.injEq] at h
      obtain ⟨rfl, rfl⟩ := h
      rw [List.find?_range_eq_some] at hg
      obtain ⟨h1, h2, h3⟩ := hg
      refine ⟨List.mem_range.1 hk0, List.mem_range.1 h2, h1, fun j hj => by simpa using h3 j hj, ?_⟩
      intro k' hk' b hb
      have := hmin k' hk'
      have hn : (List.range 64).find? (f k') = none := by
        cases h' : (List.range 64).find? (f k') with
        | none => rfl
        | some x => rw [h'] at this; simp at this
      rw [List.find?_eq_none] at hn
      simpa using hn b (List.mem_range.2 hb)

theorem pick_none {f : Nat → Nat → Bool} (h : pick f = none) : ∀ k, k < 6 → ∀ a, a < 64 → f k a = false := by
  unfold pick at h
  rw [List.findSome?_eq_none_iff] at h
  intro k hk a ha
  have := h k (List.mem_range.2 hk)
  simp only [Option.map_eq_none_iff, List.find?_eq_none, List.mem_range] at this
  simpa using this a ha

/-- the model's selection is `pick` -/
theorem leastValuable_pick (p : Pos) (attacks : BB) (color : Nat) (f : Nat → Nat → Bool)
    (hbits : ∀ k, k < 6 → ∀ a, a < 64 → (attacks &&& p.pieces color k).getLsbD a = f k a) :
    leastValuable p attacks color = match pick f with
      | some (k, a) => (bit a, k)
      | none => (0#64, 6) := by
  have hP : ∀ k, k < 6 → ((attacks &&& p.pieces color k) != 0#64) = ((List.range 64).find? (f k)).isSome := by
    intro k hk
    rw [bne_zero_eq_any, Bool.eq_iff_iff, List.any_eq_true, List.find?_isSome]
    constructor
    · rintro ⟨a, ha, h⟩; exact ⟨a, ha, by rw [← hbits k hk a (List.mem_range.1 ha)]; exact h⟩
    · rintro ⟨a, ha, h⟩; exact ⟨a, ha, by rw [hbits k hk a (List.mem_range.1 ha)]; exact h⟩
  unfold leastValuable
  have hfind : (List.range 6).find? (fun t => (attacks &&& p.pieces color t) != 0#64) =
      (List.range 6).find? (fun k => (((List.range 64).find? (f k)).map fun a => (k, a)).isSome) := by
    apply find?_congr'
    intro k hk
    rw [hP k (List.mem_range.1 hk), Option.isSome_map]
  rw [hfind]
  unfold pick
  rw [findSome?_eq_find?_bind]
  cases hf : (List.range 6).find? (fun k => (((List.range 64).find? (f k)).map fun a => (k, a)).isSome) with
  | none => rfl
  | some k0 =>
    have hk0 : k0 < 6 := List.mem_range.1 (List.mem_of_find?_eq_some hf)
    have hsome := List.find?_some hf
    rw [Option.bind_some]
    cases hg : (List.range 64).find? (f k0) with
    | none => rw [hg] at hsome; cases hsome
    | some a0 =>
      simp only [Option.map_some]
      rw [List.find?_range_eq_some] at hg
      obtain ⟨h1, h2, h3⟩ := hg
      have ha0 := List.mem_range.1 h2
      congr 1
      apply lowbit _ a0 ha0
      · rw [hbits k0 hk0 a0 ha0]; exact h1
      · intro j hj
        rw [hbits k0 hk0 j (by omega)]
        simpa using h3 j hj

/-- the specification's selection is `pick` -/
theorem leastAttacker_pick (q : Fide.Pos) (c t : Nat) (f : Nat → Nat → Bool)
    (hspec : ∀ k, k < 6 → ∀ a, a < 64 →
      (Fide.isOwn q c a && Fide.pieceAttacks q a t && (Fide.kindOf (q.at a) == k)) = f k a) :
    Fide.leastAttacker q c t = (pick f).map (·.2) := by
  unfold Fide.leastAttacker Fide.attackers pick
  rw [map_findSome?]
  apply findSome?_congr'
  intro k hk
  rw [List.find?_filter, Option.map_map]
  simp only [Function.comp_def, Option.map_id']
  apply find?_congr'
  intro a ha
  rw [← hspec k (List.mem_range.1 hk) a (List.mem_range.1 ha), Bool.decide_and, Bool.decide_eq_true, Bool.decide_eq_true]

end Clemens.P18
