import Clemens.Proofs.LegalWF
/-
C10 lemmas: the chess clauses of the model's `WF` (`wfChess`, on bitboards) are the specification's `Fide.wellFormed`
(on the mailbox board) seen through `absPos`.
-/
namespace Clemens
namespace LG
open GM

/-! ### the model's well-formedness is the specification's -/

theorem king_count_eq (p : Pos) (hsh : wfShape p = true) (c : Nat) (hc : c < 2) :
    popcount (p.pieces c KING) = ((List.range 64).filter fun s => (absPos p).at s == Fide.mkPiece c 5).length := by
  unfold popcount squares
  congr 1
  apply List.filter_congr
  intro s hs
  rw [List.mem_range] at hs
  rw [((shape_parts p hsh).1 s hs).2 c hc KING (by decide), GM.absPos_at, newPiece_eq_mkPiece]
  rfl

theorem codes_valid_spec : ∀ pc ∈ pieceCodes,
    (pc == 0 || (decide (pc % 8 ≥ 1) && decide (pc % 8 ≤ 6) && decide (pc / 8 ≤ 1))) = true := by decide

theorem codes_pawn_spec : ∀ pc ∈ pieceCodes, (Fide.kindOf pc != 0 || pc == 0) = true ↔ ¬ (pc = 1 ∨ pc = 9) := by decide

theorem valid_spec (p : Pos) (hsh : wfShape p = true) :
    ((List.range 64).all fun s => let pc := (absPos p).at s
      pc == 0 || (decide (pc % 8 ≥ 1) && decide (pc % 8 ≤ 6) && decide (pc / 8 ≤ 1))) = true := by
  rw [List.all_eq_true]
  intro s _
  simp only [GM.absPos_at]
  exact codes_valid_spec _ (at_codes p hsh s)

theorem pawns_spec (p : Pos) (hsh : wfShape p = true) :
    pawnsOK p.at ↔
      ((List.range 8).all fun f => Fide.kindOf ((absPos p).at f) != 0 || (absPos p).at f == 0) = true ∧
      ((List.range 8).all fun f => Fide.kindOf ((absPos p).at (56 + f)) != 0 || (absPos p).at (56 + f) == 0) = true := by
  simp only [List.all_eq_true, List.mem_range, GM.absPos_at]
  constructor
  · intro h
    constructor
    · intro f hf
      rw [codes_pawn_spec _ (at_codes p hsh f)]
      intro hp
      have := (h f hp).1
      unfold rankOf at this; omega
    · intro f hf
      rw [codes_pawn_spec _ (at_codes p hsh (56 + f))]
      intro hp
      have := (h (56 + f) hp).2
      unfold rankOf at this; omega
  · rintro ⟨h1, h8⟩ j hj
    have hj64 : j < 64 := by
      apply Classical.byContradiction
      intro hn
      rw [GM.at_ge p j (by omega)] at hj
      omega
    unfold rankOf
    constructor
    · intro h0
      have := (codes_pawn_spec _ (at_codes p hsh j)).1 (h1 j (by omega))
      exact this hj
    · intro h7
      have := (codes_pawn_spec _ (at_codes p hsh (56 + (j - 56)))).1 (h8 (j - 56) (by omega))
      have e : 56 + (j - 56) = j := by omega
      rw [e] at this
      exact this hj

theorem wfChess_eq_spec (p : Pos) (hsh : wfShape p = true) (hst : wfState p = true) :
    wfChess p = Fide.wellFormed (absPos p) := by
  obtain ⟨hs2, _, _⟩ := state_parts p hst
  have hsw := switchColor_lt' p.side
  have k0 := king_count_eq p hsh 0 (by omega)
  have k1 := king_count_eq p hsh 1 (by omega)
  have hsz : ((absPos p).board.size == 64) = true := by
    show (p.board.toArray.size == 64) = true
    simp
  have hpw : ((p.pieces 0 PAWN ||| p.pieces 1 PAWN) &&& (rankMask1 ||| rankMask8) == 0#64) =
      (((List.range 8).all fun f => Fide.kindOf ((absPos p).at f) != 0 || (absPos p).at f == 0) &&
       ((List.range 8).all fun f => Fide.kindOf ((absPos p).at (56 + f)) != 0 || (absPos p).at (56 + f) == 0)) := by
    rw [Bool.eq_iff_iff, beq_iff_eq, pawn_clause_iff p hsh, pawns_spec p hsh, Bool.and_eq_true]
  have hC : (absPos p).castling = p.castling := rfl
  have hS : (absPos p).side = p.side := rfl
  have hE : (absPos p).ep = if p.ep = 64 then none else some p.ep := rfl
  unfold wfChess Fide.wellFormed
  rw [hsz, valid_spec p hsh, ← k0, ← k1, hpw, hC, hS, hE]
  have hchk : popcount (p.pieces 0 KING) = 1 → popcount (p.pieces 1 KING) = 1 →
      isInCheck p (switchColor p.side) = Fide.inCheck (absPos p) (Fide.other p.side) := by
    intro h0 h1
    have hking : popcount (p.pieces (switchColor p.side) KING) = 1 := by
      have : switchColor p.side = 0 ∨ switchColor p.side = 1 := by omega
      rcases this with h | h <;> rw [h]
      · exact h0
      · exact h1
    obtain ⟨k, hU⟩ := (popcount_king_iff p hsh _ hsw).1 hking
    rw [inCheck_exact p hsh _ hsw k hU, switchColor_eq _ hs2]
  by_cases h64 : p.ep = 64
  · have e1 : (p.ep == 64) = true := by simpa using h64
    rw [if_pos h64, e1]
    dsimp only
    rw [Bool.eq_iff_iff]
    simp only [GM.absPos_at, Bool.true_and, Bool.and_true, Bool.true_or, Bool.and_eq_true, and_assoc, beq_iff_eq]
    constructor
    · rintro ⟨a, b, r⟩; rw [← hchk a b]; exact ⟨a, b, r⟩
    · rintro ⟨a, b, r⟩; rw [hchk a b]; exact ⟨a, b, r⟩
  · have e1 : (p.ep == 64) = false := by simpa using h64
    rw [if_neg h64, e1]
    dsimp only
    rw [Bool.eq_iff_iff]
    simp only [GM.absPos_at, Bool.true_and, Bool.and_true, Bool.false_or, Bool.and_eq_true, and_assoc, beq_iff_eq]
    constructor
    · rintro ⟨a, b, r⟩; rw [← hchk a b]; exact ⟨a, b, r⟩
    · rintro ⟨a, b, r⟩; rw [hchk a b]; exact ⟨a, b, r⟩

end LG
end Clemens
