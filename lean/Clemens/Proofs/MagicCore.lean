import Clemens.Proofs.Rays
/-
Lemma library for C12b (symbolic part): the magic table lookup equals the ray walker.

Everything here is proved once, symbolically, for an arbitrary `Magic`/walker/occupancy.
What remains per square is the single Boolean `magicCheck m = true`, a linear kernel evaluation
(`Clemens/Proofs/MagicRook*.lean`, `Clemens/Proofs/MagicBishop.lean`):
  * the Carry-Rippler enumeration of the mask's subsets equals the recursive enumeration `subsetsDesc`
    (for which "every subset of the mask is listed" is an easy induction), and
  * the magic indices of the listed subsets are pairwise distinct and in range (bitset accumulator).
No attack set is ever computed in the kernel: that the table holds `walker s sub` at `index sub` follows
from distinctness by a general lemma about the fill loop.
-/
namespace Clemens

/-! ### recursive enumeration of all subsets of a list of squares -/

/-- all subsets of the squares in the list; if the list is descending the result is numerically increasing,
the order of Carry-Rippler -/
def subsetsDesc : List Nat → List BB
  | [] => [0#64]
  | s :: rest => subsetsDesc rest ++ (subsetsDesc rest).map (· ||| bit s)

theorem mem_subsetsDesc (l : List Nat) :
    ∀ x : BB, (∀ i, i < 64 → x.getLsbD i = true → i ∈ l) → x ∈ subsetsDesc l := by
  induction l with
  | nil =>
    intro x h
    simp only [subsetsDesc, List.mem_singleton]
    apply BitVec.eq_of_getLsbD_eq
    intro i hi
    cases hx : x.getLsbD i with
    | false => simp
    | true => exact absurd (h i hi hx) (by simp)
  | cons s rest ih =>
    intro x h
    simp only [subsetsDesc, List.mem_append, List.mem_map]
    by_cases hxs : s < 64 ∧ x.getLsbD s = true
    · right
      refine ⟨x &&& ~~~bit s, ih _ ?_, ?_⟩
      · intro i hi hxi
        rw [BitVec.getLsbD_and, BitVec.getLsbD_not, getLsbD_bit _ _ hxs.1] at hxi
        simp only [Bool.and_eq_true, Bool.not_eq_true', decide_eq_false_iff_not, decide_eq_true_eq] at hxi
        have := h i hi hxi.1
        rcases List.mem_cons.1 this with h1 | h1
        · exact absurd h1 hxi.2.2
        · exact h1
      · apply BitVec.eq_of_getLsbD_eq
        intro i hi
        rw [BitVec.getLsbD_or, BitVec.getLsbD_and, BitVec.getLsbD_not, getLsbD_bit _ _ hxs.1]
        by_cases his : i = s
        · subst his; simp [hxs.2]
        · simp [his, hi]
    · left
      apply ih
      intro i hi hxi
      rcases List.mem_cons.1 (h i hi hxi) with h1 | h1
      · subst h1; exact absurd ⟨hi, hxi⟩ hxs
      · exact h1

theorem mem_squares (b : BB) (i : Nat) (hi : i < 64) (h : b.getLsbD i = true) : i ∈ squares b := by
  unfold squares
  simp [List.mem_filter, hi, h]

/-- every occupancy restricted to the mask is one of the enumerated subsets -/
theorem and_mask_mem (occ mask : BB) : occ &&& mask ∈ subsetsDesc (squares mask).reverse := by
  apply mem_subsetsDesc
  intro i hi h
  rw [BitVec.getLsbD_and] at h
  simp only [Bool.and_eq_true] at h
  exact List.mem_reverse.2 (mem_squares mask i hi h.2)

/-! ### Boolean checkers (tail recursive: the kernel evaluates them in constant stack) -/

def listEqB : List BB → List BB → Bool
  | [], [] => true
  | a :: as, b :: bs => a.toNat == b.toNat && listEqB as bs
  | _, _ => false

theorem listEqB_sound : ∀ (a b : List BB), listEqB a b = true → a = b
  | [], [], _ => rfl
  | [], _ :: _, h => by simp [listEqB] at h
  | _ :: _, [], h => by simp [listEqB] at h
  | a :: as, b :: bs, h => by
    simp only [listEqB, Bool.and_eq_true, beq_iff_eq] at h
    rw [BitVec.eq_of_toNat_eq h.1, listEqB_sound as bs h.2]

/-- the indices `f x` of the listed `x` are `< n` and have not been seen before (`seen` is a bitset) -/
def idxCheck (f : BB → Nat) (n : Nat) : List BB → Nat → Bool
  | [], _ => true
  | x :: xs, seen => decide (f x < n) && (!seen.testBit (f x) && idxCheck f n xs (seen ||| (1 <<< f x)))

theorem idxCheck_sound (f : BB → Nat) (n : Nat) : ∀ (l : List BB) (seen : Nat), idxCheck f n l seen = true →
    (l.map f).Nodup ∧ ∀ x ∈ l, f x < n ∧ seen.testBit (f x) = false := by
  intro l
  induction l with
  | nil => intro seen _; simp
  | cons x xs ih =>
    intro seen h
    simp only [idxCheck, Bool.and_eq_true, decide_eq_true_eq, Bool.not_eq_true'] at h
    obtain ⟨h1, h2, h3⟩ := h
    obtain ⟨nd, hall⟩ := ih _ h3
    have key : ∀ y ∈ xs, f y < n ∧ seen.testBit (f y) = false ∧ f y ≠ f x := by
      intro y hy
      obtain ⟨a, b⟩ := hall y hy
      rw [Nat.testBit_or, Nat.one_shiftLeft, Nat.testBit_two_pow] at b
      simp only [Bool.or_eq_false_iff, decide_eq_false_iff_not] at b
      exact ⟨a, b.1, fun e => b.2 e.symm⟩
    refine ⟨?_, ?_⟩
    · rw [List.map_cons, List.nodup_cons]
      refine ⟨?_, nd⟩
      intro hm
      obtain ⟨y, hy, e⟩ := List.mem_map.1 hm
      exact (key y hy).2.2 e
    · intro y hy
      rcases List.mem_cons.1 hy with e | hy
      · subst e; exact ⟨h1, h2⟩
      · exact ⟨(key y hy).1, (key y hy).2.1⟩

/-! ### the fill loop -/

section fill
variable {α : Type} (idx : BB → Nat) (w : BB → α)

theorem fill_size (L : List BB) : ∀ t : Array α,
    (L.foldl (fun t o => t.setIfInBounds (idx o) (w o)) t).size = t.size := by
  induction L with
  | nil => intro t; rfl
  | cons a L ih => intro t; rw [List.foldl_cons, ih, Array.size_setIfInBounds]

theorem fill_getD_not_mem (d : α) (j : Nat) (L : List BB) : ∀ t : Array α, (∀ o ∈ L, idx o ≠ j) →
    (L.foldl (fun t o => t.setIfInBounds (idx o) (w o)) t).getD j d = t.getD j d := by
  induction L with
  | nil => intro t _; rfl
  | cons a L ih =>
    intro t h
    rw [List.foldl_cons, ih _ (fun o ho => h o (List.mem_cons_of_mem _ ho))]
    have : idx a ≠ j := h a List.mem_cons_self
    simp only [Array.getD_eq_getD_getElem?, Array.getElem?_setIfInBounds, this, if_false]

theorem fill_getD_mem (d : α) (L : List BB) : ∀ t : Array α, (L.map idx).Nodup → (∀ o ∈ L, idx o < t.size) →
    ∀ o ∈ L, (L.foldl (fun t o => t.setIfInBounds (idx o) (w o)) t).getD (idx o) d = w o := by
  induction L with
  | nil => intro t _ _ o ho; cases ho
  | cons a L ih =>
    intro t nd hb o ho
    rw [List.map_cons, List.nodup_cons] at nd
    rw [List.foldl_cons]
    rcases List.mem_cons.1 ho with e | ho'
    · subst e
      rw [fill_getD_not_mem]
      · have : idx o < t.size := hb o List.mem_cons_self
        simp [Array.getD_eq_getD_getElem?, this]
      · intro o' ho' e
        exact nd.1 (List.mem_map.2 ⟨o', ho', e⟩)
    · apply ih _ nd.2 _ o ho'
      intro o' ho'
      rw [Array.size_setIfInBounds]
      exact hb o' (List.mem_cons_of_mem _ ho')

end fill

/-! ### one square -/

/-- the per-square kernel fact -/
def magicCheck (m : Magic) : Bool :=
  listEqB (allSubsetsOf m.mask) (subsetsDesc (squares m.mask).reverse) &&
  idxCheck m.index (2 ^ popcount m.mask) (subsetsDesc (squares m.mask).reverse) 0

theorem index_and_mask (m : Magic) (occ : BB) : m.index (occ &&& m.mask) = m.index occ := by
  unfold Magic.index
  rw [BitVec.and_assoc, BitVec.and_self]

/-- the table of a checked magic holds the walker's answer for every one of the 2^64 occupancies -/
theorem lookup_of_check (walker : Nat → BB → BB) (s : Nat) (m : Magic) (h : magicCheck m = true) (occ : BB) :
    (fillTable walker s m).getD (m.index occ) 0#64 = walker s (occ &&& m.mask) := by
  unfold magicCheck at h
  rw [Bool.and_eq_true] at h
  obtain ⟨h1, h2⟩ := h
  have hL := listEqB_sound _ _ h1
  obtain ⟨nd, hb⟩ := idxCheck_sound _ _ _ _ h2
  unfold fillTable
  rw [hL, ← index_and_mask]
  apply fill_getD_mem m.index (walker s) 0#64 _ _ nd
  · intro o ho
    rw [Array.size_replicate]
    exact (hb o ho).1
  · exact and_mask_mem occ m.mask

theorem tables_getD (f : Nat → Array BB) (s : Nat) (hs : s < 64) :
    ((Array.range 64).map f).getD s #[] = f s := by
  simp [Array.getD_eq_getD_getElem?, hs]

/-- all 64 squares from the eight per-rank facts -/
theorem all_of_ranks (p : Nat → Bool) (h : ∀ k < 8, (List.range' (8 * k) 8).all p = true) :
    ∀ s < 64, p s = true := by
  intro s hs
  have := h (s / 8) (by omega)
  rw [List.all_eq_true] at this
  apply this s
  rw [List.mem_range'_1]
  omega

/-! ### relevance masks of the dumped magics -/

theorem rook_mask_eq : ∀ s < 64, (rookMagic s).mask = magicMask rookWalker s := by decide +kernel
theorem bishop_mask_eq : ∀ s < 64, (bishopMagic s).mask = magicMask bishopWalker s := by decide +kernel
theorem rook_mask_origin : ∀ s < 64, (magicMask rookWalker s).getLsbD s = false := by decide +kernel
theorem bishop_mask_origin : ∀ s < 64, (magicMask bishopWalker s).getLsbD s = false := by decide +kernel

theorem dir_all_eq : Dir.all = rookDirs ++ bishopDirs := rfl

end Clemens
