import Clemens.Proofs.MateBounds
/-
Lemma library for C13b (task P19), part 3: the root node of a position with a mate in one.
-/
namespace Clemens
namespace P19
open SearchLemmas

/-! ### a checkmated node whose hash has no usable table entry -/

section
variable {I : SState → Prop}

theorem posti_nmLoop_nolegal (K : Keys) (recur : NegaFn) (p : Pos) (beta : Int) (depth ply : Nat) (prev : Move) (fp : Bool)
    (l : List Move) (st : LoopSt) (hl : ∀ m ∈ l, ∀ q, makeMove K p m = some q → isLegal q = false) :
    PostI I (fun st' : LoopSt => st' = st) (nmLoop K recur p beta depth ply prev fp l st) := by
  induction l with
  | nil => unfold nmLoop; exact posti_pure rfl
  | cons m rest ih =>
    unfold nmLoop
    split
    · exact posti_panic
    · rename_i q hq
      have hleg := hl m List.mem_cons_self q hq
      split
      · exact ih (fun m' hm' => hl m' (List.mem_cons_of_mem _ hm'))
      · rename_i hc
        rw [hleg] at hc
        exact absurd rfl hc
end

/-- a checkmated node returns the mate value and no PV, also as a non-PV node, if the table has no usable entry for it -/
theorem posti_negamax_checkmated (K : Keys) (H : BB → Prop) (fuel : Nat) (p : Pos) (alpha beta : Int) (depth ply : Nat)
    (cn : Bool) (prev : Move) (hm : Mated K p) (hH : H p.hash) (hdepth : depth < 255) :
    PostI (TInv H) (fun r : NodeRes => r = (w16 (-INF + ply), none)) (negamax K fuel p alpha beta depth ply cn prev) := by
  obtain ⟨hcheck, hno⟩ := hm
  have hst := tinv_stable H
  cases fuel with
  | zero => unfold negamax; exact posti_panic
  | succ fuel =>
    unfold negamax
    refine posti_seq (posti_poll hst) ?_
    intro _
    extract_lets isRoot mateValue pvNode inCheck depth' R body
    have hic : inCheck = true := hcheck
    have hd' : depth' = (depth + 1) % 256 := by simp only [depth', hic, if_true]
    have hd1 : 1 ≤ depth' := by omega
    have hbody : PostI (TInv H) (fun r : NodeRes => r = (w16 (-INF + ply), none)) body := by
      unfold body
      refine posti_bind_of posti_get ?_
      intro s hs
      extract_lets pvMove
      have hnu := ttGet_noUse s.tt p.hash alpha beta depth' ply (hs.2 _ hH) hd1
      split
      rename_i ttScore use ttMove httg
      rw [httg] at hnu
      have hu : use = false := hnu
      split
      · rename_i hc
        exfalso
        simp [hu] at hc
      · extract_lets jp3 jp2 jp1
        have h3 : ∀ fp, PostI (TInv H) (fun r : NodeRes => r = (w16 (-INF + ply), none)) (jp3 fp) := by
          intro fp
          unfold jp3
          refine posti_seq (posti_true posti_get) ?_
          intro s2
          refine posti_bind_of (posti_ofOption _) ?_
          intro scored hsc
          refine posti_bind_of (posti_nmLoop_nolegal K _ p beta depth' ply prev fp _ _
            (nolegal_visit K p (heurOf s2) pvMove ttMove ply scored hsc hno)) ?_
          intro st hst'
          subst hst'
          split
          · refine posti_pure ?_
            first | rfl | (rw [if_pos hic])
          · rename_i hc
            exact absurd rfl hc
        have h2 : PostI (TInv H) (fun r : NodeRes => r = (w16 (-INF + ply), none)) (jp2 false) := by
          unfold jp2
          split
          · rename_i hc; cases hc
          · split
            · rename_i hc
              simp [hic] at hc
            · exact posti_seq (posti_pure_true _) (fun _ => h3 _)
        have h1 : PostI (TInv H) (fun r : NodeRes => r = (w16 (-INF + ply), none)) (jp1 none) := by
          unfold jp1
          split
          · rename_i hc; cases hc
          · split
            · rename_i hc
              simp [hic] at hc
            · exact h2
        split
        · rename_i hc
          simp [hic] at hc
        · exact h1
    split
    · rename_i hc
      omega
    · refine posti_seq (posti_modify_tt hst _ (fun _ => rfl)) (fun _ => posti_seq (posti_true posti_get) (fun s => ?_))
      split
      · rename_i hc
        simp [hic] at hc
      · refine posti_seq (posti_modify_tt hst _ (fun _ => rfl)) (fun _ => ?_)
        exact posti_popPath hst body hbody

end P19

/-- `m` is a mating move in `p`: generated, legal, and the opponent is then in check without a legal reply -/
def Mates (K : Keys) (p : Pos) (m : Move) : Prop :=
  m ∈ genMoves p ∧ ∃ q, makeMove K p m = some q ∧ isLegal q = true ∧ isInCheck q q.side = true ∧
    ∀ r ∈ genMoves q, ∀ q', makeMove K q r = some q' → isLegal q' = false

namespace P19
open SearchLemmas

/-- `q` is a position the root loop recurses into -/
def RootChild (K : Keys) (root q : Pos) : Prop :=
  ∃ m, m % 65536 ∈ genMoves root ∧ makeMove K root m = some q ∧ isLegal q = true

/-- what the root needs from the search of a child at ply 1 with window `(a, b)` -/
def CS (K : Keys) (q : Pos) (a b : Int) (r : NodeRes) : Prop :=
  InRange r.1 ∧ (Mated K q → r.1 = -INF + 1) ∧ (¬ Mated K q → a = -INF → (b ≤ r.1 ∨ -INF + 2 ≤ r.1))

/-- root loop, after a mating move has been adopted -/
def PhaseB (K : Keys) (root : Pos) (st : LoopSt) : Prop :=
  st.alpha = INF - 1 ∧ st.bestScore = INF - 1 ∧ st.legalMoves ≠ 0 ∧
    ∃ m rest, st.pvl = some (m :: rest) ∧ Mates K root (m % 65536)

/-- root loop, before: alpha and the best score move together and stay below the mate score -/
def PhaseA (st : LoopSt) : Prop := st.alpha = st.bestScore ∧ -INF ≤ st.alpha ∧ st.alpha ≤ INF - 2

theorem mates_iff (K : Keys) (root : Pos) (m : Move) (q : Pos) (hg : m % 65536 ∈ genMoves root)
    (hq : makeMove K root m = some q) (hleg : isLegal q = true) : Mates K root (m % 65536) ↔ Mated K q := by
  have hq' : makeMove K root (m % 65536) = some q := by rw [← makeMove_low]; exact hq
  constructor
  · rintro ⟨_, q', h1, _, h3, h4⟩
    rw [hq'] at h1
    cases h1
    exact ⟨h3, h4⟩
  · rintro ⟨h3, h4⟩
    exact ⟨hg, q, hq', hleg, h3, h4⟩

section
variable {I : SState → Prop} (hI : ∀ s s', s'.tt = s.tt → I s → I s')
include hI

omit hI in
theorem posti_rootLoop_B (K : Keys) (root : Pos) (recur : NegaFn) (depth : Nat) (prev : Move)
    (hcs : ∀ q, RootChild K root q → ∀ a b cn pm, InWin a b → PostI I (CS K q a b) (recur q a b (depth - 1) 1 cn pm))
    (l : List Move) (hl : ∀ m ∈ l, m % 65536 ∈ genMoves root) (st : LoopSt) (hB : PhaseB K root st) :
    PostI I (PhaseB K root) (nmLoop K recur root INF depth 0 prev false l st) := by
  induction l generalizing st with
  | nil => unfold nmLoop; exact posti_pure hB
  | cons m rest ih =>
    have ih' := fun st h => ih (fun m' hm' => hl m' (List.mem_cons_of_mem _ hm')) st h
    have hI' := INF_eq
    unfold nmLoop
    split
    · exact posti_panic
    · rename_i q hq
      split
      · exact ih' st hB
      · rename_i hleg
        have hleg : isLegal q = true := by simpa using hleg
        have hrc : RootChild K root q := ⟨m, hl m List.mem_cons_self, hq, hleg⟩
        extract_lets st1 alpha hk jp
        obtain ⟨hBa, hBb, hBl, hBp⟩ := hB
        have hB1 : PhaseB K root st1 := ⟨hBa, hBb, by show st.legalMoves + 1 ≠ 0; omega, hBp⟩
        split
        · exact ih' st1 hB1
        · split
          · rename_i h1
            exfalso
            have : st.legalMoves + 1 = 1 := h1
            omega
          · have ha : alpha = INF - 1 := hBa
            have hwz : InWin (w16 (w16 (-alpha) - 1)) (w16 (-alpha)) := by
              rw [ha]; unfold InWin w16; omega
            refine posti_bind_of (hcs q hrc _ _ _ _ hwz) ?_
            intro x hx
            obtain ⟨sc0, cpv0⟩ := x
            obtain ⟨hr, hm1, hm2⟩ := hx
            have hr' : InRange sc0 := hr
            have hsc : -INF + 1 ≤ sc0 := by
              by_cases hm : Mated K q
              · have := hm1 hm
                dsimp only at this
                omega
              · have := hm2 hm (by rw [ha]; unfold w16; omega)
                dsimp only at this
                have e : w16 (-alpha) = -INF + 1 := by rw [ha]; unfold w16; omega
                rw [e] at this
                omega
            have e1 : w16 (-sc0) = -sc0 := w16_neg_eq hr'
            dsimp only
            have hns : ¬ w16 (-sc0) > alpha := by rw [e1, ha]; omega
            rw [if_neg hns]
            show PostI I (PhaseB K root) (jp (w16 (-sc0), none))
            unfold jp
            dsimp -zeta only
            extract_lets st2 jp2 st3
            have e2 : st2 = st1 := by
              apply if_neg
              show ¬ w16 (-sc0) > st.bestScore
              rw [e1, hBb]; omega
            have e3 : st3 = st2 := by
              apply if_neg
              exact hns
            split
            · rename_i hge
              exfalso
              rw [e1] at hge
              unfold InRange at hr'
              omega
            · rw [e3, e2]
              exact ih' st1 hB1

omit hI in
theorem posti_rootLoop_A (K : Keys) (root : Pos) (recur : NegaFn) (depth : Nat) (prev : Move)
    (hcs : ∀ q, RootChild K root q → ∀ a b cn pm, InWin a b → PostI I (CS K q a b) (recur q a b (depth - 1) 1 cn pm))
    (l : List Move) (hl : ∀ m ∈ l, m % 65536 ∈ genMoves root) (st : LoopSt) (hA : PhaseA st) :
    PostI I (fun st' : LoopSt => PhaseB K root st' ∨ (PhaseA st' ∧ ∀ m ∈ l, ¬ Mates K root (m % 65536)))
      (nmLoop K recur root INF depth 0 prev false l st) := by
  induction l generalizing st with
  | nil => unfold nmLoop; exact posti_pure (Or.inr ⟨hA, fun m hm => by cases hm⟩)
  | cons m rest ih =>
    have hl' : ∀ m' ∈ rest, m' % 65536 ∈ genMoves root := fun m' hm' => hl m' (List.mem_cons_of_mem _ hm')
    have ih' := fun st h => ih hl' st h
    have hI' := INF_eq
    have hmg := hl m List.mem_cons_self
    unfold nmLoop
    split
    · exact posti_panic
    · rename_i q hq
      -- the continuation on the rest of the list, when `m` is known not to mate
      have hcont : ¬ Mates K root (m % 65536) → ∀ st2, PhaseA st2 →
          PostI I (fun st' : LoopSt => PhaseB K root st' ∨ (PhaseA st' ∧ ∀ m' ∈ m :: rest, ¬ Mates K root (m' % 65536)))
            (nmLoop K recur root INF depth 0 prev false rest st2) := by
        intro hnm st2 h2
        refine posti_mono (ih' st2 h2) ?_
        intro st' h
        rcases h with h | ⟨h1, h2⟩
        · exact Or.inl h
        · refine Or.inr ⟨h1, ?_⟩
          intro m' hm'
          rcases List.mem_cons.1 hm' with rfl | hm'
          · exact hnm
          · exact h2 m' hm'
      split
      · rename_i hleg
        have hleg : isLegal q = false := by simpa using hleg
        apply hcont _ st hA
        rintro ⟨_, q', h1, h2, _⟩
        rw [← makeMove_low, hq] at h1
        cases h1
        rw [hleg] at h2
        cases h2
      · rename_i hleg
        have hleg : isLegal q = true := by simpa using hleg
        have hrc : RootChild K root q := ⟨m, hmg, hq, hleg⟩
        have hmi := mates_iff K root m q hmg hq hleg
        extract_lets st1 alpha hk jp
        obtain ⟨hAe, hAl, hAu⟩ := hA
        have hA1 : PhaseA st1 := ⟨hAe, hAl, hAu⟩
        have hwin : InWin st.alpha INF := by unfold InWin; omega
        have hrw := inwin_range hwin
        have ea : w16 (-INF) = -INF := w16_neg_eq hrw.2
        have eb : w16 (-alpha) = -st.alpha := w16_neg_eq hrw.1
        split
        · rename_i hpr
          simp at hpr
        · have hfull : ∀ x : NodeRes, CS K q (w16 (-INF)) (w16 (-alpha)) x →
              PostI I (fun st' : LoopSt => PhaseB K root st' ∨ (PhaseA st' ∧ ∀ m' ∈ m :: rest, ¬ Mates K root (m' % 65536)))
                (jp (w16 (-x.1), x.2)) := by
            intro x hx
            obtain ⟨sc, cpv⟩ := x
            obtain ⟨hr, hm1, hm2⟩ := hx
            have hr' : InRange sc := hr
            have e1 : w16 (-sc) = -sc := w16_neg_eq hr'
            rw [ea, eb] at hm2
            unfold jp
            dsimp -zeta only
            extract_lets st2 jp2 st3
            by_cases hm : Mated K q
            · have hsc : sc = -INF + 1 := hm1 hm
              have hgt : w16 (-sc) > st1.bestScore := by
                show w16 (-sc) > st.bestScore
                rw [e1]; omega
              have e2 : st2 = { st1 with bestScore := w16 (-sc), bestMove := m } := if_pos hgt
              have hga : w16 (-sc) > alpha := by
                show w16 (-sc) > st.alpha
                rw [e1]; omega
              have e3 : st3 = { st2 with nodeType := 0, alpha := w16 (-sc), pvl := some (st2.bestMove :: cpv.getD []) } := if_pos hga
              split
              · rename_i hge
                exfalso
                rw [e1] at hge
                omega
              · refine posti_mono (posti_rootLoop_B K root recur depth prev hcs rest hl' st3 ?_) (fun _ h => Or.inl h)
                rw [e3, e2]
                refine ⟨?_, ?_, ?_, m, cpv.getD [], rfl, hmi.2 hm⟩
                · show w16 (-sc) = INF - 1
                  rw [e1]; omega
                · show w16 (-sc) = INF - 1
                  rw [e1]; omega
                · show st.legalMoves + 1 ≠ 0
                  omega
            · have hsc : -INF + 2 ≤ sc := by
                have := hm2 hm rfl
                dsimp only at this
                omega
              have hnm : ¬ Mates K root (m % 65536) := fun h => hm (hmi.1 h)
              have h2b : st2.bestScore = if w16 (-sc) > st.bestScore then w16 (-sc) else st.bestScore := by
                by_cases hbs : w16 (-sc) > st1.bestScore
                · have e2 : st2 = { st1 with bestMove := m, bestScore := w16 (-sc) } := if_pos hbs
                  rw [e2]; exact (if_pos hbs).symm
                · have e2 : st2 = st1 := if_neg hbs
                  rw [e2]; exact (if_neg hbs).symm
              have h2a : st2.alpha = st.alpha := by
                by_cases hbs : w16 (-sc) > st1.bestScore
                · have e2 : st2 = { st1 with bestMove := m, bestScore := w16 (-sc) } := if_pos hbs
                  rw [e2]
                · have e2 : st2 = st1 := if_neg hbs
                  rw [e2]
              have h3 : st3.alpha = (if w16 (-sc) > st.alpha then w16 (-sc) else st.alpha) ∧ st3.bestScore = st2.bestScore := by
                by_cases ha : w16 (-sc) > alpha
                · have e3 : st3 = { st2 with nodeType := 0, alpha := w16 (-sc), pvl := some (st2.bestMove :: cpv.getD []) } := if_pos ha
                  rw [e3]; exact ⟨(if_pos ha).symm, rfl⟩
                · have e3 : st3 = st2 := if_neg ha
                  rw [e3]; exact ⟨by rw [h2a]; exact (if_neg ha).symm, rfl⟩
              split
              · rename_i hge
                exfalso
                rw [e1] at hge
                omega
              · apply hcont hnm st3
                unfold PhaseA
                rw [h3.1, h3.2, h2b, e1]
                split <;> split <;> omega
          have hskip : ∀ score : Int, ¬ score > st.alpha → ¬ Mates K root (m % 65536) →
              PostI I (fun st' : LoopSt => PhaseB K root st' ∨ (PhaseA st' ∧ ∀ m' ∈ m :: rest, ¬ Mates K root (m' % 65536)))
                (jp (score, none)) := by
            intro score hns hnm
            unfold jp
            dsimp -zeta only
            extract_lets st2 jp2 st3
            have e2 : st2 = st1 := by
              apply if_neg
              show ¬ score > st.bestScore
              omega
            have e3 : st3 = st2 := if_neg hns
            split
            · rename_i hge
              exfalso
              omega
            · rw [e3, e2]
              exact hcont hnm st1 hA1
          clear_value jp
          split
          · exact posti_bind_of (hcs q hrc _ _ _ _ (inwin_full hwin)) hfull
          · refine posti_bind_of (hcs q hrc _ _ _ _ (inwin_zw hwin)) ?_
            intro x hx0
            obtain ⟨sc0, cpv0⟩ := x
            dsimp only
            split
            · exact posti_bind_of (hcs q hrc _ _ _ _ (inwin_full hwin)) hfull
            · rename_i hna
              obtain ⟨hr0, hm1, _⟩ := hx0
              have hr0' : InRange sc0 := hr0
              have e1 : w16 (-sc0) = -sc0 := w16_neg_eq hr0'
              have hns : ¬ w16 (-sc0) > st.alpha := hna
              have hm : ¬ Mated K q := by
                intro hm
                have : sc0 = -INF + 1 := hm1 hm
                rw [e1] at hns
                omega
              have hnm : ¬ Mates K root (m % 65536) := fun h => hm (hmi.1 h)
              exact hskip (w16 (-sc0)) hns hnm
end

/-! ### the root node -/

/-- the visited moves are generated moves with score bits on top -/
theorem visit_low (p : Pos) (h : Heur) (pv tt : Move) (ply : Nat) (scored : List Move)
    (hs : scoreMoves p h pv tt ply (genMoves p) = some scored) (hlow : ∀ g ∈ genMoves p, g < 65536) :
    ∀ m ∈ visitOrder scored, m % 65536 ∈ genMoves p := by
  intro m hm
  have hperm := visit_scored_perm p h pv tt ply (genMoves p) scored hs
  have hmem : m % 65536 ∈ (genMoves p).map (· % 65536) := hperm.mem_iff.1 (List.mem_map_of_mem hm)
  obtain ⟨g, hg, hge⟩ := List.mem_map.1 hmem
  have : g % 65536 = g := Nat.mod_eq_of_lt (hlow g hg)
  rw [← hge]
  show g % 65536 ∈ genMoves p
  rw [this]; exact hg

theorem visit_has (p : Pos) (h : Heur) (pv tt : Move) (ply : Nat) (scored : List Move)
    (hs : scoreMoves p h pv tt ply (genMoves p) = some scored) (hlow : ∀ g ∈ genMoves p, g < 65536) (g : Move)
    (hg : g ∈ genMoves p) : ∃ m ∈ visitOrder scored, m % 65536 = g := by
  have hperm := visit_scored_perm p h pv tt ply (genMoves p) scored hs
  have hmem : g % 65536 ∈ (visitOrder scored).map (· % 65536) := hperm.mem_iff.2 (List.mem_map_of_mem hg)
  obtain ⟨m, hm, hme⟩ := List.mem_map.1 hmem
  have : g % 65536 = g := Nat.mod_eq_of_lt (hlow g hg)
  exact ⟨m, hm, by rw [← this]; exact hme⟩

theorem posti_root (K : Keys) (C : Pos → Prop) (H : BB → Prop) (hC : MateClass K C H) (root : Pos) (hp : C root)
    (hH : ∀ q, RootChild K root q → Mated K q → H q.hash)
    (hlow : ∀ g ∈ genMoves root, g < 65536) (hmate : ∃ m, Mates K root m)
    (fuel : Nat) (hfuel : fuel + 2 ≤ 32767) (d : Nat) (hd1 : 1 ≤ d) (hd2 : d ≤ 254) (cn : Bool) (prev : Move) :
    PostI (TInv H) (fun r : NodeRes => r.1 = INF - 1 ∧ ∃ m rest, r.2 = some (m :: rest) ∧ Mates K root (m % 65536))
      (negamax K (fuel + 1) root (-INF) INF d 0 cn prev) := by
  have hst := tinv_stable H
  have hI := INF_eq
  unfold negamax
  refine posti_seq (posti_poll hst) ?_
  intro _
  extract_lets isRoot mateValue pvNode inCheck depth' R body
  have hpv : pvNode = true := by
    show (w16 (INF - -INF) != 1) = true
    decide
  have hd' : 1 ≤ depth' ∧ depth' - 1 < 255 := by
    show 1 ≤ (if inCheck = true then (d + 1) % 256 else d) ∧ (if inCheck = true then (d + 1) % 256 else d) - 1 < 255
    split <;> omega
  have hcs : ∀ q, RootChild K root q → ∀ a b cn pm, InWin a b →
      PostI (TInv H) (CS K q a b) (negamax K fuel q a b (depth' - 1) 1 cn pm) := by
    intro q hrc a b cn pm hw
    obtain ⟨m, hmg, hq, hleg⟩ := hrc
    have hcq : C q := hC.move root m q hp (Or.inl (List.mem_map.2 ⟨m % 65536, hmg, Nat.mod_mod _ _⟩)) hq hleg
    have hinv := posti_negamax_inv K C H hC fuel q hcq a b (depth' - 1) 1 cn pm hw (by omega)
    by_cases hm : Mated K q
    · refine posti_mono (posti_and hinv (posti_negamax_checkmated K H fuel q a b (depth' - 1) 1 cn pm hm
        (hH q ⟨m, hmg, hq, hleg⟩ hm) hd'.2)) ?_
      intro r hr
      refine ⟨hr.1, fun _ => ?_, fun h => absurd hm h⟩
      rw [hr.2]
      show w16 (-INF + ((1 : Nat) : Int)) = -INF + 1
      unfold w16
      omega
    · refine posti_mono (posti_and hinv (posti_negamax_bd K C H hC fuel q hcq a b (depth' - 1) 1 cn pm hw (Nat.le_refl _) (by omega))) ?_
      intro r hr
      refine ⟨hr.1, fun h => absurd h hm, fun _ ha => ?_⟩
      exact (hr.2.1 ha).resolve_left (fun h => hm h.2)
  obtain ⟨g, hgm⟩ := hmate
  have hnoleg : ¬ NoLegal K root := by
    intro hno
    obtain ⟨hg, q, hq, hleg, _⟩ := hgm
    have := hno g hg q hq
    rw [hleg] at this
    cases this
  have hbody : PostI (TInv H) (fun r : NodeRes => r.1 = INF - 1 ∧ ∃ m rest, r.2 = some (m :: rest) ∧ Mates K root (m % 65536)) body := by
    unfold body
    refine posti_bind_of posti_get ?_
    intro s hs
    extract_lets pvMove
    split
    rename_i ttScore use ttMove httg
    split
    · rename_i hc
      exfalso
      simp [isRoot] at hc
    · extract_lets jp3 jp2 jp1
      have h3 : PostI (TInv H) (fun r : NodeRes => r.1 = INF - 1 ∧ ∃ m rest, r.2 = some (m :: rest) ∧ Mates K root (m % 65536)) (jp3 false) := by
        unfold jp3
        refine posti_seq (posti_true posti_get) ?_
        intro s2
        refine posti_bind_of (posti_ofOption _) ?_
        intro scored hscored
        have hl := visit_low root _ _ _ _ scored hscored hlow
        have hA0 : PhaseA { alpha := -INF, bestScore := -INF } := by
          refine ⟨rfl, Int.le_refl _, ?_⟩
          show -INF ≤ INF - 2
          omega
        refine posti_bind_of (posti_rootLoop_A K root _ depth' prev hcs _ hl _ hA0) ?_
        intro st hst'
        have hB : PhaseB K root st := by
          rcases hst' with h | ⟨_, h⟩
          · exact h
          · exfalso
            obtain ⟨m, hm, hme⟩ := visit_has root _ _ _ _ scored hscored hlow g hgm.1
            apply h m hm
            rw [hme]; exact hgm
        obtain ⟨_, hBb, hBl, hBp⟩ := hB
        split
        · rename_i h0
          exact absurd h0 hBl
        · refine posti_seq (posti_poll hst) (fun _ => ?_)
          refine posti_seq (posti_modify _ ?_) (fun _ => posti_pure ⟨hBb, hBp⟩)
          intro s3 hs3
          apply tinv_save hC root hp hnoleg s3 hs3
          rw [hBb]
          unfold InRange
          omega
      have h2 : PostI (TInv H) (fun r : NodeRes => r.1 = INF - 1 ∧ ∃ m rest, r.2 = some (m :: rest) ∧ Mates K root (m % 65536)) (jp2 false) := by
        unfold jp2
        split
        · rename_i hc; cases hc
        · split
          · rename_i hc
            simp [hpv] at hc
          · exact posti_bind_of (R := fun fp : Bool => fp = false) (posti_pure rfl) (fun fp h => by subst h; exact h3)
      have h1 : PostI (TInv H) (fun r : NodeRes => r.1 = INF - 1 ∧ ∃ m rest, r.2 = some (m :: rest) ∧ Mates K root (m % 65536)) (jp1 none) := by
        unfold jp1
        split
        · rename_i hc; cases hc
        · split
          · rename_i hc
            simp [hpv] at hc
          · exact posti_bind_of (R := fun nc : Bool => nc = false) (posti_pure rfl) (fun nc h => by subst h; exact h2)
      split
      · rename_i hc
        simp [hpv] at hc
      · exact posti_bind_of (R := fun snm : Option Int => snm = none) (posti_pure rfl) (fun snm h => by subst h; exact h1)
  split
  · rename_i hc
    omega
  · refine posti_seq (posti_modify_tt hst _ (fun _ => rfl)) (fun _ => posti_seq (posti_true posti_get) (fun s => ?_))
    split
    · rename_i hc
      simp [isRoot] at hc
    · refine posti_seq (posti_modify_tt hst _ (fun _ => rfl)) (fun _ => ?_)
      exact posti_popPath hst body hbody

end P19
end Clemens
