import Clemens.Proofs.Captures
import Clemens.Proofs.Examples
/-
C17: the statement without a condition on the castling words is false.  Witness `Ex.cornerPos`
(white Ka1, black Kg8, stale castling right Q): `wfShape`, side 0, no en passant square, and the
generator offers the castling word a1→(a1-2 in uint8 = 254), which decodes to target g8 = the black king.
The sliding-attack tables are never evaluated: with kings only, `squareAttackedBy` is the king term.
-/
namespace Clemens

attribute [local irreducible] rookAttacks bishopAttacks

theorem squareAttackedBy_kings_only (p : Pos) (s : Nat) (h0 : ∀ t, t < 5 → p.pieces 0 t = 0#64)
    (h1 : ∀ t, t < 5 → p.pieces 1 t = 0#64) :
    squareAttackedBy p s = kingAttacks s &&& (p.pieces 0 KING ||| p.pieces 1 KING) := by
  unfold squareAttackedBy
  simp only [KNIGHT, BISHOP, ROOK, QUEEN, PAWN, h0 0 (by omega), h0 1 (by omega), h0 2 (by omega),
    h0 3 (by omega), h0 4 (by omega), h1 0 (by omega), h1 1 (by omega), h1 2 (by omega), h1 3 (by omega),
    h1 4 (by omega), BitVec.or_zero, BitVec.and_zero, BitVec.zero_or]

theorem mem_genCastling_intro {p : Pos} {c : Nat} (hc : c ∈ [1, 2, 4, 8]) (hcol : castlingColor c = p.side)
    (hcan : canCastleNow p c = true) :
    ((3 <<< 12) ||| lsb (p.pieces p.side KING) ||| (castlingTarget p c <<< 6)) ∈ genCastling p := by
  unfold genCastling
  rw [List.mem_flatMap]
  refine ⟨c, hc, ?_⟩
  rw [if_neg (by simp [hcol]), if_neg (by simp [hcan])]
  exact List.mem_singleton.2 rfl

open Ex in
theorem cornerPos_kings_only : (∀ t, t < 5 → cornerPos.pieces 0 t = 0#64) ∧ (∀ t, t < 5 → cornerPos.pieces 1 t = 0#64) := by
  decide +kernel

open Ex in
theorem cornerPos_canCastle : canCastleNow cornerPos 2 = true := by
  unfold canCastleNow isInCheck
  simp only [squareAttackedBy_kings_only cornerPos _ cornerPos_kings_only.1 cornerPos_kings_only.2]
  decide +kernel

open Ex in
theorem cornerPos_counterexample :
    wfShape cornerPos = true ∧ cornerPos.side < 2 ∧ cornerPos.ep = 64 ∧
      genCaptures cornerPos ≠ (genMoves cornerPos).filter (isCapture cornerPos) := by
  have hw : wfShape cornerPos = true := by decide +kernel
  have hs : cornerPos.side < 2 := by decide +kernel
  refine ⟨hw, hs, by decide +kernel, ?_⟩
  intro h
  have hmem := mem_genCastling_intro (p := cornerPos) (c := 2) (by simp) (by decide +kernel) cornerPos_canCastle
  have hcap := (captures_eq_filter_iff hw hs).1 h _ hmem
  revert hcap
  decide +kernel

end Clemens
