import Clemens.Proofs.GenReachMaterial
/-
P04m, part 3: the positions the search really reaches (`GenReach`: generated moves that pass the legality filter, null moves out of
check) are legal positions (`WF`) with legal material (`LegalMaterial`), for EVERY value of the two `uint8` counters.

`LG.WF_succ` (C10) and `GR.material_step_rng` need the counters below 255 (they go through the refinement theorem C02, whose
right-hand side counts in `Nat`).  `WF` itself does not care: `wfState` only asks for `ply < 256`, `hmc < 256` and the parity of
`ply`, and 256 is even.  So the step is made from the position with its counters replaced (`GR.setCnt`, `GR.makeMove_setCnt`).
-/
namespace Clemens

/-- the positions a search from `root` visits: closed under GENERATED moves (up to the score bits of the word) that pass the
legality filter, and under the null move out of check -/
inductive GenReach (K : Keys) (root : Pos) : Pos → Prop
  | root : GenReach K root root
  | move {p q : Pos} {m : Move} : GenReach K root p → m % 65536 ∈ (genMoves p).map (· % 65536) → makeMove K p m = some q →
      isLegal q = true → GenReach K root q
  | null {p : Pos} : GenReach K root p → isInCheck p p.side = false → GenReach K root (makeNull K p).1

namespace GR
open GM LG

theorem wfChess_setCnt (p : Pos) (a b : Nat) : wfChess (setCnt p a b) = wfChess p := rfl
theorem genMoves_setCnt (p : Pos) (a b : Nat) : genMoves (setCnt p a b) = genMoves p := rfl
theorem isLegal_setCnt (p : Pos) (a b : Nat) : isLegal (setCnt p a b) = isLegal p := rfl
theorem wfShape_setCnt (p : Pos) (a b : Nat) : wfShape (setCnt p a b) = wfShape p := wfShape_congr rfl rfl rfl rfl rfl
theorem legalMaterial_setCnt (p : Pos) (a b : Nat) : LegalMaterial (setCnt p a b) ↔ LegalMaterial p := Iff.rfl

theorem wfState_intro (p : Pos) (h1 : p.side < 2) (h2 : p.castling < 16) (h3 : p.ep ≤ 64) (h4 : p.hmc < 256) (h5 : p.ply < 256)
    (h6 : p.ply % 2 = p.side) : wfState p = true := by
  unfold wfState
  simp only [Bool.and_eq_true, decide_eq_true_eq, beq_iff_eq]
  exact ⟨⟨⟨⟨⟨h1, h2⟩, h3⟩, h4⟩, h5⟩, h6⟩

theorem WF_intro (p : Pos) (h1 : wfShape p = true) (h2 : wfState p = true) (h3 : wfChess p = true) : WF p = true := by
  unfold WF; rw [h1, h2, h3]; rfl

/-- the position with the counters reset to the smallest values of the right parity is a legal position -/
theorem WF_reset (p : Pos) (hw : WF p = true) : WF (setCnt p p.side 0) = true := by
  obtain ⟨hsh, hst, hch⟩ := WF_parts p hw
  obtain ⟨s1, s2, s3, _, _, _⟩ := state_full p hst
  refine WF_intro _ (by rw [wfShape_setCnt]; exact hsh) ?_ (by rw [wfChess_setCnt]; exact hch)
  exact wfState_intro _ s1 s2 s3 (by show 0 < 256; omega) (by show p.side < 256; omega) (by show p.side % 2 = p.side; omega)

/-- C10 `WF_makeMove` without the counter range: legal positions stay legal under every generated move that passes the
legality filter, also when `ply` or `hmc` wrap around; and legal material stays legal -/
theorem step_any (K : Keys) (p : Pos) (hw : WF p = true) (m : Move) (hm : m ∈ genMoves p) (q : Pos)
    (hq : makeMove K p m = some q) (hl : isLegal q = true) : WF q = true ∧ (LegalMaterial p → LegalMaterial q) := by
  obtain ⟨hsh, hst, hch⟩ := WF_parts p hw
  obtain ⟨s1, s2, s3, _, s5, s6⟩ := state_full p hst
  obtain ⟨r, hr⟩ := makeMove_setCnt K p q m hq
  have h0 := hr p.side 0
  have hw0 := WF_reset p hw
  have hr0 : (setCnt p p.side 0).ply < 255 ∧ (setCnt p p.side 0).hmc < 255 := ⟨by show p.side < 255; omega, by show 0 < 255; omega⟩
  have hwq' := WF_succ K _ hw0 hr0 m hm _ h0 hl
  refine ⟨?_, fun hmat => (legalMaterial_setCnt q _ _).1 (material_step_rng K _ hw0 hr0 m hm _ h0 hl hmat)⟩
  obtain ⟨hsh', hst', hch'⟩ := WF_parts _ hwq'
  obtain ⟨t1, t2, t3, _, _, _⟩ := state_full _ hst'
  obtain ⟨c1, c2⟩ := makeMove_counters_lt K p q m hq
  obtain ⟨d1, d2⟩ := makeMove_side_ply hq
  refine WF_intro _ (by rw [← wfShape_setCnt q _ _]; exact hsh') ?_ (by rw [← wfChess_setCnt q _ _]; exact hch')
  refine wfState_intro _ t1 t2 t3 c2 c1 ?_
  rw [d1, d2]
  unfold switchColor
  have : p.side = 0 ∨ p.side = 1 := by omega
  rcases this with e | e <;> rw [e] at s6 ⊢ <;> simp <;> omega

/-- … and under the null move out of check -/
theorem null_any (K : Keys) (p : Pos) (hw : WF p = true) (hc : isInCheck p p.side = false) :
    WF (makeNull K p).1 = true ∧ (LegalMaterial p → LegalMaterial (makeNull K p).1) := by
  obtain ⟨hsh, hst, hch⟩ := WF_parts p hw
  obtain ⟨s1, s2, s3, s4, s5, s6⟩ := state_full p hst
  have cp := chess_parts p hch
  have hbb : (makeNull K p).1.bb = p.bb := by unfold makeNull; dsimp only; split <;> rfl
  have hbd : (makeNull K p).1.board = p.board := by unfold makeNull; dsimp only; split <;> rfl
  have hwh : (makeNull K p).1.white = p.white := by unfold makeNull; dsimp only; split <;> rfl
  have hbl : (makeNull K p).1.black = p.black := by unfold makeNull; dsimp only; split <;> rfl
  have hal : (makeNull K p).1.all = p.all := by unfold makeNull; dsimp only; split <;> rfl
  have hsd : (makeNull K p).1.side = switchColor p.side := by unfold makeNull; dsimp only; split <;> rfl
  have hca : (makeNull K p).1.castling = p.castling := by unfold makeNull; dsimp only; split <;> rfl
  have hhm : (makeNull K p).1.hmc = p.hmc := by unfold makeNull; dsimp only; split <;> rfl
  have hpl : (makeNull K p).1.ply = (p.ply + 1) % 256 := by unfold makeNull; dsimp only; split <;> rfl
  have hep : (makeNull K p).1.ep = 64 := by
    unfold makeNull; dsimp only
    split
    · rfl
    · rename_i h; simpa using h
  have hpc : ∀ c t, (makeNull K p).1.pieces c t = p.pieces c t := fun c t => by unfold Pos.pieces; rw [hbb]
  have hat : ∀ s, (makeNull K p).1.at s = p.at s := fun s => by unfold Pos.at; rw [hbd]
  have hsw : switchColor (switchColor p.side) = p.side := switchColor_twice p.side s1
  refine ⟨WF_intro _ (by rw [wfShape_congr hbb hbd hwh hbl hal]; exact hsh) ?_ ?_, ?_⟩
  · refine wfState_intro _ (by rw [hsd]; exact switchColor_lt' _) (by rw [hca]; exact s2) (by rw [hep]; omega)
      (by rw [hhm]; exact s4) (by rw [hpl]; omega) ?_
    rw [hsd, hpl]
    unfold switchColor
    have : p.side = 0 ∨ p.side = 1 := by omega
    rcases this with e | e <;> rw [e] at s6 ⊢ <;> simp <;> omega
  · have hck : isInCheck (makeNull K p).1 (switchColor (makeNull K p).1.side) = false := by
      rw [hsd, hsw, ← hc]
      unfold isInCheck squareAttackedBy Pos.byColor
      simp only [hpc, hal, hwh, hbl]
    apply wfChess_intro _ (by rw [wfShape_congr hbb hbd hwh hbl hal]; exact hsh)
    · rw [hpc]; exact cp.wk
    · rw [hpc]; exact cp.bk
    · intro j hj; rw [hat] at hj; exact pawnsOK_of_WF p hw j hj
    · intro h; rw [hca] at h; rw [hat, hat]; exact cp.c1 h
    · intro h; rw [hca] at h; rw [hat, hat]; exact cp.c2 h
    · intro h; rw [hca] at h; rw [hat, hat]; exact cp.c4 h
    · intro h; rw [hca] at h; rw [hat, hat]; exact cp.c8 h
    · intro h; exact absurd hep h
    · intro h; exact absurd hep h
    · exact hck
  · intro hmat
    unfold LegalMaterial LegalSide at *
    simp only [hpc]
    exact hmat

end GR

/-- a word that agrees with a generated word up to the score bits is, without its score bits, a generated word -/
theorem GR.gen_of_low (p : Pos) (hw : WF p = true) (m : Move) (h : (m % 65536) ∈ (genMoves p).map (· % 65536)) :
    m % 65536 ∈ genMoves p := by
  obtain ⟨g, hg, he⟩ := List.mem_map.1 h
  have hlt := (genMoves_shape p hw g hg).no_score
  have : g % 65536 = g := Nat.mod_eq_of_lt hlt
  rw [← he, this]; exact hg

/-- every position of `GenReach` is a legal position with legal material (no counter range) -/
theorem genReach_inv (K : Keys) (root : Pos) (hwf : WF root = true) (hmat : LegalMaterial root) :
    ∀ p, GenReach K root p → WF p = true ∧ LegalMaterial p := by
  intro p hp
  induction hp with
  | root => exact ⟨hwf, hmat⟩
  | @move p q m _ hm hq hl ih =>
    have hm' := GR.gen_of_low p ih.1 m hm
    have hq' : makeMove K p (m % 65536) = some q := by
      rw [← hq]; unfold makeMove
      have e1 : Move.src (m % 65536) = Move.src m := by
        unfold Move.src
        rw [show (63 : Nat) = 2 ^ 6 - 1 by decide, Nat.and_two_pow_sub_one_eq_mod, Nat.and_two_pow_sub_one_eq_mod]; omega
      have e2 : Move.tgt (m % 65536) = Move.tgt m := by
        unfold Move.tgt
        rw [show (63 : Nat) = 2 ^ 6 - 1 by decide, Nat.and_two_pow_sub_one_eq_mod, Nat.and_two_pow_sub_one_eq_mod,
          Nat.shiftRight_eq_div_pow, Nat.shiftRight_eq_div_pow]; omega
      have e3 : Move.kind (m % 65536) = Move.kind m := by
        unfold Move.kind
        rw [show (3 : Nat) = 2 ^ 2 - 1 by decide, Nat.and_two_pow_sub_one_eq_mod, Nat.and_two_pow_sub_one_eq_mod,
          Nat.shiftRight_eq_div_pow, Nat.shiftRight_eq_div_pow]; omega
      have e4 : Move.promo (m % 65536) = Move.promo m := by
        unfold Move.promo
        rw [show (3 : Nat) = 2 ^ 2 - 1 by decide, Nat.and_two_pow_sub_one_eq_mod, Nat.and_two_pow_sub_one_eq_mod,
          Nat.shiftRight_eq_div_pow, Nat.shiftRight_eq_div_pow]; omega
      simp only [e1, e2, e3, e4]
    obtain ⟨h1, h2⟩ := GR.step_any K p ih.1 (m % 65536) hm' q hq' hl
    exact ⟨h1, h2 ih.2⟩
  | @null p _ hc ih =>
    obtain ⟨h1, h2⟩ := GR.null_any K p ih.1 hc
    exact ⟨h1, h2 ih.2⟩

end Clemens
