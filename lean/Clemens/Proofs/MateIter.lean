import Clemens.Proofs.MateRoot
/-
Lemma library for C13b (task P19), part 4: the root search, the iteration loop and `search`.
-/
namespace Clemens
namespace P19
open SearchLemmas

/-- hashes of the checkmated children of the root: the "terminal hashes" of the table invariant -/
def MateHash (K : Keys) (root : Pos) (h : BB) : Prop := ∃ q, RootChild K root q ∧ Mated K q ∧ q.hash = h

/-- the positions a search from `root` can visit: closed under the legal moves and under the null move out of check -/
inductive SearchReach (K : Keys) (root : Pos) : Pos → Prop
  | root : SearchReach K root root
  | move {p q : Pos} {m : Move} : SearchReach K root p → makeMove K p m = some q → isLegal q = true → SearchReach K root q
  | null {p : Pos} : SearchReach K root p → isInCheck p p.side = false → SearchReach K root (makeNull K p).1

theorem mateClass_reach (K : Keys) (root : Pos) (H : BB → Prop)
    (heval : ∀ p, SearchReach K root p → ∀ v, evalRaw p = some v → -(INF - 100) < v ∧ v < INF - 100)
    (hcoll : ∀ p, SearchReach K root p → H p.hash → NoLegal K p) : MateClass K (SearchReach K root) H where
  move := fun _ _ _ hp _ hq hl => SearchReach.move hp hq hl
  null := fun _ hp hc => SearchReach.null hp hc
  eval := fun p v hp hv => heval p hp v hv
  coll := hcoll

/-! ### the root search -/

section
variable (K : Keys) (C : Pos → Prop) (root : Pos) (hC : MateClass K C (MateHash K root)) (hp : C root)
include hC hp

theorem posta_searchRoot_inv (I : SState → Prop) (hTI : TblInv K C I) (d : Nat) (a b : Int) (hw : InWin a b) :
    PostA I (fun r : NodeRes => InRange r.1) (searchRoot K root d a b) := by
  unfold searchRoot
  exact posta_seq (posta_modify_tt hTI.stable _ (fun _ => rfl))
    (fun _ => posta_negamax_gen K C I hC.move hC.null hC.eval hTI 300 root hp a b d 0 true 0 hw (by decide))

theorem posti_searchRoot_mate (hlow : ∀ g ∈ genMoves root, g < 65536) (hmate : ∃ m, Mates K root m)
    (d : Nat) (hd1 : 1 ≤ d) (hd2 : d ≤ 254) :
    PostI (TInv (MateHash K root))
      (fun r : NodeRes => r.1 = INF - 1 ∧ ∃ m rest, r.2 = some (m :: rest) ∧ Mates K root (m % 65536))
      (searchRoot K root d (-INF) INF) := by
  unfold searchRoot
  exact posti_seq (posti_modify_tt (tinv_stable _) _ (fun _ => rfl))
    (fun _ => posti_root K C _ hC root hp (fun q hrc hm => ⟨q, hrc, hm, rfl⟩) hlow hmate 299 (by decide) d hd1 hd2 true 0)

/-! ### the iteration loop -/

omit hC hp in
/-- a pv whose first move mates -/
def GoodPv (K : Keys) (root : Pos) (pv : List Move) : Prop := ∃ m rest, pv = m :: rest ∧ Mates K root (m % 65536)

theorem go_mate (I : SState → Prop) (hTI : TblInv K C I) (hIT : ∀ s, I s → TInv (MateHash K root) s)
    (hlow : ∀ g ∈ genMoves root, g < 65536) (hmate : ∃ m, Mates K root m)
    (pvStr : Move → String) (maxD : Nat) (hmax : maxD ≤ 254) (f d : Nat) (a b : Int) (s : SState)
    (hs : I s) (hwin : (a = -INF ∧ b = INF) ∨ (a = 32716 ∧ b = -32720)) (hd : 1 ≤ d) :
    I (searchIterative.go K root pvStr maxD f d a b s).2 ∧
    ((searchIterative.go K root pvStr maxD f d a b s).2.pv = s.pv ∨
      GoodPv K root (searchIterative.go K root pvStr maxD f d a b s).2.pv) ∧
    (a = -INF → b = INF → d ≤ maxD → f ≠ 0 → kind (searchRoot K root d (-INF) INF s).1 = .ok →
      GoodPv K root (searchIterative.go K root pvStr maxD f d a b s).2.pv) := by
  induction f generalizing d a b s with
  | zero => rw [go_zero]; exact ⟨hs, Or.inl rfl, fun _ _ _ h => absurd rfl h⟩
  | succ f ih =>
    have hI := INF_eq
    by_cases hgt : d > maxD
    · rw [go_gt _ _ _ _ _ _ _ _ _ hgt]
      exact ⟨hs, Or.inl rfl, fun _ _ h => by omega⟩
    · have hle : d ≤ maxD := by omega
      have hinw : InWin a b := by
        unfold InWin
        rcases hwin with ⟨rfl, rfl⟩ | ⟨rfl, rfl⟩ <;> omega
      have hA := posta_searchRoot_inv K C root hC hp I hTI d a b hinw s hs
      have hfr := holds_searchRoot K root d a b s
      rcases hr : searchRoot K root d a b s with ⟨r, s'⟩
      rw [hr] at hA hfr
      have hpv' : s'.pv = s.pv := hfr.2.2.1
      have hts' : I s' := hA.1
      cases r with
      | cancelled =>
        rw [go_cancelled _ _ _ _ _ _ _ _ _ hle (by rw [hr]), hr]
        refine ⟨hts', Or.inl hpv', ?_⟩
        intro ha hb _ _ hk
        subst ha; subst hb
        rw [hr] at hk
        cases hk
      | panic =>
        rw [go_panic _ _ _ _ _ _ _ _ _ hle (by rw [hr]), hr]
        refine ⟨hts', Or.inl hpv', ?_⟩
        intro ha hb _ _ hk
        subst ha; subst hb
        rw [hr] at hk
        cases hk
      | ok res =>
        obtain ⟨score, pvl⟩ := res
        rcases hwin with ⟨ha, hb⟩ | ⟨ha, hb⟩
        · subst ha; subst hb
          obtain ⟨_, hsc, m, rest, hpvl, hm⟩ := posti_searchRoot_mate K C root hC hp hlow hmate d hd (by omega) s (score, pvl) s' (hIT s hs) hr
          have hsc : score = INF - 1 := hsc
          have hpvl : pvl = some (m :: rest) := hpvl
          rw [go_adopt _ _ _ _ _ _ _ _ _ _ hle score pvl hr (by omega)]
          have hd' : (d + 1) % 256 = d + 1 := by omega
          rw [hd']
          have hw2 : w16 (score - widenWindow) = 32716 ∧ w16 (score + widenWindow) = -32720 := by
            rw [hsc, widenWindow_eq]; unfold w16; omega
          have hgood : GoodPv K root (pvl.getD []) := by
            rw [hpvl]; exact ⟨m, rest, rfl, hm⟩
          obtain ⟨h1, h2, _⟩ := ih (d + 1) (w16 (score - widenWindow)) (w16 (score + widenWindow))
            { s' with pv := pvl.getD [], log := infoLine d score s'.nodes ((pvl.getD []).map pvStr) :: s'.log }
            (hTI.stable s' _ rfl hts') (Or.inr hw2) (by omega)
          have hg : GoodPv K root (searchIterative.go K root pvStr maxD f (d + 1) (w16 (score - widenWindow)) (w16 (score + widenWindow))
              { s' with pv := pvl.getD [], log := infoLine d score s'.nodes ((pvl.getD []).map pvStr) :: s'.log }).2.pv := by
            rcases h2 with h2 | h2
            · rw [h2]; exact hgood
            · exact h2
          exact ⟨h1, Or.inr hg, fun _ _ _ _ _ => hg⟩
        · subst ha; subst hb
          rw [go_fail_asp _ _ _ _ _ _ _ _ _ _ hle score pvl hr (by omega) (by omega)]
          obtain ⟨h1, h2, _⟩ := ih d (-INF) INF
            { s' with log := s!"info string windows [{(32716 : Int)},{(-32720 : Int)}] too small for value {score}" :: s'.log }
            (hTI.stable s' _ rfl hts') (Or.inl ⟨rfl, rfl⟩) hd
          refine ⟨h1, ?_, fun h => by omega⟩
          rcases h2 with h2 | h2
          · left; rw [h2]; exact hpv'
          · exact Or.inr h2

/-! ### `search` -/

omit hC hp in
theorem goodPv_head {pv : List Move} (h : GoodPv K root pv) : Mates K root (pv.getD 0 0 % 65536) := by
  obtain ⟨m, rest, e, hm⟩ := h
  rw [e]; exact hm

theorem search_mate (I : SState → Prop) (hTI : TblInv K C I) (hIT : ∀ s, I s → TInv (MateHash K root) s)
    (hlow : ∀ g ∈ genMoves root, g < 65536) (hmate : ∃ m, Mates K root m)
    (pvStr : Move → String) (dp : Nat) (hdp : dp ≤ 254) (s s' : SState) (m : Move)
    (hs : I s) (hpv : s.pv = []) (h : search K root pvStr dp s = (.ok m, s')) :
    Mates K root (m % 65536) ∧ GoodPv K root s'.pv ∧ I s' := by
  obtain ⟨s1, h1, hc⟩ := search_cases K root pvStr dp s m s' h
  have hmax : (if dp > 0 then dp else maxDepth) ≤ 254 := by
    split
    · exact hdp
    · decide
  unfold searchIterative at h1
  have hg := go_mate K C root hC hp I hTI hIT hlow hmate pvStr _ hmax 2000 1 (-INF) INF s hs (Or.inl ⟨rfl, rfl⟩) (Nat.le_refl _)
  rw [h1] at hg
  obtain ⟨ht1, hpv1, _⟩ := hg
  rcases hc with ⟨hne, hs', hm⟩ | ⟨h0, h2, hm⟩
  · have hgood : GoodPv K root s1.pv := by
      rcases hpv1 with h | h
      · exfalso
        apply hne
        show s1.pv.getD 0 0 = 0
        rw [h, hpv]; rfl
      · exact h
    refine ⟨by rw [hm]; exact goodPv_head K root hgood, by rw [hs']; exact hgood, ?_⟩
    rw [hs']
    exact hTI.stable s1 _ rfl ht1
  · unfold searchIterative at h2
    have ht1' : I { s1 with mainPolls := s1.polls, cancelAt := none } := hTI.stable s1 _ rfl ht1
    have hg2 := go_mate K C root hC hp I hTI hIT hlow hmate pvStr 1 (by decide) 2000 1 (-INF) INF _ ht1' (Or.inl ⟨rfl, rfl⟩) (Nat.le_refl _)
    rw [h2] at hg2
    obtain ⟨ht2, _, hprog⟩ := hg2
    have hk : kind (searchRoot K root 1 (-INF) INF { s1 with mainPolls := s1.polls, cancelAt := none }).1 = .ok := by
      have hfr := holds_searchRoot K root 1 (-INF) INF { s1 with mainPolls := s1.polls, cancelAt := none }
      rcases hr : searchRoot K root 1 (-INF) INF { s1 with mainPolls := s1.polls, cancelAt := none } with ⟨r, s2⟩
      rw [hr] at hfr
      cases r with
      | ok a => rfl
      | cancelled =>
        exfalso
        obtain ⟨c, hc, _⟩ := hfr.2.2.2.2.2.2.2.2.1 rfl
        cases hc
      | panic =>
        exfalso
        have := go_panic K root pvStr 1 1999 1 (-INF) INF { s1 with mainPolls := s1.polls, cancelAt := none } (Nat.le_refl _) (by rw [hr])
        rw [h2] at this
        cases this
    have hgood := hprog rfl rfl (Nat.le_refl _) (by decide) hk
    exact ⟨by rw [hm]; exact goodPv_head K root hgood, hgood, ht2⟩
end

end P19
end Clemens
