import Clemens.Props.C12b
import Clemens.Model.WF
/-
Lemma library for C12d: symmetry of the step geometry, the spec's ray walk as `Geo.reachAlong`,
what `wfShape` says about single squares, and the attacker set bit by bit.
-/
namespace Clemens

def Dir.opp : Dir → Dir
  | .N => .S | .S => .N | .E => .W | .W => .E | .NE => .SW | .SW => .NE | .NW => .SE | .SE => .NW

theorem step_back (d : Dir) (a b s t u : Nat) (hs : s < 64)
    (h1 : Geo.step d (a + b) s = some t) (h2 : Geo.step d a s = some u) :
    Geo.step d.opp b t = some u := by
  rw [step_eq_some] at *
  cases d <;> simp only [Dir.df, Dir.dr, Geo.onB, Dir.opp] at * <;> omega

theorem step_zero (d : Dir) (s : Nat) (hs : s < 64) : Geo.step d 0 s = some s := by
  rw [step_eq_some]
  cases d <;> simp only [Dir.df, Dir.dr, Geo.onB] <;> omega

/-- Prop-level reading of `Geo.reachAlong` -/
theorem reachAlong_iff (d : Dir) (occ : BB) (s t : Nat) :
    Geo.reachAlong d occ s t = true ↔
      ∃ j, j < 7 ∧ Geo.step d (j + 1) s = some t ∧
        ∀ i, i < j → ∃ u, Geo.step d (i + 1) s = some u ∧ occ.getLsbD u = false := by
  unfold Geo.reachAlong
  simp only [List.any_eq_true, List.mem_range, Bool.and_eq_true, beq_iff_eq, List.all_eq_true]
  constructor
  · rintro ⟨j, hj, h1, h2⟩
    refine ⟨j, hj, h1, fun i hi => ?_⟩
    have := h2 i hi
    cases hu : Geo.step d (i + 1) s with
    | none => rw [hu] at this; cases this
    | some u => rw [hu] at this; exact ⟨u, rfl, by simpa [BB.has] using this⟩
  · rintro ⟨j, hj, h1, h2⟩
    refine ⟨j, hj, h1, fun i hi => ?_⟩
    obtain ⟨u, hu, ho⟩ := h2 i hi
    rw [hu]; simp [BB.has, ho]

theorem reachAlong_opp_imp (d : Dir) (occ : BB) (s t : Nat) (hs : s < 64)
    (h : Geo.reachAlong d occ s t = true) : Geo.reachAlong d.opp occ t s = true := by
  rw [reachAlong_iff] at *
  obtain ⟨j, hj, h1, h2⟩ := h
  refine ⟨j, hj, ?_, fun i hi => ?_⟩
  · have := step_back d 0 (j + 1) s t s hs (by rw [Nat.zero_add]; exact h1) (step_zero d s hs)
    exact this
  · obtain ⟨u, hu, ho⟩ := h2 (j - 1 - i) (by omega)
    refine ⟨u, ?_, ho⟩
    have e : j + 1 = (j - 1 - i + 1) + (i + 1) := by omega
    rw [e] at h1
    exact step_back d _ _ s t u hs h1 hu

theorem opp_opp (d : Dir) : d.opp.opp = d := by cases d <;> rfl

theorem reachAlong_opp (d : Dir) (occ : BB) (s t : Nat) (hs : s < 64) (ht : t < 64) :
    Geo.reachAlong d occ s t = Geo.reachAlong d.opp occ t s := by
  apply Bool.eq_iff_iff.mpr
  constructor
  · exact reachAlong_opp_imp d occ s t hs
  · intro h
    have := reachAlong_opp_imp d.opp occ t s ht h
    rwa [opp_opp] at this

theorem reach_symm_rook' (occ : BB) (s t : Nat) (hs : s < 64) (ht : t < 64) :
    Geo.reach rookDirs occ s t = Geo.reach rookDirs occ t s := by
  simp only [Geo.reach, rookDirs, List.any_cons, List.any_nil, Bool.or_false]
  rw [reachAlong_opp .N occ s t hs ht, reachAlong_opp .S occ s t hs ht,
    reachAlong_opp .E occ s t hs ht, reachAlong_opp .W occ s t hs ht]
  simp only [Dir.opp]
  cases Geo.reachAlong .N occ t s <;> cases Geo.reachAlong .S occ t s <;>
    cases Geo.reachAlong .E occ t s <;> cases Geo.reachAlong .W occ t s <;> rfl

theorem reach_symm_bishop' (occ : BB) (s t : Nat) (hs : s < 64) (ht : t < 64) :
    Geo.reach bishopDirs occ s t = Geo.reach bishopDirs occ t s := by
  simp only [Geo.reach, bishopDirs, List.any_cons, List.any_nil, Bool.or_false]
  rw [reachAlong_opp .NE occ s t hs ht, reachAlong_opp .NW occ s t hs ht,
    reachAlong_opp .SE occ s t hs ht, reachAlong_opp .SW occ s t hs ht]
  simp only [Dir.opp]
  cases Geo.reachAlong .NE occ t s <;> cases Geo.reachAlong .NW occ t s <;>
    cases Geo.reachAlong .SE occ t s <;> cases Geo.reachAlong .SW occ t s <;> rfl


theorem absPos_at_A (p : Pos) (s : Nat) : (absPos p).at s = p.at s := by
  simp [absPos, Fide.Pos.at, Pos.at, vget]

structure ShapeAt (p : Pos) (s : Nat) : Prop where
  valid : p.at s = 0 ∨ validPiece (p.at s) = true
  bits : ∀ c, c < 2 → ∀ t, t < 6 → (p.pieces c t).getLsbD s = (p.at s == newPiece c t)

theorem wfShape_at (p : Pos) (hw : wfShape p = true) (s : Nat) (hs : s < 64) : ShapeAt p s := by
  unfold wfShape at hw
  simp only [Bool.and_eq_true, List.all_eq_true, List.mem_range, Bool.or_eq_true, beq_iff_eq] at hw
  obtain ⟨⟨⟨h1, _⟩, _⟩, _⟩ := hw
  obtain ⟨hv, hb⟩ := h1 s hs
  refine ⟨hv, fun c hc t ht => ?_⟩
  have := hb c hc t ht
  simp only [BB.has] at this
  rw [this]

theorem wfShape_bit (p : Pos) (hw : wfShape p = true) (c t a : Nat) (hc : c < 2) (ht : t < 6) (ha : a < 64) :
    (p.pieces c t).getLsbD a = (p.at a == newPiece c t) := (wfShape_at p hw a ha).bits c hc t ht

theorem wfShape_white (p : Pos) (hw : wfShape p = true) :
    p.white = p.pieces 0 0 ||| p.pieces 0 1 ||| p.pieces 0 2 ||| p.pieces 0 3 ||| p.pieces 0 4 ||| p.pieces 0 5 := by
  unfold wfShape at hw
  simp only [Bool.and_eq_true, beq_iff_eq] at hw
  rw [hw.1.1.2]
  simp [List.range_succ]

theorem wfShape_black (p : Pos) (hw : wfShape p = true) :
    p.black = p.pieces 1 0 ||| p.pieces 1 1 ||| p.pieces 1 2 ||| p.pieces 1 3 ||| p.pieces 1 4 ||| p.pieces 1 5 := by
  unfold wfShape at hw
  simp only [Bool.and_eq_true, beq_iff_eq] at hw
  rw [hw.1.2]
  simp [List.range_succ]

theorem wfShape_all (p : Pos) (hw : wfShape p = true) : p.all = p.white ||| p.black := by
  unfold wfShape at hw
  simp only [Bool.and_eq_true, beq_iff_eq] at hw
  exact hw.2

theorem valid_codes : ∀ pc < 16, validPiece pc = true → pc ∈ [1,2,3,4,5,6,9,10,11,12,13,14] := by decide

theorem validPiece_lt_A (pc : Nat) (h : validPiece pc = true) : pc < 16 := by
  unfold validPiece pieceColor at h
  simp only [Bool.and_eq_true, decide_eq_true_eq] at h
  have := h.1
  rw [Nat.shiftRight_eq_div_pow] at this
  omega

theorem wfShape_code (p : Pos) (hw : wfShape p = true) (a : Nat) (ha : a < 64) :
    p.at a ∈ [0,1,2,3,4,5,6,9,10,11,12,13,14] := by
  rcases (wfShape_at p hw a ha).valid with h | h
  · rw [h]; decide
  · have := valid_codes _ (validPiece_lt_A _ h) h
    exact List.mem_cons_of_mem _ this


/-- `Geo.reachAlong` body starting at step number `k` with `n` candidate lengths -/
def reachFrom (d : Dir) (occ : BB) (s t : Nat) (k n : Nat) : Bool :=
  (List.range n).any fun j =>
    Geo.step d (k + j) s == some t &&
      (List.range j).all fun i => match Geo.step d (k + i) s with
        | some u => !occ.has u
        | none => false

theorem reachFrom_succ (d : Dir) (occ : BB) (s t k n : Nat) :
    reachFrom d occ s t k (n + 1) =
      (Geo.step d k s == some t ||
        ((match Geo.step d k s with | some u => !occ.has u | none => false) && reachFrom d occ s t (k + 1) n)) := by
  unfold reachFrom
  rw [List.range_succ_eq_map, List.any_cons, List.any_map]
  simp only [List.range_zero, List.all_nil, Bool.and_true, Nat.add_zero]
  congr 1
  rw [← any_const_and]
  apply any_congr'
  intro j _
  simp only [Function.comp_def]
  rw [List.range_succ_eq_map, List.all_cons, List.all_map]
  simp only [Nat.add_zero, Function.comp_def]
  rw [show k + (j + 1) = k + 1 + j by omega, Bool.and_left_comm]
  congr 2
  apply all_congr'
  intro i _
  rw [show k + (i + 1) = k + 1 + i by omega]

theorem rayFrom_go_contains (q : Fide.Pos) (occ : BB) (d : Dir) (s t : Nat)
    (hocc : ∀ u, u < 64 → (q.at u != 0) = occ.getLsbD u) :
    ∀ fuel k, (Fide.rayFrom.go q d s fuel k).contains t = reachFrom d occ s t k fuel := by
  intro fuel
  induction fuel with
  | zero => intro k; simp [Fide.rayFrom.go, reachFrom]
  | succ n ih =>
    intro k
    rw [reachFrom_succ, Fide.rayFrom.go]
    cases h : Geo.step d k s with
    | none => simp
    | some u =>
      have hu := step_lt d k s u h
      simp only [BB.has]
      rw [hocc u hu, Option.some_beq_some, BEq.comm (a := u)]
      cases ho : occ.getLsbD u with
      | true => simp only [if_true, List.contains_cons, List.contains_nil, Bool.or_false, Bool.not_true, Bool.false_and]
      | false =>
        simp only [Bool.false_eq_true, if_false, List.contains_cons, ih (k + 1), Bool.not_false, Bool.true_and]

theorem reachAlong_eq_from (d : Dir) (occ : BB) (s t : Nat) : Geo.reachAlong d occ s t = reachFrom d occ s t 1 7 := by
  unfold Geo.reachAlong reachFrom
  apply any_congr'
  intro j _
  simp only [Nat.add_comm 1]
  rfl


def pieceCodes : List Nat := [0,1,2,3,4,5,6,9,10,11,12,13,14]

theorem wfShape_code' (p : Pos) (hw : wfShape p = true) (a : Nat) (ha : a < 64) : p.at a ∈ pieceCodes :=
  wfShape_code p hw a ha

/-! ### symmetric leaper steps (kernel evaluation, 64×64 each) -/
theorem knightStep_symm_all : ∀ s < 64, ∀ t < 64, Geo.knightStep s t = Geo.knightStep t s := by decide +kernel
theorem kingStep_symm_all : ∀ s < 64, ∀ t < 64, Geo.kingStep s t = Geo.kingStep t s := by decide +kernel
theorem pawnAttack_symm_all : ∀ s < 64, ∀ t < 64,
    Geo.pawnAttack 0 s t = Geo.pawnAttack 1 t s ∧ Geo.pawnAttack 1 s t = Geo.pawnAttack 0 t s := by decide +kernel

/-! ### occupancy and colour sets -/
theorem white_codes : ∀ pc ∈ pieceCodes,
    (pc == newPiece 0 0 || pc == newPiece 0 1 || pc == newPiece 0 2 || pc == newPiece 0 3 || pc == newPiece 0 4 || pc == newPiece 0 5)
      = (pc != 0 && Fide.colorOf pc == 0) := by decide
theorem black_codes : ∀ pc ∈ pieceCodes,
    (pc == newPiece 1 0 || pc == newPiece 1 1 || pc == newPiece 1 2 || pc == newPiece 1 3 || pc == newPiece 1 4 || pc == newPiece 1 5)
      = (pc != 0 && Fide.colorOf pc == 1) := by decide
theorem color_codes : ∀ pc ∈ pieceCodes,
    ((pc != 0 && Fide.colorOf pc == 0) || (pc != 0 && Fide.colorOf pc == 1)) = (pc != 0) := by decide

theorem white_bit (p : Pos) (hw : wfShape p = true) (a : Nat) (ha : a < 64) :
    p.white.getLsbD a = (p.at a != 0 && Fide.colorOf (p.at a) == 0) := by
  rw [wfShape_white p hw]
  simp only [BitVec.getLsbD_or]
  rw [wfShape_bit p hw 0 0 a (by decide) (by decide) ha, wfShape_bit p hw 0 1 a (by decide) (by decide) ha, wfShape_bit p hw 0 2 a (by decide) (by decide) ha, wfShape_bit p hw 0 3 a (by decide) (by decide) ha, wfShape_bit p hw 0 4 a (by decide) (by decide) ha, wfShape_bit p hw 0 5 a (by decide) (by decide) ha]
  exact white_codes _ (wfShape_code' p hw a ha)

theorem black_bit (p : Pos) (hw : wfShape p = true) (a : Nat) (ha : a < 64) :
    p.black.getLsbD a = (p.at a != 0 && Fide.colorOf (p.at a) == 1) := by
  rw [wfShape_black p hw]
  simp only [BitVec.getLsbD_or]
  rw [wfShape_bit p hw 1 0 a (by decide) (by decide) ha, wfShape_bit p hw 1 1 a (by decide) (by decide) ha, wfShape_bit p hw 1 2 a (by decide) (by decide) ha, wfShape_bit p hw 1 3 a (by decide) (by decide) ha, wfShape_bit p hw 1 4 a (by decide) (by decide) ha, wfShape_bit p hw 1 5 a (by decide) (by decide) ha]
  exact black_codes _ (wfShape_code' p hw a ha)

theorem all_bit (p : Pos) (hw : wfShape p = true) (a : Nat) (ha : a < 64) :
    p.all.getLsbD a = (p.at a != 0) := by
  rw [wfShape_all p hw, BitVec.getLsbD_or, white_bit p hw a ha, black_bit p hw a ha]
  exact color_codes _ (wfShape_code' p hw a ha)

theorem byColor_bit (p : Pos) (hw : wfShape p = true) (c a : Nat) (hc : c < 2) (ha : a < 64) :
    (p.byColor c).getLsbD a = Fide.isOwn (absPos p) c a := by
  unfold Fide.isOwn Pos.byColor
  rw [absPos_at_A]
  have hc' : c = 0 ∨ c = 1 := by omega
  rcases hc' with rfl | rfl
  · rw [if_pos rfl, white_bit p hw a ha]
  · rw [if_neg (by decide), black_bit p hw a ha]

/-! ### the spec's ray walk -/
theorem rayFrom_contains (p : Pos) (hw : wfShape p = true) (d : Dir) (a t : Nat) :
    (Fide.rayFrom (absPos p) d a).contains t = Geo.reachAlong d p.all a t := by
  unfold Fide.rayFrom
  rw [reachAlong_eq_from]
  apply rayFrom_go_contains
  intro u hu
  rw [absPos_at_A, all_bit p hw u hu]

theorem slider_any (p : Pos) (hw : wfShape p = true) (dirs : List Dir) (a t : Nat) :
    (dirs.any fun d => (Fide.rayFrom (absPos p) d a).contains t) = Geo.reach dirs p.all a t := by
  unfold Geo.reach
  apply any_congr'
  intro d _
  exact rayFrom_contains p hw d a t


/-- the attacker set bit by bit, in terms of the piece code on `a` and the (file, rank) geometry seen from `sq` -/
theorem squareAttackedBy_bit (p : Pos) (hw : wfShape p = true) (sq a : Nat) (hsq : sq < 64) (ha : a < 64) :
    (squareAttackedBy p sq).getLsbD a =
      (Geo.knightStep sq a && (p.at a == 2 || p.at a == 10) ||
       Geo.kingStep sq a && (p.at a == 6 || p.at a == 14) ||
       Geo.reach bishopDirs p.all sq a && (p.at a == 3 || p.at a == 11 || p.at a == 5 || p.at a == 13) ||
       Geo.reach rookDirs p.all sq a && (p.at a == 4 || p.at a == 12 || p.at a == 5 || p.at a == 13) ||
       Geo.pawnAttack 0 sq a && p.at a == 9 ||
       Geo.pawnAttack 1 sq a && p.at a == 1) := by
  unfold squareAttackedBy
  simp only [BitVec.getLsbD_or, BitVec.getLsbD_and]
  rw [knightAttacks_exact sq a hsq ha, kingAttacks_exact sq a hsq ha, bishopAttacks_exact sq a hsq ha,
    rookAttacks_exact sq a hsq ha, pawnAttacks_exact 0 sq a (by decide) hsq ha, pawnAttacks_exact 1 sq a (by decide) hsq ha,
    wfShape_bit p hw 0 KNIGHT a (by decide) (by decide) ha, wfShape_bit p hw 1 KNIGHT a (by decide) (by decide) ha,
    wfShape_bit p hw 0 KING a (by decide) (by decide) ha, wfShape_bit p hw 1 KING a (by decide) (by decide) ha,
    wfShape_bit p hw 0 BISHOP a (by decide) (by decide) ha, wfShape_bit p hw 1 BISHOP a (by decide) (by decide) ha,
    wfShape_bit p hw 0 QUEEN a (by decide) (by decide) ha, wfShape_bit p hw 1 QUEEN a (by decide) (by decide) ha,
    wfShape_bit p hw 0 ROOK a (by decide) (by decide) ha, wfShape_bit p hw 1 ROOK a (by decide) (by decide) ha,
    wfShape_bit p hw 1 PAWN a (by decide) (by decide) ha, wfShape_bit p hw 0 PAWN a (by decide) (by decide) ha]
  rfl


theorem reach_all (occ : BB) (s t : Nat) : Geo.reach Dir.all occ s t = (Geo.reach rookDirs occ s t || Geo.reach bishopDirs occ s t) := by
  rw [dir_all_eq]; unfold Geo.reach; rw [List.any_append]

theorem squareAttackedBy_exact' (p : Pos) (hw : wfShape p = true) (sq a : Nat) (hsq : sq < 64) (ha : a < 64) :
    (squareAttackedBy p sq).getLsbD a = Fide.pieceAttacks (absPos p) a sq := by
  rw [squareAttackedBy_bit p hw sq a hsq ha]
  unfold Fide.pieceAttacks
  simp only [absPos_at_A, slider_any p hw]
  have hk := knightStep_symm_all sq hsq a ha
  have hg := kingStep_symm_all sq hsq a ha
  obtain ⟨hp0, hp1⟩ := pawnAttack_symm_all sq hsq a ha
  have hb := reach_symm_bishop' p.all sq a hsq ha
  have hr := reach_symm_rook' p.all sq a hsq ha
  rw [hk, hg, hp0, hp1, hb, hr]
  have hcode := wfShape_code' p hw a ha
  generalize p.at a = pc at *
  simp only [pieceCodes, List.mem_cons, List.not_mem_nil, or_false] at hcode
  rcases hcode with rfl | rfl | rfl | rfl | rfl | rfl | rfl | rfl | rfl | rfl | rfl | rfl | rfl <;>
    simp [Fide.colorOf, Fide.kindOf, Fide.dirsOfKind, reach_all, Bool.or_comm]


theorem bne_zero_eq_any (b : BB) : (b != 0#64) = (List.range 64).any fun i => b.getLsbD i := by
  apply Bool.eq_iff_iff.mpr
  simp only [bne_iff_ne, ne_eq, List.any_eq_true, List.mem_range]
  constructor
  · intro h
    apply Classical.byContradiction
    intro hn
    apply h
    apply BitVec.eq_of_getLsbD_eq
    intro i hi
    rw [BitVec.getLsbD_zero]
    cases hb : b.getLsbD i with
    | false => rfl
    | true => exact absurd ⟨i, hi, hb⟩ hn
  · rintro ⟨i, _, hb⟩ h0
    rw [h0] at hb; simp at hb

theorem isEmpty_filter_not {α} (l : List α) (f : α → Bool) : (!(l.filter f).isEmpty) = l.any f := by
  induction l with
  | nil => rfl
  | cons x l ih =>
    rw [List.filter_cons, List.any_cons]
    cases f x <;> simp [ih]


theorem attackedBy_exact' (p : Pos) (hw : wfShape p = true) (c sq : Nat) (hc : c < 2) (hsq : sq < 64) :
    ((squareAttackedBy p sq &&& p.byColor c) != 0#64) = Fide.attacked (absPos p) c sq := by
  unfold Fide.attacked Fide.attackers
  rw [isEmpty_filter_not, bne_zero_eq_any]
  apply any_congr'
  intro a ha
  rw [List.mem_range] at ha
  rw [BitVec.getLsbD_and, squareAttackedBy_exact' p hw sq a hsq ha, byColor_bit p hw c a hc ha, Bool.and_comm]

/-! ### the king square -/
theorem switchColor_eq_other (c : Nat) (hc : c < 2) : switchColor c = Fide.other c := by
  have hc' : c = 0 ∨ c = 1 := by omega
  rcases hc' with rfl | rfl <;> rfl

theorem switchColor_lt (c : Nat) : switchColor c < 2 := by
  unfold switchColor; split <;> decide

theorem squares_king (p : Pos) (hw : wfShape p = true) (c : Nat) (hc : c < 2) :
    squares (p.pieces c KING) = (List.range 64).filter fun s => (absPos p).at s == Fide.mkPiece c 5 := by
  unfold squares
  apply List.filter_congr
  intro s hs
  rw [List.mem_range] at hs
  rw [wfShape_bit p hw c KING s hc (by decide) hs, absPos_at_A]
  have : newPiece c KING = Fide.mkPiece c 5 := by unfold newPiece Fide.mkPiece KING; omega
  rw [this]

theorem kingSquare_of_popcount (p : Pos) (hw : wfShape p = true) (c : Nat) (hc : c < 2)
    (hk : popcount (p.pieces c KING) = 1) :
    lsb (p.pieces c KING) < 64 ∧ Fide.kingSquare (absPos p) c = some (lsb (p.pieces c KING)) := by
  unfold popcount at hk
  unfold lsb Fide.kingSquare
  rw [← List.head?_filter, ← squares_king p hw c hc]
  match h : squares (p.pieces c KING), hk with
  | [k], _ =>
    refine ⟨?_, rfl⟩
    have : k ∈ squares (p.pieces c KING) := by rw [h]; simp
    unfold squares at this
    rw [List.mem_filter, List.mem_range] at this
    exact this.1


end Clemens
