import Clemens.Proofs.MagicCore
/-
C12b kernel facts, rook, rank 7 (squares 48..55): for each square the Carry-Rippler enumeration of the
mask's subsets is the recursive enumeration, and the magic indices of all subsets are pairwise distinct and in range.
-/
namespace Clemens

theorem rook_check_rank6 : (List.range' (8 * 6) 8).all (fun s => magicCheck (rookMagic s)) = true := by decide +kernel

end Clemens
