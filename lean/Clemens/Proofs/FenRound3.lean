import Clemens.Proofs.FenRound2
/-
Lemmas for C11 (FEN round trip), part 3: the six fields of the printed text, the counters, and the assembly:
parsing the printed FEN of a position with consistent board views and in-range state gives the position back.
-/
namespace Clemens.P17
open Clemens

theorem toU8_nat (n : Nat) (h : n < 256) : toU8 (n : Int) = n := by
  unfold toU8; omega

theorem ply_formula (ply side : Nat) (h : ply < 256) (hs : ply % 2 = side) :
    (if side = 0 then (toU8 (2 * ((ply / 2 + 1 : Nat) : Int) - 1) + 255) % 256 else toU8 (2 * ((ply / 2 + 1 : Nat) : Int) - 1)) = ply := by
  unfold toU8
  split <;> omega

theorem natToDec_no32 (n : Nat) : 32 ∉ natToDec n := by
  obtain ⟨_, h2, _⟩ := digitBytes_facts n
  rw [natToDec_eq]
  intro h
  have := List.all_eq_true.1 h2 32 h
  simp at this

theorem board_of_at (q p : Pos) (h : ∀ s, s < 64 → q.at s = p.at s) : q.board = p.board := by
  apply Vector.ext
  intro i hi
  have := h i hi
  simpa [Pos.at, vget, hi] using this

theorem bb_of_agrees (q p : Pos) (hq : boardAgrees q) (hp : boardAgrees p) (h : ∀ s, s < 64 → q.at s = p.at s) :
    q.bb = p.bb := by
  apply Vector.ext
  intro i hi
  have hc : i / 6 < 2 := by omega
  have ht : i % 6 < 6 := by omega
  have e : i / 6 * 6 + i % 6 = i := by omega
  have e1 : q.pieces (i / 6) (i % 6) = q.bb[i] := by simp [Pos.pieces, vget, e, hi]
  have e2 : p.pieces (i / 6) (i % 6) = p.bb[i] := by simp [Pos.pieces, vget, e, hi]
  rw [← e1, ← e2]
  apply BitVec.eq_of_getLsbD_eq
  intro j hj
  rw [Bool.eq_iff_iff, (hq j hj).2 _ _ hc ht, (hp j hj).2 _ _ hc ht, h j hj]

theorem fenSetSide_w (q : Pos) : fenSetSide [119] q = .ok { q with side := 0 } := by simp [fenSetSide]
theorem fenSetSide_b (q : Pos) : fenSetSide [98] q = .ok { q with side := 1 } := by simp [fenSetSide]


/-- the text `ToFen` prints, given the eight rank texts -/
def fenText (p : Pos) (ranks : List Bytes) : Bytes :=
  (ranks.intersperse [47]).flatten ++ (if p.side = 0 then [32, 119, 32] else [32, 98, 32]) ++ castlingText p.castling ++ [32] ++
    epText p.ep ++ [32] ++ natToDec p.hmc ++ [32] ++ natToDec (p.ply / 2 + 1)

theorem toFen_eq (p : Pos) (ranks : List Bytes) (h : [7, 6, 5, 4, 3, 2, 1, 0].mapM (fenRank p) = some ranks) :
    toFen p = some (fenText p ranks) := by
  unfold toFen
  rw [h]
  rfl

/-- the six fields of the printed FEN -/
theorem toFen_fields (p : Pos) (ranks : List Bytes) (hpl : 32 ∉ (ranks.intersperse [47]).flatten)
    (hc : p.castling < 16) (he : p.ep ≤ 64) :
    splitBytes 32 (fenText p ranks) =
      [(ranks.intersperse [47]).flatten, (if p.side = 0 then [119] else [98]), castlingText p.castling, epText p.ep,
       natToDec p.hmc, natToDec (p.ply / 2 + 1)] := by
  have e : fenText p ranks = (ranks.intersperse [47]).flatten ++ 32 :: ((if p.side = 0 then [119] else [98]) ++ 32 ::
      (castlingText p.castling ++ 32 :: (epText p.ep ++ 32 :: (natToDec p.hmc ++ 32 :: natToDec (p.ply / 2 + 1))))) := by
    unfold fenText
    split <;> simp
  rw [e, splitBytes_append _ _ hpl, splitBytes_append _ _ (by split <;> simp),
    splitBytes_append _ _ (castlingText_facts _ hc).1, splitBytes_append _ _ (epText_facts _ he).1,
    splitBytes_append _ _ (natToDec_no32 _), splitBytes_nosep _ (natToDec_no32 _)]

theorem parseFen_tokens (K : Keys) (b t0 t1 t2 t3 t4 t5 : Bytes) (hs : splitBytes 32 b = [t0, t1, t2, t3, t4, t5])
    (q1 q2 q3 q4 : Pos) (h fm : Int)
    (h0 : fenSetPieces K t0 Pos.empty = .ok q1) (h1 : fenSetSide t1 q1 = .ok q2) (h2 : fenSetCastling t2 q2 = .ok q3)
    (h3 : fenSetEnPassant t3 q3 = .ok q4) (h4 : atoi t4 = some h) (h5 : atoi t5 = some fm) :
    parseFen K b = .ok (helperBitboards
      (let p := { q4 with hmc := toU8 h }
       let p := { p with ply := if p.side = 0 then (toU8 (2 * fm - 1) + 255) % 256 else toU8 (2 * fm - 1) }
       { p with hash := fullHash K p })) := by
  unfold parseFen
  rw [hs]
  simp only [bind, h0, Res.bind, h1, h2, h3, h4, h5]
  rfl

theorem helper_restore (p : Pos) (hw : wfShape p = true) :
    helperBitboards { p with all := 0#64, white := 0#64, black := 0#64 } = p := by
  obtain ⟨_, h1, h2, h3⟩ := (wfShape_iff_core p).1 hw
  cases p
  simp only [helperBitboards, Pos.pieces] at *
  simp only [Pos.mk.injEq, true_and, and_true]
  subst h1; subst h2
  exact ⟨h3.symm, rfl, rfl⟩


theorem wfState_parts (p : Pos) (hw : wfState p = true) :
    p.side < 2 ∧ p.castling < 16 ∧ p.ep ≤ 64 ∧ p.hmc < 256 ∧ p.ply < 256 ∧ p.ply % 2 = p.side := by
  unfold wfState at hw
  simp only [Bool.and_eq_true, decide_eq_true_eq, beq_iff_eq] at hw
  obtain ⟨⟨⟨⟨⟨a, b⟩, c⟩, d⟩, e⟩, f⟩ := hw
  exact ⟨a, b, c, d, e, f⟩

theorem WF_parts (p : Pos) (hw : WF p = true) : wfShape p = true ∧ wfState p = true := by
  unfold WF at hw
  simp only [Bool.and_eq_true] at hw
  exact ⟨hw.1.1, hw.1.2⟩

/-- the round trip, from exactly what it needs: consistent board views (`wfShape`), the ranges of the scalar fields
(`wfState`) and the from-scratch hash -/
theorem fen_roundtrip_core (K : Keys) (p : Pos) (hshape : wfShape p = true) (hstate : wfState p = true)
    (hh : p.hash = fullHash K p) :
    ∃ ranks, [7, 6, 5, 4, 3, 2, 1, 0].mapM (fenRank p) = some ranks ∧ toFen p = some (fenText p ranks) ∧
      parseFen K (fenText p ranks) = .ok p := by
  obtain ⟨hside, hcast, hep, hhmc, hply, hpar⟩ := wfState_parts p hstate
  have hag := agrees_of_wfShape_core p hshape
  obtain ⟨ranks, hm, hasc, q, hq, hqa, hqat, f1, f2, f3, f4, f5, f6, f7, f8⟩ :=
    placement_parse K p (fun s hs => (hag s hs).1)
  refine ⟨ranks, hm, toFen_eq p ranks hm, ?_⟩
  have hsplit := toFen_fields p ranks (fun h => (hasc 32 h).2 rfl) hcast hep
  have hsd : fenSetSide (if p.side = 0 then [119] else [98]) q = .ok { q with side := p.side } := by
    split
    · rename_i h; rw [h]; exact fenSetSide_w q
    · have h : p.side = 1 := by omega
      rw [h]; exact fenSetSide_b q
  rw [parseFen_tokens K _ _ _ _ _ _ _ hsplit q _ _ _ _ _ hq hsd (fenSetCastling_print _ hcast _)
    (fenSetEnPassant_print _ hep _) (atoi_natToDec _ (by omega)) (atoi_natToDec _ (by omega))]
  congr 1
  have hbb := bb_of_agrees q p hqa hag hqat
  have hbd := board_of_at q p hqat
  simp only [toU8_nat _ hhmc, ply_formula p.ply p.side hply hpar]
  conv => rhs; rw [← helper_restore p hshape]
  congr 1
  cases p
  cases q
  simp only at *
  subst hbb; subst hbd; subst f1; subst f2; subst f3
  simp only [Pos.mk.injEq, true_and]
  rw [hh]
  rfl

/-- `WF` does not look at the hash word -/
theorem WF_hash (p : Pos) (h : BB) : WF { p with hash := h } = WF p := rfl

/-- installing the from-scratch hash makes the hash hypothesis true -/
theorem hash_ok_of (K : Keys) (p : Pos) :
    ({ p with hash := fullHash K p } : Pos).hash = fullHash K { p with hash := fullHash K p } := rfl

end Clemens.P17
