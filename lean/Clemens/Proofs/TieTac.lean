import Lean
/-
`tie_tac`: a tactic for the T1 tie theorems ("regenerated definition = hand-written model definition", Props/C12c, C10c, C14b, C19b)
that survives value-preserving rewrites of the Go text.  The tie proofs have the shape

    first | tie_rfl | tie_budget n (<the direct proof that works for the current Go text>) | tie_tac

so that the fast path is unchanged on the current code and `tie_tac` is only run when the generated text has changed.

Pipeline of `tie_tac`
  0. `intros`, `funext`;
  1. `tie_finite`: if every variable is a `Nat` with a hypothesis `c < n` (product of the bounds ≤ 65536): `decide +kernel`;
  2. `tie_cases`: case split on every hypothesis `c < n` (`c : Nat` a variable, `n ≤ 16` a numeral) -- the colour split `c = 0 ∨ c = 1`;
  3. `tie_unfold`: unfold every definition of the project (declared in a module `Clemens.*`) occurring in the goal, to a fixed point,
     then beta/zeta (`let` variables disappear);
  4. `tie_pow2`: `x % 2^k ↦ x &&& (2^k-1)`, `x / 2^k ↦ x >>> k`, `x * 2^k ↦ x <<< k` for `BitVec` literals (simprocs with proofs);
     `tie_ite`: `if`s with closed conditions are evaluated; remaining `if`s are `split`;
  5. `BitVec w` goals (`tie_blast`): extensionality, one goal per concrete bit position `0 … w-1` (so masks evaluate), `simp only` with the
     `getLsbD` lemmas of `<<<`, `>>>`, `&&&`, `|||`, `^^^`, `~~~`, `setWidth`, the remaining Boolean identity by `grind`;
  6. `Nat`/`Int` goals `(…).toNat = …` (`tie_nat`): rewrite with the hypotheses, push `toNat`, `omega` (with the bounds `a &&& n ≤ n`), then
     extensionality on `Nat.testBit`: positions `0 … 63` concretely, positions `≥ 64` symbolically;
  7. `Bool` goals with signed/unsigned comparisons against literals (`tie_cmp`): `simp` to `Int`/`Nat` comparisons, `grind`.

Covered rewrites: commuted / re-associated `&`, `|`, `^`; distribution, absorption, De Morgan, `&^` vs `& ^`; `^ allOnes` vs `^x`; constant
shifts composed or split (`(b<<8)<<8 = b<<16`), shifts distributed over `|`/`&`; masks before/after shifts; `% 2^k`, `/ 2^k`, `* 2^k` against
`&`, `>>`, `<<`; intermediate variables; helper functions inlined or introduced (anything in `Clemens.*` is unfolded); a switch as nested ifs,
reordered branches, the unreachable panic branch present or not; for arguments bounded by hypotheses (< 256) any rewrite at all (evaluation).
Not covered: `+`, `-`, non-power-of-two `*`, `/`, `%` inside a `BitVec` equality over unbounded variables (no carry reasoning; `toNat` goals
with sums go through `omega` only if the bit operations occur as syntactically equal atoms on both sides), shifts by variable amounts, loops /
recursion, widths above 256 for `BitVec` goals and atoms wider than 64 bits for `toNat` goals.
Time: every bit position is simplified separately, ~0.1–0.5 s per theorem for small terms, 5–15 s for the 64-bit fills (`passed`, `isolanis`).
-/
open Lean Elab Tactic Meta

namespace Clemens.TieTac

/-! ### lemmas used by the simprocs -/

theorem umod_lit {w : Nat} (x : BitVec w) (n k : Nat) (hn : n = 2 ^ k) (hk : k < w) :
    x % BitVec.ofNat w n = x &&& BitVec.ofNat w (n - 1) := by
  subst hn
  apply BitVec.eq_of_toNat_eq
  have h1 : 2 ^ k < 2 ^ w := Nat.pow_lt_pow_right (by omega) hk
  have h0 : 0 < 2 ^ k := Nat.pow_pos (by omega)
  have h2 : 2 ^ k - 1 < 2 ^ w := by omega
  rw [BitVec.toNat_umod, BitVec.toNat_and, BitVec.toNat_ofNat, BitVec.toNat_ofNat, Nat.mod_eq_of_lt h1, Nat.mod_eq_of_lt h2,
    Nat.and_two_pow_sub_one_eq_mod]

theorem udiv_lit {w : Nat} (x : BitVec w) (n k : Nat) (hn : n = 2 ^ k) (hk : k < w) :
    x / BitVec.ofNat w n = x >>> k := by
  subst hn
  apply BitVec.eq_of_toNat_eq
  have h1 : 2 ^ k < 2 ^ w := Nat.pow_lt_pow_right (by omega) hk
  rw [BitVec.toNat_udiv, BitVec.toNat_ushiftRight, BitVec.toNat_ofNat, Nat.mod_eq_of_lt h1, Nat.shiftRight_eq_div_pow]

theorem mul_lit {w : Nat} (x : BitVec w) (n k : Nat) (hn : n = 2 ^ k) (hk : k < w) :
    x * BitVec.ofNat w n = x <<< k := by
  subst hn
  apply BitVec.eq_of_toNat_eq
  have h1 : 2 ^ k < 2 ^ w := Nat.pow_lt_pow_right (by omega) hk
  rw [BitVec.toNat_mul, BitVec.toNat_shiftLeft, BitVec.toNat_ofNat, Nat.mod_eq_of_lt h1, Nat.shiftLeft_eq]

theorem lit_mul {w : Nat} (x : BitVec w) (n k : Nat) (hn : n = 2 ^ k) (hk : k < w) :
    BitVec.ofNat w n * x = x <<< k := by
  rw [BitVec.mul_comm]; exact mul_lit x n k hn hk

/-- `some k` iff `n = 2^k` -/
def log2Exact? (n : Nat) : Option Nat :=
  if n = 0 then none else
  let k := Nat.log2 n
  if 2 ^ k = n then some k else none

/-- builds `lemma x n k (rfl : n = 2^k) (decide : k < w)` for a literal `c = n#w` that is a power of two below `2^w` -/
def pow2Proof? (lemmaName : Name) (x c : Expr) : MetaM (Option (Expr × Nat × Nat × Nat)) := do
  let some ⟨w, v⟩ ← getBitVecValue? c | return none
  let n := v.toNat
  let some k := log2Exact? n | return none
  unless k < w do return none
  let nE := mkNatLit n
  let kE := mkNatLit k
  let wE := mkNatLit w
  -- n = 2^k by evaluation
  let hn ← mkEqRefl nE
  let hnTy ← mkEq nE (← mkAppM ``HPow.hPow #[mkNatLit 2, kE])
  let hn ← mkExpectedTypeHint hn hnTy
  let hk ← mkDecideProof (← mkLt kE wE)
  let prf := mkAppN (mkConst lemmaName) #[wE, x, nE, kE, hn, hk]
  return some (prf, w, n, k)

simproc ↓ tieUmodPow2 ((_ : BitVec _) % (_ : BitVec _)) := fun e => do
  let_expr HMod.hMod _ _ _ _ x c := e | return .continue
  let some (prf, w, n, _) ← pow2Proof? ``umod_lit x c | return .continue
  let rhs ← mkAppM ``HAnd.hAnd #[x, toExpr (BitVec.ofNat w (n - 1))]
  return .visit { expr := rhs, proof? := some prf }

simproc ↓ tieUdivPow2 ((_ : BitVec _) / (_ : BitVec _)) := fun e => do
  let_expr HDiv.hDiv _ _ _ _ x c := e | return .continue
  let some (prf, _, _, k) ← pow2Proof? ``udiv_lit x c | return .continue
  let rhs ← mkAppM ``HShiftRight.hShiftRight #[x, mkNatLit k]
  return .visit { expr := rhs, proof? := some prf }

simproc ↓ tieMulPow2 ((_ : BitVec _) * (_ : BitVec _)) := fun e => do
  let_expr HMul.hMul _ _ _ _ a b := e | return .continue
  if let some (prf, _, _, k) ← pow2Proof? ``mul_lit a b then
    let rhs ← mkAppM ``HShiftLeft.hShiftLeft #[a, mkNatLit k]
    return .visit { expr := rhs, proof? := some prf }
  if let some (prf, _, _, k) ← pow2Proof? ``lit_mul b a then
    let rhs ← mkAppM ``HShiftLeft.hShiftLeft #[b, mkNatLit k]
    return .visit { expr := rhs, proof? := some prf }
  return .continue

/-! ### the same for `Nat` (used only by the bit-level fallback for `toNat` goals) -/

theorem nat_mod_lit (x n k : Nat) (hn : n = 2 ^ k) : x % n = x &&& (n - 1) := by
  subst hn; exact (Nat.and_two_pow_sub_one_eq_mod x k).symm

theorem nat_div_lit (x n k : Nat) (hn : n = 2 ^ k) : x / n = x >>> k := by
  subst hn; exact (Nat.shiftRight_eq_div_pow x k).symm

theorem nat_mul_lit (x n k : Nat) (hn : n = 2 ^ k) : x * n = x <<< k := by
  subst hn; exact (Nat.shiftLeft_eq x k).symm

theorem nat_lit_mul (x n k : Nat) (hn : n = 2 ^ k) : n * x = x <<< k := by
  rw [Nat.mul_comm]; exact nat_mul_lit x n k hn

def natPow2Proof? (lemmaName : Name) (x c : Expr) : MetaM (Option (Expr × Nat × Nat)) := do
  let some n := c.nat? | return none
  let some k := log2Exact? n | return none
  let nE := mkNatLit n
  let kE := mkNatLit k
  let hn ← mkExpectedTypeHint (← mkEqRefl nE) (← mkEq nE (← mkAppM ``HPow.hPow #[mkNatLit 2, kE]))
  return some (mkAppN (mkConst lemmaName) #[x, nE, kE, hn], n, k)

simproc ↓ tieNatModPow2 ((_ : Nat) % (_ : Nat)) := fun e => do
  let_expr HMod.hMod _ _ _ _ x c := e | return .continue
  let some (prf, n, _) ← natPow2Proof? ``nat_mod_lit x c | return .continue
  let rhs ← mkAppM ``HAnd.hAnd #[x, mkNatLit (n - 1)]
  return .visit { expr := rhs, proof? := some prf }

simproc ↓ tieNatDivPow2 ((_ : Nat) / (_ : Nat)) := fun e => do
  let_expr HDiv.hDiv _ _ _ _ x c := e | return .continue
  let some (prf, _, k) ← natPow2Proof? ``nat_div_lit x c | return .continue
  let rhs ← mkAppM ``HShiftRight.hShiftRight #[x, mkNatLit k]
  return .visit { expr := rhs, proof? := some prf }

simproc ↓ tieNatMulPow2 ((_ : Nat) * (_ : Nat)) := fun e => do
  let_expr HMul.hMul _ _ _ _ a b := e | return .continue
  if (a.nat?).isSome && (b.nat?).isSome then return .continue
  if let some (prf, _, k) ← natPow2Proof? ``nat_mul_lit a b then
    let rhs ← mkAppM ``HShiftLeft.hShiftLeft #[a, mkNatLit k]
    return .visit { expr := rhs, proof? := some prf }
  if let some (prf, _, k) ← natPow2Proof? ``nat_lit_mul b a then
    let rhs ← mkAppM ``HShiftLeft.hShiftLeft #[b, mkNatLit k]
    return .visit { expr := rhs, proof? := some prf }
  return .continue

/-- `Nat.testBit n i` for numerals `n`, `i` -/
dsimproc tieTestBitLit (Nat.testBit _ _) := fun e => do
  let_expr Nat.testBit n i := e | return .continue
  let some n := n.nat? | return .continue
  let some i := i.nat? | return .continue
  return .done (toExpr (n.testBit i))

theorem nat_eq_of_bits64 (a b : Nat) (lo : ∀ i, i < 64 → a.testBit i = b.testBit i)
    (hi : ∀ i, 64 ≤ i → a.testBit i = b.testBit i) : a = b := by
  apply Nat.eq_of_testBit_eq
  intro i
  by_cases h : i < 64
  · exact lo i h
  · exact hi i (by omega)

/-- a numeral below `2^64` has no bits at positions `≥ 64` -/
theorem testBit_lit_high (n i : Nat) (hn : n < 2 ^ 64) (hi : 64 ≤ i) : n.testBit i = false := by
  apply Nat.testBit_lt_two_pow
  exact Nat.lt_of_lt_of_le hn (Nat.pow_le_pow_right (by omega) hi)

theorem getLsbD_high {w : Nat} (x : BitVec w) (i : Nat) (hw : w ≤ 64) (hi : 64 ≤ i) : x.getLsbD i = false :=
  BitVec.getLsbD_of_ge x i (by omega)

theorem getLsbD_high_add {w : Nat} (x : BitVec w) (i k : Nat) (hw : w ≤ 64) (hi : 64 ≤ i) : x.getLsbD (k + i) = false :=
  BitVec.getLsbD_of_ge x _ (by omega)

/-! ### running a tactic with its own heartbeat budget -/

/-- `tie_budget n tac`: run `tac` with a fresh budget of `n` heartbeats (in the unit of `maxHeartbeats`); a timeout or recursion-depth
error becomes an ordinary tactic failure, so that `first | tie_budget n rfl | …` falls through to the next alternative -/
elab "tie_budget " n:num tac:tacticSeq : tactic => do
  let s ← saveState
  let r ← tryCatchRuntimeEx
    (do withTheReader Core.Context (fun c => { c with maxHeartbeats := n.getNat * 1000 }) <|
          withCurrHeartbeats <| evalTactic tac
        pure true)
    (fun _ => pure false)
  unless r do
    s.restore
    throwError "tie_budget: tactic failed or ran out of budget"

/-! ### splitting a bounded quantifier into its instances -/

/-- `split_lt`: a goal `∀ i, i < n → P i` with `n` a numeral becomes the goals `P 0 … P (n-1)` -/
elab "split_lt" : tactic => do
  let g ← getMainGoal
  let t ← instantiateMVars (← g.getType)
  let .forallE _ _ body _ := t | throwError "split_lt: not a forall"
  let .forallE _ lt _ _ := body | throwError "split_lt: not a bounded forall"
  let some (_, _, _, n) := lt.app4? ``LT.lt | throwError "split_lt: no bound"
  let n ← instantiateMVars n
  let some n ← (match n.nat? with | some k => pure (some k) | none => (Meta.evalNat n).run) |
    throwError "split_lt: bound is not a numeral"
  if n > 256 then throwError "split_lt: bound too large"
  let mut goals : Array MVarId := #[]
  let mut cur := g
  for k in [0:n] do
    let j := n - 1 - k
    let gs ← evalTacticAt (← `(tactic| refine (Nat.forall_lt_succ_right (n := $(quote j))).mpr ⟨?_, ?_⟩)) cur
    match gs with
    | [rest, pk] => cur := rest; goals := goals.push pk
    | _ => throwError "split_lt: unexpected goals"
  let gs ← evalTacticAt (← `(tactic| exact fun _ h => absurd h (Nat.not_lt_zero _))) cur
  replaceMainGoal (goals.toList.reverse ++ gs)

/-- case split on every hypothesis `h : c < n` where `c : Nat` is a local variable and `n ≤ 16` a numeral -/
elab "tie_cases" : tactic => withMainContext do
  let mut todo : Array (FVarId × FVarId) := #[]
  for d in ← getLCtx do
    if d.isImplementationDetail then continue
    let t ← instantiateMVars d.type
    let some (ty, _, a, n) := t.app4? ``LT.lt | continue
    unless ty.isConstOf ``Nat do continue
    let .fvar c := a | continue
    let some n := n.nat? | continue
    if n ≤ 16 && !(todo.any (·.1 == c)) then todo := todo.push (c, d.fvarId)
  for (c, h) in todo do
    let gs ← getGoals
    let mut out : List MVarId := []
    for g in gs do
      let r ← observing? do
        let (_, g') ← g.revert #[c, h]
        let gs' ← evalTacticAt (← `(tactic| (split_lt <;> intros))) g'
        pure gs'
      match r with
      | some gs' => out := out ++ gs'
      | none => out := out ++ [g]
    setGoals out

/-! ### unfolding every project definition in the goal -/

def isProjectDef (env : Environment) (c : Name) : Bool :=
  match env.find? c with
  | some (.defnInfo _) =>
    (match env.getModuleIdxFor? c with
     | some idx => (env.header.moduleNames[idx.toNat]!).getRoot == `Clemens
     | none => true) -- declared in the current file
    && !(env.isProjectionFn c) && !(isInstanceCore env c) && !(isMatcherCore env c) && !c.isInternalDetail
  | _ => false

/-- unfold all `Clemens.*` definitions occurring in the goal, repeatedly (at most 40 rounds) -/
elab "tie_unfold" : tactic => do
  for _ in [0:40] do
    let g ← getMainGoal
    let t ← instantiateMVars (← g.getType)
    let env ← getEnv
    let cs := (t.getUsedConstants).filter (isProjectDef env)
    if cs.isEmpty then break
    let mut g := g
    let mut progress := false
    for c in cs do
      let r ← observing? (Meta.unfoldTarget g c)
      match r with
      | some g' => if g' != g then progress := true; g := g'
      | none => pure ()
    replaceMainGoal [g]
    unless progress do break
  -- beta / zeta / projections of constructors
  evalTactic (← `(tactic| try dsimp only))

/-- adds `a &&& n ≤ n` (resp. `n &&& a ≤ n`) to the context for every `Nat` subterm `a &&& n` of the goal with `n` a numeral: `omega` treats
`&&&` as an atom and needs the bound -/
elab "tie_and_bounds" : tactic => withMainContext do
  let g ← getMainGoal
  let t ← instantiateMVars (← g.getType)
  -- collect all `@HAnd.hAnd Nat Nat Nat _ a b` with a numeral on one side
  let ref ← IO.mkRef (#[] : Array Expr)
  t.forEach' fun e => do
    if e.isAppOfArity ``HAnd.hAnd 6 && (e.getArg! 0).isConstOf ``Nat && !e.hasLooseBVars then
      let a := e.getArg! 4
      let b := e.getArg! 5
      if (b.nat?).isSome then ref.modify (·.push (mkApp2 (mkConst ``Nat.and_le_right) a b))
      else if (a.nat?).isSome then ref.modify (·.push (mkApp2 (mkConst ``Nat.and_le_left) a b))
    return true
  let mut g := g
  for prf in ← ref.get do
    let (_, g') ← (← g.assert `hAnd (← inferType prf) prf).intro1
    g := g'
  replaceMainGoal [g]

/-- exhaustive evaluation: revert every bounded `Nat` variable (`h : c < n`, `n` a numeral, product of the bounds ≤ 65536) and `decide +kernel` -/
elab "tie_finite" : tactic => withMainContext do
  let mut vars : Array FVarId := #[]
  let mut seen : Array FVarId := #[]
  let mut size := 1
  for d in ← getLCtx do
    if d.isImplementationDetail then continue
    let t ← instantiateMVars d.type
    let some (ty, _, a, n) := t.app4? ``LT.lt | continue
    unless ty.isConstOf ``Nat do continue
    let .fvar c := a | continue
    let some n := n.nat? | continue
    if seen.contains c then continue
    seen := seen.push c
    size := size * n
    vars := vars.push c |>.push d.fvarId
  if vars.isEmpty then throwError "tie_finite: no bounded variable"
  if size > 65536 then throwError "tie_finite: domain too large"
  let g ← getMainGoal
  let (_, g') ← g.revert vars
  replaceMainGoal [g']
  evalTactic (← `(tactic| decide +kernel))

end Clemens.TieTac

open Clemens.TieTac in
/-- normalise `% 2^k`, `/ 2^k`, `* 2^k` on `BitVec` literals -/
macro "tie_pow2" : tactic =>
  `(tactic| try simp only [tieUmodPow2, tieUdivPow2, tieMulPow2])

/-- evaluate `if`s whose condition is closed (after the colour split) -/
macro "tie_ite" : tactic =>
  `(tactic| try simp (config := { decide := true }) only [↓reduceIte, if_true, if_false, ite_true, ite_false, Bool.false_eq_true])

/-- unfold + normalise; leaves the goal for a hand proof -/
macro "tie_norm" : tactic => `(tactic| (tie_unfold; tie_pow2; tie_ite))

/-- `rfl` with a small budget of its own: a failing `rfl` on `BitVec` terms can otherwise run into the heartbeat limit, which `first` does not catch -/
macro "tie_rfl" : tactic => `(tactic| tie_budget 20000 rfl)

/-- closes a Boolean goal produced by bit extensionality -/
macro "tie_bool" : tactic =>
  `(tactic| first
    | with_reducible rfl
    | grind)

/-- one bit position of a `BitVec` equality: a lean `simp only` set first (fast on large terms), the default simp set as a second try -/
macro "tie_bit" : tactic =>
  `(tactic| first
    | with_reducible rfl
    | ((simp only [BitVec.getLsbD_shiftLeft, BitVec.getLsbD_ushiftRight, BitVec.getLsbD_and, BitVec.getLsbD_or,
          BitVec.getLsbD_xor, BitVec.getLsbD_not, BitVec.getLsbD_setWidth, BitVec.getLsbD_of_ge, BitVec.reduceGetLsb,
          Nat.reduceAdd, Nat.reduceSub, Nat.reduceLT, Nat.reduceLeDiff, Nat.reduceGT, decide_true, decide_false,
          Bool.true_and, Bool.and_true, Bool.false_and, Bool.and_false, Bool.true_or, Bool.or_true, Bool.false_or, Bool.or_false,
          Bool.not_true, Bool.not_false, Bool.not_not, Bool.xor_false, Bool.false_xor, Bool.xor_true, Bool.true_xor,
          Bool.and_self, Bool.or_self, ge_iff_le, gt_iff_lt])
       first | done | tie_bool)
    | ((simp [BitVec.getLsbD_shiftLeft, BitVec.getLsbD_ushiftRight, BitVec.getLsbD_and, BitVec.getLsbD_or,
          BitVec.getLsbD_xor, BitVec.getLsbD_not, BitVec.getLsbD_setWidth])
       first | done | tie_bool))

/-- a `BitVec w` equality by extensionality over the `w` concrete bit positions -/
macro "tie_blast" : tactic =>
  `(tactic| (apply BitVec.eq_of_getLsbD_eq; split_lt <;> tie_bit))

/-- push `toNat` through the `BitVec` operations -/
macro "tie_toNat" : tactic =>
  `(tactic| try simp only [BitVec.toNat_and, BitVec.toNat_or, BitVec.toNat_xor, BitVec.toNat_ushiftRight, BitVec.toNat_shiftLeft,
      BitVec.toNat_setWidth, BitVec.toNat_ofNat, BitVec.toNat_add, BitVec.toNat_sub, BitVec.toNat_mul, BitVec.toNat_umod, BitVec.toNat_udiv,
      Int.natCast_inj, Nat.reducePow, Nat.reduceMod, Nat.reduceSub])

open Clemens.TieTac in
/-- one bit position `< 64` of a `Nat` equality (two stages: `Nat.testBit_zero` of the default simp set loops with `Nat.testBit_and`) -/
macro "tie_nbit" : tactic =>
  `(tactic| first
    | with_reducible rfl
    | ((try simp only [tieTestBitLit, Nat.testBit_and, Nat.testBit_or, Nat.testBit_xor, Nat.testBit_shiftRight, Nat.testBit_shiftLeft,
          BitVec.testBit_toNat])
       first
       | with_reducible rfl
       | (simp [BitVec.getLsbD_shiftLeft, BitVec.getLsbD_ushiftRight, BitVec.getLsbD_and, BitVec.getLsbD_or,
            BitVec.getLsbD_xor, BitVec.getLsbD_not, BitVec.getLsbD_setWidth]; done)
       | (simp [BitVec.getLsbD_shiftLeft, BitVec.getLsbD_ushiftRight, BitVec.getLsbD_and, BitVec.getLsbD_or,
            BitVec.getLsbD_xor, BitVec.getLsbD_not, BitVec.getLsbD_setWidth]; tie_bool)))

open Clemens.TieTac in
/-- `Nat` equality by bit extensionality: positions `0 … 63` one by one, positions `≥ 64` symbolically (all atoms must be `toNat`s of
`BitVec w`, `w ≤ 64`, or numerals `< 2^64`) -/
macro "tie_natbits" : tactic =>
  `(tactic| (
    try simp only [tieNatModPow2, tieNatDivPow2, tieNatMulPow2]
    first
    | done
    | (refine nat_eq_of_bits64 _ _ ?_ ?_
       · split_lt <;> tie_nbit
       · intro i hi
         simp (disch := first | omega | decide) [Nat.testBit_and, Nat.testBit_or, Nat.testBit_xor, Nat.testBit_shiftRight,
           Nat.testBit_shiftLeft, BitVec.testBit_toNat, getLsbD_high, getLsbD_high_add, testBit_lit_high])))

/-- goals `(…).toNat = …` / `… = (… : Int)`: rewrite with the hypotheses, push `toNat`, then `rfl`, `omega`, bit extensionality -/
macro "tie_nat" : tactic =>
  `(tactic| (
    try simp only [*]
    tie_toNat
    first
    | done
    | with_reducible rfl
    | tie_budget 200000 (tie_and_bounds; omega)
    | tie_natbits))

/-- `Bool` goals built from signed / unsigned comparisons with literals (`IsCheckmateValue`): to `Int`/`Nat` comparisons, then `grind` -/
macro "tie_cmp" : tactic =>
  `(tactic| (
    try simp [BitVec.slt, BitVec.sle, BitVec.ult, BitVec.ule] at *
    first
    | done
    | grind))

/-- the fallback of the tie theorems, see the header of this file -/
macro "tie_tac" : tactic =>
  `(tactic| (
    try intros
    repeat' (apply funext; intro _)
    first
    | tie_budget 400000 tie_finite
    | (tie_cases
       all_goals tie_norm
       all_goals (repeat' split)
       all_goals (first | with_reducible rfl | tie_blast | tie_nat | tie_cmp))))
