import Clemens.Proofs.MateInv
/-
Lemma library for C13b (task P19), part 2: mate-distance bounds that survive every content of the transposition table.

For a node at ply ≥ 1 (window in `InWin`, table in `TInv`):
 * `Lo`: if `alpha = -INF` then the value is `≥ beta` or `≥ -INF + 2` — unless the node is at ply 1 and checkmated;
 * `Up`: if `beta = INF` then the value is `≤ alpha` or `≤ INF - 2`.
The two statements feed each other through the negamax recursion (the first child of an `alpha = -INF` node is searched with
`beta = INF`; every child of a `beta = INF` node that counts is searched with `alpha = -INF`).  What makes them robust against
arbitrary table contents is `Get`'s ply adjustment: a stored score beyond `±(INF - 100)` is moved towards 0 by `ply ≥ 1`.
-/
namespace Clemens
namespace P19
open SearchLemmas

def Lo (K : Keys) (p : Pos) (ply : Nat) (a b v : Int) : Prop :=
  a = -INF → (ply = 1 ∧ Mated K p) ∨ (b ≤ v ∨ -INF + 2 ≤ v)

def Up (a b v : Int) : Prop := b = INF → (v ≤ a ∨ v ≤ INF - 2)

/-- what a used table entry can return at ply ≥ 1 -/
theorem ttGet_use_cases (t : TT) (h : BB) (alpha beta : Int) (depth ply : Nat) (ht : TTSane t) (hp1 : 1 ≤ ply)
    (hp2 : ply ≤ 32767) (hu : (ttGet t h alpha beta depth ply).2.1 = true) :
    ((ttGet t h alpha beta depth ply).1 = alpha ∧ -32766 ≤ alpha) ∨
    ((ttGet t h alpha beta depth ply).1 = beta ∧ beta ≤ 32766) ∨
    (-32766 ≤ (ttGet t h alpha beta depth ply).1 ∧ (ttGet t h alpha beta depth ply).1 ≤ 32766) := by
  unfold ttGet at hu ⊢
  split at hu
  · cases hu
  · rename_i te hf
    have hte : InRange te.score := ht _ te (List.mem_of_find?_eq_some hf)
    dsimp only at hu ⊢
    split at hu
    · cases hu
    · rename_i hd
      rw [if_neg hd]
      have hadj : -32766 ≤ (if te.score > ttGet.INF' - 100 then te.score - ↑ply else if te.score < -ttGet.INF' + 100 then te.score + ↑ply else te.score) ∧
          (if te.score > ttGet.INF' - 100 then te.score - ↑ply else if te.score < -ttGet.INF' + 100 then te.score + ↑ply else te.score) ≤ 32766 := by
        unfold InRange at hte
        rw [INF_eq] at hte
        unfold ttGet.INF'
        split
        · omega
        · split <;> omega
      generalize (if te.score > ttGet.INF' - 100 then te.score - ↑ply else if te.score < -ttGet.INF' + 100 then te.score + ↑ply else te.score) = adj at *
      split at hu
      · rename_i hn
        rw [if_pos hn]
        split at hu
        · rename_i hle
          rw [if_pos hle]
          left; exact ⟨rfl, by omega⟩
        · cases hu
      · rename_i hn1
        rw [if_neg hn1]
        split at hu
        · rename_i hn
          rw [if_pos hn]
          split at hu
          · rename_i hge
            rw [if_pos hge]
            right; left; exact ⟨rfl, by omega⟩
          · cases hu
        · rename_i hn2
          rw [if_neg hn2]
          split at hu
          · rename_i hn
            rw [if_pos hn]
            right; right; exact hadj
          · cases hu

/-! ### the move loop -/

/-- the loop only counts `legalMoves` up, and leaves it unchanged only if no move of the list was legal -/
theorem post_nmLoop_count (K : Keys) (recur : NegaFn) (p : Pos) (beta : Int) (depth ply : Nat) (prev : Move) (fp : Bool)
    (l : List Move) (st : LoopSt) :
    Post (fun st' : LoopSt => st.legalMoves ≤ st'.legalMoves ∧
      (st'.legalMoves = st.legalMoves → ∀ m ∈ l, ∀ q, makeMove K p m = some q → isLegal q = false))
      (nmLoop K recur p beta depth ply prev fp l st) := by
  induction l generalizing st with
  | nil => unfold nmLoop; exact post_pure ⟨Nat.le_refl _, fun _ m hm => by cases hm⟩
  | cons m rest ih =>
    unfold nmLoop
    split
    · exact post_panic
    · rename_i q hq
      split
      · rename_i hleg
        have hleg : isLegal q = false := by simpa using hleg
        refine post_mono (ih st) ?_
        intro st' h
        refine ⟨h.1, fun he m' hm' q' hq' => ?_⟩
        rcases List.mem_cons.1 hm' with rfl | hm'
        · rw [hq] at hq'; cases hq'; exact hleg
        · exact h.2 he m' hm' q' hq'
      · extract_lets st1 alpha hk jp
        have hl1 : st1.legalMoves = st.legalMoves + 1 := rfl
        have hfin : ∀ st2 : LoopSt, st2.legalMoves = st.legalMoves + 1 →
            Post (fun st' : LoopSt => st.legalMoves ≤ st'.legalMoves ∧
              (st'.legalMoves = st.legalMoves → ∀ m' ∈ m :: rest, ∀ q, makeMove K p m' = some q → isLegal q = false))
              (nmLoop K recur p beta depth ply prev fp rest st2) := by
          intro st2 h2
          refine post_mono (ih st2) ?_
          intro st' h
          exact ⟨by omega, fun he => by omega⟩
        split
        · exact hfin st1 hl1
        · have hjp : ∀ x : Int × Option (List Move), Post (fun st' : LoopSt => st.legalMoves ≤ st'.legalMoves ∧
              (st'.legalMoves = st.legalMoves → ∀ m' ∈ m :: rest, ∀ q, makeMove K p m' = some q → isLegal q = false)) (jp x) := by
            intro x
            obtain ⟨score, childPv⟩ := x
            unfold jp
            dsimp -zeta only
            extract_lets st2 jp2 st3
            have h2l : st2.legalMoves = st.legalMoves + 1 := by
              by_cases hbs : score > st1.bestScore
              · have e2 : st2 = { st1 with bestMove := m, bestScore := score } := if_pos hbs
                rw [e2]
              · have e2 : st2 = st1 := if_neg hbs
                rw [e2]
            have h3l : st3.legalMoves = st.legalMoves + 1 := by
              by_cases ha : score > alpha
              · have e3 : st3 = { st2 with nodeType := 0, alpha := score, pvl := some (st2.bestMove :: childPv.getD []) } := if_pos ha
                rw [e3]; exact h2l
              · have e3 : st3 = st2 := if_neg ha
                rw [e3]; exact h2l
            have hcut : st.legalMoves ≤ ({ st2 with nodeType := 2, cutoff := true } : LoopSt).legalMoves ∧
                (({ st2 with nodeType := 2, cutoff := true } : LoopSt).legalMoves = st.legalMoves →
                  ∀ m' ∈ m :: rest, ∀ q, makeMove K p m' = some q → isLegal q = false) := by
              show st.legalMoves ≤ st2.legalMoves ∧ (st2.legalMoves = st.legalMoves → _)
              exact ⟨by omega, fun he => by omega⟩
            split
            · split
              · exact post_bind (fun _ => post_pure hcut)
              · exact post_pure hcut
            · exact hfin st3 h3l
          clear_value jp
          split
          · exact post_bind (fun x => hjp _)
          · refine post_bind ?_
            intro x
            obtain ⟨sc, cpv0⟩ := x
            dsimp only
            split
            · exact post_bind (fun x => hjp _)
            · exact hjp _

/-- loop invariant: window and best score in range; for a node entered with `alpha = -INF`: nothing legal seen yet (and alpha
untouched), or the best score is already `≥ beta` or `≥ -INF + 2`; for a node with `beta = INF`: alpha and the best score are
`≤` the entry alpha or `≤ INF - 2` -/
structure LJ (a beta : Int) (st : LoopSt) : Prop where
  win : InWin st.alpha beta
  best : InRange st.bestScore
  lo : a = -INF → (st.legalMoves = 0 ∧ st.alpha = -INF) ∨ (st.legalMoves ≠ 0 ∧ (beta ≤ st.bestScore ∨ -INF + 2 ≤ st.bestScore))
  up : beta = INF → (st.alpha ≤ a ∨ st.alpha ≤ INF - 2) ∧ (st.bestScore ≤ a ∨ st.bestScore ≤ INF - 2)

theorem lj_step (a beta : Int) (st st3 : LoopSt) (score : Int) (hst : LJ a beta st) (hsr : InRange score)
    (h3a : st3.alpha = if score > st.alpha then score else st.alpha)
    (h3b : st3.bestScore = if score > st.bestScore then score else st.bestScore)
    (h3l : st3.legalMoves = st.legalMoves + 1) (hnb : ¬ score ≥ beta)
    (flo : a = -INF → st.legalMoves = 0 → beta ≤ score ∨ -INF + 2 ≤ score)
    (fup : beta = INF → score ≤ st.alpha ∨ score ≤ INF - 2) : LJ a beta st3 := by
  obtain ⟨hw, hb, hlo, hup⟩ := hst
  unfold InWin at hw
  unfold InRange at hb hsr
  have hI := INF_eq
  refine ⟨?_, ?_, ?_, ?_⟩
  · unfold InWin
    rw [h3a]
    split <;> omega
  · unfold InRange
    rw [h3b]
    split <;> omega
  · intro ha
    right
    rw [h3l, h3b]
    refine ⟨by omega, ?_⟩
    have := hlo ha
    have := flo ha
    split <;> omega
  · intro hbeta
    have := hup hbeta
    have := fup hbeta
    rw [h3a, h3b]
    constructor
    · split <;> omega
    · split <;> omega

theorem lj_cut (a beta : Int) (st st3 : LoopSt) (score : Int) (hst : LJ a beta st) (hsr : InRange score)
    (h3a : st3.alpha = st.alpha)
    (h3b : st3.bestScore = if score > st.bestScore then score else st.bestScore)
    (h3l : st3.legalMoves = st.legalMoves + 1) (hnb : score ≥ beta)
    (flo : a = -INF → st.legalMoves = 0 → beta ≤ score ∨ -INF + 2 ≤ score)
    (fup : beta = INF → score ≤ st.alpha ∨ score ≤ INF - 2) : LJ a beta st3 := by
  obtain ⟨hw, hb, hlo, hup⟩ := hst
  unfold InWin at hw
  unfold InRange at hb hsr
  have hI := INF_eq
  refine ⟨?_, ?_, ?_, ?_⟩
  · unfold InWin
    rw [h3a]
    omega
  · unfold InRange
    rw [h3b]
    split <;> omega
  · intro ha
    right
    rw [h3l, h3b]
    refine ⟨by omega, ?_⟩
    have := hlo ha
    have := flo ha
    split <;> omega
  · intro hbeta
    have := hup hbeta
    have := fup hbeta
    omega

section
variable {I : SState → Prop} (hI : ∀ s s', s'.tt = s.tt → I s → I s')
include hI

theorem posti_nmLoop_bd (K : Keys) (C : Pos → Prop) (hmove : ∀ p m q, C p → GenMv p m → makeMove K p m = some q → isLegal q = true → C q)
    (recur : NegaFn) (p : Pos) (hp : C p) (a beta : Int) (depth ply : Nat) (hply : 1 ≤ ply) (prev : Move) (fp : Bool)
    (hfp : a = -INF → fp = false)
    (hrec : ∀ q a' b' d cn pm, C q → InWin a' b' →
      PostI I (fun r : NodeRes => InRange r.1 ∧ Lo K q (ply + 1) a' b' r.1 ∧ Up a' b' r.1) (recur q a' b' d (ply + 1) cn pm))
    (l : List Move) (hl : ∀ m ∈ l, GenMv p m) (st : LoopSt) (hst : LJ a beta st) :
    PostI I (LJ a beta) (nmLoop K recur p beta depth ply prev fp l st) := by
  induction l generalizing st with
  | nil => unfold nmLoop; exact posti_pure hst
  | cons m rest ih =>
    replace ih := ih (fun m' hm' => hl m' (List.mem_cons_of_mem _ hm'))
    have hgm : GenMv p m := hl m List.mem_cons_self
    unfold nmLoop
    split
    · exact posti_panic
    · rename_i q hq
      split
      · exact ih st hst
      · rename_i hleg
        have hleg : isLegal q = true := by simpa using hleg
        have hcq : C q := hmove p m q hp hgm hq hleg
        extract_lets st1 alpha hk jp
        have hwin := hst.win
        have hrw := inwin_range hwin
        have hI' := INF_eq
        split
        · -- futility-pruned: only possible when a ≠ -INF
          rename_i hpr
          apply ih st1
          refine ⟨hst.win, hst.best, ?_, hst.up⟩
          intro ha
          rw [hfp ha] at hpr
          simp at hpr
        · have hjp : ∀ x : Int × Option (List Move), InRange x.1 →
              (a = -INF → st.legalMoves = 0 → beta ≤ x.1 ∨ -INF + 2 ≤ x.1) →
              (beta = INF → x.1 ≤ st.alpha ∨ x.1 ≤ INF - 2) → PostI I (LJ a beta) (jp x) := by
            intro x hx flo fup
            obtain ⟨score, childPv⟩ := x
            unfold jp
            dsimp -zeta only
            extract_lets st2 jp2 st3
            have hx' : InRange score := hx
            have h2b : st2.bestScore = if score > st.bestScore then score else st.bestScore := by
              by_cases hbs : score > st1.bestScore
              · have e2 : st2 = { st1 with bestMove := m, bestScore := score } := if_pos hbs
                rw [e2]; exact (if_pos hbs).symm
              · have e2 : st2 = st1 := if_neg hbs
                rw [e2]; exact (if_neg hbs).symm
            have h2a : st2.alpha = st.alpha := by
              by_cases hbs : score > st1.bestScore
              · have e2 : st2 = { st1 with bestMove := m, bestScore := score } := if_pos hbs
                rw [e2]
              · have e2 : st2 = st1 := if_neg hbs
                rw [e2]
            have h2l : st2.legalMoves = st.legalMoves + 1 := by
              by_cases hbs : score > st1.bestScore
              · have e2 : st2 = { st1 with bestMove := m, bestScore := score } := if_pos hbs
                rw [e2]
              · have e2 : st2 = st1 := if_neg hbs
                rw [e2]
            split
            · rename_i hge
              have hcut : LJ a beta ({ st2 with nodeType := 2, cutoff := true } : LoopSt) :=
                lj_cut a beta st _ score hst hx' h2a h2b h2l hge flo fup
              split
              · exact posti_seq (posti_modify_tt hI _ (fun _ => rfl)) (fun _ => posti_pure hcut)
              · exact posti_pure hcut
            · rename_i hnb
              apply ih st3
              have h3 : st3.alpha = (if score > st.alpha then score else st.alpha) ∧
                  st3.bestScore = st2.bestScore ∧ st3.legalMoves = st2.legalMoves := by
                by_cases ha : score > alpha
                · have e3 : st3 = { st2 with nodeType := 0, alpha := score, pvl := some (st2.bestMove :: childPv.getD []) } := if_pos ha
                  rw [e3]; exact ⟨(if_pos ha).symm, rfl, rfl⟩
                · have e3 : st3 = st2 := if_neg ha
                  rw [e3]; exact ⟨by rw [h2a]; exact (if_neg ha).symm, rfl, rfl⟩
              exact lj_step a beta st st3 score hst hx' h3.1 (by rw [h3.2.1, h2b]) (by rw [h3.2.2, h2l]) hnb flo fup
          clear_value jp
          -- facts about a full-window search of the child: window (-beta, -alpha)
          have hfull : ∀ x : NodeRes, InRange x.1 ∧ Lo K q (ply + 1) (w16 (-beta)) (w16 (-alpha)) x.1 ∧
              Up (w16 (-beta)) (w16 (-alpha)) x.1 → PostI I (LJ a beta) (jp (w16 (-x.1), x.2)) := by
            intro x hx
            obtain ⟨sc, cpv⟩ := x
            obtain ⟨hr, hlo, hup⟩ := hx
            have hr' : InRange sc := hr
            have e1 : w16 (-sc) = -sc := w16_neg_eq hr'
            have e2 : w16 (-beta) = -beta := w16_neg_eq hrw.2
            have e3 : w16 (-alpha) = -st.alpha := w16_neg_eq hrw.1
            unfold Lo at hlo
            unfold Up at hup
            rw [e2, e3] at hlo hup
            apply hjp
            · exact inrange_neg hr'
            · intro ha h0
              have hal : st.alpha = -INF := by
                rcases hst.lo ha with h | h
                · exact h.2
                · exact absurd h0 h.1
              have := hup (by rw [hal]; omega)
              show beta ≤ w16 (-sc) ∨ -INF + 2 ≤ w16 (-sc)
              rw [e1]
              dsimp only at this
              omega
            · intro hb
              have := hlo (by rw [hb])
              show w16 (-sc) ≤ st.alpha ∨ w16 (-sc) ≤ INF - 2
              rw [e1]
              dsimp only at this
              rcases this with h | h
              · omega
              · omega
          split
          · exact posti_bind_of (hrec q _ _ _ _ _ hcq (inwin_full hwin)) hfull
          · refine posti_bind_of (hrec q _ _ _ _ _ hcq (inwin_zw hwin)) ?_
            intro x hx0
            obtain ⟨sc0, cpv0⟩ := x
            dsimp only
            split
            · exact posti_bind_of (hrec q _ _ _ _ _ hcq (inwin_full hwin)) hfull
            · rename_i hna
              rename_i hnf
              have hr0 : InRange sc0 := hx0.1
              apply hjp
              · exact inrange_neg hr0
              · intro ha h0
                exfalso
                apply hnf
                show st.legalMoves + 1 = 1
                omega
              · intro _
                left
                show w16 (-sc0) ≤ st.alpha
                have : ¬ w16 (-sc0) > st.alpha := hna
                omega
end

/-! ### small facts -/

theorem checkmateValue_false {v : Int} (h : isCheckmateValue v = false) : -INF + 100 ≤ v ∧ v ≤ INF - 100 := by
  unfold isCheckmateValue at h
  have hm : maxPlies = 100 := by decide
  rw [hm] at h
  simp only [Bool.or_eq_false_iff, decide_eq_false_iff_not] at h
  omega

theorem contempt_bounds (p : Pos) : -1000 ≤ contempt p ∧ contempt p ≤ 1000 := contempt_small p

theorem mateValue_eq' (ply : Nat) (h : ply ≤ 65534) : w16 (-INF + ply) = -INF + ply := by
  unfold w16; rw [INF_eq]; omega

theorem nonpv_eq {a b : Int} (hw : InWin a b) (h : w16 (b - a) = 1) : b = a + 1 := by
  unfold InWin at hw
  unfold w16 at h
  rw [INF_eq] at hw
  omega

/-- if no visited move is legal, no generated move is -/
theorem nolegal_of_visit (K : Keys) (p : Pos) (h : Heur) (pv tt : Move) (ply : Nat) (scored : List Move)
    (hs : scoreMoves p h pv tt ply (genMoves p) = some scored)
    (hno : ∀ m ∈ visitOrder scored, ∀ q, makeMove K p m = some q → isLegal q = false) : NoLegal K p := by
  intro g hg q hq
  have hperm := visit_scored_perm p h pv tt ply (genMoves p) scored hs
  have hmem : g % 65536 ∈ (visitOrder scored).map (· % 65536) := hperm.mem_iff.2 (List.mem_map_of_mem hg)
  obtain ⟨m, hm, hme⟩ := List.mem_map.1 hmem
  have : makeMove K p m = some q := by
    rw [makeMove_low K p m, hme, ← makeMove_low K p g]; exact hq
  exact hno m hm q this

theorem tinv_save {K : Keys} {C : Pos → Prop} {H : BB → Prop} (hC : MateClass K C H) (p : Pos) (hp : C p)
    (hleg : ¬ NoLegal K p) (s : SState) (hs : TInv H s) (m : Move) (d : Nat) (score : Int) (nt age : Nat) (hsc : InRange score) :
    TInv H { s with tt := ttSave s.tt p.hash m d score nt age } := by
  refine ⟨ttSave_sane _ _ _ _ _ _ _ hs.1 hsc, ?_⟩
  intro h hh
  apply ttSave_noUse _ _ _ _ _ _ _ _ (hs.2 h hh)
  intro heq
  exact hleg (hC.coll p hp (by rw [heq]; exact hh))

/-! ### negamax -/

theorem posti_negamax_bd (K : Keys) (C : Pos → Prop) (H : BB → Prop) (hC : MateClass K C H)
    (fuel : Nat) (p : Pos) (hp : C p) (alpha beta : Int) (depth ply : Nat) (cn : Bool) (prev : Move)
    (hw : InWin alpha beta) (hply1 : 1 ≤ ply) (hply : ply + fuel ≤ 32767) :
    PostI (TInv H) (fun r : NodeRes => Lo K p ply alpha beta r.1 ∧ Up alpha beta r.1)
      (negamax K fuel p alpha beta depth ply cn prev) := by
  induction fuel generalizing p alpha beta depth ply cn prev with
  | zero => unfold negamax; exact posti_panic
  | succ fuel ih =>
    have hab := inwin_range hw
    have hst := tinv_stable H
    have hI := INF_eq
    have hw' := hw
    unfold InWin at hw'
    unfold negamax
    refine posti_seq (posti_poll hst) ?_
    intro _
    extract_lets isRoot mateValue pvNode inCheck depth' R body
    have hbody : PostI (TInv H) (fun r : NodeRes => Lo K p ply alpha beta r.1 ∧ Up alpha beta r.1) body := by
      unfold body
      refine posti_bind_of posti_get ?_
      intro s hs
      extract_lets pvMove
      have htc := ttGet_use_cases s.tt p.hash alpha beta depth' ply hs.1 hply1 (by omega)
      split
      rename_i ttScore use ttMove httg
      rw [httg] at htc
      split
      · rename_i hc
        have hu : use = true := by
          simp only [Bool.and_eq_true] at hc
          exact hc.2
        have hpv : w16 (beta - alpha) = 1 := by
          simp only [Bool.and_eq_true, Bool.not_eq_true'] at hc
          have : pvNode = false := hc.1.2
          simpa [pvNode] using this
        have hba := nonpv_eq hw hpv
        have := htc hu
        dsimp only at this
        refine posti_pure ⟨?_, ?_⟩
        · intro ha
          right
          show beta ≤ ttScore ∨ -INF + 2 ≤ ttScore
          omega
        · intro hb
          show ttScore ≤ alpha ∨ ttScore ≤ INF - 2
          omega
      · extract_lets jp3 jp2 jp1
        have h3 : ∀ fp, (alpha = -INF → fp = false) →
            PostI (TInv H) (fun r : NodeRes => Lo K p ply alpha beta r.1 ∧ Up alpha beta r.1) (jp3 fp) := by
          intro fp hfp
          unfold jp3
          refine posti_seq (posti_true posti_get) ?_
          intro s2
          refine posti_bind_of (posti_ofOption _) ?_
          intro scored hscored
          have hst0 : LJ alpha beta { alpha := alpha, bestScore := -INF } := by
            refine ⟨hw, ?_, ?_, ?_⟩
            · show InRange (-INF); unfold InRange; omega
            · intro ha; left; exact ⟨rfl, ha⟩
            · intro hb
              refine ⟨Or.inl (Int.le_refl _), Or.inr ?_⟩
              show -INF ≤ INF - 2
              omega
          refine posti_bind_of (posti_and_post (posti_and_post (posti_nmLoop_bd hst K C hC.move _ p hp alpha beta depth' ply hply1
            prev fp hfp
            (fun q a' b' d cn pm hq h => posti_and (posti_negamax_inv K C H hC fuel q hq a' b' d (ply + 1) cn pm h (by omega))
              (ih q hq a' b' d (ply + 1) cn pm h (by omega) (by omega))) _
              (genMv_visit_moves p _ _ _ ply scored hscored) _ hst0)
            (post_nmLoop_count K _ p beta depth' ply prev fp _ _))
            (post_nmLoop_nolegal' K _ p beta depth' ply prev fp _ _ _ scored hscored _)) ?_
          intro st hst'
          obtain ⟨⟨hj, hcount⟩, hnl⟩ := hst'
          split
          · rename_i hl0
            refine posti_pure ⟨?_, ?_⟩
            · intro ha
              show (ply = 1 ∧ Mated K p) ∨ (beta ≤ (if inCheck = true then mateValue else contempt p) ∨
                -INF + 2 ≤ (if inCheck = true then mateValue else contempt p))
              have hno : NoLegal K p := nolegal_of_visit K p _ _ _ ply scored hscored (hcount.2 hl0)
              have hcb := contempt_bounds p
              have hmv : mateValue = -INF + ply := mateValue_eq' ply (by omega)
              split
              · rename_i hic
                by_cases h1 : ply = 1
                · left; exact ⟨h1, hic, hno⟩
                · right; right; omega
              · right; right; omega
            · intro hb
              show (if inCheck = true then mateValue else contempt p) ≤ alpha ∨
                (if inCheck = true then mateValue else contempt p) ≤ INF - 2
              have hcb := contempt_bounds p
              have hmv : mateValue = -INF + ply := mateValue_eq' ply (by omega)
              right
              split <;> omega
          · rename_i hlm
            refine posti_seq (posti_poll hst) (fun _ => ?_)
            refine posti_seq (posti_modify _ ?_) (fun _ => posti_pure ?_)
            · intro s3 hs3
              apply tinv_save hC p hp _ s3 hs3 _ _ _ _ _ hj.best
              intro hno
              apply hlm
              rw [hnl hno]
            · refine ⟨?_, ?_⟩
              · intro ha
                rcases hj.lo ha with h | h
                · exact absurd h.1 hlm
                · right; exact h.2
              · intro hb
                exact (hj.up hb).2
        have h2 : ∀ nc : Bool, (nc = true → beta ≤ 32667) →
            PostI (TInv H) (fun r : NodeRes => Lo K p ply alpha beta r.1 ∧ Up alpha beta r.1) (jp2 nc) := by
          intro nc hnc
          unfold jp2
          split
          · rename_i hn
            have := hnc hn
            refine posti_pure ⟨fun _ => Or.inr (Or.inl (Int.le_refl _)), ?_⟩
            intro hb
            show beta ≤ alpha ∨ beta ≤ INF - 2
            omega
          · split
            · rename_i hcond
              have hca : isCheckmateValue alpha = false := by
                simp only [Bool.and_eq_true, Bool.not_eq_true'] at hcond
                exact hcond.1.2
              have := checkmateValue_false hca
              refine posti_seq (posti_seq (posti_true (posti_ofOption _)) (fun _ => posti_pure_true _)) (fun fp => h3 fp ?_)
              intro ha
              omega
            · exact posti_bind_of (R := fun fp : Bool => fp = false) (posti_pure rfl) (fun fp h => h3 fp (fun _ => h))
        have h1 : ∀ snm : Option Int, (∀ b, snm = some b → beta ≤ b ∧ beta ≠ INF) →
            PostI (TInv H) (fun r : NodeRes => Lo K p ply alpha beta r.1 ∧ Up alpha beta r.1) (jp1 snm) := by
          intro snm hsnm
          unfold jp1
          split
          · rename_i b
            have := hsnm b rfl
            refine posti_pure ⟨fun _ => Or.inr (Or.inl this.1), ?_⟩
            intro hb
            exact absurd hb this.2
          · split
            · rename_i hcond
              have hnc : isInCheck p p.side = false := by
                have : inCheck = false := by
                  simp only [Bool.and_eq_true, Bool.not_eq_true', decide_eq_true_eq] at hcond
                  exact hcond.1.1.2
                exact this
              refine posti_bind_of (R := fun nc : Bool => nc = true → beta ≤ 32667) ?_ (fun nc h => h2 nc h)
              refine posti_bind_of (posti_ofOption _) (fun e he => ?_)
              have hev := hC.eval p e hp he
              split
              · rename_i hgt
                refine posti_mono (Q := fun nc : Bool => nc = true → beta ≤ 32667) (P := fun _ => True) ?_ (fun _ _ _ => by omega)
                split
                rename_i q ep hmk
                have hq : C q := by
                  have := hC.null p hp hnc
                  rw [hmk] at this
                  exact this
                refine posti_seq (posti_true (posti_negamax_inv K C H hC fuel q hq _ _ _ (ply + 1) false 0 (inwin_null hw) (by omega))) (fun x => ?_)
                split
                exact posti_pure_true _
              · exact posti_pure (fun h => by cases h)
            · exact posti_bind_of (R := fun nc : Bool => nc = true → beta ≤ 32667) (posti_pure (fun h => by cases h)) (fun nc h => h2 nc h)
        split
        · rename_i hcond
          have hcb : isCheckmateValue beta = false := by
            simp only [Bool.and_eq_true, Bool.not_eq_true'] at hcond
            exact hcond.2
          have hcb' := checkmateValue_false hcb
          refine posti_bind_of (R := fun snm : Option Int => ∀ b, snm = some b → beta ≤ b ∧ beta ≠ INF) ?_ (fun snm h => h1 snm h)
          refine posti_seq (posti_true (posti_ofOption _)) (fun e => ?_)
          extract_lets b
          refine posti_pure ?_
          intro b' hb'
          split at hb'
          · rename_i hge
            cases hb'
            exact ⟨hge, by omega⟩
          · cases hb'
        · refine posti_bind_of (R := fun snm : Option Int => ∀ b, snm = some b → beta ≤ b ∧ beta ≠ INF) (posti_pure ?_) (fun snm h => h1 snm h)
          intro b hb
          cases hb
    split
    · refine posti_bind_of (posti_quiescence_qb hst K C hC.move hC.eval 128 p hp alpha beta ply hab.1 hab.2) ?_
      intro v hv
      obtain ⟨_, h1, h2⟩ := hv
      refine posti_pure ⟨?_, ?_⟩
      · intro _
        right
        show beta ≤ v ∨ -INF + 2 ≤ v
        omega
      · intro _
        show v ≤ alpha ∨ v ≤ INF - 2
        omega
    · refine posti_seq (posti_modify_tt hst _ (fun _ => rfl)) (fun _ => posti_seq (posti_true posti_get) (fun s => ?_))
      split
      · have hcb := contempt_bounds p
        refine posti_pure ⟨?_, ?_⟩
        · intro _
          right; right
          show -INF + 2 ≤ contempt p
          omega
        · intro _
          right
          show contempt p ≤ INF - 2
          omega
      · refine posti_seq (posti_modify_tt hst _ (fun _ => rfl)) (fun _ => ?_)
        exact posti_popPath hst body hbody

end P19
end Clemens
