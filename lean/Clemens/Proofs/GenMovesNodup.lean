import Clemens.Proofs.GenMovesMain
/-
C01a lemmas: the decoded list of generated moves has no duplicates.  Explicit forms of the decoded
segments, distinctness inside a segment by (origin, target, promotion), between segments by the kind of the
piece on the origin (castling vs. king steps: by the distance).
-/
namespace Clemens
namespace GM

theorem nodup_flatMap_key {α β : Type} (L : List α) (f : α → List β) (key : β → α) (hL : L.Nodup)
    (hf : ∀ s ∈ L, (f s).Nodup) (hkey : ∀ s ∈ L, ∀ x ∈ f s, key x = s) : (L.flatMap f).Nodup := by
  unfold List.Nodup
  rw [List.pairwise_flatMap]
  refine ⟨hf, ?_⟩
  refine List.Pairwise.imp_of_mem ?_ hL
  intro a b ha hb hab x hx y hy hxy
  apply hab
  rw [← hkey a ha x hx, ← hkey b hb y hy, hxy]

theorem nodup_map_key {α β : Type} (L : List α) (g : α → β) (key : β → α) (hL : L.Nodup)
    (hkey : ∀ t ∈ L, key (g t) = t) : (L.map g).Nodup := by
  unfold List.Nodup
  rw [List.pairwise_map]
  refine List.Pairwise.imp_of_mem ?_ hL
  intro a b ha hb hab hg
  apply hab
  rw [← hkey a ha, ← hkey b hb, hg]

theorem flatMap_congr' {α β : Type} (l : List α) (f g : α → List β) (h : ∀ a ∈ l, f a = g a) :
    l.flatMap f = l.flatMap g := by
  induction l with
  | nil => rfl
  | cons a l ih =>
    rw [List.flatMap_cons, List.flatMap_cons, h a (by simp), ih (fun x hx => h x (by simp [hx]))]

/-- the decoded list of a `genHelper` call, explicitly -/
theorem genHelper_abs_eq (src dest : BB) (att : Nat → BB) :
    (genHelper src dest att).map absMove =
      (squares src).flatMap fun s => (squares (att s &&& dest)).map fun t => (⟨s, t, none⟩ : Fide.Move) := by
  unfold genHelper
  rw [List.map_flatMap]
  apply flatMap_congr'
  intro s hs
  rw [List.map_map]
  apply List.map_congr_left
  intro t ht
  exact absMove_mk' s t 0 (squares_lt _ _ hs) (squares_lt _ _ ht) (Or.inl rfl)

theorem genHelper_abs_nodup (src dest : BB) (att : Nat → BB) : ((genHelper src dest att).map absMove).Nodup := by
  rw [genHelper_abs_eq]
  apply nodup_flatMap_key _ _ Fide.Move.src (squares_nodup _)
  · intro s _
    exact nodup_map_key _ _ Fide.Move.tgt (squares_nodup _) (fun t _ => rfl)
  · intro s _ x hx
    rw [List.mem_map] at hx
    obtain ⟨t, _, rfl⟩ := hx
    rfl

/-! ### pawns -/

theorem mem_Wp (c s t : Nat) (x : Fide.Move) (h : x ∈ Wp c s t) : x.src = s ∧ x.tgt = t := by
  unfold Wp at h
  by_cases hr : rankOf t = (if c = 0 then 7 else 0)
  · rw [if_pos hr, List.mem_map] at h
    obtain ⟨k, _, rfl⟩ := h
    exact ⟨rfl, rfl⟩
  · rw [if_neg hr, List.mem_singleton] at h
    subst h
    exact ⟨rfl, rfl⟩

theorem Wp_nodup (c s t : Nat) : (Wp c s t).Nodup := by
  unfold Wp
  by_cases hr : rankOf t = (if c = 0 then 7 else 0)
  · rw [if_pos hr]
    exact nodup_map_key _ _ (fun x : Fide.Move => x.promo.getD 0) (by decide) (fun k _ => rfl)
  · rw [if_neg hr]
    exact List.pairwise_singleton _ _

theorem flatWp_nodup (c s : Nat) (X : BB) : ((squares X).flatMap (Wp c s)).Nodup :=
  nodup_flatMap_key _ _ Fide.Move.tgt (squares_nodup _) (fun t _ => Wp_nodup c s t) (fun t _ x hx => (mem_Wp c s t x hx).2)

theorem mem_flatWp (c s : Nat) (X : BB) (x : Fide.Move) (h : x ∈ (squares X).flatMap (Wp c s)) :
    x.src = s ∧ X.getLsbD x.tgt = true := by
  rw [List.mem_flatMap] at h
  obtain ⟨t, ht, hx⟩ := h
  obtain ⟨h1, h2⟩ := mem_Wp c s t x hx
  rw [mem_squares_iff] at ht
  exact ⟨h1, by rw [h2]; exact ht⟩

theorem pawnPush_file (c : Nat) (occ : BB) (s t : Nat) (h : Geo.pawnPush c occ s t = true) : fileOf t = fileOf s := by
  unfold Geo.pawnPush at h
  simp only at h
  cases ho1 : Geo.offset 0 (if c = 0 then 1 else -1) s with
  | none => rw [ho1] at h; cases h
  | some t1 =>
    rw [ho1] at h
    simp only [Bool.and_eq_true, Bool.or_eq_true, beq_iff_eq] at h
    rcases h.2 with rfl | h2
    · have := (offset_coords _ _ _ _ ho1).2.1; omega
    · cases ho2 : Geo.offset 0 (2 * if c = 0 then 1 else -1) s with
      | none => rw [ho2] at h2; simp at h2
      | some t2 =>
        rw [ho2] at h2
        simp only [Bool.and_eq_true, beq_iff_eq] at h2
        rw [h2.2.1]
        have := (offset_coords _ _ _ _ ho2).2.1; omega

theorem pawnAttack_file (c s t : Nat) (h : Geo.pawnAttack c s t = true) : fileOf t ≠ fileOf s := by
  unfold Geo.pawnAttack at h
  simp only [Bool.or_eq_true, beq_iff_eq] at h
  rcases h with h | h
  · have := (offset_coords _ _ _ _ h).2.1; omega
  · have := (offset_coords _ _ _ _ h).2.1; omega

theorem push_attack_disjoint (c s t : Nat) (occ : BB) (hc : c < 2) (hs : s < 64)
    (h1 : (pawnPushesBySquare c s occ).getLsbD t = true) (h2 : (pawnAttacks c s).getLsbD t = true) : False := by
  have ht := getLsbD_lt h1
  rw [pawnPushes_exact _ _ _ _ hc hs ht] at h1
  rw [pawnAttacks_exact _ _ _ hc hs ht] at h2
  exact pawnAttack_file c s t h2 (pawnPush_file c occ s t h1)

/-- the decoded moves of the pawn on `s`, explicitly -/
def pawnSrcAbs (p : Pos) (s : Nat) : List Fide.Move :=
  (squares (pawnPushesBySquare p.side s p.all)).flatMap (Wp p.side s) ++
  (squares (pawnAttacks p.side s &&& p.byColor (switchColor p.side))).flatMap (Wp p.side s) ++
  (if p.ep != 64 then (squares (pawnAttacks p.side s &&& bit p.ep)).map fun t => (⟨s, t, none⟩ : Fide.Move) else [])

theorem pawnSrc_abs_eq (p : Pos) (hside : p.side < 2) (s : Nat) (hs : s < 64) :
    (((squares (pawnPushesBySquare p.side s p.all)).flatMap fun t => pawnMoveWithPromotion p.side s t) ++
      genPawnCaptures p s ++ genEnPassant p s).map absMove = pawnSrcAbs p s := by
  unfold pawnSrcAbs genPawnCaptures genEnPassant
  rw [List.map_append, List.map_append, List.map_flatMap, List.map_flatMap]
  congr 1
  · congr 1
    · apply flatMap_congr'
      intro t ht
      exact pmwp_abs _ _ _ hside hs (squares_lt _ _ ht)
    · apply flatMap_congr'
      intro t ht
      exact pmwp_abs _ _ _ hside hs (squares_lt _ _ ht)
  · split
    · rw [List.map_map]
      apply List.map_congr_left
      intro t ht
      exact absMove_mk' s t 2 hs (squares_lt _ _ ht) (Or.inr (Or.inl rfl))
    · rfl

theorem nodup_append_of {α : Type} (l1 l2 : List α) (h1 : l1.Nodup) (h2 : l2.Nodup)
    (hd : ∀ x, x ∈ l1 → x ∈ l2 → False) : (l1 ++ l2).Nodup := by
  rw [List.nodup_append]
  exact ⟨h1, h2, fun a ha b hb hab => hd a ha (hab ▸ hb)⟩

theorem pawnSrcAbs_src (p : Pos) (s : Nat) (x : Fide.Move) (h : x ∈ pawnSrcAbs p s) : x.src = s := by
  unfold pawnSrcAbs at h
  rw [List.mem_append, List.mem_append] at h
  rcases h with (h | h) | h
  · exact (mem_flatWp _ _ _ _ h).1
  · exact (mem_flatWp _ _ _ _ h).1
  · split at h
    · rw [List.mem_map] at h
      obtain ⟨t, _, rfl⟩ := h
      rfl
    · cases h

theorem pawnSrcAbs_nodup (p : Pos) (hsh : wfShape p = true) (hside : p.side < 2) (hep64 : p.ep ≤ 64)
    (hepEmpty : p.ep ≠ 64 → p.at p.ep = 0) (s : Nat) (hs : s < 64) : (pawnSrcAbs p s).Nodup := by
  unfold pawnSrcAbs
  have hE : ∀ x, x ∈ (if p.ep != 64 then (squares (pawnAttacks p.side s &&& bit p.ep)).map
        fun t => (⟨s, t, none⟩ : Fide.Move) else []) →
      p.ep ≠ 64 ∧ (pawnAttacks p.side s).getLsbD x.tgt = true ∧ x.tgt = p.ep := by
    intro x h
    split at h
    · rename_i he
      have he' : p.ep ≠ 64 := by simpa using he
      rw [List.mem_map] at h
      obtain ⟨t, ht, rfl⟩ := h
      rw [mem_squares_iff, BitVec.getLsbD_and, Bool.and_eq_true, getLsbD_bit _ _ (by omega), decide_eq_true_eq] at ht
      exact ⟨he', ht.1, ht.2⟩
    · cases h
  apply nodup_append_of
  · apply nodup_append_of
    · exact flatWp_nodup _ _ _
    · exact flatWp_nodup _ _ _
    · intro x h1 h2
      have a := (mem_flatWp _ _ _ _ h1).2
      have b := (mem_flatWp _ _ _ _ h2).2
      rw [BitVec.getLsbD_and, Bool.and_eq_true] at b
      exact push_attack_disjoint _ _ _ _ hside hs a b.1
  · split
    · exact nodup_map_key _ _ Fide.Move.tgt (squares_nodup _) (fun t _ => rfl)
    · exact List.nodup_nil
  · intro x h1 h2
    obtain ⟨he, hatt, htgt⟩ := hE x h2
    rw [List.mem_append] at h1
    rcases h1 with h1 | h1
    · exact push_attack_disjoint _ _ _ _ hside hs (mem_flatWp _ _ _ _ h1).2 hatt
    · have b := (mem_flatWp _ _ _ _ h1).2
      rw [BitVec.getLsbD_and, Bool.and_eq_true, switchColor_eq _ hside,
        byColor_iff p hsh _ (by unfold Fide.other; omega)] at b
      have := b.2
      unfold Fide.isOwn at this
      rw [absPos_at, htgt, hepEmpty he] at this
      simp at this

/-- all pawn moves, decoded, explicitly -/
theorem pawnSeg_abs_eq (p : Pos) (hside : p.side < 2) :
    ((squares (p.pieces p.side PAWN)).flatMap fun s =>
        ((squares (pawnPushesBySquare p.side s p.all)).flatMap fun t => pawnMoveWithPromotion p.side s t) ++
        genPawnCaptures p s ++ genEnPassant p s).map absMove =
      (squares (p.pieces p.side PAWN)).flatMap (pawnSrcAbs p) := by
  rw [List.map_flatMap]
  apply flatMap_congr'
  intro s hs
  exact pawnSrc_abs_eq p hside s (squares_lt _ _ hs)

theorem pawnSeg_nodup (p : Pos) (hsh : wfShape p = true) (hside : p.side < 2) (hep64 : p.ep ≤ 64)
    (hepEmpty : p.ep ≠ 64 → p.at p.ep = 0) : ((squares (p.pieces p.side PAWN)).flatMap (pawnSrcAbs p)).Nodup :=
  nodup_flatMap_key _ _ Fide.Move.src (squares_nodup _)
    (fun s hs => pawnSrcAbs_nodup p hsh hside hep64 hepEmpty s (squares_lt _ _ hs))
    (fun s _ x hx => pawnSrcAbs_src p s x hx)

/-! ### the whole list -/

/-- kind of the piece on the origin of a move -/
def srcKind (p : Pos) (x : Fide.Move) : Nat := Fide.kindOf ((absPos p).at x.src)

theorem srcKind_of_bit (p : Pos) (hsh : wfShape p = true) (hside : p.side < 2) (k : Nat) (hk : k < 6) (x : Fide.Move)
    (h : (p.pieces p.side k).getLsbD x.src = true) : srcKind p x = k := by
  rw [pieces_iff p hsh _ _ hside hk, Bool.and_eq_true, beq_iff_eq] at h
  exact h.2

theorem genHelper_srcKind (p : Pos) (hsh : wfShape p = true) (hside : p.side < 2) (k : Nat) (hk : k < 6)
    (dest : BB) (att : Nat → BB) (x : Fide.Move) (h : x ∈ (genHelper (p.pieces p.side k) dest att).map absMove) :
    srcKind p x = k := by
  rw [mem_genHelper_abs] at h
  obtain ⟨s, t, hs, _, _, rfl⟩ := h
  exact srcKind_of_bit p hsh hside k hk _ hs

theorem pawnSeg_srcKind (p : Pos) (hsh : wfShape p = true) (hside : p.side < 2) (x : Fide.Move)
    (h : x ∈ (squares (p.pieces p.side PAWN)).flatMap (pawnSrcAbs p)) : srcKind p x = 0 := by
  rw [List.mem_flatMap] at h
  obtain ⟨s, hs, hx⟩ := h
  rw [mem_squares_iff] at hs
  apply srcKind_of_bit p hsh hside 0 (by decide)
  rw [pawnSrcAbs_src p s x hx]
  exact hs

theorem castleSpec_held (P : Fide.Pos) (c : Nat) (h : castleSpec P c = true) : P.castling &&& c ≠ 0 := by
  intro h0
  have := castleSpec_right P c (by rw [Nat.and_comm]; exact h0)
  rw [h] at this
  cases this

theorem no_king_two : ∀ s < 64, ∀ t < 64, Geo.kingStep s t = true → ¬ (t = s + 2 ∨ t + 2 = s) := by decide +kernel

/-- a decoded castling move of the engine in a well-formed position: the king, from its home square, two files -/
theorem castling_form (p : Pos) (hw : WF p = true) (x : Fide.Move) (h : x ∈ (genCastling p).map absMove) :
    srcKind p x = 5 ∧ x.src < 64 ∧ x.tgt < 64 ∧ (x.tgt = x.src + 2 ∨ x.tgt + 2 = x.src) := by
  obtain ⟨hsh, hst, hch⟩ := WF_parts p hw
  obtain ⟨hside, _, _⟩ := state_parts p hst
  have cp := chess_parts p hch
  rw [genCastling_abs_engine p hw] at h
  unfold srcKind
  rw [absPos_at]
  have hc : p.side = 0 ∨ p.side = 1 := by omega
  rcases hc with h0 | h0
  · simp only [h0, if_true, List.mem_append] at h
    rcases h with h | h
    · split at h
      · rename_i hs
        have := (cp.c1 (by rw [Nat.and_comm]; exact canCastle_right p 1 hs)).1
        rw [List.mem_singleton] at h; subst h
        simp only [this]; decide
      · cases h
    · split at h
      · rename_i hs
        have := (cp.c2 (by rw [Nat.and_comm]; exact canCastle_right p 2 hs)).1
        rw [List.mem_singleton] at h; subst h
        simp only [this]; decide
      · cases h
  · simp only [h0, Nat.one_ne_zero, if_false, List.mem_append] at h
    rcases h with h | h
    · split at h
      · rename_i hs
        have := (cp.c4 (by rw [Nat.and_comm]; exact canCastle_right p 4 hs)).1
        rw [List.mem_singleton] at h; subst h
        simp only [this]; decide
      · cases h
    · split at h
      · rename_i hs
        have := (cp.c8 (by rw [Nat.and_comm]; exact canCastle_right p 8 hs)).1
        rw [List.mem_singleton] at h; subst h
        simp only [this]; decide
      · cases h

theorem nodup_two {α : Type} (a b : Bool) (m1 m2 : α) (h : m1 ≠ m2) :
    ((if a = true then [m1] else []) ++ (if b = true then [m2] else [])).Nodup := by
  cases a <;> cases b <;> simp [h]

theorem genCastling_nodup (p : Pos) (hw : WF p = true) : ((genCastling p).map absMove).Nodup := by
  rw [genCastling_abs_engine p hw]
  apply nodup_two
  intro h
  injection h with _ ht _
  by_cases h0 : p.side = 0
  · simp [h0] at ht
  · simp [h0] at ht

theorem king_not_castle (p : Pos) (x : Fide.Move) (dest : BB)
    (h : x ∈ (genHelper (p.pieces p.side KING) dest kingAttacks).map absMove) :
    ¬ (x.tgt = x.src + 2 ∨ x.tgt + 2 = x.src) := by
  rw [mem_genHelper_abs] at h
  obtain ⟨s, t, hs, ht, _, rfl⟩ := h
  have hs64 := getLsbD_lt hs
  have ht64 := getLsbD_lt ht
  rw [kingAttacks_exact s t hs64 ht64] at ht
  exact no_king_two s hs64 t ht64 ht

/-- no duplicates in the decoded list of generated moves -/
theorem genMoves_nodup (p : Pos) (hw : WF p = true) : ((genMoves p).map absMove).Nodup := by
  obtain ⟨hsh, hst, hch⟩ := WF_parts p hw
  obtain ⟨hside, _, hep64⟩ := state_parts p hst
  unfold genMoves
  simp only [List.map_append]
  rw [pawnSeg_abs_eq p hside]
  have tR := genHelper_srcKind p hsh hside ROOK (by decide) (~~~p.byColor p.side) (fun s => rookAttacks s p.all)
  have tB := genHelper_srcKind p hsh hside BISHOP (by decide) (~~~p.byColor p.side) (fun s => bishopAttacks s p.all)
  have tQ := genHelper_srcKind p hsh hside QUEEN (by decide) (~~~p.byColor p.side) (fun s => queenAttacks s p.all)
  have tN := genHelper_srcKind p hsh hside KNIGHT (by decide) (~~~p.byColor p.side) knightAttacks
  have tK := genHelper_srcKind p hsh hside KING (by decide) (~~~p.byColor p.side) kingAttacks
  have tP := pawnSeg_srcKind p hsh hside
  have tC := castling_form p hw
  have eR : ROOK = 3 := rfl
  have eB : BISHOP = 2 := rfl
  have eQ : QUEEN = 4 := rfl
  have eN : KNIGHT = 1 := rfl
  have eK : KING = 5 := rfl
  apply nodup_append_of
  · apply nodup_append_of
    · apply nodup_append_of
      · apply nodup_append_of
        · apply nodup_append_of
          · apply nodup_append_of
            · exact genHelper_abs_nodup _ _ _
            · exact genHelper_abs_nodup _ _ _
            · intro x h1 h2
              have := tR x h1; have := tB x h2; omega
          · exact genHelper_abs_nodup _ _ _
          · intro x h1 h2
            have := tQ x h2
            simp only [List.mem_append] at h1
            rcases h1 with h1 | h1
            · have := tR x h1; omega
            · have := tB x h1; omega
        · exact genHelper_abs_nodup _ _ _
        · intro x h1 h2
          have := tN x h2
          simp only [List.mem_append] at h1
          rcases h1 with (h1 | h1) | h1
          · have := tR x h1; omega
          · have := tB x h1; omega
          · have := tQ x h1; omega
      · exact pawnSeg_nodup p hsh hside hep64 (ep_empty p hch)
      · intro x h1 h2
        have := tP x h2
        simp only [List.mem_append] at h1
        rcases h1 with ((h1 | h1) | h1) | h1
        · have := tR x h1; omega
        · have := tB x h1; omega
        · have := tQ x h1; omega
        · have := tN x h1; omega
    · exact genCastling_nodup p hw
    · intro x h1 h2
      have := (tC x h2).1
      simp only [List.mem_append] at h1
      rcases h1 with (((h1 | h1) | h1) | h1) | h1
      · have := tR x h1; omega
      · have := tB x h1; omega
      · have := tQ x h1; omega
      · have := tN x h1; omega
      · have := tP x h1; omega
  · exact genHelper_abs_nodup _ _ _
  · intro x h1 h2
    have := tK x h2
    simp only [List.mem_append] at h1
    rcases h1 with ((((h1 | h1) | h1) | h1) | h1) | h1
    · have := tR x h1; omega
    · have := tB x h1; omega
    · have := tQ x h1; omega
    · have := tN x h1; omega
    · have := tP x h1; omega
    · exact king_not_castle p x _ h2 (tC x h1).2.2.2

end GM
end Clemens
