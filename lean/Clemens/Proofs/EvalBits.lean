import Clemens.Model.Eval
/-
Lemma library for C15 (part 1): popcounts, sums over the squares of a set, closed forms of the
accumulating folds of the evaluation.
-/
namespace Clemens

/-! ### squares / popcount -/

theorem mem_squares_E {b : BB} {s : Nat} : s ∈ squares b ↔ s < 64 ∧ b.getLsbD s = true := by
  simp [squares, List.mem_filter, List.mem_range]

theorem lt_of_mem_squares {b : BB} {s : Nat} (h : s ∈ squares b) : s < 64 := (mem_squares_E.1 h).1

theorem popcount_eq_countP (b : BB) : popcount b = (List.range 64).countP (fun i => b.getLsbD i) := by
  unfold popcount squares; rw [List.countP_eq_length_filter]

theorem popcount_le_64 (b : BB) : popcount b ≤ 64 := by
  rw [popcount_eq_countP]
  exact Nat.le_trans List.countP_le_length (by simp)

theorem popcount_mono {a b : BB} (h : ∀ i, i < 64 → a.getLsbD i = true → b.getLsbD i = true) :
    popcount a ≤ popcount b := by
  rw [popcount_eq_countP, popcount_eq_countP]
  apply List.countP_mono_left
  intro i hi hai
  exact h i (List.mem_range.1 hi) hai

theorem popcount_and_le_left (a b : BB) : popcount (a &&& b) ≤ popcount a :=
  popcount_mono (by intro i _ h; simp at h; exact h.1)

theorem popcount_and_le_right (a b : BB) : popcount (a &&& b) ≤ popcount b :=
  popcount_mono (by intro i _ h; simp at h; exact h.2)

theorem pc_nonneg (b : BB) : 0 ≤ pc b := by unfold pc; omega
theorem pc_le_64 (b : BB) : pc b ≤ 64 := by have := popcount_le_64 b; unfold pc; omega
theorem pc_and_le_left (a b : BB) : pc (a &&& b) ≤ pc a := by
  have := popcount_and_le_left a b; unfold pc; omega
theorem pc_and_le_right (a b : BB) : pc (a &&& b) ≤ pc b := by
  have := popcount_and_le_right a b; unfold pc; omega

/-! ### sums over the squares of a set -/

/-- `Σ_{s ∈ b} f s`, in the order of the pop-LSB loop -/
def sumOver (f : Nat → Int) (b : BB) : Int := ((squares b).map f).sum

theorem list_sum_le (f : Nat → Int) (M : Int) (l : List Nat) (h : ∀ s ∈ l, f s ≤ M) :
    (l.map f).sum ≤ M * l.length := by
  induction l with
  | nil => simp
  | cons a l ih =>
    have h1 := h a (by simp)
    have h2 := ih (fun s hs => h s (by simp [hs]))
    simp only [List.map_cons, List.sum_cons, List.length_cons]
    have : M * ((l.length + 1 : Nat) : Int) = M * (l.length : Int) + M := by
      rw [Int.natCast_add, Int.mul_add]; simp
    omega

theorem le_list_sum (f : Nat → Int) (m : Int) (l : List Nat) (h : ∀ s ∈ l, m ≤ f s) :
    m * l.length ≤ (l.map f).sum := by
  induction l with
  | nil => simp
  | cons a l ih =>
    have h1 := h a (by simp)
    have h2 := ih (fun s hs => h s (by simp [hs]))
    simp only [List.map_cons, List.sum_cons, List.length_cons]
    have : m * ((l.length + 1 : Nat) : Int) = m * (l.length : Int) + m := by
      rw [Int.natCast_add, Int.mul_add]; simp
    omega

theorem sumOver_le (f : Nat → Int) (M : Int) (b : BB) (h : ∀ s, s < 64 → f s ≤ M) :
    sumOver f b ≤ M * pc b :=
  list_sum_le f M _ (fun s hs => h s (lt_of_mem_squares hs))

theorem le_sumOver (f : Nat → Int) (m : Int) (b : BB) (h : ∀ s, s < 64 → m ≤ f s) :
    m * pc b ≤ sumOver f b :=
  le_list_sum f m _ (fun s hs => h s (lt_of_mem_squares hs))

/-! ### closed forms of the accumulating folds -/

theorem foldl_add_sum {α} (f : α → Int) (l : List α) (a : Int) :
    l.foldl (fun v s => v + f s) a = a + (l.map f).sum := by
  induction l generalizing a with
  | nil => simp
  | cons x l ih => simp only [List.foldl_cons, ih, List.map_cons, List.sum_cons]; omega

theorem foldl_add_sum2 {α} (f g : α → Int) (l : List α) (a : Int) :
    l.foldl (fun v s => v + f s + g s) a = a + (l.map (fun s => f s + g s)).sum := by
  induction l generalizing a with
  | nil => simp
  | cons x l ih => simp only [List.foldl_cons, ih, List.map_cons, List.sum_cons]; omega

theorem foldl_acc_add (f g : Nat → Int) (l : List Nat) (e : EvalAcc) :
    l.foldl (fun (e : EvalAcc) s => { e with mid := e.mid + f s, end_ := e.end_ + g s }) e
      = { e with mid := e.mid + (l.map f).sum, end_ := e.end_ + (l.map g).sum } := by
  induction l generalizing e with
  | nil => simp
  | cons x l ih =>
    simp only [List.foldl_cons, ih, List.map_cons, List.sum_cons]
    congr 1 <;> omega

theorem foldl_acc_sub (f g : Nat → Int) (l : List Nat) (e : EvalAcc) :
    l.foldl (fun (e : EvalAcc) s => { e with mid := e.mid - f s, end_ := e.end_ - g s }) e
      = { e with mid := e.mid - (l.map f).sum, end_ := e.end_ - (l.map g).sum } := by
  induction l generalizing e with
  | nil => simp
  | cons x l ih =>
    simp only [List.foldl_cons, ih, List.map_cons, List.sum_cons]
    congr 1 <;> omega

theorem range6 : List.range 6 = [0, 1, 2, 3, 4, 5] := by decide

end Clemens
