import Clemens.Model.WF
import Clemens.Proofs.Rays
/-
Lemma library for C01a (the pseudo-legal generator is exact): `squares`, decoding of move words,
what `wfShape` says square by square, and the abstraction of the board.
-/
namespace Clemens
namespace GM

/-! ### `squares` -/

theorem mem_squares_iff (b : BB) (i : Nat) : i ∈ squares b ↔ b.getLsbD i = true := by
  unfold squares
  rw [List.mem_filter, List.mem_range]
  constructor
  · exact fun h => h.2
  · exact fun h => ⟨BitVec.lt_of_getLsbD h, h⟩

theorem squares_lt (b : BB) (i : Nat) (h : i ∈ squares b) : i < 64 := by
  unfold squares at h
  rw [List.mem_filter, List.mem_range] at h
  exact h.1

theorem squares_nodup (b : BB) : (squares b).Nodup :=
  List.Pairwise.filter _ List.nodup_range

theorem getLsbD_lt {b : BB} {i : Nat} (h : b.getLsbD i = true) : i < 64 := BitVec.lt_of_getLsbD h

/-! ### decoding of move words (kernel evaluation over all squares) -/

theorem mk_decode_all : ∀ s < 64, ∀ t < 64, ∀ k < 4,
    (Move.mk s t k).src = s ∧ (Move.mk s t k).tgt = t ∧ (Move.mk s t k).kind = k := by decide +kernel

theorem promo_decode_all : ∀ s < 64, ∀ t < 64, ∀ q < 4,
    ((Move.mk s t 1).withPromo (q + 1)).src = s ∧ ((Move.mk s t 1).withPromo (q + 1)).tgt = t ∧
    ((Move.mk s t 1).withPromo (q + 1)).kind = 1 ∧ ((Move.mk s t 1).withPromo (q + 1)).promo = q + 1 := by
  decide +kernel

theorem mk_src {s t k : Nat} (hs : s < 64) (ht : t < 64) (hk : k < 4) : (Move.mk s t k).src = s :=
  (mk_decode_all s hs t ht k hk).1
theorem mk_tgt {s t k : Nat} (hs : s < 64) (ht : t < 64) (hk : k < 4) : (Move.mk s t k).tgt = t :=
  (mk_decode_all s hs t ht k hk).2.1
theorem mk_kind {s t k : Nat} (hs : s < 64) (ht : t < 64) (hk : k < 4) : (Move.mk s t k).kind = k :=
  (mk_decode_all s hs t ht k hk).2.2

theorem promo_decode {s t pt : Nat} (hs : s < 64) (ht : t < 64) (h1 : 1 ≤ pt) (h4 : pt ≤ 4) :
    ((Move.mk s t 1).withPromo pt).src = s ∧ ((Move.mk s t 1).withPromo pt).tgt = t ∧
    ((Move.mk s t 1).withPromo pt).kind = 1 ∧ ((Move.mk s t 1).withPromo pt).promo = pt := by
  have := promo_decode_all s hs t ht (pt - 1) (by omega)
  rwa [show pt - 1 + 1 = pt by omega] at this

theorem absMove_mk' (s t k : Nat) (hs : s < 64) (ht : t < 64) (hk : k = 0 ∨ k = 2 ∨ k = 3) :
    absMove (Move.mk s t k) = ⟨s, t, none⟩ := by
  have hk4 : k < 4 := by omega
  unfold absMove
  rw [mk_src hs ht hk4, mk_tgt hs ht hk4, mk_kind hs ht hk4]
  have : k ≠ 1 := by omega
  simp [this]

theorem absMove_promo' (s t pt : Nat) (hs : s < 64) (ht : t < 64) (h1 : 1 ≤ pt) (h4 : pt ≤ 4) :
    absMove ((Move.mk s t 1).withPromo pt) = ⟨s, t, some pt⟩ := by
  obtain ⟨a, b, c, d⟩ := promo_decode hs ht h1 h4
  unfold absMove
  rw [a, b, c, d]
  simp

/-! ### the board seen through `absPos` -/

theorem absPos_at (p : Pos) (s : Nat) : (absPos p).at s = p.at s := by
  simp only [Fide.Pos.at, absPos, Pos.at, vget]
  rw [Array.getD_eq_getD_getElem?, Vector.getElem?_toArray]

theorem at_ge (p : Pos) (s : Nat) (h : 64 ≤ s) : p.at s = 0 := by
  simp only [Pos.at, vget]
  rw [Vector.getElem?_eq_none (by omega)]
  rfl

/-- the thirteen values a square of a consistent board can hold -/
def pieceCodes : List Nat := [0, 1, 2, 3, 4, 5, 6, 9, 10, 11, 12, 13, 14]

theorem valid_codes (pc : Nat) (h : pc = 0 ∨ validPiece pc = true) : pc ∈ pieceCodes := by
  rcases h with h | h
  · subst h; decide
  · unfold validPiece pieceColor pieceType at h
    simp only [Bool.and_eq_true, decide_eq_true_eq] at h
    have h1 : pc < 16 := by
      have := h.1
      rw [Nat.shiftRight_eq_div_pow] at this
      omega
    revert h
    have : ∀ pc < 16, (pc >>> 3 < 2 ∧ ((pc &&& 7) + 255) % 256 < 6) → pc ∈ pieceCodes := by decide
    exact this pc h1

/-! ### what `wfShape` says about one square -/

theorem shape_parts (p : Pos) (h : wfShape p = true) :
    (∀ s < 64, (p.at s = 0 ∨ validPiece (p.at s) = true) ∧
      ∀ c < 2, ∀ t < 6, (p.pieces c t).getLsbD s = (p.at s == newPiece c t)) ∧
    p.white = (p.pieces 0 0 ||| p.pieces 0 1 ||| p.pieces 0 2 ||| p.pieces 0 3 ||| p.pieces 0 4 ||| p.pieces 0 5) ∧
    p.black = (p.pieces 1 0 ||| p.pieces 1 1 ||| p.pieces 1 2 ||| p.pieces 1 3 ||| p.pieces 1 4 ||| p.pieces 1 5) ∧
    p.all = (p.white ||| p.black) := by
  unfold wfShape at h
  simp only [Bool.and_eq_true, List.all_eq_true, List.mem_range, beq_iff_eq, Bool.or_eq_true, BB.has] at h
  obtain ⟨⟨⟨h1, h2⟩, h3⟩, h4⟩ := h
  refine ⟨?_, ?_, ?_, h4⟩
  · intro s hs
    refine ⟨(h1 s hs).1, ?_⟩
    intro c hc t ht
    exact (h1 s hs).2 c hc t ht
  · rw [h2]; simp [List.range_succ]
  · rw [h3]; simp [List.range_succ]

theorem codes_white : ∀ pc ∈ pieceCodes,
    ((pc == newPiece 0 0) || (pc == newPiece 0 1) || (pc == newPiece 0 2) || (pc == newPiece 0 3) ||
      (pc == newPiece 0 4) || (pc == newPiece 0 5)) = (pc != 0 && Fide.colorOf pc == 0) := by decide

theorem codes_black : ∀ pc ∈ pieceCodes,
    ((pc == newPiece 1 0) || (pc == newPiece 1 1) || (pc == newPiece 1 2) || (pc == newPiece 1 3) ||
      (pc == newPiece 1 4) || (pc == newPiece 1 5)) = (pc != 0 && Fide.colorOf pc == 1) := by decide

theorem codes_piece : ∀ pc ∈ pieceCodes, ∀ c < 2, ∀ t < 6,
    (pc == newPiece c t) = (pc != 0 && Fide.colorOf pc == c && Fide.kindOf pc == t) := by decide

theorem codes_any : ∀ pc ∈ pieceCodes,
    ((pc != 0 && Fide.colorOf pc == 0) || (pc != 0 && Fide.colorOf pc == 1)) = (pc != 0) := by decide

theorem codes_model : ∀ pc ∈ pieceCodes, pc ≠ 0 →
    validPiece pc = true ∧ pieceColor pc = Fide.colorOf pc ∧ pieceType pc = Fide.kindOf pc ∧
    pc = newPiece (Fide.colorOf pc) (Fide.kindOf pc) ∧ Fide.colorOf pc < 2 ∧ Fide.kindOf pc < 6 := by decide

theorem at_codes (p : Pos) (h : wfShape p = true) (s : Nat) : p.at s ∈ pieceCodes := by
  by_cases hs : s < 64
  · exact valid_codes _ ((shape_parts p h).1 s hs).1
  · rw [at_ge p s (by omega)]; decide

/-- piece bitboards, square by square, in the vocabulary of the specification -/
theorem pieces_iff (p : Pos) (h : wfShape p = true) (c t : Nat) (hc : c < 2) (ht : t < 6) (s : Nat) :
    (p.pieces c t).getLsbD s = (Fide.isOwn (absPos p) c s && Fide.kindOf ((absPos p).at s) == t) := by
  unfold Fide.isOwn
  rw [absPos_at]
  by_cases hs : s < 64
  · rw [((shape_parts p h).1 s hs).2 c hc t ht]
    exact codes_piece _ (at_codes p h s) c hc t ht
  · rw [at_ge p s (by omega)]
    cases hb : (p.pieces c t).getLsbD s
    · simp
    · exact absurd (getLsbD_lt hb) hs

theorem white_iff (p : Pos) (h : wfShape p = true) (s : Nat) :
    p.white.getLsbD s = Fide.isOwn (absPos p) 0 s := by
  unfold Fide.isOwn
  rw [absPos_at]
  by_cases hs : s < 64
  · have hp := ((shape_parts p h).1 s hs).2 0 (by omega)
    rw [(shape_parts p h).2.1]
    simp only [BitVec.getLsbD_or]
    rw [hp 0 (by omega), hp 1 (by omega), hp 2 (by omega), hp 3 (by omega), hp 4 (by omega), hp 5 (by omega)]
    exact codes_white _ (at_codes p h s)
  · rw [at_ge p s (by omega)]
    cases hb : p.white.getLsbD s
    · simp
    · exact absurd (getLsbD_lt hb) hs

theorem black_iff (p : Pos) (h : wfShape p = true) (s : Nat) :
    p.black.getLsbD s = Fide.isOwn (absPos p) 1 s := by
  unfold Fide.isOwn
  rw [absPos_at]
  by_cases hs : s < 64
  · have hp := ((shape_parts p h).1 s hs).2 1 (by omega)
    rw [(shape_parts p h).2.2.1]
    simp only [BitVec.getLsbD_or]
    rw [hp 0 (by omega), hp 1 (by omega), hp 2 (by omega), hp 3 (by omega), hp 4 (by omega), hp 5 (by omega)]
    exact codes_black _ (at_codes p h s)
  · rw [at_ge p s (by omega)]
    cases hb : p.black.getLsbD s
    · simp
    · exact absurd (getLsbD_lt hb) hs

theorem byColor_iff (p : Pos) (h : wfShape p = true) (c : Nat) (hc : c < 2) (s : Nat) :
    (p.byColor c).getLsbD s = Fide.isOwn (absPos p) c s := by
  unfold Pos.byColor
  have : c = 0 ∨ c = 1 := by omega
  rcases this with rfl | rfl
  · simp only [if_true]; exact white_iff p h s
  · simp only [Nat.one_ne_zero, if_false]; exact black_iff p h s

theorem all_iff (p : Pos) (h : wfShape p = true) (s : Nat) :
    p.all.getLsbD s = ((absPos p).at s != 0) := by
  rw [(shape_parts p h).2.2.2, BitVec.getLsbD_or, white_iff p h, black_iff p h]
  unfold Fide.isOwn
  rw [absPos_at]
  exact codes_any _ (at_codes p h s)

theorem switchColor_eq (c : Nat) (hc : c < 2) : switchColor c = Fide.other c := by
  unfold switchColor Fide.other
  have : c = 0 ∨ c = 1 := by omega
  rcases this with rfl | rfl <;> rfl

theorem other_lt (c : Nat) : Fide.other c < 2 ∨ c ≥ 2 := by unfold Fide.other; omega

/-- own and enemy exclude each other; an occupied square is one or the other -/
theorem isOwn_excl (P : Fide.Pos) (c s : Nat) (hc : c < 2) :
    Fide.isOwn P c s = true → Fide.isOwn P (Fide.other c) s = false := by
  unfold Fide.isOwn Fide.other
  intro h
  simp only [Bool.and_eq_true, beq_iff_eq] at h
  simp only [Bool.and_eq_false_iff]
  right
  simp only [beq_eq_false_iff_ne]
  omega

end GM
end Clemens
